(* Ownership transfer through an atomic word is race free as soon as every publishing operation is (at least)
   release and every acquiring operation (at least) acquire — for every execution of the RA machine, any
   number of threads and cells, any interleaving of publications, acquisitions, bystander RMWs and stores. *)
From Coq Require Import List Arith Bool Lia.
Import ListNotations.
From YV Require Import lib.RA model.RAOwn.

Record Inv (s : st) : Prop := {
  j_race : race s = false;
  j_hist : hist s <> [];
  j_ls : last_store s < length (hist s);
  j_tb : forall u c, 1 <= c -> cur (thr_of s u) c <= ts s c /\ acqv (thr_of s u) c <= ts s c;
  j_mb : forall m c, In m (hist s) -> 1 <= c -> mview m c <= ts s c;
  j_own : forall u c, 1 <= c -> owner s c = Thread u -> cur (thr_of s u) c = ts s c;
  j_word : forall c k, 1 <= c -> owner s c = InWord k ->
           k < length (hist s) /\
           (last_store s <= k -> forall k' m, k <= k' -> nth_error (hist s) k' = Some m -> mview m c = ts s c)
}.

Lemma inv_init creator : Inv (init creator).
Proof.
  constructor.
  - reflexivity.
  - simpl. discriminate.
  - simpl. lia.
  - intros u c Hc. unfold init, thr0, vbot; simpl. split; lia.
  - intros m c [<-|[]] Hc. unfold vbot; simpl. lia.
  - intros u c Hc _. reflexivity.
  - intros c k Hc H. simpl in H. discriminate.
Qed.

Lemma nth_last {A} (l : list A) d : l <> [] -> nth_error l (length l - 1) = Some (last l d).
Proof.
  induction l as [|x l IH]; [congruence|]. intros _. destruct l as [|y l]; [reflexivity|].
  assert (E : length (x :: y :: l) - 1 = S (length (y :: l) - 1)) by (simpl; lia).
  rewrite E. change (nth_error (x :: y :: l) (S (length (y :: l) - 1))) with (nth_error (y :: l) (length (y :: l) - 1)).
  rewrite IH by discriminate. reflexivity.
Qed.

Lemma nth_app_new {A} (l : list A) x k m :
  nth_error (l ++ [x]) k = Some m -> (k < length l /\ nth_error l k = Some m) \/ (k = length l /\ m = x).
Proof.
  intros H. destruct (Nat.lt_ge_cases k (length l)) as [Hlt|Hge].
  - left. rewrite nth_error_app1 in H by exact Hlt. auto.
  - right. rewrite nth_error_app2 in H by exact Hge.
    destruct (k - length l) as [|d] eqn:E; simpl in H.
    + inversion H. split; [lia|reflexivity].
    + destruct d; discriminate.
Qed.

Lemma existsb_eqb_in c l : existsb (Nat.eqb c) l = true <-> In c l.
Proof.
  rewrite existsb_exists. split.
  - intros [x [Hx E]]. apply Nat.eqb_eq in E. subst. exact Hx.
  - intros H. exists c. split; [exact H|apply Nat.eqb_refl].
Qed.

Lemma set_owner_in f l x c : In c l -> set_owner f l x c = x.
Proof. intros H. unfold set_owner. apply existsb_eqb_in in H. rewrite H. reflexivity. Qed.
Lemma set_owner_out f l x c : ~ In c l -> set_owner f l x c = f c.
Proof.
  intros H. unfold set_owner. destruct (existsb (Nat.eqb c) l) eqn:E; [|reflexivity].
  apply existsb_eqb_in in E. contradiction.
Qed.

Lemma set_thr_eq f u t : set_thr f u t u = t.
Proof. unfold set_thr. rewrite Nat.eqb_refl. reflexivity. Qed.
Lemma set_thr_ne f u t v : v <> u -> set_thr f u t v = f v.
Proof. intros H. unfold set_thr. apply Nat.eqb_neq in H. rewrite H. reflexivity. Qed.

Lemma own_is_thread_true s u c : own_is_thread s u c = true -> owner s c = Thread u.
Proof. unfold own_is_thread. destruct (owner s c); [|discriminate]. intros H. apply Nat.eqb_eq in H. congruence. Qed.

Lemma own_in_word_true s i c : own_in_word_le s i c = true ->
  exists k, owner s c = InWord k /\ k <= i /\ last_store s <= k.
Proof.
  unfold own_in_word_le. destruct (owner s c) as [|k]; [discriminate|]. intros H.
  apply andb_true_iff in H. destruct H as [A B]. apply Nat.leb_le in A. apply Nat.leb_le in B. eauto.
Qed.

Ltac views := unfold a_read, rmw_write, store_write, na_access, vjoin, vset, vbot in *; simpl in *.

Lemma orb_false3 a b c d : a || b || c || d = false -> a = false /\ b = false /\ c = false /\ d = false.
Proof. destruct a, b, c, d; simpl; intros; try discriminate; auto. Qed.

Theorem inv_step s e s' : Inv s -> ev_ok e = true -> step s e = Some s' -> bad s' = false -> Inv s'.
Proof.
  intros I Hok H Hbad. destruct I as [Jrace Jhist Jls Jtb Jmb Jown Jword].
  destruct e as [u c|u o pubs acqs|u o i acqs|u o pubs]; simpl in H.
  - (* ENa *)
    destruct (Nat.eqb c 0) eqn:Ec0; [discriminate|]. apply Nat.eqb_neq in Ec0.
    injection H as <-. simpl in Hbad. apply orb_false_iff in Hbad. destruct Hbad as [Hb0 Hb].
    apply negb_false_iff in Hb. apply own_is_thread_true in Hb.
    assert (Hc : 1 <= c) by lia.
    pose proof (Jown _ _ Hc Hb) as Hcur.
    constructor; simpl.
    + rewrite Jrace, Hcur, Nat.eqb_refl. reflexivity.
    + exact Jhist.
    + exact Jls.
    + intros v x Hx. destruct (Nat.eq_dec v u) as [->|Hv].
      * rewrite set_thr_eq. simpl. destruct (Nat.eqb x c) eqn:E.
        -- destruct (Jtb u x Hx) as [A B]. apply Nat.eqb_eq in E. subst. lia.
        -- apply (Jtb u x Hx).
      * rewrite set_thr_ne by exact Hv. destruct (Jtb v x Hx) as [A B].
        destruct (Nat.eqb x c) eqn:E; [apply Nat.eqb_eq in E; subst|]; lia.
    + intros m x Hm Hx. specialize (Jmb m x Hm Hx).
      destruct (Nat.eqb x c) eqn:E; [apply Nat.eqb_eq in E; subst|]; lia.
    + intros v x Hx Ho. destruct (Nat.eq_dec v u) as [->|Hv].
      * rewrite set_thr_eq. simpl. destruct (Nat.eqb x c) eqn:E; [reflexivity|]. apply Jown; assumption.
      * rewrite set_thr_ne by exact Hv. destruct (Nat.eqb x c) eqn:E.
        -- apply Nat.eqb_eq in E. subst. congruence.
        -- apply Jown; assumption.
    + intros x k Hx Ho. destruct (Jword x k Hx Ho) as [A B]. split; [exact A|].
      intros Hl k' m Hk Hn. destruct (Nat.eqb x c) eqn:E.
      * apply Nat.eqb_eq in E. subst. congruence.
      * eapply B; eauto.
  - (* ERmw *)
    unfold rmw_write in H. injection H as <-. simpl in Hbad.
    apply orb_false3 in Hbad. destruct Hbad as (Hb0 & Hb1 & Hb2 & Hb3).
    apply negb_false_iff in Hb1. apply negb_false_iff in Hb2.
    rewrite forallb_forall in Hb1, Hb2.
    simpl in Hok. apply andb_true_iff in Hok. destruct Hok as [Hrel Hacq].
    remember (last_msg (hist s)) as m eqn:Em.
    assert (Hm : nth_error (hist s) (length (hist s) - 1) = Some m) by (subst m; apply nth_last; exact Jhist).
    clear Em.
    assert (Hmin : In m (hist s)) by (eapply nth_error_In; eauto).
    assert (Hdisj : forall c, In c pubs -> ~ In c acqs).
    { intros c Hp Ha. assert (existsb (fun c => existsb (Nat.eqb c) acqs) pubs = true).
      { apply existsb_exists. exists c. split; [exact Hp|]. apply existsb_eqb_in. exact Ha. }
      congruence. }
    (* the thread's view after the RMW, on cells *)
    assert (Hcur : forall c, 1 <= c ->
              cur (thr_of s u) c <= (if is_acq o then Nat.max (cur (thr_of s u) c) (mview m c) else cur (thr_of s u) c) /\
              (if is_acq o then Nat.max (cur (thr_of s u) c) (mview m c) else cur (thr_of s u) c) <= ts s c).
    { intros c Hc. destruct (Jtb u c Hc) as [A _]. specialize (Jmb m c Hmin Hc). destruct (is_acq o); cbv beta; simpl; lia. }
    constructor; simpl.
    + exact Jrace.
    + intros Ha. apply app_eq_nil in Ha. destruct Ha; discriminate.
    + rewrite app_length. simpl. lia.
    + intros v c Hc. destruct (Nat.eq_dec v u) as [->|Hv].
      * rewrite set_thr_eq. views. destruct (Jtb u c Hc) as [A B]. specialize (Jmb m c Hmin Hc).
        destruct c; [lia|]. simpl. destruct (is_acq o); cbv beta. lia. lia.
      * rewrite set_thr_ne by exact Hv. apply (Jtb v c Hc).
    + intros m' c Hin Hc. apply in_app_or in Hin. destruct Hin as [Hin|[<-|[]]].
      * apply (Jmb m' c Hin Hc).
      * views. destruct (Jtb u c Hc) as [A B]. specialize (Jmb m c Hmin Hc).
        destruct c; [lia|]. simpl. destruct (is_rel o), (is_acq o); cbv beta; simpl; lia.
    + intros v c Hc Ho.
      destruct (in_dec Nat.eq_dec c pubs) as [Hp|Hp]; [rewrite set_owner_in in Ho by exact Hp; discriminate|].
      rewrite set_owner_out in Ho by exact Hp.
      destruct (in_dec Nat.eq_dec c acqs) as [Ha|Ha].
      * rewrite set_owner_in in Ho by exact Ha. injection Ho as <-. rewrite set_thr_eq.
        destruct (own_in_word_true _ _ _ (Hb2 _ Ha)) as (k & Hk & Hle & Hls).
        destruct (Jword c k Hc Hk) as [_ B]. specialize (B Hls _ _ Hle Hm).
        assert (Hq : is_acq o = true) by (destruct acqs; [contradiction|exact Hacq]).
        views. rewrite Hq. destruct (Jtb u c Hc) as [A _]. destruct c; [lia|]. simpl. lia.
      * rewrite set_owner_out in Ho by exact Ha. destruct (Nat.eq_dec v u) as [->|Hv].
        -- rewrite set_thr_eq. pose proof (Jown _ _ Hc Ho) as E. specialize (Jmb m c Hmin Hc).
           views. destruct c; [lia|]. simpl. destruct (is_acq o); cbv beta; simpl; lia.
        -- rewrite set_thr_ne by exact Hv. apply Jown; assumption.
    + intros c k Hc Ho. rewrite app_length. simpl.
      destruct (in_dec Nat.eq_dec c pubs) as [Hp|Hp].
      * rewrite set_owner_in in Ho by exact Hp. injection Ho as <-. split; [lia|].
        intros _ k' m' Hk Hn. apply nth_app_new in Hn. destruct Hn as [[Hlt _]|[_ ->]]; [lia|].
        pose proof (Jown _ _ Hc (own_is_thread_true _ _ _ (Hb1 _ Hp))) as E.
        assert (Hq : is_rel o = true) by (destruct pubs; [contradiction|exact Hrel]).
        specialize (Jmb m c Hmin Hc). views. rewrite Hq. destruct c; [lia|]. simpl.
        destruct (is_acq o); cbv beta; simpl; lia.
      * rewrite set_owner_out in Ho by exact Hp.
        destruct (in_dec Nat.eq_dec c acqs) as [Ha|Ha]; [rewrite set_owner_in in Ho by exact Ha; discriminate|].
        rewrite set_owner_out in Ho by exact Ha.
        destruct (Jword c k Hc Ho) as [A B]. split; [lia|].
        intros Hls k' m' Hk Hn. apply nth_app_new in Hn. destruct Hn as [[Hlt Hn]|[_ ->]].
        -- eapply B; eauto.
        -- assert (E : mview m c = ts s c) by (eapply (B Hls (length (hist s) - 1)); [lia|exact Hm]).
           destruct (Jtb u c Hc) as [A1 _].
           views. destruct c; [lia|]. simpl. destruct (is_rel o), (is_acq o); cbv beta; simpl; lia.
  - (* ELoad *)
    destruct (nth_error (hist s) i) as [m|] eqn:Hm; [|discriminate].
    destruct (Nat.leb (cur (thr_of s u) 0) i); [|discriminate].
    injection H as <-. simpl in Hbad. apply orb_false_iff in Hbad. destruct Hbad as [Hb0 Hb2].
    apply negb_false_iff in Hb2. rewrite forallb_forall in Hb2. simpl in Hok.
    assert (Hmin : In m (hist s)) by (eapply nth_error_In; eauto).
    constructor; simpl.
    + exact Jrace.
    + exact Jhist.
    + exact Jls.
    + intros v c Hc. destruct (Nat.eq_dec v u) as [->|Hv].
      * rewrite set_thr_eq. views. destruct (Jtb u c Hc) as [A B]. specialize (Jmb m c Hmin Hc).
        destruct c; [lia|]. simpl. destruct (is_acq o); cbv beta; simpl; lia.
      * rewrite set_thr_ne by exact Hv. apply (Jtb v c Hc).
    + exact Jmb.
    + intros v c Hc Ho. destruct (in_dec Nat.eq_dec c acqs) as [Ha|Ha].
      * rewrite set_owner_in in Ho by exact Ha. injection Ho as <-. rewrite set_thr_eq.
        destruct (own_in_word_true _ _ _ (Hb2 _ Ha)) as (k & Hk & Hle & Hls).
        destruct (Jword c k Hc Hk) as [_ B]. specialize (B Hls _ _ Hle Hm).
        assert (Hq : is_acq o = true) by (destruct acqs; [contradiction|exact Hok]).
        views. rewrite Hq. destruct (Jtb u c Hc) as [A _]. destruct c; [lia|]. simpl. lia.
      * rewrite set_owner_out in Ho by exact Ha. destruct (Nat.eq_dec v u) as [->|Hv].
        -- rewrite set_thr_eq. pose proof (Jown _ _ Hc Ho) as E. specialize (Jmb m c Hmin Hc).
           views. destruct c; [lia|]. simpl. destruct (is_acq o); cbv beta; simpl; lia.
        -- rewrite set_thr_ne by exact Hv. apply Jown; assumption.
    + intros c k Hc Ho. destruct (in_dec Nat.eq_dec c acqs) as [Ha|Ha];
        [rewrite set_owner_in in Ho by exact Ha; discriminate|].
      rewrite set_owner_out in Ho by exact Ha. apply Jword; assumption.
  - (* EStore *)
    unfold store_write in H. injection H as <-. simpl in Hbad.
    apply orb_false_iff in Hbad. destruct Hbad as [Hb0 Hb1].
    apply negb_false_iff in Hb1. rewrite forallb_forall in Hb1. simpl in Hok.
    constructor; simpl.
    + exact Jrace.
    + intros Ha. apply app_eq_nil in Ha. destruct Ha; discriminate.
    + rewrite app_length. simpl. lia.
    + intros v c Hc. destruct (Nat.eq_dec v u) as [->|Hv].
      * rewrite set_thr_eq. views. destruct (Jtb u c Hc) as [A B]. destruct c; [lia|]. simpl. lia.
      * rewrite set_thr_ne by exact Hv. apply (Jtb v c Hc).
    + intros m' c Hin Hc. apply in_app_or in Hin. destruct Hin as [Hin|[<-|[]]].
      * apply (Jmb m' c Hin Hc).
      * views. destruct (Jtb u c Hc) as [A B]. destruct c; [lia|]. simpl. destruct (is_rel o); cbv beta; simpl; lia.
    + intros v c Hc Ho.
      destruct (in_dec Nat.eq_dec c pubs) as [Hp|Hp]; [rewrite set_owner_in in Ho by exact Hp; discriminate|].
      rewrite set_owner_out in Ho by exact Hp. destruct (Nat.eq_dec v u) as [->|Hv].
      * rewrite set_thr_eq. pose proof (Jown _ _ Hc Ho) as E. views. destruct c; [lia|]. simpl. exact E.
      * rewrite set_thr_ne by exact Hv. apply Jown; assumption.
    + intros c k Hc Ho. rewrite app_length. simpl.
      destruct (in_dec Nat.eq_dec c pubs) as [Hp|Hp].
      * rewrite set_owner_in in Ho by exact Hp. injection Ho as <-. split; [lia|].
        intros _ k' m' Hk Hn. apply nth_app_new in Hn. destruct Hn as [[Hlt _]|[_ ->]]; [lia|].
        pose proof (Jown _ _ Hc (own_is_thread_true _ _ _ (Hb1 _ Hp))) as E.
        assert (Hq : is_rel o = true) by (destruct pubs; [contradiction|exact Hok]).
        views. rewrite Hq. destruct c; [lia|]. simpl. exact E.
      * rewrite set_owner_out in Ho by exact Hp. destruct (Jword c k Hc Ho) as [A B]. split; [lia|].
        intros Hls. lia.
Qed.

Lemma bad_mono s e s' : step s e = Some s' -> bad s' = false -> bad s = false.
Proof.
  destruct e; simpl; intros H Hb.
  - destruct (Nat.eqb c 0); [discriminate|]. injection H as <-. simpl in Hb.
    apply orb_false_iff in Hb. tauto.
  - unfold rmw_write in H. injection H as <-. simpl in Hb. apply orb_false3 in Hb. tauto.
  - destruct (nth_error (hist s) i); [|discriminate]. destruct (Nat.leb _ _); [|discriminate].
    injection H as <-. simpl in Hb. apply orb_false_iff in Hb. tauto.
  - unfold store_write in H. injection H as <-. simpl in Hb. apply orb_false_iff in Hb. tauto.
Qed.

Lemma bad_mono_run tr : forall s s', run s tr = Some s' -> bad s' = false -> bad s = false.
Proof.
  induction tr as [|e tr IH]; simpl; intros s s' H Hb.
  - inversion H; subst; exact Hb.
  - destruct (step s e) as [s1|] eqn:E; [|discriminate]. eapply bad_mono; eauto.
Qed.

Theorem inv_run tr : forall s s', Inv s -> Forall (fun e => ev_ok e = true) tr ->
  run s tr = Some s' -> bad s' = false -> Inv s'.
Proof.
  induction tr as [|e tr IH]; simpl; intros s s' I Hok H Hb.
  - inversion H; subst; exact I.
  - destruct (step s e) as [s1|] eqn:E; [|discriminate]. inversion Hok; subst.
    apply (IH s1 s'); [|assumption|exact H|exact Hb].
    apply (inv_step s e s1 I); [assumption|exact E|]. exact (bad_mono_run _ _ _ H Hb).
Qed.

(* every execution that follows the ownership discipline with adequately ordered operations is race free *)
Theorem race_free creator tr s :
  Forall (fun e => ev_ok e = true) tr -> run (init creator) tr = Some s -> bad s = false -> race s = false.
Proof. intros Hok H Hb. exact (j_race _ (inv_run _ _ _ (inv_init creator) Hok H Hb)). Qed.

(* ---- necessity: a relaxed publication or a relaxed acquisition races ---- *)
Definition racy (tr : list ev) : bool :=
  match run (init (fun _ => 0)) tr with Some s => race s && negb (bad s) | None => false end.

Lemma publish_release_needed : racy [ENa 0 1; ERmw 0 Rlx [1] []; ERmw 1 Acq [] [1]; ENa 1 1] = true.
Proof. vm_compute. reflexivity. Qed.
Lemma acquire_needed : racy [ENa 0 1; ERmw 0 Rel [1] []; ERmw 1 Rlx [] [1]; ENa 1 1] = true.
Proof. vm_compute. reflexivity. Qed.
Lemma ok_on_witness : racy [ENa 0 1; ERmw 0 Rel [1] []; ERmw 1 Acq [] [1]; ENa 1 1] = false.
Proof. vm_compute. reflexivity. Qed.
(* a relaxed bystander RMW in between does not break the chain (release sequence) *)
Lemma bystander_rmw_ok : racy [ENa 0 1; ERmw 0 Rel [1] []; ERmw 2 Rlx [] []; ERmw 1 Acq [] [1]; ENa 1 1] = false.
Proof. vm_compute. reflexivity. Qed.
