(* CoSharedMutex: nobody is forgotten.  Every running coroutine's next event is enabled (unless it needs the spinlock
   while somebody is between the two halves of a section, and then that somebody's is); quiescent => all done. *)
From Coq Require Import List Arith Bool ZArith Lia.
Import ListNotations.
From YV Require Import model.CoSharedMutex proofs.CoSharedMutexLemmas proofs.CoSharedMutexInv
  proofs.CoSharedMutexProofs.

Lemma sees_refl : forall s, sees s (sw s) (sr s) = true.
Proof. intros. unfold sees. rewrite !Nat.eqb_refl. auto. Qed.

Lemma pcwl_pos : forall f l n, pcwl f l n >= 1 -> exists y, nth_error l n = Some y /\ f (pc y) >= 1.
Proof. unfold pcwl. intros. destruct (nth_error l n); [eauto | lia]. Qed.

Lemma parkq_inv : forall p, parkq_w p >= 1 -> p = PParkQ.
Proof. destruct p; simpl; intros; auto; lia. Qed.
Lemma parkr_inv : forall p, parkr_w p >= 1 -> p = PParkR.
Proof. destruct p; simpl; intros; auto; lia. Qed.
Lemma parkf_inv : forall p, parkf_w p >= 1 -> p = PParkF.
Proof. destruct p; simpl; intros; auto; lia. Qed.

(* the coroutine the caller is about to resume is suspended in the mutex, in the expected role *)
Lemma target_after : forall (l : list co) c v x n y p,
  nth_error l c = Some x -> nth_error l n = Some y -> pc y = p -> pc x <> p ->
  nth_error (set_nth c v l) n = Some y.
Proof.
  intros. rewrite (nth_error_set_nth _ l c n v x H). destruct (Nat.eq_dec n c); auto.
  subst. rewrite H in H0. inversion H0; subst. congruence.
Qed.

Lemma head_parkq : forall s n rest, inv s -> wq s = n :: rest ->
  exists y, nth_error (cos s) n = Some y /\ pc y = PParkQ.
Proof.
  intros s n rest I E. pose proof (i_occq s I n) as O. rewrite E in O. simpl in O.
  destruct (Nat.eq_dec n n); try congruence. unfold pcw in O.
  destruct (pcwl_pos parkq_w (cos s) n) as (y & G & P); [lia|]. exists y. split; auto. apply parkq_inv; auto.
Qed.

Lemma enabled_usrun : forall s c x, inv s -> get s c = Some x -> pc x = PUSRun ->
  exists f y, wfirst s = Some f /\ nth_error (cos s) f = Some y /\ pc y = PParkF.
Proof.
  intros s c x I G P. unfold get in G. inv_facts s I. unfold RT, NF, WT, cnt in *.
  pose proof (cntl_ge usrun_w (cos s) c x G) as U. rewrite P in U. simpl in U.
  assert (W : cntl own_w (cos s) + cntl runw_w (cos s) + cntl usrun_w (cos s) + cntl store_w (cos s) = 1) by lia.
  specialize (Ipb W). assert (Pf : cntl parkf_w (cos s) > 0) by lia.
  destruct (cntl_pos_ex parkf_w (cos s) Pf) as (f & y & Gf & Py).
  exists f, y. assert (pc y = PParkF) by (apply parkf_inv; lia). repeat split; auto.
  apply Ifirst. unfold pcw. rewrite (pcwl_at nf_w (cos s) f y Gf). rewrite H. reflexivity.
Qed.

Lemma enabled : forall s c x e, inv s -> get s c = Some x -> co_ev s c x = Some e ->
  (needs_spin (pc x) = true -> spin s = false) -> step s e <> None.
Proof.
  intros s c x e I G Ev Sp. unfold co_ev in Ev.
  destruct (pc x) eqn:P; inversion Ev; subst e; clear Ev; simpl in Sp;
    unfold step; rewrite G, P; rewrite ?sees_refl, ?Z.eqb_refl, ?eqb_reflx; try discriminate.
  - (* PRSSlow *)
    rewrite (Sp eq_refl). destruct (rpass s =? 0) eqn:Rp; simpl; [|discriminate].
    destruct (sw s =? 0) eqn:Z; [|discriminate]. exfalso. prep_b.
    pose proof (store_sw s I Z) as St. inv_facts s I. specialize (Ipa Z St).
    unfold get in G. pose proof (cntl_ge nt_w (cos s) c x G) as N. rewrite P in N. simpl in N.
    unfold cnt in *. lia.
  - (* PTSLoad *) destruct (sw s =? 0); discriminate.
  - (* PTSCas *)
    destruct (sw s =? 0) eqn:Z; destruct (sr s =? r) eqn:R; simpl; try discriminate.
  - (* PWLoad *) destruct ((sw s =? 0) && (sr s =? 0)); unfold wfail; destruct k; discriminate.
  - (* PWCas *) destruct (state_is s 0 0); unfold wfail; destruct k; discriminate.
  - (* PWSlow *) rewrite (Sp eq_refl). destruct (sw s =? 0); discriminate.
  - (* PUSSub *)
    destruct (sr s) eqn:R; [|discriminate]. exfalso. inv_facts s I. unfold RT, cnt in *.
    unfold get in G. pose proof (cntl_ge rtown_w (cos s) c x G) as N. rewrite P in N. simpl in N. lia.
  - (* PUSRun *)
    destruct (enabled_usrun s c x I G P) as (f & y & Wf & Gf & Py). rewrite Wf. rewrite Nat.eqb_refl.
    unfold get. cbn [cos set_co]. unfold get in G.
    rewrite (target_after (cos s) c (upd_pc POut x) x f y PParkF G Gf Py) by congruence. rewrite Py. discriminate.
  - (* PUWCas *) destruct (state_is s 1 0); discriminate.
  - (* PUWSlow *)
    rewrite (Sp eq_refl). unfold get in G. inv_facts s I. unfold RT, NF, WT, cnt in *.
    pose proof (cntl_ge own_w (cos s) c x G) as N. rewrite P in N. simpl in N.
    assert (W : cntl own_w (cos s) + cntl runw_w (cos s) + cntl usrun_w (cos s) + cntl store_w (cos s) = 1) by lia.
    specialize (Ipb W).
    destruct (sw s) eqn:Zs; [exfalso; lia|].
    unfold pass_readers, run_writer.
    repeat match goal with
      | |- context [if ?b then _ else _] => let E := fresh "E" in destruct b eqn:E
      | |- context [match wq s with _ => _ end] => let E := fresh "E" in destruct (wq s) eqn:E
    end; try discriminate; exfalso; prep_b; split_or; use_flags;
    try match goal with H : rq s = [] |- _ => rewrite H in *; clear H end; cbn [length] in *;
    try (assert (wprio s = 0) by (destruct (fifo s); auto; congruence));
    try lia.
  - (* PUWStore *)
    unfold get in G. inv_facts s I. unfold cnt in *.
    pose proof (cntl_ge store_w (cos s) c x G) as N. rewrite P in N. simpl in N.
    assert (St : cntl store_w (cos s) = 1) by (unfold WT, cnt in *; lia). specialize (Ipst St).
    destruct (wq s) eqn:Wq; [simpl in *; lia|].
    destruct (head_parkq s n l I Wq) as (y & Gy & Py).
    unfold get. cbn [cos set_co set_mx].
    rewrite (target_after (cos s) c _ x n y PParkQ G Gy Py) by congruence. rewrite Py. discriminate.
  - (* PUWRunW *)
    rewrite Nat.eqb_refl. unfold get in G. pose proof (i_occq s I n) as O.
    pose proof (cntl_ge (runwocc_w n) (cos s) c x G) as N. rewrite P in N. simpl in N.
    destruct (Nat.eq_dec n n); try congruence. unfold pcw, cnt in O.
    destruct (pcwl_pos parkq_w (cos s) n) as (y & Gy & Py); [lia|]. apply parkq_inv in Py.
    unfold get. cbn [cos set_co].
    rewrite (target_after (cos s) c _ x n y PParkQ G Gy Py) by congruence. rewrite Py. discriminate.
  - (* PUWRunR *)
    unfold get in G. pose proof (i_runr s I c) as Rn. unfold pcP, pcPl in Rn. rewrite G, P in Rn.
    destruct l as [|n rest]; [contradiction|]. simpl. rewrite Nat.eqb_refl.
    pose proof (i_occr s I n) as O.
    pose proof (cntl_ge (inflocc_w n) (cos s) c x G) as N. rewrite P in N. simpl in N.
    destruct (Nat.eq_dec n n); try congruence. unfold pcw, cnt in O.
    destruct (pcwl_pos parkr_w (cos s) n) as (y & Gy & Py); [lia|]. apply parkr_inv in Py.
    unfold get. cbn [cos set_co].
    rewrite (target_after (cos s) c _ x n y PParkR G Gy Py) by (rewrite P; congruence). rewrite Py. discriminate.
Qed.

(* ---- the holder of the spinlock between the two halves of a section can always finish it -------------------- *)
Lemma spin_holder : forall s, inv s -> spin s = true ->
  exists c x e, get s c = Some x /\ needs_spin (pc x) = false /\ co_ev s c x = Some e /\ step s e <> None.
Proof.
  intros s I Sp. pose proof (i_spin1 s I Sp) as H. unfold cnt in H.
  rewrite <- (cntl_plus add_w store_w) in H.
  destruct (cntl_pos_ex (fun p => add_w p + store_w p) (cos s)) as (c & x & G & P); [lia|].
  assert (N : needs_spin (pc x) = false) by (destruct (pc x); simpl in *; auto; lia).
  assert (exists e, co_ev s c x = Some e) as (e & Ev).
  { unfold co_ev. destruct (pc x); simpl in *; eauto; lia. }
  exists c, x, e. repeat split; auto. eapply enabled; eauto; try (rewrite N; discriminate).
Qed.

Lemma forallb_false_ex : forall A (f : A -> bool) l, forallb f l = false ->
  exists c x, nth_error l c = Some x /\ f x = false.
Proof.
  induction l; simpl; intros; try discriminate.
  destruct (f a) eqn:E.
  - destruct (IHl H) as (c & x & G & F). exists (S c), x. auto.
  - exists 0, a. auto.
Qed.

(* as long as a coroutine is running or runnable, some event is enabled *)
Lemma thm_progress : forall s, inv s -> quiescent s = false -> exists e s', step s e = Some s'.
Proof.
  intros s I Q. unfold quiescent in Q. destruct (forallb_false_ex _ _ _ Q) as (c & x & G & F).
  assert (exists e, co_ev s c x = Some e) as (e & Ev).
  { unfold co_ev, passive in *. destruct (pc x); simpl in *; eauto; discriminate. }
  destruct (spin s) eqn:Sp.
  - destruct (spin_holder s I Sp) as (c' & x' & e' & _ & _ & _ & En).
    destruct (step s e') eqn:St; [eauto | congruence].
  - assert (En : step s e <> None) by (eapply enabled; eauto).
    destruct (step s e) eqn:St; [eauto | congruence].
Qed.

(* ---- quiescent => nobody is parked ---------------------------------------------------------------------------- *)
Lemma quiet_zero : forall s f, quiescent s = true -> (forall p, (p = PDone \/ parked p = true) -> f p = 0) ->
  cnt f s = 0.
Proof.
  intros s f Q Hf. unfold cnt. apply cntl_all_zero. intros x Hx. unfold quiescent in Q.
  rewrite forallb_forall in Q. specialize (Q x Hx). unfold passive in Q. apply Hf.
  destruct (pc x); simpl in *; auto; discriminate.
Qed.

Lemma thm_quiescent : forall s, inv s -> quiescent s = true ->
  sw s = 0 /\ sr s = 0 /\ rq s = [] /\ wq s = [] /\ rpass s = 0 /\ rwait s = 0%Z /\ spin s = false /\
  forall c x, get s c = Some x -> pc x = PDone.
Proof.
  intros s I Q.
  assert (Z : forall f, (forall p, (p = PDone \/ parked p = true) -> f p = 0) -> cnt f s = 0)
    by (intros; apply quiet_zero; auto).
  assert (Zrtown : cnt rtown_w s = 0) by (apply Z; intros p [->|Hp]; auto; destruct p; simpl in *; auto; discriminate).
  assert (Zinfl : cnt infl_w s = 0) by (apply Z; intros p [->|Hp]; auto; destruct p; simpl in *; auto; discriminate).
  assert (Znt : cnt nt_w s = 0) by (apply Z; intros p [->|Hp]; auto; destruct p; simpl in *; auto; discriminate).
  assert (Zd : cnt d_w s = 0) by (apply Z; intros p [->|Hp]; auto; destruct p; simpl in *; auto; discriminate).
  assert (Zown : cnt own_w s = 0) by (apply Z; intros p [->|Hp]; auto; destruct p; simpl in *; auto; discriminate).
  assert (Zrunw : cnt runw_w s = 0) by (apply Z; intros p [->|Hp]; auto; destruct p; simpl in *; auto; discriminate).
  assert (Zusrun : cnt usrun_w s = 0) by (apply Z; intros p [->|Hp]; auto; destruct p; simpl in *; auto; discriminate).
  assert (Zstore : cnt store_w s = 0) by (apply Z; intros p [->|Hp]; auto; destruct p; simpl in *; auto; discriminate).
  assert (Zadd : cnt add_w s = 0) by (apply Z; intros p [->|Hp]; auto; destruct p; simpl in *; auto; discriminate).
  pose proof (add_addr (cos s)) as Za. fold (cnt add_w s) in Za. fold (cnt addr_w s) in Za. specialize (Za Zadd).
  inv_facts s I. unfold RT, NF, WT in *.
  assert (Zsw : sw s = 0).
  { destruct (Nat.eq_dec (sw s) 0); auto. exfalso.
    assert (W : cnt own_w s + cnt runw_w s + cnt usrun_w s + cnt store_w s = 0) by lia.
    specialize (Ipc W n). lia. }
  specialize (Ipa Zsw Zstore).
  assert (Sp : spin s = false) by (destruct (spin s); auto; specialize (Ispin1 eq_refl); lia).
  repeat match goal with |- _ /\ _ => split end; auto; try lia.
  - destruct (rq s); auto. simpl in *. lia.
  - destruct (wq s); auto. simpl in *. lia.
  - intros c x G. unfold get in G.
    pose proof (cntl_ge parkr_w (cos s) c x G). pose proof (cntl_ge parkq_w (cos s) c x G).
    pose proof (cntl_ge parkf_w (cos s) c x G). unfold cnt in *.
    unfold quiescent in Q. rewrite forallb_forall in Q. specialize (Q x (nth_error_In _ _ G)).
    unfold passive in Q. destruct (pc x); simpl in *; auto; try discriminate; lia.
Qed.

(* ---- every parked coroutine is in exactly one place; the phases ------------------------------------------------ *)
Lemma thm_parked : forall f rf n tr s, run (init f rf n) tr = Some s ->
  (* a reader suspended in the mutex is exactly once in the readers' queue or in the local list of the unlocker that
     is resuming it; nobody else is there *)
  (forall c, count_occ Nat.eq_dec (rq s) c + cnt (inflocc_w c) s =
             match get s c with Some x => parkr_w (pc x) | None => 0 end) /\
  (* a queued writer is exactly once in the writers' list or is the node RunWriter has popped and is resuming *)
  (forall c, count_occ Nat.eq_dec (wq s) c + cnt (runwocc_w c) s =
             match get s c with Some x => parkq_w (pc x) | None => 0 end) /\
  (* the first writer is the one _writers_first points to; there is at most one *)
  (forall c x, get s c = Some x -> nf_w (pc x) = 1 -> wfirst s = Some c) /\ cnt nf_w s <= 1 /\
  (* the state of the mutex is one of: no writer and nobody queued; the exclusive lock is owned or being handed over
     by somebody who is running; the first writer waits for at least one reader token / credit / pending decrement *)
  ((sw s = 0 /\ rq s = [] /\ wq s = [] /\ cnt nf_w s = 0 /\ cnt wt_w s = 0) \/
   cnt wt_w s = 1 \/
   (cnt nf_w s = 1 /\ cnt wt_w s = 0 /\ rpass s <= cnt nt_w s /\
    (cnt add_w s = 1 \/
     (cnt parkf_w s = 1 /\ (rwait s >= 1)%Z /\ rwait s = Z.of_nat (cnt rt_w s + rpass s + cnt d_w s))))).
Proof.
  intros f rf n tr s H. pose proof (inv_reach _ _ _ _ _ H) as I.
  pose proof (cnt_wt s) as Ew. pose proof (cnt_rt s) as Er. pose proof (cnt_nf s) as En.
  pose proof (store_sw s I) as Ss. inv_facts s I. unfold pcw, pcwl in *.
  split; [exact Ioccr|]. split; [exact Ioccq|]. split.
  { intros c x G Nf. apply Ifirst. unfold get in G. rewrite G. auto. }
  split; [lia|].
  rewrite Ew, Er, En. unfold RT, NF, WT in *.
  destruct (Nat.eq_dec (cnt own_w s + cnt runw_w s + cnt usrun_w s + cnt store_w s) 1) as [W|W]; [auto|].
  assert (W0 : cnt own_w s + cnt runw_w s + cnt usrun_w s + cnt store_w s = 0) by lia.
  destruct (Nat.eq_dec (sw s) 0) as [Z|Z].
  - left. specialize (Ipa Z (Ss Z)). repeat split; try lia.
    + destruct (rq s); auto; simpl in *; lia.
    + destruct (wq s); auto; simpl in *; lia.
  - right; right. specialize (Ipc W0 Z). destruct Ipc as (P1 & P2 & P3 & P4 & P5).
    pose proof (add_addr (cos s)) as Za. fold (cnt add_w s) in Za. fold (cnt addr_w s) in Za.
    split; [lia|]. split; [lia|]. split; [lia|].
    destruct (Nat.eq_dec (cnt add_w s) 0) as [A|A].
    + right. specialize (P4 A). specialize (Za A). lia.
    + left. lia.
Qed.
