(* Generic lemmas for the CoSharedMutex proofs: set_nth / nth_error, weighted counts over the coroutine list and how
   they change when one coroutine moves, pointwise views of a coroutine's pc. *)
From Coq Require Import List Arith Bool ZArith Lia.
Import ListNotations.
From YV Require Import model.CoSharedMutex.

Lemma nth_error_set_nth_eq : forall A (l : list A) c v x,
  nth_error l c = Some x -> nth_error (set_nth c v l) c = Some v.
Proof. induction l; destruct c; simpl; intros; try discriminate; eauto. Qed.

Lemma nth_error_set_nth_neq : forall A (l : list A) c n v,
  n <> c -> nth_error (set_nth c v l) n = nth_error l n.
Proof. induction l; destruct c, n; simpl; intros; try congruence; auto. Qed.

Lemma nth_error_set_nth : forall A (l : list A) c n v x,
  nth_error l c = Some x ->
  nth_error (set_nth c v l) n = if Nat.eq_dec n c then Some v else nth_error l n.
Proof.
  intros. destruct (Nat.eq_dec n c).
  - subst. eapply nth_error_set_nth_eq; eauto.
  - apply nth_error_set_nth_neq; auto.
Qed.

Lemma length_set_nth : forall A (l : list A) c v, length (set_nth c v l) = length l.
Proof. induction l; destruct c; simpl; intros; auto. Qed.

Lemma cntl_set_nth : forall f l c x v,
  nth_error l c = Some x -> cntl f (set_nth c v l) + f (pc x) = cntl f l + f (pc v).
Proof.
  unfold cntl. induction l; destruct c; simpl; intros; try discriminate.
  - inversion H; subst. lia.
  - specialize (IHl _ _ v H). lia.
Qed.

Lemma cntl_ge : forall f l c x, nth_error l c = Some x -> f (pc x) <= cntl f l.
Proof.
  unfold cntl. induction l; destruct c; simpl; intros; try discriminate.
  - inversion H; subst. lia.
  - specialize (IHl _ _ H). lia.
Qed.

Lemma cntl_two : forall f l c n x y,
  c <> n -> nth_error l c = Some x -> nth_error l n = Some y -> f (pc x) + f (pc y) <= cntl f l.
Proof.
  unfold cntl. induction l; destruct c, n; simpl; intros; try discriminate; try congruence.
  - inversion H0; subst. pose proof (cntl_ge f l n y H1). unfold cntl in *. lia.
  - inversion H1; subst. pose proof (cntl_ge f l c x H0). unfold cntl in *. lia.
  - assert (c <> n) by congruence. specialize (IHl _ _ _ _ H2 H0 H1). lia.
Qed.

Lemma cntl_zero_imp : forall f g l, (forall p, f p = 0 -> g p = 0) -> cntl f l = 0 -> cntl g l = 0.
Proof.
  unfold cntl. induction l; simpl; intros; auto.
  assert (f (pc a) = 0) by lia. rewrite (H _ H1). rewrite IHl; auto; lia.
Qed.

Lemma cntl_le : forall f g l, (forall p, f p <= g p) -> cntl f l <= cntl g l.
Proof. unfold cntl. induction l; simpl; intros; auto. specialize (H (pc a)) as Ha. specialize (IHl H). lia. Qed.

Lemma cntl_pos_ex : forall f l, cntl f l > 0 -> exists c x, nth_error l c = Some x /\ f (pc x) > 0.
Proof.
  unfold cntl. induction l; simpl; intros; try lia.
  destruct (Nat.eq_dec (f (pc a)) 0).
  - destruct IHl as (c & x & H1 & H2); [lia|]. exists (S c), x. auto.
  - exists 0, a. split; auto. lia.
Qed.

Lemma cntl_all_zero : forall f l, (forall x, In x l -> f (pc x) = 0) -> cntl f l = 0.
Proof. unfold cntl. induction l; simpl; intros; auto. rewrite H by auto. rewrite IHl; auto. Qed.

Lemma cntl_repeat : forall f x n, cntl f (repeat x n) = n * f (pc x).
Proof. unfold cntl. induction n; simpl; auto. Qed.

(* ---- pointwise views ------------------------------------------------------------------------------------- *)
Definition pcwl (f : pcs -> nat) (l : list co) (n : nat) : nat :=
  match nth_error l n with Some y => f (pc y) | None => 0 end.
Definition pcPl (P : pcs -> Prop) (l : list co) (n : nat) : Prop :=
  match nth_error l n with Some y => P (pc y) | None => True end.
Definition pcw (f : pcs -> nat) (s : st) (n : nat) : nat := pcwl f (cos s) n.
Definition pcP (P : pcs -> Prop) (s : st) (n : nat) : Prop := pcPl P (cos s) n.

Lemma pcwl_ge : forall f l n, pcwl f l n <= cntl f l.
Proof.
  unfold pcwl. intros. destruct (nth_error l n) eqn:E; [|lia]. eapply cntl_ge; eauto.
Qed.

Lemma pcwl_set_nth : forall f l c v x n,
  nth_error l c = Some x -> pcwl f (set_nth c v l) n = if Nat.eq_dec n c then f (pc v) else pcwl f l n.
Proof.
  unfold pcwl. intros. rewrite (nth_error_set_nth _ _ _ n v x H). destruct (Nat.eq_dec n c); auto.
Qed.
Lemma pcPl_set_nth : forall P l c v x n,
  nth_error l c = Some x -> pcPl P (set_nth c v l) n = if Nat.eq_dec n c then P (pc v) else pcPl P l n.
Proof.
  unfold pcPl. intros. rewrite (nth_error_set_nth _ _ _ n v x H). destruct (Nat.eq_dec n c); auto.
Qed.
Lemma pcwl_at : forall f l c x, nth_error l c = Some x -> pcwl f l c = f (pc x).
Proof. unfold pcwl. intros. rewrite H. auto. Qed.

Lemma count_occ_app1 : forall l n c,
  count_occ Nat.eq_dec (l ++ [c]) n = count_occ Nat.eq_dec l n + (if Nat.eq_dec c n then 1 else 0).
Proof. intros. rewrite count_occ_app. simpl. destruct (Nat.eq_dec c n); lia. Qed.

Lemma count_occ_cons1 : forall l n c,
  count_occ Nat.eq_dec (c :: l) n = count_occ Nat.eq_dec l n + (if Nat.eq_dec c n then 1 else 0).
Proof. intros. simpl. destruct (Nat.eq_dec c n); lia. Qed.

Lemma count_occ_le_length : forall (l : list nat) n, count_occ Nat.eq_dec l n <= length l.
Proof. induction l; simpl; intros; auto. destruct (Nat.eq_dec a n); specialize (IHl n); lia. Qed.

(* the weights that are implied to vanish together *)
Lemma add_addr : forall l, cntl add_w l = 0 -> cntl addr_w l = 0.
Proof. intros. eapply cntl_zero_imp; [|eauto]. destruct p; simpl; intros; auto; discriminate. Qed.
Lemma store_storew : forall l, cntl store_w l = 0 -> cntl storew_w l = 0.
Proof. intros. eapply cntl_zero_imp; [|eauto]. destruct p; simpl; intros; auto; discriminate. Qed.
Lemma infl_inflocc : forall n l, cntl infl_w l = 0 -> cntl (inflocc_w n) l = 0.
Proof.
  intros. eapply cntl_zero_imp; [|eauto]. destruct p; simpl; intros; auto.
  destruct l0; simpl in *; auto; discriminate.
Qed.
Lemma runw_runwocc : forall n l, cntl runw_w l = 0 -> cntl (runwocc_w n) l = 0.
Proof. intros. eapply cntl_zero_imp; [|eauto]. destruct p; simpl; intros; auto; discriminate. Qed.
Lemma inw_le_own : forall l, cntl inw_w l <= cntl own_w l.
Proof. intros. apply cntl_le. destruct p; simpl; auto; destruct w; auto. Qed.
Lemma inr_le_rtown : forall l, cntl inr_w l <= cntl rtown_w l.
Proof. intros. apply cntl_le. destruct p; simpl; auto; destruct w; auto. Qed.
