(* Preservation of the invariant, part 2: the spinlock sections and the hand-overs (the events that touch the queues,
   the credits, the local lists of unlockers, or move two coroutines). *)
From Coq Require Import List Arith Bool ZArith Lia.
Import ListNotations.
From YV Require Import model.CoSharedMutex proofs.CoSharedMutexLemmas proofs.CoSharedMutexInv.

Lemma inv_ERSSlow : forall s c cr s', inv s -> step s (ERSSlow c cr) = Some s' -> inv s'.
Proof.
  intros s c cr s' I H. start_event H.
  - (* queued *)
    pose proof (rq_push_length s c).
    arith_facts; open_phase s I; open_inv' I; use_flags; try lia; open_goal; fin_all.
    all: occ_simpl.
  - (* took a credit *)
    simple_event s I.
Qed.

Lemma inv_EWSlow : forall s c w r s', inv s -> step s (EWSlow c w r) = Some s' -> inv s'.
Proof.
  intros s c w r s' I H. start_event H.
  all: try (assert (length (wq s ++ [c]) = S (length (wq s))) by (rewrite app_length; simpl; lia)).
  all: arith_facts; open_phase s I; open_inv' I; use_flags; try lia; open_goal; fin_all.
  all: occ_simpl.
  all: no_first.
Qed.

Lemma inv_EUSRun : forall s c f s', inv s -> step s (EUSRun c f) = Some s' -> inv s'.
Proof.
  intros s c f s' I H. start_event H. second_lookup.
  arith_facts2; open_phase s I; open_inv' I; use_flags; try lia; open_goal; rw_flags; fin_all2.
Qed.

Lemma inv_EUWStore : forall s c v s', inv s -> step s (EUWStore c v) = Some s' -> inv s'.
Proof.
  intros s c v s' I H. start_event H. all: second_lookup.
  all: match goal with H : wq ?s = _ :: _ |- _ => pose proof (f_equal (@length nat) H); cbn [length] in * end.
  all: arith_facts2; open_phase s I; open_inv' I; use_flags; try lia; open_goal; rw_flags.
  all: try match goal with H : wq ?s = _ :: _ |- _ => rewrite H in * end.
  all: fin_all2.
  all: try no_first.
  all: rq_nonempty s.
Qed.

