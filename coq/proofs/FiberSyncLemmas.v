(* Shared lemmas and tactics for the FiberSync proofs. *)
From Coq Require Import List Arith Bool Lia.
Import ListNotations.
From YV Require Import model.FiberSync.

Lemma mem_In f l : mem f l = true <-> In f l.
Proof.
  unfold mem. rewrite existsb_exists. split.
  - intros [x [H E]]. apply Nat.eqb_eq in E. subst. exact H.
  - intros H. exists f. split; [exact H|apply Nat.eqb_refl].
Qed.

Lemma mem_false f l : mem f l = false <-> ~ In f l.
Proof.
  split.
  - intros H I. apply mem_In in I. congruence.
  - intros H. destruct (mem f l) eqn:E; [|reflexivity]. apply mem_In in E. contradiction.
Qed.

Lemma In_rem g f l : In g (rem f l) <-> In g l /\ g <> f.
Proof.
  unfold rem. rewrite filter_In. split.
  - intros [H E]. split; [exact H|]. intro. subst. rewrite Nat.eqb_refl in E. discriminate.
  - intros [H E]. split; [exact H|]. apply Nat.eqb_neq in E. rewrite E. reflexivity.
Qed.

Lemma not_In_rem f l : ~ In f (rem f l).
Proof. rewrite In_rem. intros [_ H]. congruence. Qed.

Lemma rem_not_In f l : ~ In f l -> rem f l = l.
Proof.
  unfold rem. induction l as [|x l IH]; simpl; intros H; [reflexivity|].
  destruct (Nat.eqb_spec x f).
  - subst. exfalso. apply H. left. reflexivity.
  - simpl. f_equal. apply IH. intro. apply H. right. assumption.
Qed.

Lemma rem_single f : rem f [f] = [].
Proof. unfold rem. simpl. rewrite Nat.eqb_refl. reflexivity. Qed.

Lemma upd_eq {A} (m : fid -> A) i v : upd m i v i = v.
Proof. unfold upd. rewrite Nat.eqb_refl. reflexivity. Qed.

Lemma upd_neq {A} (m : fid -> A) i v j : j <> i -> upd m i v j = m j.
Proof. unfold upd. intros H. apply Nat.eqb_neq in H. rewrite H. reflexivity. Qed.

Lemma In_app1 {A} (x y : A) l : In x (l ++ [y]) <-> In x l \/ x = y.
Proof. rewrite in_app_iff. simpl. intuition. Qed.

Lemma nonempty_true {A} (l : list A) : nonempty l = true <-> l <> [].
Proof. destruct l; simpl; split; congruence. Qed.

Lemma nonempty_false {A} (l : list A) : nonempty l = false <-> l = [].
Proof. destruct l; simpl; split; congruence. Qed.

(* what NotifyOne can do *)
Lemma notify_one_spec q p q' gone :
  notify_one q p = Some (q', gone) ->
  (q = [] /\ q' = [] /\ gone = []) \/ (exists g, In g q /\ q' = rem g q /\ gone = [g]).
Proof.
  unfold notify_one. destruct q as [|x q].
  - intros H. inversion H. left. auto.
  - destruct (nth_error (x :: q) p) as [g|] eqn:E; [|discriminate].
    intros H. inversion H. right. exists g. split; [|auto]. eapply nth_error_In. exact E.
Qed.

Lemma notify_one_total q p : q <> [] -> p < length q -> exists g, notify_one q p = Some (rem g q, [g]) /\ In g q.
Proof.
  intros Hq Hp. unfold notify_one. destruct q as [|x q]; [congruence|].
  destruct (nth_error (x :: q) p) as [g|] eqn:E.
  - exists g. split; [reflexivity|]. eapply nth_error_In. exact E.
  - apply nth_error_None in E. lia.
Qed.

Lemma wait_status_spec f q dl t r :
  wait_status f q dl t = Some r ->
  (r = true /\ ~ In f q) \/ (r = false /\ In f q /\ exists d, dl = Some d /\ d + tick <= t).
Proof.
  unfold wait_status, fired. destruct (mem f q) eqn:M.
  - destruct dl as [d|]; [|discriminate]. destruct (Nat.leb (d + tick) t) eqn:L; [|discriminate].
    intros H. inversion H. right. apply mem_In in M. apply Nat.leb_le in L. eauto 6.
  - intros H. inversion H. left. apply mem_false in M. auto.
Qed.

Lemma deadline_dur now d : deadline now (Dur d) = now + d.
Proof. reflexivity. Qed.

(* generic tactics *)
Ltac inv H := inversion H; subst; clear H.
Ltac some_inv :=
  repeat match goal with
         | H : Some _ = Some _ |- _ => inv H
         | H : None = Some _ |- _ => discriminate H
         | H : Some _ = None |- _ => discriminate H
         end.
Ltac case_hyp H :=
  match type of H with
  | context [match ?x with _ => _ end] => let E := fresh "E" in destruct x eqn:E
  | context [if ?x then _ else _] => let E := fresh "E" in destruct x eqn:E
  end.
Ltac boolp :=
  repeat match goal with
         | H : _ && _ = true |- _ => apply andb_true_iff in H; destruct H
         | H : _ || _ = false |- _ => apply orb_false_iff in H; destruct H
         | H : negb _ = true |- _ => apply negb_true_iff in H
         | H : negb _ = false |- _ => apply negb_false_iff in H
         | H : mem _ _ = true |- _ => apply mem_In in H
         | H : mem _ _ = false |- _ => apply mem_false in H
         | H : Nat.leb _ _ = true |- _ => apply Nat.leb_le in H
         | H : Nat.leb _ _ = false |- _ => apply Nat.leb_gt in H
         | H : Nat.eqb _ _ = true |- _ => apply Nat.eqb_eq in H
         | H : Nat.eqb _ _ = false |- _ => apply Nat.eqb_neq in H
         | H : Nat.ltb _ _ = true |- _ => apply Nat.ltb_lt in H
         | H : Nat.ltb _ _ = false |- _ => apply Nat.ltb_ge in H
         end.
