(* Invariant of the Await transition system (every schedule, any number of coroutines / awaited objects / executors /
   threads) and the facts the C13 theorems are made of.

   Shape of the invariant, per coroutine c (record co), with k = the number of callbacks of c that are registered with
   some object or taken out by its exchange and not yet fired:
     B  the counter of the awaiter and k (counter = k + [suspender has not subtracted] + [objects not yet tried])
     C  every awaited object already tried is complete or holds c's callback; past the co_await: all complete
     D  c is in executor x's queue exactly when it is AQueued x, once
     W  where it is resumed / submitted agrees with the form of the co_await
     E  one record per co_await passed, each with everything complete, the right place and the awaited value
     F  local and frame destruction counters
     H  the coroutine's own Result
   The coroutines other than the one that moves are handled once and for all by [ext]: what they depend on only grows. *)
From Coq Require Import List Arith Bool Lia.
Import ListNotations.
From YV Require Import gen.Gen_ready_c13 model.Await.



(* ---------------------------------------------------------------- lists *)
Set Implicit Arguments.

Lemma nth_error_upd : forall A (l : list A) i j x,
  nth_error (upd l i x) j = if Nat.eqb i j then match nth_error l i with Some _ => Some x | None => None end
                            else nth_error l j.
Proof.
  induction l as [|a l IH]; intros i j x.
  - simpl. destruct (Nat.eqb i j); destruct i, j; auto.
  - destruct i, j; simpl; auto.
Qed.

Lemma nth_error_upd_eq : forall A (l : list A) i x y, nth_error l i = Some y -> nth_error (upd l i x) i = Some x.
Proof. intros. rewrite nth_error_upd, Nat.eqb_refl, H. auto. Qed.

Lemma nth_error_upd_neq : forall A (l : list A) i j x, i <> j -> nth_error (upd l i x) j = nth_error l j.
Proof. intros. rewrite nth_error_upd. apply Nat.eqb_neq in H. rewrite H. auto. Qed.

Lemma upd_length : forall A (l : list A) i x, length (upd l i x) = length l.
Proof. induction l; intros [|i] x; simpl; auto. Qed.

Fixpoint cocc (c : nat) (l : list nat) : nat :=
  match l with [] => 0 | x :: r => (if Nat.eqb x c then 1 else 0) + cocc c r end.

Lemma cocc_app c l1 l2 : cocc c (l1 ++ l2) = cocc c l1 + cocc c l2.
Proof. induction l1; simpl; auto. rewrite IHl1. lia. Qed.

Lemma cocc_in c l : In c l <-> 1 <= cocc c l.
Proof.
  induction l; simpl; split; intros; try lia; try tauto.
  - destruct H as [->|H]. rewrite Nat.eqb_refl. lia. apply IHl in H. lia.
  - destruct (Nat.eqb a c) eqn:E. apply Nat.eqb_eq in E. auto. right. apply IHl. lia.
Qed.

Lemma cocc_zero c l : cocc c l = 0 -> ~ In c l.
Proof. intros H Hi. apply cocc_in in Hi. lia. Qed.

Lemma mem_in c l : mem c l = true <-> In c l.
Proof.
  induction l; simpl; split; intros; try discriminate; try tauto.
  - apply orb_true_iff in H. destruct H. apply Nat.eqb_eq in H. auto. right. apply IHl. auto.
  - apply orb_true_iff. destruct H as [->|H]. left. apply Nat.eqb_refl. right. apply IHl. auto.
Qed.

Lemma cocc_remove1_same c l : In c l -> cocc c (remove1 c l) + 1 = cocc c l.
Proof.
  induction l; simpl; intros; try tauto.
  destruct (Nat.eqb a c) eqn:E; simpl. lia.
  rewrite E. destruct H. apply Nat.eqb_neq in E. congruence. apply IHl in H. lia.
Qed.

Lemma cocc_remove1_other c c' l : c' <> c -> cocc c' (remove1 c l) = cocc c' l.
Proof.
  intros N. induction l; simpl; auto.
  destruct (Nat.eqb a c) eqn:E; simpl.
  - apply Nat.eqb_eq in E. subst. destruct (Nat.eqb c c') eqn:E2; auto. apply Nat.eqb_eq in E2. congruence.
  - rewrite IHl. auto.
Qed.

Fixpoint lsum (A : Type) (f : A -> nat) (l : list A) : nat :=
  match l with [] => 0 | x :: r => f x + lsum f r end.

Lemma lsum_upd : forall A (f : A -> nat) (l : list A) i a b,
  nth_error l i = Some a -> lsum f (upd l i b) + f a = lsum f l + f b.
Proof.
  induction l; intros [|i] x b H; simpl in *; try discriminate.
  - inversion H. subst. lia.
  - specialize (IHl _ _ b H). lia.
Qed.

Lemma lsum_ge : forall A (f : A -> nat) (l : list A) i a, nth_error l i = Some a -> f a <= lsum f l.
Proof.
  induction l; intros [|i] x H; simpl in *; try discriminate.
  - inversion H. subst. lia.
  - specialize (IHl _ _ H). lia.
Qed.

Lemma lsum_Forall2 : forall A (f : A -> nat) (l l' : list A),
  Forall2 (fun a b => f b = f a) l l' -> lsum f l' = lsum f l.
Proof. induction 1; simpl; auto; lia. Qed.

Lemma Forall2_nth : forall A (R : A -> A -> Prop) l l' i a,
  Forall2 R l l' -> nth_error l i = Some a -> exists b, nth_error l' i = Some b /\ R a b.
Proof.
  intros A R l l' i a H. revert i a. induction H; intros [|i] a H1; simpl in *; try discriminate.
  - inversion H1. subst. eauto.
  - eauto.
Qed.

Lemma Forall2_nth_rev : forall A (R : A -> A -> Prop) l l' i b,
  Forall2 R l l' -> nth_error l' i = Some b -> exists a, nth_error l i = Some a /\ R a b.
Proof.
  intros A R l l' i b H. revert i b. induction H; intros [|i] b H1; simpl in *; try discriminate.
  - inversion H1. subst. eauto.
  - eauto.
Qed.

Lemma Forall2_refl : forall A (R : A -> A -> Prop) l, (forall a, R a a) -> Forall2 R l l.
Proof. induction l; auto. Qed.

Lemma Forall2_upd : forall A (R : A -> A -> Prop) l i a b,
  (forall a, R a a) -> nth_error l i = Some a -> R a b -> Forall2 R l (upd l i b).
Proof.
  induction l; intros [|i] x b Rf H Hr; simpl in *; try discriminate.
  - inversion H. subst. constructor; auto. apply Forall2_refl; auto.
  - constructor; auto. eapply IHl; eauto.
Qed.

Lemma Forall2_trans : forall A (R : A -> A -> Prop) l1 l2 l3,
  (forall a b c, R a b -> R b c -> R a c) -> Forall2 R l1 l2 -> Forall2 R l2 l3 -> Forall2 R l1 l3.
Proof.
  intros A R l1 l2 l3 T H. revert l3. induction H; intros l3 H2; inversion H2; subst; constructor; eauto.
Qed.

Lemma Forall2_imp : forall A (R R' : A -> A -> Prop) l l',
  (forall a b, R a b -> R' a b) -> Forall2 R l l' -> Forall2 R' l l'.
Proof. induction 2; constructor; auto. Qed.

Lemma Forall_upd : forall A (P : A -> Prop) l i b, Forall P l -> P b -> Forall P (upd l i b).
Proof. induction l; intros [|i] b H Hb; simpl; auto; inversion H; subst; constructor; auto. Qed.

Lemma Forall_nth : forall A (P : A -> Prop) l i a, Forall P l -> nth_error l i = Some a -> P a.
Proof. intros. rewrite Forall_forall in H. apply H. eapply nth_error_In; eauto. Qed.

Lemma firstn_S_nth : forall A (l : list A) i a, nth_error l i = Some a -> firstn (S i) l = firstn i l ++ [a].
Proof.
  induction l; intros [|i] x H; simpl in *; try discriminate.
  - inversion H. auto.
  - f_equal. apply IHl. auto.
Qed.

Lemma nth_error_lt : forall A (l : list A) i a, nth_error l i = Some a -> i < length l.
Proof. intros. apply nth_error_Some. congruence. Qed.

Unset Implicit Arguments.

(* ---------------------------------------------------------------- the quantities of the invariant *)

Definition stack (ob : obj) : list nat := match ow ob with WStack l => l | WRes => [] end.
Definition occ (c : nat) (ob : obj) : nat := cocc c (stack ob) + cocc c (opend ob).
Definition out (os : list obj) (c : nat) : nat := lsum (occ c) os.

Definition obj_ok (ob : obj) : Prop :=
  (ow ob = WRes -> oslot ob <> None) /\ (opend ob <> [] -> ow ob = WRes) /\ (ow ob <> WRes -> othr ob = None).

Definition reg_done (os : list obj) (c o : nat) : Prop :=
  ocomplete os o = true \/ exists ob, nth_error os o = Some ob /\ In c (stack ob).
Definition all_complete (os : list obj) (l : list nat) : Prop := forall o, In o l -> ocomplete os o = true.

(* which co_awaits a state of the awaiting machinery belongs to *)
Definition shape_ok (x : ast) (a : apt) : bool :=
  match x with
  | AReadyL => match a with PCo _ _ | PAwait1 FInl _ | PAwait1 FSticky _ | PAwaitN FInl _ | PAwaitN FSticky _ => true | _ => false end
  | AReg _ _ | ARegU _ _ | ARegS _ _ _ => match a with PCo _ _ | PAwait1 _ _ | PAwaitN _ _ => true | _ => false end
  | ACtor _ | ASusp => match a with PAwaitN _ _ => true | _ => false end
  | ATaskSt => match a with PTask _ _ | PTaskL _ => true | _ => false end
  | AWait => match a with PCo _ _ | PTask _ _ | PTaskL _ | PAwait1 _ _ | PAwaitN _ _ => true | _ => false end
  | ASubmit _ | AQueued _ =>
      match a with POn _ | PYield | PAwait1 (FOn _) _ | PAwait1 FSticky _ | PAwaitN (FOn _) _ | PAwaitN FSticky _ => true
                 | _ => false end
  | _ => true
  end.

(* every part of the invariant takes exactly the fields it depends on, so that a step that leaves them alone leaves the
   part syntactically unchanged *)
Definition shape_none (x : ast) : bool := match x with AIdle | ARun | AFinal | ADone => true | _ => false end.

Definition B_ok (ca : option apt) (x : ast) (n_cnt : nat) (k : nat) : Prop :=
  match ca with
  | None => shape_none x = true /\ k = 0
  | Some a =>
      shape_ok x a = true /\
      let n := length (aobjs a) in
      match x with
      | AReg i w | ARegU i w | ARegS i w _ =>
          match a with
          | PAwaitN _ _ => n_cnt + w = n + 1 + k /\ w <= i /\ i < n
          | PAwait1 (FOn _) _ => n_cnt = 1 /\ k = 0
          | _ => k = 0
          end
      | ACtor w => n_cnt + w = n + 1 + k /\ w <= n
      | AReadyL => if amulti a then n_cnt = k + 1 else k = 0
      | ASusp => n_cnt = k + 1
      | AWait => if acounted a then n_cnt = k /\ 1 <= k else k = 1
      | _ => k = 0
      end
  end.

Definition C_ok (os : list obj) (c : nat) (ca : option apt) (x : ast) : Prop :=
  match ca with
  | None => True
  | Some a =>
      match x with
      | AReg i _ | ARegU i _ | ARegS i _ _ => forall o, In o (firstn i (aobjs a)) -> reg_done os c o
      | ACtor _ | ASusp | AWait => forall o, In o (aobjs a) -> reg_done os c o
      | AReadyL => amulti a = true -> forall o, In o (aobjs a) -> reg_done os c o
      | ASubmit _ | AQueued _ | AResume _ => all_complete os (aobjs a)
      | _ => True
      end
  end.

Definition qof (x : ast) : option nat := match x with AQueued e => Some e | _ => None end.

Definition D_ok (l : list (list nat)) (c : nat) (qx : option nat) : Prop :=
  (forall x q, nth_error l x = Some q ->
               cocc c q = match qx with Some x' => if Nat.eqb x' x then 1 else 0 | None => 0 end) /\
  (forall x, qx = Some x -> exists q, nth_error l x = Some q).

Definition target (a : apt) (own0 : nat) : nat := match aform a with FOn e => e | _ => own0 end.

(* the clause "resumption happens on the executor the awaiter names": how and where a co_await of kind [a] continues *)
Definition where_ok (os : list obj) (a : apt) (h : how) (t ex own0 : nat) : Prop :=
  match a with
  | PCurrent => h = BySelf /\ ex = own0
  | POn e => h = ByExec e /\ ex = e
  | PYield => h = ByExec own0 /\ ex = own0
  | PAwait1 (FOn e) _ | PAwaitN (FOn e) _ => h = ByExec e /\ ex = e
  | PAwait1 FSticky _ | PAwaitN FSticky _ => (h = BySelf \/ h = ByExec own0) /\ ex = own0
  | _ => (h = BySelf /\ ex = own0) \/
         exists o ob, In o (aobjs a) /\ h = ByFire o /\ nth_error os o = Some ob /\ othr ob = Some t
  end.

Definition W_ok (os : list obj) (ca : option apt) (x : ast) (t ex own0 : nat) : Prop :=
  match ca with
  | None => True
  | Some a =>
      match x with
      | AResume h => where_ok os a h t ex own0
      | ASubmit e | AQueued e => e <> 0 /\ e = target a own0 /\ ex = e
      | AReadyL | AReg _ _ | ARegU _ _ | ARegS _ _ _ | ACtor _ | ASusp | ATaskSt | AWait => ex = target a own0
      | _ => True
      end
  end.

Definition rec_ok (os : list obj) (pg : list apt) (r : rrec) : Prop :=
  rok r = true /\ rlive r = true /\
  forall a, nth_error pg (rk r) = Some a ->
    all_complete os (aobjs a) /\
    where_ok os a (rhow r) (rthr r) (rexec r) (rown r) /\
    match aconsume a with
    | Some (o, _) => exists ob v, nth_error os o = Some ob /\ oslot ob = Some v /\ rval r = Some (Some v)
    | None => rval r = None
    end.

Definition E_ok (os : list obj) (pg : list apt) (p : nat) (rs : list rrec) (rd : list (bool * bool)) : Prop :=
  (map rk rs = seq 0 p /\ p <= length pg) /\ Forall (rec_ok os pg) rs /\ Forall (fun p => fst p = true -> snd p = true) rd.

Definition is_done (x : ast) : bool := match x with ADone => true | _ => false end.
Definition ended (x : ast) : bool := match x with AFinal | ADone => true | _ => false end.

Definition F_ok (lv : bool) (ld : nat) (fo : bool) (ff : nat) (done : bool) : Prop :=
  (lv = true /\ ld = 0 \/ lv = false /\ ld = 1) /\
  (fo = true /\ ff = 0 \/ fo = false /\ ff = 1 /\ lv = false /\ done = true).

Definition result_of (e : cend_t) : option res :=
  match e with Running => None | Returned r => Some r | Threw x => Some x | Dropped => Some RStop end.

Definition is_res (w : word) : bool := match w with WRes => true | _ => false end.

Definition H_ok (os : list obj) (c : nat) (ce : cend_t) (ow_ : nat) (en dn : bool) (p : nat) (pg : list apt)
                (rs : list rrec) : Prop :=
  (ce = Running <-> en = false) /\
  (ce <> Running -> exists ob, nth_error os ow_ = Some ob /\ oprod ob = Some c /\ oslot ob = result_of ce) /\
  (forall ob, nth_error os ow_ = Some ob -> oprod ob = Some c -> is_res (ow ob) = dn) /\
  match ce with
  | Returned _ => p = length pg
  | Threw e => exists l r a o, rs = l ++ [r] /\ rval r = Some (Some e) /\ is_err (Some e) = Some e /\
                               nth_error pg (rk r) = Some a /\ aconsume a = Some (o, false)
  | _ => True
  end.

(* callbacks of c exist only in objects its current co_await awaits *)
Definition R_ok (os : list obj) (c : nat) (ca : option apt) : Prop :=
  forall o ob, nth_error os o = Some ob -> 1 <= occ c ob -> exists a, ca = Some a /\ In o (aobjs a).

Definition co_ok (s : st) (c : nat) (co : coro) : Prop :=
  B_ok (capt co) (cst co) (cnt co) (out (objs s) c) /\
  C_ok (objs s) c (capt co) (cst co) /\
  D_ok (qs s) c (qof (cst co)) /\
  W_ok (objs s) (capt co) (cst co) (on co) (cexec co) (cown0 co) /\
  E_ok (objs s) (prog co) (pc co) (resumes co) (readys co) /\
  F_ok (llive co) (ldtors co) (fowner co) (ffrees co) (is_done (cst co)) /\
  H_ok (objs s) c (cend co) (own co) (ended (cst co)) (is_done (cst co)) (pc co) (prog co) (resumes co) /\
  R_ok (objs s) c (capt co).

Definition stk_ok (s : st) : Prop :=
  forall t o, In (t, o) (stk s) -> exists ob, nth_error (objs s) o = Some ob /\ othr ob = Some t.

Definition Inv (s : st) : Prop :=
  Forall obj_ok (objs s) /\ stk_ok s /\ forall c co, nth_error (cos s) c = Some co -> co_ok s c co.

(* ---------------------------------------------------------------- what the coroutines that do not move rely on *)

Definition obj_ext (c0 : nat) (ob ob' : obj) : Prop :=
  oprod ob' = oprod ob /\
  (complete ob = true -> complete ob' = true) /\
  (forall v, oslot ob = Some v -> oslot ob' = Some v) /\
  (forall t, othr ob = Some t -> othr ob' = Some t) /\
  (forall c, c <> c0 -> occ c ob' = occ c ob) /\
  (forall c, In c (stack ob) -> In c (stack ob') \/ complete ob' = true) /\
  (forall c, oprod ob = Some c -> c <> c0 -> oslot ob' = oslot ob /\ is_res (ow ob') = is_res (ow ob)).

Definition q_ext (c0 : nat) (q q' : list nat) : Prop := forall c, c <> c0 -> cocc c q' = cocc c q.

Definition ext (c0 : nat) (s s' : st) : Prop :=
  Forall2 (obj_ext c0) (objs s) (objs s') /\ Forall2 (q_ext c0) (qs s) (qs s').

Lemma obj_ext_refl c0 ob : obj_ext c0 ob ob.
Proof. unfold obj_ext. repeat (split; auto). Qed.

Lemma obj_ext_trans c0 a b c : obj_ext c0 a b -> obj_ext c0 b c -> obj_ext c0 a c.
Proof.
  unfold obj_ext. intros (A1 & A2 & A3 & A4 & A5 & A6 & A7) (B1 & B2 & B3 & B4 & B5 & B6 & B7).
  split; [congruence|]. split; [auto|]. split; [auto|]. split; [auto|].
  split; [intros x N; rewrite B5, A5; auto|]. split.
  - intros x Hi. destruct (A6 x Hi) as [Hi'|Hc]; auto.
  - intros x Hp N. destruct (A7 x Hp N) as [E1 E2]. assert (Hp' : oprod b = Some x) by congruence.
    destruct (B7 x Hp' N) as [E3 E4]. split; congruence.
Qed.

Lemma q_ext_refl c0 q : q_ext c0 q q.
Proof. red. auto. Qed.

Lemma ext_refl c0 s s' : objs s' = objs s -> qs s' = qs s -> ext c0 s s'.
Proof.
  intros E1 E2. unfold ext. rewrite E1, E2. split; apply Forall2_refl.
  apply obj_ext_refl. apply q_ext_refl.
Qed.

Lemma ext_trans c0 s1 s2 s3 : ext c0 s1 s2 -> ext c0 s2 s3 -> ext c0 s1 s3.
Proof.
  intros [A1 A2] [B1 B2]. split.
  - eapply Forall2_trans; eauto. apply obj_ext_trans.
  - eapply Forall2_trans; eauto. unfold q_ext. intros. rewrite H0, H; auto.
Qed.

Lemma ext_obj c0 s s' o ob ob' :
  nth_error (objs s) o = Some ob -> objs s' = upd (objs s) o ob' -> qs s' = qs s -> obj_ext c0 ob ob' -> ext c0 s s'.
Proof.
  intros H E1 E2 X. unfold ext. rewrite E1, E2. split.
  - eapply Forall2_upd; eauto. apply obj_ext_refl.
  - apply Forall2_refl. apply q_ext_refl.
Qed.

Lemma ext_q c0 s s' x q q' :
  nth_error (qs s) x = Some q -> objs s' = objs s -> qs s' = upd (qs s) x q' -> q_ext c0 q q' -> ext c0 s s'.
Proof.
  intros H E1 E2 X. unfold ext. rewrite E1, E2. split.
  - apply Forall2_refl. apply obj_ext_refl.
  - eapply Forall2_upd; eauto. apply q_ext_refl.
Qed.

Lemma ext_complete c0 s s' o : ext c0 s s' -> ocomplete (objs s) o = true -> ocomplete (objs s') o = true.
Proof.
  intros [X _]. unfold ocomplete. destruct (nth_error (objs s) o) eqn:E; try discriminate.
  destruct (Forall2_nth _ X E) as (b & -> & Y). apply Y.
Qed.

Lemma ext_out c0 s s' c : ext c0 s s' -> c <> c0 -> out (objs s') c = out (objs s) c.
Proof.
  intros [X _] N. unfold out. apply lsum_Forall2.
  eapply Forall2_imp; [|exact X]. intros a b Y. apply Y. auto.
Qed.

Lemma ext_reg_done c0 s s' c o : ext c0 s s' -> reg_done (objs s) c o -> reg_done (objs s') c o.
Proof.
  intros X [H|(ob & H1 & H2)].
  - left. eapply ext_complete; eauto.
  - destruct X as [X _]. destruct (Forall2_nth _ X H1) as (b & E & Y).
    destruct Y as (_ & _ & _ & _ & _ & Y6 & _). destruct (Y6 c H2).
    + right. eauto.
    + left. unfold ocomplete. rewrite E. auto.
Qed.

Lemma ext_where c0 s s' a h t ex own0 :
  ext c0 s s' -> where_ok (objs s) a h t ex own0 -> where_ok (objs s') a h t ex own0.
Proof.
  intros [X _] W.
  assert (G : (h = BySelf /\ ex = own0) \/
              (exists o ob, In o (aobjs a) /\ h = ByFire o /\ nth_error (objs s) o = Some ob /\ othr ob = Some t) ->
              (h = BySelf /\ ex = own0) \/
              (exists o ob, In o (aobjs a) /\ h = ByFire o /\ nth_error (objs s') o = Some ob /\ othr ob = Some t)).
  { intros [G|(o & ob & G1 & G2 & G3 & G4)]; auto. right.
    destruct (Forall2_nth _ X G3) as (b & E & Y). exists o, b. repeat split; auto. apply Y. auto. }
  destruct a as [| | |f|f| | |]; simpl in *; auto; destruct f; auto.
Qed.

Lemma ext_rec_ok c0 s s' pg r : ext c0 s s' -> rec_ok (objs s) pg r -> rec_ok (objs s') pg r.
Proof.
  intros X (R1 & R1' & R2). split; auto. split; auto. intros a Ha. destruct (R2 a Ha) as (A1 & A2 & A3). repeat split.
  - intros o Ho. eapply ext_complete; eauto.
  - eapply ext_where; eauto.
  - destruct (aconsume a) as [[o b]|]; auto. destruct A3 as (ob & v & B1 & B2 & B3).
    destruct X as [X _]. destruct (Forall2_nth _ X B1) as (ob' & E & Y). exists ob', v. repeat split; auto. apply Y. auto.
Qed.

Lemma C_ok_ext c0 s s' c ca x : ext c0 s s' -> C_ok (objs s) c ca x -> C_ok (objs s') c ca x.
Proof.
  intros X C. unfold C_ok in *. destruct ca; auto.
  destruct x; auto; try (intros o Ho; eapply ext_reg_done; eauto; fail);
    try (intros o Ho; eapply ext_complete; eauto; apply C; auto; fail).
  intros Hm o Ho. eapply ext_reg_done; eauto.
Qed.

Lemma W_ok_ext c0 s s' ca x t ex own0 : ext c0 s s' -> W_ok (objs s) ca x t ex own0 -> W_ok (objs s') ca x t ex own0.
Proof. intros X W. unfold W_ok in *. destruct ca; auto. destruct x; auto. eapply ext_where; eauto. Qed.

Lemma E_ok_ext c0 s s' pg p rs rd : ext c0 s s' -> E_ok (objs s) pg p rs rd -> E_ok (objs s') pg p rs rd.
Proof.
  intros X (E1 & E2 & E3). split; auto. split; auto. eapply Forall_impl; [|exact E2].
  intros r. eapply ext_rec_ok; eauto.
Qed.

Lemma D_ok_ext c0 s s' c qx : ext c0 s s' -> c <> c0 -> D_ok (qs s) c qx -> D_ok (qs s') c qx.
Proof.
  intros X N [D1 D2]. split.
  - intros x q' Hq. destruct X as [_ X].
    destruct (Forall2_nth_rev _ X Hq) as (q & E1 & Y). rewrite (Y c N). auto.
  - intros x Hx. destruct (D2 x Hx) as (q & Hq). destruct X as [_ X].
    destruct (Forall2_nth _ X Hq) as (q' & E1 & _). eauto.
Qed.

Lemma H_ok_ext c0 s s' c ce o en dn p pg rs :
  ext c0 s s' -> c <> c0 -> H_ok (objs s) c ce o en dn p pg rs -> H_ok (objs s') c ce o en dn p pg rs.
Proof.
  intros X N (H1 & H2 & H3 & H4). split; auto. split; [|split; auto].
  - intros Hr. destruct (H2 Hr) as (ob & A1 & A2 & A3).
    destruct X as [X _]. destruct (Forall2_nth _ X A1) as (ob' & E1 & Y). exists ob'.
    destruct Y as (Y1 & _ & _ & _ & _ & _ & Y7). destruct (Y7 c A2 N) as [Y8 _].
    split; auto. split; congruence.
  - intros ob' E1 Hp. destruct X as [X _].
    destruct (Forall2_nth_rev _ X E1) as (ob & E0 & Y). destruct Y as (Y1 & _ & _ & _ & _ & _ & Y7).
    rewrite Y1 in Hp. destruct (Y7 c Hp N) as [_ Y8]. rewrite Y8. auto.
Qed.

(* a coroutine that is not the one moving keeps its part of the invariant *)
Lemma co_ok_ext c0 s s' c co : ext c0 s s' -> c <> c0 -> co_ok s c co -> co_ok s' c co.
Proof.
  intros X N (B & C & D & W & E & F & H & R). unfold co_ok.
  split. { rewrite (ext_out _ _ _ _ X N). auto. }
  split. { eapply C_ok_ext; eauto. }
  split. { eapply D_ok_ext; eauto. }
  split. { eapply W_ok_ext; eauto. }
  split. { eapply E_ok_ext; eauto. }
  split. { exact F. }
  split. { eapply H_ok_ext; eauto. }
  intros o ob' Hn Ho. destruct X as [X _]. destruct (Forall2_nth_rev _ X Hn) as (ob & E0 & Y).
  destruct Y as (_ & _ & _ & _ & Y5 & _). rewrite (Y5 c N) in Ho. eauto.
Qed.

(* the frame of every preservation proof: one coroutine (c0) moves, the others see an extension *)
Lemma inv_update s s' c0 :
  Inv s -> ext c0 s s' ->
  (forall c, c <> c0 -> nth_error (cos s') c = nth_error (cos s) c) ->
  Forall obj_ok (objs s') -> stk_ok s' ->
  (forall co', nth_error (cos s') c0 = Some co' -> co_ok s' c0 co') ->
  Inv s'.
Proof.
  intros (I1 & I2 & I3) X Hc Ho Hs Ha. split; auto. split; auto.
  intros c co Hn. destruct (Nat.eq_dec c c0) as [->|N]; auto.
  rewrite Hc in Hn by auto. eapply co_ok_ext; eauto.
Qed.

(* ---------------------------------------------------------------- small facts about the step functions *)

Lemma find_actor_spec : forall l t o i c,
  find_actor l t o i = Some c ->
  i <= c /\ exists co, nth_error l (c - i) = Some co /\ on co = t /\ wants co = Some o.
Proof.
  induction l as [|x l IH]; intros t o i c H; simpl in H; try discriminate.
  destruct (Nat.eqb (on x) t && match wants x with Some o' => Nat.eqb o' o | None => false end) eqn:E.
  - inversion H. subst. split; auto. exists x. rewrite Nat.sub_diag. simpl.
    apply andb_true_iff in E. destruct E as [E1 E2]. apply Nat.eqb_eq in E1.
    destruct (wants x); try discriminate. apply Nat.eqb_eq in E2. subst. auto.
  - apply IH in H. destruct H as (L & co & H1 & H2). split. lia. exists co. split; auto.
    replace (c - i) with (S (c - S i)) by lia. simpl. auto.
Qed.

Lemma find_actor_0 l t o c :
  find_actor l t o 0 = Some c -> exists co, nth_error l c = Some co /\ on co = t /\ wants co = Some o.
Proof. intros H. apply find_actor_spec in H. rewrite Nat.sub_0_r in H. apply H. Qed.

Lemma stk_top_in : forall l t o, stk_top l t = Some o -> In (t, o) l.
Proof.
  induction l as [|[t' o'] l IH]; intros t o H; simpl in *; try discriminate.
  destruct (Nat.eqb t' t) eqn:E. apply Nat.eqb_eq in E. inversion H. subst. auto. right. auto.
Qed.

Lemma stk_pop_in : forall l t x, In x (stk_pop l t) -> In x l.
Proof.
  induction l as [|[t' o'] l IH]; intros t x H; simpl in *; auto.
  destruct (Nat.eqb t' t). auto. destruct H; auto. right. eapply IH; eauto.
Qed.

Lemma fire_top_spec s t o c s1 :
  fire_top s t = Some (o, c, s1) ->
  exists ob rest, In (t, o) (stk s) /\ nth_error (objs s) o = Some ob /\ opend ob = c :: rest /\
                  objs s1 = upd (objs s) o (set_opend rest ob) /\ cos s1 = cos s /\ qs s1 = qs s /\
                  (forall x, In x (stk s1) -> In x (stk s)).
Proof.
  unfold fire_top. intros H. destruct (stk_top (stk s) t) as [o'|] eqn:E1; try discriminate.
  destruct (nth_error (objs s) o') as [ob|] eqn:E2; try discriminate.
  destruct (opend ob) as [|c' rest] eqn:E3; try discriminate. inversion H. subst. clear H.
  exists ob, rest. apply stk_top_in in E1. repeat split; auto.
  intros x. simpl. destruct rest; auto. apply stk_pop_in.
Qed.

(* the invariant for a step that changes one coroutine only *)
Lemma inv_co_only s c co co' :
  Inv s -> nth_error (cos s) c = Some co -> co_ok (set_co c co' s) c co' -> Inv (set_co c co' s).
Proof.
  intros I Hc K. eapply inv_update with (c0 := c); eauto.
  - apply ext_refl; reflexivity.
  - intros c1 N. simpl. apply nth_error_upd_neq. auto.
  - apply I.
  - destruct I as (_ & I2 & _). exact I2.
  - intros co1 H1. simpl in H1. erewrite nth_error_upd_eq in H1 by eauto. inversion H1. subst. auto.
Qed.

Lemma inv_co s c co : Inv s -> nth_error (cos s) c = Some co -> co_ok s c co.
Proof. intros (_ & _ & I) H. auto. Qed.

Lemma inv_obj s o ob : Inv s -> nth_error (objs s) o = Some ob -> obj_ok ob.
Proof. intros (I & _) H. eapply Forall_nth; eauto. Qed.

Lemma complete_ready ob : obj_ok ob -> ow ob = WRes -> complete ob = true.
Proof. intros (H & _) E. unfold complete. rewrite E. destruct (oslot ob); auto. exfalso. apply H; auto. Qed.

Lemma ocomplete_nth l o ob : nth_error l o = Some ob -> ocomplete l o = complete ob.
Proof. unfold ocomplete. intros ->. auto. Qed.

(* no callback of c anywhere: nothing is registered *)
Lemma out_zero_stack os c o ob : out os c = 0 -> nth_error os o = Some ob -> ~ In c (stack ob).
Proof.
  intros H E. pose proof (@lsum_ge _ (occ c) _ _ _ E) as L. unfold out in H.
  assert (Z : occ c ob = 0) by lia. unfold occ in Z. apply cocc_zero. lia.
Qed.

Lemma reg_done_complete os c l : out os c = 0 -> (forall o, In o l -> reg_done os c o) -> all_complete os l.
Proof.
  intros H R o Ho. destruct (R o Ho) as [X|(ob & E & Hi)]; auto. exfalso. eapply out_zero_stack; eauto.
Qed.

(* ---------------------------------------------------------------- tactics *)

Ltac red_rec := cbn [prog own pc cst on cexec cown0 cnt llive ldtors fowner ffrees cend resumes readys
  set_cst set_on set_cexec set_cown0 set_cnt set_readys set_cend local_dtor frame_free resumed
  oshared olazy ostarted ow opend oslot oexec othr oprod set_ow set_opend set_oslot set_oexec set_ostarted o_exchange
  objs cos qs stk set_objs set_cos set_qs set_stk set_co set_ob qof is_done ended aform amulti acounted] in *.
Ltac co_unfold := unfold co_ok, capt, after_reg, do_submit in *; red_rec.
Ltac split7 := split; [|split; [|split; [|split; [|split; [|split; [|split]]]]]].
Ltac nat_eqs := repeat match goal with
  | H : Nat.eqb _ _ = true |- _ => apply Nat.eqb_eq in H
  | H : Nat.eqb _ _ = false |- _ => apply Nat.eqb_neq in H
  | H : Nat.leb _ _ = true |- _ => apply Nat.leb_le in H
  | H : Nat.ltb _ _ = true |- _ => apply Nat.ltb_lt in H
  | H : Nat.ltb _ _ = false |- _ => apply Nat.ltb_ge in H
  | H : negb _ = true |- _ => apply negb_true_iff in H
  | H : negb _ = false |- _ => apply negb_false_iff in H
  | H : _ && _ = true |- _ => apply andb_true_iff in H; destruct H
  end.
Ltac case_if := repeat match goal with |- context [if ?b then _ else _] => destruct b eqn:? end.
Ltac fin := simpl in *; try tauto; try congruence; try lia; try (intuition (auto; try congruence; try lia); fail).
Ltac parts := unfold B_ok, C_ok, W_ok, target, all_complete in *.
(* the moving coroutine: K is its old co_ok *)
Ltac co_solve K Ha Hs :=
  co_unfold; rewrite ?Ha, ?Hs in *; destruct K as (B & C & D & W & E & F & Hh & R); case_if; nat_eqs; subst; red_rec;
  rewrite ?Ha, ?Hs in *; split7; try assumption; try (parts; fin; fail); try (unfold F_ok in *; fin; fail).

(* ---------------------------------------------------------------- primitive changes of an object *)

Lemma occ_push c c1 ob l :
  ow ob = WStack l -> occ c1 (set_ow (WStack (c :: l)) ob) = (if Nat.eqb c c1 then 1 else 0) + occ c1 ob.
Proof. intros E. unfold occ, stack. simpl. rewrite E. simpl. lia. Qed.

Lemma obj_ext_push c ob l : ow ob = WStack l -> obj_ext c ob (set_ow (WStack (c :: l)) ob).
Proof.
  intros E. unfold obj_ext. simpl. split; auto. split. { unfold complete. rewrite E. discriminate. }
  split; auto. split; auto. split.
  { intros c1 N. rewrite (occ_push _ _ _ _ E). destruct (Nat.eqb c c1) eqn:X; auto. apply Nat.eqb_eq in X. congruence. }
  split. { intros c1 Hi. left. unfold stack in *. simpl. rewrite E in Hi. right. auto. }
  intros c1 _ _. rewrite E. auto.
Qed.

Lemma occ_exchange t c ob : ow ob <> WRes -> opend ob = [] -> occ c (o_exchange t ob) = occ c ob.
Proof. intros E P. unfold occ, stack. simpl. rewrite P. destruct (ow ob); simpl; try lia; congruence. Qed.

Lemma obj_ext_exchange c0 t ob :
  ow ob <> WRes -> opend ob = [] -> othr ob = None -> (forall c, oprod ob = Some c -> c = c0) ->
  obj_ext c0 ob (o_exchange t ob).
Proof.
  intros E P Ht0 Hp. unfold obj_ext. simpl. split; auto. split. { unfold complete. destruct (ow ob); congruence. }
  split. { intros v ->. auto. }
  split. { intros t0 Ht. congruence. }
  split. { intros c1 _. apply occ_exchange; auto. }
  split. { intros c1 _. right. unfold complete. simpl. destruct (oslot ob); auto. }
  intros c1 H1 N. apply Hp in H1. congruence.
Qed.

Lemma occ_pop c c1 ob rest :
  opend ob = c :: rest -> occ c1 (set_opend rest ob) + (if Nat.eqb c c1 then 1 else 0) = occ c1 ob.
Proof. intros E. unfold occ, stack. simpl. rewrite E. simpl. lia. Qed.

Lemma obj_ext_pop c ob rest : opend ob = c :: rest -> obj_ext c ob (set_opend rest ob).
Proof.
  intros E. unfold obj_ext. simpl. split; auto. split; auto. split; auto. split; auto. split.
  { intros c1 N. pose proof (occ_pop _ c1 _ _ E) as X. destruct (Nat.eqb c c1) eqn:Y; try lia.
    apply Nat.eqb_eq in Y. congruence. }
  split; auto.
Qed.

Lemma obj_ext_slot c0 ob r :
  oslot ob = None -> (forall c, oprod ob = Some c -> c = c0) -> obj_ext c0 ob (set_oslot (Some r) ob).
Proof.
  intros E Hp. unfold obj_ext. simpl. split; auto.
  split. { unfold complete. simpl. rewrite E. destruct (ow ob); auto. }
  split. { intros v Hv. congruence. }
  split; auto. split; auto. split; auto.
  intros c1 H1 N. apply Hp in H1. congruence.
Qed.

Lemma obj_ext_exec c0 ob x : obj_ext c0 ob (set_oexec x ob).
Proof. unfold obj_ext. simpl. repeat (split; auto). Qed.

Lemma obj_ext_started c0 ob x : obj_ext c0 ob (set_ostarted x ob).
Proof. unfold obj_ext. simpl. repeat (split; auto). Qed.

Lemma stk_ok_ext c0 s s' :
  stk_ok s -> ext c0 s s' ->
  (forall t o, In (t, o) (stk s') ->
               In (t, o) (stk s) \/ exists ob, nth_error (objs s') o = Some ob /\ othr ob = Some t) ->
  stk_ok s'.
Proof.
  intros K [X _] H t o Hi. destruct (H t o Hi) as [Hi'|Hx]; auto.
  destruct (K t o Hi') as (ob & E & Ht). destruct (Forall2_nth _ X E) as (ob' & E' & Y).
  exists ob'. split; auto. apply Y. auto.
Qed.

(* one object changes, no coroutine does *)
Lemma inv_obj_only s o ob ob' :
  Inv s -> nth_error (objs s) o = Some ob -> (forall c0, obj_ext c0 ob ob') -> obj_ok ob' ->
  Inv (set_ob o ob' s).
Proof.
  intros I Ho X K. assert (Xe : forall c0, ext c0 s (set_ob o ob' s)).
  { intros c0. eapply ext_obj; eauto; reflexivity. }
  eapply inv_update with (c0 := length (cos s)); eauto.
  - simpl. apply Forall_upd; auto. apply I.
  - eapply (stk_ok_ext 0); eauto. apply I.
  - simpl. intros co' Hn. apply nth_error_lt in Hn. lia.
Qed.

(* one coroutine and one object change *)
Lemma inv_co_obj s c co co' o ob ob' stk' :
  Inv s -> nth_error (cos s) c = Some co -> nth_error (objs s) o = Some ob ->
  obj_ext c ob ob' -> obj_ok ob' ->
  (forall t o1, In (t, o1) stk' -> In (t, o1) (stk s) \/ (o1 = o /\ othr ob' = Some t)) ->
  co_ok (set_stk stk' (set_co c co' (set_ob o ob' s))) c co' ->
  Inv (set_stk stk' (set_co c co' (set_ob o ob' s))).
Proof.
  intros I Hc Ho X K Hs Hk.
  assert (Xe : ext c s (set_stk stk' (set_co c co' (set_ob o ob' s)))).
  { eapply ext_obj; eauto; reflexivity. }
  eapply inv_update with (c0 := c); eauto.
  - intros c1 N. simpl. apply nth_error_upd_neq. auto.
  - simpl. apply Forall_upd; auto. apply I.
  - eapply stk_ok_ext; eauto. apply I. simpl. intros t o1 Hi. destruct (Hs t o1 Hi) as [|[-> Ht]]; auto.
    right. exists ob'. split; auto. eapply nth_error_upd_eq; eauto.
  - simpl. intros co1 H1. erewrite nth_error_upd_eq in H1 by eauto. inversion H1. subst. auto.
Qed.

(* ---------------------------------------------------------------- the events, one by one *)

Lemma step_begin_inv s t c s' : Inv s -> step_begin s t c = Some s' -> Inv s'.
Proof.
  intros I H. unfold step_begin in H.
  destruct (nth_error (cos s) c) as [co|] eqn:Hc; try discriminate.
  destruct (cst co) eqn:Hs; try discriminate.
  destruct (capt co) as [a|] eqn:Ha; try discriminate.
  destruct (negb (Nat.eqb (on co) t)) eqn:Ht; try discriminate. inversion H; subst; clear H.
  apply inv_co_only with (co := co); auto.
  pose proof (inv_co _ _ _ I Hc) as K.
  destruct a as [o b|o b|o|f o|f os|e| |]; try destruct f as [| |e]; try destruct os as [|o1 os];
    co_solve K Ha Hs.
Qed.

Lemma out_upd_same os o ob ob' c :
  nth_error os o = Some ob -> occ c ob' = occ c ob -> out (upd os o ob') c = out os c.
Proof. intros H E. unfold out. pose proof (lsum_upd (occ c) _ _ ob' H). lia. Qed.

Lemma out_upd_push os o ob l c :
  nth_error os o = Some ob -> ow ob = WStack l -> out (upd os o (set_ow (WStack (c :: l)) ob)) c = out os c + 1.
Proof.
  intros H E. unfold out. pose proof (lsum_upd (occ c) _ _ (set_ow (WStack (c :: l)) ob) H) as X.
  rewrite (occ_push _ _ _ _ E), Nat.eqb_refl in X. lia.
Qed.

Lemma out_upd_pop os o ob rest c :
  nth_error os o = Some ob -> opend ob = c :: rest -> out (upd os o (set_opend rest ob)) c + 1 = out os c.
Proof.
  intros H E. unfold out. pose proof (lsum_upd (occ c) _ _ (set_opend rest ob) H) as X.
  pose proof (occ_pop _ c _ _ E) as Y. rewrite Nat.eqb_refl in Y. lia.
Qed.

Lemma store_own_spec c r s1 s2 :
  store_own c r s1 = Some s2 ->
  exists co ob, nth_error (cos s1) c = Some co /\ nth_error (objs s1) (own co) = Some ob /\
                oprod ob = Some c /\ oslot ob = None /\ s2 = set_ob (own co) (set_oslot (Some r) ob) s1.
Proof.
  unfold store_own. intros H. destruct (nth_error (cos s1) c) as [co|]; try discriminate.
  destruct (nth_error (objs s1) (own co)) as [ob|] eqn:E; try discriminate.
  destruct (oprod ob) as [c'|] eqn:P; try discriminate. destruct (oslot ob) eqn:S; try discriminate.
  destruct (Nat.eqb c' c) eqn:X; try discriminate. apply Nat.eqb_eq in X. subst. inversion H. eauto 10.
Qed.

Lemma obj_ok_slot ob r : obj_ok ob -> obj_ok (set_oslot (Some r) ob).
Proof. intros (A & B & C). unfold obj_ok. simpl. repeat split; auto. discriminate. Qed.

Lemma R_ok_upd os o ob ob' c ca :
  nth_error os o = Some ob -> R_ok os c ca ->
  (occ c ob' <= occ c ob \/ exists a, ca = Some a /\ In o (aobjs a)) -> R_ok (upd os o ob') c ca.
Proof.
  intros Ho R X o1 ob1 Hn H1. destruct (Nat.eq_dec o o1) as [<-|N].
  - erewrite nth_error_upd_eq in Hn by eauto. inversion Hn; subst. destruct X as [X|X]; auto. eapply R; eauto. lia.
  - rewrite nth_error_upd_neq in Hn by auto. eapply R; eauto.
Qed.

Ltac co_obj K Xe Ha Hs :=
  co_unfold; rewrite ?Ha, ?Hs in *; destruct K as (B & C & D & W & E & F & Hh & R);
  apply (C_ok_ext _ _ _ _ _ _ Xe) in C; apply (W_ok_ext _ _ _ _ _ _ _ _ Xe) in W; apply (E_ok_ext _ _ _ _ _ _ _ Xe) in E;
  case_if; nat_eqs; subst; red_rec; rewrite ?Ha, ?Hs in *; split7; try assumption; try (parts; fin; fail);
  try (unfold F_ok in *; fin; fail).

Lemma ev_set_inv s t o r s' sw : Inv s -> step_g true sw s (ESet t o r) = Some s' -> Inv s'.
Proof.
  intros I H. simpl in H. destruct (nth_error (objs s) o) as [ob|] eqn:Ho; try discriminate.
  destruct (oprod ob) eqn:Hp; try discriminate. destruct (oslot ob) eqn:Hsl; try discriminate.
  destruct (ow ob) eqn:Hw; try discriminate.
  destruct (olazy ob && negb (ostarted ob)); try discriminate. inversion H; subst; clear H.
  eapply inv_obj_only; eauto.
  - intros c0. apply obj_ext_slot; auto. intros c Hc. congruence.
  - apply obj_ok_slot. eapply inv_obj; eauto.
Qed.

Lemma ev_spawn_inv s t c s' sw : Inv s -> step_g true sw s (ESpawn t c) = Some s' -> Inv s'.
Proof.
  intros I H. simpl in H. destruct (nth_error (cos s) c) as [co|] eqn:Hc; try discriminate.
  destruct (cst co) eqn:Hs; try discriminate.
  destruct (nth_error (objs s) (own co)) as [ob|] eqn:Ho; try discriminate.
  destruct (olazy ob && negb (ostarted ob)); try discriminate. inversion H; subst; clear H.
  apply inv_co_only with (co := co); auto.
  pose proof (inv_co _ _ _ I Hc) as K.
  destruct (capt co) eqn:Ha; co_solve K Ha Hs.
Qed.

Lemma ev_local_inv s t c s' sw : Inv s -> step_g true sw s (ELocal t c) = Some s' -> Inv s'.
Proof.
  intros I H. simpl in H. destruct (nth_error (cos s) c) as [co|] eqn:Hc; try discriminate.
  match type of H with (if ?b then _ else _) = _ => destruct b eqn:G; try discriminate end.
  inversion H; subst; clear H. apply inv_co_only with (co := co); auto.
  pose proof (inv_co _ _ _ I Hc) as K. apply andb_true_iff in G. destruct G as [G1 G2].
  destruct (cst co) eqn:Hs; try discriminate; destruct (capt co) eqn:Ha; co_solve K Ha Hs.
Qed.

Lemma ev_free_inv s t c s' sw : Inv s -> step_g true sw s (EFree t c) = Some s' -> Inv s'.
Proof.
  intros I H. simpl in H. destruct (nth_error (cos s) c) as [co|] eqn:Hc; try discriminate.
  destruct (cst co) eqn:Hs; try discriminate.
  match type of H with (if ?b then _ else _) = _ => destruct b eqn:G; try discriminate end.
  inversion H; subst; clear H. apply inv_co_only with (co := co); auto.
  pose proof (inv_co _ _ _ I Hc) as K.
  destruct (capt co) eqn:Ha; co_solve K Ha Hs.
Qed.

Lemma ev_ret_inv s t c r s' sw : Inv s -> step_g true sw s (ERet t c r) = Some s' -> Inv s'.
Proof.
  intros I H. simpl in H. destruct (nth_error (cos s) c) as [co|] eqn:Hc; try discriminate.
  destruct (cst co) eqn:Hs; try discriminate. destruct (capt co) eqn:Ha; try discriminate.
  destruct (Nat.eqb (on co) t) eqn:Ht; try discriminate.
  apply store_own_spec in H. destruct H as (co1 & ob & H1 & H2 & H3 & H4 & ->).
  simpl in H1. erewrite nth_error_upd_eq in H1 by eauto. inversion H1; subst; clear H1. simpl in H2.
  pose proof (inv_co _ _ _ I Hc) as K.
  eapply (inv_co_obj s c co _ (own co) ob _ (stk s)); eauto.
  - apply obj_ext_slot; auto. intros c1 E1. congruence.
  - apply obj_ok_slot. eapply inv_obj; eauto.
  - assert (Xe : ext c s (set_stk (stk s) (set_co c (set_cend (Returned r) (set_cst AFinal co))
          (set_ob (own co) (set_oslot (Some r) ob) s)))).
    { eapply ext_obj; eauto; try reflexivity. apply obj_ext_slot; auto. intros c1 E1. congruence. }
    co_obj K Xe Ha Hs.
    + erewrite out_upd_same by (eauto; reflexivity). parts; fin.
    + destruct Hh as (G1 & G2 & G3 & G4). destruct E as ((E1 & E1') & _). unfold H_ok. split. { split; intros; discriminate. }
      split. { intros _. eexists. split. eapply nth_error_upd_eq; eauto. split; auto. }
      split. { intros ob1 Hn Hp. erewrite nth_error_upd_eq in Hn by eauto. inversion Hn; subst. simpl. eapply G3; eauto. }
      apply nth_error_None in Ha. lia.
    + eapply R_ok_upd; eauto.
Qed.

Lemma step_cld_inv s t c v s' : Inv s -> step_cld s t c v = Some s' -> Inv s'.
Proof.
  intros I H. unfold step_cld in H. destruct (nth_error (cos s) c) as [co|] eqn:Hc; try discriminate.
  destruct (capt co) as [a|] eqn:Ha; try discriminate. destruct (cst co) eqn:Hs; try discriminate.
  match type of H with (if ?b then _ else _) = _ => destruct b eqn:G; try discriminate end.
  inversion H; subst; clear H. apply inv_co_only with (co := co); auto.
  pose proof (inv_co _ _ _ I Hc) as K. nat_eqs.
  destruct a as [o b|o b|o|f o|f os|e| |]; try discriminate.
  destruct f as [| |e]; co_solve K Ha Hs;
    parts; simpl in *; destruct B as [_ B]; (eapply reg_done_complete; [|apply C; auto]); lia.
Qed.

Lemma wants_spec co o :
  wants co = Some o -> exists a, capt co = Some a /\
    match cst co with
    | AReadyL => amulti a = false /\ nth_error (aobjs a) 0 = Some o
    | AReg i _ | ARegU i _ | ARegS i _ _ => nth_error (aobjs a) i = Some o
    | ATaskSt => nth_error (aobjs a) 0 = Some o
    | _ => False
    end.
Proof.
  unfold wants. destruct (capt co) as [a|]; try discriminate. intros H. exists a. split; auto.
  destruct (cst co); try discriminate; auto. destruct (amulti a); try discriminate. auto.
Qed.

Lemma E_ok_ready os pg p rs rd ans cm :
  E_ok os pg p rs rd -> (ans = true -> cm = true) -> E_ok os pg p rs (rd ++ [(ans, cm)]).
Proof. intros (E1 & E2 & E3) H. split; auto. split; auto. apply Forall_app. split; auto. Qed.

Lemma ready_true_res w : ready_of true w = true -> w = WRes.
Proof. destruct w; simpl; congruence. Qed.

Lemma all_complete_1 os o ob : nth_error os o = Some ob -> complete ob = true -> all_complete os [o].
Proof. intros H E o1 [<-|[]]. unfold ocomplete. rewrite H. auto. Qed.

Lemma reg_next os c l i o :
  nth_error l i = Some o -> (forall o', In o' (firstn i l) -> reg_done os c o') -> reg_done os c o ->
  forall o', In o' (firstn (S i) l) -> reg_done os c o'.
Proof.
  intros H A B o' Hi. rewrite (firstn_S_nth _ _ H) in Hi. apply in_app_or in Hi. destruct Hi as [Hi|[<-|[]]]; auto.
Qed.

Lemma reg_all os c l i o :
  nth_error l i = Some o -> length l <= S i -> (forall o', In o' (firstn i l) -> reg_done os c o') -> reg_done os c o ->
  forall o', In o' l -> reg_done os c o'.
Proof.
  intros H L A B o' Hi. eapply reg_next; eauto. rewrite firstn_all2; auto.
Qed.

Lemma reg_done_res os c o ob : nth_error os o = Some ob -> complete ob = true -> reg_done os c o.
Proof. intros H E. left. unfold ocomplete. rewrite H. auto. Qed.

Lemma step_ld_inv s t o v s' : Inv s -> step_ld true s t o v = Some s' -> Inv s'.
Proof.
  intros I H. unfold step_ld in H. destruct (nth_error (objs s) o) as [ob|] eqn:Ho; try discriminate.
  destruct (negb (obs_ok v (ow ob))) eqn:Hv; try discriminate.
  destruct (find_actor (cos s) t o 0) as [c|] eqn:Hf; [|inversion H; subst; auto].
  apply find_actor_0 in Hf. destruct Hf as (co & Hc & Hon & Hw). rewrite Hc in H.
  apply wants_spec in Hw. destruct Hw as (a & Ha & Hw). rewrite Ha in H.
  pose proof (inv_co _ _ _ I Hc) as K. pose proof (inv_obj _ _ _ I Ho) as Ko.
  assert (Hsh : shape_ok (cst co) a = true). { destruct K as (B & _). unfold B_ok in B. rewrite Ha in B. apply B. }
  destruct (cst co) eqn:Hs; try discriminate; try tauto.
  - (* AReadyL *) inversion H; subst; clear H. apply inv_co_only with (co := co); auto.
    destruct Hw as [Hm Hn].
    assert (Hr : ready_of true (ow ob) = true -> complete ob = true).
    { intros Hr. apply complete_ready; auto. apply ready_true_res; auto. }
    destruct (ready_of true (ow ob)) eqn:Hrd;
    destruct a as [o1 b|o1 b|o1|f o1|f os|e| |]; try discriminate; try destruct f as [| |e]; simpl in Hn; inversion Hn; subst;
    co_solve K Ha Hs; try (apply E_ok_ready; auto; fail); try (parts; eapply all_complete_1; eauto; fail).
  - (* AReg *) pose proof (@nth_error_lt _ _ _ _ Hw) as Hlt.
    destruct (ow ob) as [l|] eqn:Eow.
    + destruct (oshared ob); [|destruct l; try discriminate]; inversion H; subst; clear H;
      (apply inv_co_only with (co := co); auto); co_solve K Ha Hs.
    + inversion H; subst; clear H. apply inv_co_only with (co := co); auto.
      assert (Hcm : complete ob = true) by (apply complete_ready; auto).
      destruct a as [o1 b|o1 b|o1|f o1|f os|e| |]; try discriminate Hsh;
      try destruct f as [| |e]; simpl in Hw, Hlt; co_solve K Ha Hs;
      try (parts; simpl in *; (destruct i; [|destruct i; discriminate]); inversion Hw; subst; eapply all_complete_1; eauto; fail);
      try (parts; simpl in *; eapply reg_next; eauto; eapply reg_done_res; eauto; fail);
      try (parts; simpl in *; eapply reg_all; eauto; eapply reg_done_res; eauto; fail).
  - (* ATaskSt *) destruct (ready_of true (ow ob)); try discriminate. inversion H; subst; auto.
Qed.

Definition pushed (c : nat) (l : list nat) (ob ob' : obj) : Prop :=
  ow ob' = WStack (c :: l) /\ opend ob' = opend ob /\ oslot ob' = oslot ob /\ othr ob' = othr ob /\ oprod ob' = oprod ob.

Lemma pushed_occ c c1 l ob ob' :
  ow ob = WStack l -> pushed c l ob ob' -> occ c1 ob' = (if Nat.eqb c c1 then 1 else 0) + occ c1 ob.
Proof. intros E (P1 & P2 & _). unfold occ, stack. rewrite P1, P2, E. simpl. lia. Qed.

Lemma pushed_ext c l ob ob' : ow ob = WStack l -> pushed c l ob ob' -> obj_ext c ob ob'.
Proof.
  intros E P. pose proof P as (P1 & P2 & P3 & P4 & P5). unfold obj_ext.
  split; auto. split. { unfold complete. rewrite E. discriminate. }
  split. { intros v. congruence. } split. { intros t. congruence. }
  split. { intros c1 N. rewrite (pushed_occ _ _ _ _ _ E P). destruct (Nat.eqb c c1) eqn:X; auto. apply Nat.eqb_eq in X. congruence. }
  split. { intros c1 Hi. left. unfold stack in *. rewrite P1. rewrite E in Hi. right. auto. }
  intros c1 _ _. rewrite P1, P3, E. auto.
Qed.

Lemma pushed_ok c l ob ob' : obj_ok ob -> ow ob = WStack l -> pushed c l ob ob' -> obj_ok ob'.
Proof.
  intros (A & B & C) E (P1 & P2 & P3 & P4 & P5). unfold obj_ok. rewrite P1, P2, P4.
  split. discriminate. split. { intros H. apply B in H. congruence. } intros _. apply C. congruence.
Qed.

Lemma pushed_out os o c l ob ob' :
  nth_error os o = Some ob -> ow ob = WStack l -> pushed c l ob ob' -> out (upd os o ob') c = out os c + 1.
Proof.
  intros H E P. unfold out. pose proof (lsum_upd (occ c) _ _ ob' H) as X.
  rewrite (pushed_occ _ _ _ _ _ E P), Nat.eqb_refl in X. lia.
Qed.

Lemma pushed_reg os o c l ob ob' : nth_error os o = Some ob -> pushed c l ob ob' -> reg_done (upd os o ob') c o.
Proof.
  intros H (P1 & _). right. exists ob'. split. eapply nth_error_upd_eq; eauto. unfold stack. rewrite P1. left. auto.
Qed.

Lemma H_ok_upd os o ob ob' c ce ow_ en dn p pg rs :
  nth_error os o = Some ob -> oprod ob' = oprod ob -> oslot ob' = oslot ob -> is_res (ow ob') = is_res (ow ob) ->
  H_ok os c ce ow_ en dn p pg rs -> H_ok (upd os o ob') c ce ow_ en dn p pg rs.
Proof.
  intros Ho P1 P2 P3 (H1 & H2 & H3 & H4). split; auto. split; [|split; auto].
  - intros Hr. destruct (H2 Hr) as (ob1 & A1 & A2 & A3). destruct (Nat.eq_dec o ow_) as [->|N].
    + exists ob'. rewrite Ho in A1. inversion A1; subst. split. eapply nth_error_upd_eq; eauto. split; congruence.
    + exists ob1. rewrite nth_error_upd_neq; auto.
  - intros ob1 Hn Hp. destruct (Nat.eq_dec o ow_) as [->|N].
    + erewrite nth_error_upd_eq in Hn by eauto. inversion Hn; subst. rewrite P3. apply H3; auto. congruence.
    + rewrite nth_error_upd_neq in Hn; auto.
Qed.

(* the coroutine at index c registers with object o (a successful CAS / StoreCallback) *)
Lemma push_inv s c co co' o ob ob' l a i w :
  Inv s -> nth_error (cos s) c = Some co -> nth_error (objs s) o = Some ob -> ow ob = WStack l -> pushed c l ob ob' ->
  capt co = Some a -> nth_error (aobjs a) i = Some o ->
  (cst co = ARegU i w \/ (exists n, cst co = ARegS i w n) \/ (cst co = ATaskSt /\ i = 0 /\ w = 0)) ->
  co' = after_reg (on co) a i w true co ->
  Inv (set_co c co' (set_ob o ob' s)).
Proof.
  intros I Hc Ho Eow P Ha Hw Hst ->.
  pose proof (inv_co _ _ _ I Hc) as K. pose proof (inv_obj _ _ _ I Ho) as Ko.
  assert (Hsh : shape_ok (cst co) a = true). { destruct K as (B & _). unfold B_ok in B. rewrite Ha in B. apply B. }
  pose proof (@nth_error_lt _ _ _ _ Hw) as Hlt.
  eapply (inv_co_obj s c co _ o ob ob' (stk s)); eauto.
  - eapply pushed_ext; eauto.
  - eapply pushed_ok; eauto.
  - assert (Xe : ext c s (set_stk (stk s) (set_co c (after_reg (on co) a i w true co) (set_ob o ob' s)))).
    { eapply ext_obj; eauto; try reflexivity. eapply pushed_ext; eauto. }
    pose proof (pushed_out _ _ _ _ _ _ Ho Eow P) as Xo. pose proof (pushed_reg _ _ _ _ _ _ Ho P) as Xr.
    destruct Hst as [Hs|[[nx Hs]|(Hs & -> & ->)]]; rewrite Hs in Hsh;
    destruct a as [o1 b|o1 b|o1|f o1|f os|e| |]; try discriminate Hsh; try destruct f as [| |e]; simpl in Hw, Hlt;
    co_obj K Xe Ha Hs;
    try (eapply H_ok_upd; eauto; try apply P; destruct P as (P1 & _); rewrite P1, Eow; reflexivity);
    try (parts; simpl in *; (destruct i; [|destruct i; discriminate]); inversion Hw; subst; intros o' [<-|[]]; auto; fail);
    try (parts; simpl in *; eapply reg_next; eauto; fail);
    try (parts; simpl in *; eapply reg_all; eauto; fail);
    try (eapply R_ok_upd; eauto; right; eexists; split; [reflexivity|]; eapply nth_error_In; eauto; fail);
    try (eapply R_ok_upd; eauto; right; eexists; split; [reflexivity|]; inversion Hw; subst; simpl; auto; fail).
Qed.

Lemma list_eqb_eq : forall a b, list_eqb a b = true -> a = b.
Proof.
  induction a; destruct b; simpl; intros; try discriminate; auto.
  apply andb_true_iff in H. destruct H as [H1 H2]. apply Nat.eqb_eq in H1. apply IHa in H2. congruence.
Qed.

(* SetCallback on the i-th object returned false: that object is complete *)
Lemma regfail_inv s c co o ob a i w :
  Inv s -> nth_error (cos s) c = Some co -> nth_error (objs s) o = Some ob -> ow ob = WRes ->
  capt co = Some a -> nth_error (aobjs a) i = Some o ->
  (cst co = AReg i w \/ cst co = ARegU i w \/ exists n, cst co = ARegS i w n) ->
  Inv (set_co c (after_reg (on co) a i w false co) s).
Proof.
  intros I Hc Ho Eow Ha Hw Hst.
  pose proof (inv_co _ _ _ I Hc) as K. pose proof (inv_obj _ _ _ I Ho) as Ko.
  assert (Hsh : shape_ok (cst co) a = true). { destruct K as (B & _). unfold B_ok in B. rewrite Ha in B. apply B. }
  pose proof (@nth_error_lt _ _ _ _ Hw) as Hlt.
  assert (Hcm : complete ob = true) by (apply complete_ready; auto).
  apply inv_co_only with (co := co); auto.
  destruct Hst as [Hs|[Hs|[nx Hs]]]; rewrite Hs in Hsh;
  destruct a as [o1 b|o1 b|o1|f o1|f os|e| |]; try discriminate Hsh;
  try destruct f as [| |e]; simpl in Hw, Hlt; co_solve K Ha Hs;
  try (parts; simpl in *; (destruct i; [|destruct i; discriminate]); inversion Hw; subst; eapply all_complete_1; eauto; fail);
  try (parts; simpl in *; eapply reg_next; eauto; eapply reg_done_res; eauto; fail);
  try (parts; simpl in *; eapply reg_all; eauto; eapply reg_done_res; eauto; fail).
Qed.

Lemma step_cas_inv s t o ok s' : Inv s -> step_cas s t o ok = Some s' -> Inv s'.
Proof.
  intros I H. unfold step_cas in H. destruct (nth_error (objs s) o) as [ob|] eqn:Ho; try discriminate.
  destruct (find_actor (cos s) t o 0) as [c|] eqn:Hf; try discriminate.
  apply find_actor_0 in Hf. destruct Hf as (co & Hc & Hon & Hw). rewrite Hc in H.
  apply wants_spec in Hw. destruct Hw as (a & Ha & Hw). rewrite Ha in H. subst t.
  destruct (cst co) eqn:Hs; try discriminate.
  - (* ARegU *) destruct (ow ob) as [[|x l]|] eqn:Eow; try discriminate; destruct ok; try discriminate; inversion H; subst; clear H.
    + eapply push_inv; eauto. repeat split; auto.
    + eapply regfail_inv; eauto.
  - (* ARegS *) destruct (ow ob) as [l|] eqn:Eow.
    + destruct (list_eqb l next) eqn:El.
      * destruct ok; inversion H; subst; clear H; auto. eapply push_inv; eauto. repeat split; auto.
      * destruct ok; try discriminate. inversion H; subst; clear H. apply inv_co_only with (co := co); auto.
        pose proof (inv_co _ _ _ I Hc) as K. co_solve K Ha Hs.
    + destruct ok; try discriminate. inversion H; subst; clear H. eapply regfail_inv; eauto.
Qed.

Lemma step_st_inv s t o s' : Inv s -> step_st s t o = Some s' -> Inv s'.
Proof.
  intros I H. unfold step_st in H. destruct (nth_error (objs s) o) as [ob|] eqn:Ho; try discriminate.
  destruct (find_actor (cos s) t o 0) as [c|] eqn:Hf; try discriminate.
  apply find_actor_0 in Hf. destruct Hf as (co & Hc & Hon & Hw). rewrite Hc in H.
  apply wants_spec in Hw. destruct Hw as (a & Ha & Hw).
  destruct (cst co) eqn:Hs; try discriminate. destruct (ow ob) as [[|x l]|] eqn:Eow; try discriminate.
  inversion H; subst; clear H.
  pose proof (inv_co _ _ _ I Hc) as K.
  assert (Hsh : shape_ok (cst co) a = true). { destruct K as (B & _). unfold B_ok in B. rewrite Ha in B. apply B. }
  rewrite Hs in Hsh.
  replace (set_cst AWait co) with (after_reg (on co) a 0 0 true co).
  - eapply push_inv; eauto. repeat split; auto.
  - destruct a; try discriminate Hsh; reflexivity.
Qed.

Lemma inv_obj_stk s o ob ob' stk' :
  Inv s -> nth_error (objs s) o = Some ob -> (forall c0, obj_ext c0 ob ob') -> obj_ok ob' ->
  (forall t o1, In (t, o1) stk' -> In (t, o1) (stk s) \/ (o1 = o /\ othr ob' = Some t)) ->
  Inv (set_stk stk' (set_ob o ob' s)).
Proof.
  intros I Ho X K Hs. assert (Xe : forall c0, ext c0 s (set_stk stk' (set_ob o ob' s))).
  { intros c0. eapply ext_obj; eauto; reflexivity. }
  eapply inv_update with (c0 := length (cos s)); eauto.
  - simpl. apply Forall_upd; auto. apply I.
  - eapply (stk_ok_ext 0); eauto. apply I. simpl. intros t o1 Hi. destruct (Hs t o1 Hi) as [|[-> Ht]]; auto.
    right. exists ob'. split; auto. eapply nth_error_upd_eq; eauto.
  - simpl. intros co' Hn. apply nth_error_lt in Hn. lia.
Qed.

Lemma obj_ok_exchange t ob : obj_ok (o_exchange t ob).
Proof. unfold obj_ok. simpl. split. { intros _. destruct (oslot ob); discriminate. } split; auto. congruence. Qed.

Lemma obj_ok_pend ob : obj_ok ob -> ow ob <> WRes -> opend ob = [].
Proof. intros (_ & B & _) N. destruct (opend ob) eqn:E; auto. exfalso. apply N. apply B. discriminate. Qed.

Lemma push_stk_eq t o ob s1 :
  exists stk', push_stk t o ob s1 = set_stk stk' s1 /\
               (forall x, In x stk' -> In x (stk s1) \/ x = (t, o)).
Proof.
  unfold push_stk. destruct (ow ob) as [[|x l]|].
  - exists (stk s1). split. destruct s1; reflexivity. auto.
  - exists ((t, o) :: stk s1). split; auto. intros y [<-|H]; auto.
  - exists (stk s1). split. destruct s1; reflexivity. auto.
Qed.

Lemma step_xchg_inv s t o s' : Inv s -> step_xchg s t o = Some s' -> Inv s'.
Proof.
  intros I H. unfold step_xchg in H. destruct (nth_error (objs s) o) as [ob|] eqn:Ho; try discriminate.
  pose proof (inv_obj _ _ _ I Ho) as Ko.
  destruct (ow ob) as [l|] eqn:Eow; try discriminate.
  assert (Nw : ow ob <> WRes) by congruence.
  pose proof (obj_ok_pend _ Ko Nw) as Hp. assert (Ht : othr ob = None) by (apply Ko; auto).
  destruct (oprod ob) as [c|] eqn:Hpr.
  - destruct (nth_error (cos s) c) as [co|] eqn:Hc; try discriminate.
    destruct (cst co) eqn:Hs; try discriminate.
    match type of H with (if ?b then _ else _) = _ => destruct b eqn:G; try discriminate end.
    inversion H; subst; clear H. nat_eqs. subst.
    destruct (push_stk_eq (on co) (own co) ob (set_co c (set_cst ADone co) (set_ob (own co) (o_exchange (on co) ob) s))) as (stk' & -> & Hst).
    pose proof (inv_co _ _ _ I Hc) as K.
    eapply (inv_co_obj s c co _ (own co) ob _ stk'); eauto.
    + apply obj_ext_exchange; auto. intros c1 E1. congruence.
    + apply obj_ok_exchange.
    + intros t o1 Hi. destruct (Hst _ Hi) as [|E1]; auto. inversion E1; subst. right. auto.
    + assert (Xe : ext c s (set_stk stk' (set_co c (set_cst ADone co) (set_ob (own co) (o_exchange (on co) ob) s)))).
      { eapply ext_obj; eauto; try reflexivity. apply obj_ext_exchange; auto. intros c1 E1. congruence. }
      assert (Xo : out (upd (objs s) (own co) (o_exchange (on co) ob)) c = out (objs s) c).
      { eapply out_upd_same; eauto. apply occ_exchange; auto. }
      assert (XH : H_ok (upd (objs s) (own co) (o_exchange (on co) ob)) c (cend co) (own co) true true (pc co) (prog co) (resumes co)).
      { destruct K as (_ & _ & _ & _ & _ & _ & (G1 & G2 & G3 & G4) & _). rewrite Hs in *. simpl in *.
        assert (Hr : cend co <> Running). { intros X. apply G1 in X. discriminate. }
        destruct (G2 Hr) as (ob1 & A1 & A2 & A3). rewrite Ho in A1. inversion A1; subst ob1.
        split; auto. split; [|split; auto].
        - intros _. eexists. split. eapply nth_error_upd_eq; eauto. split; auto. simpl. rewrite A3.
          destruct (cend co); simpl; auto. congruence.
        - intros ob2 Hn _. erewrite nth_error_upd_eq in Hn by eauto. inversion Hn. reflexivity. }
      destruct (capt co) eqn:Ha; co_obj K Xe Ha Hs; try (rewrite Xo; parts; fin; fail);
      try (eapply R_ok_upd; eauto; left; rewrite occ_exchange; auto; fail).
  - destruct (olazy ob && negb (ostarted ob)); try discriminate. inversion H; subst; clear H.
    destruct (push_stk_eq t o ob (set_ob o (o_exchange t ob) s)) as (stk' & -> & Hst).
    eapply inv_obj_stk; eauto.
    + intros c0. apply obj_ext_exchange; auto. intros c1 E1. congruence.
    + apply obj_ok_exchange.
    + intros t1 o1 Hi. destruct (Hst _ Hi) as [|E1]; auto. inversion E1; subst. right. auto.
Qed.
