(* Invariant of the Await transition system (every schedule, any number of coroutines / awaited objects / executors /
   threads) and the facts the C13 theorems are made of.

   Shape of the invariant, per coroutine c (record co), with k = the number of callbacks of c that are registered with
   some object or taken out by its exchange and not yet fired:
     B  the counter of the awaiter and k (counter = k + [suspender has not subtracted] + [objects not yet tried])
     C  every awaited object already tried is complete or holds c's callback; past the co_await: all complete
     D  c is in executor x's queue exactly when it is AQueued x, once
     W  where it is resumed / submitted agrees with the form of the co_await
     E  one record per co_await passed, each with everything complete, the right place and the awaited value
     F  local and frame destruction counters
     H  the coroutine's own Result
   The coroutines other than the one that moves are handled once and for all by [ext]: what they depend on only grows. *)
From Coq Require Import List Arith Bool Lia.
Import ListNotations.
From YV Require Import gen.Gen_ready_c13 model.Await.



(* ---------------------------------------------------------------- lists *)
Set Implicit Arguments.

Lemma nth_error_upd : forall A (l : list A) i j x,
  nth_error (upd l i x) j = if Nat.eqb i j then match nth_error l i with Some _ => Some x | None => None end
                            else nth_error l j.
Proof.
  induction l as [|a l IH]; intros i j x.
  - simpl. destruct (Nat.eqb i j); destruct i, j; auto.
  - destruct i, j; simpl; auto.
Qed.

Lemma nth_error_upd_eq : forall A (l : list A) i x y, nth_error l i = Some y -> nth_error (upd l i x) i = Some x.
Proof. intros. rewrite nth_error_upd, Nat.eqb_refl, H. auto. Qed.

Lemma nth_error_upd_neq : forall A (l : list A) i j x, i <> j -> nth_error (upd l i x) j = nth_error l j.
Proof. intros. rewrite nth_error_upd. apply Nat.eqb_neq in H. rewrite H. auto. Qed.

Lemma upd_length : forall A (l : list A) i x, length (upd l i x) = length l.
Proof. induction l; intros [|i] x; simpl; auto. Qed.

Fixpoint cocc (c : nat) (l : list nat) : nat :=
  match l with [] => 0 | x :: r => (if Nat.eqb x c then 1 else 0) + cocc c r end.

Lemma cocc_app c l1 l2 : cocc c (l1 ++ l2) = cocc c l1 + cocc c l2.
Proof. induction l1; simpl; auto. rewrite IHl1. lia. Qed.

Lemma cocc_in c l : In c l <-> 1 <= cocc c l.
Proof.
  induction l; simpl; split; intros; try lia; try tauto.
  - destruct H as [->|H]. rewrite Nat.eqb_refl. lia. apply IHl in H. lia.
  - destruct (Nat.eqb a c) eqn:E. apply Nat.eqb_eq in E. auto. right. apply IHl. lia.
Qed.

Lemma cocc_zero c l : cocc c l = 0 -> ~ In c l.
Proof. intros H Hi. apply cocc_in in Hi. lia. Qed.

Lemma mem_in c l : mem c l = true <-> In c l.
Proof.
  induction l; simpl; split; intros; try discriminate; try tauto.
  - apply orb_true_iff in H. destruct H. apply Nat.eqb_eq in H. auto. right. apply IHl. auto.
  - apply orb_true_iff. destruct H as [->|H]. left. apply Nat.eqb_refl. right. apply IHl. auto.
Qed.

Lemma cocc_remove1_same c l : In c l -> cocc c (remove1 c l) + 1 = cocc c l.
Proof.
  induction l; simpl; intros; try tauto.
  destruct (Nat.eqb a c) eqn:E; simpl. lia.
  rewrite E. destruct H. apply Nat.eqb_neq in E. congruence. apply IHl in H. lia.
Qed.

Lemma cocc_remove1_other c c' l : c' <> c -> cocc c' (remove1 c l) = cocc c' l.
Proof.
  intros N. induction l; simpl; auto.
  destruct (Nat.eqb a c) eqn:E; simpl.
  - apply Nat.eqb_eq in E. subst. destruct (Nat.eqb c c') eqn:E2; auto. apply Nat.eqb_eq in E2. congruence.
  - rewrite IHl. auto.
Qed.

Fixpoint lsum (A : Type) (f : A -> nat) (l : list A) : nat :=
  match l with [] => 0 | x :: r => f x + lsum f r end.

Lemma lsum_upd : forall A (f : A -> nat) (l : list A) i a b,
  nth_error l i = Some a -> lsum f (upd l i b) + f a = lsum f l + f b.
Proof.
  induction l; intros [|i] x b H; simpl in *; try discriminate.
  - inversion H. subst. lia.
  - specialize (IHl _ _ b H). lia.
Qed.

Lemma lsum_ge : forall A (f : A -> nat) (l : list A) i a, nth_error l i = Some a -> f a <= lsum f l.
Proof.
  induction l; intros [|i] x H; simpl in *; try discriminate.
  - inversion H. subst. lia.
  - specialize (IHl _ _ H). lia.
Qed.

Lemma lsum_Forall2 : forall A (f : A -> nat) (l l' : list A),
  Forall2 (fun a b => f b = f a) l l' -> lsum f l' = lsum f l.
Proof. induction 1; simpl; auto; lia. Qed.

Lemma Forall2_nth : forall A (R : A -> A -> Prop) l l' i a,
  Forall2 R l l' -> nth_error l i = Some a -> exists b, nth_error l' i = Some b /\ R a b.
Proof.
  intros A R l l' i a H. revert i a. induction H; intros [|i] a H1; simpl in *; try discriminate.
  - inversion H1. subst. eauto.
  - eauto.
Qed.

Lemma Forall2_nth_rev : forall A (R : A -> A -> Prop) l l' i b,
  Forall2 R l l' -> nth_error l' i = Some b -> exists a, nth_error l i = Some a /\ R a b.
Proof.
  intros A R l l' i b H. revert i b. induction H; intros [|i] b H1; simpl in *; try discriminate.
  - inversion H1. subst. eauto.
  - eauto.
Qed.

Lemma Forall2_refl : forall A (R : A -> A -> Prop) l, (forall a, R a a) -> Forall2 R l l.
Proof. induction l; auto. Qed.

Lemma Forall2_upd : forall A (R : A -> A -> Prop) l i a b,
  (forall a, R a a) -> nth_error l i = Some a -> R a b -> Forall2 R l (upd l i b).
Proof.
  induction l; intros [|i] x b Rf H Hr; simpl in *; try discriminate.
  - inversion H. subst. constructor; auto. apply Forall2_refl; auto.
  - constructor; auto. eapply IHl; eauto.
Qed.

Lemma Forall2_trans : forall A (R : A -> A -> Prop) l1 l2 l3,
  (forall a b c, R a b -> R b c -> R a c) -> Forall2 R l1 l2 -> Forall2 R l2 l3 -> Forall2 R l1 l3.
Proof.
  intros A R l1 l2 l3 T H. revert l3. induction H; intros l3 H2; inversion H2; subst; constructor; eauto.
Qed.

Lemma Forall2_imp : forall A (R R' : A -> A -> Prop) l l',
  (forall a b, R a b -> R' a b) -> Forall2 R l l' -> Forall2 R' l l'.
Proof. induction 2; constructor; auto. Qed.

Lemma Forall_upd : forall A (P : A -> Prop) l i b, Forall P l -> P b -> Forall P (upd l i b).
Proof. induction l; intros [|i] b H Hb; simpl; auto; inversion H; subst; constructor; auto. Qed.

Lemma Forall_nth : forall A (P : A -> Prop) l i a, Forall P l -> nth_error l i = Some a -> P a.
Proof. intros. rewrite Forall_forall in H. apply H. eapply nth_error_In; eauto. Qed.

Lemma firstn_S_nth : forall A (l : list A) i a, nth_error l i = Some a -> firstn (S i) l = firstn i l ++ [a].
Proof.
  induction l; intros [|i] x H; simpl in *; try discriminate.
  - inversion H. auto.
  - f_equal. apply IHl. auto.
Qed.

Lemma nth_error_lt : forall A (l : list A) i a, nth_error l i = Some a -> i < length l.
Proof. intros. apply nth_error_Some. congruence. Qed.

Unset Implicit Arguments.

(* ---------------------------------------------------------------- the quantities of the invariant *)

Definition stack (ob : obj) : list nat := match ow ob with WStack l => l | WRes => [] end.
Definition occ (c : nat) (ob : obj) : nat := cocc c (stack ob) + cocc c (opend ob).
Definition out (os : list obj) (c : nat) : nat := lsum (occ c) os.

Definition obj_ok (ob : obj) : Prop :=
  (ow ob = WRes -> oslot ob <> None) /\ (opend ob <> [] -> ow ob = WRes).

Definition reg_done (os : list obj) (c o : nat) : Prop :=
  ocomplete os o = true \/ exists ob, nth_error os o = Some ob /\ In c (stack ob).
Definition all_complete (os : list obj) (l : list nat) : Prop := forall o, In o l -> ocomplete os o = true.

(* which co_awaits a state of the awaiting machinery belongs to *)
Definition shape_ok (x : ast) (a : apt) : bool :=
  match x with
  | AReadyL => match a with PCo _ _ | PAwait1 FInl _ | PAwait1 FSticky _ | PAwaitN FInl _ | PAwaitN FSticky _ => true | _ => false end
  | AReg _ _ | ARegU _ _ | ARegS _ _ _ => match a with PCo _ _ | PAwait1 _ _ | PAwaitN _ _ => true | _ => false end
  | ACtor _ | ASusp => match a with PAwaitN _ _ => true | _ => false end
  | ATaskSt => match a with PTask _ _ | PTaskL _ => true | _ => false end
  | AWait => match a with PCo _ _ | PTask _ _ | PTaskL _ | PAwait1 _ _ | PAwaitN _ _ => true | _ => false end
  | ASubmit _ | AQueued _ =>
      match a with POn _ | PYield | PAwait1 (FOn _) _ | PAwait1 FSticky _ | PAwaitN (FOn _) _ | PAwaitN FSticky _ => true
                 | _ => false end
  | _ => true
  end.

Definition B_ok (co : coro) (k : nat) : Prop :=
  match capt co with
  | None => k = 0
  | Some a =>
      shape_ok (cst co) a = true /\
      let n := length (aobjs a) in
      match cst co with
      | AReg i w | ARegU i w | ARegS i w _ =>
          match a with
          | PAwaitN _ _ => cnt co + w = n + 1 + k /\ w <= i
          | PAwait1 (FOn _) _ => cnt co = 1 /\ k = 0
          | _ => k = 0
          end
      | ACtor w => cnt co + w = n + 1 + k /\ w <= n
      | AReadyL => if amulti a then cnt co = k + 1 else k = 0
      | ASusp => cnt co = k + 1
      | AWait => if acounted a then cnt co = k /\ 1 <= k else k = 1
      | _ => k = 0
      end
  end.

Definition C_ok (s : st) (c : nat) (co : coro) : Prop :=
  match capt co with
  | None => True
  | Some a =>
      match cst co with
      | AReg i _ | ARegU i _ | ARegS i _ _ => forall o, In o (firstn i (aobjs a)) -> reg_done (objs s) c o
      | ACtor _ | ASusp | AWait => forall o, In o (aobjs a) -> reg_done (objs s) c o
      | AReadyL => amulti a = true -> forall o, In o (aobjs a) -> reg_done (objs s) c o
      | ASubmit _ | AQueued _ | AResume _ => all_complete (objs s) (aobjs a)
      | _ => True
      end
  end.

Definition D_ok (s : st) (c : nat) (co : coro) : Prop :=
  (forall x q, nth_error (qs s) x = Some q ->
               cocc c q = match cst co with AQueued x' => if Nat.eqb x' x then 1 else 0 | _ => 0 end) /\
  (forall x, cst co = AQueued x -> exists q, nth_error (qs s) x = Some q).

Definition target (a : apt) (own0 : nat) : nat := match aform a with FOn e => e | _ => own0 end.

(* the clause "resumption happens on the executor the awaiter names": how and where a co_await of kind [a] continues *)
Definition where_ok (os : list obj) (a : apt) (h : how) (t ex own0 : nat) : Prop :=
  match a with
  | PCurrent => h = BySelf /\ ex = own0
  | POn e => h = ByExec e /\ ex = e
  | PYield => h = ByExec own0 /\ ex = own0
  | PAwait1 (FOn e) _ | PAwaitN (FOn e) _ => h = ByExec e /\ ex = e
  | PAwait1 FSticky _ | PAwaitN FSticky _ => (h = BySelf \/ h = ByExec own0) /\ ex = own0
  | _ => (h = BySelf /\ ex = own0) \/
         exists o ob, In o (aobjs a) /\ h = ByFire o /\ nth_error os o = Some ob /\ othr ob = Some t
  end.

Definition W_ok (s : st) (co : coro) : Prop :=
  match capt co with
  | None => True
  | Some a =>
      match cst co with
      | AResume h => where_ok (objs s) a h (on co) (cexec co) (cown0 co)
      | ASubmit x | AQueued x => x <> 0 /\ x = target a (cown0 co) /\ cexec co = x
      | AReadyL | AReg _ _ | ARegU _ _ | ARegS _ _ _ | ACtor _ | ASusp | ATaskSt | AWait =>
          cexec co = target a (cown0 co)
      | _ => True
      end
  end.

Definition rec_ok (s : st) (co : coro) (r : rrec) : Prop :=
  rok r = true /\
  forall a, nth_error (prog co) (rk r) = Some a ->
    all_complete (objs s) (aobjs a) /\
    where_ok (objs s) a (rhow r) (rthr r) (rexec r) (rown r) /\
    match aconsume a with
    | Some (o, _) => exists ob v, nth_error (objs s) o = Some ob /\ oslot ob = Some v /\ rval r = Some (Some v)
    | None => rval r = None
    end.

Definition E_ok (s : st) (co : coro) : Prop :=
  map rk (resumes co) = seq 0 (pc co) /\ Forall (rec_ok s co) (resumes co) /\
  Forall (fun p => fst p = true -> snd p = true) (readys co).

Definition F_ok (co : coro) : Prop :=
  (llive co = true /\ ldtors co = 0 \/ llive co = false /\ ldtors co = 1) /\
  (fowner co = true /\ ffrees co = 0 \/ fowner co = false /\ ffrees co = 1 /\ llive co = false /\ cst co = ADone).

Definition result_of (e : cend_t) : option res :=
  match e with Running => None | Returned r => Some r | Threw x => Some x | Dropped => Some RStop end.

Definition ended (x : ast) : bool := match x with AFinal | ADone => true | _ => false end.

Definition H_ok (s : st) (c : nat) (co : coro) : Prop :=
  (cend co = Running <-> ended (cst co) = false) /\
  (cend co <> Running -> exists ob, nth_error (objs s) (own co) = Some ob /\ oprod ob = Some c /\
                                    oslot ob = result_of (cend co)) /\
  (forall ob, nth_error (objs s) (own co) = Some ob -> oprod ob = Some c -> (cst co = ADone <-> ow ob = WRes)) /\
  match cend co with
  | Returned _ => pc co = length (prog co)
  | Threw e => exists l r a o, resumes co = l ++ [r] /\ rval r = Some (Some e) /\ is_err (Some e) = Some e /\
                               nth_error (prog co) (rk r) = Some a /\ aconsume a = Some (o, false)
  | _ => True
  end.

Definition co_ok (s : st) (c : nat) (co : coro) : Prop :=
  B_ok co (out (objs s) c) /\ C_ok s c co /\ D_ok s c co /\ W_ok s co /\ E_ok s co /\ F_ok co /\ H_ok s c co.

Definition stk_ok (s : st) : Prop :=
  forall t o, In (t, o) (stk s) -> exists ob, nth_error (objs s) o = Some ob /\ othr ob = Some t.

Definition Inv (s : st) : Prop :=
  Forall obj_ok (objs s) /\ stk_ok s /\ forall c co, nth_error (cos s) c = Some co -> co_ok s c co.

(* ---------------------------------------------------------------- what the coroutines that do not move rely on *)

Definition obj_ext (c0 : nat) (ob ob' : obj) : Prop :=
  oprod ob' = oprod ob /\
  (complete ob = true -> complete ob' = true) /\
  (forall v, oslot ob = Some v -> oslot ob' = Some v) /\
  (forall t, othr ob = Some t -> othr ob' = Some t) /\
  (forall c, c <> c0 -> occ c ob' = occ c ob) /\
  (forall c, c <> c0 -> In c (stack ob) -> In c (stack ob') \/ complete ob' = true) /\
  (forall c, oprod ob = Some c -> c <> c0 -> oslot ob' = oslot ob /\ (ow ob' = WRes <-> ow ob = WRes)).

Definition q_ext (c0 : nat) (q q' : list nat) : Prop := forall c, c <> c0 -> cocc c q' = cocc c q.

Definition ext (c0 : nat) (s s' : st) : Prop :=
  Forall2 (obj_ext c0) (objs s) (objs s') /\ Forall2 (q_ext c0) (qs s) (qs s').

Lemma obj_ext_refl c0 ob : obj_ext c0 ob ob.
Proof. unfold obj_ext. split; auto. split; auto. split; auto. split; auto. split; auto. split; auto. intros; tauto. Qed.

Lemma obj_ext_trans c0 a b c : obj_ext c0 a b -> obj_ext c0 b c -> obj_ext c0 a c.
Proof.
  unfold obj_ext. intros (A1 & A2 & A3 & A4 & A5 & A6 & A7) (B1 & B2 & B3 & B4 & B5 & B6 & B7).
  split; [congruence|]. split; [auto|]. split; [auto|]. split; [auto|].
  split; [intros x N; rewrite B5, A5; auto|]. split.
  - intros x N Hi. destruct (A6 x N Hi) as [Hi'|Hc]; auto.
  - intros x Hp N. destruct (A7 x Hp N) as [E1 E2]. assert (Hp' : oprod b = Some x) by congruence.
    destruct (B7 x Hp' N) as [E3 E4]. split. congruence. tauto.
Qed.

Lemma q_ext_refl c0 q : q_ext c0 q q.
Proof. red. auto. Qed.

Lemma ext_refl c0 s s' : objs s' = objs s -> qs s' = qs s -> ext c0 s s'.
Proof.
  intros E1 E2. unfold ext. rewrite E1, E2. split; apply Forall2_refl.
  apply obj_ext_refl. apply q_ext_refl.
Qed.

Lemma ext_trans c0 s1 s2 s3 : ext c0 s1 s2 -> ext c0 s2 s3 -> ext c0 s1 s3.
Proof.
  intros [A1 A2] [B1 B2]. split.
  - eapply Forall2_trans; eauto. apply obj_ext_trans.
  - eapply Forall2_trans; eauto. unfold q_ext. intros. rewrite H0, H; auto.
Qed.

Lemma ext_obj c0 s s' o ob ob' :
  nth_error (objs s) o = Some ob -> objs s' = upd (objs s) o ob' -> qs s' = qs s -> obj_ext c0 ob ob' -> ext c0 s s'.
Proof.
  intros H E1 E2 X. unfold ext. rewrite E1, E2. split.
  - eapply Forall2_upd; eauto. apply obj_ext_refl.
  - apply Forall2_refl. apply q_ext_refl.
Qed.

Lemma ext_q c0 s s' x q q' :
  nth_error (qs s) x = Some q -> objs s' = objs s -> qs s' = upd (qs s) x q' -> q_ext c0 q q' -> ext c0 s s'.
Proof.
  intros H E1 E2 X. unfold ext. rewrite E1, E2. split.
  - apply Forall2_refl. apply obj_ext_refl.
  - eapply Forall2_upd; eauto. apply q_ext_refl.
Qed.

Lemma ext_complete c0 s s' o : ext c0 s s' -> ocomplete (objs s) o = true -> ocomplete (objs s') o = true.
Proof.
  intros [X _]. unfold ocomplete. destruct (nth_error (objs s) o) eqn:E; try discriminate.
  destruct (Forall2_nth _ X E) as (b & -> & Y). apply Y.
Qed.

Lemma ext_out c0 s s' c : ext c0 s s' -> c <> c0 -> out (objs s') c = out (objs s) c.
Proof.
  intros [X _] N. unfold out. apply lsum_Forall2.
  eapply Forall2_imp; [|exact X]. intros a b Y. apply Y. auto.
Qed.

Lemma ext_reg_done c0 s s' c o : ext c0 s s' -> c <> c0 -> reg_done (objs s) c o -> reg_done (objs s') c o.
Proof.
  intros X N [H|(ob & H1 & H2)].
  - left. eapply ext_complete; eauto.
  - destruct X as [X _]. destruct (Forall2_nth _ X H1) as (b & E & Y).
    destruct Y as (_ & _ & _ & _ & _ & Y6 & _). destruct (Y6 c N H2).
    + right. eauto.
    + left. unfold ocomplete. rewrite E. auto.
Qed.

Lemma ext_where c0 s s' a h t ex own0 :
  ext c0 s s' -> where_ok (objs s) a h t ex own0 -> where_ok (objs s') a h t ex own0.
Proof.
  intros [X _] W.
  assert (G : (h = BySelf /\ ex = own0) \/
              (exists o ob, In o (aobjs a) /\ h = ByFire o /\ nth_error (objs s) o = Some ob /\ othr ob = Some t) ->
              (h = BySelf /\ ex = own0) \/
              (exists o ob, In o (aobjs a) /\ h = ByFire o /\ nth_error (objs s') o = Some ob /\ othr ob = Some t)).
  { intros [G|(o & ob & G1 & G2 & G3 & G4)]; auto. right.
    destruct (Forall2_nth _ X G3) as (b & E & Y). exists o, b. repeat split; auto. apply Y. auto. }
  destruct a as [| | |f|f| | |]; simpl in *; auto; destruct f; auto.
Qed.

Lemma ext_rec_ok c0 s s' co r : ext c0 s s' -> rec_ok s co r -> rec_ok s' co r.
Proof.
  intros X [R1 R2]. split; auto. intros a Ha. destruct (R2 a Ha) as (A1 & A2 & A3). repeat split.
  - intros o Ho. eapply ext_complete; eauto.
  - eapply ext_where; eauto.
  - destruct (aconsume a) as [[o b]|]; auto. destruct A3 as (ob & v & B1 & B2 & B3).
    destruct X as [X _]. destruct (Forall2_nth _ X B1) as (ob' & E & Y). exists ob', v. repeat split; auto. apply Y. auto.
Qed.

(* a coroutine that is not the one moving keeps its part of the invariant *)
Lemma co_ok_ext c0 s s' c co : ext c0 s s' -> c <> c0 -> co_ok s c co -> co_ok s' c co.
Proof.
  intros X N (B & C & D & W & E & F & H). unfold co_ok.
  split. { rewrite (ext_out _ _ _ _ X N). auto. }
  split.
  { unfold C_ok in *. destruct (capt co); auto.
    destruct (cst co); auto; try (intros o Ho; eapply ext_reg_done; eauto; fail);
      try (intros o Ho; eapply ext_complete; eauto; apply C; auto; fail).
    intros Hm o Ho. eapply ext_reg_done; eauto. }
  split.
  { destruct D as [D1 D2]. split.
    - intros x q' Hq. destruct X as [_ X].
      destruct (Forall2_nth_rev _ X Hq) as (q & E1 & Y). rewrite (Y c N). auto.
    - intros x Hx. destruct (D2 x Hx) as (q & Hq). destruct X as [_ X].
      destruct (Forall2_nth _ X Hq) as (q' & E1 & _). eauto. }
  split.
  { unfold W_ok in *. destruct (capt co); auto. destruct (cst co); auto. eapply ext_where; eauto. }
  split.
  { destruct E as (E1 & E2 & E3). split; auto. split; auto.
    eapply Forall_impl; [|exact E2]. intros r. eapply ext_rec_ok; eauto. }
  split. { exact F. }
  destruct H as (H1 & H2 & H3 & H4). split; auto. split; [|split; auto].
  - intros Hr. destruct (H2 Hr) as (ob & A1 & A2 & A3).
    destruct X as [X _]. destruct (Forall2_nth _ X A1) as (ob' & E1 & Y). exists ob'.
    destruct Y as (Y1 & _ & _ & _ & _ & _ & Y7). destruct (Y7 c A2 N) as [Y8 _].
    split; auto. split; congruence.
  - intros ob' E1 Hp. destruct X as [X _].
    destruct (Forall2_nth_rev _ X E1) as (ob & E0 & Y). destruct Y as (Y1 & _ & _ & _ & _ & _ & Y7).
    rewrite Y1 in Hp. destruct (Y7 c Hp N) as [_ Y8]. specialize (H3 ob E0 Hp). tauto.
Qed.

(* the frame of every preservation proof: one coroutine (c0) moves, the others see an extension *)
Lemma inv_update s s' c0 :
  Inv s -> ext c0 s s' ->
  (forall c, c <> c0 -> nth_error (cos s') c = nth_error (cos s) c) ->
  Forall obj_ok (objs s') -> stk_ok s' ->
  (forall co', nth_error (cos s') c0 = Some co' -> co_ok s' c0 co') ->
  Inv s'.
Proof.
  intros (I1 & I2 & I3) X Hc Ho Hs Ha. split; auto. split; auto.
  intros c co Hn. destruct (Nat.eq_dec c c0) as [->|N]; auto.
  rewrite Hc in Hn by auto. eapply co_ok_ext; eauto.
Qed.

(* ---------------------------------------------------------------- small facts about the step functions *)

Lemma find_actor_spec : forall l t o i c,
  find_actor l t o i = Some c ->
  i <= c /\ exists co, nth_error l (c - i) = Some co /\ on co = t /\ wants co = Some o.
Proof.
  induction l as [|x l IH]; intros t o i c H; simpl in H; try discriminate.
  destruct (Nat.eqb (on x) t && match wants x with Some o' => Nat.eqb o' o | None => false end) eqn:E.
  - inversion H. subst. split; auto. exists x. rewrite Nat.sub_diag. simpl.
    apply andb_true_iff in E. destruct E as [E1 E2]. apply Nat.eqb_eq in E1.
    destruct (wants x); try discriminate. apply Nat.eqb_eq in E2. subst. auto.
  - apply IH in H. destruct H as (L & co & H1 & H2). split. lia. exists co. split; auto.
    replace (c - i) with (S (c - S i)) by lia. simpl. auto.
Qed.

Lemma find_actor_0 l t o c :
  find_actor l t o 0 = Some c -> exists co, nth_error l c = Some co /\ on co = t /\ wants co = Some o.
Proof. intros H. apply find_actor_spec in H. rewrite Nat.sub_0_r in H. apply H. Qed.

Lemma stk_top_in : forall l t o, stk_top l t = Some o -> In (t, o) l.
Proof.
  induction l as [|[t' o'] l IH]; intros t o H; simpl in *; try discriminate.
  destruct (Nat.eqb t' t) eqn:E. apply Nat.eqb_eq in E. inversion H. subst. auto. right. auto.
Qed.

Lemma stk_pop_in : forall l t x, In x (stk_pop l t) -> In x l.
Proof.
  induction l as [|[t' o'] l IH]; intros t x H; simpl in *; auto.
  destruct (Nat.eqb t' t). auto. destruct H; auto. right. eapply IH; eauto.
Qed.

Lemma fire_top_spec s t o c s1 :
  fire_top s t = Some (o, c, s1) ->
  exists ob rest, In (t, o) (stk s) /\ nth_error (objs s) o = Some ob /\ opend ob = c :: rest /\
                  objs s1 = upd (objs s) o (set_opend rest ob) /\ cos s1 = cos s /\ qs s1 = qs s /\
                  (forall x, In x (stk s1) -> In x (stk s)).
Proof.
  unfold fire_top. intros H. destruct (stk_top (stk s) t) as [o'|] eqn:E1; try discriminate.
  destruct (nth_error (objs s) o') as [ob|] eqn:E2; try discriminate.
  destruct (opend ob) as [|c' rest] eqn:E3; try discriminate. inversion H. subst. clear H.
  exists ob, rest. apply stk_top_in in E1. repeat split; auto.
  intros x. simpl. destruct rest; auto. apply stk_pop_in.
Qed.

(* the invariant for a step that changes one coroutine only *)
Lemma inv_co_only s c co co' :
  Inv s -> nth_error (cos s) c = Some co -> co_ok (set_co c co' s) c co' -> Inv (set_co c co' s).
Proof.
  intros I Hc K. eapply inv_update with (c0 := c); eauto.
  - apply ext_refl; reflexivity.
  - intros c1 N. simpl. apply nth_error_upd_neq. auto.
  - apply I.
  - destruct I as (_ & I2 & _). exact I2.
  - intros co1 H1. simpl in H1. erewrite nth_error_upd_eq in H1 by eauto. inversion H1. subst. auto.
Qed.

Lemma inv_co s c co : Inv s -> nth_error (cos s) c = Some co -> co_ok s c co.
Proof. intros (_ & _ & I) H. auto. Qed.

Lemma inv_obj s o ob : Inv s -> nth_error (objs s) o = Some ob -> obj_ok ob.
Proof. intros (I & _) H. eapply Forall_nth; eauto. Qed.

Lemma complete_ready ob : obj_ok ob -> ow ob = WRes -> complete ob = true.
Proof. intros [H _] E. unfold complete. rewrite E. destruct (oslot ob); auto. exfalso. apply H; auto. Qed.

Lemma ocomplete_nth l o ob : nth_error l o = Some ob -> ocomplete l o = complete ob.
Proof. unfold ocomplete. intros ->. auto. Qed.

(* no callback of c anywhere: nothing is registered *)
Lemma out_zero_stack os c o ob : out os c = 0 -> nth_error os o = Some ob -> ~ In c (stack ob).
Proof.
  intros H E. pose proof (@lsum_ge _ (occ c) _ _ _ E) as L. unfold out in H.
  assert (Z : occ c ob = 0) by lia. unfold occ in Z. apply cocc_zero. lia.
Qed.

Lemma reg_done_complete os c l : out os c = 0 -> (forall o, In o l -> reg_done os c o) -> all_complete os l.
Proof.
  intros H R o Ho. destruct (R o Ho) as [X|(ob & E & Hi)]; auto. exfalso. eapply out_zero_stack; eauto.
Qed.
