(* Proofs about Lazy (C12). *)
From Coq Require Import List ZArith Bool Lia.
Import ListNotations.
From YV Require Import model.Pipe model.Lazy proofs.PipeProofs.

(* ---------------------------------------------------------------- building runs nothing *)

Lemma trun_then : forall steps w tk,
  w_state w = TUnstarted tk ->
  exists w', trun w (map TThen steps) = Some w' /\
             w_state w' = TUnstarted (Task (t_head tk) (t_steps tk ++ steps)) /\
             w_evs w' = w_evs w /\ w_freed w' = w_freed w /\ w_results w' = w_results w.
Proof.
  induction steps as [|s steps IH]; intros w tk Hs.
  - exists w. cbn. rewrite app_nil_r. destruct tk. repeat split; assumption.
  - cbn [map trun]. unfold tstep. rewrite Hs.
    destruct (IH (TW (TUnstarted (Task (t_head tk) (t_steps tk ++ [s]))) (w_evs w) (w_freed w) (w_results w))
                 (Task (t_head tk) (t_steps tk ++ [s])) eq_refl) as [w' [Hr [Hst H]]].
    exists w'. split; [exact Hr|]. split; [|exact H].
    cbn in Hst. rewrite <- app_assoc in Hst. exact Hst.
Qed.

Theorem inert : forall h steps,
  exists w, trun (tinit h) (map TThen steps) = Some w /\
            w_state w = TUnstarted (Task h steps) /\ w_evs w = [] /\ w_freed w = [] /\ w_results w = [].
Proof.
  intros h steps. destruct (trun_then steps (tinit h) (Task h []) eq_refl) as [w [Hr [Hs [He [Hf Hres]]]]].
  exists w. repeat split; assumption.
Qed.

(* nothing happens before the first TStart / TAwait / TDestroy, whatever is done *)
Lemma only_then_before_start : forall ops w w',
  trun w ops = Some w' -> (forall o, In o ops -> exists s, o = TThen s) ->
  w_evs w' = w_evs w /\ w_freed w' = w_freed w /\ w_results w' = w_results w.
Proof.
  induction ops as [|o ops IH]; intros w w' H Hall.
  - inversion H. repeat split.
  - cbn [trun] in H. destruct (tstep w o) as [w1|] eqn:H1; [|discriminate].
    destruct (Hall o (or_introl eq_refl)) as [s Hs]. subst o.
    unfold tstep in H1. destruct (w_state w); try discriminate. inversion H1; subst.
    destruct (IH _ _ H (fun o Ho => Hall o (or_intror Ho))) as [A [B C]]. cbn in *. repeat split; assumption.
Qed.

(* ---------------------------------------------------------------- a started chain = the eager twin *)

Lemma fold_run_step_app : forall steps acc s,
  fold_left run_step (steps ++ [s]) acc = run_step (fold_left run_step steps acc) s.
Proof. intros. rewrite fold_left_app. reflexivity. Qed.

Definition with_ids (ids : list nat) (o : option out) : option lout :=
  match o with Some x => Some (x, ids) | None => None end.

Lemma twin_own_build : forall p tk, build p = Some tk -> run_task SOwn tk = with_ids (task_ids tk) (run p).
Proof.
  induction p; intros tk Hb; cbn [build] in Hb; try discriminate.
  - destruct w; try discriminate. inversion Hb. reflexivity.
  - destruct w; try discriminate. inversion Hb. subst. unfold run_task, task_ids. cbn.
    destruct (run_call par (negb (alive e))) as [[i|r]|]; try reflexivity.
    destruct (body i); try reflexivity. destruct (run p); reflexivity.
  - destruct w; try discriminate. inversion Hb. subst. unfold run_task, task_ids. cbn.
    destruct (prom_result b (negb (alive e))). reflexivity.
  - destruct w; try discriminate. inversion Hb. reflexivity.
  - destruct (build p) as [tk0|] eqn:Hb0; [|discriminate]. inversion Hb. subst.
    unfold run_task. cbn [t_steps t_head]. rewrite fold_run_step_app.
    specialize (IHp tk0 eq_refl). unfold run_task in IHp. rewrite IHp.
    unfold task_ids. cbn [t_head t_steps]. rewrite map_app, app_assoc. cbn [map l_id].
    destruct (run p) as [oq|] eqn:Hq.
    + cbn [with_ids run_step]. rewrite (then_unfold _ _ _ _ _ _ _ Hq). cbn.
      destruct (step_result oq id par a rt body); reflexivity.
    + cbn [with_ids run_step]. cbn [run]. rewrite Hq. reflexivity.
Qed.

Lemma run_eager : forall p tk, build p = Some tk -> run (eager p) = run p.
Proof.
  induction p; intros tk Hb; cbn [build] in Hb; try discriminate.
  - destruct w; try discriminate. reflexivity.
  - destruct w; try discriminate. reflexivity.
  - destruct w; try discriminate. reflexivity.
  - destruct w; try discriminate. reflexivity.
  - destruct (build p) as [tk0|] eqn:Hb0; [|discriminate].
    cbn [eager run]. rewrite (IHp tk0 eq_refl). reflexivity.
Qed.

Theorem twin_own : forall p tk,
  build p = Some tk -> run_task SOwn tk = with_ids (task_ids tk) (core_run (eager p)).
Proof. intros p tk Hb. unfold core_run. rewrite (run_eager p tk Hb). apply twin_own_build. exact Hb. Qed.

(* started on another (alive or stopped) executor: the eager twin whose first core is given that executor *)
Definition twin_on (e : exec) (tk : task) : option prog :=
  match t_head tk with
  | HRun _ id par rt body => Some (PRun WO e id par rt body)
  | HProm t _ id b => Some (PProm WO t e id b)
  | HReady t r => if alive e then Some (PContract WO t e false r) else None
  | HCoro _ _ _ => None
  end.

Lemma run_head_on : forall e h src, twin_on e (Task h []) = Some src ->
  run_head (SOn e) h = with_ids (head_id h) (run src).
Proof.
  intros e h src H. unfold twin_on in H. cbn [t_head] in H.
  destruct h; cbn in *.
  - destruct (alive e) eqn:Ha; [|discriminate]. inversion H. cbn. reflexivity.
  - inversion H. cbn.
    destruct (run_call par (negb (alive e))) as [[i|r]|]; try reflexivity.
    destruct (body i); try reflexivity. destruct (run p); reflexivity.
  - inversion H. cbn. destruct (prom_result b (negb (alive e))). reflexivity.
  - discriminate.
Qed.

Definition chain_of (src : prog) (steps : list lstep) : prog :=
  fold_left (fun p s => PThen p (l_id s) (l_par s) (l_att s) (l_rt s) (l_body s)) steps src.

Lemma run_steps_chain : forall steps src ids,
  fold_left run_step steps (with_ids ids (run src)) = with_ids (ids ++ map l_id steps) (run (chain_of src steps)).
Proof.
  intros steps. induction steps as [|s steps IH] using rev_ind; intros src ids.
  - cbn. rewrite app_nil_r. reflexivity.
  - rewrite fold_left_app. cbn [fold_left]. rewrite IH.
    unfold chain_of. rewrite fold_left_app. cbn [fold_left]. fold (chain_of src steps).
    rewrite map_app, app_assoc. cbn [map].
    destruct (run (chain_of src steps)) as [oq|] eqn:Hq.
    + cbn [with_ids run_step]. rewrite (then_unfold _ _ _ _ _ _ _ Hq).
      destruct (step_result oq _ _ _ _ _); reflexivity.
    + cbn [with_ids run_step]. cbn [run]. rewrite Hq. reflexivity.
Qed.

Theorem twin_started_on : forall e h steps src,
  twin_on e (Task h []) = Some src ->
  run_task (SOn e) (Task h steps) = with_ids (task_ids (Task h steps)) (core_run (chain_of src steps)).
Proof.
  intros e h steps src H. unfold run_task, task_ids, core_run. cbn [t_head t_steps].
  rewrite (run_head_on e h src H). apply run_steps_chain.
Qed.

(* ---------------------------------------------------------------- once started: every core once, in order *)

Theorem freed_exactly_the_chain : forall s tk o fr, run_task s tk = Some (o, fr) -> fr = task_ids tk.
Proof.
  intros s [h steps]. unfold run_task, task_ids. cbn [t_head t_steps].
  induction steps as [|st steps IH] using rev_ind; intros o fr H.
  - cbn in *. rewrite app_nil_r. unfold run_head in H.
    destruct h; cbn in *.
    + inversion H. reflexivity.
    + destruct (run_call par _) as [[i|r]|]; try discriminate.
      * destruct (body i); try (inversion H; reflexivity). destruct (run p); [inversion H; reflexivity|discriminate].
      * inversion H. reflexivity.
    + destruct (prom_result b _). inversion H. reflexivity.
    + inversion H. reflexivity.
  - rewrite fold_left_app in H. cbn [fold_left] in H.
    destruct (fold_left run_step steps (run_head s h)) as [[oq fq]|] eqn:Hq; [|discriminate].
    cbn [run_step] in H. destruct (step_result oq _ _ _ _ _); [|discriminate]. inversion H; subst.
    rewrite (IH oq fq eq_refl). rewrite map_app, app_assoc. reflexivity.
Qed.

(* one more Then-core: nothing, or exactly one invocation followed by those of the chain it returned, after all earlier ones *)
Theorem step_once_in_order_lazy : forall s h steps st oq fq o fr,
  run_task s (Task h steps) = Some (oq, fq) ->
  run_task s (Task h (steps ++ [st])) = Some (o, fr) ->
  fr = fq ++ [l_id st] /\
  (o_evs o = o_evs oq \/
   exists i, invoked (l_par st) (arrives (l_att st) oq) = Some i /\
     (o_evs o = o_evs oq ++ [Ev (l_id st) (exec_of (l_att st) oq) (is_call (l_att st)) i] \/
      exists k p' oi, l_body st i = RetAsync k p' /\ run p' = Some oi /\
        o_evs o = o_evs oq ++ Ev (l_id st) (exec_of (l_att st) oq) (is_call (l_att st)) i :: o_evs oi)).
Proof.
  intros s h steps st oq fq o fr Hq H. unfold run_task in *. cbn [t_head t_steps] in *.
  rewrite fold_left_app in H. cbn [fold_left] in H. rewrite Hq in H. cbn [run_step] in H.
  destruct (step_result oq _ _ _ _ _) as [o'|] eqn:Hs; [|discriminate]. inversion H; subst. split; [reflexivity|].
  unfold step_result in Hs. destruct (par_ok _ _); [|discriminate].
  destruct (invoked (l_par st) (arrives (l_att st) oq)) as [i|] eqn:Hi.
  - right. exists i. split; [reflexivity|].
    destruct (l_body st i) as [x|v| |r|k p'] eqn:Hb; try (left; inversion Hs; reflexivity).
    right. destruct (run p') as [oi|] eqn:Hr; [|discriminate].
    exists k, p', oi. split; [reflexivity|]. split; [exact Hr|]. inversion Hs. reflexivity.
  - left. inversion Hs. reflexivity.
Qed.

(* ---------------------------------------------------------------- cancellation *)

Definition stop_input (i : input) : Prop := i = IRes (Err EStop) \/ i = IErr EStop.

(* nothing was invoked yet and StopError is travelling, or the first thing invoked received StopError *)
Definition cancelled (o : out) : Prop :=
  match o_evs o with
  | [] => o_res o = Err EStop
  | e :: _ => stop_input (ev_in e)
  end.

Lemma invoked_stop : forall par i, invoked par (Err EStop) = Some i -> stop_input i.
Proof. intros par i H. destruct par; cbn in H; inversion H; [left|right|left]; reflexivity. Qed.

Lemma run_head_cancelled : forall h o fr, run_head (SOn XStopped) h = Some (o, fr) -> cancelled o.
Proof.
  intros h o fr H. unfold run_head, head_exec in H. destruct h; cbn [alive negb] in H.
  - inversion H. reflexivity.
  - rewrite run_call_class in H. destruct (par_ok par TVoid); [|discriminate]. unfold by_class in H.
    destruct (invoked par (Err EStop)) as [i|] eqn:Hi.
    + pose proof (invoked_stop _ _ Hi) as Hst.
      destruct (body i); try (inversion H; exact Hst). destruct (run p); [inversion H; exact Hst|discriminate].
    + inversion H. reflexivity.
  - inversion H. reflexivity.
  - inversion H. reflexivity.
Qed.

Lemma step_cancelled : forall oq id par a rt body o,
  cancelled oq -> step_result oq id par a rt body = Some o -> cancelled o.
Proof.
  intros oq id par a rt body o Hc H. unfold step_result in H. destruct (par_ok _ _); [|discriminate].
  unfold cancelled in *. destruct (o_evs oq) as [|e0 evs] eqn:He.
  - assert (Ha : arrives a oq = Err EStop).
    { unfold arrives, seq_input. rewrite Hc. destruct a; try reflexivity; destruct (alive _); reflexivity. }
    rewrite Ha in H. destruct (invoked par (Err EStop)) as [i|] eqn:Hi.
    + pose proof (invoked_stop _ _ Hi) as Hst.
      destruct (body i); try (inversion H; exact Hst). destruct (run p); [inversion H; exact Hst|discriminate].
    + inversion H. cbn. try rewrite He. reflexivity.
  - destruct (invoked par (arrives a oq)) as [i|].
    + destruct (body i); try (inversion H; cbn; exact Hc). destruct (run p); [inversion H; cbn; exact Hc|discriminate].
    + inversion H. cbn. try rewrite He. exact Hc.
Qed.

Theorem cancel_first_sees_stop : forall tk o fr, cancel tk = Some (o, fr) -> cancelled o /\ fr = task_ids tk.
Proof.
  intros tk o fr H. split; [|exact (freed_exactly_the_chain _ _ _ _ H)].
  destruct tk as [h steps]. unfold cancel, run_task in H. cbn [t_head t_steps] in H.
  revert o fr H. induction steps as [|st steps IH] using rev_ind; intros o fr H.
  - cbn in H. exact (run_head_cancelled _ _ _ H).
  - rewrite fold_left_app in H. cbn [fold_left] in H.
    destruct (fold_left run_step steps (run_head (SOn XStopped) h)) as [[oq fq]|] eqn:Hq; [|discriminate].
    cbn [run_step] in H. destruct (step_result oq _ _ _ _ _) as [o'|] eqn:Hs; [|discriminate]. inversion H; subst.
    exact (step_cancelled _ _ _ _ _ _ _ (IH oq fq eq_refl) Hs).
Qed.

(* callbacks that can turn StopError into something else: those invoked with a Result or with the error *)
Definition recovers (p : pclass) : bool :=
  match p with PResult | PAuto | PError => true | _ => false end.

Definition head_recovers (h : lhead) : bool :=
  match h with HRun _ _ par _ _ => recovers par | _ => false end.

Lemma invoked_stop_none : forall par, recovers par = false -> invoked par (Err EStop) = None.
Proof. destruct par; cbn; intro H; try reflexivity; discriminate H. Qed.

(* without such callbacks nothing at all runs and the chain ends in StopError *)
Theorem cancel_silent : forall h steps o fr,
  head_recovers h = false -> forallb (fun s => negb (recovers (l_par s))) steps = true ->
  cancel (Task h steps) = Some (o, fr) -> o_evs o = [] /\ o_res o = Err EStop.
Proof.
  intros h steps. unfold cancel, run_task. cbn [t_head t_steps].
  induction steps as [|st steps IH] using rev_ind; intros o fr Hh Hs H.
  - cbn [fold_left] in H. unfold run_head, head_exec in H. destruct h; cbn [alive negb head_recovers] in *.
    + inversion H. split; reflexivity.
    + rewrite run_call_class in H. destruct (par_ok par TVoid); [|discriminate]. unfold by_class in H.
      rewrite (invoked_stop_none _ Hh) in H. inversion H. split; reflexivity.
    + inversion H. split; reflexivity.
    + inversion H. split; reflexivity.
  - rewrite forallb_app in Hs. apply andb_prop in Hs. destruct Hs as [Hs1 Hs2]. cbn in Hs2.
    rewrite andb_true_r in Hs2. apply negb_true_iff in Hs2.
    rewrite fold_left_app in H. cbn [fold_left] in H.
    destruct (fold_left run_step steps (run_head (SOn XStopped) h)) as [[oq fq]|] eqn:Hq; [|discriminate].
    destruct (IH oq fq Hh Hs1 eq_refl) as [He Hr].
    cbn [run_step] in H. unfold step_result in H. destruct (par_ok _ _); [|discriminate].
    assert (Ha : arrives (l_att st) oq = Err EStop).
    { unfold arrives, seq_input. rewrite Hr. destruct (l_att st); try reflexivity; destruct (alive _); reflexivity. }
    rewrite Ha, (invoked_stop_none _ Hs2) in H. inversion H. cbn. split; [exact He|reflexivity].
Qed.

(* the function given to Schedule / LazyContract and a coroutine body never run on cancellation, unless the Schedule
   function itself takes Result or E *)
Theorem cancel_head_not_run : forall h o fr,
  head_recovers h = false -> run_head (SOn XStopped) h = Some (o, fr) -> o_evs o = [] /\ o_res o = Err EStop.
Proof. intros h o fr Hh H. exact (cancel_silent h [] o fr Hh eq_refl H). Qed.

(* ---------------------------------------------------------------- ~Task through the machine *)

Theorem destroy_unstarted : forall w tk w',
  w_state w = TUnstarted tk -> tstep w TDestroy = Some w' ->
  exists o, cancel tk = Some (o, task_ids tk) /\ cancelled o /\
            w_evs w' = w_evs w ++ o_evs o /\ w_freed w' = w_freed w ++ task_ids tk /\ w_results w' = w_results w /\
            w_state w' = TGone.
Proof.
  intros w tk w' Hs H. unfold tstep in H. rewrite Hs in H.
  destruct (cancel tk) as [[o fr]|] eqn:Hc; [|discriminate]. inversion H; subst. cbn.
  destruct (cancel_first_sees_stop _ _ _ Hc) as [Hcan Hfr]. subst fr.
  exists o. repeat split. exact Hcan.
Qed.

(* a completed Task: destruction releases it and nothing else happens, whatever its cores are *)
Theorem destroy_completed : forall w tk o w',
  w_state w = TCompleted tk o -> tstep w TDestroy = Some w' ->
  w_evs w' = w_evs w /\ w_freed w' = w_freed w /\ w_results w' = w_results w /\ w_state w' = TGone.
Proof.
  intros w tk o w' Hs H. unfold tstep in H. rewrite Hs in H. inversion H. repeat split.
Qed.

(* Await(task) then ~Task, end to end: the chain ran exactly as the eager twin, every functor died once, the
   destruction added nothing *)
Theorem await_then_destroy : forall h steps w1 w2,
  tstep (TW (TUnstarted (Task h steps)) [] [] []) TAwait = Some w1 -> tstep w1 TDestroy = Some w2 ->
  exists o, run_task SOwn (Task h steps) = Some (o, task_ids (Task h steps)) /\
            w_evs w2 = o_evs o /\ w_freed w2 = task_ids (Task h steps) /\ w_results w2 = [o_res o] /\ w_state w2 = TGone.
Proof.
  intros h steps w1 w2 H1 H2. unfold tstep in H1. cbn [w_state] in H1.
  destruct (run_task SOwn (Task h steps)) as [[o fr]|] eqn:Hr; [|discriminate].
  pose proof (freed_exactly_the_chain _ _ _ _ Hr) as Hf. subst fr.
  inversion H1; subst. cbn in H2. inversion H2; subst. cbn. exists o. repeat split.
Qed.
