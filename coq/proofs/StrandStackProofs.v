(* A strand over a strand (model/StrandStack.v): every two-level run is a run of each level, the inner strand never
   holds the outer strand twice, and when the stack is at rest the outer strand has finished every job exactly once.
   The proof couples the two levels through the executor-interface abstraction [Sim] of the inner strand: the number of
   proxies pending inside the inner strand equals the number of pending activations of the outer strand. *)
From Coq Require Import List Arith Bool Lia Permutation.
Import ListNotations.
From YV Require Import model.Strand model.StrandStack proofs.StrandProofs.

Definition ispend (a : act) : nat := match a with APending => 1 | _ => 0 end.

(* ---- an outer step that is not a call into / from the underlying executor keeps the pending activations -------- *)
Lemma move_ispend p s s' : move p s = Some s' ->
  (forall a y, p a = Some y -> sumf ispend y = ispend a) -> sumf ispend (acts s') = sumf ispend (acts s).
Proof.
  intros H Hp. dmove H. inversion H; subst; clear H. simpl. rewrite Ea, !sumf_app, sumf_cons.
  rewrite (Hp _ _ Hp0). reflexivity.
Qed.

Ltac pend_case := intros a y Hy; destruct a as [| |[|? ?]|? ?| | | |[|? ?]]; simpl in Hy; try discriminate;
  repeat match type of Hy with context [if ?c then _ else _] => destruct c; try discriminate end;
  inversion Hy; subst; reflexivity.

Lemma step_keeps_pending s e s' : step s e = Some s' -> is_sync e = false ->
  sumf ispend (acts s') = sumf ispend (acts s).
Proof.
  intros H Hs. destruct e; simpl in Hs; try discriminate; simpl in H.
  - destruct (nth_error (subs s) t) as [sb|]; [|discriminate]. destruct (pc sb); try discriminate.
    destruct (ptr_eqb v (head (jobs s))); [|discriminate]. inversion H; subst. reflexivity.
  - destruct (nth_error (subs s) t) as [sb|]; [|discriminate]. destruct (pc sb); try discriminate.
    destruct (ptr_eqb v (head (jobs s))); [|discriminate]. inversion H; subst. reflexivity.
  - destruct (nth_error (subs s) t) as [sb|]; [|discriminate]. destruct (pc sb); try discriminate.
    destruct (ptr_eqb e (head (jobs s)) && Nat.eqb n (nseq sb)); [|discriminate]. inversion H; subst. reflexivity.
  - destruct (ptr_eqb old (head (jobs s))); [|discriminate]. destruct (jobs s) as [|[|j l]]; try discriminate.
    apply move_ispend in H; [exact H|pend_case].
  - destruct (move (begin_job j) s) as [s1|] eqn:M; [|discriminate]. inversion H; subst. simpl.
    apply move_ispend in M; [exact M|pend_case].
  - destruct (move (end_job j) s) as [s1|] eqn:M; [|discriminate]. inversion H; subst. simpl.
    apply move_ispend in M; [exact M|pend_case].
  - destruct (ptr_eqb v (head (jobs s))); [|discriminate].
    apply move_ispend in H; [exact H|]. destruct v; pend_case.
  - destruct (jobs s) as [|[|j l]]; try discriminate. apply move_ispend in H; [exact H|pend_case].
  - destruct (ptr_eqb v (head (jobs s))); [|discriminate].
    assert (H' : move (from_runcas [AResubmit]) s = Some s') by (destruct (jobs s) as [|[|? ?]]; auto; discriminate).
    apply move_ispend in H'; [exact H'|pend_case].
  - destruct (ptr_eqb old (head (jobs s))); [|discriminate]. destruct (jobs s) as [|[|j l]]; try discriminate.
    destruct (move (from_dropstart (ADropBatch (j :: l))) (set_jobs Idle s)) as [s1|] eqn:M; [|discriminate].
    inversion H; subst. simpl. apply move_ispend in M; [exact M|pend_case].
  - destruct (move (drop_job j) s) as [s1|] eqn:M; [|discriminate]. inversion H; subst. simpl.
    apply move_ispend in M; [exact M|pend_case].
  - apply move_ispend in H; [exact H|pend_case].
Qed.

(* ---- sums over the proxies ---------------------------------------------------------------------------------- *)
Lemma sumf_ext_in {A} (f g : A -> nat) l : (forall x, In x l -> f x = g x) -> sumf f l = sumf g l.
Proof.
  induction l as [|x l IH]; intros H; [reflexivity|]. rewrite !sumf_cons, (H x (or_introl eq_refl)), IH; auto.
  intros y Hy. apply H. right. exact Hy.
Qed.

Lemma sum_remove_proxy j pr l : NoDup pr -> In j pr -> cnt j l > 0 ->
  sumf (fun k => cnt k (remove_job j l)) pr + 1 = sumf (fun k => cnt k l) pr.
Proof.
  intros N Hin Hc. induction pr as [|x pr IH]; [contradiction|].
  inversion N as [|? ? Hn Hd]; subst. rewrite !sumf_cons. destruct Hin as [->|Hin].
  - rewrite cnt_remove_same.
    rewrite (sumf_ext_in (fun k => cnt k (remove_job j l)) (fun k => cnt k l)); [lia|].
    intros k Hk. apply cnt_remove_other. intros E. subst. contradiction.
  - specialize (IH Hd Hin). rewrite (cnt_remove_other j x l); [lia|]. intros E. subst. contradiction.
Qed.

Lemma cnt_notin j l : ~ In j l -> cnt j l = 0.
Proof.
  intros H. destruct (cnt j l) eqn:E; [reflexivity|]. exfalso. apply H. apply memb_In. apply cnt_memb. lia.
Qed.

Lemma incl_remove_job j l m : incl l m -> incl (remove_job j l) m.
Proof.
  intros H x Hx. apply H. clear H. induction l as [|y l IH]; simpl in *; [contradiction|].
  destruct (job_eqb y j); [right; exact Hx|]. destruct Hx as [->|Hx]; [left; reflexivity|right; auto].
Qed.

(* ---- the coupling invariant ------------------------------------------------------------------------------------ *)
Record Inv2 (p : st2) (x : xst) : Prop := {
  j_in : Inv (inner p);
  j_out : Inv (outer p);
  j_sim : Sim (inner p) x;
  j_sub : incl (prox p) (xall x);
  j_nd : NoDup (prox p);
  j_pin : incl (xpend x) (xall x);
  j_cnt : sumf (fun j => cnt j (xpend x)) (prox p) = sumf ispend (acts (outer p))
}.

Lemma inv2_init n1 n2 : Inv2 (init2 n1 n2) xinit.
Proof.
  constructor; simpl; try apply inv_init; try apply sim_init; try constructor; intros ? [].
Qed.

(* the effect of one inner step on the abstract executor state, made explicit *)
Lemma inner_effect s x e s' : Inv s -> Sim s x -> incl (xpend x) (xall x) -> step s e = Some s' ->
  exists x', Sim s' x' /\ incl (xpend x') (xall x') /\
  match e with
  | EPush t n => ~ In (t, n) (xall x) /\ xall x' = xall x ++ [(t, n)] /\ xpend x' = xpend x ++ [(t, n)]
  | ERunBegin j | EDropJob j => cnt j (xpend x) > 0 /\ xall x' = xall x /\ xpend x' = remove_job j (xpend x)
  | _ => xall x' = xall x /\ xpend x' = xpend x
  end.
Proof.
  intros I S P H. destruct (sim_step s x e s' I S H) as (x' & X & S').
  exists x'. split; [exact S'|].
  destruct e; simpl in X; try (inversion X; subst; auto; fail).
  - destruct (memb (t, n) (xall x)) eqn:M; [discriminate|]. inversion X; subst; clear X. simpl.
    apply memb_nIn in M. split; [|repeat split; auto].
    intros y Hy. apply in_app_or in Hy. apply in_or_app. destruct Hy as [Hy|Hy]; [left; apply P; exact Hy|right; exact Hy].
  - destruct (memb j (xpend x)) eqn:M; [|discriminate]. inversion X; subst; clear X. simpl.
    split; [apply incl_remove_job; exact P|]. split; [apply cnt_memb; exact M|repeat split; auto].
  - destruct (memb j (xrunning x)) eqn:M; [|discriminate]. inversion X; subst; clear X. simpl. auto.
  - destruct (memb j (xpend x)) eqn:M; [|discriminate]. inversion X; subst; clear X. simpl.
    split; [apply incl_remove_job; exact P|]. split; [apply cnt_memb; exact M|repeat split; auto].
Qed.

Lemma both_inv si so pr p' : both si so pr = Some p' ->
  exists a b, si = Some a /\ so = Some b /\ p' = {| inner := a; outer := b; prox := pr |}.
Proof. unfold both. destruct si, so; intros H; inversion H; eauto. Qed.

Lemma sum_push_other x j pr : ~ In j pr ->
  sumf (fun k => cnt k (xpend x ++ [j])) pr = sumf (fun k => cnt k (xpend x)) pr.
Proof.
  intros H. apply sumf_ext_in. intros k Hk. rewrite cnt_app, cnt_cons, cnt_nil.
  destruct (job_eqb j k) eqn:E; [apply job_eqb_eq in E; subst; contradiction|lia].
Qed.

Lemma inv2_push p x ti ni a b e' : Inv2 p x -> step (inner p) (EPush ti ni) = Some a -> step (outer p) e' = Some b ->
  sumf ispend (acts b) = S (sumf ispend (acts (outer p))) ->
  exists x', Inv2 {| inner := a; outer := b; prox := prox p ++ [(ti, ni)] |} x'.
Proof.
  intros J Ha Hb Hc. destruct J.
  destruct (inner_effect _ _ _ _ j_in0 j_sim0 j_pin0 Ha) as (x' & S' & P' & Hf & Ha' & Hp').
  exists x'. constructor; simpl; auto.
  - exact (inv_step _ _ _ j_in0 Ha).
  - exact (inv_step _ _ _ j_out0 Hb).
  - rewrite Ha'. intros y Hy. apply in_app_or in Hy. apply in_or_app. destruct Hy as [Hy|Hy]; auto.
  - apply NoDup_app_intro; auto; [constructor; [intros []|constructor]|].
    intros y Hy [<-|[]]. apply Hf. apply j_sub0. exact Hy.
  - rewrite Hp', sumf_app, sumf_cons, sumf_nil. rewrite sum_push_other.
    + rewrite cnt_app, cnt_cons, cnt_nil, job_eqb_refl. rewrite (cnt_notin _ (xpend x)); [lia|].
      intros Hin. apply Hf. apply j_pin0. exact Hin.
    + intros Hin. apply Hf. apply j_sub0. exact Hin.
Qed.

Lemma inv2_take p x j e a b e' : Inv2 p x -> (e = ERunBegin j \/ e = EDropJob j) -> memb j (prox p) = true ->
  step (inner p) e = Some a -> step (outer p) e' = Some b ->
  S (sumf ispend (acts b)) = sumf ispend (acts (outer p)) ->
  exists x', Inv2 {| inner := a; outer := b; prox := prox p |} x'.
Proof.
  intros J He Hm Ha Hb Hc. destruct J. apply memb_In in Hm.
  destruct (inner_effect _ _ _ _ j_in0 j_sim0 j_pin0 Ha) as (x' & S' & P' & Hf).
  assert (Hf' : cnt j (xpend x) > 0 /\ xall x' = xall x /\ xpend x' = remove_job j (xpend x))
    by (destruct He; subst e; exact Hf).
  destruct Hf' as (Hc' & Ha' & Hp').
  exists x'. constructor; simpl; auto.
  - exact (inv_step _ _ _ j_in0 Ha).
  - exact (inv_step _ _ _ j_out0 Hb).
  - rewrite Ha'. exact j_sub0.
  - rewrite Hp'. pose proof (sum_remove_proxy j (prox p) (xpend x) j_nd0 Hm Hc'). lia.
Qed.

Lemma startcall_pending s s' : step s EStartCall = Some s' -> S (sumf ispend (acts s')) = sumf ispend (acts s).
Proof.
  simpl. intros H. dmove H. inversion H; subst; clear H. destruct x; simpl in Hp; try discriminate. inversion Hp; subst.
  simpl. rewrite Ea, !sumf_app, !sumf_cons. unfold sumf. simpl. lia.
Qed.
Lemma startdrop_pending s s' : step s EStartDrop = Some s' -> S (sumf ispend (acts s')) = sumf ispend (acts s).
Proof.
  simpl. intros H. destruct (move (from_pending ADropStart) s) as [s1|] eqn:M; [|discriminate]. inversion H; subst; clear H.
  dmove M. inversion M; subst; clear M. destruct x; simpl in Hp; try discriminate. inversion Hp; subst.
  simpl. rewrite Ea, !sumf_app, !sumf_cons. unfold sumf. simpl. lia.
Qed.
Lemma submit_pending s t s' : step s (ESubmit t) = Some s' -> sumf ispend (acts s') = S (sumf ispend (acts s)).
Proof.
  simpl. intros H. destruct (nth_error (subs s) t) as [sb|]; [|discriminate]. destruct (pc sb); try discriminate.
  inversion H; subst. simpl. rewrite sumf_cons. reflexivity.
Qed.
Lemma resubmit_pending s s' : step s EResubmit = Some s' -> sumf ispend (acts s') = S (sumf ispend (acts s)).
Proof.
  simpl. intros H. dmove H. inversion H; subst; clear H. destruct x; simpl in Hp; try discriminate. inversion Hp; subst.
  simpl. rewrite Ea, !sumf_app, !sumf_cons. unfold sumf. simpl. lia.
Qed.

Lemma inv2_step p x e p' : Inv2 p x -> step2 p e = Some p' -> exists x', Inv2 p' x'.
Proof.
  intros J H. destruct e; unfold step2 in H.
  - (* Inner *) destruct (touches_proxy (prox p) e) eqn:T; [discriminate|].
    apply both_inv in H. destruct H as (a & b & Ha & Hb & ->). inversion Hb; subst b; clear Hb.
    destruct J. destruct (inner_effect _ _ _ _ j_in0 j_sim0 j_pin0 Ha) as (x' & S' & P' & Hf).
    exists x'. constructor; simpl; auto.
    + exact (inv_step _ _ _ j_in0 Ha).
    + destruct e; try (destruct Hf as [-> _]; exact j_sub0).
      * destruct Hf as (_ & -> & _). intros y Hy. apply in_or_app. left. apply j_sub0. exact Hy.
      * destruct Hf as (_ & -> & _). exact j_sub0.
      * destruct Hf as (_ & -> & _). exact j_sub0.
    + rewrite <- j_cnt0. destruct e; try (destruct Hf as [_ ->]; reflexivity).
      * destruct Hf as (Hn & _ & ->). apply sum_push_other. intros Hin. apply Hn. apply j_sub0. exact Hin.
      * destruct Hf as (_ & _ & ->). simpl in T. apply memb_nIn in T. apply sumf_ext_in. intros k Hk.
        apply cnt_remove_other. intros E. subst. contradiction.
      * destruct Hf as (_ & _ & ->). simpl in T. apply memb_nIn in T. apply sumf_ext_in. intros k Hk.
        apply cnt_remove_other. intros E. subst. contradiction.
  - (* Outer *) destruct (is_sync e) eqn:Sy; [discriminate|].
    apply both_inv in H. destruct H as (a & b & Ha & Hb & ->). inversion Ha; subst a; clear Ha.
    destruct J. exists x. constructor; simpl; auto.
    + exact (inv_step _ _ _ j_out0 Hb).
    + rewrite (step_keeps_pending _ _ _ Hb Sy). exact j_cnt0.
  - (* SubmitOuter *) apply both_inv in H. destruct H as (a & b & Ha & Hb & ->).
    eapply inv2_push; eauto. eapply submit_pending; eauto.
  - (* ResubmitOuter *) apply both_inv in H. destruct H as (a & b & Ha & Hb & ->).
    eapply inv2_push; eauto. eapply resubmit_pending; eauto.
  - (* CallOuter *) destruct (memb j (prox p)) eqn:M; [|discriminate].
    apply both_inv in H. destruct H as (a & b & Ha & Hb & ->).
    eapply (inv2_take p x j (ERunBegin j)); eauto. eapply startcall_pending; eauto.
  - (* DropOuter *) destruct (memb j (prox p)) eqn:M; [|discriminate].
    apply both_inv in H. destruct H as (a & b & Ha & Hb & ->).
    eapply (inv2_take p x j (EDropJob j)); eauto. eapply startdrop_pending; eauto.
Qed.

Lemma inv2_run tr : forall p x p', Inv2 p x -> run2 p tr = Some p' -> exists x', Inv2 p' x'.
Proof.
  induction tr as [|e tr IH]; simpl; intros p x p' J H.
  - inversion H; subst. eauto.
  - destruct (step2 p e) as [p1|] eqn:E; [|discriminate].
    destruct (inv2_step _ _ _ _ J E) as (x1 & J1). eapply IH; eauto.
Qed.

(* ---- projections ------------------------------------------------------------------------------------------------ *)
Lemma run_app s t1 t2 : run s (t1 ++ t2) = match run s t1 with Some s' => run s' t2 | None => None end.
Proof. revert s. induction t1 as [|e t1 IH]; intros s; simpl; [reflexivity|]. destruct (step s e); auto. Qed.

Lemma proj_step p e p' : step2 p e = Some p' ->
  run (inner p) (proj_inner e) = Some (inner p') /\ run (outer p) (proj_outer e) = Some (outer p').
Proof.
  intros H. destruct e; unfold step2 in H; simpl.
  - destruct (touches_proxy (prox p) e); [discriminate|]. apply both_inv in H. destruct H as (a & b & Ha & Hb & ->).
    inversion Hb; subst. rewrite Ha. auto.
  - destruct (is_sync e); [discriminate|]. apply both_inv in H. destruct H as (a & b & Ha & Hb & ->).
    inversion Ha; subst. rewrite Hb. auto.
  - apply both_inv in H. destruct H as (a & b & Ha & Hb & ->). simpl in *. rewrite Ha, Hb. auto.
  - apply both_inv in H. destruct H as (a & b & Ha & Hb & ->). simpl in *. rewrite Ha, Hb. auto.
  - destruct (memb j (prox p)); [|discriminate]. apply both_inv in H. destruct H as (a & b & Ha & Hb & ->).
    simpl in *. rewrite Ha, Hb. auto.
  - destruct (memb j (prox p)); [|discriminate]. apply both_inv in H. destruct H as (a & b & Ha & Hb & ->).
    simpl in *. rewrite Ha, Hb. auto.
Qed.

Lemma proj_run tr : forall p p', run2 p tr = Some p' ->
  run (inner p) (flat_map proj_inner tr) = Some (inner p') /\ run (outer p) (flat_map proj_outer tr) = Some (outer p').
Proof.
  induction tr as [|e tr IH]; simpl; intros p p' H.
  - inversion H; subst. auto.
  - destruct (step2 p e) as [p1|] eqn:E; [|discriminate]. destruct (proj_step _ _ _ E) as [A B].
    destruct (IH _ _ H) as [A' B']. rewrite !run_app, A, B. auto.
Qed.

(* ---- the theorem ------------------------------------------------------------------------------------------------ *)
Lemma cnt_pendm j s : cnt j (pendm s) = cnt j (inbox (jobs s)) + cnt j (todos (acts s)) + cnt j (dbatches (acts s)).
Proof.
  unfold pendm. rewrite cnt_app. rewrite <- Nat.add_assoc. f_equal.
  unfold todos, dbatches. induction (acts s) as [|a l IH]; [reflexivity|]. simpl. rewrite !cnt_app, IH.
  destruct a; simpl; rewrite ?cnt_nil; lia.
Qed.

Lemma pending_proxies_eq p x : Inv2 p x -> proxies_pending p = sumf ispend (acts (outer p)).
Proof.
  intros J. rewrite <- (j_cnt p x J). unfold proxies_pending. apply sumf_ext_in. intros k _.
  change (count_job k (pendm (inner p))) with (cnt k (pendm (inner p))).
  rewrite cnt_pendm. symmetry. apply (m_pend _ _ (j_sim p x J)).
Qed.

Lemma all_pending_none l : forallb is_pendingb l = true -> sumf ispend l = 0 -> l = [].
Proof.
  destruct l as [|a l]; [reflexivity|]. simpl forallb. intros H. apply andb_true_iff in H. destruct H as [Ha _].
  rewrite sumf_cons. destruct a; simpl in *; try discriminate.
Qed.

Theorem strand_over_strand n1 n2 tr p : run2 (init2 n1 n2) tr = Some p ->
  (exists tri, run (init n1) tri = Some (inner p)) /\
  (exists tro, run (init n2) tro = Some (outer p)) /\
  proxies_pending p <= 1 /\
  (quiescent2 p = true ->
   Permutation (pushed (outer p)) (called (outer p) ++ dropped (outer p)) /\ NoDup (called (outer p) ++ dropped (outer p))).
Proof.
  intros H. destruct (proj_run _ _ _ H) as [A B]. simpl in A, B.
  destruct (inv2_run _ _ _ _ (inv2_init n1 n2) H) as (x & J).
  split; [eauto|]. split; [eauto|]. split.
  - rewrite (pending_proxies_eq p x J). pose proof (single_submission _ (j_out p x J)).
    assert (sumf ispend (acts (outer p)) <= sumf handed (acts (outer p))).
    { clear. induction (acts (outer p)) as [|a l IH]; [apply Nat.le_refl|]. rewrite !sumf_cons. destruct a; simpl; lia. }
    lia.
  - intros Q. unfold quiescent2 in Q. apply andb_true_iff in Q. destruct Q as [Q Q3].
    apply andb_true_iff in Q. destruct Q as [Q1 Q2].
    destruct (quiescent_idle _ (j_in p x J) Q1) as (Ji & Ai & _ & _).
    assert (Z : proxies_pending p = 0).
    { unfold proxies_pending, pendm. rewrite Ji, Ai. simpl. clear. induction (prox p) as [|a l IH]; [reflexivity|].
      rewrite sumf_cons, IH. reflexivity. }
    rewrite (pending_proxies_eq p x J) in Z.
    pose proof (all_pending_none _ Q3 Z) as Ao.
    apply none_lost; [exact (j_out p x J)|]. unfold quiescent. rewrite Q2, Ao. reflexivity.
Qed.
