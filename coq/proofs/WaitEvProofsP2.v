(* Preservation of WaitEvProofs.Inv by the producers' events, part 2 (Set(): lock, notify, unlock). *)
From Coq Require Import List Arith Bool Lia.
Import ListNotations.
From YV Require model.Handoff proofs.HandoffProofs.
From YV Require Import model.WaitEv proofs.WaitEvProofs.

Lemma inv_step_plock s i s' : Inv s -> step s (EPLock i) = Some s' -> Inv s'.
Proof.
  intros [P G] H. prelude P H i. mtx_cases s H.
  all: inversion H; subst s'; clear H; split; [pw_prod P|].
  all: glob_prod P G.
  all: rewrite Em in *; unfold touch; destruct (alive s) eqn:Ea; simpl in *; try discriminate.
  all: by_cases s.
Qed.

Lemma inv_step_pnotify s i s' : Inv s -> step s (EPNotify i) = Some s' -> Inv s'.
Proof.
  intros [P G] H. prelude P H i. mtx_cases s H.
  all: inversion H; subst s'; clear H; split; [pw_prod P|].
  all: glob_prod P G.
  all: rewrite Em in *; unfold touch; destruct (alive s) eqn:Ea; simpl in *; try discriminate.
  all: by_cases s.
Qed.

Lemma inv_step_punlock s i s' : Inv s -> step s (EPUnlock i) = Some s' -> Inv s'.
Proof.
  intros [P G] H. prelude P H i. mtx_cases s H.
  all: inversion H; subst s'; clear H; split; [pw_prod P|].
  all: glob_prod P G.
  all: rewrite Em in *; unfold touch; destruct (alive s) eqn:Ea; simpl in *; try discriminate.
  all: by_cases s.
Qed.
