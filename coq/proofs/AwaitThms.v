(* The facts the C13 theorems are made of, read off the invariant of proofs/AwaitProofs.v + AwaitSteps.v. *)
From Coq Require Import List Arith Bool Lia.
Import ListNotations.
From YV Require Import gen.Gen_ready_c13 model.Await proofs.AwaitProofs proofs.AwaitSteps.

Ltac reach_setup Hrun Hco :=
  let I := fresh "I" in let K := fresh "K" in
  pose proof (inv_reach _ _ _ _ _ Hrun) as I; pose proof (inv_co _ _ _ I Hco) as K.

(* exactly once, and only after everything awaited is complete *)
Lemma resume_once_after os cs nx tr s (Hrun : run (init os cs nx) tr = Some s) c co (Hco : nth_error (cos s) c = Some co) :
  map rk (resumes co) = seq 0 (pc co) /\
  Forall (fun r => rok r = true /\ rlive r = true) (resumes co) /\
  forall r a, In r (resumes co) -> nth_error (prog co) (rk r) = Some a ->
              forall o, In o (aobjs a) -> ocomplete (objs s) o = true.
Proof. reach_setup Hrun Hco.
  destruct K as (_ & _ & _ & _ & ((E1 & _) & E2 & _) & _). split; auto. split.
  - eapply Forall_impl; [|exact E2]. intros r (R1 & R2 & _). auto.
  - intros r a Hi Ha o Ho. rewrite Forall_forall in E2. destruct (E2 r Hi) as (_ & _ & R3).
    destruct (R3 a Ha) as (A1 & _). apply A1. auto.
Qed.

Lemma out_pos_witness : forall (l : list obj) k, 1 <= out l k -> exists o ob, nth_error l o = Some ob /\ 1 <= occ k ob.
Proof.
  unfold out. induction l as [|x l IH]; simpl; intros k H. lia.
  destruct (occ k x) eqn:E.
  - destruct (IH k) as (o & ob & H1 & H2). lia. exists (S o), ob. auto.
  - exists 0, x. split; auto. lia.
Qed.

(* never lost: a suspended coroutine still has a callback in (or being fired from) an object it awaits;
   a submitted one is in that executor's queue *)
Lemma never_lost os cs nx tr s (Hrun : run (init os cs nx) tr = Some s) c co (Hco : nth_error (cos s) c = Some co) :
  (cst co = AWait ->
   exists a o ob, capt co = Some a /\ In o (aobjs a) /\ nth_error (objs s) o = Some ob /\
                  match ow ob with WStack l => In c l | WRes => In c (opend ob) end) /\
  (forall x, cst co = AQueued x -> exists q, nth_error (qs s) x = Some q /\ In c q).
Proof. reach_setup Hrun Hco.
  destruct K as (B & _ & (D1 & D2) & _ & _ & _ & _ & R). split.
  - intros Hs. unfold B_ok in B. destruct (capt co) as [a|] eqn:Ha.
    + rewrite Hs in B. destruct B as [_ B].
      assert (Hk : 1 <= out (objs s) c). { destruct (acounted a); lia. }
      destruct (out_pos_witness _ _ Hk) as (o & ob & Ho & Hocc).
      destruct (R o ob Ho Hocc) as (a' & Ea & Hin). inversion Ea; subst a'.
      exists a, o, ob. repeat split; auto.
      pose proof (inv_obj _ _ _ I Ho) as Ko. unfold occ, stack in Hocc. destruct (ow ob) as [l|] eqn:Eow.
      * assert (Hp : opend ob = []). { apply obj_ok_pend; auto. congruence. }
        rewrite Hp in Hocc. simpl in Hocc. apply cocc_in. lia.
      * simpl in Hocc. apply cocc_in. lia.
    + rewrite Hs in B. destruct B as [B _]. discriminate.
  - intros x Hs. destruct (D2 x) as (q & Hq). rewrite Hs. reflexivity. exists q. split; auto.
    pose proof (D1 x q Hq) as Y. rewrite Hs in Y. simpl in Y. rewrite Nat.eqb_refl in Y. apply cocc_in. lia.
Qed.

(* when nothing is in flight a coroutine that is still suspended awaits something that has not been fulfilled *)
Lemma quiescent_waits os cs nx tr s (Hrun : run (init os cs nx) tr = Some s) c co (Hco : nth_error (cos s) c = Some co) :
  quiescent s = true -> cst co = AWait ->
  exists a o, capt co = Some a /\ In o (aobjs a) /\ ocomplete (objs s) o = false.
Proof. reach_setup Hrun Hco.
  intros Hq Hs. destruct (never_lost os cs nx tr s Hrun c co Hco) as [L _]. destruct (L Hs) as (a & o & ob & Ha & Hin & Ho & Hw).
  exists a, o. split; auto. split; auto. unfold ocomplete, complete. rewrite Ho.
  destruct (ow ob) eqn:Eow; auto. exfalso.
  unfold quiescent in Hq. apply andb_true_iff in Hq. destruct Hq as [Hq _]. apply andb_true_iff in Hq. destruct Hq as [_ Hq].
  rewrite forallb_forall in Hq. specialize (Hq ob (nth_error_In _ _ Ho)). destruct (opend ob); auto. discriminate.
Qed.

(* the awaited value; the coroutine's own Result *)
Lemma outcome_value os cs nx tr s (Hrun : run (init os cs nx) tr = Some s) c co (Hco : nth_error (cos s) c = Some co) :
  forall r a, In r (resumes co) -> nth_error (prog co) (rk r) = Some a ->
    match aconsume a with
    | Some (o, _) => exists ob v, nth_error (objs s) o = Some ob /\ oslot ob = Some v /\ rval r = Some (Some v)
    | None => rval r = None
    end.
Proof. reach_setup Hrun Hco.
  destruct K as (_ & _ & _ & _ & (_ & E2 & _) & _). intros r a Hi Ha.
  rewrite Forall_forall in E2. destruct (E2 r Hi) as (_ & _ & R3). destruct (R3 a Ha) as (_ & _ & A3). exact A3.
Qed.

Lemma outcome_own os cs nx tr s (Hrun : run (init os cs nx) tr = Some s) c co (Hco : nth_error (cos s) c = Some co) :
  (cend co = Running <-> (cst co <> AFinal /\ cst co <> ADone)) /\
  (cend co <> Running ->
     exists ob, nth_error (objs s) (own co) = Some ob /\
       oslot ob = Some (match cend co with Returned r => r | Threw e => e | _ => RStop end)) /\
  (forall r, cend co = Returned r -> pc co = length (prog co)) /\
  (forall e, cend co = Threw e ->
     exists l r a o, resumes co = l ++ [r] /\ rval r = Some (Some e) /\ (e = RStop \/ exists n, e = RErr n) /\
                     nth_error (prog co) (rk r) = Some a /\ aconsume a = Some (o, false)) /\
  (cst co = ADone -> exists ob, nth_error (objs s) (own co) = Some ob /\ ow ob = WRes).
Proof. reach_setup Hrun Hco.
  destruct K as (_ & _ & _ & _ & _ & _ & (H1 & H2 & H3 & H4) & _). split; [|split; [|split; [|split]]].
  - rewrite H1. destruct (cst co); simpl; split; intros; try discriminate; try tauto; split; discriminate.
  - intros N. destruct (H2 N) as (ob & A1 & A2 & A3). exists ob. split; auto. rewrite A3.
    destruct (cend co); simpl; auto. congruence.
  - intros r E. rewrite E in H4. auto.
  - intros e E. rewrite E in H4. destruct H4 as (l & r & a & o & A1 & A2 & A3 & A4 & A5).
    exists l, r, a, o. repeat split; auto. destruct e; simpl in A3; try discriminate; eauto.
  - intros Hs. assert (N : cend co <> Running). { intros X. apply H1 in X. rewrite Hs in X. discriminate. }
    destruct (H2 N) as (ob & A1 & A2 & A3). exists ob. split; auto. specialize (H3 ob A1 A2). rewrite Hs in H3.
    simpl in H3. destruct (ow ob); auto. discriminate.
Qed.

(* Await(fs...) / AwaitSticky / AwaitOn leave every future ready: word kResult, Result constructed *)
Lemma await_leaves_ready os cs nx tr s (Hrun : run (init os cs nx) tr = Some s) c co (Hco : nth_error (cos s) c = Some co) :
  forall r a, In r (resumes co) -> nth_error (prog co) (rk r) = Some a ->
  forall o, In o (aobjs a) ->
    exists ob v, nth_error (objs s) o = Some ob /\ ow ob = WRes /\ oslot ob = Some v.
Proof. reach_setup Hrun Hco.
  intros r a Hi Ha o Ho. destruct (resume_once_after os cs nx tr s Hrun c co Hco) as (_ & _ & R). specialize (R r a Hi Ha o Ho).
  unfold ocomplete in R. destruct (nth_error (objs s) o) as [ob|] eqn:E0; try discriminate.
  unfold complete in R. destruct (ow ob) eqn:E1; try discriminate. destruct (oslot ob) eqn:E2; try discriminate. eauto.
Qed.

(* where *)
Lemma where_resumed os cs nx tr s (Hrun : run (init os cs nx) tr = Some s) c co (Hco : nth_error (cos s) c = Some co) :
  forall r a, In r (resumes co) -> nth_error (prog co) (rk r) = Some a ->
    where_ok (objs s) a (rhow r) (rthr r) (rexec r) (rown r).
Proof. reach_setup Hrun Hco.
  destruct K as (_ & _ & _ & _ & (_ & E2 & _) & _). intros r a Hi Ha.
  rewrite Forall_forall in E2. destruct (E2 r Hi) as (_ & _ & R3). destruct (R3 a Ha) as (_ & A2 & _). exact A2.
Qed.

(* dropped *)
Lemma dropped_completed os cs nx tr s (Hrun : run (init os cs nx) tr = Some s) c co (Hco : nth_error (cos s) c = Some co) :
  cend co = Dropped ->
  (cst co = AFinal \/ cst co = ADone) /\
  exists ob, nth_error (objs s) (own co) = Some ob /\ oprod ob = Some c /\ oslot ob = Some RStop /\
             (cst co = ADone -> ow ob = WRes) /\ (cst co = AFinal -> exists l, ow ob = WStack l).
Proof. reach_setup Hrun Hco.
  intros E. destruct K as (_ & _ & _ & _ & _ & _ & (H1 & H2 & H3 & _) & _).
  assert (N : cend co <> Running) by congruence. split.
  - destruct (cst co) eqn:Hs; auto; exfalso; apply N; apply H1; reflexivity.
  - destruct (H2 N) as (ob & A1 & A2 & A3). exists ob. rewrite E in A3. repeat split; auto.
    + intros Hs. specialize (H3 ob A1 A2). rewrite Hs in H3. destruct (ow ob); auto. discriminate.
    + intros Hs. specialize (H3 ob A1 A2). rewrite Hs in H3. destruct (ow ob); eauto. discriminate.
Qed.

Lemma frame_once os cs nx tr s (Hrun : run (init os cs nx) tr = Some s) c co (Hco : nth_error (cos s) c = Some co) :
  ldtors co <= 1 /\ ffrees co <= 1 /\ (llive co = true <-> ldtors co = 0) /\ (fowner co = true <-> ffrees co = 0) /\
  (fowner co = false -> ffrees co = 1 /\ ldtors co = 1 /\ llive co = false /\ cst co = ADone).
Proof. reach_setup Hrun Hco.
  destruct K as (_ & _ & _ & _ & _ & (F1 & F2) & _).
  assert (Hd : is_done (cst co) = true -> cst co = ADone). { destruct (cst co); simpl; auto; discriminate. }
  destruct F1 as [[A1 A2]|[A1 A2]]; destruct F2 as [[B1 B2]|(B1 & B2 & B3 & B4)];
    rewrite ?A1, ?A2, ?B1, ?B2 in *; repeat split; intros; auto; try lia; try discriminate; try congruence.
Qed.

(* the drop's final exchange is enabled: the coroutine does get completed *)
Lemma dropped_progress os cs nx tr s (Hrun : run (init os cs nx) tr = Some s) c co (Hco : nth_error (cos s) c = Some co) :
  cend co = Dropped -> cst co = AFinal -> exists s', step s (EXchg (on co) (own co)) = Some s'.
Proof. reach_setup Hrun Hco.
  intros E Hs. destruct (dropped_completed os cs nx tr s Hrun c co Hco E) as (_ & ob & A1 & A2 & A3 & _ & A5). destruct (A5 Hs) as (l & Eow).
  unfold step. simpl. unfold step_xchg. rewrite A1, Eow, A2, Hco, Hs, !Nat.eqb_refl. unfold dropped. rewrite E. simpl. eauto.
Qed.

Lemma await_ready_sound os cs nx tr s (Hrun : run (init os cs nx) tr = Some s) c co (Hco : nth_error (cos s) c = Some co) : Forall (fun p => fst p = true -> snd p = true) (readys co).
Proof. reach_setup Hrun Hco. destruct K as (_ & _ & _ & _ & (_ & _ & E3) & _). exact E3. Qed.


(* an executor dropping a queued coroutine marks it dropped, at once *)
Lemma drop_drops s t x c s' :
  step s (EDrop t x c) = Some s' -> exists co', nth_error (cos s') c = Some co' /\ cend co' = Dropped /\ cst co' = AFinal.
Proof.
  unfold step. simpl. intros H. destruct (dequeue x c s) as [s1|]; try discriminate.
  destruct (nth_error (cos s1) c) as [co|] eqn:Hc; try discriminate.
  apply store_own_spec in H. destruct H as (co1 & ob & H1 & _ & _ & _ & ->).
  simpl in H1. erewrite nth_error_upd_eq in H1 by eauto. inversion H1; subst co1.
  eexists. split. simpl. eapply nth_error_upd_eq; eauto. split; reflexivity.
Qed.

(* the hand-over of the executor at an inline resumption (PromiseType::Impl), at the rule found in the source: the
   coroutine gets the executor of the core that completed, and that core keeps it *)
Lemma handover_keeps_awaited_executor c o s co ob :
  nth_error (cos s) c = Some co -> nth_error (objs s) o = Some ob ->
  exists co' ob', nth_error (cos (swap_exec c13_impl_swaps_executor c o s)) c = Some co' /\
                  nth_error (objs (swap_exec c13_impl_swaps_executor c o s)) o = Some ob' /\
                  cexec co' = oexec ob /\ oexec ob' = oexec ob /\
                  (forall o1, o1 <> o -> nth_error (objs (swap_exec c13_impl_swaps_executor c o s)) o1 = nth_error (objs s) o1).
Proof.
  intros H1 H2. unfold swap_exec. rewrite H1, H2. simpl.
  exists (set_cexec (oexec ob) co), (set_oexec (oexec ob) ob). split; [|split; [|split; [|split]]]; auto.
  - eapply nth_error_upd_eq; eauto.
  - eapply nth_error_upd_eq; eauto.
  - intros o1 N. apply nth_error_upd_neq. auto.
Qed.
