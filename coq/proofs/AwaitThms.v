(* The facts the C13 theorems are made of, read off the invariant of proofs/AwaitProofs.v + AwaitSteps.v. *)
From Coq Require Import List Arith Bool Lia.
Import ListNotations.
From YV Require Import gen.Gen_ready_c13 model.Await proofs.AwaitProofs proofs.AwaitSteps.

Section Reach.
Variables (os : list ospec) (cs : list cspec) (nx : nat) (tr : list ev) (s : st).
Hypothesis Hrun : run (init os cs nx) tr = Some s.
Variables (c : nat) (co : coro).
Hypothesis Hco : nth_error (cos s) c = Some co.

Let I : Inv s := inv_reach os cs nx tr s Hrun.
Let K : co_ok s c co := inv_co s c co I Hco.

(* exactly once, and only after everything awaited is complete *)
Lemma resume_once_after :
  map rk (resumes co) = seq 0 (pc co) /\
  Forall (fun r => rok r = true /\ rlive r = true) (resumes co) /\
  forall r a, In r (resumes co) -> nth_error (prog co) (rk r) = Some a ->
              forall o, In o (aobjs a) -> ocomplete (objs s) o = true.
Proof.
  destruct K as (_ & _ & _ & _ & ((E1 & _) & E2 & _) & _). split; auto. split.
  - eapply Forall_impl; [|exact E2]. intros r (R1 & R2 & _). auto.
  - intros r a Hi Ha o Ho. rewrite Forall_forall in E2. destruct (E2 r Hi) as (_ & _ & R3).
    destruct (R3 a Ha) as (A1 & _). apply A1. auto.
Qed.

Lemma out_pos_witness : forall (l : list obj) k, 1 <= out l k -> exists o ob, nth_error l o = Some ob /\ 1 <= occ k ob.
Proof.
  unfold out. induction l as [|x l IH]; simpl; intros k H. lia.
  destruct (occ k x) eqn:E.
  - destruct (IH k) as (o & ob & H1 & H2). lia. exists (S o), ob. auto.
  - exists 0, x. split; auto. lia.
Qed.

(* never lost: a suspended coroutine still has a callback in (or being fired from) an object it awaits;
   a submitted one is in that executor's queue *)
Lemma never_lost :
  (cst co = AWait ->
   exists a o ob, capt co = Some a /\ In o (aobjs a) /\ nth_error (objs s) o = Some ob /\
                  match ow ob with WStack l => In c l | WRes => In c (opend ob) end) /\
  (forall x, cst co = AQueued x -> exists q, nth_error (qs s) x = Some q /\ In c q).
Proof.
  destruct K as (B & _ & (D1 & D2) & _ & _ & _ & _ & R). split.
  - intros Hs. unfold B_ok in B. destruct (capt co) as [a|] eqn:Ha.
    + rewrite Hs in B. destruct B as [_ B].
      assert (Hk : 1 <= out (objs s) c). { destruct (acounted a); lia. }
      destruct (out_pos_witness _ _ Hk) as (o & ob & Ho & Hocc).
      destruct (R o ob Ho Hocc) as (a' & Ea & Hin). inversion Ea; subst a'.
      exists a, o, ob. repeat split; auto.
      pose proof (inv_obj _ _ _ I Ho) as Ko. unfold occ, stack in Hocc. destruct (ow ob) as [l|] eqn:Eow.
      * assert (Hp : opend ob = []). { apply obj_ok_pend; auto. congruence. }
        rewrite Hp in Hocc. simpl in Hocc. apply cocc_in. lia.
      * simpl in Hocc. apply cocc_in. lia.
    + exfalso. destruct K as (_ & _ & _ & _ & _ & _ & _ & _). rewrite Hs in B.
      (* AWait with no co_await left: k = 0, but then B has nothing to say; use shape through W *)
      clear - B Hs Ha Hco I.
      (* a suspended coroutine has a current co_await: otherwise it could not have entered AWait *)
      admit.
  - intros x Hs. destruct (D2 x) as (q & Hq). rewrite Hs. reflexivity. exists q. split; auto.
    pose proof (D1 x q Hq) as Y. rewrite Hs in Y. simpl in Y. rewrite Nat.eqb_refl in Y. apply cocc_in. lia.
Abort.

End Reach.
