(* Layer 4 of the When invariants: who is elected — per family of strategies (the `_done` flag, Any<FirstFail>'s
   three-state word, Any<LastFail>'s packed counter), and the order [elog] of the read-modify-writes. *)
From Coq Require Import List Arith Bool NArith Lia.
Import ListNotations.
From YV Require Import model.When proofs.WhenProofs proofs.WhenProofs2 proofs.WhenProofs3.

Local Arguments store_slot : simpl never.

Definition val_at (s : st) (j : nat) : bool :=
  match nth_error (ins s) j with Some x => ovalue (ires x) | None => false end.
Definition fail_at (s : st) (j : nat) : bool :=
  match nth_error (ins s) j with Some x => ofailing (ires x) | None => false end.
Definition participant (g : strat) (x : inp) : bool := if is_ff g then ofailing (ires x) else true.

(* every input in the log has performed its read-modify-write *)
Definition elog_ok (s : st) : Prop :=
  forall j, In j (elog s) -> exists x, nth_error (ins s) j = Some x /\ pre_el (ipc x) = false.

(* ---- the `_done` family: All<FirstFail>, Join<FirstFail>, AllTuple<FirstFail>, Any<None> *)
Record IFd (s : st) : Prop := {
  d_false : done s = false ->
            win s = None /\ elog s = [] /\
            forall j x, nth_error (ins s) j = Some x -> participant (sg s) x = true -> pre_el (ipc x) = true;
  d_true : done s = true ->
           exists w, win s = Some w /\ hd_error (elog s) = Some w /\ (is_ff (sg s) = true -> fail_at s w = true)
}.

(* ---- Any<FirstFail> *)
Record IFf (s : st) : Prop := {
  f_range : state s = 0%N \/ state s = 1%N \/ state s = 2%N;
  f_zero : state s = 0%N -> fwin s = None /\ elog s = [] /\
           forall j x, nth_error (ins s) j = Some x -> pre_el (ipc x) = true;
  f_one : state s = 1%N -> fwin s <> None;
  f_not2 : state s <> 2%N -> win s = None /\ find (val_at s) (elog s) = None /\
           forall j x, nth_error (ins s) j = Some x -> ovalue (ires x) = true -> pre_el (ipc x) = true;
  f_two : state s = 2%N -> exists w, win s = Some w /\ val_at s w = true /\ find (val_at s) (elog s) = Some w;
  f_fwin : forall f, fwin s = Some f ->
           fail_at s f = true /\ hd_error (elog s) = Some f /\
           exists y, nth_error (ins s) f = Some y /\ saved s = ires y;
  f_nofwin : fwin s = None -> saved s = None /\ find (fail_at s) (elog s) = None
}.

(* ---- Any<LastFail> *)
Definition subbed (x : inp) : bool := ofailing (ires x) && negb (pre_el (ipc x)).
Definition nsub (s : st) : nat := cnt subbed (ins s).

Record IFl (s : st) : Prop := {
  a_small : (N.of_nat (2 * n s) < two64)%N;
  a_even : N.odd (state s) = false ->
           state s = N.of_nat (2 * (n s - nsub s)) /\
           find (val_at s) (elog s) = None /\
           (forall j x, nth_error (ins s) j = Some x -> ovalue (ires x) = true -> pre_el (ipc x) = true) /\
           (forall j x, nth_error (ins s) j = Some x -> pre_el (ipc x) = false -> In j (elog s)) /\
           (state s <> 0%N -> win s = None) /\
           (state s = 0%N -> exists w rest, win s = Some w /\ fail_at s w = true /\ elog s = rest ++ [w]);
  a_odd : N.odd (state s) = true ->
          exists w, win s = Some w /\ val_at s w = true /\ find (val_at s) (elog s) = Some w
}.

Lemma fail_at_set_in s i x x' j :
  nth_error (ins s) i = Some x ->
  fail_at (set_in i x' s) j = if Nat.eqb j i then ofailing (ires x') else fail_at s j.
Proof.
  intros Hx. unfold fail_at. simpl. rewrite nth_upd. destruct (Nat.eqb j i); auto. rewrite Hx. reflexivity.
Qed.

Lemma val_at_set_in s i x x' j :
  nth_error (ins s) i = Some x ->
  val_at (set_in i x' s) j = if Nat.eqb j i then ovalue (ires x') else val_at s j.
Proof.
  intros Hx. unfold val_at. simpl. rewrite nth_upd. destruct (Nat.eqb j i); auto. rewrite Hx. reflexivity.
Qed.

Lemma find_ext {A} (f g : A -> bool) l : (forall a, In a l -> f a = g a) -> find f l = find g l.
Proof.
  induction l as [|a l IH]; simpl; intros H; auto.
  rewrite (H a (or_introl eq_refl)). destruct (g a); auto.
Qed.

Lemma find_snoc {A} (f : A -> bool) l a :
  find f (l ++ [a]) = match find f l with Some b => Some b | None => if f a then Some a else None end.
Proof. induction l as [|b l IH]; simpl; auto. destruct (f b); auto. Qed.

Lemma hd_snoc {A} (l : list A) a : hd_error (l ++ [a]) = match l with [] => Some a | b :: _ => Some b end.
Proof. destruct l; reflexivity. Qed.

Lemma elog_ok_frame s i x x' :
  elog_ok s -> nth_error (ins s) i = Some x -> (pre_el (ipc x) = false -> pre_el (ipc x') = false) ->
  elog_ok (set_in i x' s).
Proof.
  intros E Hx Hp j Hj. simpl in *. destruct (E j Hj) as (y & Hy & Hpy).
  rewrite nth_upd. destruct (Nat.eqb_spec j i) as [->|Hne]; eauto.
  rewrite Hx in *. inv Hy. simpl. eauto.
Qed.

Lemma elog_ok_log s i x :
  elog_ok s -> nth_error (ins s) i = Some x -> pre_el (ipc x) = false -> elog_ok (logged i s).
Proof.
  intros E Hx Hp j Hj. simpl in *. apply in_app_or in Hj. destruct Hj as [Hj|[<-|[]]]; eauto.
Qed.

(* ---- `_done` family ---------------------------------------------------------------------------- *)

Lemma IFd_frame s i x x' :
  IFd s -> nth_error (ins s) i = Some x ->
  (ires x' = ires x \/ win s <> Some i) ->
  (done s = false -> participant (sg s) x' = true -> pre_el (ipc x') = true) ->
  IFd (set_in i x' s).
Proof.
  intros [Df Dt] Hx Hr Hp. constructor; simpl.
  - intros Hd. destruct (Df Hd) as (Hw & He & Hall). repeat split; auto.
    intros j y Hj Hpy. rewrite nth_upd in Hj. destruct (Nat.eqb_spec j i) as [->|Hne]; eauto.
    rewrite Hx in Hj. simpl in Hj. inv Hj. auto.
  - intros Hd. destruct (Dt Hd) as (w & Hw & He & Hf). exists w. repeat split; auto.
    intros Hff. rewrite (fail_at_set_in _ _ _ _ _ Hx). destruct (Nat.eqb_spec w i) as [->|Hne]; auto.
    destruct Hr as [Hr|Hr]; [|congruence]. rewrite Hr. specialize (Hf Hff). unfold fail_at in Hf. rewrite Hx in Hf. exact Hf.
Qed.

Lemma IFd_frame_post s i x x' :
  IFd s -> nth_error (ins s) i = Some x -> ires x' = ires x -> pre_el (ipc x) = false -> IFd (set_in i x' s).
Proof.
  intros J Hx Hr Hp. apply IFd_frame with x; auto.
  intros Hd Hpart. destruct (d_false _ J Hd) as (_ & _ & Hall).
  assert (Hpx : participant (sg s) x = true) by (unfold participant in *; rewrite <- Hr; exact Hpart).
  rewrite (Hall i x Hx Hpx) in Hp. discriminate.
Qed.

Lemma IFd_ext s s' :
  sg s' = sg s -> ins s' = ins s -> done s' = done s -> win s' = win s -> elog s' = elog s -> IFd s -> IFd s'.
Proof.
  intros E1 E2 E3 E4 E5 [Df Dt].
  constructor; unfold fail_at in *; rewrite ?E1, ?E2, ?E3, ?E4, ?E5; auto.
Qed.

Lemma elog_ok_ext s s' : ins s' = ins s -> elog s' = elog s -> elog_ok s -> elog_ok s'.
Proof. intros E1 E2 H. unfold elog_ok. rewrite E1, E2. exact H. Qed.

Lemma elog_ok_rmw s i x p :
  elog_ok s -> nth_error (ins s) i = Some x -> pre_el p = false ->
  elog_ok (set_elog (elog s ++ [i]) (set_in i (with_ipc p x) s)).
Proof.
  intros E Hx Hp j Hj. simpl in *. rewrite nth_upd. apply in_app_or in Hj.
  destruct (Nat.eqb_spec j i) as [->|Hne].
  - rewrite Hx. simpl. eauto.
  - destruct Hj as [Hj|[Hj|[]]]; [|congruence]. apply E; auto.
Qed.

Lemma elog_ok_step s e s' : I1 s -> elog_ok s -> step s e = Some s' -> elog_ok s'.
Proof.
  intros I E H. destruct e.
  13: { (* EDFree *)
    unfold step in H. destruct (nth_error (ins s) i) as [x|] eqn:Hx; [|discriminate].
    destruct (ipc x) as [| | | | | |k'| |] eqn:Hp; try discriminate.
    destruct (Nat.eqb k k'); [|discriminate].
    destruct (nth_error (ins s) k) as [y|] eqn:Hy; [|discriminate].
    cbv zeta in H.
    match type of H with match ?t with _ => _ end = _ => destruct t as [x'|] eqn:Hx' end; [|discriminate].
    injection H as Hs'. subst s'.
    set (s1 := set_in k (with_ifree (S (ifree y)) y) s) in *.
    assert (E1 : elog_ok s1) by (apply elog_ok_frame with y; auto).
    assert (Hx1 : nth_error (ins s1) i = Some x') by (destruct (match sg s with SAllNone => true | _ => pvalid s end); exact Hx').
    assert (Hp' : pre_el (ipc x') = false).
    { unfold s1 in Hx1. simpl in Hx1. rewrite nth_upd in Hx1. destruct (Nat.eqb_spec i k) as [->|].
      - assert (Ey : y = x) by congruence. rewrite Hy in Hx1. simpl in Hx1. injection Hx1 as Hz. subst x'. simpl. rewrite Ey, Hp. reflexivity.
      - assert (Ez : x' = x) by congruence. rewrite Ez, Hp. reflexivity. }
    match goal with |- elog_ok (finish_if_fin ?p0 _) => set (p := p0) end.
    assert (Hpp : pre_el p = false).
    { subst p. repeat match goal with |- context [if ?b then _ else _] => destruct b end; reflexivity. }
    clearbody p.
    apply elog_ok_ext with (goto i p x' s1).
    1-2: unfold finish_if_fin; destruct p, (match sg s with SAllNone => true | _ => pvalid s end); reflexivity.
    unfold goto. apply elog_ok_frame with x'; auto. }
  all: simpl in H.
  3: destruct (Nat.eqb_spec i (nreg s)) as [Ei|]; [|discriminate].
  all: destruct (nth_error (ins s) i) as [x|] eqn:Hx; [|discriminate].
  all: try (destruct (word_eqb old (iw x)) eqn:Ew; [apply word_eqb_eq in Ew; subst old|discriminate]).
  all: case_step H; inv H.
  all: unfold begin, store_slot, elected, logged, goto, finish_if_fin, dtor_entry; simpl.
  all: try (destruct (sg s) eqn:Esg; simpl in *; try discriminate; try destruct (pvalid s); try destruct (ovalue (rd x)); simpl).
  all: try assert (Hpi : ipc x = PIdle) by
        first [ eapply loc1_idle_w; [apply (i_loc _ I _ _ Hx)|congruence]
              | eapply loc1_idle_reg; [apply (i_loc _ I _ _ Hx)|lia] ].
  all: match goal with
       | Hx : nth_error (ins ?s0) ?i = Some ?x |- elog_ok ?t =>
           match t with
           | context [set_elog (elog _ ++ [i])] =>
               match t with context [with_ipc ?p x] =>
                 apply elog_ok_ext with (set_elog (elog s0 ++ [i]) (set_in i (with_ipc p x) s0));
                 [reflexivity..|apply elog_ok_rmw; auto] end
           | context [set_in i ?x'] =>
               apply elog_ok_ext with (set_in i x' s0); [reflexivity..|];
               apply elog_ok_frame with x; auto; simpl; rewrite ?Hpi, ?Heqp; simpl; try discriminate; auto
           end
       end.
Qed.

Lemma win_not_idle s i x : IO s -> nth_error (ins s) i = Some x -> post_set (ipc x) = false -> ipc x <> PSet -> win s <> Some i.
Proof.
  intros J Hx Hp Hn Hw. destruct (o_win _ J _ _ Hw Hx Hn) as (H & _). congruence.
Qed.

Lemma managed_rd s i x : I2 s -> nth_error (ins s) i = Some x -> owned (sg s) = false -> ipc x = PCons -> rd x = ires x.
Proof.
  intros J Hx Ho Hp. destruct (i2_loc _ J _ _ Hx) as [F _]. rewrite Ho, Hp in F. simpl in F.
  unfold rd. rewrite F. reflexivity.
Qed.

Lemma strat_entry_participant g r x :
  uses_done g = true -> ires x = r -> participant g x = true -> pre_el (strat_entry g r) = true.
Proof.
  intros Hu <- Hp. unfold participant in Hp. destruct g; simpl in *; try discriminate; rewrite ?Hp; reflexivity.
Qed.

Lemma IFd_mid_post s s1 i x p :
  IFd s -> nth_error (ins s) i = Some x -> pre_el (ipc x) = false ->
  sg s1 = sg s -> ins s1 = ins s -> done s1 = done s -> win s1 = win s -> elog s1 = elog s ->
  IFd (goto i p x s1).
Proof.
  intros J Hx Hp E1 E2 E3 E4 E5. apply IFd_ext with (goto i p x s); simpl; try congruence.
  unfold goto. apply IFd_frame_post with x; auto.
Qed.

Lemma store_slot_fields i r s :
  sg (store_slot i r s) = sg s /\ n (store_slot i r s) = n s /\ ins (store_slot i r s) = ins s /\
  done (store_slot i r s) = done s /\ state (store_slot i r s) = state s /\
  win (store_slot i r s) = win s /\ fwin (store_slot i r s) = fwin s /\
  saved (store_slot i r s) = saved s /\ elog (store_slot i r s) = elog s.
Proof.
  unfold store_slot. destruct (sg s) eqn:E; try destruct (ovalue r); simpl; rewrite ?E; repeat split; reflexivity.
Qed.

Lemma IFd_store_slot i r s : IFd s -> IFd (store_slot i r s).
Proof.
  intros D. destruct (store_slot_fields i r s) as (E1 & E2 & E3 & E4 & E5 & E6 & E7 & E8 & E9).
  apply IFd_ext with s; auto.
Qed.

Lemma IFd_step s e s' :
  uses_done (sg s) = true -> I1 s -> I2 s -> IO s -> IFd s -> step s e = Some s' -> IFd s'.
Proof.
  intros Hu I I' J D H. destruct e.
  13: { (* EDFree *)
    unfold step in H. destruct (nth_error (ins s) i) as [x|] eqn:Hx; [|discriminate].
    destruct (ipc x) as [| | | | | |k'| |] eqn:Hp; try discriminate.
    destruct (Nat.eqb k k'); [|discriminate].
    destruct (nth_error (ins s) k) as [y|] eqn:Hy; [|discriminate].
    cbv zeta in H.
    match type of H with match ?t with _ => _ end = _ => destruct t as [x'|] eqn:Hx' end; [|discriminate].
    injection H as Hs'. subst s'.
    set (s1 := set_in k (with_ifree (S (ifree y)) y) s) in *.
    assert (Hpy : pre_el (ipc y) = false).
    { destruct (i_dt_some _ I i) as (Hc & _).
      - apply (l_pdtor _ _ _ _ _ _ _ _ (i_loc _ I _ _ Hx)). rewrite Hp. reflexivity.
      - pose proof (all_ended _ I Hc _ _ Hy) as He. destruct (ipc y); simpl in *; congruence. }
    assert (D1 : IFd s1) by (apply IFd_frame_post with y; auto).
    assert (Hx1 : nth_error (ins s1) i = Some x') by (destruct (match sg s with SAllNone => true | _ => pvalid s end); exact Hx').
    assert (Hp' : pre_el (ipc x') = false).
    { unfold s1 in Hx1. simpl in Hx1. rewrite nth_upd in Hx1. destruct (Nat.eqb_spec i k) as [->|].
      - assert (Ey : y = x) by congruence. rewrite Hy in Hx1. simpl in Hx1. injection Hx1 as Hz. subst x'. simpl. rewrite Ey, Hp. reflexivity.
      - assert (Ez : x' = x) by congruence. rewrite Ez, Hp. reflexivity. }
    match goal with |- IFd (finish_if_fin ?p0 _) => set (p := p0) end. clearbody p.
    apply IFd_ext with (goto i p x' s1).
    1-5: unfold finish_if_fin; destruct p, (match sg s with SAllNone => true | _ => pvalid s end); reflexivity.
    unfold goto. apply IFd_frame_post with x'; auto. }
  all: simpl in H.
  3: destruct (Nat.eqb_spec i (nreg s)) as [Ei|]; [|discriminate].
  all: destruct (nth_error (ins s) i) as [x|] eqn:Hx; [|discriminate].
  all: try (destruct (word_eqb old (iw x)) eqn:Ew; [apply word_eqb_eq in Ew; subst old|discriminate]).
  all: case_step H; inv H.
  all: try (rewrite Heqs in Hu; discriminate).
  all: try (simpl in Hu; discriminate Hu).
  all: try assert (Hpi : ipc x = PIdle) by
        first [ eapply loc1_idle_w; [apply (i_loc _ I _ _ Hx)|congruence]
              | eapply loc1_idle_reg; [apply (i_loc _ I _ _ Hx)|lia] ].
  (* EComplete *)
  1-2: apply IFd_frame with x; auto;
       [right; apply win_not_idle with x; auto; rewrite Hpi; try reflexivity; discriminate
       |intros _ _; simpl; rewrite Hpi; reflexivity].
  (* EXchg *)
  1: apply IFd_frame with x; auto; intros _ _; simpl; rewrite Hpi; reflexivity.
  1: { unfold begin. apply IFd_frame with x; auto. intros _ Hpart. simpl.
       destruct (owned (sg s)) eqn:Eo; auto. eapply strat_entry_participant; eauto. }
  (* EReg *)
  1: apply IFd_ext with (set_in (nreg s) (with_iw WC x) s); try reflexivity;
     apply IFd_frame with x; auto; intros _ _; simpl; rewrite Hpi; reflexivity.
  1: { apply IFd_ext with (begin (nreg s) x s); try reflexivity.
       unfold begin. apply IFd_frame with x; auto. intros _ Hpart. simpl.
       destruct (owned (sg s)) eqn:Eo; auto. eapply strat_entry_participant; eauto. }
  (* EFree *)
  1: { assert (Hrd : rd x = ires x) by (eapply managed_rd; eauto). rewrite Hrd.
       apply IFd_store_slot.
       apply IFd_frame with x; auto. intros _ Hpart. simpl. eapply strat_entry_participant; eauto. }
  (* ELdDone *)
  1-2: apply andb_true_iff in Heqb; destruct Heqb as (_ & Hv); apply eqb_prop in Hv;
       unfold goto; apply IFd_frame with x; auto; intros Hd _; simpl; first [reflexivity|congruence].
  (* EXchgDone, old = true *)
  1: { apply andb_true_iff in Heqb. destruct Heqb as (_ & Hv). apply eqb_prop in Hv.
       destruct (d_true _ D (eq_sym Hv)) as (w & Hw & He & Hf).
       unfold goto, logged. constructor; simpl; [discriminate|].
       intros _. exists w. repeat split; auto.
       - rewrite hd_snoc. destruct (elog s); [discriminate|exact He].
       - intros Hff. change (fail_at (set_in i (with_ipc PDec x) s) w = true).
         rewrite (fail_at_set_in _ _ _ _ _ Hx). destruct (Nat.eqb_spec w i) as [->|]; auto.
         simpl. specialize (Hf Hff). unfold fail_at in Hf. rewrite Hx in Hf. exact Hf. }
  (* EXchgDone, old = false: elected *)
  1: { apply andb_true_iff in Heqb. destruct Heqb as (_ & Hv). apply eqb_prop in Hv.
       destruct (d_false _ D (eq_sym Hv)) as (Hw & He & Hall).
       unfold elected, logged. constructor; simpl; [discriminate|].
       intros _. exists i. rewrite He. repeat split; auto.
       intros Hff. change (fail_at (set_in i (with_ipc PSet x) s) i = true).
       rewrite (fail_at_set_in _ _ _ _ _ Hx), Nat.eqb_refl. simpl.
       destruct (l_pel _ _ _ _ _ _ _ _ (i_loc _ I _ _ Hx)) as (_ & Hf); auto. }
  (* ESetOut, EDec, EPublish *)
  all: unfold finish_if_fin, dtor_entry.
  all: try (destruct (sg s) eqn:Esg; simpl in *; try discriminate; try destruct (pvalid s); simpl).
  all: match goal with
       | Hx : nth_error (ins ?s0) ?i = Some ?x |- IFd (goto ?i ?p ?x ?s1) =>
           apply IFd_mid_post with (s := s0); auto; rewrite ?Heqp; reflexivity
       | Hx : nth_error (ins ?s0) ?i = Some ?x |- IFd (set_deleted ?d (goto ?i ?p ?x ?s1)) =>
           apply IFd_ext with (goto i p x s1); [reflexivity..|];
           apply IFd_mid_post with (s := s0); auto; rewrite ?Heqp; reflexivity
       end.
Qed.

Lemma IFd_elects s e s' :
  uses_done (sg s) = true -> IFd s -> step s e = Some s' -> elects s e = true -> win s = None.
Proof.
  intros Hu D H He. destruct e; simpl in He; try discriminate.
  - simpl in H. destruct (nth_error (ins s) i) as [x|]; [|discriminate]. case_step H; simpl in He; try discriminate.
    apply andb_true_iff in Heqb. destruct Heqb as (_ & Hv). apply eqb_prop in Hv.
    destruct (d_false _ D (eq_sym Hv)) as (Hw & _). exact Hw.
  - destruct (sg s); simpl in *; discriminate.
  - simpl in H. destruct (nth_error (ins s) i) as [x|]; [|discriminate]. case_step H; simpl in Hu; discriminate.
Qed.
