(* Invariant of the Strand transition system (DESIGN.md Appendix A.2: S1-S4) and the facts the C07 theorems are made
   of.  Everything is proved for every event sequence (schedule), every number of submitting threads (the parameter of
   [init]), every number of activations / worker threads (the activations are an unbounded multiset) and every choice of
   the underlying executor between Call and Drop.

   Idiom: the activations are a list used as a multiset; a step of one activation is [upd_first] and is analysed through
   [upd_first_split] (acts = pre ++ x :: post); every quantity the invariant talks about is a sum / concatenation over
   the multiset ([sumf], [flat_map]) that distributes over [++], so each case ends in [lia] or list reassociation. *)
From Coq Require Import List Arith Bool Lia Permutation Sorted.
Import ListNotations.
From YV Require Import model.Strand.

(* ---- identities ------------------------------------------------------------------------------ *)
Lemma job_eqb_eq a b : job_eqb a b = true <-> a = b.
Proof.
  unfold job_eqb. destruct a as [a1 a2], b as [b1 b2]. simpl. rewrite andb_true_iff, !Nat.eqb_eq.
  split; [intros [-> ->]; reflexivity|intros H; inversion H; auto].
Qed.
Lemma job_eqb_refl a : job_eqb a a = true.
Proof. apply job_eqb_eq. reflexivity. Qed.
Lemma job_eqb_neq a b : job_eqb a b = false <-> a <> b.
Proof.
  split.
  - intros H E. apply job_eqb_eq in E. congruence.
  - intros H. destruct (job_eqb a b) eqn:E; [apply job_eqb_eq in E; contradiction|reflexivity].
Qed.
Lemma ptr_eqb_eq a b : ptr_eqb a b = true <-> a = b.
Proof.
  destruct a, b; simpl; try (split; [discriminate|discriminate]); try tauto.
  rewrite job_eqb_eq. split; [intros ->; reflexivity|intros H; inversion H; reflexivity].
Qed.
Lemma ptr_eqb_refl a : ptr_eqb a a = true.
Proof. apply ptr_eqb_eq. reflexivity. Qed.

Lemma memb_In j l : memb j l = true <-> In j l.
Proof.
  unfold memb. rewrite existsb_exists. split.
  - intros (x & Hx & E). apply job_eqb_eq in E. subst. exact Hx.
  - intros H. exists j. split; [exact H|apply job_eqb_refl].
Qed.
Lemma memb_nIn j l : memb j l = false <-> ~ In j l.
Proof.
  rewrite <- memb_In. destruct (memb j l); split; intros H; try congruence; try (intros H1; congruence).
Qed.

(* ---- measures over the multiset of activations ----------------------------------------------- *)
Lemma sumf_app {A} (f : A -> nat) l1 l2 : sumf f (l1 ++ l2) = sumf f l1 + sumf f l2.
Proof. unfold sumf. rewrite map_app, list_sum_app. reflexivity. Qed.
Lemma sumf_cons {A} (f : A -> nat) x l : sumf f (x :: l) = f x + sumf f l.
Proof. reflexivity. Qed.
Lemma sumf_nil {A} (f : A -> nat) : sumf f [] = 0.
Proof. reflexivity. Qed.

Definition tok (a : act) : nat := match a with ADropBatch _ => 0 | _ => 1 end.
Definition nnc (a : act) : nat :=
  match a with APending | ARunStart | AResubmit | ADropStart => 1 | _ => 0 end.
Definition isdropn (a : act) : nat := match a with ADropStart | ADropBatch _ => 1 | _ => 0 end.
Definition isrunner (a : act) : nat :=
  match a with ARunBatch _ | ARunning _ _ | ARunCas => 1 | _ => 0 end.
Definition submitted (a : act) : nat := match a with APending | AResubmit => 1 | _ => 0 end.
Definition todo (a : act) : list job := match a with ARunBatch t | ARunning _ t => t | _ => [] end.
Definition cur (a : act) : list job := match a with ARunning j _ => [j] | _ => [] end.
Definition dbatch (a : act) : list job := match a with ADropBatch t => t | _ => [] end.

Definition toks := sumf tok.
Definition nns := sumf nnc.
Definition todos := flat_map todo.
Definition curs := flat_map cur.
Definition dbatches := flat_map dbatch.

Lemma toks0 l : toks l = 0 -> todos l = [] /\ curs l = [] /\ nns l = 0 /\ sumf isrunner l = 0 /\ sumf submitted l = 0.
Proof.
  induction l as [|x l IH]; [repeat split; reflexivity|].
  unfold toks, nns, todos, curs in *. rewrite !sumf_cons. simpl. intros H.
  destruct x; simpl in *; try lia. apply IH. lia.
Qed.

(* ---- list surgery ----------------------------------------------------------------------------- *)
Lemma upd_first_split f l l' : upd_first f l = Some l' ->
  exists pre x y post, l = pre ++ x :: post /\ f x = Some y /\ l' = pre ++ y ++ post.
Proof.
  revert l'. induction l as [|a l IH]; simpl; intros l' H; [discriminate|].
  destruct (f a) as [y|] eqn:F.
  - inversion H; subst. exists [], a, y, l. repeat split; auto.
  - destruct (upd_first f l) as [r|] eqn:U; [|discriminate]. inversion H; subst.
    destruct (IH _ eq_refl) as (pre & x & y & post & -> & Fx & ->).
    exists (a :: pre), x, y, post. repeat split; auto.
Qed.

Lemma upd_first_some f l x y : In x l -> f x = Some y -> upd_first f l <> None.
Proof.
  induction l as [|a l IH]; simpl; intros Hin F; [contradiction|].
  destruct (f a) eqn:Fa; [discriminate|]. destruct Hin as [->|Hin]; [congruence|].
  specialize (IH Hin F). destruct (upd_first f l); [discriminate|contradiction].
Qed.

Lemma nth_error_set_nth {A} (l : list A) t v old t' : nth_error l t = Some old ->
  nth_error (set_nth t v l) t' = if Nat.eqb t' t then Some v else nth_error l t'.
Proof.
  revert t t'. induction l as [|x l IH]; intros t t' H.
  - destruct t; discriminate.
  - destruct t as [|t]; simpl in *.
    + destruct t' as [|t']; reflexivity.
    + destruct t' as [|t']; simpl; [reflexivity|]. apply IH. exact H.
Qed.

Lemma sumf_set_nth {A} (f : A -> nat) (l : list A) t v old : nth_error l t = Some old ->
  sumf f (set_nth t v l) + f old = sumf f l + f v.
Proof.
  revert t. induction l as [|x l IH]; intros t H.
  - destruct t; discriminate.
  - destruct t as [|t]; simpl in *.
    + inversion H; subst. rewrite !sumf_cons. lia.
    + rewrite !sumf_cons. specialize (IH _ H). lia.
Qed.

Lemma forallb_set_nth {A} (f : A -> bool) (l : list A) t v : forallb f l = true -> f v = true ->
  forallb f (set_nth t v l) = true.
Proof.
  revert t. induction l as [|x l IH]; intros t H Hv; [reflexivity|].
  simpl in H. apply andb_true_iff in H. destruct H as [Hx Hl].
  destruct t; simpl; rewrite ?Hv, ?Hx, ?Hl; auto. rewrite IH; auto.
Qed.

Lemma length_set_nth {A} (l : list A) t v : length (set_nth t v l) = length l.
Proof. revert t. induction l; intros [|t]; simpl; auto. Qed.

Lemma remove_job_mid l1 j l2 : ~ In j l1 -> remove_job j (l1 ++ j :: l2) = l1 ++ l2.
Proof.
  induction l1 as [|x l IH]; simpl; intros H.
  - rewrite job_eqb_refl. reflexivity.
  - destruct (job_eqb x j) eqn:E; [apply job_eqb_eq in E; subst; exfalso; auto|].
    rewrite IH; auto.
Qed.

(* ---- filtering the push history ---------------------------------------------------------------- *)

Lemma notin_app d1 d2 j : notin (d1 ++ d2) j = notin d1 j && notin d2 j.
Proof. unfold notin, memb. rewrite existsb_app, negb_orb. reflexivity. Qed.

Lemma filter_andb {A} (f g : A -> bool) l : filter (fun x => f x && g x) l = filter g (filter f l).
Proof.
  induction l as [|x l IH]; simpl; [reflexivity|].
  destruct (f x); simpl; [destruct (g x); rewrite IH; reflexivity|exact IH].
Qed.

Lemma filter_all {A} (f : A -> bool) l : (forall x, In x l -> f x = true) -> filter f l = l.
Proof.
  induction l as [|x l IH]; simpl; intros H; [reflexivity|].
  rewrite (H x (or_introl eq_refl)), IH; auto.
Qed.
Lemma filter_none {A} (f : A -> bool) l : (forall x, In x l -> f x = false) -> filter f l = [].
Proof.
  induction l as [|x l IH]; simpl; intros H; [reflexivity|].
  rewrite (H x (or_introl eq_refl)), IH; auto.
Qed.

Lemma NoDup_app_disj {A} (l1 l2 : list A) : NoDup (l1 ++ l2) ->
  NoDup l1 /\ NoDup l2 /\ (forall x, In x l1 -> ~ In x l2).
Proof.
  induction l1 as [|a l1 IH]; simpl; intros H.
  - repeat split; auto. constructor.
  - inversion H; subst. destruct (IH H3) as (N1 & N2 & D). repeat split; auto.
    + constructor; auto. intros Hin. apply H2. apply in_or_app. auto.
    + intros x [->|Hx]; [intros Hin; apply H2; apply in_or_app; auto|auto].
Qed.

Lemma NoDup_app_intro {A} (l1 l2 : list A) : NoDup l1 -> NoDup l2 -> (forall x, In x l1 -> ~ In x l2) ->
  NoDup (l1 ++ l2).
Proof.
  induction l1 as [|a l1 IH]; simpl; intros N1 N2 D; [exact N2|].
  inversion N1; subst. constructor.
  - intros Hin. apply in_app_or in Hin. destruct Hin as [Hin|Hin]; [contradiction|].
    exact (D a (or_introl eq_refl) Hin).
  - apply IH; auto.
Qed.

(* taking the suffix B out of a duplicate-free A ++ B *)
Lemma filter_notin_suffix A B X : NoDup (A ++ B) -> (forall x, In x X <-> In x B) ->
  filter (notin X) (A ++ B) = A.
Proof.
  intros N HX. destruct (NoDup_app_disj _ _ N) as (_ & _ & D).
  rewrite filter_app, (filter_all _ A), (filter_none _ B), app_nil_r; auto.
  - intros x Hx. unfold notin. apply negb_false_iff. apply memb_In. apply HX. exact Hx.
  - intros x Hx. unfold notin. apply negb_true_iff. apply memb_nIn. intros Hin. apply HX in Hin.
    exact (D x Hx Hin).
Qed.

Lemma filter_incl {A} (f : A -> bool) l : incl (filter f l) l.
Proof. intros x Hx. apply filter_In in Hx. tauto. Qed.
(* ---- the invariant (DESIGN.md Appendix A.2: S1-S4) ------------------------------------------------ *)
Record Inv (s : st) : Prop := {
  (* S1/S2: the word is the marker iff no activation token exists, otherwise exactly one exists; a token that is not a
     running batch implies a non-empty inbox *)
  i_tok : match jobs s with
          | Idle => must s + toks (acts s) = 0
          | L l => must s + toks (acts s) = 1 /\ (l = [] -> must s + nns (acts s) = 0)
          end;
  (* S3: what was Called, then what the runner still has to call, then the inbox oldest first, is the push history
     without what Drop activations took *)
  i_ord : called s ++ todos (acts s) ++ rev (inbox (jobs s)) = filter (notin (droptaken s)) (pushed s);
  i_act : active s = curs (acts s);
  i_drp : Permutation (droptaken s) (dropped s ++ dbatches (acts s));
  i_nd : NoDup (pushed s);
  i_inc : incl (droptaken s) (pushed s);
  i_ndd : NoDup (droptaken s);
  i_seq : forall t, map snd (filter (fun j => Nat.eqb (fst j) t) (pushed s)) = seq 0 (nseq_of s t);
  i_ref : refused s = 0 -> droptaken s = [] /\ sumf isdropn (acts s) = 0
}.

Lemma inv_init n : Inv (init n).
Proof.
  assert (M : forall n, sumf ismust (repeat {| nseq := 0; pc := SIdle |} n) = 0).
  { intros k. induction k; simpl; auto. }
  constructor; simpl; auto; try constructor; try (intros x H; contradiction).
  - unfold must. simpl. rewrite M. reflexivity.
  - intros t. unfold nseq_of. simpl.
    destruct (nth_error (repeat {| nseq := 0; pc := SIdle |} n) t) eqn:E; [|reflexivity].
    apply nth_error_In in E. apply repeat_spec in E. subst. reflexivity.
Qed.

Lemma tokens_le1 s : Inv s -> must s + toks (acts s) <= 1.
Proof. intros I. pose proof (i_tok s I) as H. destruct (jobs s); [lia|destruct H; lia]. Qed.

(* an activation that holds the token is alone: everything else in the multiset is a dropper past its exchange *)
Lemma alone s pre x post : Inv s -> acts s = pre ++ x :: post -> tok x = 1 ->
  must s = 0 /\ toks pre = 0 /\ toks post = 0.
Proof.
  intros I E T. pose proof (tokens_le1 s I) as H. rewrite E in H. unfold toks in *.
  rewrite sumf_app, sumf_cons in H. lia.
Qed.

Ltac dmove H :=
  unfold move in H;
  match type of H with
  | match upd_first ?p ?l with _ => _ end = _ =>
      let U := fresh "U" in
      destruct (upd_first p l) as [a'|] eqn:U; [|discriminate];
      apply upd_first_split in U;
      let pre := fresh "pre" in let x := fresh "x" in let y := fresh "y" in let post := fresh "post" in
      let Ea := fresh "Ea" in let Hp := fresh "Hp" in
      destruct U as (pre & x & y & post & Ea & Hp & ->)
  end.

Ltac measures :=
  unfold must, toks, nns, todos, curs, dbatches in *; simpl in *;
  repeat rewrite ?sumf_app, ?sumf_cons, ?sumf_nil, ?flat_map_app in *; simpl in *.

Lemma nseq_of_set s t v old t' : nth_error (subs s) t = Some old ->
  nseq_of (set_sub t v s) t' = if Nat.eqb t' t then nseq v else nseq_of s t'.
Proof.
  intros H. unfold nseq_of. simpl. rewrite (nth_error_set_nth _ _ _ _ _ H).
  destruct (Nat.eqb t' t); reflexivity.
Qed.

(* a thread-local step of a submitter that neither creates nor consumes the duty to submit *)
Lemma inv_set_sub_same s t v old : Inv s -> nth_error (subs s) t = Some old ->
  ismust v = ismust old -> nseq v = nseq old -> Inv (set_sub t v s).
Proof.
  intros I H Hm Hn.
  assert (M : must (set_sub t v s) = must s).
  { unfold must. simpl. pose proof (sumf_set_nth ismust _ _ v _ H). lia. }
  assert (Nq : forall t', nseq_of (set_sub t v s) t' = nseq_of s t').
  { intros t'. rewrite (nseq_of_set _ _ _ _ _ H). destruct (Nat.eqb t' t) eqn:E; [|reflexivity].
    apply Nat.eqb_eq in E. subst. unfold nseq_of. rewrite H. exact Hn. }
  destruct I. constructor; simpl; auto.
  - rewrite M. exact i_tok0.
  - intros t'. rewrite Nq. apply i_seq0.
Qed.
(* ---- preservation, one lemma per event ------------------------------------------------------------ *)
Lemma inv_load s t v s' : Inv s -> step s (ELoad t v) = Some s' -> Inv s'.
Proof.
  intros I H. simpl in H. destruct (nth_error (subs s) t) as [sb|] eqn:N; [|discriminate].
  destruct (pc sb) eqn:P; try discriminate. destruct (ptr_eqb v (head (jobs s))); [|discriminate].
  inversion H; subst. eapply inv_set_sub_same; eauto. unfold ismust; simpl. rewrite P. reflexivity.
Qed.

Lemma inv_casfail s t v s' : Inv s -> step s (ECasFail t v) = Some s' -> Inv s'.
Proof.
  intros I H. simpl in H. destruct (nth_error (subs s) t) as [sb|] eqn:N; [|discriminate].
  destruct (pc sb) eqn:P; try discriminate. destruct (ptr_eqb v (head (jobs s))); [|discriminate].
  inversion H; subst. eapply inv_set_sub_same; eauto. unfold ismust; simpl. rewrite P. reflexivity.
Qed.

Lemma in_pushed_lt s t n : Inv s -> In (t, n) (pushed s) -> n < nseq_of s t.
Proof.
  intros I Hin. pose proof (i_seq s I t) as Hs.
  assert (In n (map snd (filter (fun j => Nat.eqb (fst j) t) (pushed s)))).
  { apply in_map_iff. exists (t, n). split; [reflexivity|]. apply filter_In. split; [exact Hin|].
    simpl. apply Nat.eqb_refl. }
  rewrite Hs in H. apply in_seq in H. lia.
Qed.

Lemma inv_push s t n s' : Inv s -> step s (EPush t n) = Some s' -> Inv s'.
Proof.
  intros I H. simpl in H. destruct (nth_error (subs s) t) as [sb|] eqn:N; [|discriminate].
  destruct (pc sb) as [|e|] eqn:P; try discriminate.
  destruct (ptr_eqb e (head (jobs s))) eqn:E; [|discriminate]. apply ptr_eqb_eq in E.
  destruct (Nat.eqb n (nseq sb)) eqn:En; [|discriminate]. apply Nat.eqb_eq in En. subst n.
  simpl in H. inversion H; subst s'; clear H.
  assert (Hfresh : ~ In (t, nseq sb) (pushed s)).
  { intros Hin. pose proof (in_pushed_lt _ _ _ I Hin) as Hlt. unfold nseq_of in Hlt. rewrite N in Hlt. lia. }
  assert (Hnd : notin (droptaken s) (t, nseq sb) = true).
  { unfold notin. apply negb_true_iff. apply memb_nIn. intros Hin. apply Hfresh. apply (i_inc s I). exact Hin. }
  pose proof (sumf_set_nth ismust _ _ {| nseq := S (nseq sb); pc := match e with PIdle => SMust | _ => SIdle end |} _ N) as HM.
  assert (Hold : ismust sb = 0) by (unfold ismust; rewrite P; reflexivity).
  pose proof (i_tok s I) as IT.
  constructor; simpl.
  - (* token *) unfold must in *. simpl.
    rewrite Hold in HM.
    destruct (jobs s) as [|l] eqn:J; simpl in *; subst e; cbn [ismust pc] in HM.
    + split; [lia|discriminate].
    + destruct IT as [I1 I2]. destruct l; cbn [ismust pc] in HM; (split; [lia|discriminate]).
  - (* order *) rewrite filter_app. simpl. rewrite Hnd. rewrite <- (i_ord s I). rewrite !app_assoc. reflexivity.
  - apply (i_act s I).
  - apply (i_drp s I).
  - apply NoDup_app_intro; [apply (i_nd s I)|constructor; [intros []|constructor]|].
    intros x Hx [<-|[]]. exact (Hfresh Hx).
  - intros x Hx. apply in_or_app. left. apply (i_inc s I). exact Hx.
  - apply (i_ndd s I).
  - intros t'. rewrite filter_app, map_app. simpl.
    unfold nseq_of. simpl. rewrite (nth_error_set_nth _ _ _ _ _ N).
    pose proof (i_seq s I t') as Hs. unfold nseq_of in Hs.
    destruct (Nat.eqb t t') eqn:Et.
    + apply Nat.eqb_eq in Et. subst t'. rewrite Nat.eqb_refl. rewrite N in Hs. cbn [nseq].
      rewrite seq_S. simpl. f_equal. exact Hs.
    + rewrite Nat.eqb_sym in Et. rewrite Et. simpl. rewrite app_nil_r. exact Hs.
  - apply (i_ref s I).
Qed.

Lemma inv_submit s t s' : Inv s -> step s (ESubmit t) = Some s' -> Inv s'.
Proof.
  intros I H. simpl in H. destruct (nth_error (subs s) t) as [sb|] eqn:N; [|discriminate].
  destruct (pc sb) eqn:P; try discriminate. inversion H; subst s'; clear H.
  pose proof (sumf_set_nth ismust _ _ {| nseq := nseq sb; pc := SIdle |} _ N) as HM.
  assert (Hold : ismust sb = 1) by (unfold ismust; rewrite P; reflexivity).
  rewrite Hold in HM. cbn [ismust pc] in HM.
  pose proof (i_tok s I) as IT.
  constructor; simpl.
  - unfold must in *. simpl. measures. destruct (jobs s); [lia|]. destruct IT as [I1 I2]. split; [lia|].
    intros El. specialize (I2 El). lia.
  - apply (i_ord s I).
  - apply (i_act s I).
  - apply (i_drp s I).
  - apply (i_nd s I).
  - apply (i_inc s I).
  - apply (i_ndd s I).
  - intros t'. pose proof (i_seq s I t') as Hs. unfold nseq_of in *. simpl.
    rewrite (nth_error_set_nth _ _ _ _ _ N). destruct (Nat.eqb t' t) eqn:Et; [|exact Hs].
    apply Nat.eqb_eq in Et. subst. rewrite N in Hs. exact Hs.
  - intros R. destruct (i_ref s I R) as [A B]. split; [exact A|]. measures. exact B.
Qed.
(* an activation's step that changes none of the measures (except possibly the need for a non-empty inbox, which may
   only grow when the inbox is non-empty) *)
Lemma inv_move_same s pre x y post :
  Inv s -> acts s = pre ++ x :: post ->
  sumf tok y = tok x -> flat_map todo y = todo x -> flat_map cur y = cur x -> flat_map dbatch y = dbatch x ->
  sumf isdropn y <= isdropn x -> (jobs s = L [] -> sumf nnc y <= nnc x) ->
  Inv (set_acts (pre ++ y ++ post) s).
Proof.
  intros I Ea Ht Htd Hc Hd Hdr Hn. destruct I. rewrite Ea in *.
  constructor; simpl; auto.
  - destruct (jobs s) as [|l]; measures; [lia|]. destruct i_tok0 as [I1 I2]. split; [lia|].
    intros El. subst l. specialize (I2 eq_refl). specialize (Hn eq_refl). lia.
  - measures. rewrite Htd. exact i_ord0.
  - measures. rewrite Hc. exact i_act0.
  - measures. rewrite Hd. exact i_drp0.
  - intros R. destruct (i_ref0 R) as [A B]. split; [exact A|]. measures. lia.
Qed.

Lemma inv_startcall s s' : Inv s -> step s EStartCall = Some s' -> Inv s'.
Proof.
  intros I H. simpl in H. dmove H. inversion H; subst; clear H.
  destruct x; simpl in Hp; try discriminate. inversion Hp; subst.
  eapply inv_move_same; eauto.
Qed.

Lemma inv_resubmit s s' : Inv s -> step s EResubmit = Some s' -> Inv s'.
Proof.
  intros I H. simpl in H. dmove H. inversion H; subst; clear H.
  destruct x; simpl in Hp; try discriminate. inversion Hp; subst.
  eapply inv_move_same; eauto.
Qed.

Lemma inv_dropdone s s' : Inv s -> step s EDropDone = Some s' -> Inv s'.
Proof.
  intros I H. simpl in H. dmove H. inversion H; subst; clear H.
  destruct x as [| | | | | | |[|j t]]; simpl in Hp; try discriminate. inversion Hp; subst.
  eapply inv_move_same; eauto; intros; unfold sumf; simpl; lia.
Qed.

Lemma inv_loadafter s v s' : Inv s -> step s (ELoadAfter v) = Some s' -> Inv s'.
Proof.
  intros I H. simpl in H. destruct (ptr_eqb v (head (jobs s))) eqn:E; [|discriminate].
  apply ptr_eqb_eq in E. dmove H. inversion H; subst; clear H.
  destruct x as [| |[|j t]| | | | |]; simpl in Hp; try discriminate. inversion Hp; subst.
  eapply inv_move_same; eauto; try (destruct (head (jobs s)); reflexivity).
  all: try (destruct (head (jobs s)); unfold sumf; simpl; lia).
  intros J. rewrite J. unfold sumf; simpl. lia.
Qed.

Lemma inv_casfail_idle s v s' : Inv s -> step s (ECasIdleFail v) = Some s' -> Inv s'.
Proof.
  intros I H. simpl in H. destruct (ptr_eqb v (head (jobs s))) eqn:E; [|discriminate].
  assert (J : jobs s <> L []) by (intros J; rewrite J in H; discriminate).
  assert (H' : move (from_runcas [AResubmit]) s = Some s') by (destruct (jobs s) as [|[|? ?]]; auto; congruence).
  clear H. dmove H'. inversion H'; subst; clear H'.
  destruct x; simpl in Hp; try discriminate. inversion Hp; subst.
  eapply inv_move_same; eauto. intros J'. contradiction.
Qed.

Lemma inv_startdrop s s' : Inv s -> step s EStartDrop = Some s' -> Inv s'.
Proof.
  intros I H. simpl in H. destruct (move (from_pending ADropStart) s) as [s1|] eqn:M; [|discriminate].
  inversion H; subst; clear H. dmove M. inversion M; subst; clear M.
  destruct x; simpl in Hp; try discriminate. inversion Hp; subst; clear Hp.
  destruct I. rewrite Ea in *. constructor; simpl; auto.
  - destruct (jobs s) as [|l]; measures; [lia|]. destruct i_tok0 as [I1 I2]. split; [lia|].
    intros El. specialize (I2 El). lia.
  - measures. exact i_ord0.
  - measures. exact i_act0.
  - measures. exact i_drp0.
  - discriminate.
Qed.

Lemma inv_xchgnull s old s' : Inv s -> step s (EXchgNull old) = Some s' -> Inv s'.
Proof.
  intros I H. simpl in H. destruct (ptr_eqb old (head (jobs s))); [|discriminate].
  destruct (jobs s) as [|[|j l]] eqn:J; try discriminate.
  dmove H. simpl in Ea. inversion H; subst; clear H.
  destruct x; simpl in Hp; try discriminate. inversion Hp; subst; clear Hp.
  destruct (alone s pre ARunStart post I Ea eq_refl) as (M0 & T1 & T2).
  destruct (toks0 _ T1) as (D1 & C1 & N1 & _). destruct (toks0 _ T2) as (D2 & C2 & N2 & _).
  destruct I. rewrite Ea, J in *. constructor; simpl; auto.
  - measures. destruct i_tok0 as [I1 I2]. split; [lia|]. intros _. lia.
  - measures. rewrite D1, D2 in *. simpl in *. rewrite ?app_nil_r. exact i_ord0.
  - measures. exact i_act0.
  - measures. exact i_drp0.
  - intros R. destruct (i_ref0 R) as [A B]. split; [exact A|]. measures. lia.
Qed.

Lemma inv_runbegin s j s' : Inv s -> step s (ERunBegin j) = Some s' -> Inv s'.
Proof.
  intros I H. simpl in H. destruct (move (begin_job j) s) as [s1|] eqn:M; [|discriminate].
  inversion H; subst; clear H. dmove M. inversion M; subst; clear M.
  destruct x as [| |[|x t]| | | | |]; simpl in Hp; try discriminate.
  destruct (job_eqb x j) eqn:E; [|discriminate]. apply job_eqb_eq in E. subst x.
  inversion Hp; subst; clear Hp.
  destruct (alone s pre (ARunBatch (j :: t)) post I Ea eq_refl) as (M0 & T1 & T2).
  destruct (toks0 _ T1) as (D1 & C1 & N1 & _). destruct (toks0 _ T2) as (D2 & C2 & N2 & _).
  destruct I. rewrite Ea in *. constructor; simpl; auto.
  - destruct (jobs s) as [|l]; measures; [lia|]. destruct i_tok0 as [I1 I2]. split; [lia|].
    intros El. specialize (I2 El). lia.
  - measures. rewrite D1, D2 in *. simpl in *. rewrite <- app_assoc. exact i_ord0.
  - measures. rewrite C1, C2 in *. simpl in *. rewrite i_act0. reflexivity.
  - measures. exact i_drp0.
  - intros R. destruct (i_ref0 R) as [A B]. split; [exact A|]. measures. lia.
Qed.

Lemma inv_runend s j s' : Inv s -> step s (ERunEnd j) = Some s' -> Inv s'.
Proof.
  intros I H. simpl in H. destruct (move (end_job j) s) as [s1|] eqn:M; [|discriminate].
  inversion H; subst; clear H. dmove M. inversion M; subst; clear M.
  destruct x as [| | |x t| | | |]; simpl in Hp; try discriminate.
  destruct (job_eqb x j) eqn:E; [|discriminate]. apply job_eqb_eq in E. subst x.
  inversion Hp; subst; clear Hp.
  destruct (alone s pre (ARunning j t) post I Ea eq_refl) as (M0 & T1 & T2).
  destruct (toks0 _ T1) as (D1 & C1 & N1 & _). destruct (toks0 _ T2) as (D2 & C2 & N2 & _).
  destruct I. rewrite Ea in *. constructor; simpl; auto.
  - destruct (jobs s) as [|l]; measures; [lia|]. destruct i_tok0 as [I1 I2]. split; [lia|].
    intros El. specialize (I2 El). lia.
  - measures. exact i_ord0.
  - measures. rewrite C1, C2 in *. simpl in *. rewrite i_act0. simpl. rewrite job_eqb_refl. reflexivity.
  - measures. exact i_drp0.
  - intros R. destruct (i_ref0 R) as [A B]. split; [exact A|]. measures. lia.
Qed.

Lemma inv_casidleok s s' : Inv s -> step s ECasIdleOk = Some s' -> Inv s'.
Proof.
  intros I H. simpl in H. destruct (jobs s) as [|[|j l]] eqn:J; try discriminate.
  dmove H. simpl in Ea. inversion H; subst; clear H.
  destruct x; simpl in Hp; try discriminate. inversion Hp; subst; clear Hp.
  destruct I. rewrite Ea, J in *. constructor; simpl; auto.
  - measures. destruct i_tok0 as [I1 I2]. lia.
  - measures. exact i_ord0.
  - measures. exact i_act0.
  - measures. exact i_drp0.
  - intros R. destruct (i_ref0 R) as [A B]. split; [exact A|]. measures. lia.
Qed.

Lemma inv_xchgidle s old s' : Inv s -> step s (EXchgIdle old) = Some s' -> Inv s'.
Proof.
  intros I H. simpl in H. destruct (ptr_eqb old (head (jobs s))); [|discriminate].
  destruct (jobs s) as [|[|j l]] eqn:J; try discriminate.
  destruct (move (from_dropstart (ADropBatch (j :: l))) (set_jobs Idle s)) as [s1|] eqn:M; [|discriminate].
  inversion H; subst; clear H. dmove M. simpl in Ea. inversion M; subst; clear M.
  destruct x; simpl in Hp; try discriminate. inversion Hp; subst; clear Hp.
  destruct (alone s pre ADropStart post I Ea eq_refl) as (M0 & T1 & T2).
  destruct (toks0 _ T1) as (D1 & C1 & N1 & _). destruct (toks0 _ T2) as (D2 & C2 & N2 & _).
  destruct I. rewrite Ea, J in *. simpl in *.
  assert (NDf : NoDup (filter (notin (droptaken s)) (pushed s))) by (apply NoDup_filter; exact i_nd0).
  assert (Hord : (called s ++ todos pre ++ todos post) ++ rev (j :: l) = filter (notin (droptaken s)) (pushed s)).
  { rewrite <- i_ord0. measures. rewrite <- !app_assoc. reflexivity. }
  assert (Hin : forall x, In x (j :: l) -> In x (pushed s) /\ ~ In x (droptaken s)).
  { intros x Hx. assert (Hf : In x (filter (notin (droptaken s)) (pushed s))).
    { rewrite <- Hord. apply in_or_app. right. apply -> in_rev. exact Hx. }
    apply filter_In in Hf. destruct Hf as [Hf1 Hf2]. split; [exact Hf1|].
    unfold notin in Hf2. apply negb_true_iff in Hf2. apply memb_nIn in Hf2. exact Hf2. }
  constructor; simpl; auto.
  - measures. destruct i_tok0 as [I1 I2]. lia.
  - replace (filter (notin (droptaken s ++ j :: l)) (pushed s))
      with (filter (notin (j :: l)) (filter (notin (droptaken s)) (pushed s))).
    + rewrite <- Hord. rewrite (filter_notin_suffix _ (rev (j :: l)) (j :: l)).
      * measures. rewrite app_nil_r. reflexivity.
      * rewrite Hord. exact NDf.
      * intros x. apply in_rev.
    + rewrite <- filter_andb. apply filter_ext. intros x. rewrite notin_app. reflexivity.
  - measures. exact i_act0.
  - measures.
    transitivity ((dropped s ++ flat_map dbatch pre ++ flat_map dbatch post) ++ j :: l).
    + apply Permutation_app_tail. exact i_drp0.
    + rewrite <- !app_assoc. apply Permutation_app_head. apply Permutation_app_head.
      apply Permutation_app_comm.
  - intros x Hx. apply in_app_or in Hx. destruct Hx as [Hx|Hx]; [apply i_inc0; exact Hx|apply Hin; exact Hx].
  - apply NoDup_app_intro; auto.
    + assert (NR : NoDup (rev (j :: l))).
      { rewrite <- Hord in NDf. apply NoDup_app_disj in NDf. tauto. }
      apply NoDup_rev in NR. rewrite rev_involutive in NR. exact NR.
    + intros x Hx Hx2. apply Hin in Hx2. tauto.
  - intros R. destruct (i_ref0 R) as [A B]. measures. lia.
Qed.

Lemma inv_dropjob s j s' : Inv s -> step s (EDropJob j) = Some s' -> Inv s'.
Proof.
  intros I H. simpl in H. destruct (move (drop_job j) s) as [s1|] eqn:M; [|discriminate].
  inversion H; subst; clear H. dmove M. inversion M; subst; clear M.
  destruct x as [| | | | | | |[|x t]]; simpl in Hp; try discriminate.
  destruct (job_eqb x j) eqn:E; [|discriminate]. apply job_eqb_eq in E. subst x.
  inversion Hp; subst; clear Hp.
  destruct I. rewrite Ea in *. constructor; simpl; auto.
  - destruct (jobs s) as [|l]; measures; [lia|]. destruct i_tok0 as [I1 I2]. split; [lia|].
    intros El. specialize (I2 El). lia.
  - measures. exact i_ord0.
  - measures. exact i_act0.
  - measures. eapply Permutation_trans; [exact i_drp0|].
    rewrite <- !app_assoc. apply Permutation_app_head. simpl.
    apply Permutation_sym. apply Permutation_middle.
  - intros R. destruct (i_ref0 R) as [A B]. split; [exact A|]. measures. lia.
Qed.
Theorem inv_step s e s' : Inv s -> step s e = Some s' -> Inv s'.
Proof.
  intros I H. destruct e.
  - eapply inv_load; eauto.
  - eapply inv_casfail; eauto.
  - eapply inv_push; eauto.
  - eapply inv_submit; eauto.
  - eapply inv_startcall; eauto.
  - eapply inv_startdrop; eauto.
  - eapply inv_xchgnull; eauto.
  - eapply inv_runbegin; eauto.
  - eapply inv_runend; eauto.
  - eapply inv_loadafter; eauto.
  - eapply inv_casidleok; eauto.
  - eapply inv_casfail_idle; eauto.
  - eapply inv_resubmit; eauto.
  - eapply inv_xchgidle; eauto.
  - eapply inv_dropjob; eauto.
  - eapply inv_dropdone; eauto.
Qed.

Theorem inv_run tr : forall s s', Inv s -> run s tr = Some s' -> Inv s'.
Proof.
  induction tr as [|e tr IH]; simpl; intros s s' I H.
  - inversion H; subst; exact I.
  - destruct (step s e) as [s1|] eqn:E; [|discriminate]. eapply IH; [|exact H]. eapply inv_step; eauto.
Qed.

Theorem inv_reach n tr s : run (init n) tr = Some s -> Inv s.
Proof. apply inv_run. apply inv_init. Qed.

(* ---- consequences, in the terms of the property -------------------------------------------------- *)

(* (c) no two jobs overlap; no two batches overlap *)

Lemma le_toks (f : act -> nat) l : (forall a, f a <= tok a) -> sumf f l <= toks l.
Proof.
  intros Hf. induction l as [|x l IH]; [apply Nat.le_refl|]. unfold toks in *. rewrite !sumf_cons.
  specialize (Hf x). lia.
Qed.

Lemma length_curs l : length (curs l) <= toks l.
Proof.
  induction l as [|x l IH]; [apply Nat.le_refl|]. unfold curs, toks in *. simpl. rewrite app_length, sumf_cons.
  destruct x; simpl; lia.
Qed.

Lemma one_job_at_a_time s : Inv s -> length (active s) <= 1.
Proof.
  intros I. rewrite (i_act s I). pose proof (length_curs (acts s)). pose proof (tokens_le1 s I). lia.
Qed.

Lemma one_batch_at_a_time s : Inv s -> sumf incall (acts s) <= 1.
Proof.
  intros I. pose proof (tokens_le1 s I).
  assert (sumf incall (acts s) <= toks (acts s)) by (apply le_toks; intros []; simpl; lia). lia.
Qed.

(* the strand object itself is handed to the underlying executor at most once at a time: it is never queued twice,
   and never re-submitted while queued or while an activation runs (its intrusive next pointer is used by the
   underlying executor, e.g. by another strand) *)
Lemma single_submission s : Inv s -> must s + sumf handed (acts s) <= 1.
Proof.
  intros I. pose proof (tokens_le1 s I).
  assert (sumf handed (acts s) <= toks (acts s)) by (apply le_toks; intros []; simpl; lia). lia.
Qed.

(* (a) order *)
Lemma call_order_eq s : Inv s ->
  called s ++ todos (acts s) ++ rev (inbox (jobs s)) = filter (notin (droptaken s)) (pushed s).
Proof. intros I. exact (i_ord s I). Qed.

Lemma NoDup_prefix_filter (A B : list job) : NoDup (A ++ B) -> filter (fun j => memb j A) (A ++ B) = A.
Proof.
  intros N. destruct (NoDup_app_disj _ _ N) as (_ & _ & D).
  rewrite filter_app, (filter_all _ A), (filter_none _ B), app_nil_r; auto.
  - intros x Hx. apply memb_nIn. intros Hin. exact (D x Hin Hx).
  - intros x Hx. apply memb_In. exact Hx.
Qed.

(* the Call order is the push order restricted to the jobs that were Called *)
Lemma called_is_filtered_push_order s : Inv s ->
  called s = filter (fun j => memb j (called s)) (pushed s).
Proof.
  intros I. pose proof (i_ord s I) as H.
  assert (N : NoDup (called s ++ todos (acts s) ++ rev (inbox (jobs s)))).
  { rewrite H. apply NoDup_filter. exact (i_nd s I). }
  rewrite <- (NoDup_prefix_filter _ _ N) at 1. rewrite H.
  rewrite <- filter_andb. apply filter_ext_in. intros x Hx.
  destruct (memb x (called s)) eqn:E; [|apply andb_false_r].
  rewrite andb_true_r. apply memb_In in E.
  assert (Hf : In x (filter (notin (droptaken s)) (pushed s))) by (rewrite <- H; apply in_or_app; auto).
  apply filter_In in Hf. tauto.
Qed.


Lemma filter_split_at {A} (f : A -> bool) l l1 a r : filter f l = l1 ++ a :: r ->
  exists p q, l = p ++ a :: q /\ filter f p = l1 /\ filter f q = r.
Proof.
  revert l1. induction l as [|x l IH]; simpl; intros l1 H.
  - destruct l1; discriminate.
  - destruct (f x) eqn:F.
    + destruct l1 as [|y l1]; simpl in H; inversion H as [[Hx Hr]]; clear H.
      * exists [], l. simpl. subst. auto.
      * destruct (IH _ Hr) as (p & q & E & Hp & Hq). exists (x :: p), q. simpl. rewrite F, Hp, E. subst. auto.
    + destruct (IH _ H) as (p & q & E & Hp & Hq). exists (x :: p), q. simpl. rewrite F, E. auto.
Qed.

Lemma before_filter (f : job -> bool) l a b : before (filter f l) a b -> before l a b.
Proof.
  intros (l1 & l2 & l3 & H). apply filter_split_at in H. destruct H as (p & q & -> & _ & Hq).
  apply filter_split_at in Hq. destruct Hq as (p' & q' & -> & _ & _).
  exists p, p', q'. reflexivity.
Qed.

Lemma call_order s a b : Inv s -> before (called s) a b -> before (pushed s) a b.
Proof. intros I H. rewrite (called_is_filtered_push_order s I) in H. eapply before_filter; eauto. Qed.

Lemma split_unique (b : job) l1 l2 l1' l2' : NoDup (l1 ++ b :: l2) -> l1 ++ b :: l2 = l1' ++ b :: l2' ->
  l1 = l1' /\ l2 = l2'.
Proof.
  revert l1'. induction l1 as [|x l1 IH]; intros l1' N E.
  - destruct l1' as [|y l1']; simpl in *.
    + inversion E; auto.
    + exfalso. inversion E; subst. inversion N as [|? ? Hn Hd]; subst. apply Hn. apply in_or_app. right. left. reflexivity.
  - destruct l1' as [|y l1']; simpl in *.
    + exfalso. inversion E; subst. inversion N as [|? ? Hn Hd]; subst. apply Hn. apply in_or_app. right. left. reflexivity.
    + inversion E; subst. inversion N as [|? ? Hn Hd]; subst. destruct (IH _ Hd H1) as [-> ->]. auto.
Qed.

(* nothing is skipped: when b's Call has begun, everything pushed before b has been Called before b or was taken by a
   Drop activation *)
Lemma no_skip s a b : Inv s -> In b (called s) -> before (pushed s) a b ->
  before (called s) a b \/ In a (droptaken s).
Proof.
  intros I Hb (l1 & l2 & l3 & Hp).
  destruct (memb a (droptaken s)) eqn:Ed; [right; apply memb_In; exact Ed|left].
  pose proof (i_ord s I) as H.
  assert (N : NoDup (filter (notin (droptaken s)) (pushed s))) by (apply NoDup_filter; exact (i_nd s I)).
  assert (Hnb : notin (droptaken s) b = true).
  { assert (Hf : In b (filter (notin (droptaken s)) (pushed s))).
    { rewrite <- H. apply in_or_app. auto. }
    apply filter_In in Hf. tauto. }
  rewrite Hp in H, N. rewrite filter_app in H, N. simpl in H, N. unfold notin at 2 in H. unfold notin at 2 in N.
  rewrite Ed in H, N. simpl in H, N. rewrite filter_app in H, N. simpl in H, N. rewrite Hnb in H, N.
  apply in_split in Hb. destruct Hb as (c1 & c2 & Hc). rewrite Hc in H. rewrite <- app_assoc in H. simpl in H.
  set (X := filter (notin (droptaken s)) l1) in *. set (Y := filter (notin (droptaken s)) l2) in *.
  set (Z := filter (notin (droptaken s)) l3) in *.
  replace (X ++ a :: Y ++ b :: Z) with ((X ++ a :: Y) ++ b :: Z) in H, N by (rewrite <- app_assoc; reflexivity).
  rewrite <- H in N. destruct (split_unique _ _ _ _ _ N H) as [E1 E2].
  rewrite Hc, E1. rewrite <- app_assoc. simpl. eexists _, _, _. reflexivity.
Qed.
(* per-submitter program order *)
Lemma sorted_seq a n : StronglySorted lt (seq a n).
Proof.
  revert a. induction n as [|n IH]; intros a; simpl; constructor; [apply IH|].
  apply Forall_forall. intros x Hx. apply in_seq in Hx. lia.
Qed.

Lemma sorted_map_filter (g : job -> bool) (l : list job) :
  StronglySorted lt (map snd l) -> StronglySorted lt (map snd (filter g l)).
Proof.
  induction l as [|x l IH]; simpl; intros H; [constructor|].
  inversion H as [|? ? Hs Hf]; subst. destruct (g x); simpl; [|apply IH; exact Hs].
  constructor; [apply IH; exact Hs|].
  rewrite Forall_forall in *. intros y Hy. apply Hf. apply in_map_iff in Hy. destruct Hy as (z & <- & Hz).
  apply in_map. apply filter_In in Hz. tauto.
Qed.

Lemma filter_comm {A} (f g : A -> bool) l : filter f (filter g l) = filter g (filter f l).
Proof. rewrite <- !filter_andb. apply filter_ext. intros x. apply andb_comm. Qed.

Lemma per_submitter_order s t : Inv s ->
  StronglySorted lt (map snd (filter (fun j => Nat.eqb (fst j) t) (called s))).
Proof.
  intros I. rewrite (called_is_filtered_push_order s I). rewrite filter_comm.
  apply sorted_map_filter. rewrite (i_seq s I t). apply sorted_seq.
Qed.

Lemma per_submitter_push_order s t : Inv s ->
  map snd (filter (fun j => Nat.eqb (fst j) t) (pushed s)) = seq 0 (nseq_of s t).
Proof. intros I. exact (i_seq s I t). Qed.

(* (b) none lost, none twice *)
Lemma filter_partition {A} (f : A -> bool) l : Permutation l (filter f l ++ filter (fun x => negb (f x)) l).
Proof.
  induction l as [|x l IH]; simpl; [constructor|].
  destruct (f x); simpl.
  - constructor. exact IH.
  - apply Permutation_cons_app. exact IH.
Qed.

Lemma at_most_once s : Inv s ->
  NoDup (called s ++ dropped s) /\ incl (called s ++ dropped s) (pushed s) /\
  (forall j, In j (dropped s) -> In j (droptaken s)).
Proof.
  intros I. pose proof (i_ord s I) as H.
  assert (N : NoDup (called s ++ todos (acts s) ++ rev (inbox (jobs s)))).
  { rewrite H. apply NoDup_filter. exact (i_nd s I). }
  assert (Hd : forall j, In j (dropped s) -> In j (droptaken s)).
  { intros j Hj. eapply Permutation_in; [apply Permutation_sym; exact (i_drp s I)|]. apply in_or_app. auto. }
  assert (Nd : NoDup (dropped s)).
  { assert (N2 : NoDup (dropped s ++ dbatches (acts s))).
    { eapply Permutation_NoDup; [exact (i_drp s I)|exact (i_ndd s I)]. }
    apply NoDup_app_disj in N2. tauto. }
  assert (Hc : forall j, In j (called s) -> In j (pushed s) /\ ~ In j (droptaken s)).
  { intros j Hj. assert (Hf : In j (filter (notin (droptaken s)) (pushed s))) by (rewrite <- H; apply in_or_app; auto).
    apply filter_In in Hf. destruct Hf as [Hf1 Hf2]. split; [exact Hf1|].
    unfold notin in Hf2. apply negb_true_iff in Hf2. apply memb_nIn in Hf2. exact Hf2. }
  split; [|split; [|exact Hd]].
  - apply NoDup_app_intro; auto.
    + apply NoDup_app_disj in N. tauto.
    + intros x Hx Hx2. apply Hc in Hx. apply Hd in Hx2. tauto.
  - intros x Hx. apply in_app_or in Hx. destruct Hx as [Hx|Hx]; [apply Hc; exact Hx|].
    apply (i_inc s I). apply Hd. exact Hx.
Qed.

Lemma idle_subs_no_must l : forallb sub_idle l = true -> sumf ismust l = 0.
Proof.
  induction l as [|x l IH]; simpl; intros H; [reflexivity|]. apply andb_true_iff in H. destruct H as [Hx Hl].
  rewrite sumf_cons, (IH Hl). unfold sub_idle in Hx. unfold ismust. destruct (pc x); try discriminate. reflexivity.
Qed.

Lemma quiescent_idle s : Inv s -> quiescent s = true ->
  jobs s = Idle /\ acts s = [] /\ called s = filter (notin (droptaken s)) (pushed s) /\
  Permutation (droptaken s) (dropped s).
Proof.
  intros I Q. unfold quiescent in Q. apply andb_true_iff in Q. destruct Q as [Qs Qa].
  destruct (acts s) eqn:Ea; [|discriminate].
  pose proof (i_tok s I) as T. pose proof (i_ord s I) as O. pose proof (i_drp s I) as D.
  rewrite Ea in *. unfold must in T. rewrite (idle_subs_no_must _ Qs) in T.
  destruct (jobs s) as [|l]; [|destruct T as [T _]; simpl in T; discriminate].
  simpl in *. rewrite !app_nil_r in *. auto.
Qed.

Lemma none_lost s : Inv s -> quiescent s = true ->
  Permutation (pushed s) (called s ++ dropped s) /\ NoDup (called s ++ dropped s).
Proof.
  intros I Q. destruct (quiescent_idle s I Q) as (_ & _ & Hc & Hd).
  split; [|apply (at_most_once s I)].
  eapply Permutation_trans; [apply (filter_partition (notin (droptaken s)))|].
  rewrite <- Hc. apply Permutation_app_head.
  eapply Permutation_trans; [|exact Hd].
  apply NoDup_Permutation.
  - apply NoDup_filter. exact (i_nd s I).
  - exact (i_ndd s I).
  - intros x. rewrite filter_In. unfold notin. rewrite negb_involutive, memb_In. split; [tauto|].
    intros Hx. split; [apply (i_inc s I); exact Hx|exact Hx].
Qed.

Lemma dropped_only_if_refused s : Inv s -> refused s = 0 -> dropped s = [] /\ droptaken s = [].
Proof.
  intros I R. destruct (i_ref s I R) as [A _]. split; [|exact A].
  pose proof (i_drp s I) as D. rewrite A in D. apply Permutation_nil in D.
  apply app_eq_nil in D. tauto.
Qed.

Lemma all_called_in_order_if_never_refused s : Inv s -> quiescent s = true -> refused s = 0 ->
  called s = pushed s /\ dropped s = [].
Proof.
  intros I Q R. destruct (dropped_only_if_refused s I R) as [Hd Ht].
  destruct (quiescent_idle s I Q) as (_ & _ & Hc & _). split; [|exact Hd].
  rewrite Hc, Ht. apply filter_all. intros x _. reflexivity.
Qed.

(* (d) never blocks *)
Lemma sumf_in_ge {A} (f : A -> nat) l x : In x l -> f x <= sumf f l.
Proof.
  induction l as [|y l IH]; simpl; intros H; [contradiction|]. rewrite sumf_cons.
  destruct H as [->|H]; [lia|specialize (IH H); lia].
Qed.

Lemma move_enabled p s x y : In x (acts s) -> p x = Some y -> move p s <> None.
Proof.
  intros Hin Hp. unfold move. pose proof (upd_first_some p (acts s) x y Hin Hp).
  destruct (upd_first p (acts s)); [discriminate|contradiction].
Qed.

Lemma token_holder_nonempty s a : Inv s -> In a (acts s) -> nnc a = 1 -> exists j l, jobs s = L (j :: l).
Proof.
  intros I Hin Hn. pose proof (i_tok s I) as T.
  pose proof (sumf_in_ge nnc _ _ Hin) as H1. pose proof (sumf_in_ge tok _ _ Hin) as H2.
  assert (tok a = 1) by (destruct a; simpl in *; try discriminate; reflexivity).
  fold (toks (acts s)) in H2. fold (nns (acts s)) in H1.
  destruct (jobs s) as [|[|j l]]; [lia| |eauto]. destruct T as [_ T]. specialize (T eq_refl). lia.
Qed.

Lemma activation_never_blocks s a e : Inv s -> In a (acts s) -> act_ev s a = Some e -> step s e <> None.
Proof.
  intros I Hin He. destruct a as [| |[|j t]|j t| | | |[|j t]]; simpl in He; inversion He; subst; clear He; simpl.
  - (* ARunStart *)
    destruct (token_holder_nonempty s _ I Hin eq_refl) as (j & l & J). rewrite ptr_eqb_refl, J.
    eapply (move_enabled _ (set_jobs (L []) s)); [exact Hin|reflexivity].
  - (* batch done *) rewrite ptr_eqb_refl. eapply move_enabled; [exact Hin|reflexivity].
  - (* next job *)
    destruct (move (begin_job j) s) eqn:M; [discriminate|]. exfalso.
    eapply move_enabled; [exact Hin| |exact M]. simpl. rewrite job_eqb_refl. reflexivity.
  - (* job returns *)
    destruct (move (end_job j) s) eqn:M; [discriminate|]. exfalso.
    eapply move_enabled; [exact Hin| |exact M]. simpl. rewrite job_eqb_refl. reflexivity.
  - (* release CAS *)
    destruct (jobs s) as [|[|j l]] eqn:J; simpl; rewrite ?J; simpl.
    + eapply move_enabled; [exact Hin|reflexivity].
    + eapply (move_enabled _ (set_jobs Idle s)); [exact Hin|reflexivity].
    + rewrite job_eqb_refl. eapply move_enabled; [exact Hin|reflexivity].
  - eapply move_enabled; [exact Hin|reflexivity].
  - (* ADropStart *)
    destruct (token_holder_nonempty s _ I Hin eq_refl) as (j & l & J). rewrite ptr_eqb_refl, J.
    destruct (move (from_dropstart (ADropBatch (j :: l))) (set_jobs Idle s)) eqn:M; [discriminate|]. exfalso.
    eapply (move_enabled _ (set_jobs Idle s)); [exact Hin| |exact M]. reflexivity.
  - eapply move_enabled; [exact Hin|reflexivity].
  - destruct (move (drop_job j) s) eqn:M; [discriminate|]. exfalso.
    eapply move_enabled; [exact Hin| |exact M]. simpl. rewrite job_eqb_refl. reflexivity.
Qed.

Lemma submitter_never_blocks s t e : sub_ev s t = Some e -> step s e <> None.
Proof.
  unfold sub_ev. destruct (nth_error (subs s) t) as [sb|] eqn:N; [|discriminate].
  destruct (pc sb) as [|p|] eqn:P; try discriminate; intros H; inversion H; subst; clear H.
  - destruct (ptr_eqb p (head (jobs s))) eqn:E; simpl; rewrite N, P.
    + rewrite E, Nat.eqb_refl. discriminate.
    + rewrite ptr_eqb_refl. discriminate.
  - simpl. rewrite N, P. discriminate.
Qed.

(* a pending activation can always be started by the underlying executor *)
Lemma pending_can_start s : In APending (acts s) -> step s EStartCall <> None /\ step s EStartDrop <> None.
Proof.
  intros Hin. simpl. split.
  - eapply move_enabled; [exact Hin|reflexivity].
  - destruct (move (from_pending ADropStart) s) eqn:M; [discriminate|]. exfalso.
    eapply move_enabled; [exact Hin| |exact M]. reflexivity.
Qed.

(* no deadlock: unless everything has finished, some party has an enabled step *)
Lemma forallb_false_ex {A} (f : A -> bool) l : forallb f l = false -> exists n x, nth_error l n = Some x /\ f x = false.
Proof.
  induction l as [|x l IH]; simpl; intros H; [discriminate|].
  destruct (f x) eqn:F.
  - destruct (IH H) as (n & y & Hn & Hy). exists (S n), y. auto.
  - exists 0, x. auto.
Qed.

Lemma progress s : Inv s -> quiescent s = false -> exists e s', step s e = Some s'.
Proof.
  intros I Q. unfold quiescent in Q. apply andb_false_iff in Q. destruct Q as [Q|Q].
  - apply forallb_false_ex in Q. destruct Q as (t & sb & Hn & Hf).
    assert (exists e, sub_ev s t = Some e) as [e He].
    { unfold sub_ev. rewrite Hn. unfold sub_idle in Hf. destruct (pc sb); [discriminate|eauto|eauto]. }
    pose proof (submitter_never_blocks s t e He). destruct (step s e) eqn:S; [eauto|contradiction].
  - destruct (acts s) as [|a l] eqn:Ea; [discriminate|].
    assert (Hin : In a (acts s)) by (rewrite Ea; left; reflexivity).
    destruct (act_ev s a) as [e|] eqn:He.
    + pose proof (activation_never_blocks s a e I Hin He). destruct (step s e) eqn:S; [eauto|contradiction].
    + destruct a as [| |[|? ?]|? ?| | | |[|? ?]]; simpl in He; try discriminate.
      destruct (pending_can_start s Hin) as [H _]. destruct (step s EStartCall) eqn:S; [eauto|contradiction].
Qed.
(* ---- (e) the strand offers the executor interface it requires ---------------------------------------- *)
Definition cnt (j : job) (l : list job) : nat := sumf (fun x => if job_eqb x j then 1 else 0) l.
Lemma cnt_app j l1 l2 : cnt j (l1 ++ l2) = cnt j l1 + cnt j l2.
Proof. apply sumf_app. Qed.
Lemma cnt_cons j x l : cnt j (x :: l) = (if job_eqb x j then 1 else 0) + cnt j l.
Proof. reflexivity. Qed.
Lemma cnt_nil j : cnt j [] = 0.
Proof. reflexivity. Qed.
Lemma cnt_rev j l : cnt j (rev l) = cnt j l.
Proof. induction l as [|x l IH]; simpl; [reflexivity|]. rewrite cnt_app, cnt_cons, cnt_cons, cnt_nil, IH. lia. Qed.
Lemma cnt_memb j l : memb j l = true <-> cnt j l > 0.
Proof.
  induction l as [|x l IH]; simpl; [rewrite cnt_nil; split; [discriminate|lia]|].
  rewrite cnt_cons. unfold memb in *. simpl. rewrite orb_true_iff, IH.
  assert (E : job_eqb j x = job_eqb x j).
  { destruct (job_eqb j x) eqn:A, (job_eqb x j) eqn:B; auto.
    - apply job_eqb_eq in A. subst. rewrite job_eqb_refl in B. discriminate.
    - apply job_eqb_eq in B. subst. rewrite job_eqb_refl in A. discriminate. }
  rewrite E. destruct (job_eqb x j); split; intros H.
  - lia.
  - left. reflexivity.
  - destruct H as [H|H]; [discriminate|lia].
  - right. lia.
Qed.
Lemma cnt_remove_same j l : cnt j (remove_job j l) = cnt j l - 1.
Proof.
  induction l as [|x l IH]; simpl; [reflexivity|]. destruct (job_eqb x j) eqn:E.
  - rewrite cnt_cons, E. lia.
  - rewrite !cnt_cons, E, IH. lia.
Qed.
Lemma cnt_remove_other j k l : j <> k -> cnt k (remove_job j l) = cnt k l.
Proof.
  intros N. induction l as [|x l IH]; simpl; [reflexivity|]. destruct (job_eqb x j) eqn:E.
  - rewrite cnt_cons. apply job_eqb_eq in E. subst x.
    destruct (job_eqb j k) eqn:E2; [apply job_eqb_eq in E2; contradiction|reflexivity].
  - rewrite !cnt_cons, IH. reflexivity.
Qed.
Lemma cnt_zero_nil l : (forall j, cnt j l = 0) -> l = [].
Proof. destruct l as [|x l]; [reflexivity|]. intros H. specialize (H x). rewrite cnt_cons, job_eqb_refl in H. lia. Qed.
Lemma cnt_in j l : In j l -> cnt j l > 0.
Proof. intros H. apply cnt_memb. apply memb_In. exact H. Qed.

Record Sim (s : st) (x : xst) : Prop := {
  m_all : xall x = pushed s;
  m_pend : forall j, cnt j (xpend x) = cnt j (inbox (jobs s)) + cnt j (todos (acts s)) + cnt j (dbatches (acts s));
  m_run : xrunning x = active s;
  m_called : xcalled x = called s;
  m_dropped : xdropped x = dropped s
}.

Lemma sim_init n : Sim (init n) xinit.
Proof. constructor; reflexivity. Qed.

Ltac cnts := measures; repeat rewrite ?cnt_app, ?cnt_cons, ?cnt_nil, ?cnt_rev in *; simpl in *.

(* an activation's step that changes neither its todo nor its drop batch, nor any history *)
Lemma sim_move_same s x pre a y post :
  Sim s x -> acts s = pre ++ a :: post -> flat_map todo y = todo a -> flat_map dbatch y = dbatch a ->
  Sim (set_acts (pre ++ y ++ post) s) x.
Proof.
  intros S Ea Ht Hd. destruct S. rewrite Ea in *. constructor; simpl; auto.
  intros j. specialize (m_pend0 j). cnts. rewrite Ht, Hd. lia.
Qed.

Lemma sim_step s x e s' : Inv s -> Sim s x -> step s e = Some s' ->
  exists x', xrun x (upper e) = Some x' /\ Sim s' x'.
Proof.
  intros I S H. destruct e; simpl in H; simpl upper; simpl xrun.
  - (* ELoad *) destruct (nth_error (subs s) t) as [sb|]; [|discriminate]. destruct (pc sb); try discriminate.
    destruct (ptr_eqb v (head (jobs s))); [|discriminate]. inversion H; subst. exists x. split; [reflexivity|].
    destruct S; constructor; auto.
  - (* ECasFail *) destruct (nth_error (subs s) t) as [sb|]; [|discriminate]. destruct (pc sb); try discriminate.
    destruct (ptr_eqb v (head (jobs s))); [|discriminate]. inversion H; subst. exists x. split; [reflexivity|].
    destruct S; constructor; auto.
  - (* EPush *) destruct (nth_error (subs s) t) as [sb|] eqn:N; [|discriminate].
    destruct (pc sb) as [|p|]; try discriminate. destruct (ptr_eqb p (head (jobs s))); [|discriminate].
    destruct (Nat.eqb n (nseq sb)) eqn:En; [|discriminate]. apply Nat.eqb_eq in En. subst n.
    simpl in H. inversion H; subst s'; clear H.
    assert (Hfresh : memb (t, nseq sb) (xall x) = false).
    { apply memb_nIn. rewrite (m_all s x S). intros Hin. pose proof (in_pushed_lt _ _ _ I Hin) as Hlt.
      unfold nseq_of in Hlt. rewrite N in Hlt. lia. }
    rewrite Hfresh. eexists. split; [reflexivity|]. destruct S. constructor; simpl; auto.
    + rewrite m_all0. reflexivity.
    + intros j. specialize (m_pend0 j). cnts. lia.
  - (* ESubmit *) destruct (nth_error (subs s) t) as [sb|]; [|discriminate]. destruct (pc sb); try discriminate.
    inversion H; subst. exists x. split; [reflexivity|]. destruct S; constructor; auto.
  - (* EStartCall *) dmove H. inversion H; subst; clear H. destruct x0; simpl in Hp; try discriminate.
    inversion Hp; subst. exists x. split; [reflexivity|]. eapply sim_move_same; eauto.
  - (* EStartDrop *) destruct (move (from_pending ADropStart) s) as [s1|] eqn:M; [|discriminate].
    inversion H; subst; clear H. dmove M. inversion M; subst; clear M. destruct x0; simpl in Hp; try discriminate.
    inversion Hp; subst. exists x. split; [reflexivity|].
    pose proof (sim_move_same s x pre APending [ADropStart] post S Ea eq_refl eq_refl) as S'.
    destruct S'. constructor; auto.
  - (* EXchgNull *) destruct (ptr_eqb old (head (jobs s))); [|discriminate].
    destruct (jobs s) as [|[|j l]] eqn:J; try discriminate. dmove H. simpl in Ea. inversion H; subst; clear H.
    destruct x0; simpl in Hp; try discriminate. inversion Hp; subst; clear Hp.
    exists x. split; [reflexivity|]. destruct S. rewrite Ea, J in *. constructor; simpl; auto.
    intros k. specialize (m_pend0 k). cnts. lia.
  - (* ERunBegin *) destruct (move (begin_job j) s) as [s1|] eqn:M; [|discriminate].
    inversion H; subst; clear H. dmove M. inversion M; subst; clear M.
    destruct x0 as [| |[|x0 t]| | | | |]; simpl in Hp; try discriminate.
    destruct (job_eqb x0 j) eqn:E; [|discriminate]. apply job_eqb_eq in E. subst x0. inversion Hp; subst; clear Hp.
    destruct S. rewrite Ea in *.
    assert (Hm : memb j (xpend x) = true).
    { apply cnt_memb. specialize (m_pend0 j). cnts. rewrite job_eqb_refl in m_pend0. lia. }
    rewrite Hm. eexists. split; [reflexivity|]. constructor; simpl; auto; try congruence.
    intros k. specialize (m_pend0 k). cnts. destruct (job_eqb j k) eqn:E.
    + apply job_eqb_eq in E. subst k. rewrite cnt_remove_same. lia.
    + rewrite cnt_remove_other; [lia|]. apply job_eqb_neq. exact E.
  - (* ERunEnd *) destruct (move (end_job j) s) as [s1|] eqn:M; [|discriminate].
    inversion H; subst; clear H. dmove M. inversion M; subst; clear M.
    destruct x0 as [| | |x0 t| | | |]; simpl in Hp; try discriminate.
    destruct (job_eqb x0 j) eqn:E; [|discriminate]. apply job_eqb_eq in E. subst x0. inversion Hp; subst; clear Hp.
    assert (Hm : memb j (xrunning x) = true).
    { apply memb_In. rewrite (m_run s x S), (i_act s I), Ea. unfold curs. rewrite flat_map_app. apply in_or_app.
      right. simpl. auto. }
    rewrite Hm. eexists. split; [reflexivity|].
    pose proof (sim_move_same s x pre (ARunning j t) [ARunBatch t] post S Ea (app_nil_r _) eq_refl) as S'.
    destruct S'. constructor; simpl in *; auto. congruence.
  - (* ELoadAfter *) destruct (ptr_eqb v (head (jobs s))); [|discriminate]. dmove H. inversion H; subst; clear H.
    destruct x0 as [| |[|? ?]| | | | |]; simpl in Hp; try discriminate. inversion Hp; subst.
    exists x. split; [reflexivity|]. eapply sim_move_same; eauto; destruct v; reflexivity.
  - (* ECasIdleOk *) destruct (jobs s) as [|[|j l]] eqn:J; try discriminate. dmove H. simpl in Ea.
    inversion H; subst; clear H. destruct x0; simpl in Hp; try discriminate. inversion Hp; subst.
    exists x. split; [reflexivity|]. destruct S. rewrite Ea, J in *. constructor; simpl; auto.
    intros k. specialize (m_pend0 k). cnts. lia.
  - (* ECasIdleFail *) destruct (ptr_eqb v (head (jobs s))); [|discriminate].
    assert (H' : move (from_runcas [AResubmit]) s = Some s') by (destruct (jobs s) as [|[|? ?]]; auto; discriminate).
    clear H. dmove H'. inversion H'; subst; clear H'. destruct x0; simpl in Hp; try discriminate. inversion Hp; subst.
    exists x. split; [reflexivity|]. eapply sim_move_same; eauto.
  - (* EResubmit *) dmove H. inversion H; subst; clear H. destruct x0; simpl in Hp; try discriminate.
    inversion Hp; subst. exists x. split; [reflexivity|]. eapply sim_move_same; eauto.
  - (* EXchgIdle *) destruct (ptr_eqb old (head (jobs s))); [|discriminate].
    destruct (jobs s) as [|[|j l]] eqn:J; try discriminate.
    destruct (move (from_dropstart (ADropBatch (j :: l))) (set_jobs Idle s)) as [s1|] eqn:M; [|discriminate].
    inversion H; subst; clear H. dmove M. simpl in Ea. inversion M; subst; clear M.
    destruct x0; simpl in Hp; try discriminate. inversion Hp; subst; clear Hp.
    exists x. split; [reflexivity|]. destruct S. rewrite Ea, J in *. constructor; simpl; auto.
    intros k. specialize (m_pend0 k). cnts. lia.
  - (* EDropJob *) destruct (move (drop_job j) s) as [s1|] eqn:M; [|discriminate].
    inversion H; subst; clear H. dmove M. inversion M; subst; clear M.
    destruct x0 as [| | | | | | |[|x0 t]]; simpl in Hp; try discriminate.
    destruct (job_eqb x0 j) eqn:E; [|discriminate]. apply job_eqb_eq in E. subst x0. inversion Hp; subst; clear Hp.
    destruct S. rewrite Ea in *.
    assert (Hm : memb j (xpend x) = true).
    { apply cnt_memb. specialize (m_pend0 j). cnts. rewrite job_eqb_refl in m_pend0. lia. }
    rewrite Hm. eexists. split; [reflexivity|]. constructor; simpl; auto; try congruence.
    intros k. specialize (m_pend0 k). cnts. destruct (job_eqb j k) eqn:E.
    + apply job_eqb_eq in E. subst k. rewrite cnt_remove_same. lia.
    + rewrite cnt_remove_other; [lia|]. apply job_eqb_neq. exact E.
  - (* EDropDone *) dmove H. inversion H; subst; clear H.
    destruct x0 as [| | | | | | |[|? ?]]; simpl in Hp; try discriminate. inversion Hp; subst.
    exists x. split; [reflexivity|]. eapply sim_move_same; eauto.
Qed.

Lemma xrun_app x t1 t2 : xrun x (t1 ++ t2) = match xrun x t1 with Some x' => xrun x' t2 | None => None end.
Proof. revert x. induction t1 as [|e t1 IH]; intros x; simpl; [reflexivity|]. destruct (xstep x e); auto. Qed.

Lemma sim_run tr : forall s x s', Inv s -> Sim s x -> run s tr = Some s' ->
  exists x', xrun x (flat_map upper tr) = Some x' /\ Sim s' x'.
Proof.
  induction tr as [|e tr IH]; simpl; intros s x s' I S H.
  - inversion H; subst. eauto.
  - destruct (step s e) as [s1|] eqn:E; [|discriminate].
    destruct (sim_step s x e s1 I S E) as (x1 & X1 & S1).
    destruct (IH s1 x1 s' (inv_step _ _ _ I E) S1 H) as (x' & X' & S').
    exists x'. rewrite xrun_app, X1. auto.
Qed.

(* every run of the strand, seen through Submit/Call/Drop of its jobs, is a run of the executor interface; and when the
   strand is quiescent nothing is left pending or running *)
Theorem strand_refines_executor n tr s : run (init n) tr = Some s ->
  exists x, xrun xinit (flat_map upper tr) = Some x /\
            xcalled x = called s /\ xdropped x = dropped s /\ xall x = pushed s /\
            (quiescent s = true -> xcomplete x = true).
Proof.
  intros H. destruct (sim_run tr _ _ _ (inv_init n) (sim_init n) H) as (x & X & S).
  exists x. destruct S. repeat split; auto.
  intros Q. pose proof (inv_reach _ _ _ H) as I. destruct (quiescent_idle s I Q) as (J & A & _ & _).
  unfold xcomplete. rewrite m_run0, (i_act s I), A. simpl.
  rewrite (cnt_zero_nil (xpend x)); [reflexivity|]. intros j. rewrite m_pend0, J, A. reflexivity.
Qed.

(* ---- the statements of props/Properties_C07.v that combine several of the lemmas above -------------------- *)
Lemma program_order s t : Inv s ->
  map snd (filter (fun j => Nat.eqb (fst j) t) (pushed s)) = seq 0 (nseq_of s t) /\
  StronglySorted lt (map snd (filter (fun j => Nat.eqb (fst j) t) (called s))).
Proof. intros I. split; [apply per_submitter_push_order; exact I|apply per_submitter_order; exact I]. Qed.

Lemma none_lost_idle s : Inv s -> quiescent s = true ->
  Permutation (pushed s) (called s ++ dropped s) /\ NoDup (called s ++ dropped s) /\ jobs s = Idle.
Proof.
  intros I Q. destruct (none_lost s I Q) as [P N]. destruct (quiescent_idle s I Q) as [J _]. auto.
Qed.

Lemma drop_only_if_refused s : Inv s -> refused s = 0 ->
  dropped s = [] /\ (quiescent s = true -> called s = pushed s).
Proof.
  intros I R. split.
  - exact (proj1 (dropped_only_if_refused s I R)).
  - intros Q. exact (proj1 (all_called_in_order_if_never_refused s I Q R)).
Qed.

(* ---- bounded work ------------------------------------------------------------------------------------- *)
Ltac pot := unfold potential, must in *; simpl in *;
  repeat rewrite ?sumf_app, ?sumf_cons, ?sumf_nil, ?app_length, ?rev_length in *; simpl in *;
  repeat rewrite ?sumf_app, ?sumf_cons, ?sumf_nil, ?app_length, ?rev_length in *; simpl in *.

Lemma work_step s e s' : step s e = Some s' ->
  own_step e + potential s' + 18 * length (pushed s) <= potential s + 18 * length (pushed s').
Proof.
  intros H. destruct e; simpl in H; simpl own_step.
  - destruct (nth_error (subs s) t) as [sb|] eqn:N; [|discriminate]. destruct (pc sb) eqn:P; try discriminate.
    destruct (ptr_eqb v (head (jobs s))); [|discriminate]. inversion H; subst; clear H.
    pose proof (sumf_set_nth ismust _ _ {| nseq := nseq sb; pc := SLoop v |} _ N) as HM.
    assert (Hold : ismust sb = match pc sb with SMust => 1 | _ => 0 end) by reflexivity.
    rewrite P in Hold. rewrite Hold in HM. cbn [ismust pc] in HM. pot. lia.
  - destruct (nth_error (subs s) t) as [sb|] eqn:N; [|discriminate]. destruct (pc sb) eqn:P; try discriminate.
    destruct (ptr_eqb v (head (jobs s))); [|discriminate]. inversion H; subst; clear H.
    pose proof (sumf_set_nth ismust _ _ {| nseq := nseq sb; pc := SLoop v |} _ N) as HM.
    assert (Hold : ismust sb = match pc sb with SMust => 1 | _ => 0 end) by reflexivity.
    rewrite P in Hold. rewrite Hold in HM. cbn [ismust pc] in HM. pot. lia.
  - destruct (nth_error (subs s) t) as [sb|] eqn:N; [|discriminate]. destruct (pc sb) as [|p|] eqn:P; try discriminate.
    destruct (ptr_eqb p (head (jobs s)) && Nat.eqb n (nseq sb)); [|discriminate]. inversion H; subst; clear H.
    pose proof (sumf_set_nth ismust _ _ {| nseq := S (nseq sb); pc := match p with PIdle => SMust | _ => SIdle end |} _ N) as HM.
    assert (Hold : ismust sb = match pc sb with SMust => 1 | _ => 0 end) by reflexivity.
    rewrite P in Hold. rewrite Hold in HM. cbn [ismust pc] in HM. pot. destruct p; cbn [ismust pc] in HM; lia.
  - destruct (nth_error (subs s) t) as [sb|] eqn:N; [|discriminate]. destruct (pc sb) eqn:P; try discriminate.
    inversion H; subst; clear H.
    pose proof (sumf_set_nth ismust _ _ {| nseq := nseq sb; pc := SIdle |} _ N) as HM.
    assert (Hold : ismust sb = match pc sb with SMust => 1 | _ => 0 end) by reflexivity.
    rewrite P in Hold. rewrite Hold in HM. cbn [ismust pc] in HM. pot. lia.
  - dmove H. inversion H; subst; clear H. destruct x; simpl in Hp; try discriminate. inversion Hp; subst.
    unfold potential. simpl. rewrite Ea. pot. lia.
  - destruct (move (from_pending ADropStart) s) as [s1|] eqn:M; [|discriminate]. inversion H; subst; clear H.
    dmove M. inversion M; subst; clear M. destruct x; simpl in Hp; try discriminate. inversion Hp; subst.
    unfold potential. simpl. rewrite Ea. pot. lia.
  - destruct (ptr_eqb old (head (jobs s))); [|discriminate]. destruct (jobs s) as [|[|j l]] eqn:J; try discriminate.
    dmove H. simpl in Ea. inversion H; subst; clear H. destruct x; simpl in Hp; try discriminate. inversion Hp; subst.
    unfold potential. simpl. rewrite Ea, J. pot. lia.
  - destruct (move (begin_job j) s) as [s1|] eqn:M; [|discriminate]. inversion H; subst; clear H.
    dmove M. inversion M; subst; clear M. destruct x as [| |[|x t]| | | | |]; simpl in Hp; try discriminate.
    destruct (job_eqb x j); [|discriminate]. inversion Hp; subst. unfold potential. simpl. rewrite Ea. pot. lia.
  - destruct (move (end_job j) s) as [s1|] eqn:M; [|discriminate]. inversion H; subst; clear H.
    dmove M. inversion M; subst; clear M. destruct x as [| | |x t| | | |]; simpl in Hp; try discriminate.
    destruct (job_eqb x j); [|discriminate]. inversion Hp; subst. unfold potential. simpl. rewrite Ea. pot. lia.
  - destruct (ptr_eqb v (head (jobs s))); [|discriminate]. dmove H. inversion H; subst; clear H.
    destruct x as [| |[|? ?]| | | | |]; simpl in Hp; try discriminate. inversion Hp; subst.
    unfold potential. simpl. rewrite Ea. pot. destruct v; simpl; lia.
  - destruct (jobs s) as [|[|j l]] eqn:J; try discriminate. dmove H. simpl in Ea. inversion H; subst; clear H.
    destruct x; simpl in Hp; try discriminate. inversion Hp; subst. unfold potential. simpl. rewrite Ea, J. pot. lia.
  - destruct (ptr_eqb v (head (jobs s))); [|discriminate].
    assert (H' : move (from_runcas [AResubmit]) s = Some s') by (destruct (jobs s) as [|[|? ?]]; auto; discriminate).
    clear H. dmove H'. inversion H'; subst; clear H'. destruct x; simpl in Hp; try discriminate. inversion Hp; subst.
    unfold potential. simpl. rewrite Ea. pot. lia.
  - dmove H. inversion H; subst; clear H. destruct x; simpl in Hp; try discriminate. inversion Hp; subst.
    unfold potential. simpl. rewrite Ea. pot. lia.
  - destruct (ptr_eqb old (head (jobs s))); [|discriminate]. destruct (jobs s) as [|[|j l]] eqn:J; try discriminate.
    destruct (move (from_dropstart (ADropBatch (j :: l))) (set_jobs Idle s)) as [s1|] eqn:M; [|discriminate].
    inversion H; subst; clear H. dmove M. simpl in Ea. inversion M; subst; clear M.
    destruct x; simpl in Hp; try discriminate. inversion Hp; subst. unfold potential. simpl. rewrite Ea, J. pot. lia.
  - destruct (move (drop_job j) s) as [s1|] eqn:M; [|discriminate]. inversion H; subst; clear H.
    dmove M. inversion M; subst; clear M. destruct x as [| | | | | | |[|x t]]; simpl in Hp; try discriminate.
    destruct (job_eqb x j); [|discriminate]. inversion Hp; subst. unfold potential. simpl. rewrite Ea. pot. lia.
  - dmove H. inversion H; subst; clear H. destruct x as [| | | | | | |[|? ?]]; simpl in Hp; try discriminate.
    inversion Hp; subst. unfold potential. simpl. rewrite Ea. pot. lia.
Qed.

Lemma work_run tr : forall s s', run s tr = Some s' ->
  own_steps tr + potential s' + 18 * length (pushed s) <= potential s + 18 * length (pushed s').
Proof.
  induction tr as [|e tr IH]; simpl; intros s s' H.
  - inversion H; subst. unfold own_steps, sumf. simpl. lia.
  - destruct (step s e) as [s1|] eqn:E; [|discriminate]. specialize (IH _ _ H).
    pose proof (work_step _ _ _ E). unfold own_steps in *. rewrite sumf_cons. lia.
Qed.

Theorem bounded_work n tr s : run (init n) tr = Some s -> own_steps tr + potential s <= 18 * length (pushed s).
Proof.
  intros H. pose proof (work_run _ _ _ H) as W.
  assert (P0 : potential (init n) = 0).
  { unfold potential, must. simpl. unfold sumf. simpl.
    assert (E : list_sum (map ismust (repeat {| nseq := 0; pc := SIdle |} n)) = 0) by (clear; induction n; simpl; auto).
    rewrite E. reflexivity. }
  rewrite P0 in W. simpl in W. lia.
Qed.
