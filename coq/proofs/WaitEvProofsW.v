(* Preservation of WaitEvProofs.Inv by the waiter's events (registration, SubEqual, Make, the two waits, the reset
   loop, return).  Definitions: WaitEvProofs.v; producers' events: WaitEvProofsP.v; the invariant theorem and its
   consequences: WaitEvProofsC.v. *)
From Coq Require Import List Arith Bool Lia.
Import ListNotations.
From YV Require model.Handoff proofs.HandoffProofs.
From YV Require Import model.WaitEv proofs.WaitEvProofs.

(* ---- preservation: the waiter ------------------------------------------------------------------- *)

Ltac glob_w P G Ewp :=
  match type of P with PW ?s => pose proof (reg_split_s s P) as Hsplit; pose proof (count_le_length isA (futs s)) as HleA;
     pose proof (count_le_length freg (futs s)) as HleR; pose proof (count_le_length frst (futs s)) as HleZ; bounds s end;
  unf; simpl;
  destruct G as (G1&G2&G3&G4&G5&G6&G7&G8&G9&G10&G11&G12&G13&G14&G15&GK);
  rewrite Ewp in *; simpl in *; dests.

Ltac arith_c :=
  repeat match goal with
         | |- context [Nat.ltb ?a ?b] => destruct (Nat.ltb_spec a b)
         | |- context [Nat.leb ?a ?b] => destruct (Nat.leb_spec a b)
         | |- context [Nat.eqb ?a ?b] => destruct (Nat.eqb_spec a b)
         end.

Ltac word_facts :=
  repeat match goal with
         | H : word_eqb _ _ = true |- _ => apply HandoffProofs.word_eqb_eq in H
         end.

(* positional facts: case analysis on the comparisons, arithmetic contradictions by lia *)
Ltac psolve :=
  unfold posb, cleanb in *; simpl in *; arith_b; simpl in *; try lia; try assumption; try discriminate; try reflexivity.

Lemma fok_ne_rw o f : fokb o f = true -> fw f <> WE -> freg f || word_eqb (fw f) WR = true.
Proof.
  unfold fokb. destruct f as [w p sl rg rs]; simpl. destruct w, rg, rs; simpl; intros; try reflexivity; try congruence.
  all: destruct p, sl; simpl in *; discriminate.
Qed.

Definition FOK (o : bool) (l : list fut) : Prop := forall j g, nth_error l j = Some g -> fokb o g = true.

Lemma clean_l o l : FOK o l -> count isA l = 0 -> count isH l = 0 -> count isL l + count isN l + count isU l = 0 ->
  forall j g, nth_error l j = Some g -> cleanb g = true.
Proof.
  intros F HA HH HS j g Eg. apply (clean_of_zero o g (F j g Eg)).
  - apply (count_zero _ _ HA j g Eg).
  - apply (count_zero _ _ HH j g Eg).
  - apply (count_zero isL l ltac:(lia) j g Eg).
  - apply (count_zero isN l ltac:(lia) j g Eg).
  - apply (count_zero isU l ltac:(lia) j g Eg).
Qed.

Lemma wr_l o l : FOK o l -> count isA l = 0 -> count frst l = 0 ->
  forall j g, nth_error l j = Some g -> freg g || word_eqb (fw g) WR = true -> word_eqb (fw g) WR = true.
Proof.
  intros F HA HZ j g Eg Hrw. apply (wr_of_zero o g (F j g Eg) Hrw).
  - apply (count_zero _ _ HA j g Eg).
  - apply (count_zero _ _ HZ j g Eg).
Qed.

Lemma pos_after_reg o l nn i wc' r :
  FOK o l -> length l = nn ->
  (forall j g, nth_error l j = Some g -> j <= i -> freg g || word_eqb (fw g) WR = true) ->
  (wc' = 0 -> count isA l = 0 /\ count isH l = 0 /\ count isL l + count isN l + count isU l = 0 /\ count frst l = 0) ->
  forall j g, nth_error l j = Some g ->
  posb (if Nat.ltb (S i) nn then WReg (S i) else if Nat.eqb wc' 0 then WRet true else if o then WPreLock else WSub1)
       r j g = true.
Proof.
  intros F Hlen Hrw Hz j g Eg. pose proof (nth_error_lt _ _ _ Eg) as Hj.
  destruct (Nat.ltb_spec (S i) nn).
  - simpl. destruct (Nat.ltb_spec j (S i)); simpl; [apply (Hrw j g Eg); lia|reflexivity].
  - assert (Hg : freg g || word_eqb (fw g) WR = true) by (apply (Hrw j g Eg); lia).
    destruct (Nat.eqb_spec wc' 0) as [E0|E0].
    + destruct (Hz E0) as (HA & HH & HS & HZ). simpl.
      rewrite (clean_l o l F HA HH HS j g Eg). rewrite (wr_l o l F HA HZ j g Eg Hg). reflexivity.
    + destruct o; simpl; exact Hg.
Qed.

Lemma set_nth_same i f l : nth_error l i = Some f -> set_nth i f l = l.
Proof.
  revert i; induction l as [|x t IH]; intros [|i]; simpl; try discriminate; auto.
  - intros E; inversion E; reflexivity.
  - intros E. rewrite (IH _ E). reflexivity.
Qed.

Lemma prefix_rw l i f f' pc r :
  nth_error l i = Some f -> (pc = WReg i \/ pc = WRegCas i) ->
  (forall j g, nth_error l j = Some g -> posb pc r j g = true) ->
  freg f' || word_eqb (fw f') WR = true ->
  forall j g, nth_error (set_nth i f' l) j = Some g -> j <= i -> freg g || word_eqb (fw g) WR = true.
Proof.
  intros Ef Hpc Hp Hf' j g Eg Hj.
  destruct (Nat.eq_dec i j) as [->|Hne].
  - rewrite (nth_set_nth_eq _ _ _ _ Ef) in Eg. inversion Eg; subst. exact Hf'.
  - rewrite (nth_set_nth_ne _ _ _ _ Hne) in Eg. specialize (Hp j g Eg).
    destruct Hpc as [-> | ->]; simpl in Hp; destruct (Nat.ltb_spec j i); simpl in Hp; try exact Hp; lia.
Qed.

Lemma fok_set_nth o l i f' : FOK o l -> fokb o f' = true -> FOK o (set_nth i f' l).
Proof.
  intros F Hf j g Eg. destruct (Nat.eq_dec i j) as [->|Hne].
  - destruct (nth_error l j) as [f|] eqn:Ef.
    + rewrite (nth_set_nth_eq _ _ _ _ Ef) in Eg. inversion Eg; subst; exact Hf.
    + exfalso. assert (Hl : j < length (set_nth j f' l)) by (apply nth_error_Some; congruence).
      rewrite set_nth_length in Hl. apply nth_error_None in Ef. lia.
  - rewrite (nth_set_nth_ne _ _ _ _ Hne) in Eg. apply (F j g Eg).
Qed.

Lemma pw_fok s : PW s -> FOK (one s) (futs s).
Proof. intros P j g Eg. apply (P j g Eg). Qed.

Lemma pw_pos s : PW s -> forall j g, nth_error (futs s) j = Some g -> posb (wp s) (ret s) j g = true.
Proof. intros P j g Eg. apply (P j g Eg). Qed.

Lemma count_zero_all p l : (forall j g, nth_error l j = Some g -> p g = false) -> count p l = 0.
Proof.
  induction l as [|x t IH]; intros H; [reflexivity|].
  unfold count; fold count. rewrite (H 0 x eq_refl). simpl. apply IH. intros j g E. apply (H (S j) g E).
Qed.

Lemma fok_rw_nz o f : fokb o f = true -> freg f || word_eqb (fw f) WR = true -> frst f = false -> fw f <> WE.
Proof.
  unfold fokb. destruct f as [w p sl rg rs]; simpl. destruct w, rg, rs; simpl; intros; try congruence.
  all: destruct p, sl; simpl in *; discriminate.
Qed.

Lemma pos_after_rst o l nn i rc' wc' r :
  FOK o l -> length l = nn ->
  (forall j g, nth_error l j = Some g -> freg g || word_eqb (fw g) WR = true) ->
  (forall j g, nth_error l j = Some g -> j <= i -> word_eqb (fw g) WC = false) ->
  (forall j g, nth_error l j = Some g -> S i <= j -> frst g = false) ->
  (rc' = wc' -> count isA l = 0 /\ count isH l = 0 /\ count isL l + count isN l + count isU l = 0) ->
  forall j g, nth_error l j = Some g ->
  posb (if Nat.ltb (S i) nn then WRst (S i) else if Nat.eqb rc' 0 then WLocked2
        else if Nat.eqb rc' wc' then WRetL false else if o then WLocked2 else WSub2) r j g = true.
Proof.
  intros F Hlen Hrw Hnc Hnz Hz j g Eg. pose proof (nth_error_lt _ _ _ Eg) as Hj.
  destruct (Nat.ltb_spec (S i) nn).
  - unfold posb. rewrite (Hrw j g Eg).
    destruct (Nat.ltb_spec j (S i)); destruct (Nat.leb_spec (S i) j); try lia.
    + rewrite (Hnc j g Eg ltac:(lia)). reflexivity.
    + rewrite (Hnz j g Eg ltac:(lia)). reflexivity.
  - assert (Hg : word_eqb (fw g) WC = false) by (apply (Hnc j g Eg); lia).
    destruct (Nat.eqb_spec rc' 0); [simpl; rewrite (Hrw j g Eg), Hg; reflexivity|].
    destruct (Nat.eqb_spec rc' wc') as [E|E].
    + destruct (Hz E) as (HA & HH & HS). simpl. rewrite (clean_l o l F HA HH HS j g Eg). reflexivity.
    + destruct o; simpl; rewrite (Hrw j g Eg), Hg; reflexivity.
Qed.

(* what the reset loop knows about the futures it has passed, after future i was handled *)
Lemma rst_facts l i f f' v r :
  nth_error l i = Some f -> (forall j g, nth_error l j = Some g -> posb (WRst i) r j g = true \/ posb (WRstCas i v) r j g = true) ->
  freg f' || word_eqb (fw f') WR = true -> word_eqb (fw f') WC = false ->
  (forall j g, nth_error (set_nth i f' l) j = Some g -> freg g || word_eqb (fw g) WR = true) /\
  (forall j g, nth_error (set_nth i f' l) j = Some g -> j <= i -> word_eqb (fw g) WC = false) /\
  (forall j g, nth_error (set_nth i f' l) j = Some g -> S i <= j -> frst g = false).
Proof.
  intros Ef Hp Hrw' Hnc'.
  assert (Hold : forall j g, nth_error l j = Some g ->
                 freg g || word_eqb (fw g) WR = true /\ (j < i -> word_eqb (fw g) WC = false) /\ (i <= j -> frst g = false)).
  { intros j g Eg. destruct (Hp j g Eg) as [H|H]; simpl in H;
      destruct (Nat.ltb_spec j i); destruct (Nat.leb_spec i j); simpl in H; try lia;
      repeat (apply andb_true_iff in H; destruct H as [H ?]);
      repeat split; intros; try lia; try assumption;
      repeat match goal with X : negb _ = true |- _ => apply negb_true_iff in X end; try assumption; try lia. }
  repeat split; intros j g Eg.
  - destruct (Nat.eq_dec i j) as [->|Hne].
    + rewrite (nth_set_nth_eq _ _ _ _ Ef) in Eg. inversion Eg; subst; assumption.
    + rewrite (nth_set_nth_ne _ _ _ _ Hne) in Eg. apply (Hold j g Eg).
  - intros Hj. destruct (Nat.eq_dec i j) as [->|Hne].
    + rewrite (nth_set_nth_eq _ _ _ _ Ef) in Eg. inversion Eg; subst; assumption.
    + rewrite (nth_set_nth_ne _ _ _ _ Hne) in Eg. apply (Hold j g Eg). lia.
  - intros Hj. rewrite (nth_set_nth_ne i j) in Eg by lia. apply (Hold j g Eg). lia.
Qed.

Lemma pos_or_l s (P : PW s) i v : wp s = WRst i ->
  forall j g, nth_error (futs s) j = Some g -> posb (WRst i) (ret s) j g = true \/ posb (WRstCas i v) (ret s) j g = true.
Proof. intros E j g Eg. left. rewrite <- E. apply (pw_pos s P j g Eg). Qed.

Lemma pos_or_r s (P : PW s) i v : wp s = WRstCas i v ->
  forall j g, nth_error (futs s) j = Some g -> posb (WRst i) (ret s) j g = true \/ posb (WRstCas i v) (ret s) j g = true.
Proof. intros E j g Eg. right. rewrite <- E. apply (pw_pos s P j g Eg). Qed.

Lemma inv_step_ldw s i v s' : Inv s -> step s (ELdW i v) = Some s' -> Inv s'.
Proof.
  intros [P G] H. simpl in H.
  destruct (nth_error (futs s) i) as [f|] eqn:Ef; [|discriminate].
  destruct (word_eqb v (fw f)) eqn:Ev; [|discriminate]. apply HandoffProofs.word_eqb_eq in Ev. subst v.
  destruct (P i f Ef) as [Hokf Hposf].
  destruct (wp s) eqn:Ewp; try discriminate.
  - (* registration pre-check *)
    destruct (Nat.eqb_spec i i0); [subst i0|discriminate].
    destruct (fw f) eqn:Efw; inversion H; subst s'; clear H.
    1: { split.
      * eapply pw_same_futs with (1:=P); [reflexivity|reflexivity|]. simpl. rewrite Ewp. intros j g Eg Hk Hp. exact Hp.
      * glob_w P G Ewp. splits; fin. }
    (* the word is not Empty: SetCallback fails *)
    all: assert (Hrw : forall j g, nth_error (futs s) j = Some g -> j <= i -> freg g || word_eqb (fw g) WR = true)
      by (intros j g Eg Hj; rewrite <- (set_nth_same i f (futs s) Ef) in Eg;
          eapply (prefix_rw (futs s) i f f (WReg i) (ret s) Ef); eauto;
          [ intros j0 g0 E0; rewrite <- Ewp; apply (pw_pos s P j0 g0 E0)
          | apply (fok_ne_rw (one s) f Hokf); congruence ]).
    all: split;
      [ intros j g Eg; simpl in Eg; split; [apply (P j g Eg)|]; simpl; unfold after_reg;
        glob_w P G Ewp;
        apply (pos_after_reg (one s) (futs s) (n s) i (wc s) (ret s) (pw_fok s P) G1 Hrw); [|exact Eg];
        intros E0; lia
      | glob_w P G Ewp; unfold after_reg; arith_b; destruct (one s) eqn:Eo; simpl in *; splits; fin ].
  - (* reset loop *)
    destruct (Nat.eqb_spec i i0); [subst i0|discriminate].
    assert (Hpf : freg f || word_eqb (fw f) WR = true /\ frst f = false).
    { simpl in Hposf. rewrite Nat.ltb_irrefl, Nat.leb_refl in Hposf. simpl in Hposf.
      apply andb_true_iff in Hposf. destruct Hposf as [Hp1 Hp2]. rewrite andb_true_r in Hp1.
      apply negb_true_iff in Hp2. auto. }
    destruct Hpf as [Hrwf Hzf].
    pose proof (fok_rw_nz (one s) f Hokf Hrwf Hzf) as Hne.
    destruct (fw f) eqn:Efw; try congruence; inversion H; subst s'; clear H.
    + (* the event is still there: CAS next *)
      split.
      * eapply pw_same_futs with (1:=P); [reflexivity|reflexivity|]. simpl. rewrite Ewp. intros j g Eg Hk Hp. exact Hp.
      * glob_w P G Ewp. splits; fin.
    + (* Result: Reset fails *)
      destruct (rst_facts (futs s) i f f WR (ret s) Ef (pos_or_l s P i WR Ewp) ltac:(rewrite Efw; apply orb_true_r)) as (F1 & F2 & F3).
      { rewrite Efw. reflexivity. }
      rewrite (set_nth_same i f (futs s) Ef) in F1, F2, F3.
      assert (HA : wp s = WRst i -> S i >= n s -> cA s = 0).
      { intros _ Hge. apply count_zero_all. intros j g Eg. apply (F2 j g Eg).
        pose proof (nth_error_lt _ _ _ Eg). destruct G as (G1 & _). lia. }
      split.
      * intros j g Eg; simpl in Eg; split; [apply (P j g Eg)|]; simpl; unfold after_rst.
        glob_w P G Ewp.
        apply (pos_after_rst (one s) (futs s) (n s) i (rc s) (wc s) (ret s) (pw_fok s P) G1 F1 F2 F3); [|exact Eg].
        intros E0; lia.
      * specialize (HA Ewp). glob_w P G Ewp. unfold after_rst. arith_b; destruct (one s) eqn:Eo; simpl in *; splits; fin.
Qed.

Ltac glob_w' P G Ewp :=
  match type of P with PW ?s => pose proof (reg_split_s s P) as Hsplit; pose proof (count_le_length isA (futs s)) as HleA;
     pose proof (count_le_length freg (futs s)) as HleR; pose proof (count_le_length frst (futs s)) as HleZ; bounds s end;
  unf; simpl; rewrite ?set_nth_length;
  match goal with Ef : nth_error _ ?i = Some ?f |- context [set_nth ?i ?f' _] => recounts i f' f Ef end;
  destruct G as (G1&G2&G3&G4&G5&G6&G7&G8&G9&G10&G11&G12&G13&G14&G15&GK);
  rewrite Ewp in *; simpl in *; dests.

Lemma inv_step_casw s i ok s' : Inv s -> step s (ECasW i ok) = Some s' -> Inv s'.
Proof.
  intros [P G] H. simpl in H.
  destruct (nth_error (futs s) i) as [f|] eqn:Ef; [|discriminate].
  destruct (P i f Ef) as [Hokf Hposf].
  destruct (wp s) eqn:Ewp; try discriminate.
  - (* registration CAS *)
    destruct (Nat.eqb_spec i i0); [subst i0|discriminate]. simpl in H.
    destruct (Bool.eqb ok (word_eqb (fw f) WE)) eqn:Eok; [|discriminate]. apply eqb_prop in Eok. subst ok.
    destruct (word_eqb (fw f) WE) eqn:Efw.
    + (* success *)
      apply HandoffProofs.word_eqb_eq in Efw.
      assert (Hz : frst f = false).
      { destruct G as (_&_&_&_&_&_&_&_&_&_&_&_&_&_&_&GK). unfold K, K0 in GK. rewrite Ewp in GK. destruct GK as [_ GK].
        destruct GK as (_&_&_&_&_&GZ&_). apply (count_zero frst (futs s) GZ i f Ef). }
      destruct f as [w p sl rg rs]; simpl in *. subst w rs.
      unfold fokb in Hokf; simpl in Hokf. destruct rg; simpl in Hokf; [rewrite andb_false_r in Hokf; discriminate|].
      inversion H; subst s'; clear H.
      set (f' := {| fw := WC; fp := p; fslot := sl; freg := true; frst := false |}).
      assert (Hokf' : fokb (one s) f' = true).
      { unfold fokb, f'; simpl. destruct p, sl; simpl in *; try discriminate; reflexivity. }
      split.
      * intros j g Eg; simpl in Eg; split; [apply (fok_set_nth (one s) (futs s) i f' (pw_fok s P) Hokf' j g Eg)|].
        simpl. unfold after_reg.
        destruct G as (G1 & _).
        apply (pos_after_reg (one s) (set_nth i f' (futs s)) (n s) i (S (wc s)) (ret s)); try exact Eg.
        -- apply fok_set_nth; [apply pw_fok; exact P|exact Hokf'].
        -- rewrite set_nth_length. exact G1.
        -- eapply (prefix_rw (futs s) i _ f' (WRegCas i) (ret s) Ef); eauto.
           intros j0 g0 E0. rewrite <- Ewp. apply (pw_pos s P j0 g0 E0).
        -- intros E0; discriminate.
      * subst f'. glob_w' P G Ewp. unfold after_reg. arith_b; destruct (one s) eqn:Eo; simpl in *; splits; fin.
    + (* failure: the producer's exchange came first *)
      inversion H; subst s'; clear H.
      assert (Hne : fw f <> WE) by (intros E; rewrite E in Efw; discriminate).
      assert (Hrw : forall j g, nth_error (futs s) j = Some g -> j <= i -> freg g || word_eqb (fw g) WR = true)
        by (intros j g Eg Hj; rewrite <- (set_nth_same i f (futs s) Ef) in Eg;
            eapply (prefix_rw (futs s) i f f (WRegCas i) (ret s) Ef); eauto;
            [ intros j0 g0 E0; rewrite <- Ewp; apply (pw_pos s P j0 g0 E0)
            | apply (fok_ne_rw (one s) f Hokf); congruence ]).
      split;
      [ intros j g Eg; simpl in Eg; split; [apply (P j g Eg)|]; simpl; unfold after_reg;
        glob_w P G Ewp;
        apply (pos_after_reg (one s) (futs s) (n s) i (wc s) (ret s) (pw_fok s P) G1 Hrw); [|exact Eg];
        intros E0; lia
      | glob_w P G Ewp; unfold after_reg; arith_b; destruct (one s) eqn:Eo; simpl in *; splits; fin ].
  - (* reset CAS *)
    destruct (Nat.eqb_spec i i0); [subst i0|discriminate]. simpl in H.
    destruct (Bool.eqb ok (word_eqb (fw f) v)) eqn:Eok; [|discriminate]. apply eqb_prop in Eok. subst ok.
    assert (Hv : v = WC).
    { destruct G as (_&_&_&_&_&_&_&_&_&_&_&_&_&_&_&GK). unfold K, K0 in GK. rewrite Ewp in GK. destruct GK as [_ GK]. dests. assumption. }
    subst v.
    assert (Hpf : freg f || word_eqb (fw f) WR = true /\ frst f = false).
    { simpl in Hposf. rewrite Nat.ltb_irrefl, Nat.leb_refl in Hposf. simpl in Hposf.
      apply andb_true_iff in Hposf. destruct Hposf as [Hp1 Hp2]. rewrite andb_true_r in Hp1.
      apply negb_true_iff in Hp2. auto. }
    destruct Hpf as [Hrwf Hzf].
    destruct (word_eqb (fw f) WC) eqn:Efw.
    + (* success: the event is taken back *)
      apply HandoffProofs.word_eqb_eq in Efw.
      destruct f as [w p sl rg rs]; simpl in *. subst w rs.
      unfold fokb in Hokf; simpl in Hokf. destruct rg; simpl in Hrwf; [|discriminate].
      inversion H; subst s'; clear H.
      set (f' := {| fw := WE; fp := p; fslot := sl; freg := true; frst := true |}).
      assert (Hokf' : fokb (one s) f' = true).
      { unfold fokb, f'; simpl. destruct p, sl; simpl in *; try discriminate; reflexivity. }
      destruct (rst_facts (futs s) i _ f' WC (ret s) Ef (pos_or_r s P i WC Ewp) eq_refl eq_refl) as (F1 & F2 & F3).
      assert (HA : S i >= n s -> count isA (set_nth i f' (futs s)) = 0).
      { intros Hge. apply count_zero_all. intros j g Eg. apply (F2 j g Eg).
        pose proof (nth_error_lt _ _ _ Eg) as Hl. rewrite set_nth_length in Hl. destruct G as (G1 & _). lia. }
      assert (Hcnt : S (rc s) = wc s ->
                     count isA (set_nth i f' (futs s)) = 0 /\ count isH (set_nth i f' (futs s)) = 0 /\
                     count isL (set_nth i f' (futs s)) + count isN (set_nth i f' (futs s)) +
                     count isU (set_nth i f' (futs s)) = 0).
      { pose proof (reg_split (one s) (set_nth i f' (futs s))
                              (fok_set_nth (one s) (futs s) i f' (pw_fok s P) Hokf')) as Hsp'.
        revert Hsp'. subst f'.
        match goal with Ef : nth_error _ ?i = Some ?f |- context [set_nth ?i ?f' _] => recounts i f' f Ef end.
        pose proof (reg_split_s s P) as Hsplit. destruct G as (G1&G2&G3&G4&G5&_). unf. intros Hsp' E0. lia. }
      split.
      * intros j g Eg; simpl in Eg; split; [apply (fok_set_nth (one s) (futs s) i f' (pw_fok s P) Hokf' j g Eg)|].
        simpl. unfold after_rst. destruct G as (G1 & _).
        apply (pos_after_rst (one s) (set_nth i f' (futs s)) (n s) i (S (rc s)) (wc s) (ret s)); try exact Eg.
        -- apply fok_set_nth; [apply pw_fok; exact P|exact Hokf'].
        -- rewrite set_nth_length. exact G1.
        -- exact F1.
        -- exact F2.
        -- exact F3.
        -- exact Hcnt.
      * clear Hcnt Hposf. revert HA. subst f'. unfold after_rst. arith_c.
        all: destruct (one s) eqn:Eo; glob_w' P G Ewp; intros HA; rewrite ?Eo in *; simpl in *; splits; fin.
    + (* failure: the producer's exchange came first; the word is Result *)
      inversion H; subst s'; clear H.
      destruct (rst_facts (futs s) i f f WC (ret s) Ef (pos_or_r s P i WC Ewp) Hrwf Efw) as (F1 & F2 & F3).
      rewrite (set_nth_same i f (futs s) Ef) in F1, F2, F3.
      assert (HA : S i >= n s -> cA s = 0).
      { intros Hge. apply count_zero_all. intros j g Eg. apply (F2 j g Eg).
        pose proof (nth_error_lt _ _ _ Eg). destruct G as (G1 & _). lia. }
      split.
      * intros j g Eg; simpl in Eg; split; [apply (P j g Eg)|]; simpl; unfold after_rst.
        glob_w P G Ewp.
        apply (pos_after_rst (one s) (futs s) (n s) i (rc s) (wc s) (ret s) (pw_fok s P) G1 F1 F2 F3); [|exact Eg].
        intros E0; lia.
      * glob_w P G Ewp. unfold after_rst. arith_b; destruct (one s) eqn:Eo; simpl in *; splits; fin.
Qed.

(* entering a return point: every future is clean, and Result if true is returned *)
Lemma pos_ret s b r :
  PW s -> cA s = 0 -> cH s = 0 -> S3 s = 0 ->
  (b = true -> cZ s = 0 /\ forall j g, nth_error (futs s) j = Some g -> freg g || word_eqb (fw g) WR = true) ->
  forall j g, nth_error (futs s) j = Some g -> posb (WRetL b) r j g = true.
Proof.
  intros P HA HH HS Hb j g Eg. simpl.
  unfold cA, cH, S3, cL, cN, cU, cZ in *.
  rewrite (clean_l (one s) (futs s) (pw_fok s P) HA HH HS j g Eg). simpl.
  destruct b; simpl; [|reflexivity].
  destruct (Hb eq_refl) as [HZ Hrw].
  apply (wr_l (one s) (futs s) (pw_fok s P) HA HZ j g Eg (Hrw j g Eg)).
Qed.

Ltac ltb_goal :=
  repeat match goal with
         | |- context [Nat.ltb ?a ?b] => destruct (Nat.ltb_spec a b)
         end.

Lemma inv_step_subw s new s' : Inv s -> step s (ESubW new) = Some s' -> Inv s'.
Proof.
  intros [P G] H. simpl in H.
  destruct (wp s) eqn:Ewp; try discriminate.
  - (* SubEqual(count - wait_count + 1) *)
    destruct (Nat.eqb_spec new (cnt s - (n s - wc s + 1))); [subst new|discriminate].
    inversion H; subst s'; clear H.
    destruct (Nat.eqb_spec (cnt s) (n s - wc s + 1)) as [Ec|Ec].
    + split.
      * eapply pw_same_futs with (1:=P); [reflexivity|reflexivity|]. simpl. rewrite Ewp. intros j g Eg Hk Hp.
        pose proof P as P'. glob_w P G Ewp.
        refine (pos_ret s true (ret s) P' _ _ _ _ j g Eg); unf; try lia.
        intros _. split; [lia|]. intros j0 g0 E0. pose proof (pw_pos s P' j0 g0 E0) as Hq. rewrite Ewp in Hq. exact Hq.
      * ltb_goal; destruct (underflow s) eqn:Eu; glob_w P G Ewp; rewrite ?Eu in *; simpl in *; splits; fin.
    + split.
      * eapply pw_same_futs with (1:=P); [reflexivity|reflexivity|]. simpl. rewrite Ewp. intros j g Eg Hk Hp. exact Hp.
      * ltb_goal; destruct (underflow s) eqn:Eu; glob_w P G Ewp; rewrite ?Eu in *; simpl in *; splits; fin.
  - (* SubEqual(reset_count) *)
    destruct (Nat.eqb_spec new (cnt s - rc s)); [subst new|discriminate].
    inversion H; subst s'; clear H.
    destruct (Nat.eqb_spec (cnt s) (rc s)) as [Ec|Ec].
    + split.
      * eapply pw_same_futs with (1:=P); [reflexivity|reflexivity|]. simpl. rewrite Ewp. intros j g Eg Hk Hp.
        pose proof P as P'. glob_w P G Ewp.
        refine (pos_ret s false (ret s) P' _ _ _ _ j g Eg); unf; try lia; try (intros E0; discriminate).
      * ltb_goal; destruct (underflow s) eqn:Eu; glob_w P G Ewp; rewrite ?Eu in *; simpl in *; splits; fin.
    + split.
      * eapply pw_same_futs with (1:=P); [reflexivity|reflexivity|]. simpl. rewrite Ewp. intros j g Eg Hk Hp. exact Hp.
      * ltb_goal; destruct (underflow s) eqn:Eu; glob_w P G Ewp; rewrite ?Eu in *; simpl in *; splits; fin.
Qed.

Lemma mPW m : mP m + mW m <= 1.
Proof. destruct m as [[|k]|]; simpl; lia. Qed.

Ltac same_pos P Ewp :=
  eapply pw_same_futs with (1:=P); [reflexivity|reflexivity|]; simpl; rewrite Ewp; intros j g Eg Hk Hp; try exact Hp.

Ltac mtx_eq s H :=
  unfold is_free, holds in H; destruct (mtx s) as [[|?k]|] eqn:Em; simpl in H; try discriminate H.

Lemma inv_step_wlock s s' : Inv s -> step s EWLock = Some s' -> Inv s'.
Proof.
  intros [P G] H. simpl in H. destruct (wp s) eqn:Ewp; try discriminate. mtx_eq s H.
  inversion H; subst s'; clear H. split.
  - same_pos P Ewp.
  - glob_w P G Ewp. rewrite Em in *. simpl in *. splits; fin.
Qed.

Lemma rw_of_pos s (P : PW s) :
  match wp s with WSub1 | WPreLock | WLocked1 | WNoPark | WSleep1 | WSub2 | WLocked2 | WSleep2 => True | _ => False end ->
  forall j g, nth_error (futs s) j = Some g -> freg g || word_eqb (fw g) WR = true.
Proof.
  intros Hw j g Eg. pose proof (pw_pos s P j g Eg) as Hq.
  destruct (wp s); simpl in Hq; try contradiction; try exact Hq.
  all: apply andb_true_iff in Hq; apply Hq.
Qed.

Lemma inv_step_waitenter s s' : Inv s -> step s EWaitEnter = Some s' -> Inv s'.
Proof.
  intros [P G] H. simpl in H. destruct (wp s) eqn:Ewp; try discriminate.
  - (* first wait *)
    destruct (ready s) eqn:Er.
    + destruct (timed s) eqn:Et; inversion H; subst s'; clear H; split.
      * same_pos P Ewp.
      * glob_w P G Ewp. rewrite ?Er, ?Et in *. simpl in *. splits; fin.
      * same_pos P Ewp. pose proof P as P'. pose proof (mPW (mtx s)).
        assert (Hrw := rw_of_pos s P' ltac:(rewrite Ewp; exact I)).
        glob_w P G Ewp. rewrite ?Er in *. simpl in *.
        refine (pos_ret s true (ret s) P' _ _ _ _ j g Eg); unf; try lia.
        intros _. split; [lia|exact Hrw].
      * pose proof (mPW (mtx s)). glob_w P G Ewp. rewrite ?Er, ?Et in *. simpl in *. splits; fin.
    + inversion H; subst s'; clear H; split.
      * same_pos P Ewp.
      * pose proof (mPW (mtx s)). glob_w P G Ewp. rewrite ?Er in *. simpl in *. splits; fin.
  - (* final wait *)
    destruct (ready s) eqn:Er.
    + exfalso. glob_w P G Ewp. rewrite ?Er in *. simpl in *. lia.
    + inversion H; subst s'; clear H; split.
      * same_pos P Ewp.
      * pose proof (mPW (mtx s)). glob_w P G Ewp. rewrite ?Er in *. simpl in *. splits; fin.
Qed.

Lemma inv_step_timeout s s' : Inv s -> step s ETimeout = Some s' -> Inv s'.
Proof.
  intros [P G] H. simpl in H. destruct (wp s) eqn:Ewp; try discriminate.
  destruct (timed s) eqn:Et; [|discriminate]. inversion H; subst s'; clear H. split.
  - same_pos P Ewp.
  - glob_w P G Ewp. rewrite ?Et in *. simpl in *. splits; fin.
Qed.

Lemma inv_step_waitret s s' : Inv s -> step s EWaitRet = Some s' -> Inv s'.
Proof.
  intros [P G] H. simpl in H. destruct (wp s) eqn:Ewp; try discriminate.
  - (* the predicate held at once *)
    inversion H; subst s'; clear H. split.
    + same_pos P Ewp. pose proof P as P'. pose proof (mPW (mtx s)).
      assert (Hrw := rw_of_pos s P' ltac:(rewrite Ewp; exact I)).
      glob_w P G Ewp.
      refine (pos_ret s true (ret s) P' _ _ _ _ j g Eg); unf; try lia.
      intros _. split; [lia|exact Hrw].
    + pose proof (mPW (mtx s)). glob_w P G Ewp. splits; fin.
  - (* woken in the first wait *)
    destruct (is_free s && (notified s || timedout s)) eqn:Ec; [|discriminate].
    apply andb_true_iff in Ec. destruct Ec as [Ef Ent]. mtx_eq s Ef.
    destruct (ready s) eqn:Er.
    + inversion H; subst s'; clear H. split.
      * same_pos P Ewp. pose proof P as P'.
        assert (Hrw := rw_of_pos s P' ltac:(rewrite Ewp; exact I)).
        glob_w P G Ewp. rewrite ?Er, ?Em in *. simpl in *.
        refine (pos_ret s true (ret s) P' _ _ _ _ j g Eg); unf; try lia.
        intros _. split; [lia|exact Hrw].
      * glob_w P G Ewp. rewrite ?Er, ?Em in *. simpl in *. splits; fin.
    + destruct (timed s) eqn:Et; [|discriminate]. destruct (timedout s) eqn:Eto; [|discriminate].
      simpl in H. inversion H; subst s'; clear H. split.
      * same_pos P Ewp. simpl in Hp. simpl. rewrite Hp. simpl.
        glob_w P G Ewp. rewrite (count_zero frst (futs s) ltac:(lia) j g Eg). reflexivity.
      * glob_w P G Ewp. rewrite ?Er, ?Em, ?Et, ?Eto in *. simpl in *. splits; fin.
  - (* woken in the final wait *)
    destruct (is_free s && notified s && ready s) eqn:Ec; [|discriminate].
    apply andb_true_iff in Ec. destruct Ec as [Ec Er]. apply andb_true_iff in Ec. destruct Ec as [Ef Ent]. mtx_eq s Ef.
    inversion H; subst s'; clear H. split.
    + same_pos P Ewp. pose proof P as P'.
      assert (Hrw := rw_of_pos s P' ltac:(rewrite Ewp; exact I)).
      glob_w P G Ewp. rewrite ?Er, ?Em in *. simpl in *.
      refine (pos_ret s (Nat.eqb (rc s) 0) (ret s) P' _ _ _ _ j g Eg); unf; try lia.
      intros E0. apply Nat.eqb_eq in E0. split; [lia|exact Hrw].
    + destruct (Nat.eqb_spec (rc s) 0); glob_w P G Ewp; rewrite ?Er, ?Em in *; simpl in *; splits; fin.
Qed.

Lemma inv_step_wunlock s s' : Inv s -> step s EWUnlock = Some s' -> Inv s'.
Proof.
  intros [P G] H. simpl in H. destruct (wp s) eqn:Ewp; try discriminate. mtx_eq s H.
  inversion H; subst s'; clear H. split.
  - same_pos P Ewp.
  - glob_w P G Ewp. rewrite ?Em in *. simpl in *. splits; fin.
Qed.

Lemma inv_step_ret s s' : Inv s -> step s ERet = Some s' -> Inv s'.
Proof.
  intros [P G] H. simpl in H. destruct (wp s) eqn:Ewp; try discriminate.
  inversion H; subst s'; clear H. split.
  - same_pos P Ewp.
  - glob_w P G Ewp. splits; fin.
Qed.


