(* C20 — proofs about model/Alloc.v.  Programs of any length and nesting depth (mutual structural induction). *)
From Coq Require Import List Arith Bool Lia.
Import ListNotations.
From YV Require Import model.Alloc.

(* ------------------------------------------------------------------------------------------- lists of sites *)

Lemma blocks_app : forall a b, blocks (a ++ b) = blocks a + blocks b.
Proof. induction a; simpl; intros; [reflexivity | rewrite IHa; lia]. Qed.

Lemma nsteps_app : forall a b, nsteps (a ++ b) = nsteps a + nsteps b.
Proof. intros. unfold nsteps. rewrite filter_app, app_length. reflexivity. Qed.

Lemma nsteps_cons : forall k l, nsteps (k :: l) = (if is_step k then 1 else 0) + nsteps l.
Proof. intros. unfold nsteps. simpl. destruct (is_step k); reflexivity. Qed.

Lemma blocks_cons : forall k l, blocks (k :: l) = site_blocks k + blocks l.
Proof. reflexivity. Qed.

(* every site requests at most one block, and only pipeline steps request any *)
Lemma site_at_most_one : forall k, site_blocks k <= (if is_step k then 1 else 0).
Proof. destruct k; simpl; unfold make_core_blocks, ready_core_blocks, contract_blocks, promise_core_blocks, coro_frame_blocks; lia. Qed.

Lemma blocks_le_nsteps : forall l, blocks l <= nsteps l.
Proof.
  induction l as [|k l IH]; [simpl; unfold nsteps; simpl; lia|].
  rewrite blocks_cons, nsteps_cons. pose proof (site_at_most_one k). lia.
Qed.

(* exact: one block per executed step other than the callback-less Detach() *)
Definition allocating (k : skind) : bool := match k with KDetach0 | KConv => false | _ => true end.

Lemma blocks_exact : forall l, blocks l = length (filter allocating l).
Proof. induction l as [|k l IH]; [reflexivity|]. rewrite blocks_cons, IH. destruct k; reflexivity. Qed.

(* ------------------------------------------------------------------------------------------------ pipelines *)

Scheme pipe_mind := Induction for pipe Sort Prop
  with fn_mind := Induction for fn Sort Prop
  with beh_mind := Induction for beh Sort Prop
  with pipes_mind := Induction for pipes Sort Prop.
Combined Scheme pipe_mutind from pipe_mind, fn_mind, beh_mind, pipes_mind.

Theorem pipeline_allocs_le_steps : forall p, allocs_pipeline p <= steps p.
Proof. intro p. apply blocks_le_nsteps. Qed.

Theorem pipeline_allocs_exact : forall p, allocs_pipeline p = length (filter allocating (sites (run p))).
Proof. intro p. apply blocks_exact. Qed.

(* executed steps never exceed the steps written in the program *)
Lemma executed_le_written :
  (forall p ov, nsteps (sites (eval ov p)) <= steps_syn p) /\
  (forall f s, nsteps (sites (eval_fn f s)) <= steps_syn_fn f) /\
  (forall b, forall par v sh s, nsteps (sites (eval_fn (Fn par v sh b) s)) <= steps_syn_fn (Fn par v sh b)) /\
  (forall ps m, nsteps (sites (eval_pipes m ps)) <= steps_syn_pipes ps).
Proof.
  apply pipe_mutind; intros; cbn [eval eval_fn eval_pipes steps_syn steps_syn_fn steps_syn_pipes sites].
  - cbn; lia.
  - cbn; lia.
  - specialize (H (if stopped (over ov e) then RErr else RVal)). rewrite nsteps_cons. simpl. lia.
  - destruct (stopped (over ov e)); cbn; lia.
  - specialize (H m). rewrite nsteps_cons. simpl. lia.
  - specialize (H ov). match goal with |- context [eval_fn f ?s] => specialize (H0 s) end.
    rewrite nsteps_app, nsteps_cons. simpl. lia.
  - specialize (H ov). match goal with |- context [eval_fn f ?s] => specialize (H0 s) end.
    rewrite nsteps_app, nsteps_cons. simpl. lia.
  - specialize (H ov). rewrite nsteps_app. cbn. lia.
  - specialize (H (Some e)). rewrite nsteps_app. cbn. lia.
  - specialize (H ov). rewrite nsteps_app. cbn. lia.
  - specialize (H ov). rewrite nsteps_app. cbn. lia.
  - specialize (H ov). rewrite nsteps_app. cbn. lia.
  - specialize (H ov). rewrite nsteps_app. cbn. lia.
  - apply (H par v sh s).
  - destruct (invoked par s); cbn; lia.
  - destruct (invoked par s); cbn; lia.
  - destruct (invoked par s); cbn; lia.
  - destruct (invoked par s); cbn; lia.
  - destruct (invoked par s); cbn; lia.
  - destruct (invoked par s); cbn; [apply H | lia].
  - cbn; lia.
  - specialize (H None). specialize (H0 m). destruct m; destruct (st (eval None p)); cbn [sites]; try rewrite nsteps_app; lia.
Qed.

Theorem pipeline_allocs_le_written_steps : forall p, allocs_pipeline p <= steps_syn p.
Proof.
  intro p. pose proof (pipeline_allocs_le_steps p). pose proof (proj1 executed_le_written p None).
  unfold steps, run in *. lia.
Qed.

(* one more step costs exactly one more block, whatever the callback accepts or returns, whatever the executor, and
   unwrapping a returned pipeline costs nothing beyond that pipeline's own steps *)
Theorem then_costs_one :
  forall q a par v sh b,
  allocs_pipeline (PThen q a (Fn par v sh b)) =
  allocs_pipeline q + 1 +
  match b with
  | BAsync inner =>
      let s_in := match a with
                  | AInline => st (run q)
                  | AOn e => if stopped e then RErr else st (run q)
                  | AInherit => if stopped (cur_exec None q) then RErr else st (run q)
                  end in
      if invoked par s_in then allocs_pipeline inner else 0
  | _ => 0
  end.
Proof.
  intros. unfold allocs_pipeline, run. cbn [eval sites]. rewrite blocks_app, blocks_cons. cbn [site_blocks]. unfold make_core_blocks.
  destruct b; cbn [eval_fn];
    match goal with |- context [invoked ?p ?s] => destruct (invoked p s) end; cbn [sites]; change (blocks []) with 0; lia.
Qed.

Theorem detach_costs_one :
  forall q a par v sh b,
  (forall inner, b <> BAsync inner) ->
  allocs_pipeline (PDetach q a (Fn par v sh b)) = allocs_pipeline q + 1.
Proof.
  intros. unfold allocs_pipeline, run. cbn [eval sites]. rewrite blocks_app, blocks_cons. cbn [site_blocks]. unfold make_core_blocks.
  destruct b; cbn [eval_fn]; try (exfalso; eapply H; reflexivity);
    match goal with |- context [invoked ?p ?s] => destruct (invoked p s) end; cbn [sites]; change (blocks []) with 0; lia.
Qed.

Theorem source_costs_one :
  (forall w v r, allocs_pipeline (PReady w v r) = 1) /\
  (forall w v e late r, allocs_pipeline (PContract w v e late r) = 1) /\
  (forall w v e late r th, allocs_pipeline (PProm w v e late r th) = 1) /\
  (forall w e par v sh b, (forall inner, b <> BAsync inner) -> allocs_pipeline (PRun w e (Fn par v sh b)) = 1).
Proof.
  repeat split; intros; unfold allocs_pipeline, run; cbn [eval sites]; try reflexivity.
  - unfold over; destruct (stopped e); reflexivity.
  - destruct b; cbn [eval_fn]; try (exfalso; eapply H; reflexivity);
      match goal with |- context [invoked ?p ?s] => destruct (invoked p s) end; reflexivity.
Qed.

Theorem conversions_cost_nothing :
  forall q, allocs_pipeline (PToFuture q) = allocs_pipeline q /\
            allocs_pipeline (POnNull q) = allocs_pipeline q /\
            allocs_pipeline (PDetach0 q) = allocs_pipeline q.
Proof.
  intro q. unfold allocs_pipeline, run. cbn [eval sites]. repeat split; intros; rewrite blocks_app; cbn; lia.
Qed.

(* Task::ToFuture(e) itself requests nothing: the chain started on e costs what its executed sites cost *)
Theorem starton_costs_nothing :
  forall q e, allocs_pipeline (PStartOn q e) = blocks (sites (eval (Some e) q)).
Proof. intros. unfold allocs_pipeline, run. cbn [eval sites]. rewrite blocks_app. cbn. lia. Qed.

(* ---------------------------------------------------------------------------------------------- combinators *)

Lemma strategy_sum_bound : forall k pol vs oc,
  strategy_build (strategy_of k pol vs) + strategy_done (strategy_of k pol vs) pol oc <= match k with CAll => 2 | _ => 0 end.
Proof. destruct k, pol, vs, oc; cbn; lia. Qed.

Lemma when_body_bound : forall k pol f ik vs oc t,
  let s := strategy_of k pol vs in
  let build := contract_blocks + 1 + strategy_build s + callbacks_vector f ik in
  let total := build + strategy_done s pol oc in
  fst (match t with TEarly => (total, total) | TLate => (build, total) end) <=
  snd (match t with TEarly => (total, total) | TLate => (build, total) end) /\
  snd (match t with TEarly => (total, total) | TLate => (build, total) end) <= K k f ik.
Proof.
  intros. pose proof (strategy_sum_bound k pol vs oc) as B. subst s build total. unfold K, contract_blocks.
  destruct t; cbn [fst snd]; destruct k; cbn in B |- *; lia.
Qed.

Theorem combinator_bounded :
  forall k pol f ik vs oc t n,
  fst (when_allocs k pol f ik vs oc t n) <= snd (when_allocs k pol f ik vs oc t n) /\
  snd (when_allocs k pol f ik vs oc t n) <= K k f ik.
Proof.
  intros. unfold when_allocs.
  destruct n as [|n']; [cbn; lia|].
  destruct k, f, ik, n'; try (cbn; lia); apply when_body_bound.
Qed.

(* the constant is reached (so it is the least one) for every n >= 2 *)
Theorem combinator_bound_tight :
  forall f ik n, 2 <= n ->
  snd (when_allocs CAll FFirst f ik VsInt OAllOk TLate n) = K CAll f ik /\
  snd (when_allocs CAny FLast f ik VsInt OAllOk TLate n) = K CAny f ik /\
  snd (when_allocs CJoin FNone f ik VsInt OAllOk TLate n) = K CJoin f ik.
Proof.
  intros f ik n H. destruct n as [|[|n]]; try lia.
  destruct f, ik; cbn; repeat split; reflexivity.
Qed.

(* the count does not depend on n at all once n >= 2 *)
Theorem combinator_constant_in_n :
  forall k pol f ik vs oc t n m, 2 <= n -> 2 <= m ->
  when_allocs k pol f ik vs oc t n = when_allocs k pol f ik vs oc t m.
Proof.
  intros. destruct n as [|[|n]]; try lia. destruct m as [|[|m]]; try lia.
  unfold when_allocs. destruct k, f, ik; reflexivity.
Qed.

(* -------------------------------------------------------------------------------- waits, Get, strand, await *)

Theorem wait_plain_zero : forall w f n, wait_allocs w f IUnique n = 0.
Proof. destruct f; reflexivity. Qed.

Theorem wait_variadic_zero : forall w ik n, wait_allocs w FVariadic ik n = 0.
Proof. destruct ik; reflexivity. Qed.

(* outside the property's scope, recorded: the iterator form over shared futures requests one block *)
Theorem wait_shared_iter_one : forall w n, 2 <= n -> wait_allocs w FIter IShared n = 1.
Proof. intros w n H. destruct n as [|[|n]]; try lia. reflexivity. Qed.

Theorem get_zero : forall w ready, get_allocs w ready = 0.
Proof. reflexivity. Qed.

Theorem strand_submit_zero : forall n, strand_allocs true n = 0.
Proof. reflexivity. Qed.

Theorem await_plain_zero : forall a n, await_allocs a IUnique n = 0.
Proof. destruct a; reflexivity. Qed.

Theorem await_shared_iter_one : forall n, await_allocs AwIter IShared n = 1.
Proof. reflexivity. Qed.

Theorem coro_call_plain_one : forall a n, coro_call_allocs a IUnique n = 1.
Proof. destruct a; reflexivity. Qed.

(* ---------------------------------------------------------------------------------------------- payload copies *)

Lemma no_error_copies :
  (forall p ov, ecopies ov p = 0) /\
  (forall f s, ecopies_fn f s = 0) /\
  (forall b, forall par v sh s, ecopies_fn (Fn par v sh b) s = 0) /\
  (forall ps m, ecopies_pipes m ps = 0).
Proof.
  apply pipe_mutind; intros; cbn [ecopies ecopies_fn ecopies_pipes error_param_copies]; try reflexivity;
    repeat match goal with H : forall _, _ = 0 |- _ => rewrite H end; try reflexivity.
  - apply (H par v sh s).
  - destruct (invoked par s); reflexivity.
  - destruct (invoked par s); reflexivity.
  - destruct (invoked par s); reflexivity.
  - destruct (invoked par s); reflexivity.
  - destruct (invoked par s); reflexivity.
  - destruct (invoked par s); reflexivity.
  - destruct m; destruct (st (eval None p)); reflexivity.
Qed.

Theorem payload_never_copied : forall p, value_copies p = 0 /\ error_copies p = 0.
Proof. intro p. split; [reflexivity | apply (proj1 no_error_copies p None)]. Qed.
