(* Proofs about Pipe: core_run (mirror of the implementation) against seq_eval (the sequential reading). *)
From Coq Require Import List ZArith Bool Lia.
Import ListNotations.
From YV Require Import model.Pipe.

(* ---------------------------------------------------------------- dispatch by invocability = dispatch by class *)

Lemma par_ok_dispatch : forall p t, par_ok p t = dispatch_ok p t && negb (Nat.eqb (tag p t) 0).
Proof. destruct p, t; reflexivity. Qed.

(* CallImpl + CallResolveState decide exactly as the reading by parameter class *)
Lemma call_impl_spec : forall p t r,
  par_ok p t = true ->
  (forall v, r = Val v -> match v with VInt _ => t = TInt | VUnit => t = TVoid end) ->
  call_impl p t r = Some match invoked p r with Some i => Invoke i | None => Pass r end.
Proof.
  intros p t r Hp Hv.
  destruct p, t; try discriminate Hp; destruct r as [v|e|x]; cbn; try reflexivity;
    specialize (Hv v eq_refl); destruct v; try discriminate Hv; reflexivity.
Qed.

Lemma call_impl_none : forall p t r, par_ok p t = false -> call_impl p t r = None.
Proof. destruct p, t; intros r H; try discriminate H; destruct r; reflexivity. Qed.

Definition by_class (p : pclass) (r : res) : route :=
  match invoked p r with Some i => Invoke i | None => Pass r end.

Lemma call_impl_class : forall p t r,
  call_impl p t r = if par_ok p t then Some (by_class p r) else None.
Proof. destruct p, t, r as [[z|]|e|x]; reflexivity. Qed.

Lemma run_call_class : forall p stopped,
  run_call p stopped =
  if par_ok p TVoid then Some (by_class p (if stopped then Err EStop else Val VUnit)) else None.
Proof. destruct p, stopped; reflexivity. Qed.

Lemma step_input_seq : forall a ex r, step_input a ex r = seq_input a ex r.
Proof. destruct a; intros; unfold step_input, seq_input; cbn; try reflexivity; destruct (alive _); reflexivity. Qed.

Lemma transfer_exec_seq : forall a e, transfer_exec a e = match a with AOn e' => e' | _ => e end.
Proof. reflexivity. Qed.

(* ---------------------------------------------------------------- the refinement *)

Definition Q (p : prog) : Prop := forall o, run p = Some o -> o = seq p.
Definition Qo (o : outcome) : Prop := match o with RetAsync _ p' => Q p' | _ => True end.

Lemma refines_all : forall p, Q p.
Proof.
  apply (prog_mind Qo Q); unfold Q, Qo; intros; try exact I; auto.
  - (* PReady *) cbn in H. inversion H. reflexivity.
  - (* PContract *) cbn in H. inversion H. reflexivity.
  - (* PRun *)
    cbn [run seq] in *. rewrite run_call_class in H0.
    destruct (par_ok par TVoid); [|discriminate].
    replace (if negb (alive e) then Err EStop else Val VUnit)
      with (if alive e then Val VUnit else Err EStop) in H0 by (destruct (alive e); reflexivity).
    unfold by_class in H0.
    destruct (invoked par (if alive e then Val VUnit else Err EStop)) as [i|].
    + specialize (H i). destruct (body i) as [x|v| |r|k p'] eqn:Hb; cbn in H0; try (inversion H0; reflexivity).
      destruct (run p') as [oi|] eqn:Hr; [|discriminate].
      inversion H0; subst. rewrite (H oi Hr). reflexivity.
    + inversion H0. reflexivity.
  - (* PProm *)
    cbn [run seq] in *. unfold prom_result in H.
    destruct (alive e); cbn in H; [destruct b|]; inversion H; reflexivity.
  - (* PCoro *) cbn in H. inversion H. reflexivity.
  - (* PThen *)
    cbn [run seq] in *.
    destruct (run q) as [oq|] eqn:Hq; [|discriminate].
    rewrite <- (H oq eq_refl).
    rewrite call_impl_class, step_input_seq, transfer_exec_seq in H1.
    destruct (par_ok par (o_ty oq)); [|discriminate].
    unfold by_class in H1.
    destruct (invoked par _) as [i|].
    + specialize (H0 i). destruct (body i) as [x|v| |r|k p'] eqn:Hb; cbn in H1; try (inversion H1; reflexivity).
      destruct (run p') as [oi|] eqn:Hr; [|discriminate].
      inversion H1; subst. rewrite (H0 oi Hr). reflexivity.
    + inversion H1. reflexivity.
Qed.

Theorem refines : forall p o, core_run p = Some o -> o = seq_eval p.
Proof. exact refines_all. Qed.

Theorem refines_chain : forall src steps o, core_run (chain src steps) = Some o -> o = seq_eval (chain src steps).
Proof. intros. apply refines. assumption. Qed.

Theorem refines_obs : forall p o, core_run p = Some o -> obs o = obs (seq_eval p).
Proof. intros p o H. rewrite (refines p o H). reflexivity. Qed.

(* ---------------------------------------------------------------- one step, unfolded *)

Lemma then_unfold : forall q id par a rt body oq,
  run q = Some oq -> run (PThen q id par a rt body) = step_result oq id par a rt body.
Proof.
  intros. cbn [run]. rewrite H. unfold step_result, arrives, exec_of.
  rewrite call_impl_class, step_input_seq, transfer_exec_seq.
  destruct (par_ok par (o_ty oq)); [|reflexivity].
  unfold by_class. destruct (invoked par _); reflexivity.
Qed.

Lemma then_some_inv : forall q id par a rt body o,
  run (PThen q id par a rt body) = Some o -> exists oq, run q = Some oq /\ step_result oq id par a rt body = Some o.
Proof.
  intros. destruct (run q) as [oq|] eqn:Hq.
  - exists oq. split; [reflexivity|]. rewrite <- (then_unfold q id par a rt body oq Hq). exact H.
  - cbn [run] in H. rewrite Hq in H. discriminate.
Qed.

Definition value_class (p : pclass) : Prop := p = PValue \/ p = PNone \/ p = PUnit.
Definition result_class (p : pclass) : Prop := p = PResult \/ p = PAuto.

(* every step contributes nothing, or one invocation followed by the invocations of the chain it returned *)
Lemma step_once_in_order : forall q id par a rt body oq o,
  run q = Some oq -> run (PThen q id par a rt body) = Some o ->
  o_evs o = o_evs oq \/
  exists i, invoked par (arrives a oq) = Some i /\
    (o_evs o = o_evs oq ++ [Ev id (exec_of a oq) (is_call a) i] \/
     exists k p' oi, body i = RetAsync k p' /\ run p' = Some oi /\
       o_evs o = o_evs oq ++ Ev id (exec_of a oq) (is_call a) i :: o_evs oi).
Proof.
  intros q id par a rt body oq o Hq H. rewrite (then_unfold _ _ _ _ _ _ _ Hq) in H. unfold step_result in H.
  destruct (par_ok par (o_ty oq)); [|discriminate].
  destruct (invoked par (arrives a oq)) as [i|] eqn:Hi.
  - right. exists i. split; [reflexivity|].
    destruct (body i) as [x|v| |r|k p'] eqn:Hb; try (left; inversion H; reflexivity).
    right. destruct (run p') as [oi|] eqn:Hr; [|discriminate].
    exists k, p', oi. repeat split; try assumption. inversion H. reflexivity.
  - left. inversion H. reflexivity.
Qed.

(* a callback taking the value runs only on success, with that value; otherwise the failure passes through unchanged *)
Lemma value_cb : forall q id par a rt body oq o,
  value_class par -> run q = Some oq -> run (PThen q id par a rt body) = Some o ->
  match arrives a oq with
  | Val v => exists i rest, o_evs o = o_evs oq ++ Ev id (exec_of a oq) (is_call a) i :: rest /\
                            (i = IVal v \/ i = INone \/ i = IUnit)
  | r => o_res o = r /\ o_evs o = o_evs oq
  end.
Proof.
  intros q id par a rt body oq o Hc Hq H. rewrite (then_unfold _ _ _ _ _ _ _ Hq) in H. unfold step_result in H.
  destruct (par_ok par (o_ty oq)); [|discriminate].
  destruct (arrives a oq) as [v|e|x] eqn:Ha;
    destruct Hc as [Hc|[Hc|Hc]]; subst par; cbn in H;
    try (inversion H; split; reflexivity);
    match type of H with context [body ?i] =>
      exists i; destruct (body i) as [x'|v'| |r'|k p'] eqn:Hb;
      try (exists []; inversion H; split; [reflexivity|tauto]);
      destruct (run p') as [oi|]; [|discriminate]; exists (o_evs oi); inversion H; split; [reflexivity|tauto]
    end.
Qed.

(* a callback taking E (resp. std::exception_ptr) runs only on an Error (resp. Exception); otherwise the Result passes through *)
Lemma recovery_cb : forall q id par a rt body oq o,
  par = PError \/ par = PExc -> run q = Some oq -> run (PThen q id par a rt body) = Some o ->
  match par, arrives a oq with
  | PError, Err e => exists rest, o_evs o = o_evs oq ++ Ev id (exec_of a oq) (is_call a) (IErr e) :: rest
  | PExc, Exc x => exists rest, o_evs o = o_evs oq ++ Ev id (exec_of a oq) (is_call a) (IExc x) :: rest
  | _, r => o_res o = r /\ o_evs o = o_evs oq
  end.
Proof.
  intros q id par a rt body oq o Hc Hq H. rewrite (then_unfold _ _ _ _ _ _ _ Hq) in H. unfold step_result in H.
  destruct (par_ok par (o_ty oq)); [|discriminate].
  destruct (arrives a oq) as [v|e|x] eqn:Ha;
    destruct Hc as [Hc|Hc]; subst par; cbn in H;
    try (inversion H; split; reflexivity);
    match type of H with context [body ?i] =>
      destruct (body i) as [x'|v'| |r'|k p'] eqn:Hb;
      try (exists []; inversion H; reflexivity);
      destruct (run p') as [oi|]; [|discriminate]; exists (o_evs oi); inversion H; reflexivity
    end.
Qed.

(* a callback taking Result always runs, with the Result that arrived *)
Lemma result_cb : forall q id par a rt body oq o,
  result_class par -> run q = Some oq -> run (PThen q id par a rt body) = Some o ->
  exists rest, o_evs o = o_evs oq ++ Ev id (exec_of a oq) (is_call a) (IRes (arrives a oq)) :: rest.
Proof.
  intros q id par a rt body oq o Hc Hq H. rewrite (then_unfold _ _ _ _ _ _ _ Hq) in H. unfold step_result in H.
  destruct (par_ok par (o_ty oq)); [|discriminate].
  destruct Hc as [Hc|Hc]; subst par; cbn in H;
    (destruct (body (IRes (arrives a oq))) as [x'|v'| |r'|k p'] eqn:Hb;
     try (exists []; inversion H; reflexivity);
     destruct (run p') as [oi|]; [|discriminate]; exists (o_evs oi); inversion H; reflexivity).
Qed.

(* what the step completes with, by what the callback did *)
Lemma invoked_outcome : forall q id par a rt body oq o i,
  run q = Some oq -> run (PThen q id par a rt body) = Some o ->
  invoked par (arrives a oq) = Some i ->
  match body i with
  | Throw x => o_res o = Exc x                  (* whatever a callback throws becomes the Exception state *)
  | RetV v => o_res o = Val v
  | RetVoid => o_res o = Val VUnit
  | RetRes r => o_res o = r                     (* a returned Result is stored as is *)
  | RetAsync k p' =>                            (* flattened: the step completes with the inner result *)
      exists oi, run p' = Some oi /\ o_res o = o_res oi /\
                 o_evs o = o_evs oq ++ Ev id (exec_of a oq) (is_call a) i :: o_evs oi
  end.
Proof.
  intros q id par a rt body oq o i Hq H Hi. rewrite (then_unfold _ _ _ _ _ _ _ Hq) in H. unfold step_result in H.
  destruct (par_ok par (o_ty oq)); [|discriminate]. rewrite Hi in H.
  destruct (body i) as [x'|v'| |r'|k p'] eqn:Hb; try (inversion H; reflexivity).
  destruct (run p') as [oi|]; [|discriminate]. exists oi. inversion H. repeat split.
Qed.

(* a step handed to a stopped executor receives StopError whatever its predecessor produced *)
Lemma stopped_sees_stop : forall a oq, is_call a = true -> alive (exec_of a oq) = false -> arrives a oq = Err EStop.
Proof. intros a oq Hc Ha. unfold arrives, seq_input. destruct a; try discriminate Hc; rewrite Ha; reflexivity. Qed.

Lemma alive_sees_result : forall a oq, is_call a = false \/ alive (exec_of a oq) = true -> arrives a oq = o_res oq.
Proof. intros a oq [H|H]; unfold arrives, seq_input; destruct a; try discriminate H; try rewrite H; reflexivity. Qed.

(* ---------------------------------------------------------------- typing: well-typed programs run, and keep their types *)

Lemma step_types_par_ok : forall p t rt, step_types p t rt = true -> par_ok p t = true.
Proof. destruct p, t, rt; cbn; intro H; try reflexivity; discriminate H. Qed.

Lemma step_types_recovery : forall p t rt, step_types p t rt = true -> p = PError \/ p = PExc -> t = rt.
Proof. intros p t rt H [Hp|Hp]; subst p; destruct t, rt; cbn in H; try reflexivity; discriminate H. Qed.

Lemma ty_eqb_eq : forall a b, ty_eqb a b = true -> a = b.
Proof. destruct a, b; cbn; intro H; try reflexivity; discriminate H. Qed.

Lemma res_has_ty_fail : forall t r, (forall v, r <> Val v) -> res_has_ty t r = true.
Proof. intros t [v|e|x] H; try reflexivity. exfalso. exact (H v eq_refl). Qed.

Definition TyQ (p : prog) : Prop :=
  wt p -> exists o, run p = Some o /\ (exists w, prog_ty p = Some (w, o_ty o)) /\ res_has_ty (o_ty o) (o_res o) = true.
Definition TyQo (o : outcome) : Prop := match o with RetAsync _ p' => TyQ p' | _ => True end.

(* the typing of a Result that is passed through or produced by a callback *)
Lemma outcome_typed : forall rt o, wt_o rt o -> match o with RetAsync _ _ => True | _ => res_has_ty rt (done_result o) = true end.
Proof.
  intros rt [x|[z|]| |r|k p'] H; cbn in *; try exact I; try reflexivity; subst; try reflexivity; try assumption.
  contradiction.
Qed.

Lemma pass_typed : forall par t rt r,
  step_types par t rt = true -> res_has_ty t r = true -> invoked par r = None -> res_has_ty rt r = true.
Proof.
  intros par t rt r Hs Hr Hi.
  destruct r as [v|e|x]; try reflexivity.
  destruct par; cbn in Hi; try discriminate Hi;
    (rewrite <- (step_types_recovery _ _ _ Hs); [exact Hr|tauto]).
Qed.

Lemma typed_all : forall p, TyQ p.
Proof.
  apply (prog_mind TyQo TyQ); unfold TyQ, TyQo; intros; try exact I; auto.
  - (* PReady *) cbn [wt prog_ty run] in *.
    destruct (w_in w [WF; WT] && res_has_ty t r) eqn:E; [|contradiction H; reflexivity].
    apply andb_prop in E. destruct E as [_ E].
    eexists. split; [reflexivity|]. cbn [o_ty o_res]. split; [eexists; reflexivity|assumption].
  - (* PContract *) cbn [wt prog_ty run] in *.
    destruct (w_in w [WF; WO; WS] && res_has_ty t r && exec_fits w e) eqn:E; [|contradiction H; reflexivity].
    apply andb_prop in E. destruct E as [E _]. apply andb_prop in E. destruct E as [_ E].
    eexists. split; [reflexivity|]. cbn [o_ty o_res]. split; [eexists; reflexivity|assumption].
  - (* PRun *)
    cbn [wt] in H0. destruct H0 as [Hty Hb]. cbn [prog_ty] in Hty.
    destruct (step_types par TVoid rt && exec_fits w e) eqn:E; [|contradiction Hty; reflexivity].
    apply andb_prop in E. destruct E as [Hs He].
    cbn [run prog_ty]. rewrite run_call_class, (step_types_par_ok _ _ _ Hs).
    rewrite Hs, He. cbn [andb].
    unfold by_class.
    destruct (invoked par _) as [i|] eqn:Hi.
    + specialize (H i). specialize (Hb i). pose proof (outcome_typed rt (body i) Hb) as Ht.
      destruct (body i) as [x|v| |r|k p'] eqn:Hbi;
        try (eexists; split; [reflexivity|]; cbn; split; [eexists; reflexivity|exact Ht]).
      cbn [wt_o] in Hb. destruct Hb as [Hw [w' [Hp' _]]].
      destruct (H Hw) as [oi [Hr [[w'' Hty'] Hres]]]. rewrite Hr.
      eexists. split; [reflexivity|]. cbn. split; [eexists; reflexivity|].
      rewrite Hp' in Hty'. inversion Hty'. subst. exact Hres.
    + eexists. split; [reflexivity|]. cbn. split; [eexists; reflexivity|].
      apply (pass_typed par TVoid rt _ Hs); [|exact Hi]. destruct (negb (alive e)); reflexivity.
  - (* PProm *)
    cbn [wt prog_ty run] in *. unfold prom_result.
    destruct (exec_fits w e && match b with PBSet _ r => res_has_ty t r | PBThrow _ => true end) eqn:E;
      [|contradiction H; reflexivity].
    apply andb_prop in E. destruct E as [_ E].
    destruct (negb (alive e)); [|destruct b]; eexists; (split; [reflexivity|]); cbn [o_ty o_res];
      (split; [eexists; reflexivity|]); try reflexivity; try assumption; destruct t; reflexivity.
  - (* PCoro *) cbn [wt prog_ty run] in *.
    destruct (w_in w [WF; WT] && res_has_ty t r) eqn:E; [|contradiction H; reflexivity].
    apply andb_prop in E. destruct E as [_ E].
    eexists. split; [reflexivity|]. cbn [o_ty o_res]. split; [eexists; reflexivity|assumption].
  - (* PThen *)
    cbn [wt] in H1. destruct H1 as [Hty [Hwq Hb]]. cbn [prog_ty] in Hty.
    destruct (H Hwq) as [oq [Hq [[w Htq] Hrq]]].
    rewrite Htq in Hty.
    destruct (step_types par (o_ty oq) rt) eqn:Hs; [|contradiction Hty; reflexivity].
    destruct (then_world w a) as [w'|] eqn:Hw; [|contradiction Hty; reflexivity].
    rewrite (then_unfold _ _ _ _ _ _ _ Hq). unfold step_result.
    rewrite (step_types_par_ok _ _ _ Hs).
    assert (Hpt : prog_ty (PThen q id par a rt body) = Some (w', rt)).
    { cbn [prog_ty]. rewrite Htq, Hs, Hw. reflexivity. }
    assert (Harr : res_has_ty (o_ty oq) (arrives a oq) = true).
    { unfold arrives, seq_input. destruct a; try exact Hrq; destruct (alive _); try exact Hrq;
        destruct (o_ty oq); reflexivity. }
    destruct (invoked par (arrives a oq)) as [i|] eqn:Hi.
    + specialize (H0 i). specialize (Hb i). pose proof (outcome_typed rt (body i) Hb) as Ht.
      destruct (body i) as [x|v| |r|k p'] eqn:Hbi;
        try (eexists; split; [reflexivity|]; split; [eexists; exact Hpt|exact Ht]).
      cbn [wt_o] in Hb. destruct Hb as [Hw' [w'' [Hp' _]]].
      destruct (H0 Hw') as [oi [Hr [[w3 Hty'] Hres]]]. rewrite Hr.
      eexists. split; [reflexivity|]. split; [eexists; exact Hpt|]. cbn.
      rewrite Hp' in Hty'. inversion Hty'. subst. exact Hres.
    + eexists. split; [reflexivity|]. split; [eexists; exact Hpt|]. cbn.
      exact (pass_typed par (o_ty oq) rt _ Hs Harr Hi).
  - (* PToFuture *)
    cbn [wt] in H0. destruct H0 as [Hty Hwq]. destruct (H Hwq) as [oq [Hq [[w Htq] Hrq]]].
    cbn [run]. exists oq. split; [exact Hq|]. split; [|exact Hrq].
    cbn [prog_ty] in *. rewrite Htq in *. destruct w; try (contradiction Hty; reflexivity). eexists; reflexivity.
  - (* POnNull *)
    cbn [wt] in H0. destruct H0 as [Hty Hwq]. destruct (H Hwq) as [oq [Hq [[w Htq] Hrq]]].
    cbn [run]. exists oq. split; [exact Hq|]. split; [|exact Hrq].
    cbn [prog_ty] in *. rewrite Htq in *. destruct w; try (contradiction Hty; reflexivity); eexists; reflexivity.
Qed.

(* a program that type-checks runs (the static_assert branch of the model is unreachable) ... *)
Theorem typed_runs : forall p, wt p -> exists o, core_run p = Some o.
Proof. intros p H. destruct (typed_all p H) as [o [Hr _]]. exists o. exact Hr. Qed.

(* ... and its final Result has the static value type of the handle *)
Theorem type_sound : forall p o, wt p -> core_run p = Some o ->
  (exists w, prog_ty p = Some (w, o_ty o)) /\ res_has_ty (o_ty o) (o_res o) = true.
Proof.
  intros p o H Hr. destruct (typed_all p H) as [o' [Hr' [Ht Hv]]].
  unfold core_run in Hr. rewrite Hr in Hr'. inversion Hr'. subst. split; assumption.
Qed.

(* the model says "does not compile" only for a step whose parameter class does not exist in its world *)
Lemma none_only_ill_typed : forall q id par a rt body oq,
  run q = Some oq -> run (PThen q id par a rt body) = None ->
  par_ok par (o_ty oq) = false \/
  exists i k p', invoked par (arrives a oq) = Some i /\ body i = RetAsync k p' /\ run p' = None.
Proof.
  intros q id par a rt body oq Hq H. rewrite (then_unfold _ _ _ _ _ _ _ Hq) in H. unfold step_result in H.
  destruct (par_ok par (o_ty oq)); [|left; reflexivity]. right.
  destruct (invoked par (arrives a oq)) as [i|]; [|discriminate].
  destruct (body i) as [x|v| |r|k p'] eqn:Hb; try discriminate.
  destruct (run p') eqn:Hr; [discriminate|]. exists i, k, p'. repeat split; assumption.
Qed.

(* ---------------------------------------------------------------- one shared source, several users *)

Lemma run_handle_of : forall os, run (handle_of os) = Some (Out (o_res os) XInline (o_ty os) []).
Proof. reflexivity. Qed.

(* whichever pipeline returns the shared handle from a callback, and whatever ran before (other pipelines that flattened
   the same handle included), the step completes with the Result stored in the shared state and adds one invocation *)
Lemma shared_handle_same_result : forall os q id par a rt body oq o i,
  run q = Some oq -> run (PThen q id par a rt body) = Some o ->
  invoked par (arrives a oq) = Some i -> body i = RetAsync KShared (handle_of os) ->
  o_res o = o_res os /\ o_evs o = o_evs oq ++ [Ev id (exec_of a oq) (is_call a) i].
Proof.
  intros os q id par a rt body oq o i Hq H Hi Hb.
  pose proof (invoked_outcome q id par a rt body oq o i Hq H Hi) as Ho. rewrite Hb in Ho.
  destruct Ho as [oi [Hr [Hres Hev]]]. rewrite run_handle_of in Hr. inversion Hr; subst. cbn in *.
  split; assumption.
Qed.
