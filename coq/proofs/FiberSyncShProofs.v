(* SharedMutex / SharedTimedMutex: invariant of the Sh machine (repaired text) and the C18 lemmas.
   All traces, any number of fibers, any timeouts, both outcomes of SharedMutex::unlock's coin. *)
From Coq Require Import List Arith Bool Lia.
Import ListNotations.
From YV Require Import model.FiberSync proofs.FiberSyncLemmas.
Import Sh.

Definition good (v : variant) : Prop :=
  v_sh_while v = true /\ v_shs_while v = true /\ v_st_while v = true /\ v_st_helper v = true /\ v_shs_eq v = true.

(* which queue a waiting fiber sits in: true = _exclusive_queue *)
Definition in_eq (p : pc) : Prop := match p with InLockX | InLockS | InTimed true _ _ => True | _ => False end.
Definition in_sq (p : pc) : Prop := match p with InTimed false _ _ => True | _ => False end.

(* inside a lock operation and already taken out of its queue by a notify *)
Definition notified (s : st) (g : fid) : Prop :=
  match pcs s g with
  | InLockX | InLockS | InTimed true _ _ => ~ In g (eq s)
  | InTimed false _ _ => ~ In g (sq s)
  | Idle => False
  end.

Definition ok_res (r : res) : Prop :=
  match r with
  | RTry _ _ false j => j = true          (* a failed try: an incompatible holder existed *)
  | RTimed _ _ false dl t => dl <= t      (* a failed timed lock: its deadline has passed *)
  | _ => True
  end.

Definition abs_ok (s : st) : Prop :=
  match xh s, sh s with
  | [], [] => occ s = false
  | [_], [] => occ s = true /\ exm s = true
  | [], _ :: _ => occ s = true /\ exm s = false
  | _, _ => False
  end.

Record Inv (s : st) : Prop := {
  a_abs : abs_ok s;
  a_cnt : cnt s = length (sh s);
  a_nd : NoDup (sh s);
  a_eq : forall f, In f (eq s) -> in_eq (pcs s f);
  a_sq : forall f, In f (sq s) -> in_sq (pcs s f);
  a_nh : forall f, In f (xh s) \/ In f (sh s) -> pcs s f = Idle;
  a_wake : occ s = false -> eq s <> [] -> exists g, notified s g;
  a_log : Forall ok_res (log s)
}.

Lemma inv_init : Inv init.
Proof.
  constructor; simpl; auto; try contradiction; try congruence; try reflexivity; try constructor;
    try (intros f [[]|[]]).
Qed.

Ltac pc_goal :=
  intros;
  repeat match goal with
         | H : In _ (_ ++ [_]) |- _ => apply In_app1 in H; destruct H
         | H : In _ (rem _ _) |- _ => apply In_rem in H; destruct H
         | H : In _ (_ :: _) |- _ => destruct H
         | H : _ \/ _ |- _ => destruct H
         | H : _ /\ _ |- _ => destruct H
         end;
  subst; unfold upd in *;
  repeat match goal with
         | |- context [Nat.eqb ?a ?b] => destruct (Nat.eqb_spec a b); subst
         | H : context [Nat.eqb ?a ?b] |- _ => destruct (Nat.eqb_spec a b); subst
         end;
  simpl in *; try contradiction; try congruence; try discriminate; try lia; eauto.

(* reading the abstraction *)
Lemma abs_free s : abs_ok s -> occ s = false -> xh s = [] /\ sh s = [].
Proof.
  unfold abs_ok. destruct (xh s) as [|a [|b l]], (sh s) as [|c m]; intros H O; try contradiction; auto;
    destruct H; congruence.
Qed.
Lemma abs_shared s : abs_ok s -> occ s = true -> exm s = false -> xh s = [] /\ sh s <> [].
Proof.
  unfold abs_ok. destruct (xh s) as [|a [|b l]], (sh s) as [|c m]; intros H O E; try contradiction;
    try (destruct H; congruence); try congruence. split; [reflexivity|discriminate].
Qed.
Lemma abs_excl s : abs_ok s -> occ s = true -> exm s = true -> (exists h, xh s = [h]) /\ sh s = [].
Proof.
  unfold abs_ok. destruct (xh s) as [|a [|b l]], (sh s) as [|c m]; intros H O E; try contradiction;
    try (destruct H; congruence); try congruence. split; [eauto|reflexivity].
Qed.
Lemma abs_occupied s : abs_ok s -> occ s = true -> xh s <> [] \/ sh s <> [].
Proof.
  unfold abs_ok. destruct (xh s) as [|a [|b l]], (sh s) as [|c m]; intros H O; try contradiction;
    try congruence; try (left; discriminate); right; discriminate.
Qed.
Lemma abs_xholder s f : abs_ok s -> In f (xh s) -> xh s = [f] /\ sh s = [] /\ occ s = true /\ exm s = true.
Proof.
  unfold abs_ok. destruct (xh s) as [|a [|b l]], (sh s) as [|c m]; intros H I; try contradiction.
  destruct I as [->|[]]. tauto.
Qed.
Lemma abs_sholder s f : abs_ok s -> In f (sh s) -> xh s = [] /\ occ s = true /\ exm s = false.
Proof.
  unfold abs_ok. destruct (xh s) as [|a [|b l]], (sh s) as [|c m]; intros H I; try contradiction. tauto.
Qed.

Lemma set_now_inv s t : Inv s -> Inv (set_now s t).
Proof. intros I. destruct I. constructor; simpl; auto. Qed.
Lemma set_sm_inv s m : Inv s -> Inv (set_sm s m).
Proof. intros I. destruct I. constructor; simpl; auto. Qed.
Lemma add_log_inv s r : Inv s -> ok_res r -> Inv (add_log s r).
Proof. intros I H. destruct I. constructor; simpl; auto. Qed.

Lemma idle_not_queued s f : Inv s -> pcs s f = Idle -> ~ In f (eq s) /\ ~ In f (sq s).
Proof.
  intros I P. split; intro H.
  - apply (a_eq s I) in H. rewrite P in H. exact H.
  - apply (a_sq s I) in H. rewrite P in H. exact H.
Qed.

Lemma waiting_not_holder s f : Inv s -> pcs s f <> Idle -> ~ In f (xh s) /\ ~ In f (sh s).
Proof. intros I P. split; intro H; apply P; apply (a_nh s I); auto. Qed.

Lemma in_eq_not_sq s f : Inv s -> in_eq (pcs s f) -> ~ In f (sq s).
Proof. intros I P H. apply (a_sq s I) in H. destruct (pcs s f) as [| | |[] ? ?]; simpl in *; auto. Qed.
Lemma in_sq_not_eq s f : Inv s -> in_sq (pcs s f) -> ~ In f (eq s).
Proof. intros I P H. apply (a_eq s I) in H. destruct (pcs s f) as [| | |[] ? ?]; simpl in *; auto. Qed.

(* ---- entering: LockHelper / SharedLockHelper when the test lets the fiber through; the fiber becomes idle *)
Lemma enter_inv s f x hx :
  Inv s -> blocked s x = false -> ~ In f (eq s) -> ~ In f (sq s) -> ~ In f (xh s) -> ~ In f (sh s) ->
  hx = x ->
  Inv (set_pc (believe (if hx then helper_x s else helper_s s) f x) f Idle).
Proof.
  intros I B He Hs Hx Hh ->. unfold blocked in B.
  destruct x; simpl in B.
  - (* exclusive: the lock was free *)
    rewrite andb_true_r in B. destruct (abs_free s (a_abs s I) B) as [EX ES].
    destruct I. constructor; simpl; auto; try solve [pc_goal];
      try solve [unfold abs_ok; simpl; rewrite EX, ES; auto]; try solve [rewrite EX, ES; pc_goal]; try congruence.
  - (* shared: free, or held shared *)
    assert (C : (xh s = [] /\ sh s = []) \/ (xh s = [] /\ sh s <> [] /\ occ s = true)).
    { destruct (occ s) eqn:O; simpl in B.
      - right. destruct (abs_shared s (a_abs s I) O B). auto.
      - left. apply abs_free; auto. apply (a_abs s I). }
    destruct I. constructor; simpl; auto; try solve [pc_goal];
      try solve [unfold abs_ok; simpl; destruct C as [[E1 _]|[E1 _]]; rewrite E1; auto];
      try solve [constructor; assumption]; try congruence.
Qed.

(* the same for a fiber that is idle already (try_lock / try_lock_shared) *)
Lemma enter_idle_inv s f x :
  Inv s -> blocked s x = false -> pcs s f = Idle -> ~ In f (xh s) -> ~ In f (sh s) ->
  Inv (believe (if x then helper_x s else helper_s s) f x).
Proof.
  intros I B P Hx Hh. unfold blocked in B.
  destruct x; simpl in B.
  - rewrite andb_true_r in B. destruct (abs_free s (a_abs s I) B) as [EX ES].
    destruct I. constructor; simpl; auto; try solve [pc_goal];
      try solve [unfold abs_ok; simpl; rewrite EX, ES; auto]; try solve [rewrite EX, ES; pc_goal]; try congruence.
  - assert (C : (xh s = [] /\ sh s = []) \/ (xh s = [] /\ sh s <> [] /\ occ s = true)).
    { destruct (occ s) eqn:O; simpl in B.
      - right. destruct (abs_shared s (a_abs s I) O B). auto.
      - left. apply abs_free; auto. apply (a_abs s I). }
    destruct I. constructor; simpl; auto; try solve [pc_goal];
      try solve [unfold abs_ok; simpl; destruct C as [[E1 _]|[E1 _]]; rewrite E1; auto];
      try solve [constructor; assumption]; try congruence.
Qed.

(* ---- parking while the lock is occupied *)
Lemma park_eq_inv s f p :
  Inv s -> occ s = true -> in_eq p -> ~ In f (sq s) -> ~ In f (xh s) -> ~ In f (sh s) ->
  Inv (set_pc (set_eq s (eq s ++ [f])) f p).
Proof.
  intros I O P Hs Hx Hh. destruct I. constructor; simpl; auto; try solve [pc_goal].
Qed.

Lemma park_sq_inv s f p :
  Inv s -> occ s = true -> in_sq p -> ~ In f (eq s) -> ~ In f (xh s) -> ~ In f (sh s) ->
  Inv (set_pc (set_sq s (sq s ++ [f])) f p).
Proof.
  intros I O P He Hx Hh. destruct I. constructor; simpl; auto; try solve [pc_goal].
Qed.

(* ---- a waiter leaves its queue by timeout *)
Lemma notified_frame s s' g :
  notified s g -> pcs s' g = pcs s g -> (forall x, In x (eq s') -> In x (eq s)) ->
  (forall x, In x (sq s') -> In x (sq s)) -> notified s' g.
Proof.
  unfold notified. intros N P E S. rewrite P. destruct (pcs s g) as [| | |[] ? ?]; auto.
Qed.

Lemma leave_inv s f x :
  Inv s -> In f (wq s x) -> (if x then in_eq (pcs s f) else in_sq (pcs s f)) ->
  Inv (set_pc (set_wq s x (rem f (wq s x))) f Idle).
Proof.
  intros I Hf Hp.
  assert (NF : ~ notified s f).
  { unfold notified. destruct x; simpl in Hf; destruct (pcs s f) as [| | |[] ? ?]; simpl in Hp; tauto. }
  assert (OQ : ~ In f (wq s (negb x))).
  { destruct x; simpl; [apply in_eq_not_sq|apply in_sq_not_eq]; assumption. }
  pose proof (waiting_not_holder s f I) as WH.
  assert (W : pcs s f <> Idle) by (intro E; rewrite E in Hp; destruct x; exact Hp).
  destruct (WH W) as [HX HS].
  assert (WK : forall s', pcs s' = upd (pcs s) f Idle -> (forall y, In y (eq s') -> In y (eq s)) ->
               (forall y, In y (sq s') -> In y (sq s)) -> occ s = false -> eq s <> [] -> exists g, notified s' g).
  { intros s' P E S O Q. destruct (a_wake s I O Q) as [g Hg]. exists g.
    assert (g <> f) by (intro; subst; contradiction).
    apply (notified_frame s); auto. rewrite P. apply upd_neq. assumption. }
  destruct I. destruct x; simpl in *.
  - constructor; simpl; auto; try solve [pc_goal];
      try solve [intros g Hg; assert (g <> f) by (intro; subst; contradiction); rewrite upd_neq; auto].
    intros O Hne. assert (Q : eq s <> []) by (intro E; rewrite E in Hf; contradiction).
    apply WK; auto; simpl; auto. intros y Hy. apply In_rem in Hy. tauto.
  - constructor; simpl; auto; try solve [pc_goal];
      try solve [intros g Hg; assert (g <> f) by (intro; subst; contradiction); rewrite upd_neq; auto].
    intros O Hne. apply WK; auto; simpl; auto. intros y Hy. apply In_rem in Hy. tauto.
Qed.

Lemma set_wq_rem_id s f x : ~ In f (wq s x) -> set_wq s x (rem f (wq s x)) = s.
Proof.
  intros H. destruct x; simpl in *; unfold set_eq, set_sq; rewrite rem_not_In by assumption; destruct s; reflexivity.
Qed.

(* ---- SharedMutex::lock / lock_shared at the test *)
Lemma lock_head_inv v s f x first :
  Inv s -> v_shs_eq v = true -> first = true \/ uses_while v x = true ->
  ~ In f (eq s) -> ~ In f (sq s) -> ~ In f (xh s) -> ~ In f (sh s) ->
  Inv (lock_head v s f x first).
Proof.
  intros I HQ Hv He Hs Hx Hh. unfold lock_head. rewrite HQ, orb_true_r. simpl.
  assert (C : blocked s x && (first || uses_while v x) = blocked s x).
  { destruct Hv as [->| ->]; simpl; rewrite ?orb_true_r, andb_true_r; reflexivity. }
  rewrite C. destruct (blocked s x) eqn:B.
  - unfold blocked in B. boolp. apply park_eq_inv; auto. destruct x; exact Logic.I.
  - apply add_log_inv; [|exact Logic.I]. apply enter_inv; auto.
Qed.

(* ---- SharedTimedMutex::TimedWaitHelper at the test *)
Lemma timed_head_inv v s f x tm first :
  Inv s -> first = true \/ v_st_while v = true -> v_st_helper v = true ->
  ~ In f (eq s) -> ~ In f (sq s) -> ~ In f (xh s) -> ~ In f (sh s) ->
  Inv (timed_head v s f x tm first).
Proof.
  intros I Hv Hh' He Hs Hx Hh. unfold timed_head.
  assert (C : blocked s x && (first || v_st_while v) = blocked s x).
  { destruct Hv as [->| ->]; simpl; rewrite ?orb_true_r, andb_true_r; reflexivity. }
  rewrite C. destruct (blocked s x) eqn:B.
  - destruct (Nat.leb (deadline (now s) tm) (now s)) eqn:L.
    + boolp. apply add_log_inv; [|simpl; assumption].
      destruct I. constructor; simpl; auto; try solve [pc_goal].
      * intros O Hne. destruct (a_wake0 O Hne) as [g Hg]. exists g.
        assert (g <> f). { intro. subst. unfold notified in Hg. unfold blocked in B. boolp. congruence. }
        apply (notified_frame s); auto. simpl. apply upd_neq. assumption.
    + unfold blocked in B. boolp.
      change (Inv (set_sm (set_pc (set_wq s x (wq s x ++ [f])) f (InTimed x tm (deadline (now s) tm)))
                          (sm_sleep (sm s) (deadline (now s) tm) f))).
      apply set_sm_inv. destruct x; simpl.
      * apply park_eq_inv; simpl; auto.
      * apply park_sq_inv; simpl; auto.
  - apply add_log_inv; [|exact Logic.I]. apply enter_inv; auto. rewrite Hh'. apply andb_true_r.
Qed.

(* ---- SharedMutex::unlock *)
Lemma release_x_inv s f rnd pick s' :
  Inv s -> In f (xh s) -> release_x s f rnd pick = Some s' -> Inv s' /\ pcs s' = pcs s /\ log s' = log s.
Proof.
  intros I Hf. destruct (abs_xholder s f (a_abs s I) Hf) as [EX [ES [O E]]].
  unfold release_x. destruct (nonempty (sq s) && (negb (nonempty (eq s)) || rnd)) eqn:U.
  - (* NotifyAll on the shared queue *)
    intros H. inv H. simpl. split; [|auto]. boolp. apply nonempty_true in H.
    destruct I. constructor; simpl; auto; try contradiction.
    + unfold abs_ok. simpl. rewrite EX, ES, rem_single. reflexivity.
    + intros g [Hg|Hg]; [|auto]. rewrite EX, rem_single in Hg. contradiction.
    + intros _ _. destruct (sq s) as [|g l] eqn:SQ; [congruence|]. exists g. unfold notified. simpl.
      assert (P : in_sq (pcs s g)) by (apply a_sq0; left; reflexivity).
      destruct (pcs s g) as [| | |[] ? ?]; simpl in P; try contradiction. simpl. auto.
  - destruct (notify_one (eq s) pick) as [[l gone]|] eqn:N; [|discriminate].
    intros H. inv H. simpl. split; [|auto]. apply notify_one_spec in N.
    destruct I. constructor; simpl; auto.
    + unfold abs_ok. simpl. rewrite EX, ES, rem_single. reflexivity.
    + destruct N as [[_ [-> _]]|[g [Hg [-> _]]]]; [contradiction|].
      intros y Hy. apply In_rem in Hy. apply a_eq0. tauto.
    + intros g [Hg|Hg]; [|auto]. rewrite EX, rem_single in Hg. contradiction.
    + intros _ Hne. destruct N as [[_ [-> _]]|[g [Hg [-> _]]]]; [congruence|].
      exists g. unfold notified. simpl. pose proof (a_eq0 g Hg) as P.
      destruct (pcs s g) as [| | |[] ? ?]; simpl in P; try contradiction; apply not_In_rem.
Qed.

Lemma length_rem_nodup f l : NoDup l -> In f l -> S (length (rem f l)) = length l.
Proof.
  induction l as [|x l IH]; simpl; intros ND H; [contradiction|]. inv ND.
  unfold rem in *. simpl. destruct (Nat.eqb_spec x f).
  - subst. simpl. f_equal. fold (rem f l). rewrite rem_not_In; auto.
  - simpl. destruct H as [E|H]; [congruence|]. rewrite IH; auto.
Qed.

Lemma nodup_rem f l : NoDup l -> NoDup (rem f l).
Proof. intros H. unfold rem. apply NoDup_filter. assumption. Qed.

(* ---- SharedMutex::unlock_shared *)
Lemma release_s_inv s f pick s' :
  Inv s -> In f (sh s) -> release_s s f pick = Some s' -> Inv s' /\ pcs s' = pcs s /\ log s' = log s.
Proof.
  intros I Hf. destruct (abs_sholder s f (a_abs s I) Hf) as [EX [O E]].
  pose proof (length_rem_nodup f (sh s) (a_nd s I) Hf) as LR.
  pose proof (a_cnt s I) as CN.
  unfold release_s. destruct (cnt s) as [|[|c]] eqn:C; [discriminate| |].
  - (* the last reader leaves *)
    destruct (notify_one (eq s) pick) as [[l gone]|] eqn:N; [|discriminate].
    intros H. inv H. simpl. split; [|auto]. apply notify_one_spec in N.
    assert (R0 : rem f (sh s) = []) by (destruct (rem f (sh s)); [reflexivity|simpl in LR; lia]).
    destruct I. constructor; simpl; auto; rewrite ?R0; simpl; auto;
      try solve [unfold abs_ok; simpl; rewrite ?EX, ?R0; reflexivity]; try solve [constructor];
      try solve [intros g [Hg|[]]; auto].
    + destruct N as [[_ [-> _]]|[g [Hg [-> _]]]]; [contradiction|].
      intros y Hy. apply In_rem in Hy. apply a_eq0. tauto.
    + intros _ Hne. destruct N as [[_ [-> _]]|[g [Hg [-> _]]]]; [congruence|].
      exists g. unfold notified. simpl. pose proof (a_eq0 g Hg) as P.
      destruct (pcs s g) as [| | |[] ? ?]; simpl in P; try contradiction; apply not_In_rem.
  - intros H. inv H. simpl. split; [|auto].
    destruct I. constructor; simpl; auto; try lia; try congruence;
      try solve [unfold abs_ok; simpl; rewrite EX; destruct (rem f (sh s)) eqn:R; [simpl in LR; lia|auto]];
      try solve [apply nodup_rem; assumption];
      try solve [intros g [Hg|Hg]; [auto|]; apply In_rem in Hg; apply a_nh0; tauto].
Qed.

(* ---- one step *)
Lemma step_inv v s e s' : good v -> Inv s -> step v s e = Some s' -> Inv s'.
Proof.
  intros [Hx [Hs [Ht [Hh HQ]]]] I H. destruct e as [f t|f o]; unfold step in H; rewrite ?HQ in H.
  - destruct (Nat.leb (now s) t) eqn:L; [|discriminate]. cbv zeta in H.
    pose proof (set_now_inv s t I) as I1.
    remember (set_now s t) as s1 eqn:E1. clear E1 I L.
    destruct (pcs s1 f) as [| | |x tm dl] eqn:PC.
    + some_inv. assumption.
    + destruct (mem f (eq s1)) eqn:M; [discriminate|]. some_inv. boolp.
      assert (W : pcs s1 f <> Idle) by (rewrite PC; discriminate).
      destruct (waiting_not_holder s1 f I1 W).
      apply lock_head_inv; auto. apply in_eq_not_sq; auto. rewrite PC. exact Logic.I.
    + change (wq s1 true) with (eq s1) in H.
      destruct (mem f (eq s1)) eqn:M; [discriminate|]. some_inv. boolp.
      assert (W : pcs s1 f <> Idle) by (rewrite PC; discriminate).
      destruct (waiting_not_holder s1 f I1 W).
      apply lock_head_inv; auto. apply in_eq_not_sq; auto. rewrite PC. exact Logic.I.
    + destruct (wait_status f (wq s1 x) (Some dl) t) as [r|] eqn:WS; [|discriminate].
      apply wait_status_spec in WS.
      assert (W : pcs s1 f <> Idle) by (rewrite PC; discriminate).
      destruct (waiting_not_holder s1 f I1 W) as [HX HS].
      assert (OQ : ~ In f (wq s1 (negb x))).
      { destruct x; simpl; [apply in_eq_not_sq|apply in_sq_not_eq]; auto; rewrite PC; exact Logic.I. }
      destruct r; some_inv.
      * destruct WS as [[_ Hq]|[E _]]; [|discriminate].
        rewrite set_wq_rem_id by assumption.
        apply timed_head_inv; simpl; auto; try (apply set_sm_inv; assumption);
          destruct x; simpl in *; assumption.
      * destruct WS as [[E _]|[_ [Hin [d [E Hd]]]]]; [discriminate|]. inv E.
        apply add_log_inv; [|simpl; lia].
        change (Inv (set_sm (set_pc (set_wq s1 x (rem f (wq s1 x))) f Idle) (sm_after (v_sl_guard v) (sm s1) d t))).
        apply set_sm_inv. apply leave_inv; auto. rewrite PC. destruct x; exact Logic.I.
  - destruct (pcs s f) eqn:PC; try discriminate.
    destruct (idle_not_queued s f I PC) as [HE HS].
    destruct o as [| |rnd pick| | |pick|tm|tm].
    + destruct (held s f) eqn:HD; [discriminate|]. some_inv. unfold held in HD. boolp.
      apply lock_head_inv; auto.
    + destruct (held s f) eqn:HD; [discriminate|]. unfold held in HD. boolp.
      destruct (blocked s true) eqn:B; some_inv.
      * apply add_log_inv; auto. simpl. unfold blocked in B. simpl in B. rewrite andb_true_r in B.
        destruct (abs_occupied s (a_abs s I) B) as [X|X]; apply nonempty_true in X; rewrite X; auto.
        apply orb_true_r.
      * apply add_log_inv; [|exact Logic.I]. apply (enter_idle_inv s f true); auto.
    + destruct (mem f (xh s)) eqn:M; [|discriminate]. boolp.
      destruct (release_x s f rnd pick) as [s1|] eqn:R; [|discriminate]. some_inv.
      apply release_x_inv in R; auto. destruct R as [I1 _]. apply add_log_inv; [assumption|exact Logic.I].
    + destruct (held s f) eqn:HD; [discriminate|]. some_inv. unfold held in HD. boolp.
      apply lock_head_inv; auto.
    + destruct (held s f) eqn:HD; [discriminate|]. unfold held in HD. boolp.
      destruct (blocked s false) eqn:B; some_inv.
      * apply add_log_inv; auto. simpl. unfold blocked in B. simpl in B. apply andb_true_iff in B.
        destruct B as [BO BE]. destruct (abs_excl s (a_abs s I) BO BE) as [[h ->] _]. reflexivity.
      * apply add_log_inv; [|exact Logic.I]. apply (enter_idle_inv s f false); auto.
    + destruct (mem f (sh s)) eqn:M; [|discriminate]. boolp.
      destruct (release_s s f pick) as [s1|] eqn:R; [|discriminate]. some_inv.
      apply release_s_inv in R; auto. destruct R as [I1 _]. apply add_log_inv; [assumption|exact Logic.I].
    + destruct (held s f) eqn:HD; [discriminate|]. some_inv. unfold held in HD. boolp.
      apply timed_head_inv; auto.
    + destruct (held s f) eqn:HD; [discriminate|]. some_inv. unfold held in HD. boolp.
      apply timed_head_inv; auto.
Qed.

Lemma run_inv v tr : good v -> forall s s', Inv s -> run v s tr = Some s' -> Inv s'.
Proof.
  intros Hv. induction tr as [|e tr IH]; simpl; intros s s' I H.
  - inv H. assumption.
  - destruct (step v s e) as [s1|] eqn:E; [|discriminate]. eapply IH; [|exact H]. eapply step_inv; eauto.
Qed.

Lemma reach_inv v tr s : good v -> run v init tr = Some s -> Inv s.
Proof. intros Hv H. eapply run_inv; eauto. apply inv_init. Qed.

(* ================================================================== the C18 statements about Sh *)
Definition quiescent (s : st) : Prop := forall g, resumable s g = false.

(* holders_compatible: at most one exclusive holder, and then no shared holder *)
Lemma holders_compatible s : Inv s -> length (xh s) <= 1 /\ (xh s <> [] -> sh s = []).
Proof.
  intros I. pose proof (a_abs s I) as A. unfold abs_ok in A.
  destruct (xh s) as [|a [|b l]], (sh s) as [|c m]; try contradiction; simpl; split; auto; congruence.
Qed.

(* success really holds in the requested mode: the concrete state of the mutex says what the client believes *)
Lemma xholder_really_holds s f :
  Inv s -> In f (xh s) -> xh s = [f] /\ sh s = [] /\ occ s = true /\ exm s = true.
Proof. intros I. apply abs_xholder. apply (a_abs s I). Qed.

Lemma sholder_really_holds s f :
  Inv s -> In f (sh s) -> xh s = [] /\ occ s = true /\ exm s = false /\ cnt s = length (sh s) /\ NoDup (sh s).
Proof.
  intros I H. destruct (abs_sholder s f (a_abs s I) H) as [A [B C]].
  repeat split; auto; [apply (a_cnt s I)|apply (a_nd s I)].
Qed.

Lemma free_iff_no_holder s : Inv s -> (occ s = false <-> xh s = [] /\ sh s = []).
Proof.
  intros I. split.
  - apply abs_free. apply (a_abs s I).
  - intros [A B]. pose proof (a_abs s I) as C. unfold abs_ok in C. rewrite A, B in C. exact C.
Qed.

(* (fiber, exclusive?) a result entry reports a successful acquisition for *)
Definition winner (r : res) : option (fid * bool) :=
  match r with
  | RLock f x => Some (f, x)
  | RTry f x true _ => Some (f, x)
  | RTimed f x true _ _ => Some (f, x)
  | _ => None
  end.

Definition holds (s : st) (g : fid) (x : bool) : Prop := if x then In g (xh s) else In g (sh s).

Lemma list_neq_cons {A} (x : A) l : l <> x :: l.
Proof. intro H. apply (f_equal (@length A)) in H. simpl in H. lia. Qed.

Lemma lock_head_winner v s f x first r g y :
  log (lock_head v s f x first) = r :: log s -> winner r = Some (g, y) -> holds (lock_head v s f x first) g y.
Proof.
  unfold lock_head. destruct (blocked s x && _); simpl; intros E W.
  - exfalso. destruct (x || v_shs_eq v); simpl in E; exact (list_neq_cons _ _ E).
  - inv E. inv W. unfold holds. destruct y; simpl; left; reflexivity.
Qed.

Lemma timed_head_winner v s f x tm first r g y :
  log (timed_head v s f x tm first) = r :: log s -> winner r = Some (g, y) ->
  holds (timed_head v s f x tm first) g y.
Proof.
  unfold timed_head. destruct (blocked s x && _); [destruct (Nat.leb _ _)|]; simpl; intros E W.
  - inv E. discriminate.
  - exfalso. destruct x; simpl in E; exact (list_neq_cons _ _ E).
  - inv E. inv W. unfold holds. destruct y; simpl; left; reflexivity.
Qed.

Lemma step_winner v s e s' r g y :
  step v s e = Some s' -> log s' = r :: log s -> winner r = Some (g, y) -> holds s' g y.
Proof.
  intros H. destruct e as [f t|f o]; unfold step in H.
  - destruct (Nat.leb (now s) t); [|discriminate]. cbv zeta in H.
    assert (EL : log (set_now s t) = log s) by reflexivity.
    remember (set_now s t) as s1 eqn:E1. clear E1. rewrite <- EL. clear EL.
    destruct (pcs s1 f) as [| | |x tm dl] eqn:PC.
    + some_inv. intros E. exfalso. exact (list_neq_cons _ _ E).
    + destruct (mem f (eq s1)); [discriminate|]. some_inv. apply lock_head_winner.
    + destruct (mem f (wq s1 (v_shs_eq v))); [discriminate|]. some_inv. apply lock_head_winner.
    + destruct (wait_status f (wq s1 x) (Some dl) t) as [[]|]; some_inv.
      * intros E W. eapply timed_head_winner; [|exact W]. destruct x; exact E.
      * simpl. intros E W. inv E. discriminate.
  - destruct (pcs s f) eqn:PC; try discriminate.
    destruct o as [| |rnd pick| | |pick|tm|tm].
    + destruct (held s f); [discriminate|]. some_inv. apply lock_head_winner.
    + destruct (held s f); [discriminate|]. destruct (blocked s true); some_inv; simpl; intros E W; inv E; inv W.
      simpl. left. reflexivity.
    + destruct (mem f (xh s)); [|discriminate]. destruct (release_x s f rnd pick); [|discriminate]. some_inv.
      simpl. intros E W. inv E. discriminate.
    + destruct (held s f); [discriminate|]. some_inv. apply lock_head_winner.
    + destruct (held s f); [discriminate|]. destruct (blocked s false); some_inv; simpl; intros E W; inv E; inv W.
      simpl. left. reflexivity.
    + destruct (mem f (sh s)); [|discriminate]. destruct (release_s s f pick); [|discriminate]. some_inv.
      simpl. intros E W. inv E. discriminate.
    + destruct (held s f); [discriminate|]. some_inv. apply timed_head_winner.
    + destruct (held s f); [discriminate|]. some_inv. apply timed_head_winner.
Qed.

Lemma results_ok s : Inv s -> Forall ok_res (log s).
Proof. apply a_log. Qed.

(* blocked_eventually_woken: in a quiescent state nobody is parked in lock()/lock_shared() on a FREE lock *)
Lemma blocked_woken s f :
  Inv s -> quiescent s -> pcs s f = InLockX \/ pcs s f = InLockS ->
  occ s = true /\ (xh s <> [] \/ sh s <> []) /\ ~ In f (xh s) /\ ~ In f (sh s).
Proof.
  intros I Q P. pose proof (Q f) as R. unfold resumable in R.
  assert (IN : In f (eq s)).
  { destruct P as [P|P]; rewrite P in R.
    - boolp. assumption.
    - apply negb_false_iff in R. apply orb_true_iff in R. destruct R as [R|R]; apply mem_In in R; [assumption|].
      apply (a_sq s I) in R. rewrite P in R. contradiction. }
  assert (NE : eq s <> []) by (intro E; rewrite E in IN; contradiction).
  assert (W : pcs s f <> Idle) by (destruct P as [P|P]; rewrite P; discriminate).
  destruct (waiting_not_holder s f I W) as [HX HS].
  destruct (occ s) eqn:O.
  - split; [reflexivity|]. split; [|auto]. apply abs_occupied; auto. apply (a_abs s I).
  - exfalso. destruct (a_wake s I O NE) as [g Hg]. pose proof (Q g) as Rg.
    unfold resumable in Rg. unfold notified in Hg.
    destruct (pcs s g) as [| | |[] ? ?] eqn:PG; try contradiction; try discriminate.
    + boolp. contradiction.
    + apply negb_false_iff in Rg. apply orb_true_iff in Rg.
      destruct Rg as [Rg|Rg]; apply mem_In in Rg; [contradiction|].
      apply (a_sq s I) in Rg. rewrite PG in Rg. exact Rg.
Qed.
