(* Thread join, thread-local pointers, and the scheduler's sleep map: invariants and C18 lemmas. *)
From Coq Require Import List Arith Bool Lia.
Import ListNotations.
From YV Require Import model.FiberSync proofs.FiberSyncLemmas.

(* ================================================================== sleep map: no end() dereference *)
Lemma ub_sleep m ns f : ub (sm_sleep m ns f) = ub m.  Proof. reflexivity. Qed.
Lemma ub_unlink m l : ub (sm_unlink m l) = ub m.      Proof. reflexivity. Qed.
Lemma ub_wake m T : ub (sm_wake m T) = ub m.          Proof. reflexivity. Qed.
Lemma ub_after m ns now : ub (sm_after true m ns now) = ub m.
Proof. unfold sm_after. destruct (mem ns (keys m)); [destruct (existsb _ _)|]; reflexivity. Qed.

Ltac split_all :=
  repeat match goal with
         | H : Some _ = Some _ |- _ => inversion H; subst; clear H
         | H : None = Some _ |- _ => discriminate H
         | H : context [match ?x with _ => _ end] |- _ => destruct x eqn:?
         | H : context [if ?x then _ else _] |- _ => destruct x eqn:?
         end.

Ltac ub_done G :=
  simpl; rewrite ?G; unfold sm_after;
  repeat match goal with
         | |- context [if ?x then _ else _] => destruct x
         | |- context [match ?x with _ => _ end] => destruct x
         end; simpl; try assumption; try reflexivity.

Lemma mx_step_ub v s e s' :
  v_sl_guard v = true -> ub (Mx.sm s) = false -> Mx.step v s e = Some s' -> ub (Mx.sm s') = false.
Proof.
  intros G U H. destruct e as [f t|f o]; unfold Mx.step, Mx.timed_head, Mx.do_lock, Mx.release in H; cbv zeta in H;
    [|destruct o]; split_all; ub_done G.
Qed.

Lemma rc_step_ub v s e s' :
  v_sl_guard v = true -> ub (Rc.sm s) = false -> Rc.step v s e = Some s' -> ub (Rc.sm s') = false.
Proof.
  intros G U H. destruct e as [f t|f o]; unfold Rc.step, Rc.timed_head, Rc.lock_head, Rc.release in H; cbv zeta in H;
    [|destruct o]; split_all; ub_done G.
Qed.

Lemma sh_step_ub v s e s' :
  v_sl_guard v = true -> ub (Sh.sm s) = false -> Sh.step v s e = Some s' -> ub (Sh.sm s') = false.
Proof.
  intros G U H. destruct e as [f t|f o];
    unfold Sh.step, Sh.timed_head, Sh.lock_head, Sh.release_x, Sh.release_s, Sh.set_wq in H; cbv zeta in H;
    [|destruct o]; split_all; ub_done G.
Qed.

Lemma mx_run_ub v tr : v_sl_guard v = true -> forall s s', ub (Mx.sm s) = false -> Mx.run v s tr = Some s' -> ub (Mx.sm s') = false.
Proof.
  intros G. induction tr as [|e tr IH]; simpl; intros s s' U H; [inv H; assumption|].
  destruct (Mx.step v s e) eqn:E; [|discriminate]. eapply IH; [|exact H]. eapply mx_step_ub; eauto.
Qed.
Lemma rc_run_ub v tr : v_sl_guard v = true -> forall s s', ub (Rc.sm s) = false -> Rc.run v s tr = Some s' -> ub (Rc.sm s') = false.
Proof.
  intros G. induction tr as [|e tr IH]; simpl; intros s s' U H; [inv H; assumption|].
  destruct (Rc.step v s e) eqn:E; [|discriminate]. eapply IH; [|exact H]. eapply rc_step_ub; eauto.
Qed.
Lemma sh_run_ub v tr : v_sl_guard v = true -> forall s s', ub (Sh.sm s) = false -> Sh.run v s tr = Some s' -> ub (Sh.sm s') = false.
Proof.
  intros G. induction tr as [|e tr IH]; simpl; intros s s' U H; [inv H; assumption|].
  destruct (Sh.step v s e) eqn:E; [|discriminate]. eapply IH; [|exact H]. eapply sh_step_ub; eauto.
Qed.

(* ================================================================== Thread::join *)
Module JnP.
Import Jn.

Record Inv (s : st) : Prop := {
  j_link : forall j c, jpc s j = Some c -> joiner s c = Some j /\ alive s c = true /\ ts s c <> TNone;
  j_done : forall j c, jpc s j = Some c -> ts s c = TDone -> woken s j = true;
  j_handle : forall c, handle s c = true -> alive s c = true /\ ts s c <> TNone;
  j_fresh : forall c, ts s c = TNone -> alive s c = true;
  j_log : Forall (fun e => snd e = true) (log s)
}.

Lemma inv_init root : Inv (init root).
Proof. constructor; simpl; auto; discriminate. Qed.

Ltac upd_cases :=
  unfold upd in *;
  repeat match goal with
         | |- context [Nat.eqb ?a ?b] => destruct (Nat.eqb_spec a b); subst
         | H : context [Nat.eqb ?a ?b] |- _ => destruct (Nat.eqb_spec a b); subst
         end.

Ltac jn_auto :=
  intros; upd_cases;
  repeat match goal with H : Some _ = Some _ |- _ => inv H end;
  simpl in *; try contradiction; try discriminate; try congruence; eauto.

Lemma join_head_inv s j c :
  Inv s -> (forall j', jpc s j' = Some c -> j' = j) -> alive s c = true -> ts s c <> TNone ->
  Inv (join_head s j c).
Proof.
  intros I U A NN. unfold join_head, after. destruct (is_done (ts s c)) eqn:D.
  - destruct I. constructor; simpl; rewrite ?D; try solve [jn_auto];
      try solve [constructor; [reflexivity|assumption]].
  - assert (ND : ts s c <> TDone) by (intro E; rewrite E in D; discriminate).
    destruct I. constructor; simpl; auto; try solve [jn_auto].
    intros j' c' H. upd_cases; try (inv H); auto; try congruence;
      try solve [match goal with X : jpc s _ = Some c |- _ => specialize (U _ X); congruence end].
Qed.

Lemma step_inv s e s' : Inv s -> step s e = Some s' -> Inv s'.
Proof.
  intros I H. destruct e as [p c|c|j c|j|j c]; simpl in H.
  - (* spawn *)
    destruct (is_none (ts s c) && _ && _) eqn:G; [|discriminate]. inv H. boolp.
    assert (TN : ts s c = TNone) by (destruct (ts s c); simpl in *; congruence).
    destruct I. constructor; simpl; auto.
    + intros j c' Hj. destruct (j_link0 _ _ Hj) as [L [A N]]. upd_cases; [congruence|auto].
    + intros j c' Hj T. destruct (j_link0 _ _ Hj) as [L [A N]]. upd_cases; [discriminate|eauto].
    + intros c' Hc. upd_cases; [split; [auto|discriminate]|auto].
    + intros c' Hc. upd_cases; [discriminate|auto].
  - (* exit *)
    destruct (ts s c) eqn:T; try discriminate. destruct (jpc s c) eqn:J; [discriminate|]. inv H.
    destruct I. constructor; simpl; auto.
    + intros j c' Hj. destruct (j_link0 _ _ Hj) as [L [A N]]. upd_cases; [split; [auto|split; [auto|discriminate]]|auto].
    + intros j c' Hj T'. destruct (j_link0 _ _ Hj) as [L [A N]]. upd_cases.
      * rewrite L, A. apply upd_eq.
      * destruct (joiner s c) as [j'|]; [destruct (alive s c)|]; eauto. upd_cases; eauto.
    + intros c' Hc. destruct (j_handle0 _ Hc). upd_cases; [split; [auto|discriminate]|auto].
    + intros c' Hc. upd_cases; [discriminate|auto].
  - (* join *)
    destruct (handle s c && _ && _ && _ && _ && _) eqn:G; [|discriminate]. inv H. boolp.
    destruct (j_handle s I c) as [A NN]; [assumption|].
    apply join_head_inv; auto.
    intros j' Hj. destruct (j_link s I _ _ Hj) as [L _]. destruct (joiner s c); simpl in *; congruence.
  - (* resumed inside join *)
    destruct (jpc s j) as [c|] eqn:J; [|discriminate]. destruct (woken s j); [|discriminate]. inv H.
    destruct (j_link s I _ _ J) as [L [A N]].
    apply join_head_inv; auto.
    intros j' Hj. destruct (j_link s I _ _ Hj) as [L' _]. congruence.
  - (* detach *)
    destruct (handle s c && _ && _) eqn:G; [|discriminate]. inv H. boolp.
    destruct (j_handle s I c) as [A NN]; [assumption|].
    assert (NJ : forall j', jpc s j' <> Some c).
    { intros j' Hj. destruct (j_link s I _ _ Hj) as [L _]. destruct (joiner s c); simpl in *; congruence. }
    unfold after. destruct I. constructor; simpl; auto.
    + intros j' c' Hj. destruct (j_link0 _ _ Hj) as [L [A' N]]. split; [assumption|]. split; [|assumption].
      destruct (is_done (ts s c)); [assumption|]. upd_cases; [exfalso; eapply NJ; eauto|assumption].
    + intros c' Hc. upd_cases; [discriminate|]. destruct (j_handle0 _ Hc). split; [|assumption].
      destruct (is_done (ts s c)); [assumption|]. upd_cases; [contradiction|assumption].
    + intros c' Hc. destruct (is_done (ts s c)); [auto|]. upd_cases; [contradiction|auto].
Qed.

Lemma run_inv tr : forall s s', Inv s -> run s tr = Some s' -> Inv s'.
Proof.
  induction tr as [|e tr IH]; simpl; intros s s' I H; [inv H; assumption|].
  destruct (step s e) eqn:E; [|discriminate]. eapply IH; [|exact H]. eapply step_inv; eauto.
Qed.

(* join_after_exit: every join that returned, returned after the thread function had finished *)
Lemma join_after_exit root tr s : run (init root) tr = Some s -> Forall (fun e => snd e = true) (log s).
Proof. intros H. apply j_log. eapply run_inv; eauto. apply inv_init. Qed.

(* ... and a joiner of a finished thread is always woken (no lost wake-up in join) *)
Lemma joiner_woken root tr s j c :
  run (init root) tr = Some s -> jpc s j = Some c -> ts s c = TDone -> woken s j = true.
Proof. intros H. apply j_done. eapply run_inv; eauto. apply inv_init. Qed.

End JnP.

(* ================================================================== thread-local pointers are per fiber *)
Module TlP.
Import Tl.

Lemma get_set_same s f x v : get (step s (ESet f x v)) f x = v.
Proof. unfold get. simpl. rewrite !upd_eq. reflexivity. Qed.

Lemma get_set_other_fiber s f g x y v : g <> f -> get (step s (ESet g y v)) f x = get s f x.
Proof. intros H. unfold get. simpl. rewrite upd_neq; auto. Qed.

Lemma get_set_other_var s f x y v : y <> x -> get (step s (ESet f y v)) f x = get s f x.
Proof. intros H. unfold get. simpl. rewrite upd_eq. rewrite upd_neq; auto. Qed.

(* what fiber f reads, as a function of ITS OWN stores only *)
Definition mine (f : fid) (e : ev) : bool :=
  match e with ESet g _ _ => Nat.eqb g f | EGet g _ => Nat.eqb g f | EDefault _ _ => true end.

Definition reads_of (f : fid) (s : st) : list (nat * nat) :=
  map (fun r => (snd (fst r), snd r)) (filter (fun r => Nat.eqb (fst (fst r)) f) (reads s)).

Definition agree (f : fid) (a b : st) : Prop :=
  tls a f = tls b f /\ dflt a = dflt b /\ reads_of f a = reads_of f b.

Lemma agree_step_mine f a b e : agree f a b -> mine f e = true -> agree f (step a e) (step b e).
Proof.
  intros [T [D R]] M. destruct e as [g x v|g x|x v]; simpl in M; boolp; subst; unfold agree, reads_of; simpl.
  - rewrite !upd_eq, T. auto.
  - rewrite Nat.eqb_refl. simpl. unfold get. rewrite T, D. unfold reads_of in R. rewrite R. auto.
  - rewrite D. auto.
Qed.

Lemma agree_step_other f a b e : agree f a b -> mine f e = false -> agree f (step a e) b.
Proof.
  intros [T [D R]] M. destruct e as [g x v|g x|x v]; simpl in M; boolp; try discriminate; unfold agree, reads_of; simpl.
  - rewrite upd_neq; auto.
  - apply Nat.eqb_neq in M. rewrite M. auto.
Qed.

(* tls_per_fiber: erasing every store and read of the other fibers leaves what f reads unchanged *)
Lemma per_fiber f tr : forall a b, agree f a b -> agree f (run a tr) (run b (filter (mine f) tr)).
Proof.
  induction tr as [|e tr IH]; simpl; intros a b A; [assumption|].
  destruct (mine f e) eqn:M; simpl.
  - apply IH. apply agree_step_mine; assumption.
  - apply IH. apply agree_step_other; assumption.
Qed.

Lemma tls_per_fiber f tr : reads_of f (run init tr) = reads_of f (run init (filter (mine f) tr)).
Proof. apply (per_fiber f tr init init). repeat split. Qed.

(* what a fiber reads: its own last store if it stored at all — a stored nullptr (0) included —, else the
   variable's initialiser (the last SetDefault) *)
Fixpoint last_store (f : fid) (x : nat) (tr : list ev) (acc : option nat) : option nat :=
  match tr with
  | [] => acc
  | ESet g y v :: r => last_store f x r (if Nat.eqb g f && Nat.eqb y x then Some v else acc)
  | _ :: r => last_store f x r acc
  end.
Fixpoint last_default (x : nat) (tr : list ev) (acc : nat) : nat :=
  match tr with
  | [] => acc
  | EDefault y v :: r => last_default x r (if Nat.eqb y x then v else acc)
  | _ :: r => last_default x r acc
  end.

Lemma own_store_or_default tr : forall s f x,
  get (run s tr) f x =
  match last_store f x tr (tls s f x) with Some v => v | None => last_default x tr (dflt s x) end.
Proof.
  induction tr as [|e tr IH]; intros s f x; [reflexivity|].
  simpl. rewrite IH. destruct e as [g y v|g y|y v]; simpl.
  - unfold upd. destruct (Nat.eqb_spec f g); subst.
    + rewrite Nat.eqb_refl. simpl. destruct (Nat.eqb_spec x y); subst.
      * rewrite Nat.eqb_refl. reflexivity.
      * assert (E : Nat.eqb y x = false) by (apply Nat.eqb_neq; congruence). rewrite E. reflexivity.
    + assert (E : Nat.eqb g f = false) by (apply Nat.eqb_neq; congruence). rewrite E. reflexivity.
  - reflexivity.
  - unfold upd. destruct (Nat.eqb_spec x y); subst.
    + rewrite Nat.eqb_refl. reflexivity.
    + assert (E : Nat.eqb y x = false) by (apply Nat.eqb_neq; congruence). rewrite E. reflexivity.
Qed.

(* in particular: after a fiber stored nullptr it reads nullptr, whatever the initialiser is and whatever the
   other fibers store meanwhile *)
Lemma null_store_kept s f x tr :
  (forall g y v, In (ESet g y v) tr -> g <> f \/ y <> x) ->
  get (run (step s (ESet f x 0)) tr) f x = 0.
Proof.
  intros H. rewrite own_store_or_default. simpl. rewrite !upd_eq.
  assert (L : forall acc, last_store f x tr acc = acc).
  { induction tr as [|e tr IH]; intros acc; [reflexivity|]. destruct e as [g y v|g y|y v]; simpl.
    - destruct (H g y v (or_introl eq_refl)) as [N|N].
      + assert (E : Nat.eqb g f = false) by (apply Nat.eqb_neq; congruence). rewrite E. simpl.
        apply IH. intros g' y' v' I. apply (H g' y' v'). right. exact I.
      + assert (E : Nat.eqb y x = false) by (apply Nat.eqb_neq; congruence). rewrite E, andb_false_r.
        apply IH. intros g' y' v' I. apply (H g' y' v'). right. exact I.
    - apply IH. intros g' y' v' I. apply (H g' y' v'). right. exact I.
    - apply IH. intros g' y' v' I. apply (H g' y' v'). right. exact I. }
  rewrite L. reflexivity.
Qed.

(* distinct thread-local variables get distinct slots when there is one counter *)
Lemma slots_from_seq seen tys : slots_from true seen tys = seq (length seen) (length tys).
Proof.
  revert seen. induction tys as [|t r IH]; simpl; intros seen; [reflexivity|].
  f_equal. rewrite IH. rewrite app_length. simpl. f_equal. lia.
Qed.

Lemma slots_distinct tys : NoDup (slots true tys).
Proof. unfold slots. rewrite slots_from_seq. apply seq_NoDup. Qed.

End TlP.
