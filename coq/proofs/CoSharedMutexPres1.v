(* Preservation of the invariant, part 1: the events that move one coroutine and touch only `_state` / `_readers_wait`. *)
From Coq Require Import List Arith Bool ZArith Lia.
Import ListNotations.
From YV Require Import model.CoSharedMutex proofs.CoSharedMutexLemmas proofs.CoSharedMutexInv.

Ltac ev s I := first [neutral_event I | simple_event s I].

Lemma inv_EStart : forall s c s', inv s -> step s (EStart c) = Some s' -> inv s'.
Proof. intros s c s' I H. start_event H; ev s I. Qed.

Lemma inv_EFinish : forall s c s', inv s -> step s (EFinish c) = Some s' -> inv s'.
Proof. intros s c s' I H. start_event H; ev s I. Qed.

Lemma inv_EReqS : forall s c s', inv s -> step s (EReqS c) = Some s' -> inv s'.
Proof. intros s c s' I H. start_event H; ev s I. Qed.

Lemma inv_ETryS : forall s c s', inv s -> step s (ETryS c) = Some s' -> inv s'.
Proof. intros s c s' I H. start_event H; ev s I. Qed.

Lemma inv_EReqW : forall s c s', inv s -> step s (EReqW c) = Some s' -> inv s'.
Proof. intros s c s' I H. start_event H; ev s I. Qed.

Lemma inv_ETryW : forall s c s', inv s -> step s (ETryW c) = Some s' -> inv s'.
Proof. intros s c s' I H. start_event H; ev s I. Qed.

Lemma inv_ERSAdd : forall s c w r s', inv s -> step s (ERSAdd c w r) = Some s' -> inv s'.
Proof. intros s c w r s' I H. start_event H; ev s I. Qed.

Lemma inv_ETSLoad : forall s c w r s', inv s -> step s (ETSLoad c w r) = Some s' -> inv s'.
Proof. intros s c w r s' I H. start_event H; ev s I. Qed.

Lemma inv_ETSCas : forall s c ok w r s', inv s -> step s (ETSCas c ok w r) = Some s' -> inv s'.
Proof. intros s c ok w r s' I H. start_event H; ev s I. Qed.

Lemma inv_EWLoad : forall s c w r s', inv s -> step s (EWLoad c w r) = Some s' -> inv s'.
Proof. intros s c w r s' I H. start_event H; ev s I. Qed.

Lemma inv_EEnter : forall s c s', inv s -> step s (EEnter c) = Some s' -> inv s'.
Proof. intros s c s' I H. start_event H; ev s I. Qed.

Lemma inv_ELeave : forall s c s', inv s -> step s (ELeave c) = Some s' -> inv s'.
Proof. intros s c s' I H. start_event H; ev s I. Qed.

Lemma inv_EWCas : forall s c ok s', inv s -> step s (EWCas c ok) = Some s' -> inv s'.
Proof. intros s c ok s' I H. start_event H; ev s I. Qed.

Lemma inv_EUSSub : forall s c w r s', inv s -> step s (EUSSub c w r) = Some s' -> inv s'.
Proof. intros s c w r s' I H. start_event H; ev s I. Qed.

Lemma inv_EUSWait : forall s c old s', inv s -> step s (EUSWait c old) = Some s' -> inv s'.
Proof. intros s c old s' I H. start_event H; ev s I. Qed.

Lemma inv_EUWCas : forall s c ok s', inv s -> step s (EUWCas c ok) = Some s' -> inv s'.
Proof. intros s c ok s' I H. start_event H; ev s I. Qed.

Lemma inv_EWAdd : forall s c old s', inv s -> step s (EWAdd c old) = Some s' -> inv s'.
Proof. intros s c old s' I H. start_event H; ev s I. Qed.
