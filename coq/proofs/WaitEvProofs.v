(* Invariant of the WaitEv transition system and the facts the C11 theorems are made of.
   Everything is proved for every number n >= 1 of futures, every event sequence (schedule, including the moment the
   timeout fires) and every stored value.

   Shape of the invariant [Inv]:
     * per future, a boolean table [fokb] relating its word, its producer's progress, its slot and the ghost flags
       "registered by the waiter" / "reset by the waiter";
     * per future and position, a boolean [posb] that depends on where the waiter is (which futures the registration
       loop / the reset loop has already passed; after the return: clean, and Result if true was returned);
     * [Glob]: arithmetic over the numbers of futures in each class (event parked in the word, producer holding the
       event pointer, producer inside Set() before lock / before notify / before unlock, finished, reset), the
       counter, wait_count, reset_count, and the mutex / flag / ghost bits. *)
From Coq Require Import List Arith Bool Lia.
Import ListNotations.
From YV Require model.Handoff proofs.HandoffProofs.
From YV Require Import model.WaitEv.

(* ---- lists ------------------------------------------------------------------------------------ *)

Definition b2n (b : bool) : nat := if b then 1 else 0.

Fixpoint count (p : fut -> bool) (l : list fut) : nat :=
  match l with
  | [] => 0
  | x :: t => b2n (p x) + count p t
  end.

Lemma count_le_length p l : count p l <= length l.
Proof. induction l as [|x t IH]; simpl; [lia|]. destruct (p x); simpl; lia. Qed.

Lemma count_repeat p x k : count p (repeat x k) = k * b2n (p x).
Proof. induction k as [|k IH]; simpl; [reflexivity|]. rewrite IH. lia. Qed.

Lemma set_nth_length i f l : length (set_nth i f l) = length l.
Proof. revert i; induction l as [|x t IH]; intros [|i]; simpl; auto. Qed.

Lemma nth_set_nth_eq i f l g : nth_error l i = Some g -> nth_error (set_nth i f l) i = Some f.
Proof.
  revert i; induction l as [|x t IH]; intros [|i]; simpl; try discriminate; auto.
Qed.

Lemma nth_set_nth_ne i j f l : i <> j -> nth_error (set_nth i f l) j = nth_error l j.
Proof.
  revert i j; induction l as [|x t IH]; intros [|i] [|j]; simpl; auto; try congruence.
  all: try (intros H; apply IH; congruence).
Qed.

Lemma count_set_nth p i f g l :
  nth_error l i = Some g -> count p (set_nth i f l) + b2n (p g) = count p l + b2n (p f).
Proof.
  revert i; induction l as [|x t IH]; intros [|i]; simpl; try discriminate.
  - intros H; inversion H; subst. lia.
  - intros H. specialize (IH _ H). lia.
Qed.

Lemma count_zero p l : count p l = 0 -> forall j f, nth_error l j = Some f -> p f = false.
Proof.
  induction l as [|x t IH]; intros H [|j] f; simpl; try discriminate.
  - intros E; inversion E; subst. simpl in H. destruct (p f); simpl in H; [lia|reflexivity].
  - intros E. simpl in H. apply (IH ltac:(lia) j f E).
Qed.

Lemma count_pos p l j f : nth_error l j = Some f -> p f = true -> 1 <= count p l.
Proof.
  revert j; induction l as [|x t IH]; intros [|j]; simpl; try discriminate.
  - intros E Hp; inversion E; subst. rewrite Hp. simpl. lia.
  - intros E Hp. specialize (IH _ E Hp). lia.
Qed.

Lemma nth_error_lt (l : list fut) j f : nth_error l j = Some f -> j < length l.
Proof. intros H. apply nth_error_Some. congruence. Qed.

(* ---- classes of futures --------------------------------------------------------------------------- *)

Definition isA (f : fut) : bool := word_eqb (fw f) WC.
Definition isH (f : fut) : bool := match fp f with PHold => true | _ => false end.
Definition isL (f : fut) : bool := match fp f with PSetL => true | _ => false end.
Definition isN (f : fut) : bool := match fp f with PSetN => true | _ => false end.
Definition isU (f : fut) : bool := match fp f with PSetU => true | _ => false end.
Definition isF (f : fut) : bool := match fp f with PFin => true | _ => false end.

Definition cA s := count isA (futs s).
Definition cH s := count isH (futs s).
Definition cL s := count isL (futs s).
Definition cN s := count isN (futs s).
Definition cU s := count isU (futs s).
Definition cF s := count isF (futs s).
Definition cZ s := count frst (futs s).
Definition cReg s := count freg (futs s).

(* word / producer progress / slot / ghost flags of one future *)
Definition fokb (one_ : bool) (f : fut) : bool :=
  match fp f, fslot f with
  | PInit, None => true
  | PInit, Some _ => false
  | _, Some _ => true
  | _, None => false
  end &&
  match freg f, frst f with
  | false, true => false
  | false, false | true, true =>
      match fw f, fp f with
      | WE, (PInit | PStored) => true
      | WR, PDoneE => true
      | _, _ => false
      end
  | true, false =>
      match fw f, fp f with
      | WC, (PInit | PStored) => true
      | WR, PHold => negb one_
      | WR, (PSetL | PSetN | PSetU | PFin) => true
      | _, _ => false
      end
  end.

Definition cleanb (f : fut) : bool :=
  negb (word_eqb (fw f) WC) &&
  match fp f with PHold | PSetL | PSetN | PSetU => false | _ => true end.

Definition posb (p : wpc) (r : option bool) (j : nat) (f : fut) : bool :=
  let rw := freg f || word_eqb (fw f) WR in
  let nc := negb (word_eqb (fw f) WC) in
  match p with
  | WReg i | WRegCas i => implb (Nat.ltb j i) rw
  | WSub1 | WPreLock | WLocked1 | WNoPark | WSleep1 => rw
  | WRst i | WRstCas i _ => rw && implb (Nat.ltb j i) nc && implb (Nat.leb i j) (negb (frst f))
  | WSub2 | WLocked2 | WSleep2 => rw && nc
  | WRetL b | WRet b => cleanb f && implb b (word_eqb (fw f) WR)
  | WDone => match r with Some b => cleanb f && implb b (word_eqb (fw f) WR) | None => false end
  end.

Definition PW (s : st) : Prop :=
  forall j f, nth_error (futs s) j = Some f -> fokb (one s) f = true /\ posb (wp s) (ret s) j f = true.

Definition lockedb (p : wpc) : bool :=
  match p with
  | WLocked1 | WNoPark | WRst _ | WRstCas _ _ | WSub2 | WLocked2 | WRetL _ => true
  | _ => false
  end.

Definition is_done (p : wpc) : bool := match p with WDone => true | _ => false end.

(* the mutex as two numbers: held by a producer / held by the waiter *)
Definition mP (m : option owner) : nat := match m with Some (OP _) => 1 | _ => 0 end.
Definition mW (m : option owner) : nat := match m with Some OW => 1 | _ => 0 end.

(* booleans enter the arithmetic as 0/1 *)
Definition rd s := b2n (ready s).
Definition on s := b2n (one s).
Definition tm s := b2n (timed s).
Definition tmo s := b2n (timedout s).

Definition S3 s := cL s + cN s + cU s.          (* producers inside Set() *)
Definition D4 s := cL s + cN s + cU s + cF s.   (* producers that have decremented the counter *)

(* what holds at each program point of the waiter *)
Definition K0 (s : st) : Prop :=
  match wp s with
  | WReg i | WRegCas i =>
      i < n s /\ wc s <= i /\ (on s = 0 -> cnt s + D4 s = S (n s)) /\
      S3 s = 0 /\ rd s = 0 /\ cZ s = 0 /\ tmo s = 0 /\ ret s = None
  | WSub1 =>
      on s = 0 /\ 1 <= wc s /\ cnt s + D4 s = S (n s) /\
      S3 s = 0 /\ rd s = 0 /\ cZ s = 0 /\ tmo s = 0 /\ ret s = None
  | WPreLock | WLocked1 =>
      1 <= wc s /\ (on s = 0 -> cnt s + D4 s = wc s) /\ cZ s = 0 /\ tmo s = 0 /\ ret s = None /\
      (on s = 0 -> cnt s = 0 -> 1 <= S3 s + rd s)
  | WSleep1 =>
      1 <= wc s /\ (on s = 0 -> cnt s + D4 s = wc s) /\ cZ s = 0 /\ ret s = None /\
      (on s = 0 -> cnt s = 0 -> 1 <= S3 s + rd s)
  | WNoPark =>
      1 <= wc s /\ (on s = 0 -> cnt s + D4 s = wc s) /\ cZ s = 0 /\ tmo s = 0 /\ rd s = 1 /\ tm s = 1 /\
      ret s = None
  | WRst i =>
      i < n s /\ 1 <= wc s /\ (on s = 0 -> cnt s + D4 s = wc s) /\
      tm s = 1 /\ tmo s = 1 /\ rd s = 0 /\ rc s <= i /\ ret s = None /\
      (on s = 0 -> cnt s = 0 -> 1 <= S3 s + rd s)
  | WRstCas i v =>
      i < n s /\ 1 <= wc s /\ (on s = 0 -> cnt s + D4 s = wc s) /\
      tm s = 1 /\ tmo s = 1 /\ rd s = 0 /\ rc s <= i /\ ret s = None /\ v = WC /\
      (on s = 0 -> cnt s = 0 -> 1 <= S3 s + rd s)
  | WSub2 =>
      on s = 0 /\ cnt s + D4 s = wc s /\
      tm s = 1 /\ tmo s = 1 /\ rd s = 0 /\ 1 <= rc s /\ rc s <> wc s /\ cA s = 0 /\ ret s = None
  | WLocked2 =>
      1 <= wc s /\ (on s = 0 -> cnt s + D4 s + rc s = wc s) /\ (on s = 1 -> rc s = 0) /\
      tm s = 1 /\ tmo s = 1 /\ rd s = 0 /\ cA s = 0 /\ ret s = None /\
      (on s = 0 -> cnt s = 0 -> 1 <= S3 s + rd s)
  | WSleep2 =>
      1 <= wc s /\ (on s = 0 -> cnt s + D4 s + rc s = wc s) /\ (on s = 1 -> rc s = 0) /\
      tm s = 1 /\ tmo s = 1 /\ cA s = 0 /\ ret s = None /\
      (on s = 0 -> cnt s = 0 -> 1 <= S3 s + rd s)
  | WRetL b | WRet b =>
      cA s = 0 /\ cH s = 0 /\ S3 s = 0 /\ (b2n b = 0 -> tm s = 1 /\ tmo s = 1) /\ ret s = None
  | WDone =>
      cA s = 0 /\ cH s = 0 /\ S3 s = 0 /\
      match ret s with Some b => (b2n b = 0 -> tm s = 1 /\ tmo s = 1) | None => False end
  end.

(* no lost wake-up: a parked waiter whose flag is set has been notified; a producer past its notify has set the flag;
   on the single-future path a finished Set() has set the flag *)
Definition nt s := b2n (notified s).
Definition NL (s : st) : Prop :=
  b2n (parked s) + rd s <= 1 + nt s /\ cU s <= rd s /\ (on s = 1 -> cF s <= rd s).

Definition K (s : st) : Prop := NL s /\ K0 s.

Definition Glob (s : st) : Prop :=
  length (futs s) = n s /\ 1 <= n s /\ (on s = 1 -> n s = 1) /\
  wc s = cReg s /\ rc s = cZ s /\
  bad_touch s = 0 /\ b2n (underflow s) = 0 /\
  S3 s <= 1 /\
  cN s + cU s = mP (mtx s) /\
  b2n (lockedb (wp s)) = mW (mtx s) /\
  (rd s = 1 -> cL s + cN s = 0) /\
  (1 <= S3 s + rd s -> cA s = 0 /\ cH s = 0 /\ (on s = 0 -> cnt s = 0)) /\
  (on s = 1 -> cH s = 0) /\
  (tmo s = 1 -> tm s = 1) /\
  b2n (alive s) + b2n (is_done (wp s)) = 1 /\
  K s.

Definition Inv (s : st) : Prop := PW s /\ Glob s.

(* ---- the class of a future determines its contribution to every count ------------------------------- *)

Lemma reg_split_one o f : fokb o f = true ->
  b2n (freg f) = b2n (isA f) + b2n (isH f) + b2n (isL f) + b2n (isN f) + b2n (isU f) + b2n (isF f) + b2n (frst f).
Proof.
  unfold fokb, isA, isH, isL, isN, isU, isF.
  destruct f as [w p sl rg rs]; simpl.
  destruct p, sl, rg, rs, w; simpl; try discriminate; try reflexivity; destruct o; simpl; try discriminate; reflexivity.
Qed.

Lemma reg_split o l : (forall j f, nth_error l j = Some f -> fokb o f = true) ->
  count freg l = count isA l + count isH l + count isL l + count isN l + count isU l + count isF l + count frst l.
Proof.
  induction l as [|x t IH]; intros H; simpl; [reflexivity|].
  pose proof (reg_split_one o x (H 0 x eq_refl)) as Hx.
  rewrite IH; [lia|]. intros j f E. apply (H (S j) f E).
Qed.

Lemma reg_split_s s : PW s ->
  cReg s = cA s + cH s + cL s + cN s + cU s + cF s + cZ s.
Proof. intros P. apply (reg_split (one s)). intros j f E. apply (P j f E). Qed.

Arguments count : simpl never.

(* ---- tactics ------------------------------------------------------------------------------------ *)

Lemma b2n_le b : b2n b <= 1.
Proof. destruct b; simpl; lia. Qed.

Lemma shapexx a b x : a + x = b + x -> a = b. Proof. lia. Qed.
Lemma shape01 a b : a + 0 = b + 1 -> a = S b. Proof. lia. Qed.
Lemma shape10 a b : a + 1 = b + 0 -> a = b - 1 /\ 1 <= b. Proof. lia. Qed.

(* express the count of class p in the updated list through the count in the old one and rewrite it away *)
Ltac recount p i f' f Ef :=
  let H := fresh "Hc" in
  pose proof (count_set_nth p i f' f _ Ef) as H; simpl in H;
  first [ apply shapexx in H; rewrite ?H; clear H
        | apply shape01 in H; rewrite ?H; clear H
        | apply shape10 in H; let H1 := fresh "Hc" in destruct H as [H H1]; rewrite ?H; clear H ].

Ltac recounts i f' f Ef :=
  recount isA i f' f Ef; recount isH i f' f Ef; recount isL i f' f Ef; recount isN i f' f Ef;
  recount isU i f' f Ef; recount isF i f' f Ef; recount frst i f' f Ef; recount freg i f' f Ef.

Ltac bounds s :=
  pose proof (b2n_le (ready s)); pose proof (b2n_le (one s)); pose proof (b2n_le (timed s));
  pose proof (b2n_le (timedout s)); pose proof (b2n_le (alive s)); pose proof (b2n_le (notified s)).

Ltac unf := unfold Glob, K, NL, K0, S3, D4, rd, on, tm, tmo, nt, parked, cA, cH, cL, cN, cU, cF, cZ, cReg in *.

Ltac splits := repeat match goal with |- _ /\ _ => split end.
Ltac dests := repeat match goal with H : _ /\ _ |- _ => destruct H end.

Ltac fin := first [assumption | reflexivity | lia | congruence | tauto].

(* pointwise part after replacing future i *)
Lemma pw_set_nth s s' i f f' :
  PW s -> nth_error (futs s) i = Some f ->
  futs s' = set_nth i f' (futs s) -> one s' = one s ->
  fokb (one s) f' = true -> posb (wp s') (ret s') i f' = true ->
  (forall j g, j <> i -> nth_error (futs s) j = Some g -> posb (wp s) (ret s) j g = true -> posb (wp s') (ret s') j g = true) ->
  PW s'.
Proof.
  intros P Ef Efs Eo Hok Hpos Hoth j g Eg. rewrite Efs in Eg. rewrite Eo.
  destruct (Nat.eq_dec i j) as [->|Hne].
  - rewrite (nth_set_nth_eq _ _ _ _ Ef) in Eg. inversion Eg; subst. split; assumption.
  - rewrite (nth_set_nth_ne _ _ _ _ Hne) in Eg. destruct (P j g Eg) as [Hk Hp]. split; [assumption|].
    apply Hoth; auto.
Qed.

Lemma pw_same_futs s s' :
  PW s -> futs s' = futs s -> one s' = one s ->
  (forall j g, nth_error (futs s) j = Some g -> fokb (one s) g = true -> posb (wp s) (ret s) j g = true ->
               posb (wp s') (ret s') j g = true) ->
  PW s'.
Proof.
  intros P Efs Eo Himp j g Eg. rewrite Efs in Eg. rewrite Eo. destruct (P j g Eg) as [Hk Hp]. split; auto.
Qed.

Lemma clean_of_zero o g : fokb o g = true ->
  isA g = false -> isH g = false -> isL g = false -> isN g = false -> isU g = false -> cleanb g = true.
Proof.
  unfold fokb, cleanb, isA, isH, isL, isN, isU. destruct g as [w p sl rg rs]; simpl.
  destruct w, p; simpl; intros; try discriminate; reflexivity.
Qed.

Lemma wr_of_zero o g : fokb o g = true ->
  freg g || word_eqb (fw g) WR = true -> isA g = false -> frst g = false -> word_eqb (fw g) WR = true.
Proof.
  unfold fokb, isA. destruct g as [w p sl rg rs]; simpl.
  destruct w, rg, rs; simpl; intros; try discriminate; try reflexivity.
  all: destruct p, sl; simpl in *; discriminate.
Qed.

Ltac arith_b :=
  repeat match goal with
         | H : context [Nat.ltb ?a ?b] |- _ => destruct (Nat.ltb_spec a b); simpl in H
         | |- context [Nat.ltb ?a ?b] => destruct (Nat.ltb_spec a b); simpl
         | H : context [Nat.leb ?a ?b] |- _ => destruct (Nat.leb_spec a b); simpl in H
         | |- context [Nat.leb ?a ?b] => destruct (Nat.leb_spec a b); simpl
         | H : context [Nat.eqb ?a ?b] |- _ => destruct (Nat.eqb_spec a b); simpl in H
         | |- context [Nat.eqb ?a ?b] => destruct (Nat.eqb_spec a b); simpl
         end.

(* every future satisfies cleanb (and is Result) once the classes that are not clean are empty *)
Lemma all_clean s : PW s -> cA s = 0 -> cH s = 0 -> S3 s = 0 ->
  forall j g, nth_error (futs s) j = Some g -> cleanb g = true.
Proof.
  intros P HA HH HS j g Eg. destruct (P j g Eg) as [Hk _].
  unfold cA, cH, S3, cL, cN, cU in *.
  apply (clean_of_zero (one s) g Hk).
  - apply (count_zero _ _ HA j g Eg).
  - apply (count_zero _ _ HH j g Eg).
  - apply (count_zero isL (futs s) ltac:(lia) j g Eg).
  - apply (count_zero isN (futs s) ltac:(lia) j g Eg).
  - apply (count_zero isU (futs s) ltac:(lia) j g Eg).
Qed.

Lemma all_wr s : PW s -> cA s = 0 -> cZ s = 0 ->
  forall j g, nth_error (futs s) j = Some g -> freg g || word_eqb (fw g) WR = true -> word_eqb (fw g) WR = true.
Proof.
  intros P HA HZ j g Eg Hrw. destruct (P j g Eg) as [Hk _].
  apply (wr_of_zero (one s) g Hk Hrw).
  - apply (count_zero _ _ HA j g Eg).
  - apply (count_zero _ _ HZ j g Eg).
Qed.


(* ---- tactics for the producers' events ------------------------------------------------------------ *)

Ltac prelude P H i :=
  simpl in H;
  let f := fresh "f" in
  destruct (nth_error (futs _) i) as [f|] eqn:Ef; [|discriminate];
  destruct (P i f Ef) as [Hok Hpos];
  destruct f as [w p sl rg rs]; simpl in H;
  destruct p; try discriminate;
  unfold fokb in Hok; simpl in Hok;
  destruct w, sl, rg, rs; simpl in Hok; try discriminate Hok.

(* the pointwise part when future i is replaced and the waiter did not move *)
Ltac bsolve :=
  simpl in *;
  repeat match goal with
         | |- context [Nat.ltb ?a ?b] => let E := fresh "E" in destruct (Nat.ltb a b) eqn:E; rewrite ?E in *; clear E; simpl in *
         | |- context [Nat.leb ?a ?b] => let E := fresh "E" in destruct (Nat.leb a b) eqn:E; rewrite ?E in *; clear E; simpl in *
         | H : context [Nat.ltb ?a ?b] |- _ => let E := fresh "E" in destruct (Nat.ltb a b) eqn:E; rewrite ?E in *; clear E; simpl in *
         | H : context [Nat.leb ?a ?b] |- _ => let E := fresh "E" in destruct (Nat.leb a b) eqn:E; rewrite ?E in *; clear E; simpl in *
         | b : bool |- _ => destruct b; simpl in *
         end;
  try assumption; try discriminate; try reflexivity.

Ltac pw_prod P :=
  match goal with Ef : nth_error _ ?i = Some _ |- _ =>
    eapply pw_set_nth with (1:=P) (2:=Ef); [reflexivity|reflexivity|..]; simpl;
    [ unfold fokb; simpl; try reflexivity; try assumption
    | unfold posb, cleanb in *; simpl in *; destruct (wp _); simpl in *; try assumption; try discriminate;
      try (destruct (ret _); simpl in *; try assumption; try discriminate); bsolve
    | auto ]
  end.

Ltac glob_prod P G :=
  match type of P with PW ?s => pose proof (reg_split_s s P) as Hsplit; pose proof (count_le_length isA (futs s)) as HleA;
     pose proof (count_le_length freg (futs s)) as HleR end;
  unf; simpl; rewrite ?set_nth_length;
  match goal with Ef : nth_error _ ?i = Some ?f |- context [set_nth ?i ?f' _] => recounts i f' f Ef end;
  destruct G as (G1&G2&G3&G4&G5&G6&G7&G8&G9&G10&G11&G12&G13&G14&G15&GK).

Ltac by_cases s :=
  bounds s; destruct (wp s) eqn:Ewp; simpl in *; rewrite ?orb_true_r, ?orb_false_r in *; simpl in *; dests;
  try (exfalso; lia); splits; fin.

Ltac ltb_facts :=
  repeat match goal with
         | H : context [Nat.ltb ?a ?b] |- _ => destruct (Nat.ltb_spec a b)
         | |- context [Nat.ltb ?a ?b] => destruct (Nat.ltb_spec a b)
         end.

Ltac mtx_cases s H :=
  unfold is_free, holds in H; destruct (mtx s) as [[|?k]|] eqn:Em; simpl in H; try discriminate H;
  try match type of H with context [Nat.eqb ?a ?b] => destruct (Nat.eqb a b) eqn:?; simpl in H; try discriminate H end.

