(* CoSharedMutex: the statements of C15 that combine the safety invariant, the ghost bookkeeping and progress. *)
From Coq Require Import List Arith Bool ZArith Lia.
Import ListNotations.
From YV Require Import model.CoSharedMutex proofs.CoSharedMutexLemmas proofs.CoSharedMutexInv
  proofs.CoSharedMutexProofs proofs.CoSharedMutexLive proofs.CoSharedMutexGhost.

Lemma thm_granted_once : forall f rf n tr s, run (init f rf n) tr = Some s ->
  NoDup (grants s) /\
  (forall c x, get s c = Some x ->
     (forall r, In (c, r) (grants s) <-> 1 <= r <= got x) /\ got x + pend_w (pc x) = req x) /\
  (forall c r, In (c, r) (grants s) -> exists x, get s c = Some x) /\
  length (grants s) = length (entered s) /\
  (quiescent s = true -> forall c x, get s c = Some x -> got x = req x).
Proof.
  intros f rf n tr s H. pose proof (invg_reach _ _ _ _ _ H) as J. pose proof (inv_reach _ _ _ _ _ H) as I.
  destruct J as [B Gr Nd Ln].
  split; [exact Nd|]. split.
  { intros c x G. unfold get in G. split.
    - intros r. rewrite (Gr c r). unfold gotn. rewrite (nth_map_got (cos s) c x G). tauto.
    - exact (Forall_nth_error _ gmeas (cos s) c x B G). }
  split.
  { intros c r Hin. apply Gr in Hin. unfold gotn, get in *.
    destruct (nth_error (cos s) c) eqn:E; eauto. exfalso.
    assert (nth c (map got (cos s)) 0 = 0).
    { apply nth_overflow. rewrite map_length. apply nth_error_None. auto. }
    lia. }
  split; [exact Ln|].
  intros Q c x G. destruct (thm_quiescent s I Q) as (_ & _ & _ & _ & _ & _ & _ & D).
  pose proof (Forall_nth_error _ gmeas (cos s) c x B G) as M. unfold gmeas in M.
  rewrite (D c x G) in M. simpl in M. lia.
Qed.

Lemma thm_no_lost_wakeup : forall f rf n tr s, run (init f rf n) tr = Some s ->
  (* every running or runnable coroutine can take its next step, unless it needs the spinlock while it is held *)
  (forall c x e, get s c = Some x -> co_ev s c x = Some e ->
     (needs_spin (pc x) = true -> spin s = false) -> step s e <> None) /\
  (* and then the holder (between the two halves of its section) can take its *)
  (spin s = true ->
     exists c x e, get s c = Some x /\ needs_spin (pc x) = false /\ co_ev s c x = Some e /\ step s e <> None) /\
  (* so something is enabled as long as anybody runs or is runnable *)
  (quiescent s = false -> exists e s', step s e = Some s') /\
  (* and when nothing runs and nothing is runnable, nobody is parked: every coroutine has finished, the word is 0,
     no credit, debt or queue entry is left *)
  (quiescent s = true ->
     sw s = 0 /\ sr s = 0 /\ rq s = [] /\ wq s = [] /\ rpass s = 0 /\ rwait s = 0%Z /\ spin s = false /\
     forall c x, get s c = Some x -> pc x = PDone).
Proof.
  intros f rf n tr s H. pose proof (inv_reach _ _ _ _ _ H) as I.
  split. { intros. eapply enabled; eauto. }
  split. { apply spin_holder; auto. }
  split. { apply thm_progress; auto. }
  apply thm_quiescent; auto.
Qed.
