(* Invariant of the Handoff transition system and the facts the C01 theorems are made of.
   Everything is proved for every event sequence (schedule) and every stored value.

   The control part of the invariant is a boolean function [invb] (so that each case of the preservation
   proof is closed by computation); the unbounded observation lists are covered by [lists_ok]. *)
From Coq Require Import List Arith Bool Lia.
Import ListNotations.
From YV Require Import model.Handoff.

Definition oeqb (a b : option nat) : bool :=
  match a, b with
  | None, None => true
  | Some x, Some y => Nat.eqb x y
  | _, _ => false
  end.

Lemma oeqb_refl a : oeqb a a = true.
Proof. destruct a; simpl; auto using Nat.eqb_refl. Qed.
Lemma oeqb_eq a b : oeqb a b = true -> a = b.
Proof. destruct a, b; simpl; try discriminate; auto. intros H. apply Nat.eqb_eq in H. congruence. Qed.

Lemma word_eqb_eq a b : word_eqb a b = true -> a = b.
Proof. destruct a, b; simpl; congruence. Qed.
Lemma who_eqb_eq a b : who_eqb a b = true -> a = b.
Proof. destruct a, b; simpl; congruence. Qed.

Definition is_some (a : option nat) : bool := match a with Some _ => true | None => false end.

(* the continuation's progress once somebody holds the token *)
Definition cont_ok (s : st) : bool :=
  match alive s, taken s, cbs s with
  | true, None, [] => Nat.eqb (frees s) 0
  | true, Some v, [c] => Nat.eqb (frees s) 0 && oeqb v (slot s) && oeqb c (slot s)
  | false, Some v, [] => Nat.eqb (frees s) 1 && oeqb v (slot s)
  | false, Some v, [c] => Nat.eqb (frees s) 1 && oeqb v (slot s) && oeqb c (slot s)
  | _, _, _ => false
  end &&
  match kd s with KSilent => (match cbs s with [] => true | _ => false end) | KGet => false | _ => true end.

Definition fresh (s : st) : bool :=
  match tokens s, alive s, taken s, cbs s with
  | [], true, None, [] => Nat.eqb (frees s) 0
  | _, _, _, _ => false
  end.

Definition invb (s : st) : bool :=
  match ppc s, slot s, w s with
  | 0, None, (WE | WC) | 1, Some _, (WE | WC) | 2, Some _, WR => true
  | _, _, _ => false
  end &&
  match cpc s with
  | C0 | CPeek | CW0 | CW1 => fresh s && negb (word_eqb (w s) WC) && negb (signalled s)
  | C1 => fresh s && negb (word_eqb (w s) WC) && negb (signalled s) &&
          (match kd s with KGet => false | _ => true end)
  | CPeekHit => fresh s && word_eqb (w s) WR && negb (signalled s)
  | CWaiting | CTWaiting | CReset1 =>
      fresh s &&
      match w s with
      | WC => is_event s && negb (signalled s)
      | WR => signalled s
      | WE => false
      end
  | CTWaitingU => fresh s && word_eqb (w s) WR && signalled s
  | CTW0 | CTW1 => fresh s && negb (word_eqb (w s) WC) && negb (signalled s)
  | CTRet b => fresh s && negb (word_eqb (w s) WC) && negb (signalled s) && (negb b || word_eqb (w s) WR)
  | CAttached =>
      match w s with
      | WC => fresh s && negb (is_event s) && (match kd s with KGet => false | _ => true end)
      | WR => (match tokens s with [P] => true | _ => false end) && cont_ok s
      | WE => false
      end
  | CInline =>
      word_eqb (w s) WR && (match tokens s with [C] => true | _ => false end) && cont_ok s
  | CInlineT =>
      word_eqb (w s) WR && (match tokens s with [C] => true | _ => false end) && cont_ok s &&
      (match kd s with KConnect => true | _ => false end)
  | CGotten =>
      word_eqb (w s) WR && (match tokens s, alive s, taken s, cbs s, kd s with
                            | [], false, Some v, [], KGet => Nat.eqb (frees s) 1 && oeqb v (slot s)
                            | _, _, _, _, _ => false end)
  | CDone =>
      word_eqb (w s) WR && (match tokens s, alive s, taken s, cbs s, kd s with
                            | [], false, Some v, [], KGet => Nat.eqb (frees s) 1 && oeqb v (slot s)
                            | _, _, _, _, _ => false end) &&
      (match rev (gots s) with g :: _ => oeqb g (slot s) | [] => false end)
  end.

Definition lists_ok (s : st) : Prop :=
  Forall (fun v => v = slot s /\ is_some (slot s) = true) (gots s) /\
  Forall (fun p => fst p = true -> snd p = true) (readys s).

Definition Inv (s : st) : Prop := invb s = true /\ lists_ok s.

Lemma inv_init k : Inv (init k).
Proof. split; [reflexivity|split; constructor]. Qed.

(* ---- tactics --------------------------------------------------------------------------------- *)

Ltac split_and :=
  repeat match goal with
         | H : _ && _ = true |- _ => apply andb_true_iff in H; destruct H
         | H : negb _ = true |- _ => apply negb_true_iff in H
         | H : Nat.eqb _ _ = true |- _ => apply Nat.eqb_eq in H
         | H : oeqb _ _ = true |- _ => apply oeqb_eq in H
         end.

Ltac case_hyp H :=
  repeat match type of H with
         | context [match ?x with _ => _ end] => destruct x eqn:?; simpl in H; try discriminate H
         | context [if ?x then _ else _] => destruct x eqn:?; simpl in H; try discriminate H
         end.

Ltac finish_b :=
  simpl in *; subst; simpl in *;
  repeat match goal with
         | H : ?x = _ |- context [?x] => rewrite H
         end;
  simpl; rewrite ?oeqb_refl, ?Nat.eqb_refl; simpl; try reflexivity; try congruence.

Lemma Forall_app_one {A} (Pp : A -> Prop) l x : Forall Pp l -> Pp x -> Forall Pp (l ++ [x]).
Proof. intros. apply Forall_app. split; auto. Qed.

Lemma rev_app_one {A} (l : list A) x : rev (l ++ [x]) = x :: rev l.
Proof. rewrite rev_app_distr. reflexivity. Qed.

(* ---- preservation ----------------------------------------------------------------------------- *)

Lemma inv_wake s : Inv s -> Inv (wake s).
Proof.
  intros [Ib Il]. unfold wake.
  destruct (cpc s) eqn:Ec; try (split; assumption);
    (destruct (signalled s) eqn:Es; [|split; assumption]);
    (split; [|exact Il]);
    unfold invb, fresh in *; simpl; rewrite Ec in Ib;
    destruct (ppc s) as [|[|[|n]]], (slot s), (w s); simpl in *; try discriminate;
    rewrite ?Es in *; simpl in *; split_and; try discriminate;
    repeat match goal with H : ?a = true |- context[?a] => rewrite H end; simpl; auto.
Qed.

Lemma rd_alive s : alive s = true -> rd s = slot s.
Proof. unfold rd. intros ->. reflexivity. Qed.


Ltac rew_eqs :=
  repeat match goal with
         | H : ?f ?s = _ |- _ =>
             match f with
             | ppc => idtac | w => idtac | slot => idtac | cpc => idtac | tokens => idtac | alive => idtac
             | taken => idtac | cbs => idtac | kd => idtac | is_event => idtac | signalled => idtac
             | waited => idtac | frees => idtac
             end;
             match goal with
             | H2 : context [f s] |- _ => lazymatch H2 with H => fail | _ => rewrite H in H2 end
             | |- context [f s] => rewrite H
             end
         end.

Ltac case_all :=
  repeat match goal with
         | H : context [match ?x with _ => _ end] |- _ => destruct x eqn:?; simpl in *; try discriminate
         | H : context [if ?x then _ else _] |- _ => destruct x eqn:?; simpl in *; try discriminate
         end.

Ltac prep Ib :=
  unfold invb, fresh, cont_ok, add_token, upd_cpc, upd_w, holds_token, do_free, rd in *; simpl in *;
  repeat match goal with H : negb _ = false |- _ => apply negb_false_iff in H end;
  split_and;
  repeat match goal with H : word_eqb _ _ = true |- _ => apply word_eqb_eq in H end;
  repeat match goal with H : who_eqb _ _ = true |- _ => apply who_eqb_eq in H end; subst;
  rew_eqs; simpl in *;
  case_all; rew_eqs; simpl in *; split_and; subst; simpl in *; rew_eqs; simpl in *.

Ltac solve_b Ib :=
  prep Ib; rewrite ?rev_app_one; simpl; rewrite ?oeqb_refl, ?Nat.eqb_refl, ?orb_true_r, ?andb_true_r; simpl;
  try reflexivity; try discriminate; auto;
  repeat match goal with b : bool |- _ => destruct b; simpl in *; try reflexivity; try discriminate end.

Ltac solve_l Ib :=
  try assumption;
  try solve [ apply Forall_app_one; [assumption|]; simpl;
              repeat match goal with H : Bool.eqb _ _ = true |- _ => apply Bool.eqb_prop in H end; subst;
              prep Ib; auto; try discriminate;
              repeat match goal with b : bool |- _ => destruct b; simpl in *; auto; try discriminate end ].

Lemma inv_step_set s r s' : Inv s -> step s (ESet r) = Some s' -> Inv s'.
Proof.
  intros [Ib [Ig Ir]]. simpl. intros H. case_hyp H. inversion H; subst; clear H.
  assert (Hg : gots s = []).
  { destruct (gots s) as [|g l]; [reflexivity|]. inversion Ig as [|? ? [_ Hs] _]; subst.
    unfold invb in Ib. rewrite Heqn in Ib. destruct (slot s); simpl in *; discriminate. }
  split; [|split; simpl; [rewrite Hg; constructor|exact Ir]].
  solve_b Ib.
Qed.

Lemma inv_step_xchg s old s' : Inv s -> step s (EXchg old) = Some s' -> Inv s'.
Proof.
  intros [Ib [Ig Ir]] H. simpl in H. case_hyp H.
  all: inversion H; subst; clear H.
  all: split; [|split; simpl; auto].
  all: solve_b Ib.
Qed.

Lemma inv_step_ldP s v s' : Inv s -> step s (ELd P v) = Some s' -> Inv s'.
Proof.
  intros [Ib [Ig Ir]] H. simpl in H. unfold do_free, holds_token in H. case_hyp H.
  all: inversion H; subst; clear H.
  all: split; [|split; simpl; auto].
  all: solve_b Ib.
Qed.

Lemma inv_step_cb s t s' : Inv s -> step s (ECb t) = Some s' -> Inv s'.
Proof.
  intros [Ib [Ig Ir]] H. simpl in H. unfold holds_token in H. case_hyp H.
  all: inversion H; subst; clear H.
  all: split; [|split; simpl; auto].
  all: solve_b Ib.
Qed.

Lemma inv_step_c s e s' : Inv s -> step_c s e = Some s' -> Inv s'.
Proof.
  intros [Ib [Ig Ir]] H. destruct e; simpl in H; try discriminate.
  - (* EPeekBegin *) case_hyp H. inversion H; subst; clear H. split; [solve_b Ib|split; simpl; auto].
  - (* EWaitBegin *) case_hyp H. inversion H; subst; clear H. split; [solve_b Ib|split; simpl; auto].
  - (* ETWaitBegin *) case_hyp H. inversion H; subst; clear H. split; [solve_b Ib|split; simpl; auto].
  - (* ETWaitRet *) case_hyp H.
    all: inversion H; subst; clear H.
    all: split; [try solve [solve_b Ib]|split; simpl; auto].
    all: solve_l Ib.
  - (* ELd C *) destruct t; [discriminate|]. unfold do_free, holds_token in H. case_hyp H.
    all: inversion H; subst; clear H.
    all: split; [try solve [solve_b Ib]|split; simpl; auto].
    all: solve_l Ib.
  - (* ECas *) case_hyp H.
    all: inversion H; subst; clear H.
    all: split; [try solve [solve_b Ib]|split; simpl; auto].
  - (* EGot *) case_hyp H.
    all: inversion H; subst; clear H.
    all: split; [try solve [solve_b Ib]|split; simpl; auto].
    all: solve_l Ib.
Qed.

Theorem inv_step s e s' : Inv s -> step s e = Some s' -> Inv s'.
Proof.
  intros I H. destruct e.
  - eapply inv_step_set; eauto.
  - eapply inv_step_xchg; eauto.
  - eapply inv_step_c; [apply inv_wake; exact I|exact H].
  - eapply inv_step_c; [apply inv_wake; exact I|exact H].
  - eapply inv_step_c; [apply inv_wake; exact I|exact H].
  - eapply inv_step_c; [apply inv_wake; exact I|exact H].
  - destruct t.
    + eapply inv_step_ldP; eauto.
    + change (step s (ELd C v)) with
        (match cpc s with CTWaiting => step_c s (ELd C v) | _ => step_c (wake s) (ELd C v) end) in H.
      destruct (cpc s) eqn:Ec;
        first [ (eapply inv_step_c; [apply inv_wake; exact I|exact H])
              | (eapply inv_step_c; [exact I|exact H]) ].
  - eapply inv_step_c; [apply inv_wake; exact I|exact H].
  - eapply inv_step_cb; eauto.
  - eapply inv_step_c; [apply inv_wake; exact I|exact H].
Qed.

Theorem inv_run tr : forall s s', Inv s -> run s tr = Some s' -> Inv s'.
Proof.
  induction tr as [|e tr IH]; simpl; intros s s' I H.
  - inversion H; subst; exact I.
  - destruct (step s e) as [s1|] eqn:E; [|discriminate]. eapply IH; [|exact H]. eapply inv_step; eauto.
Qed.

Theorem inv_reach k tr s : run (init k) tr = Some s -> Inv s.
Proof. apply inv_run. apply inv_init. Qed.

(* ---- consequences, in the terms of the property ------------------------------------------------ *)

(* every value delivered to a callback or returned by Get is the value that was Set, and it was set *)
Lemma delivered_is_set s : Inv s ->
  forall v, In v (cbs s ++ gots s) -> exists r, v = Some r /\ slot s = Some r.
Proof.
  intros [Ib [Ig _]] v Hin. apply in_app_or in Hin. destruct Hin as [Hin|Hin].
  - assert (Hv : v = slot s /\ is_some (slot s) = true).
    { prep Ib; simpl in Hin; try contradiction; destruct Hin as [Hin|[]]; subst; auto. }
    destruct Hv as [-> Hs]. destruct (slot s) as [r|]; [eauto|discriminate].
  - rewrite Forall_forall in Ig. destruct (Ig _ Hin) as [-> Hs].
    destruct (slot s) as [r|]; [eauto|discriminate].
Qed.

Lemma at_most_once s : Inv s -> length (cbs s) <= 1 /\ frees s <= 1 /\ length (tokens s) <= 1.
Proof. intros [Ib _]. prep Ib; simpl; lia. Qed.

Lemma ready_sound s : Inv s -> Forall (fun p => fst p = true -> snd p = true) (readys s).
Proof. intros [_ [_ Ir]]. exact Ir. Qed.

Lemma word_result_means_set s : Inv s -> w s = WR -> exists r, slot s = Some r.
Proof. intros [Ib _] Hw. prep Ib; eauto; discriminate. Qed.

Lemma silent_no_callback s : Inv s -> kd s = KSilent \/ kd s = KGet -> cbs s = [].
Proof. intros [Ib _] [Hk|Hk]; prep Ib; auto; discriminate. Qed.

(* nothing is lost: once both sides have passed their read-modify-write, somebody is responsible *)
Lemma not_lost s : Inv s -> ppc s = 2 ->
  match cpc s with
  | CAttached => tokens s = [P]
  | CInline | CInlineT => tokens s = [C]
  | CWaiting | CTWaiting | CReset1 | CTWaitingU => signalled s = true
  | _ => True
  end.
Proof. intros [Ib _] Hp. prep Ib; auto; try discriminate; try lia. Qed.

Lemma terminal_exact s : Inv s -> terminal s = true ->
  exists r, slot s = Some r /\ frees s = 1 /\ alive s = false /\
  match kd s with
  | KAttach | KConnect => cbs s = [Some r]
  | KSilent => cbs s = []
  | KGet => cbs s = [] /\ exists l, gots s = l ++ [Some r]
  end.
Proof.
  intros [Ib [Ig _]] Ht. unfold terminal in Ht.
  destruct (kd s) eqn:Ek, (cpc s) eqn:Ec; simpl in Ht; rewrite ?andb_false_r in Ht; try discriminate.
  all: prep Ib; try discriminate; try lia.
  all: try (eexists; repeat split; eauto; fail).
  all: try (eexists; repeat split; eauto;
            match goal with H : rev ?l = _ :: ?r |- _ =>
              exists (rev r); rewrite <- (rev_involutive l), H; simpl; reflexivity end).
Qed.
