(* Invariant of the Shared transition system (model/Shared.v) and the facts the C06 theorems are made of.
   Everything is proved for every event sequence (schedule), every number of SharedFuture copies and callbacks, and
   every stored value.  The readiness rule is a parameter of the model; the invariant is proved for the rule
   "ready = (word == kResult)", and [ready_rule] (below) is the obligation that this is the rule found in the source. *)
From Coq Require Import List Arith Bool Lia.
Import ListNotations.
From YV Require Import gen.Gen_ready gen.Gen_shared_consts model.Shared.

(* ---- obligations on what the translators read from the source ------------------------------------------ *)

(* BaseCore::Empty() compares with kResult, Ready() is its negation: breaks when the source regresses (S1) *)
Lemma ready_rule : ready_rule_recognised = true /\ ready_is_result = true.
Proof. split; reflexivity. Qed.

(* three promise-side references, dropped by SetResultImpl as 1 + 2 (non-empty list) or 3 (empty list); the future of
   MakeSharedContract holds one more; the thresholds of Impl / Get&& / Touch&& *)
Lemma source_constants :
  kSharedRefNoFuture = 3 /\ kSharedRefWithFuture = 4 /\
  set_result_decrefs_before_last = 1 /\ set_result_decrefs_after_last = 2 /\ set_result_decrefs_empty_list = 3 /\
  impl_copy_when_ref_ge = 3 /\ impl_decref_when_ref_eq = 1 /\ get_move_when_ref_eq = 1 /\ touch_move_when_ref_eq = 1.
Proof. repeat split; reflexivity. Qed.

(* ---- lists ------------------------------------------------------------------------------------------------ *)

Lemma nth_upd {A} (l : list A) i j x :
  nth_error (upd l i x) j =
  if Nat.eqb i j then match nth_error l j with Some _ => Some x | None => None end else nth_error l j.
Proof.
  revert i j. induction l as [|a t IH]; intros i j; simpl.
  - destruct (Nat.eqb i j); destruct j; reflexivity.
  - destruct i, j; simpl; try reflexivity. apply IH.
Qed.

Lemma upd_length {A} (l : list A) i x : length (upd l i x) = length l.
Proof. revert i. induction l; intros [|i]; simpl; auto. Qed.

Lemma nth_app_one {A} (l : list A) x j :
  nth_error (l ++ [x]) j = if Nat.ltb j (length l) then nth_error l j else if Nat.eqb j (length l) then Some x else None.
Proof.
  revert j. induction l as [|a t IH]; intros j; simpl.
  - destruct j; simpl; [reflexivity|]. destruct j; reflexivity.
  - destruct j; simpl; [reflexivity|]. rewrite IH. reflexivity.
Qed.

Lemma nth_some_lt {A} (l : list A) i x : nth_error l i = Some x -> i < length l.
Proof. intros H. apply nth_error_Some. congruence. Qed.

Fixpoint count {A} (f : A -> bool) (l : list A) : nat :=
  match l with [] => 0 | a :: t => (if f a then 1 else 0) + count f t end.

Lemma count_app {A} (f : A -> bool) l1 l2 : count f (l1 ++ l2) = count f l1 + count f l2.
Proof. induction l1; simpl; lia. Qed.

Lemma count_upd {A} (f : A -> bool) l i old x :
  nth_error l i = Some old ->
  count f (upd l i x) + (if f old then 1 else 0) = count f l + (if f x then 1 else 0).
Proof.
  revert i. induction l as [|a t IH]; intros i H.
  - destruct i; discriminate.
  - destruct i; simpl in *.
    + inversion H; subst. lia.
    + specialize (IH _ H). lia.
Qed.

Lemma count_pos {A} (f : A -> bool) l i a : nth_error l i = Some a -> f a = true -> 1 <= count f l.
Proof.
  revert i. induction l as [|b t IH]; intros i H Hf.
  - destruct i; discriminate.
  - destruct i; simpl in *.
    + inversion H; subst. rewrite Hf. lia.
    + specialize (IH _ H Hf). lia.
Qed.

Lemma count_two {A} (f : A -> bool) l i j a b :
  nth_error l i = Some a -> nth_error l j = Some b -> i <> j -> f a = true -> f b = true -> 2 <= count f l.
Proof.
  revert i j. induction l as [|c t IH]; intros i j Hi Hj Hne Ha Hb.
  - destruct i; discriminate.
  - destruct i, j; simpl in *; try congruence.
    + inversion Hi; subst. rewrite Ha. pose proof (count_pos f t j b Hj Hb). lia.
    + inversion Hj; subst. rewrite Hb. pose proof (count_pos f t i a Hi Ha). lia.
    + assert (i <> j) by congruence. specialize (IH i j Hi Hj H Ha Hb). lia.
Qed.

Lemma count_zero {A} (f : A -> bool) l i a : count f l = 0 -> nth_error l i = Some a -> f a = false.
Proof.
  intros Hc Hn. destruct (f a) eqn:E; [|reflexivity].
  pose proof (count_pos f l i a Hn E). lia.
Qed.

Lemma Forall_app_one {A} (P : A -> Prop) l x : Forall P l -> P x -> Forall P (l ++ [x]).
Proof. intros. apply Forall_app. split; auto. Qed.

Lemma list_eqb_eq a : forall b, list_eqb a b = true -> a = b.
Proof.
  induction a as [|x a IH]; intros [|y b]; simpl; try discriminate; auto.
  intros H. apply andb_true_iff in H. destruct H as [H1 H2]. apply Nat.eqb_eq in H1. f_equal; auto.
Qed.

(* ---- the invariant ------------------------------------------------------------------------------------------ *)

Definition live (pc : hpc) : bool := negb (h_dead pc).
Definition held (e : cb) : bool := match cst e with CHeld | CRan => true | _ => false end.
Definition inl_pc (pc : hpc) : bool := match pc with HInl _ | HConnR => true | _ => false end.
Definition firing (x : cstate) : bool := match x with CFireF | CConn _ _ => true | _ => false end.

(* references held on the promise side: SetResultImpl drops one before the last callback and two at the end *)
Definition prom (f : fpc_t) : nat :=
  match f with
  | F0 | F1 | FWalk _ _ | FLastDec _ => 3
  | FLast _ | FD2 => 2
  | FD1 => 1
  | FDone => 0
  end.

(* callbacks that are registered and not yet reached by the fulfiller *)
Definition pend_of (x : word) (f : fpc_t) : list nat :=
  match x with
  | WStack l => l
  | WRes => match f with FWalk _ rest => rest | FLastDec (Some c) => [c] | _ => [] end
  end.
Definition pend (s : st) : list nat := pend_of (w s) (fpc s).

Definition cst_at (l : list cb) (c : nat) : option cstate :=
  match nth_error l c with Some e => Some (cst e) | None => None end.
Definition fir_at (l : list cb) (c : nat) : bool :=
  match nth_error l c with Some e => firing (cst e) | None => false end.

Definition is_cb_kind (k : kind) : bool := match k with KEvent => false | _ => true end.

Definition cb_ok (s : st) (c : nat) (e : cb) : Prop :=
  (cst e <> CQueued -> w s = WRes) /\
  match cst e with
  | CConn mv dc => ck e = KConn /\ dc = false /\ (mv = true -> refs s = 2 /\ fpc s = FLast c)
  | CHeld | CRan => ck e = KCall
  | CFireF => ck e <> KEvent
  | _ => True
  end /\
  match cst e with
  | CRan | CDone => if is_cb_kind (ck e) then cv e = [val s] /\ val s <> None else cv e = []
  | _ => cv e = []
  end.

Definition h_ok (s : st) (pc : hpc) : Prop :=
  match pc with
  | HRc | HRead | HOut false | HConnR => w s = WRes
  | HInl k => w s = WRes /\ k <> KEvent
  | HOut true => w s = WRes /\ refs s = 1
  | HSleep c _ => exists e, nth_error (cs s) c = Some e /\ ck e = KEvent
  | HAtt p _ => p <> PCb KEvent
  | _ => True
  end.

Definition spent_or_dead (pc : hpc) : Prop := pc = HSpent \/ pc = HDead.

Definition AcctI (s : st) : Prop :=
  refs s = prom (fpc s) + count live (hs s) + count held (cs s) /\
  alive s = negb (Nat.eqb (refs s) 0) /\
  frees s = (if alive s then 0 else 1) /\
  under s = 0 /\ uaf s = 0 /\ (dying s = true -> alive s = false).

Definition WordI (s : st) : Prop :=
  match fpc s with
  | F0 => slot s = Unset /\ val s = None /\ exists l, w s = WStack l
  | F1 => (exists r, slot s = SetV r /\ val s = Some r) /\ exists l, w s = WStack l
  | _ => w s = WRes /\ exists r, val s = Some r /\ (slot s = SetV r \/ slot s = Moved)
  end.

Definition PendI (s : st) : Prop :=
  NoDup (pend s) /\
  (forall c, In c (pend s) <-> cst_at (cs s) c = Some CQueued) /\
  match fpc s with FWalk _ [] => False | _ => True end /\
  (forall c, fir_at (cs s) c = true <-> cur s = Some c).

Definition CbI (s : st) : Prop := forall c e, nth_error (cs s) c = Some e -> cb_ok s c e.
Definition HI (s : st) : Prop := forall h pc, nth_error (hs s) h = Some pc -> h_ok s pc.
Definition MovedI (s : st) : Prop :=
  slot s = Moved ->
  (forall h pc, nth_error (hs s) h = Some pc -> spent_or_dead pc) /\
  (forall c e, nth_error (cs s) c = Some e -> cst e = CDone).
Definition good_val (s : st) (v : option nat) : Prop := v = val s /\ v <> None.
Definition LogI (s : st) : Prop :=
  Forall (good_val s) (gots s) /\ Forall (good_val s) (iruns s) /\
  Forall (fun p => fst p = true -> snd p = true) (readys s).
Definition FailI (s : st) : Prop := nfail s = length (iruns s) + count inl_pc (hs s) + count cinl (cs s).

Record Inv (s : st) : Prop := {
  I_acct : AcctI s; I_wordg : WordI s; I_pendg : PendI s; I_cb : CbI s; I_h : HI s; I_moved : MovedI s;
  I_log : LogI s; I_fail : FailI s
}.

Lemma I_refs s : Inv s -> refs s = prom (fpc s) + count live (hs s) + count held (cs s).
Proof. intros I. apply (I_acct s I). Qed.
Lemma I_alive s : Inv s -> alive s = negb (Nat.eqb (refs s) 0).
Proof. intros I. apply (I_acct s I). Qed.
Lemma I_word s : Inv s -> WordI s.
Proof. intros I. apply (I_wordg s I). Qed.
Lemma I_nodup s : Inv s -> NoDup (pend s).
Proof. intros I. apply (I_pendg s I). Qed.
Lemma I_pend s : Inv s -> forall c, In c (pend s) <-> cst_at (cs s) c = Some CQueued.
Proof. intros I. apply (I_pendg s I). Qed.
Lemma I_walk s : Inv s -> match fpc s with FWalk _ [] => False | _ => True end.
Proof. intros I. apply (I_pendg s I). Qed.
Lemma I_cur s : Inv s -> forall c, fir_at (cs s) c = true <-> cur s = Some c.
Proof. intros I. apply (I_pendg s I). Qed.

Lemma inv_init wf : Inv (init wf).
Proof.
  assert (Hn : forall c, cst_at [] c = None) by (intros [|c]; reflexivity).
  assert (Hf : forall c, fir_at [] c = false) by (intros [|c]; reflexivity).
  destruct wf; constructor.
  all: try (unfold AcctI; simpl; repeat split; auto; discriminate).
  all: try (unfold WordI; simpl; split; [reflexivity|split; [reflexivity|eexists; reflexivity]]).
  all: try (unfold PendI; simpl; split; [apply NoDup_nil|split; [|split; [exact Logic.I|]]];
            [intros c; rewrite Hn; split; [intros []|discriminate]|intros c; rewrite Hf; split; discriminate]).
  all: try (intros [|c] e H; discriminate).
  all: try (intros [|[|h]] pc H; simpl in H; inversion H; subst; simpl; auto; fail).
  all: try (intros H; discriminate).
  all: try (unfold LogI; simpl; repeat split; apply Forall_nil).
  all: try reflexivity.
Qed.


(* ---- updates of the callback table ----------------------------------------------------------------------------- *)

Definition with_cst (e : cb) (x : cstate) : cb := {| ck := ck e; cinl := cinl e; cst := x; cv := cv e |}.
Definition with_cv (e : cb) (x : cstate) (v : option nat) : cb :=
  {| ck := ck e; cinl := cinl e; cst := x; cv := cv e ++ [v] |}.

Lemma nth_set_cst l c x j :
  nth_error (set_cst l c x) j =
  match nth_error l j with Some e => Some (if Nat.eqb c j then with_cst e x else e) | None => None end.
Proof.
  unfold set_cst. destruct (nth_error l c) eqn:E.
  - rewrite nth_upd. destruct (Nat.eqb c j) eqn:Ej.
    + apply Nat.eqb_eq in Ej; subst. rewrite E. reflexivity.
    + destruct (nth_error l j); reflexivity.
  - destruct (Nat.eqb c j) eqn:Ej.
    + apply Nat.eqb_eq in Ej; subst. rewrite E. reflexivity.
    + destruct (nth_error l j); reflexivity.
Qed.

Lemma nth_add_cv l c x v j :
  nth_error (add_cv l c x v) j =
  match nth_error l j with Some e => Some (if Nat.eqb c j then with_cv e x v else e) | None => None end.
Proof.
  unfold add_cv. destruct (nth_error l c) eqn:E.
  - rewrite nth_upd. destruct (Nat.eqb c j) eqn:Ej.
    + apply Nat.eqb_eq in Ej; subst. rewrite E. reflexivity.
    + destruct (nth_error l j); reflexivity.
  - destruct (Nat.eqb c j) eqn:Ej.
    + apply Nat.eqb_eq in Ej; subst. rewrite E. reflexivity.
    + destruct (nth_error l j); reflexivity.
Qed.

Lemma count_set_cst f l c x e :
  nth_error l c = Some e ->
  count f (set_cst l c x) + (if f e then 1 else 0) = count f l + (if f (with_cst e x) then 1 else 0).
Proof. intros H. unfold set_cst. rewrite H. apply count_upd. exact H. Qed.

Lemma count_add_cv f l c x v e :
  nth_error l c = Some e ->
  count f (add_cv l c x v) + (if f e then 1 else 0) = count f l + (if f (with_cv e x v) then 1 else 0).
Proof. intros H. unfold add_cv. rewrite H. apply count_upd. exact H. Qed.

Lemma count_set_cst_none f l c x : nth_error l c = None -> count f (set_cst l c x) = count f l.
Proof. intros H. unfold set_cst. rewrite H. reflexivity. Qed.

Lemma count_cinl_set_cst l c x : count cinl (set_cst l c x) = count cinl l.
Proof.
  destruct (nth_error l c) eqn:E.
  - pose proof (count_set_cst cinl l c x c0 E) as H. simpl in H. lia.
  - apply count_set_cst_none. exact E.
Qed.

Lemma count_cinl_add_cv l c x v : count cinl (add_cv l c x v) = count cinl l.
Proof.
  destruct (nth_error l c) eqn:E.
  - pose proof (count_add_cv cinl l c x v c0 E) as H. simpl in H. lia.
  - unfold add_cv. rewrite E. reflexivity.
Qed.

Lemma is_event_set_cst l c x j : is_event (set_cst l c x) j = is_event l j.
Proof.
  unfold is_event, kind_at. rewrite nth_set_cst. destruct (nth_error l j); [|reflexivity].
  destruct (Nat.eqb c j); reflexivity.
Qed.

(* the events skipped by the walk *)
Definition mark (sk : list nat) (cbs : list cb) : list cb := fold_left (fun acc c => set_cst acc c CDone) sk cbs.
Definition memb (j : nat) (l : list nat) : bool := existsb (Nat.eqb j) l.

Lemma memb_In j l : memb j l = true <-> In j l.
Proof.
  unfold memb. rewrite existsb_exists. split.
  - intros [x [Hi He]]. apply Nat.eqb_eq in He. subst. exact Hi.
  - intros H. exists j. split; [exact H|apply Nat.eqb_refl].
Qed.

Lemma with_cst_idem e x : with_cst (with_cst e x) x = with_cst e x.
Proof. reflexivity. Qed.

Lemma nth_mark sk : forall l j,
  nth_error (mark sk l) j =
  match nth_error l j with Some e => Some (if memb j sk then with_cst e CDone else e) | None => None end.
Proof.
  induction sk as [|c sk IH]; intros l j; simpl.
  - destruct (nth_error l j); reflexivity.
  - unfold mark in *. simpl. rewrite IH. rewrite nth_set_cst. destruct (nth_error l j) as [e|]; [|reflexivity].
    unfold memb. simpl. rewrite (Nat.eqb_sym j c). destruct (Nat.eqb c j); simpl.
    + destruct (existsb (Nat.eqb j) sk); reflexivity.
    + reflexivity.
Qed.

Lemma is_event_mark sk : forall l j, is_event (mark sk l) j = is_event l j.
Proof.
  induction sk as [|c sk IH]; intros l j; simpl; [reflexivity|].
  unfold mark in *. simpl. rewrite IH. apply is_event_set_cst.
Qed.

Lemma count_cinl_mark sk : forall l, count cinl (mark sk l) = count cinl l.
Proof.
  induction sk as [|c sk IH]; intros l; simpl; [reflexivity|].
  unfold mark in *. simpl. rewrite IH. apply count_cinl_set_cst.
Qed.

Lemma count_held_set_cst_unheld l c x :
  (forall e, nth_error l c = Some e -> held e = false) -> held {| ck := KInl; cinl := false; cst := x; cv := [] |} = false ->
  count held (set_cst l c x) = count held l.
Proof.
  intros H Hx. destruct (nth_error l c) eqn:E.
  - pose proof (count_set_cst held l c x c0 E) as Hc. rewrite (H _ eq_refl) in Hc.
    assert (held (with_cst c0 x) = false) by (unfold held in *; simpl in *; exact Hx).
    rewrite H0 in Hc. lia.
  - apply count_set_cst_none. exact E.
Qed.

Lemma count_held_mark sk : forall l,
  (forall c e, In c sk -> nth_error l c = Some e -> held e = false) -> count held (mark sk l) = count held l.
Proof.
  induction sk as [|c sk IH]; intros l H; simpl; [reflexivity|].
  unfold mark in *. simpl. rewrite IH.
  - apply count_held_set_cst_unheld; [|reflexivity]. intros e He. apply (H c e); [left; reflexivity|exact He].
  - intros c' e' Hin Hn. rewrite nth_set_cst in Hn. destruct (nth_error l c') eqn:E; [|discriminate].
    inversion Hn; subst. destruct (Nat.eqb c c'); [reflexivity|]. apply (H c' c0); [right; exact Hin|exact E].
Qed.

Lemma mark_length sk : forall l, length (mark sk l) = length l.
Proof.
  induction sk as [|c sk IH]; intros l; simpl; [reflexivity|].
  unfold mark in *. simpl. rewrite IH. unfold set_cst. destruct (nth_error l c); [apply upd_length|reflexivity].
Qed.

(* what the walk does with what is left of the list *)
Lemma advance_spec l : forall cbs pc cbs', advance l cbs = (pc, cbs') ->
  exists sk,
    (forall c, In c sk -> is_event cbs c = true) /\
    ((l = [] /\ sk = [] /\ pc = FLastDec None /\ cbs' = cbs) \/
     (exists c, l = sk ++ [c] /\ pc = FLastDec (Some c) /\ cbs' = mark sk cbs) \/
     (exists c rest, rest <> [] /\ l = sk ++ c :: rest /\ pc = FWalk c rest /\ is_event cbs c = false /\
                     cbs' = set_cst (mark sk cbs) c CFireF)).
Proof.
  induction l as [|c l IH]; intros cbs pc cbs' H.
  - simpl in H. inversion H; subst. exists []. split; [intros ? []|]. left. auto.
  - destruct l as [|c2 r].
    + simpl in H. inversion H; subst. exists []. split; [intros ? []|]. right; left. exists c. auto.
    + simpl in H. destruct (is_event cbs c) eqn:Ev.
      * apply IH in H. destruct H as [sk [Hev Hc]]. exists (c :: sk). split.
        { intros x [Hx|Hx]; [subst; exact Ev|]. specialize (Hev x Hx). rewrite is_event_set_cst in Hev. exact Hev. }
        destruct Hc as [[Hl _]|[[c' [Hl [Hp Hm]]]|[c' [rest [Hr [Hl [Hp [He Hm]]]]]]]].
        { discriminate. }
        { right; left. exists c'. simpl. rewrite Hl. auto. }
        { right; right. exists c', rest. simpl. rewrite Hl. rewrite is_event_set_cst in He. auto. }
      * inversion H; subst. exists []. split; [intros ? []|]. right; right. exists c, (c2 :: r).
        repeat split; auto. discriminate.
Qed.

(* ---- small facts used everywhere ---------------------------------------------------------------------------------- *)

(* projections of nested setters are reduced lazily; never unfold the setters wholesale (the term size is exponential) *)
Ltac sf := cbn [w slot val refs fpc hs cs alive dying frees under uaf gots iruns nfail readys
                set_h set_w set_slot set_val set_refs set_fpc set_hs set_cs set_dying set_under set_uaf
                set_gots set_iruns set_nfail set_readys set_freed inc note_ready] in *.

Lemma prom_zero f : prom f = 0 -> f = FDone.
Proof. destruct f; simpl; intros; try discriminate; reflexivity. Qed.

Lemma live_dead pc : live pc = false -> pc = HDead.
Proof. destruct pc; simpl; intros; try discriminate; reflexivity. Qed.

Lemma alive_refs s : Inv s -> alive s = true <-> 1 <= refs s.
Proof.
  intros I. rewrite (I_alive s I). destruct (refs s); simpl; split; intros; try discriminate; try lia; reflexivity.
Qed.

Lemma alive_h s h pc : Inv s -> nth_error (hs s) h = Some pc -> live pc = true -> alive s = true.
Proof.
  intros I Hn Hl. apply (alive_refs s I). rewrite (I_refs s I). pose proof (count_pos live _ _ _ Hn Hl). lia.
Qed.

Lemma alive_c s c e : Inv s -> nth_error (cs s) c = Some e -> held e = true -> alive s = true.
Proof.
  intros I Hn Hl. apply (alive_refs s I). rewrite (I_refs s I). pose proof (count_pos held _ _ _ Hn Hl). lia.
Qed.

Lemma alive_f s : Inv s -> fpc s <> FDone -> alive s = true.
Proof.
  intros I Hf. apply (alive_refs s I). rewrite (I_refs s I). destruct (fpc s); simpl; try lia. congruence.
Qed.

Lemma word_res s : Inv s -> w s = WRes -> exists r, val s = Some r /\ (slot s = SetV r \/ slot s = Moved).
Proof.
  intros I Hw. pose proof (I_word s I) as H. unfold WordI in H. destruct (fpc s); try (destruct H as [_ H]; exact H).
  - destruct H as [_ [_ [l Hl]]]. congruence.
  - destruct H as [_ [l Hl]]. congruence.
Qed.

(* a read of the slot by somebody who may still read *)
Lemma rd_ok s : Inv s -> alive s = true -> w s = WRes -> slot s <> Moved -> rd s = val s /\ val s <> None.
Proof.
  intros I Ha Hw Hm. destruct (word_res s I Hw) as [r [Hv [Hs|Hs]]]; [|congruence].
  unfold rd. rewrite Ha, Hs, Hv. split; [reflexivity|discriminate].
Qed.

Lemma not_moved_h s h pc : Inv s -> nth_error (hs s) h = Some pc -> pc <> HSpent -> pc <> HDead -> slot s <> Moved.
Proof.
  intros I Hn H1 H2 Hm. destruct (I_moved s I Hm) as [Hh _]. destruct (Hh _ _ Hn); congruence.
Qed.

Lemma not_moved_c s c e : Inv s -> nth_error (cs s) c = Some e -> cst e <> CDone -> slot s <> Moved.
Proof.
  intros I Hn H1 Hm. destruct (I_moved s I Hm) as [_ Hc]. specialize (Hc _ _ Hn). congruence.
Qed.

(* the state of a handle as its thread sees it: a sleeping waiter whose event was fired is awake *)
Lemma pc_of_ok s h pc : Inv s -> pc_of s h = Some pc -> pc <> HDead ->
  exists pc0, nth_error (hs s) h = Some pc0 /\ live pc0 = true /\ inl_pc pc0 = inl_pc pc /\ h_ok s pc /\
              (pc0 = pc \/ exists c k, pc0 = HSleep c k /\ pc = after_wait k).
Proof.
  intros I H Hd. unfold pc_of in H. destruct (nth_error (hs s) h) as [pc0|] eqn:E; [|discriminate].
  assert (Hok0 : h_ok s pc0) by (apply (I_h s I h); exact E).
  destruct pc0 as [ | | |mv|p next|c kont|k| | | ];
    try (exfalso; inversion H; subst; apply Hd; reflexivity);
    try (inversion H; subst; eexists; split; [reflexivity|split; [reflexivity|split; [reflexivity|split; [exact Hok0|left; reflexivity]]]]; fail).
  destruct (nth_error (cs s) c) as [e|] eqn:Ec.
  - destruct (cst e) eqn:Est; try (inversion H; subst; eexists; repeat split; eauto; fail).
    inversion H; subst. exists (HSleep c kont). repeat split; auto.
    + destruct kont; reflexivity.
    + pose proof (I_cb s I c e Ec) as [Hw _]. assert (w s = WRes) by (apply Hw; congruence).
      destruct kont; simpl; auto.
    + right. eauto.
  - inversion H; subst. eexists; repeat split; eauto.
Qed.

Lemma h_ok_frame s s' pc :
  h_ok s pc ->
  (w s = WRes -> w s' = WRes) ->
  (pc = HOut true -> refs s' = refs s) ->
  (forall c e, nth_error (cs s) c = Some e -> exists e', nth_error (cs s') c = Some e' /\ ck e' = ck e) ->
  h_ok s' pc.
Proof.
  intros H Hw Hr Hc. destruct pc; simpl in *; auto.
  - destruct mv; [destruct H as [H1 H2]; split; [auto|rewrite Hr; auto]|auto].
  - destruct H as [e [He Hk]]. destruct (Hc _ _ He) as [e' [He' Hk']]. exists e'. split; congruence.
  - destruct H; split; auto.
Qed.

Lemma cb_ok_frame s s' c e :
  cb_ok s c e ->
  (w s = WRes -> w s' = WRes) ->
  (forall dc, cst e = CConn true dc -> refs s' = refs s /\ fpc s' = fpc s) ->
  val s' = val s ->
  cb_ok s' c e.
Proof.
  intros [H1 [H2 H3]] Hw Hr Hv. unfold cb_ok. split; [|split].
  - intros Hq. auto.
  - destruct (cst e) eqn:Ec; auto. destruct H2 as [Ha [Hb Hc]]. split; [exact Ha|split; [exact Hb|]].
    intros ->. destruct (Hr _ eq_refl) as [R1 R2]. destruct (Hc eq_refl) as [C1 C2]. rewrite R1, R2. auto.
  - rewrite Hv. exact H3.
Qed.

(* nobody is in the middle of a move decision: true whenever somebody else is about to change the counter *)
Definition no_excl (s : st) : Prop :=
  (forall h, nth_error (hs s) h <> Some (HOut true)) /\
  (forall c e dc, nth_error (cs s) c = Some e -> cst e <> CConn true dc).

Lemma excl_out s h : Inv s -> nth_error (hs s) h = Some (HOut true) ->
  fpc s = FDone /\ count live (hs s) = 1 /\ count held (cs s) = 0.
Proof.
  intros I Hn. pose proof (I_h s I _ _ Hn) as [_ Hr]. pose proof (I_refs s I) as R.
  pose proof (count_pos live _ _ _ Hn eq_refl). assert (prom (fpc s) = 0) by lia.
  split; [apply prom_zero; assumption|lia].
Qed.

Lemma excl_conn s c e dc : Inv s -> nth_error (cs s) c = Some e -> cst e = CConn true dc ->
  fpc s = FLast c /\ count live (hs s) = 0 /\ count held (cs s) = 0.
Proof.
  intros I Hn Hc. pose proof (I_cb s I _ _ Hn) as [_ [H2 _]]. rewrite Hc in H2. destruct H2 as [_ [_ H2]].
  destruct (H2 eq_refl) as [Hr Hf]. pose proof (I_refs s I) as R. rewrite Hf in R. simpl in R. split; [assumption|lia].
Qed.

Lemma no_excl_h s h pc0 : Inv s -> nth_error (hs s) h = Some pc0 -> live pc0 = true -> pc0 <> HOut true -> no_excl s.
Proof.
  intros I Hn Hl Hne. split.
  - intros h' Hh'. destruct (excl_out s h' I Hh') as [_ [Hc _]].
    assert (h <> h') by (intros ->; congruence).
    pose proof (count_two live _ _ _ _ _ Hn Hh' H Hl eq_refl). lia.
  - intros c e dc Hc He. destruct (excl_conn s c e dc I Hc He) as [_ [Hz _]].
    pose proof (count_pos live _ _ _ Hn Hl). lia.
Qed.

Lemma no_excl_c s c e : Inv s -> nth_error (cs s) c = Some e -> held e = true -> no_excl s.
Proof.
  intros I Hn Hl. split.
  - intros h' Hh'. destruct (excl_out s h' I Hh') as [_ [_ Hc]]. pose proof (count_pos held _ _ _ Hn Hl). lia.
  - intros c' e' dc Hc He. destruct (excl_conn s c' e' dc I Hc He) as [_ [_ Hz]].
    pose proof (count_pos held _ _ _ Hn Hl). lia.
Qed.

Lemma no_excl_f s : Inv s -> fpc s <> FDone -> (forall c, fpc s <> FLast c) -> no_excl s.
Proof.
  intros I Hd Hl. split.
  - intros h' Hh'. destruct (excl_out s h' I Hh') as [Hf _]. congruence.
  - intros c' e' dc Hc He. destruct (excl_conn s c' e' dc I Hc He) as [Hf _]. apply (Hl c'). exact Hf.
Qed.

(* ---- preservation: steps of a handle that change nothing but its own state and the logs -------------------------- *)

Definition local_upd (h : nat) (pc' : hpc) g i n r (s : st) : st :=
  set_h h pc' (set_gots g (set_iruns i (set_nfail n (set_readys r s)))).

Lemma inv_local s h pc0 pc' g i n r :
  Inv s -> nth_error (hs s) h = Some pc0 -> live pc0 = true -> live pc' = true ->
  h_ok s pc' ->
  (slot s = Moved -> spent_or_dead pc') ->
  Forall (good_val s) g -> Forall (good_val s) i ->
  Forall (fun p => fst p = true -> snd p = true) r ->
  n + (if inl_pc pc0 then 1 else 0) + length (iruns s) = nfail s + (if inl_pc pc' then 1 else 0) + length i ->
  Inv (local_upd h pc' g i n r s).
Proof.
  intros I Hn Hl Hl' Hok Hm Hg Hi Hr Hf. unfold local_upd. constructor.
  - destruct (I_acct s I) as [A1 A2]. unfold AcctI. sf. split; [|exact A2].
    pose proof (count_upd live _ _ _ pc' Hn) as C. rewrite Hl, Hl' in C. lia.
  - exact (I_wordg s I).
  - exact (I_pendg s I).
  - intros c e Hc. sf. eapply cb_ok_frame; [apply (I_cb s I); exact Hc|auto|auto|auto].
  - intros h' pc'' Hh. sf. rewrite nth_upd in Hh. destruct (Nat.eqb h h') eqn:E.
    + rewrite Nat.eqb_eq in E. subst h'. rewrite Hn in Hh. inversion Hh; subst.
      eapply h_ok_frame; [exact Hok|auto|auto|intros; eauto].
    + eapply h_ok_frame; [apply (I_h s I h'); exact Hh|auto|auto|intros; eauto].
  - intros Hmv. sf. destruct (I_moved s I Hmv) as [M1 M2]. split; [|exact M2].
    intros h' pc'' Hh. rewrite nth_upd in Hh. destruct (Nat.eqb h h') eqn:E.
    + rewrite Nat.eqb_eq in E. subst h'. rewrite Hn in Hh. inversion Hh; subst. auto.
    + eapply M1; eauto.
  - unfold LogI. sf. auto.
  - unfold FailI. sf. pose proof (count_upd inl_pc _ _ _ pc' Hn) as C. pose proof (I_fail s I) as F. unfold FailI in F. lia.
Qed.

Lemma touch_alive s : alive s = true -> touch s = s.
Proof. intros H. unfold touch. rewrite H. reflexivity. Qed.

Lemma ready_sound_now s : Inv s -> alive s = true -> slot s <> Moved ->
  ready_of true (w s) = true -> is_some (rd s) = true.
Proof.
  intros I Ha Hm Hr. simpl in Hr. destruct (w s) eqn:Hw; [discriminate|].
  destruct (rd_ok s I Ha Hw Hm) as [R1 R2]. rewrite R1. destruct (val s); [reflexivity|congruence].
Qed.

Lemma ready_res s : ready_of true (w s) = true -> w s = WRes.
Proof. simpl. destruct (w s); [discriminate|reflexivity]. Qed.

Ltac eq_st := match goal with s : st |- _ => destruct s; reflexivity end.
Ltac to_st Y := match goal with |- ?P ?X =>
  first [ change (P Y) | let E := fresh in assert (E : X = Y) by eq_st; rewrite E; clear E ] end.

Ltac use_pc I Hpc :=
  let pc0 := fresh "pc0" in let Hn := fresh "Hn" in let Hl := fresh "Hl" in let Hinl := fresh "Hinl" in
  let Hok := fresh "Hok" in let Hor := fresh "Hor" in
  destruct (pc_of_ok _ _ _ I Hpc ltac:(discriminate)) as [pc0 [Hn [Hl [Hinl [Hok Hor]]]]].

Lemma not_moved_pc s h pc pc0 : Inv s -> nth_error (hs s) h = Some pc0 ->
  (pc0 = pc \/ exists c k, pc0 = HSleep c k /\ pc = after_wait k) -> pc <> HSpent -> pc <> HDead -> slot s <> Moved.
Proof.
  intros I Hn Hor H1 H2. eapply not_moved_h; [exact I|exact Hn| |].
  - destruct Hor as [->|[c [k [-> _]]]]; [exact H1|discriminate].
  - destruct Hor as [->|[c [k [-> _]]]]; [exact H2|discriminate].
Qed.

Ltac log_g I := apply (proj1 (I_log _ I)).
Ltac log_i I := apply (proj1 (proj2 (I_log _ I))).
Ltac log_r I := apply (proj2 (proj2 (I_log _ I))).
Ltac nomv := let H := fresh in intros H; exfalso; congruence.

Lemma attach_failed_inv s h p pc0 s' :
  Inv s -> alive s = true -> nth_error (hs s) h = Some pc0 -> live pc0 = true -> inl_pc pc0 = false ->
  slot s <> Moved -> w s = WRes -> attach_failed h p s = Some s' -> Inv s'.
Proof.
  intros I Ha Hn Hl Hinl Hm Hw H. unfold attach_failed in H. destruct p as [k|k].
  - assert (Hk : k <> KEvent) by (intros ->; discriminate).
    assert (s' = local_upd h (HInl k) (gots s) (iruns s) (S (nfail s)) (readys s) s).
    { destruct k; try congruence; inversion H; subst; eq_st. }
    subst s'. apply (inv_local s h pc0 _ _ _ _ _ I Hn Hl);
      [reflexivity|simpl; auto|nomv|log_g I|log_i I|log_r I|rewrite Hinl; simpl; lia].
  - inversion H; subst; clear H.
    to_st (local_upd h (after_wait k) (gots s) (iruns s) (nfail s) (readys s) s).
    apply (inv_local s h pc0 _ _ _ _ _ I Hn Hl);
      [destruct k; reflexivity|destruct k; simpl; auto|nomv|log_g I|log_i I|log_r I|rewrite Hinl; destruct k; simpl; lia].
Qed.

Lemma attach_loaded_inv s h p pc0 s' :
  Inv s -> alive s = true -> nth_error (hs s) h = Some pc0 -> live pc0 = true -> inl_pc pc0 = false ->
  slot s <> Moved -> attach_loaded h p s = Some s' -> Inv s'.
Proof.
  intros I Ha Hn Hl Hinl Hm H. unfold attach_loaded in H.
  assert (Hp : p <> PCb KEvent) by (intros ->; discriminate).
  assert (H' : match w s with WRes => attach_failed h p s | WStack l => Some (set_h h (HAtt p l) s) end = Some s').
  { destruct p as [[]|]; try exact H. congruence. }
  clear H. destruct (w s) eqn:Hw.
  - inversion H'; subst; clear H'.
    to_st (local_upd h (HAtt p l) (gots s) (iruns s) (nfail s) (readys s) s).
    apply (inv_local s h pc0 _ _ _ _ _ I Hn Hl);
      [reflexivity|simpl; auto|nomv|log_g I|log_i I|log_r I|rewrite Hinl; simpl; lia].
  - eapply attach_failed_inv; eauto.
Qed.

Lemma inv_step_h_local s e s' :
  Inv s -> alive s = true ->
  match e with
  | EReady _ _ | EAwaitL _ _ | ETouchL _ _ _ | ERcH _ _ | EAttL _ _ _ | ELdA _ _ | ECbInl _ | EConnL _ _ => True
  | _ => False
  end ->
  step_h true s e = Some s' -> Inv s'.
Proof.
  intros I Ha He H. destruct e; try contradiction; cbn [step_h] in H.
  - (* EReady *)
    destruct (pc_of s h) as [[]|] eqn:Hpc; try discriminate. destruct (obs_ok v (w s)); [|discriminate].
    injection H as <-. use_pc I Hpc.
    assert (Hm : slot s <> Moved) by (eapply not_moved_pc; eauto; discriminate).
    to_st (local_upd h H0 (gots s) (iruns s) (nfail s) (readys s ++ [(ready_of true (w s), is_some (rd s))]) s).
    apply (inv_local s h pc0 _ _ _ _ _ I Hn Hl);
      [reflexivity|simpl; auto|nomv|log_g I|log_i I| |rewrite Hinl; simpl; lia].
    apply Forall_app_one; [log_r I|]. intros Hr. apply ready_sound_now; auto.
  - (* EAwaitL *)
    destruct (pc_of s h) as [[]|] eqn:Hpc; try discriminate. destruct (obs_ok v (w s)); [|discriminate].
    injection H as <-. use_pc I Hpc.
    assert (Hm : slot s <> Moved) by (eapply not_moved_pc; eauto; discriminate).
    to_st (local_upd h (if ready_of true (w s) then HRead else H0) (gots s) (iruns s) (nfail s)
                      (readys s ++ [(ready_of true (w s), is_some (rd s))]) s).
    apply (inv_local s h pc0 _ _ _ _ _ I Hn Hl);
      [destruct (ready_of true (w s)); reflexivity| |nomv|log_g I|log_i I| |
       rewrite Hinl; destruct (ready_of true (w s)); simpl; lia].
    + destruct (ready_of true (w s)) eqn:Er; [|exact Logic.I]. apply ready_res in Er. exact Er.
    + apply Forall_app_one; [log_r I|]. intros Hr. apply ready_sound_now; auto.
  - (* ETouchL *)
    destruct (pc_of s h) as [[]|] eqn:Hpc; try discriminate.
    destruct (obs_ok v (w s) && ready_of true (w s)) eqn:Eb; [|discriminate].
    apply andb_true_iff in Eb. destruct Eb as [_ Er]. apply ready_res in Er.
    injection H as <-. use_pc I Hpc.
    assert (Hm : slot s <> Moved) by (eapply not_moved_pc; eauto; discriminate).
    to_st (local_upd h (if mv then HRc else HRead) (gots s) (iruns s) (nfail s) (readys s) s).
    apply (inv_local s h pc0 _ _ _ _ _ I Hn Hl);
      [destruct mv; reflexivity|destruct mv; exact Er|nomv|log_g I|log_i I|log_r I|rewrite Hinl; destruct mv; simpl; lia].
  - (* ERcH *)
    destruct (pc_of s h) as [[]|] eqn:Hpc; try discriminate.
    destruct (Nat.eqb n (refs s)) eqn:En; [|discriminate]. apply Nat.eqb_eq in En. subst n.
    injection H as <-. use_pc I Hpc.
    assert (Hm : slot s <> Moved) by (eapply not_moved_pc; eauto; discriminate).
    to_st (local_upd h (HOut (Nat.eqb (refs s) get_move_when_ref_eq)) (gots s) (iruns s) (nfail s) (readys s) s).
    apply (inv_local s h pc0 _ _ _ _ _ I Hn Hl);
      [reflexivity| |nomv|log_g I|log_i I|log_r I|rewrite Hinl; simpl; lia].
    simpl in Hok. destruct (Nat.eqb (refs s) get_move_when_ref_eq) eqn:E1; simpl; auto.
    apply Nat.eqb_eq in E1. split; auto.
  - (* EAttL *)
    destruct (pc_of s h) as [[]|] eqn:Hpc; try discriminate. destruct (obs_ok v (w s)); [|discriminate].
    use_pc I Hpc.
    assert (Hm : slot s <> Moved) by (eapply not_moved_pc; eauto; discriminate).
    eapply attach_loaded_inv; eauto.
  - (* ELdA *)
    destruct (pc_of s h) as [[]|] eqn:Hpc; try discriminate. destruct (obs_ok v (w s)); [|discriminate].
    use_pc I Hpc.
    assert (Hm : slot s <> Moved) by (eapply not_moved_pc; eauto; discriminate).
    eapply attach_loaded_inv; eauto.
  - (* ECbInl *)
    assert (Hx : exists pc, pc_of s h = Some pc /\ (pc = HInl KInl \/ pc = HConnR) /\
                 s' = set_h h H0 (set_iruns (iruns s ++ [rd s]) s)).
    { destruct (pc_of s h) as [[]|] eqn:Hpc; try discriminate.
      - destruct k; try discriminate. inversion H; subst. eexists; split; [reflexivity|split; [left; reflexivity|reflexivity]].
      - inversion H; subst. eexists; split; [reflexivity|split; [right; reflexivity|reflexivity]]. }
    clear H. destruct Hx as [pc [Hpc [Hk ->]]].
    assert (Hd : pc <> HDead) by (destruct Hk; subst; discriminate).
    destruct (pc_of_ok _ _ _ I Hpc Hd) as [pc0 [Hn [Hl [Hinl [Hok Hor]]]]].
    assert (Hm : slot s <> Moved) by (eapply not_moved_pc; eauto; destruct Hk; subst; discriminate).
    assert (Hw : w s = WRes) by (destruct Hk; subst; simpl in Hok; tauto).
    destruct (rd_ok s I Ha Hw Hm) as [R1 R2].
    to_st (local_upd h H0 (gots s) (iruns s ++ [rd s]) (nfail s) (readys s) s).
    apply (inv_local s h pc0 _ _ _ _ _ I Hn Hl);
      [reflexivity|exact Logic.I|nomv|log_g I| |log_r I|].
    + apply Forall_app_one; [log_i I|]. split; congruence.
    + rewrite Hinl. rewrite app_length. destruct Hk; subst; simpl; lia.
  - (* EConnL *)
    destruct (pc_of s h) as [[]|] eqn:Hpc; try discriminate. destruct k; try discriminate.
    destruct (obs_ok v (w s) && ready_of true (w s)) eqn:Eb; [|discriminate].
    injection H as <-. use_pc I Hpc.
    assert (Hm : slot s <> Moved) by (eapply not_moved_pc; eauto; discriminate).
    to_st (local_upd h HConnR (gots s) (iruns s) (nfail s) (readys s) s).
    apply (inv_local s h pc0 _ _ _ _ _ I Hn Hl);
      [reflexivity|simpl in Hok; simpl; tauto|nomv|log_g I|log_i I|log_r I|rewrite Hinl; simpl; lia].
Qed.

(* ---- DecRef / IncRef ------------------------------------------------------------------------------------------------ *)

Lemma dec_w s : w (dec s) = w s. Proof. unfold dec. destruct (refs s) as [|n]; [reflexivity|destruct (Nat.eqb n 0); reflexivity]. Qed.
Lemma dec_slot s : slot (dec s) = slot s. Proof. unfold dec. destruct (refs s) as [|n]; [reflexivity|destruct (Nat.eqb n 0); reflexivity]. Qed.
Lemma dec_val s : val (dec s) = val s. Proof. unfold dec. destruct (refs s) as [|n]; [reflexivity|destruct (Nat.eqb n 0); reflexivity]. Qed.
Lemma dec_fpc s : fpc (dec s) = fpc s. Proof. unfold dec. destruct (refs s) as [|n]; [reflexivity|destruct (Nat.eqb n 0); reflexivity]. Qed.
Lemma dec_hs s : hs (dec s) = hs s. Proof. unfold dec. destruct (refs s) as [|n]; [reflexivity|destruct (Nat.eqb n 0); reflexivity]. Qed.
Lemma dec_cs s : cs (dec s) = cs s. Proof. unfold dec. destruct (refs s) as [|n]; [reflexivity|destruct (Nat.eqb n 0); reflexivity]. Qed.
Lemma dec_gots s : gots (dec s) = gots s. Proof. unfold dec. destruct (refs s) as [|n]; [reflexivity|destruct (Nat.eqb n 0); reflexivity]. Qed.
Lemma dec_iruns s : iruns (dec s) = iruns s. Proof. unfold dec. destruct (refs s) as [|n]; [reflexivity|destruct (Nat.eqb n 0); reflexivity]. Qed.
Lemma dec_nfail s : nfail (dec s) = nfail s. Proof. unfold dec. destruct (refs s) as [|n]; [reflexivity|destruct (Nat.eqb n 0); reflexivity]. Qed.
Lemma dec_readys s : readys (dec s) = readys s. Proof. unfold dec. destruct (refs s) as [|n]; [reflexivity|destruct (Nat.eqb n 0); reflexivity]. Qed.
Lemma dec_refs s : refs (dec s) = refs s - 1.
Proof. unfold dec. destruct (refs s) as [|n] eqn:E; [simpl; rewrite E; reflexivity|destruct (Nat.eqb n 0); simpl; lia]. Qed.

Ltac decp := rewrite ?dec_w, ?dec_slot, ?dec_val, ?dec_fpc, ?dec_hs, ?dec_cs, ?dec_gots, ?dec_iruns, ?dec_nfail,
                     ?dec_readys, ?dec_refs in *.

(* the accounting after a DecRef by somebody who held a reference *)
Lemma acct_dec s f' hs' cs' :
  AcctI s -> alive s = true ->
  refs s = S (prom f' + count live hs' + count held cs') ->
  AcctI (set_fpc f' (set_hs hs' (set_cs cs' (dec s)))).
Proof.
  intros [A1 [A2 [A3 [A4 [A5 A6]]]]] Ha Hr. unfold AcctI, dec. rewrite Hr.
  remember (prom f' + count live hs' + count held cs') as n.
  rewrite Ha in A3. destruct (Nat.eqb n 0) eqn:E; sf.
  - apply Nat.eqb_eq in E. repeat split; auto; try lia. rewrite E. reflexivity.
  - apply Nat.eqb_neq in E. repeat split; auto; try lia.
    + rewrite Ha. destruct n; [lia|reflexivity].
    + rewrite Ha. exact A3.
Qed.

Lemma acct_inc s f' hs' cs' :
  AcctI s -> alive s = true ->
  S (refs s) = prom f' + count live hs' + count held cs' ->
  AcctI (set_fpc f' (set_hs hs' (set_cs cs' (inc s)))).
Proof.
  intros [A1 [A2 [A3 [A4 [A5 A6]]]]] Ha Hr. unfold AcctI. sf. repeat split; auto.
Qed.

Lemma acct_same s f' hs' cs' :
  AcctI s -> prom (fpc s) + count live (hs s) + count held (cs s) = prom f' + count live hs' + count held cs' ->
  AcctI (set_fpc f' (set_hs hs' (set_cs cs' s))).
Proof.
  intros [A1 [A2 [A3 [A4 [A5 A6]]]]] Hr. unfold AcctI. sf. repeat split; auto. lia.
Qed.

(* everything that is not registered, not being fired and holds no reference is done *)
Lemma done_unless s c e : Inv s -> nth_error (cs s) c = Some e ->
  ~ In c (pend s) -> cur s <> Some c -> held e = false -> cst e = CDone.
Proof.
  intros I Hn Hp Hc Hh. destruct (cst e) eqn:E; auto.
  - exfalso. apply Hp. apply (I_pend s I). unfold cst_at. rewrite Hn, E. reflexivity.
  - exfalso. apply Hc. apply (I_cur s I). unfold fir_at. rewrite Hn, E. reflexivity.
  - exfalso. apply Hc. apply (I_cur s I). unfold fir_at. rewrite Hn, E. reflexivity.
  - unfold held in Hh. rewrite E in Hh. discriminate.
  - unfold held in Hh. rewrite E in Hh. discriminate.
Qed.

Lemma pend_lt s c : Inv s -> In c (pend s) -> c < length (cs s).
Proof.
  intros I H. apply (I_pend s I) in H. unfold cst_at in H. destruct (nth_error (cs s) c) eqn:E; [|discriminate].
  eapply nth_some_lt; eauto.
Qed.

(* ---- the value is read / copied / moved out by a handle ------------------------------------------------------------ *)

Lemma inv_step_got s h s' : Inv s -> alive s = true -> step_h true s (EGot h) = Some s' -> Inv s'.
Proof.
  intros I Ha H. cbn [step_h] in H.
  destruct (pc_of s h) as [pc|] eqn:Hpc; [|discriminate].
  assert (Hd : pc <> HDead) by (intros ->; discriminate).
  destruct (pc_of_ok _ _ _ I Hpc Hd) as [pc0 [Hn [Hl [Hinl [Hok Hor]]]]].
  destruct pc as [ | | |mv| | | | | | ]; try discriminate.
  - (* Get / Touch const& *)
    injection H as <-.
    assert (Hm : slot s <> Moved) by (eapply not_moved_pc; eauto; discriminate).
    destruct (rd_ok s I Ha Hok Hm) as [R1 R2].
    to_st (local_upd h H0 (gots s ++ [rd s]) (iruns s) (nfail s) (readys s) s).
    apply (inv_local s h pc0 _ _ _ _ _ I Hn Hl);
      [reflexivity|exact Logic.I|nomv| |log_i I|log_r I|rewrite Hinl; simpl; lia].
    apply Forall_app_one; [log_g I|]. split; congruence.
  - assert (Hm : slot s <> Moved) by (eapply not_moved_pc; eauto; discriminate).
    assert (Hw : w s = WRes) by (destruct mv; simpl in Hok; tauto).
    destruct (rd_ok s I Ha Hw Hm) as [R1 R2].
    destruct mv.
    + (* the move: this handle is the only thing left *)
      injection H as <-.
      assert (Hp : pc0 = HOut true) by (destruct Hor as [E|[c [k [_ E]]]]; [exact E|destruct k; discriminate]).
      subst pc0. destruct (excl_out s h I Hn) as [Hf [Hc1 Hc0]].
      constructor.
      * destruct (I_acct s I) as [A1 A2]. unfold AcctI. sf. split; [|exact A2].
        pose proof (count_upd live _ _ _ HSpent Hn) as C. simpl in C. lia.
      * unfold WordI. sf. rewrite Hf. destruct (word_res s I Hw) as [r [Hv _]]. split; [exact Hw|]. exists r. auto.
      * exact (I_pendg s I).
      * intros c e Hc. sf. eapply cb_ok_frame; [apply (I_cb s I); exact Hc|auto|auto|auto].
      * intros h' pc'' Hh. sf. rewrite nth_upd in Hh. destruct (Nat.eqb h h') eqn:E.
        { rewrite Nat.eqb_eq in E. subst h'. rewrite Hn in Hh. injection Hh as <-. exact Logic.I. }
        { eapply h_ok_frame; [apply (I_h s I h'); exact Hh|auto|auto|intros; eauto]. }
      * intros _. sf. split.
        { intros h' pc'' Hh. rewrite nth_upd in Hh. destruct (Nat.eqb h h') eqn:E.
          - rewrite Nat.eqb_eq in E. subst h'. rewrite Hn in Hh. injection Hh as <-. left; reflexivity.
          - right. apply live_dead. destruct (live pc'') eqn:El; [|reflexivity]. exfalso.
            apply Nat.eqb_neq in E. pose proof (count_two live _ _ _ _ _ Hn Hh E eq_refl El). lia. }
        { intros c e Hc. eapply done_unless; eauto.
          - unfold pend. rewrite Hw, Hf. simpl. auto.
          - unfold cur. rewrite Hf. discriminate.
          - eapply count_zero; eauto. }
      * destruct (I_log s I) as [L1 [L2 L3]]. unfold LogI, good_val. sf. split; [|split; assumption].
        apply Forall_app_one; [exact L1|]. split; congruence.
      * unfold FailI. sf. pose proof (count_upd inl_pc _ _ _ HSpent Hn) as C. pose proof (I_fail s I) as F.
        unfold FailI in F. simpl in C. lia.
    + injection H as <-.
      to_st (local_upd h HSpent (gots s ++ [rd s]) (iruns s) (nfail s) (readys s) s).
      apply (inv_local s h pc0 _ _ _ _ _ I Hn Hl);
        [reflexivity|exact Logic.I|intros; left; reflexivity| |log_i I|log_r I|rewrite Hinl; simpl; lia].
      apply Forall_app_one; [log_g I|]. split; congruence.
Qed.

(* ---- a successful push onto the callback list ----------------------------------------------------------------------- *)

Lemma cst_at_app l x c :
  cst_at (l ++ [x]) c = if Nat.ltb c (length l) then cst_at l c else if Nat.eqb c (length l) then Some (cst x) else None.
Proof. unfold cst_at. rewrite nth_app_one. destruct (Nat.ltb c (length l)); [reflexivity|destruct (Nat.eqb c (length l)); reflexivity]. Qed.

Lemma fir_at_app l x c :
  fir_at (l ++ [x]) c = if Nat.ltb c (length l) then fir_at l c else if Nat.eqb c (length l) then firing (cst x) else false.
Proof. unfold fir_at. rewrite nth_app_one. destruct (Nat.ltb c (length l)); [reflexivity|destruct (Nat.eqb c (length l)); reflexivity]. Qed.

Lemma cst_at_lt l c x : cst_at l c = Some x -> c < length l.
Proof. unfold cst_at. destruct (nth_error l c) eqn:E; [|discriminate]. intros _. eapply nth_some_lt; eauto. Qed.

Lemma fir_at_lt l c : fir_at l c = true -> c < length l.
Proof. unfold fir_at. destruct (nth_error l c) eqn:E; [|discriminate]. intros _. eapply nth_some_lt; eauto. Qed.

Lemma nth_app_old {A} (l : list A) x c e : nth_error l c = Some e -> nth_error (l ++ [x]) c = Some e.
Proof. intros H. rewrite nth_error_app1; [exact H|eapply nth_some_lt; eauto]. Qed.

Lemma inv_push s h p l pc0 :
  Inv s -> alive s = true -> nth_error (hs s) h = Some pc0 -> live pc0 = true -> inl_pc pc0 = false ->
  p <> PCb KEvent -> w s = WStack l -> Inv (push h p l s).
Proof.
  intros I Ha Hn Hl Hinl Hp Hw. unfold push.
  set (c := length (cs s)).
  set (new := {| ck := kind_of_purpose p; cinl := false; cst := CQueued; cv := [] |}).
  set (pc' := match p with PCb _ => H0 | PWait k => HSleep c k end).
  assert (Hl' : live pc' = true) by (unfold pc'; destruct p; reflexivity).
  assert (Hi' : inl_pc pc' = false) by (unfold pc'; destruct p; reflexivity).
  assert (Hpend : pend s = l) by (unfold pend; rewrite Hw; reflexivity).
  assert (Hf : fpc s = F0 \/ fpc s = F1).
  { pose proof (I_word s I) as W. unfold WordI in W. destruct (fpc s); auto; destruct W as [W _]; congruence. }
  assert (Hcur : cur s = None) by (unfold cur; destruct Hf as [-> | ->]; reflexivity).
  constructor.
  - destruct (I_acct s I) as [A1 A2]. unfold AcctI. sf. split; [|exact A2].
    pose proof (count_upd live _ _ _ pc' Hn) as C. rewrite Hl, Hl' in C. rewrite count_app. simpl. lia.
  - pose proof (I_word s I) as W. unfold WordI in *. sf. destruct Hf as [E|E]; rewrite E in *.
    + destruct W as [W1 [W2 _]]. repeat split; eauto.
    + destruct W as [W1 _]. split; eauto.
  - destruct (I_pendg s I) as [P1 [P2 [P3 P4]]]. unfold PendI, pend, cur in *. sf. rewrite Hw in *. simpl in *.
    split; [|split; [|split]].
    + constructor; [|exact P1]. intros Hin. apply P2 in Hin. apply cst_at_lt in Hin. unfold c in Hin. lia.
    + intros c'. rewrite cst_at_app. fold c. split.
      * intros [E|Hin].
        { subst c'. rewrite Nat.ltb_irrefl, Nat.eqb_refl. reflexivity. }
        { apply P2 in Hin. pose proof (cst_at_lt _ _ _ Hin) as Hlt. apply Nat.ltb_lt in Hlt. fold c in Hlt. rewrite Hlt. exact Hin. }
      * destruct (Nat.ltb c' c) eqn:E1.
        { intros Hq. right. apply P2. exact Hq. }
        { destruct (Nat.eqb c' c) eqn:E2; [|discriminate]. apply Nat.eqb_eq in E2. intros _. left. auto. }
    + destruct Hf as [E|E]; rewrite E; exact Logic.I.
    + intros c'. rewrite fir_at_app. fold c. destruct (Nat.ltb c' c) eqn:E1.
      * apply P4.
      * split.
        { destruct (Nat.eqb c' c); simpl; discriminate. }
        { intros Hc. destruct Hf as [E|E]; rewrite E in Hc; discriminate. }
  - intros c' e Hc. sf. rewrite nth_app_one in Hc. fold c in Hc. destruct (Nat.ltb c' c) eqn:E1.
    + pose proof (I_cb s I c' e Hc) as [B1 [B2 B3]]. unfold cb_ok. sf. split; [|split].
      * intros Hq. specialize (B1 Hq). congruence.
      * destruct (cst e) eqn:Ec; auto.
      * exact B3.
    + destruct (Nat.eqb c' c); [|discriminate]. injection Hc as <-. unfold cb_ok. simpl. repeat split; auto. congruence.
  - intros h' pc'' Hh. sf. rewrite nth_upd in Hh.
    assert (Hfr : forall pcx, h_ok s pcx -> pcx <> HOut true ->
                  h_ok (set_h h pc' (set_w (WStack (c :: l)) (set_cs (cs s ++ [new]) s))) pcx).
    { intros pcx Hx Hne. destruct pcx; simpl in *; auto; try congruence.
      - destruct mv; [congruence|congruence].
      - destruct Hx as [e [He Hk]]. exists e. split; [apply nth_app_old; exact He|exact Hk].
      - destruct Hx; congruence. }
    destruct (Nat.eqb h h') eqn:E.
    + rewrite Nat.eqb_eq in E. subst h'. rewrite Hn in Hh. injection Hh as <-.
      unfold pc'. destruct p as [k|k]; simpl; auto.
      exists new. split; [|reflexivity]. rewrite nth_app_one. fold c. rewrite Nat.ltb_irrefl, Nat.eqb_refl. reflexivity.
    + apply Hfr; [apply (I_h s I h'); exact Hh|].
      intros ->. pose proof (I_h s I h' _ Hh) as [Hx _]. congruence.
  - intros Hm. sf. exfalso. pose proof (I_word s I) as W. unfold WordI in W.
    destruct Hf as [E|E]; rewrite E in W.
    + destruct W as [W _]. congruence.
    + destruct W as [[r [W _]] _]. congruence.
  - exact (I_log s I).
  - unfold FailI. sf. pose proof (count_upd inl_pc _ _ _ pc' Hn) as C. pose proof (I_fail s I) as F. unfold FailI in F.
    rewrite count_app. simpl. rewrite Hinl, Hi' in C. lia.
Qed.

Lemma inv_step_cas s h ok s' : Inv s -> alive s = true -> step_h true s (ECas h ok) = Some s' -> Inv s'.
Proof.
  intros I Ha H. cbn [step_h] in H.
  destruct (pc_of s h) as [pc|] eqn:Hpc; [|discriminate].
  destruct pc as [ | | | |p next| | | | | ]; try discriminate.
  use_pc I Hpc.
  assert (Hm : slot s <> Moved) by (eapply not_moved_pc; eauto; discriminate).
  assert (Hi0 : inl_pc pc0 = false) by exact Hinl.
  destruct (w s) eqn:Hw.
  - assert (Hstay : Inv (set_h h (HAtt p l) s)).
    { to_st (local_upd h (HAtt p l) (gots s) (iruns s) (nfail s) (readys s) s).
      apply (inv_local s h pc0 _ _ _ _ _ I Hn Hl);
        [reflexivity|exact Hok|nomv|log_g I|log_i I|log_r I|rewrite Hi0; simpl; lia]. }
    destruct (list_eqb l next) eqn:El; destruct ok; try discriminate; injection H as <-; try exact Hstay.
    apply (inv_push s h p l pc0); auto.
  - destruct ok; [discriminate|]. eapply attach_failed_inv; eauto.
Qed.

(* ---- steps that change the reference counter ------------------------------------------------------------------------ *)

Lemma cb_ok_noexcl s s' c e :
  cb_ok s c e -> (forall dc, cst e <> CConn true dc) -> (w s = WRes -> w s' = WRes) -> val s' = val s -> cb_ok s' c e.
Proof.
  intros H Hne Hw Hv. eapply cb_ok_frame; eauto. intros dc Hc. exfalso. eapply Hne; eauto.
Qed.

Lemma h_ok_noexcl s s' pc :
  h_ok s pc -> pc <> HOut true -> (w s = WRes -> w s' = WRes) ->
  (forall c e, nth_error (cs s) c = Some e -> exists e', nth_error (cs s') c = Some e' /\ ck e' = ck e) -> h_ok s' pc.
Proof. intros H Hne Hw Hc. eapply h_ok_frame; eauto. intros E. congruence. Qed.

Lemma inv_step_copy s h s' : Inv s -> alive s = true -> step_h true s (ECopy h) = Some s' -> Inv s'.
Proof.
  intros I Ha H. cbn [step_h] in H.
  destruct (pc_of s h) as [[]|] eqn:Hpc; try discriminate. injection H as <-. use_pc I Hpc.
  assert (Hm : slot s <> Moved) by (eapply not_moved_pc; eauto; discriminate).
  assert (Hne : pc0 <> HOut true) by (destruct Hor as [->|[c [k [-> _]]]]; discriminate).
  destruct (no_excl_h s h pc0 I Hn Hl Hne) as [X1 X2].
  constructor.
  - to_st (set_fpc (fpc s) (set_hs (upd (hs s) h H0 ++ [H0]) (set_cs (cs s) (inc s)))).
    apply (acct_inc s _ _ _ (I_acct s I) Ha).
    rewrite count_app. pose proof (count_upd live _ _ _ H0 Hn) as C. rewrite Hl in C. simpl in *. rewrite (I_refs s I). lia.
  - exact (I_wordg s I).
  - exact (I_pendg s I).
  - intros c e Hc. sf. eapply cb_ok_noexcl; [apply (I_cb s I); exact Hc|intros dc; eapply X2; eauto|auto|auto].
  - intros h' pc'' Hh. sf. rewrite nth_app_one, upd_length in Hh. destruct (Nat.ltb h' (length (hs s))) eqn:E1.
    + rewrite nth_upd in Hh. destruct (Nat.eqb h h') eqn:E.
      * rewrite Nat.eqb_eq in E. subst h'. rewrite Hn in Hh. injection Hh as <-. exact Logic.I.
      * eapply h_ok_noexcl; [apply (I_h s I h'); exact Hh|intros ->; eapply X1; eauto|auto|intros; eauto].
    + destruct (Nat.eqb h' (length (hs s))); [|discriminate]. injection Hh as <-. exact Logic.I.
  - intros Hmv. sf. congruence.
  - exact (I_log s I).
  - unfold FailI. sf. rewrite count_app. pose proof (count_upd inl_pc _ _ _ H0 Hn) as C. pose proof (I_fail s I) as F.
    unfold FailI in F. rewrite Hinl in C. simpl in *. lia.
Qed.

Lemma inv_step_incinl s h s' : Inv s -> alive s = true -> step_h true s (EIncInl h) = Some s' -> Inv s'.
Proof.
  intros I Ha H. cbn [step_h] in H.
  destruct (pc_of s h) as [[]|] eqn:Hpc; try discriminate. destruct k; try discriminate. injection H as <-. use_pc I Hpc.
  assert (Hm : slot s <> Moved) by (eapply not_moved_pc; eauto; discriminate).
  assert (Hp : pc0 = HInl KCall) by (destruct Hor as [E|[c [k [_ E]]]]; [exact E|destruct k; discriminate]). subst pc0.
  destruct (no_excl_h s h _ I Hn Hl ltac:(discriminate)) as [X1 X2].
  destruct Hok as [Hw _].
  set (new := {| ck := KCall; cinl := true; cst := CHeld; cv := [] |}).
  constructor.
  - to_st (set_fpc (fpc s) (set_hs (upd (hs s) h H0) (set_cs (cs s ++ [new]) (inc s)))).
    apply (acct_inc s _ _ _ (I_acct s I) Ha).
    rewrite count_app. pose proof (count_upd live _ _ _ H0 Hn) as C. simpl in *. rewrite (I_refs s I). lia.
  - exact (I_wordg s I).
  - destruct (I_pendg s I) as [P1 [P2 [P3 P4]]]. unfold PendI, pend, cur in *. sf. split; [exact P1|split; [|split; [exact P3|]]].
    + intros c'. rewrite cst_at_app. split.
      * intros Hin. apply P2 in Hin. pose proof (cst_at_lt _ _ _ Hin) as Hlt. apply Nat.ltb_lt in Hlt. rewrite Hlt. exact Hin.
      * destruct (Nat.ltb c' (length (cs s))); [apply P2|]. destruct (Nat.eqb c' (length (cs s))); discriminate.
    + intros c'. rewrite fir_at_app. destruct (Nat.ltb c' (length (cs s))) eqn:E1; [apply P4|]. split.
      * destruct (Nat.eqb c' (length (cs s))); discriminate.
      * intros Hc. apply P4 in Hc. apply fir_at_lt in Hc. apply Nat.ltb_lt in Hc. congruence.
  - intros c' e Hc. sf. rewrite nth_app_one in Hc. destruct (Nat.ltb c' (length (cs s))) eqn:E1.
    + eapply cb_ok_noexcl; [apply (I_cb s I); exact Hc|intros dc; eapply X2; eauto|auto|auto].
    + destruct (Nat.eqb c' (length (cs s))); [|discriminate]. injection Hc as <-. unfold cb_ok. simpl. repeat split; auto.
  - intros h' pc'' Hh. sf. rewrite nth_upd in Hh. destruct (Nat.eqb h h') eqn:E.
    + rewrite Nat.eqb_eq in E. subst h'. rewrite Hn in Hh. injection Hh as <-. exact Logic.I.
    + eapply h_ok_noexcl; [apply (I_h s I h'); exact Hh|intros ->; eapply X1; eauto|auto|].
      intros c e He. exists e. split; [apply nth_app_old; exact He|reflexivity].
  - intros Hmv. sf. congruence.
  - exact (I_log s I).
  - unfold FailI. sf. rewrite count_app. pose proof (count_upd inl_pc _ _ _ H0 Hn) as C. pose proof (I_fail s I) as F.
    unfold FailI in F. simpl in *. lia.
Qed.

Lemma inv_step_destroy s h s' : Inv s -> alive s = true -> step_h true s (EDestroy h) = Some s' -> Inv s'.
Proof.
  intros I Ha H. cbn [step_h] in H.
  assert (Hx : exists pc, pc_of s h = Some pc /\ (pc = H0 \/ pc = HSpent) /\ s' = set_h h HDead (dec s)).
  { destruct (pc_of s h) as [[]|] eqn:Hpc; try discriminate; injection H as <-; eexists; eauto. }
  clear H. destruct Hx as [pc [Hpc [Hk ->]]].
  assert (Hd : pc <> HDead) by (destruct Hk; subst; discriminate).
  destruct (pc_of_ok _ _ _ I Hpc Hd) as [pc0 [Hn [Hl [Hinl [Hok Hor]]]]].
  assert (Hne : pc0 <> HOut true) by (destruct Hor as [->|[c [k [-> _]]]]; [destruct Hk; subst; discriminate|discriminate]).
  assert (Hi0 : inl_pc pc0 = false) by (rewrite Hinl; destruct Hk; subst; reflexivity).
  destruct (no_excl_h s h pc0 I Hn Hl Hne) as [X1 X2].
  pose proof (count_upd live _ _ _ HDead Hn) as C. rewrite Hl in C. simpl in C.
  constructor.
  - to_st (set_fpc (fpc (dec s)) (set_hs (upd (hs (dec s)) h HDead) (set_cs (cs (dec s)) (dec s)))).
    apply (acct_dec s _ _ _ (I_acct s I) Ha). decp. rewrite (I_refs s I). lia.
  - pose proof (I_wordg s I) as W. unfold WordI in *. sf. decp. exact W.
  - pose proof (I_pendg s I) as P. unfold PendI, pend, cur in *. sf. decp. exact P.
  - intros c e Hc. sf. decp. eapply cb_ok_noexcl; [apply (I_cb s I); exact Hc|intros dc; eapply X2; eauto|sf; decp; auto|sf; decp; auto].
  - intros h' pc'' Hh. sf. decp. rewrite nth_upd in Hh. destruct (Nat.eqb h h') eqn:E.
    + rewrite Nat.eqb_eq in E. subst h'. rewrite Hn in Hh. injection Hh as <-. exact Logic.I.
    + eapply h_ok_noexcl; [apply (I_h s I h'); exact Hh|intros ->; eapply X1; eauto|sf; decp; auto|sf; decp; intros; eauto].
  - intros Hmv. sf. decp. destruct (I_moved s I Hmv) as [M1 M2]. split; [|exact M2].
    intros h' pc'' Hh. rewrite nth_upd in Hh. destruct (Nat.eqb h h') eqn:E.
    + rewrite Nat.eqb_eq in E. subst h'. rewrite Hn in Hh. injection Hh as <-. right; reflexivity.
    + eapply M1; eauto.
  - pose proof (I_log s I) as L. unfold LogI, good_val in *. sf. decp. exact L.
  - pose proof (I_fail s I) as F. unfold FailI in *. sf. decp.
    pose proof (count_upd inl_pc _ _ _ HDead Hn) as C2. rewrite Hi0 in C2. simpl in C2. lia.
Qed.

(* ---- the walk over the list ---------------------------------------------------------------------------------------- *)

Lemma NoDup_app_disj {A} (a b : list A) : NoDup (a ++ b) -> forall x, In x a -> ~ In x b.
Proof.
  induction a as [|y a IH]; simpl; intros H x Hx; [contradiction|].
  inversion H; subst. destruct Hx as [->|Hx].
  - intros Hb. apply H2. apply in_or_app. right. exact Hb.
  - apply IH; assumption.
Qed.

Lemma NoDup_app_r {A} (a b : list A) : NoDup (a ++ b) -> NoDup b.
Proof. induction a; simpl; intros H; [exact H|]. inversion H; auto. Qed.

Lemma memb_false j l : memb j l = false <-> ~ In j l.
Proof. rewrite <- memb_In. destruct (memb j l); split; intros; congruence. Qed.

Definition cur_of (pc : fpc_t) : option nat := match pc with FWalk c _ | FLast c => Some c | _ => None end.

Lemma advance_pend l cbs pc cbs' :
  advance l cbs = (pc, cbs') -> NoDup l ->
  (forall c, In c l <-> cst_at cbs c = Some CQueued) ->
  (forall c, fir_at cbs c = false) ->
  NoDup (pend_of WRes pc) /\
  (forall c, In c (pend_of WRes pc) <-> cst_at cbs' c = Some CQueued) /\
  match pc with FWalk _ [] => False | _ => True end /\
  (forall c, fir_at cbs' c = true <-> cur_of pc = Some c) /\
  prom pc = 3 /\ (pc <> F0 /\ pc <> F1 /\ pc <> FDone /\ forall c, pc <> FLast c) /\
  (forall j e2, nth_error cbs' j = Some e2 -> exists e1, nth_error cbs j = Some e1 /\
       (e2 = e1 \/ (cst e1 = CQueued /\ ck e1 = KEvent /\ e2 = with_cst e1 CDone) \/
        (cst e1 = CQueued /\ ck e1 <> KEvent /\ e2 = with_cst e1 CFireF))) /\
  (forall j e1, nth_error cbs j = Some e1 -> exists e2, nth_error cbs' j = Some e2 /\ ck e2 = ck e1) /\
  count held cbs' = count held cbs /\ count cinl cbs' = count cinl cbs.
Proof.
  intros H Hnd Hq Hf. destruct (advance_spec l cbs pc cbs' H) as [sk [Hev Hc]].
  assert (Hsk : forall j e1, In j sk -> In j l -> nth_error cbs j = Some e1 -> cst e1 = CQueued /\ ck e1 = KEvent).
  { intros j e1 Hj Hl Hn. split.
    - apply Hq in Hl. unfold cst_at in Hl. rewrite Hn in Hl. congruence.
    - specialize (Hev j Hj). unfold is_event, kind_at in Hev. rewrite Hn in Hev. destruct (ck e1); congruence. }
  assert (Hheld : forall j e, In j l -> nth_error cbs j = Some e -> held e = false).
  { intros j e Hl Hn. apply Hq in Hl. unfold cst_at in Hl. rewrite Hn in Hl. unfold held. injection Hl as ->. reflexivity. }
  destruct Hc as [[Hl [Hs [Hp Hc]]]|[[c [Hl [Hp Hc]]]|[c [rest [Hr [Hl [Hp [Hne Hc]]]]]]]]; subst pc cbs'.
  - (* nothing left *)
    subst l sk. simpl. repeat split; auto; try discriminate; try constructor.
    + intros []. + intros Hx. apply Hq in Hx. exact Hx. + rewrite Hf. discriminate.
    + intros j e2 He. exists e2. auto. + intros j e1 He. exists e1. auto.
  - (* the last one: the DecRef comes first *)
    assert (Hcl : In c l) by (rewrite Hl; apply in_or_app; right; left; reflexivity).
    assert (Hcs : ~ In c sk) by (intros Hx; rewrite Hl in Hnd; apply (NoDup_app_disj _ _ Hnd c Hx); left; reflexivity).
    assert (Hskl : forall j, In j sk -> In j l) by (intros j Hj; rewrite Hl; apply in_or_app; left; exact Hj).
    simpl. split; [repeat constructor; intros []|]. split; [|split; [exact Logic.I|split; [|split; [reflexivity|split; [repeat split; discriminate|split; [|split; [|split]]]]]]].
    + intros c'. unfold cst_at. rewrite nth_mark. split.
      * intros [<-|[]]. apply Hq in Hcl. unfold cst_at in Hcl. destruct (nth_error cbs c); [|discriminate].
        apply memb_false in Hcs. rewrite Hcs. exact Hcl.
      * destruct (nth_error cbs c') eqn:E; [|discriminate]. destruct (memb c' sk) eqn:Em; [simpl; discriminate|].
        intros Hx. assert (Hin : In c' l) by (apply Hq; unfold cst_at; rewrite E; exact Hx).
        rewrite Hl in Hin. apply in_app_or in Hin. destruct Hin as [Hin|[<-|[]]]; [|left; reflexivity].
        apply memb_In in Hin. congruence.
    + intros c'. unfold fir_at. rewrite nth_mark. split; [|discriminate].
      specialize (Hf c'). unfold fir_at in Hf. destruct (nth_error cbs c'); [|discriminate].
      destruct (memb c' sk); [simpl; discriminate|rewrite Hf; discriminate].
    + intros j e2 He. rewrite nth_mark in He. destruct (nth_error cbs j) as [e1|] eqn:E; [|discriminate].
      exists e1. split; [reflexivity|]. destruct (memb j sk) eqn:Em; injection He as <-; [|left; reflexivity].
      apply memb_In in Em. destruct (Hsk j e1 Em (Hskl j Em) E). right; left. auto.
    + intros j e1 He. rewrite nth_mark, He. eexists. split; [reflexivity|]. destruct (memb j sk); reflexivity.
    + apply count_held_mark. intros j e Hj Hn. apply (Hheld j e); auto.
    + apply count_cinl_mark.
  - (* a callback that is not the last one is fired *)
    assert (Hcl : In c l) by (rewrite Hl; apply in_or_app; right; left; reflexivity).
    assert (Hcs : ~ In c sk) by (intros Hx; rewrite Hl in Hnd; apply (NoDup_app_disj _ _ Hnd c Hx); left; reflexivity).
    assert (Hskl : forall j, In j sk -> In j l) by (intros j Hj; rewrite Hl; apply in_or_app; left; exact Hj).
    assert (Hrl : forall j, In j rest -> In j l) by (intros j Hj; rewrite Hl; apply in_or_app; right; right; exact Hj).
    assert (Hnd2 : NoDup (c :: rest)) by (rewrite Hl in Hnd; eapply NoDup_app_r; eauto).
    assert (Hcr : ~ In c rest) by (inversion Hnd2; assumption).
    assert (Hrs : forall j, In j rest -> ~ In j sk).
    { intros j Hj Hx. rewrite Hl in Hnd. apply (NoDup_app_disj _ _ Hnd j Hx). right. exact Hj. }
    destruct (nth_error cbs c) as [ec|] eqn:Ec.
    2:{ exfalso. apply Hq in Hcl. unfold cst_at in Hcl. rewrite Ec in Hcl. discriminate. }
    assert (Hecq : cst ec = CQueued) by (apply Hq in Hcl; unfold cst_at in Hcl; rewrite Ec in Hcl; congruence).
    assert (Heck : ck ec <> KEvent).
    { unfold is_event, kind_at in Hne. rewrite Ec in Hne. intros E. rewrite E in Hne. discriminate. }
    simpl. split; [inversion Hnd2; assumption|]. split; [|split; [destruct rest; [congruence|exact Logic.I]|split; [|split; [reflexivity|split; [repeat split; discriminate|split; [|split; [|split]]]]]]].
    + intros c'. unfold cst_at. rewrite nth_set_cst, nth_mark. split.
      * intros Hin. assert (Hc' : c <> c') by (intros <-; contradiction).
        apply Nat.eqb_neq in Hc'. rewrite Hc'. pose proof (Hrs c' Hin) as Hns. apply memb_false in Hns. rewrite Hns.
        apply Hrl in Hin. apply Hq in Hin. unfold cst_at in Hin. destruct (nth_error cbs c'); [exact Hin|discriminate].
      * destruct (nth_error cbs c') eqn:E; [|discriminate]. destruct (Nat.eqb c c') eqn:E1; [simpl; discriminate|].
        destruct (memb c' sk) eqn:Em; [simpl; discriminate|]. intros Hx.
        assert (Hin : In c' l) by (apply Hq; unfold cst_at; rewrite E; exact Hx).
        rewrite Hl in Hin. apply in_app_or in Hin. destruct Hin as [Hin|[Hin|Hin]]; [| |exact Hin].
        { apply memb_In in Hin. congruence. } { apply Nat.eqb_neq in E1. congruence. }
    + intros c'. unfold fir_at. rewrite nth_set_cst, nth_mark. destruct (Nat.eqb c c') eqn:E1.
      * apply Nat.eqb_eq in E1. subst c'. rewrite Ec. simpl. split; reflexivity.
      * apply Nat.eqb_neq in E1. split; [|intros Hx; congruence].
        specialize (Hf c'). unfold fir_at in Hf. destruct (nth_error cbs c'); [|discriminate].
        destruct (memb c' sk); [simpl; discriminate|rewrite Hf; discriminate].
    + intros j e2 He. rewrite nth_set_cst, nth_mark in He. destruct (nth_error cbs j) as [e1|] eqn:E; [|discriminate].
      exists e1. split; [reflexivity|]. destruct (Nat.eqb c j) eqn:E1.
      * apply Nat.eqb_eq in E1. subst j. apply memb_false in Hcs. rewrite Hcs in He. injection He as <-.
        rewrite Ec in E. injection E as <-. right; right. auto.
      * destruct (memb j sk) eqn:Em; injection He as <-; [|left; reflexivity].
        apply memb_In in Em. destruct (Hsk j e1 Em (Hskl j Em) E). right; left. auto.
    + intros j e1 He. rewrite nth_set_cst, nth_mark, He. eexists. split; [reflexivity|].
      destruct (Nat.eqb c j); destruct (memb j sk); reflexivity.
    + rewrite count_held_set_cst_unheld; [| |reflexivity].
      * apply count_held_mark. intros j e Hj Hn. apply (Hheld j e); auto.
      * intros e He. rewrite nth_mark, Ec in He. apply memb_false in Hcs. rewrite Hcs in He. injection He as <-.
        unfold held. rewrite Hecq. reflexivity.
    + rewrite count_cinl_set_cst. apply count_cinl_mark.
Qed.

(* the state in which the fulfiller is between two callbacks: everything of the invariant except that its program
   counter is stale; [l] is what is left of the list *)
Record PreWalk (s1 : st) (l : list nat) : Prop := {
  W_nodup : NoDup l;
  W_q : forall c, In c l <-> cst_at (cs s1) c = Some CQueued;
  W_nofire : forall c, fir_at (cs s1) c = false;
  W_w : w s1 = WRes;
  W_slot : exists r, val s1 = Some r /\ slot s1 = SetV r;
  W_refs : refs s1 = 3 + count live (hs s1) + count held (cs s1);
  W_acct : alive s1 = negb (Nat.eqb (refs s1) 0) /\ frees s1 = (if alive s1 then 0 else 1) /\
           under s1 = 0 /\ uaf s1 = 0 /\ (dying s1 = true -> alive s1 = false);
  W_cb : forall c e, nth_error (cs s1) c = Some e -> cb_ok s1 c e;
  W_h : forall h pc, nth_error (hs s1) h = Some pc -> h_ok s1 pc;
  W_log : LogI s1;
  W_fail : FailI s1
}.

Lemma walk_inv s1 l pc cbs' : PreWalk s1 l -> advance l (cs s1) = (pc, cbs') -> Inv (set_fpc pc (set_cs cbs' s1)).
Proof.
  intros P H.
  destruct (advance_pend l (cs s1) pc cbs' H (W_nodup _ _ P) (W_q _ _ P) (W_nofire _ _ P))
    as [A1 [A2 [A3 [A4 [A5 [[A6a [A6b [A6c A6d]]] [A7 [A8 [A9 A10]]]]]]]]].
  constructor.
  - unfold AcctI. sf. destruct (W_acct _ _ P) as [B1 B2]. split; [|split; [exact B1|exact B2]].
    rewrite (W_refs _ _ P), A5, A9. reflexivity.
  - unfold WordI. sf. destruct (W_slot _ _ P) as [r [Hv Hs]].
    destruct pc; try congruence; (split; [exact (W_w _ _ P)|exists r; auto]).
  - unfold PendI, pend, cur. sf. rewrite (W_w _ _ P). split; [exact A1|split; [exact A2|split; [exact A3|]]].
    intros c. rewrite A4. unfold cur_of. reflexivity.
  - intros j e2 He. sf. destruct (A7 j e2 He) as [e1 [He1 Hc]]. pose proof (W_cb _ _ P j e1 He1) as Hok.
    assert (Hnf : forall mv dc, cst e1 <> CConn mv dc).
    { intros mv dc E. pose proof (W_nofire _ _ P j) as F. unfold fir_at in F. rewrite He1, E in F. discriminate. }
    destruct Hc as [->|[[Hq [Hk ->]]|[Hq [Hk ->]]]].
    + eapply cb_ok_noexcl; [exact Hok|intros dc; apply Hnf|auto|auto].
    + destruct Hok as [_ [_ B3]]. rewrite Hq in B3. unfold cb_ok. simpl. rewrite Hk. simpl.
      split; [intros _; exact (W_w _ _ P)|split; [exact Logic.I|exact B3]].
    + destruct Hok as [_ [_ B3]]. rewrite Hq in B3. unfold cb_ok. simpl.
      split; [intros _; exact (W_w _ _ P)|split; [exact Hk|exact B3]].
  - intros h pc' Hh. sf. eapply h_ok_frame; [apply (W_h _ _ P h); exact Hh|auto|auto|exact A8].
  - intros Hm. sf. destruct (W_slot _ _ P) as [r [_ Hs]]. congruence.
  - exact (W_log _ _ P).
  - pose proof (W_fail _ _ P) as F. unfold FailI in *. sf. rewrite A10. exact F.
Qed.

(* ---- the fulfilling thread ------------------------------------------------------------------------------------------ *)

Lemma forall_good_nil s l : val s = None -> Forall (good_val s) l -> l = [].
Proof.
  intros Hv H. destruct l as [|x l]; [reflexivity|]. inversion H; subst. destruct H2 as [E N]. congruence.
Qed.

Lemma all_queued_when_stack s l : Inv s -> w s = WStack l -> forall c e, nth_error (cs s) c = Some e -> cst e = CQueued.
Proof.
  intros I Hw c e Hc. destruct (I_cb s I c e Hc) as [B1 _]. destruct (cst e) eqn:E; auto;
    (assert (w s = WRes) by (apply B1; discriminate); congruence).
Qed.

Lemma inv_step_set s r s' : Inv s -> step_f s (ESet r) = Some s' -> Inv s'.
Proof.
  intros I H. cbn [step_f] in H. destruct (fpc s) eqn:Hf; try discriminate. injection H as <-.
  pose proof (I_word s I) as W. unfold WordI in W. rewrite Hf in W. destruct W as [W1 [W2 [l W3]]].
  destruct (I_log s I) as [L1 [L2 L3]].
  pose proof (forall_good_nil s _ W2 L1) as G1. pose proof (forall_good_nil s _ W2 L2) as G2.
  constructor.
  - destruct (I_acct s I) as [A1 A2]. unfold AcctI. sf. rewrite Hf in A1. split; [exact A1|exact A2].
  - unfold WordI. sf. split; [exists r; auto|exists l; exact W3].
  - pose proof (I_pendg s I) as P. unfold PendI, pend, cur in *. sf. rewrite Hf, W3 in *. exact P.
  - intros c e Hc. sf. pose proof (all_queued_when_stack s l I W3 c e Hc) as Hq.
    destruct (I_cb s I c e Hc) as [B1 [B2 B3]]. unfold cb_ok. sf. rewrite Hq in *. auto.
  - intros h pc Hh. sf. eapply h_ok_frame; [apply (I_h s I h); exact Hh|auto|auto|intros; eauto].
  - intros Hm. sf. discriminate.
  - unfold LogI. sf. rewrite G1, G2. split; [constructor|split; [constructor|exact L3]].
  - exact (I_fail s I).
Qed.

Lemma inv_step_copyp s s' : Inv s -> alive s = true -> step_f s ECopyP = Some s' -> Inv s'.
Proof.
  intros I Ha H. cbn [step_f] in H. destruct (fpc s) eqn:Hf; try discriminate. injection H as <-.
  destruct (no_excl_f s I) as [X1 X2]; [congruence|intros c; congruence|].
  pose proof (I_word s I) as W. unfold WordI in W. rewrite Hf in W. destruct W as [W1 [W2 [l W3]]].
  constructor.
  - to_st (set_fpc (fpc s) (set_hs (hs s ++ [H0]) (set_cs (cs s) (inc s)))).
    apply (acct_inc s _ _ _ (I_acct s I) Ha). rewrite count_app. simpl. rewrite (I_refs s I). lia.
  - exact (I_wordg s I).
  - exact (I_pendg s I).
  - intros c e Hc. sf. eapply cb_ok_noexcl; [apply (I_cb s I); exact Hc|intros dc; eapply X2; eauto|auto|auto].
  - intros h' pc'' Hh. sf. rewrite nth_app_one in Hh. destruct (Nat.ltb h' (length (hs s))) eqn:E1.
    + eapply h_ok_noexcl; [apply (I_h s I h'); exact Hh|intros ->; eapply X1; eauto|auto|intros; eauto].
    + destruct (Nat.eqb h' (length (hs s))); [|discriminate]. injection Hh as <-. exact Logic.I.
  - intros Hmv. sf. congruence.
  - exact (I_log s I).
  - unfold FailI. sf. rewrite count_app. pose proof (I_fail s I) as F. unfold FailI in F. simpl. lia.
Qed.

Lemma inv_step_xchg s s' : Inv s -> step_f s EXchg = Some s' -> Inv s'.
Proof.
  intros I H. cbn [step_f] in H. destruct (fpc s) eqn:Hf; try discriminate. destruct (w s) eqn:Hw; [|discriminate].
  destruct (advance l (cs s)) as [pc cbs'] eqn:Ea. injection H as <-.
  pose proof (I_word s I) as W. unfold WordI in W. rewrite Hf in W. destruct W as [[r [W1 W2]] _].
  to_st (set_fpc pc (set_cs cbs' (set_w WRes s))).
  apply (walk_inv (set_w WRes s) l); [|exact Ea].
  pose proof (I_pendg s I) as [P1 [P2 [P3 P4]]]. unfold pend, cur in *. rewrite Hw, Hf in *. simpl in P1, P2, P4.
  constructor; sf; auto.
  - intros c. destruct (fir_at (cs s) c) eqn:E; [|reflexivity]. apply P4 in E. discriminate.
  - exists r. auto.
  - rewrite (I_refs s I), Hf. reflexivity.
  - destruct (I_acct s I) as [_ A]. exact A.
  - intros c e Hc. eapply cb_ok_frame; [apply (I_cb s I); exact Hc|auto|auto|auto].
  - intros h pc' Hh. eapply h_ok_frame; [apply (I_h s I h); exact Hh|auto|auto|intros; eauto].
  - exact (I_log s I).
  - exact (I_fail s I).
Qed.

Lemma wordI_later s s' : WordI s -> w s = WRes -> w s' = w s -> slot s' = slot s -> val s' = val s ->
  fpc s' <> F0 -> fpc s' <> F1 -> WordI s'.
Proof.
  intros W Hw E1 E2 E3 N0 N1. unfold WordI in *. rewrite E1, E2, E3.
  assert (X : w s = WRes /\ exists r, val s = Some r /\ (slot s = SetV r \/ slot s = Moved)).
  { destruct (fpc s); try exact W.
    - destruct W as [_ [_ [l Hl]]]. congruence.
    - destruct W as [_ [l Hl]]. congruence. }
  destruct (fpc s'); try congruence; exact X.
Qed.

Lemma inv_decf_simple s f' :
  Inv s -> alive s = true -> prom (fpc s) = S (prom f') -> w s = WRes -> pend s = [] -> cur s = None ->
  f' <> F0 -> f' <> F1 -> pend_of WRes f' = [] -> cur_of f' = None -> (forall c, fpc s <> FLast c) ->
  Inv (set_fpc f' (dec s)).
Proof.
  intros I Ha Hp Hw Hpe Hcu N0 N1 Hpe' Hcu' Hnl.
  destruct (no_excl_f s I) as [X1 X2]; [intros E; rewrite E in Hp; discriminate|exact Hnl|].
  constructor.
  - to_st (set_fpc f' (set_hs (hs (dec s)) (set_cs (cs (dec s)) (dec s)))).
    apply (acct_dec s _ _ _ (I_acct s I) Ha). decp. rewrite (I_refs s I). lia.
  - apply (wordI_later s); sf; decp; auto. exact (I_wordg s I).
  - destruct (I_pendg s I) as [P1 [P2 [P3 P4]]]. rewrite Hpe in P2. rewrite Hcu in P4.
    assert (E1 : pend (set_fpc f' (dec s)) = []) by (unfold pend; sf; decp; rewrite Hw; exact Hpe').
    assert (E2 : cur (set_fpc f' (dec s)) = None) by (unfold cur; sf; exact Hcu').
    unfold PendI. rewrite E1, E2. sf. decp.
    split; [constructor|split; [exact P2|split; [|exact P4]]].
    destruct f'; auto. destruct rest; [discriminate|auto].
  - intros c e Hc. sf. decp. eapply cb_ok_noexcl; [apply (I_cb s I); exact Hc|intros dc; eapply X2; eauto|sf; decp; auto|sf; decp; auto].
  - intros h pc Hh. sf. decp.
    eapply h_ok_noexcl; [apply (I_h s I h); exact Hh|intros ->; eapply X1; eauto|sf; decp; auto|sf; decp; intros; eauto].
  - intros Hm. sf. decp. exact (I_moved s I Hm).
  - pose proof (I_log s I) as L. unfold LogI, good_val in *. sf. decp. exact L.
  - pose proof (I_fail s I) as F. unfold FailI in *. sf. decp. exact F.
Qed.

Lemma fpc_word s : Inv s -> fpc s <> F0 -> fpc s <> F1 -> w s = WRes.
Proof.
  intros I N0 N1. pose proof (I_word s I) as W. unfold WordI in W. destruct (fpc s); try congruence; apply W.
Qed.

Lemma inv_step_decf s s' : Inv s -> alive s = true -> step_f s EDecF = Some s' -> Inv s'.
Proof.
  intros I Ha H. cbn [step_f] in H. destruct (fpc s) as [ | | |[c|]| | | | ] eqn:Hf; try discriminate.
  - (* the DecRef before the last callback *)
    assert (Hw : w s = WRes) by (apply fpc_word; [exact I|congruence|congruence]).
    destruct (no_excl_f s I) as [X1 X2]; [congruence|intros c'; congruence|].
    destruct (I_pendg s I) as [P1 [P2 [P3 P4]]]. unfold pend in P1, P2. unfold cur in P4. rewrite Hw, Hf in P1, P2. rewrite Hf in P4. simpl in P2.
    assert (Hq : cst_at (cs s) c = Some CQueued) by (apply P2; left; reflexivity).
    unfold cst_at in Hq. destruct (nth_error (cs s) c) as [ec|] eqn:Ec; [|discriminate]. injection Hq as Hq.
    assert (Hnf : forall c', fir_at (cs s) c' = false).
    { intros c'. destruct (fir_at (cs s) c') eqn:E; [|reflexivity]. apply P4 in E. discriminate. }
    assert (Hheld : held ec = false) by (unfold held; rewrite Hq; reflexivity).
    destruct (I_cb s I c ec Ec) as [B1 [B2 B3]]. rewrite Hq in B3.
    destruct (is_event (cs s) c) eqn:Ev.
    + (* the event of a Wait: fired at once *)
      injection H as <-.
      assert (Hk : ck ec = KEvent) by (unfold is_event, kind_at in Ev; rewrite Ec in Ev; destruct (ck ec); congruence).
      constructor.
      * to_st (set_fpc FD2 (set_hs (hs (dec s)) (set_cs (set_cst (cs s) c CDone) (dec s)))).
        apply (acct_dec s _ _ _ (I_acct s I) Ha). decp. rewrite (I_refs s I), Hf.
        pose proof (count_set_cst held _ _ CDone _ Ec) as C. rewrite Hheld in C. simpl in C. simpl. lia.
      * apply (wordI_later s); sf; decp; auto; try discriminate. exact (I_wordg s I).
      * unfold PendI, pend, cur. sf. decp. rewrite Hw. simpl.
        split; [constructor|split; [|split; [exact Logic.I|]]].
        { intros c'. unfold cst_at. rewrite nth_set_cst. split; [intros []|].
          destruct (nth_error (cs s) c') eqn:E; [|discriminate]. destruct (Nat.eqb c c') eqn:E1; [simpl; discriminate|].
          intros Hx. assert (In c' [c]) by (apply P2; unfold cst_at; rewrite E; exact Hx).
          destruct H as [<-|[]]. rewrite Nat.eqb_refl in E1. discriminate. }
        { intros c'. split; [|discriminate]. unfold fir_at. rewrite nth_set_cst.
          specialize (Hnf c'). unfold fir_at in Hnf. destruct (nth_error (cs s) c'); [|discriminate].
          destruct (Nat.eqb c c'); [simpl; discriminate|rewrite Hnf; discriminate]. }
      * intros j e2 He. sf. decp. rewrite nth_set_cst in He. destruct (nth_error (cs s) j) as [e1|] eqn:E; [|discriminate].
        destruct (Nat.eqb c j) eqn:E1; injection He as <-.
        { apply Nat.eqb_eq in E1. subst j. rewrite Ec in E. injection E as <-. unfold cb_ok. simpl. rewrite Hk. simpl.
          split; [intros _; sf; decp; exact Hw|split; [exact Logic.I|exact B3]]. }
        { eapply cb_ok_noexcl; [apply (I_cb s I); exact E|intros dc; eapply X2; eauto|sf; decp; auto|sf; decp; auto]. }
      * intros h pc Hh. sf. decp.
        eapply h_ok_noexcl; [apply (I_h s I h); exact Hh|intros ->; eapply X1; eauto|sf; decp; auto|].
        sf. decp. intros j e1 He. rewrite nth_set_cst, He. eexists. split; [reflexivity|]. destruct (Nat.eqb c j); reflexivity.
      * intros Hm. sf. decp. exfalso. destruct (I_moved s I Hm) as [_ M]. specialize (M c ec Ec). congruence.
      * pose proof (I_log s I) as L. unfold LogI, good_val in *. sf. decp. exact L.
      * pose proof (I_fail s I) as F. unfold FailI in *. sf. decp. rewrite count_cinl_set_cst. exact F.
    + (* the last callback is fired *)
      injection H as <-.
      assert (Hk : ck ec <> KEvent) by (unfold is_event, kind_at in Ev; rewrite Ec in Ev; intros E; rewrite E in Ev; discriminate).
      constructor.
      * to_st (set_fpc (FLast c) (set_hs (hs (dec s)) (set_cs (set_cst (cs s) c CFireF) (dec s)))).
        apply (acct_dec s _ _ _ (I_acct s I) Ha). decp. rewrite (I_refs s I), Hf.
        pose proof (count_set_cst held _ _ CFireF _ Ec) as C. rewrite Hheld in C. simpl in C. simpl. lia.
      * apply (wordI_later s); sf; decp; auto; try discriminate. exact (I_wordg s I).
      * unfold PendI, pend, cur. sf. decp. rewrite Hw. simpl.
        split; [constructor|split; [|split; [exact Logic.I|]]].
        { intros c'. unfold cst_at. rewrite nth_set_cst. split; [intros []|].
          destruct (nth_error (cs s) c') eqn:E; [|discriminate]. destruct (Nat.eqb c c') eqn:E1; [simpl; discriminate|].
          intros Hx. assert (In c' [c]) by (apply P2; unfold cst_at; rewrite E; exact Hx).
          destruct H as [<-|[]]. rewrite Nat.eqb_refl in E1. discriminate. }
        { intros c'. unfold fir_at. rewrite nth_set_cst. destruct (Nat.eqb c c') eqn:E1.
          - apply Nat.eqb_eq in E1. subst c'. rewrite Ec. simpl. split; reflexivity.
          - apply Nat.eqb_neq in E1. split; [|intros Hx; congruence].
            specialize (Hnf c'). unfold fir_at in Hnf. destruct (nth_error (cs s) c'); [|discriminate]. rewrite Hnf. discriminate. }
      * intros j e2 He. sf. decp. rewrite nth_set_cst in He. destruct (nth_error (cs s) j) as [e1|] eqn:E; [|discriminate].
        destruct (Nat.eqb c j) eqn:E1; injection He as <-.
        { apply Nat.eqb_eq in E1. subst j. rewrite Ec in E. injection E as <-. unfold cb_ok. simpl.
          split; [intros _; sf; decp; exact Hw|split; [exact Hk|exact B3]]. }
        { eapply cb_ok_noexcl; [apply (I_cb s I); exact E|intros dc; eapply X2; eauto|sf; decp; auto|sf; decp; auto]. }
      * intros h pc Hh. sf. decp.
        eapply h_ok_noexcl; [apply (I_h s I h); exact Hh|intros ->; eapply X1; eauto|sf; decp; auto|].
        sf. decp. intros j e1 He. rewrite nth_set_cst, He. eexists. split; [reflexivity|]. destruct (Nat.eqb c j); reflexivity.
      * intros Hm. sf. decp. exfalso. destruct (I_moved s I Hm) as [_ M]. specialize (M c ec Ec). congruence.
      * pose proof (I_log s I) as L. unfold LogI, good_val in *. sf. decp. exact L.
      * pose proof (I_fail s I) as F. unfold FailI in *. sf. decp. rewrite count_cinl_set_cst. exact F.
  - injection H as <-. apply inv_decf_simple; auto; try (rewrite Hf; reflexivity); try discriminate.
    + apply fpc_word; [exact I|congruence|congruence].
    + unfold pend. rewrite Hf. destruct (w s) eqn:Hw; [|reflexivity].
      assert (w s = WRes) by (apply fpc_word; [exact I|congruence|congruence]). congruence.
    + unfold cur. rewrite Hf. reflexivity.
    + intros c. congruence.
  - injection H as <-. apply inv_decf_simple; auto; try (rewrite Hf; reflexivity); try discriminate.
    + apply fpc_word; [exact I|congruence|congruence].
    + unfold pend. rewrite Hf. destruct (w s) eqn:Hw; [|reflexivity].
      assert (w s = WRes) by (apply fpc_word; [exact I|congruence|congruence]). congruence.
    + unfold cur. rewrite Hf. reflexivity.
    + intros c. congruence.
  - injection H as <-. apply inv_decf_simple; auto; try (rewrite Hf; reflexivity); try discriminate.
    + apply fpc_word; [exact I|congruence|congruence].
    + unfold pend. rewrite Hf. destruct (w s) eqn:Hw; [|reflexivity].
      assert (w s = WRes) by (apply fpc_word; [exact I|congruence|congruence]). congruence.
    + unfold cur. rewrite Hf. reflexivity.
    + intros c. congruence.
Qed.

(* the Here() of the callback being fired has returned: its entry [e] becomes [e'] (done, or holding a reference) and
   the fulfiller moves on *)
Lemma finish_inv s c e e' rf :
  Inv s -> alive s = true -> cur s = Some c -> nth_error (cs s) c = Some e ->
  firing (cst e') = false -> cst e' <> CQueued -> ck e' = ck e -> cinl e' = cinl e ->
  rf = refs s + (if held e' then 1 else 0) ->
  slot s <> Moved ->
  (forall s2, w s2 = WRes -> val s2 = val s -> cb_ok s2 c e') ->
  Inv (finishF (set_cs (upd (cs s) c e') (set_refs rf s))).
Proof.
  intros I Ha Hcur Hc Hnf Hnq Hck Hci Hrf Hnm Hok'.
  assert (Hfp : (exists rest, fpc s = FWalk c rest) \/ fpc s = FLast c).
  { unfold cur in Hcur. destruct (fpc s); try discriminate; injection Hcur as ->; eauto. }
  assert (Hw : w s = WRes) by (apply fpc_word; [exact I|destruct Hfp as [[r E]|E]; congruence|destruct Hfp as [[r E]|E]; congruence]).
  assert (Hfire : fir_at (cs s) c = true) by (apply (I_cur s I); exact Hcur).
  assert (Hef : firing (cst e) = true) by (unfold fir_at in Hfire; rewrite Hc in Hfire; exact Hfire).
  assert (Hheld : held e = false) by (unfold held; destruct (cst e); simpl in Hef; congruence).
  assert (Hother : forall j ej, j <> c -> nth_error (cs s) j = Some ej -> firing (cst ej) = false).
  { intros j ej Hj He. destruct (firing (cst ej)) eqn:E; [|reflexivity]. exfalso. apply Hj.
    assert (fir_at (cs s) j = true) by (unfold fir_at; rewrite He; exact E). apply (I_cur s I) in H. congruence. }
  assert (Hnoout : forall h, nth_error (hs s) h <> Some (HOut true)).
  { intros h Hh. destruct (excl_out s h I Hh) as [Hf _]. destruct Hfp as [[r E]|E]; congruence. }
  set (s1 := set_cs (upd (cs s) c e') (set_refs rf s)).
  assert (Hslot : exists r, val s = Some r /\ slot s = SetV r).
  { destruct (word_res s I Hw) as [r [Hv [Hs|Hs]]]; [eauto|congruence]. }
  assert (Hcount : count held (upd (cs s) c e') = count held (cs s) + (if held e' then 1 else 0)).
  { pose proof (count_upd held _ _ _ e' Hc) as C. rewrite Hheld in C. lia. }
  assert (Hcinl : count cinl (upd (cs s) c e') = count cinl (cs s)).
  { pose proof (count_upd cinl _ _ _ e' Hc) as C. rewrite Hci in C. destruct (cinl e); lia. }
  assert (Hcb1 : forall j ej, nth_error (cs s1) j = Some ej -> cb_ok s1 j ej).
  { intros j ej He. unfold s1 in He. sf. rewrite nth_upd in He. destruct (Nat.eqb c j) eqn:E.
    - apply Nat.eqb_eq in E. subst j. rewrite Hc in He. injection He as <-. apply Hok'; reflexivity || exact Hw.
    - apply Nat.eqb_neq in E. eapply cb_ok_noexcl; [apply (I_cb s I); exact He| |auto|auto].
      intros dc Ex. assert (firing (cst ej) = false) by (eapply Hother; eauto). rewrite Ex in H. discriminate. }
  assert (Hkinds : forall j ej, nth_error (cs s) j = Some ej -> exists e2, nth_error (cs s1) j = Some e2 /\ ck e2 = ck ej).
  { intros j ej He. unfold s1. sf. rewrite nth_upd. destruct (Nat.eqb c j) eqn:E.
    - apply Nat.eqb_eq in E. subst j. rewrite He. rewrite Hc in He. injection He as <-. eauto.
    - eauto. }
  assert (Hh1 : forall h pc, nth_error (hs s1) h = Some pc -> h_ok s1 pc).
  { intros h pc Hh. unfold s1 in Hh. sf. eapply h_ok_noexcl; [apply (I_h s I h); exact Hh|intros ->; eapply Hnoout; eauto|auto|exact Hkinds]. }
  assert (Hq1 : forall j, cst_at (cs s1) j = Some CQueued <-> (j <> c /\ cst_at (cs s) j = Some CQueued)).
  { intros j. unfold s1, cst_at. sf. rewrite nth_upd. destruct (Nat.eqb c j) eqn:E.
    - apply Nat.eqb_eq in E. subst j. rewrite Hc. split; [intros Hx; congruence|intros [Hx _]; congruence].
    - apply Nat.eqb_neq in E. split; [intros Hx; split; [congruence|exact Hx]|intros [_ Hx]; exact Hx]. }
  assert (Hf1 : forall j, fir_at (cs s1) j = false).
  { intros j. unfold s1, fir_at. sf. rewrite nth_upd. destruct (Nat.eqb c j) eqn:E.
    - apply Nat.eqb_eq in E. subst j. rewrite Hc. exact Hnf.
    - apply Nat.eqb_neq in E. destruct (nth_error (cs s) j) eqn:Ej; [|reflexivity]. eapply Hother; eauto. }
  assert (Hcq : cst_at (cs s) c <> Some CQueued).
  { unfold cst_at. rewrite Hc. intros Hx. injection Hx as Hx. rewrite Hx in Hef. discriminate. }
  destruct (I_acct s I) as [A1 [A2 [A3 [A4 [A5 A6]]]]].
  destruct (I_pendg s I) as [P1 [P2 [P3 P4]]].
  assert (Hal : alive s = negb (Nat.eqb rf 0)).
  { rewrite Ha. apply (alive_refs s I) in Ha. destruct rf; [lia|reflexivity]. }
  destruct Hfp as [[rest Hf]|Hf].
  - (* more callbacks follow *)
    unfold finishF. fold s1. replace (fpc s1) with (fpc s) by reflexivity. rewrite Hf.
    destruct (advance rest (cs s1)) as [pc cbs'] eqn:Ea.
    apply (walk_inv s1 rest); [|exact Ea].
    unfold pend in P1, P2. rewrite Hw, Hf in P1, P2. simpl in P1, P2.
    constructor; auto.
    + intros j. rewrite Hq1. rewrite <- P2. split; [|tauto]. intros Hin. split; [|exact Hin].
      intros ->. apply Hcq. apply P2. exact Hin.
    + unfold s1. sf. rewrite Hcount, Hrf, A1, Hf. simpl. lia.
    + exact (I_log s I).
    + pose proof (I_fail s I) as F. unfold FailI in *. unfold s1. sf. rewrite Hcinl. exact F.
  - (* it was the last one *)
    unfold finishF. fold s1. replace (fpc s1) with (fpc s) by reflexivity. rewrite Hf.
    unfold pend in P1, P2. rewrite Hw, Hf in P1, P2. simpl in P1, P2.
    constructor.
    + unfold AcctI, s1. sf. rewrite Hcount, Hrf, A1, Hf. simpl. repeat split; auto; try lia.
    + unfold WordI, s1. sf. destruct Hslot as [r [Hv Hs]]. split; [exact Hw|exists r; auto].
    + unfold PendI, pend, cur, s1. sf. rewrite Hw. simpl. fold s1. split; [constructor|split; [|split; [exact Logic.I|]]].
      * intros j. split; [intros []|]. intros Hx. apply Hq1 in Hx. destruct Hx as [_ Hx]. apply P2 in Hx. exact Hx.
      * intros j. rewrite Hf1. split; discriminate.
    + intros j ej He. eapply cb_ok_frame; [apply Hcb1; exact He|auto| |auto].
      intros dc Ex. exfalso. pose proof (Hf1 j) as F. unfold fir_at in F. change (cs (set_fpc FD2 s1)) with (cs s1) in He.
      rewrite He, Ex in F. discriminate.
    + intros h pc Hh. eapply h_ok_frame; [apply (Hh1 h); exact Hh|auto|auto|intros; eauto].
    + intros Hm. exfalso. apply Hnm. exact Hm.
    + exact (I_log s I).
    + pose proof (I_fail s I) as F. unfold FailI in *. unfold s1. sf. rewrite Hcinl. exact F.
Qed.

(* an entry of the callback table changes (neither registered before nor after, still or still not being fired),
   possibly together with a DecRef by its owner *)
Lemma inv_cb_upd s c e e' (d : bool) :
  Inv s -> alive s = true -> nth_error (cs s) c = Some e ->
  cst e <> CQueued -> cst e <> CDone -> cst e' <> CQueued -> firing (cst e') = firing (cst e) -> ck e' = ck e -> cinl e' = cinl e ->
  (if d then held e = true /\ held e' = false else held e' = held e) ->
  (forall s2, w s2 = WRes -> val s2 = val s -> refs s2 = (if d then refs s - 1 else refs s) -> fpc s2 = fpc s -> cb_ok s2 c e') ->
  Inv (set_cs (upd (cs s) c e') (if d then dec s else s)).
Proof.
  intros I Ha Hc Hq Hnd Hq' Hfi Hck Hci Hh Hok'.
  assert (Hw : w s = WRes) by (apply (I_cb s I c e Hc); exact Hq).
  assert (Hcinl : count cinl (upd (cs s) c e') = count cinl (cs s)).
  { pose proof (count_upd cinl _ _ _ e' Hc) as C. rewrite Hci in C. destruct (cinl e); lia. }
  assert (Hne : d = true -> no_excl s).
  { intros ->. destruct Hh as [Hh _]. eapply no_excl_c; eauto. }
  assert (Hcsq : forall j, cst_at (upd (cs s) c e') j = Some CQueued <-> cst_at (cs s) j = Some CQueued).
  { intros j. unfold cst_at. rewrite nth_upd. destruct (Nat.eqb c j) eqn:E; [|reflexivity].
    apply Nat.eqb_eq in E. subst j. rewrite Hc. split; intros Hx; congruence. }
  assert (Hfir : forall j, fir_at (upd (cs s) c e') j = fir_at (cs s) j).
  { intros j. unfold fir_at. rewrite nth_upd. destruct (Nat.eqb c j) eqn:E; [|reflexivity].
    apply Nat.eqb_eq in E. subst j. rewrite Hc. exact Hfi. }
  assert (Hkinds : forall j ej, nth_error (cs s) j = Some ej -> exists e2, nth_error (upd (cs s) c e') j = Some e2 /\ ck e2 = ck ej).
  { intros j ej He. rewrite nth_upd. destruct (Nat.eqb c j) eqn:E; [|eauto].
    apply Nat.eqb_eq in E. subst j. rewrite He. rewrite Hc in He. injection He as <-. eauto. }
  pose proof (count_upd held _ _ _ e' Hc) as CH.
  set (s0 := if d then dec s else s).
  assert (E_w : w s0 = w s) by (unfold s0; destruct d; decp; reflexivity).
  assert (E_slot : slot s0 = slot s) by (unfold s0; destruct d; decp; reflexivity).
  assert (E_val : val s0 = val s) by (unfold s0; destruct d; decp; reflexivity).
  assert (E_fpc : fpc s0 = fpc s) by (unfold s0; destruct d; decp; reflexivity).
  assert (E_hs : hs s0 = hs s) by (unfold s0; destruct d; decp; reflexivity).
  assert (E_cs : cs s0 = cs s) by (unfold s0; destruct d; decp; reflexivity).
  assert (E_gots : gots s0 = gots s) by (unfold s0; destruct d; decp; reflexivity).
  assert (E_iruns : iruns s0 = iruns s) by (unfold s0; destruct d; decp; reflexivity).
  assert (E_nfail : nfail s0 = nfail s) by (unfold s0; destruct d; decp; reflexivity).
  assert (E_readys : readys s0 = readys s) by (unfold s0; destruct d; decp; reflexivity).
  assert (E_refs : refs s0 = if d then refs s - 1 else refs s) by (unfold s0; destruct d; decp; reflexivity).
  constructor.
  - destruct d.
    + destruct Hh as [H1 H2]. rewrite H1, H2 in CH.
      to_st (set_fpc (fpc (dec s)) (set_hs (hs (dec s)) (set_cs (upd (cs s) c e') (dec s)))).
      apply (acct_dec s _ _ _ (I_acct s I) Ha). decp. rewrite (I_refs s I). lia.
    + rewrite Hh in CH.
      to_st (set_fpc (fpc s) (set_hs (hs s) (set_cs (upd (cs s) c e') s))).
      apply (acct_same s _ _ _ (I_acct s I)). destruct (held e); lia.
  - pose proof (I_wordg s I) as W. unfold WordI in *. sf. rewrite E_fpc, E_slot, E_val, E_w. exact W.
  - destruct (I_pendg s I) as [P1 [P2 [P3 P4]]]. unfold PendI, pend, cur in *. sf. rewrite E_fpc, E_w.
    split; [exact P1|split; [|split; [exact P3|]]].
    + intros j. rewrite Hcsq. apply P2.
    + intros j. rewrite Hfir. apply P4.
  - intros j e2 He. sf. rewrite nth_upd in He. destruct (Nat.eqb c j) eqn:E.
    + apply Nat.eqb_eq in E. subst j. rewrite Hc in He. injection He as <-. apply Hok'; sf; auto. rewrite E_w. exact Hw.
    + destruct d.
      * destruct (Hne eq_refl) as [_ X2].
        eapply cb_ok_noexcl; [apply (I_cb s I); exact He|intros dc; eapply X2; eauto|sf; rewrite E_w; auto|sf; auto].
      * eapply cb_ok_frame; [apply (I_cb s I); exact He|sf; auto|sf; auto|sf; auto].
  - intros h pc Hh'. sf. rewrite E_hs in Hh'. destruct d.
    + destruct (Hne eq_refl) as [X1 _].
      eapply h_ok_noexcl; [apply (I_h s I h); exact Hh'|intros ->; eapply X1; eauto|sf; rewrite E_w; auto|sf; exact Hkinds].
    + eapply h_ok_frame; [apply (I_h s I h); exact Hh'|sf; auto|sf; auto|sf; exact Hkinds].
  - intros Hm. sf. rewrite E_slot in Hm. rewrite E_hs. destruct (I_moved s I Hm) as [M1 M2]. split; [exact M1|].
    exfalso. specialize (M2 c e Hc). congruence.
  - pose proof (I_log s I) as L. unfold LogI, good_val in *. sf. rewrite E_val, E_gots, E_iruns, E_readys. exact L.
  - pose proof (I_fail s I) as F. unfold FailI in *. sf. rewrite E_nfail, E_iruns, E_hs, Hcinl. exact F.
Qed.

Lemma add_cv_upd l c x v e : nth_error l c = Some e -> add_cv l c x v = upd l c (with_cv e x v).
Proof. intros H. unfold add_cv. rewrite H. reflexivity. Qed.
Lemma set_cst_upd l c x e : nth_error l c = Some e -> set_cst l c x = upd l c (with_cst e x).
Proof. intros H. unfold set_cst. rewrite H. reflexivity. Qed.

Lemma cur_fpc s c : cur s = Some c -> fpc s <> F0 /\ fpc s <> F1 /\ fpc s <> FDone /\ 2 <= prom (fpc s).
Proof. unfold cur. destruct (fpc s); try discriminate; intros _; simpl; repeat split; try discriminate; lia. Qed.

Lemma inv_step_ecb s c s' : Inv s -> alive s = true -> step_f s (ECb c) = Some s' -> Inv s'.
Proof.
  intros I Ha H. cbn [step_f] in H. destruct (nth_error (cs s) c) as [e|] eqn:Ec; [|discriminate].
  destruct (cst e) eqn:Est; try discriminate. injection H as <-.
  destruct (I_cb s I c e Ec) as [B1 [B2 B3]]. rewrite Est in B2, B3.
  assert (Hw : w s = WRes) by (apply B1; congruence).
  assert (Hm : slot s <> Moved) by (eapply not_moved_c; eauto; congruence).
  destruct (rd_ok s I Ha Hw Hm) as [R1 R2].
  rewrite (add_cv_upd _ _ _ _ _ Ec).
  apply (inv_cb_upd s c e _ false I Ha Ec); simpl; try congruence; try (rewrite Est; reflexivity).
  - unfold held. simpl. rewrite Est. reflexivity.
  - intros s2 W2 V2 _ _. unfold cb_ok. simpl. rewrite B2. simpl. rewrite B3, R1, V2. simpl.
    split; [auto|split; [reflexivity|split; [reflexivity|congruence]]].
Qed.

Lemma inv_step_ecbdec s c s' : Inv s -> alive s = true -> step_f s (ECbDec c) = Some s' -> Inv s'.
Proof.
  intros I Ha H. cbn [step_f] in H. destruct (nth_error (cs s) c) as [e|] eqn:Ec; [|discriminate].
  destruct (cst e) eqn:Est; try discriminate. injection H as <-.
  destruct (I_cb s I c e Ec) as [B1 [B2 B3]]. rewrite Est in B2, B3. rewrite B2 in B3. simpl in B3.
  rewrite (set_cst_upd _ _ _ _ Ec).
  apply (inv_cb_upd s c e _ true I Ha Ec); simpl; try congruence; try (rewrite Est; reflexivity).
  - unfold held. simpl. rewrite Est. auto.
  - intros s2 W2 V2 _ _. unfold cb_ok. simpl. rewrite B2. simpl. rewrite V2.
    split; [auto|split; [exact Logic.I|exact B3]].
Qed.

Lemma inv_step_efrc s n s' : Inv s -> alive s = true -> step_f s (EFRc n) = Some s' -> Inv s'.
Proof.
  intros I Ha H. cbn [step_f] in H. destruct (cur s) as [c|] eqn:Hcur; [|discriminate].
  destruct (nth_error (cs s) c) as [e|] eqn:Ec; [|discriminate].
  destruct (ck e) eqn:Ek; try discriminate. destruct (cst e) eqn:Est; try discriminate.
  destruct (Nat.eqb n (refs s)) eqn:En; [|discriminate]. apply Nat.eqb_eq in En. subst n. injection H as <-.
  destruct (I_cb s I c e Ec) as [B1 [B2 B3]]. rewrite Est in B2, B3.
  destruct (cur_fpc s c Hcur) as [F0' [F1' [FD' Hp]]].
  pose proof (I_refs s I) as R.
  rewrite (set_cst_upd _ _ _ _ Ec).
  apply (inv_cb_upd s c e _ false I Ha Ec); simpl; try congruence; try (rewrite Est; reflexivity).
  - unfold held. simpl. rewrite Est. reflexivity.
  - intros s2 W2 V2 R2 F2. unfold cb_ok. simpl. split; [auto|split; [|exact B3]].
    split; [exact Ek|split].
    + destruct (refs s) as [|[|k]]; simpl; try reflexivity; lia.
    + intros Hmv. rewrite R2, F2.
      assert (Hr2 : refs s = 2).
      { destruct (refs s) as [|[|[|k]]]; simpl in Hmv; try discriminate; lia. }
      split; [exact Hr2|]. unfold cur in Hcur. destruct (fpc s) eqn:Hf; try discriminate; injection Hcur as ->; [|reflexivity].
      simpl in R. lia.
Qed.

Lemma inv_step_efinc s s' : Inv s -> alive s = true -> step_f s EFInc = Some s' -> Inv s'.
Proof.
  intros I Ha H. cbn [step_f] in H. destruct (cur s) as [c|] eqn:Hcur; [|discriminate].
  destruct (nth_error (cs s) c) as [e|] eqn:Ec; [|discriminate].
  destruct (ck e) eqn:Ek; try discriminate. destruct (cst e) eqn:Est; try discriminate. injection H as <-.
  destruct (I_cb s I c e Ec) as [B1 [B2 B3]]. rewrite Est in B2, B3.
  assert (Hm : slot s <> Moved) by (eapply not_moved_c; eauto; congruence).
  rewrite (set_cst_upd _ _ _ _ Ec).
  to_st (finishF (set_cs (upd (cs s) c (with_cst e CHeld)) (set_refs (S (refs s)) s))).
  apply (finish_inv s c e _ _ I Ha Hcur Ec); simpl; try congruence; try reflexivity.
  - unfold held. simpl. lia.
  - intros s2 W2 V2. unfold cb_ok. simpl. split; [auto|split; [exact Ek|exact B3]].
Qed.

Lemma inv_step_efrun s s' : Inv s -> alive s = true -> step_f s EFRun = Some s' -> Inv s'.
Proof.
  intros I Ha H. cbn [step_f] in H. destruct (cur s) as [c|] eqn:Hcur; [|discriminate].
  destruct (nth_error (cs s) c) as [e|] eqn:Ec; [|discriminate].
  destruct (cur_fpc s c Hcur) as [F0' [F1' [FD' Hp]]].
  assert (Hw : w s = WRes) by (apply fpc_word; assumption).
  destruct (I_cb s I c e Ec) as [B1 [B2 B3]].
  assert (Hnd : cst e <> CDone).
  { intros E. assert (F : fir_at (cs s) c = true) by (apply (I_cur s I); exact Hcur).
    unfold fir_at in F. rewrite Ec, E in F. discriminate. }
  assert (Hm : slot s <> Moved) by (eapply not_moved_c; eauto).
  destruct (rd_ok s I Ha Hw Hm) as [R1 R2].
  rewrite (add_cv_upd _ _ _ _ _ Ec) in H.
  destruct (ck e) eqn:Ek; try discriminate; destruct (cst e) as [ | |mv dc| | | ] eqn:Est; try discriminate.
  - (* ThenInline & co: a read through const& *)
    injection H as <-. simpl in B3.
    to_st (finishF (set_cs (upd (cs s) c (with_cv e CDone (rd s))) (set_refs (refs s) s))).
    apply (finish_inv s c e _ _ I Ha Hcur Ec); simpl; try congruence; try reflexivity.
    + unfold held. simpl. lia.
    + intros s2 W2 V2. unfold cb_ok. simpl. rewrite Ek. simpl. rewrite B3, R1, V2. simpl.
      split; [auto|split; [exact Logic.I|split; [reflexivity|congruence]]].
  - (* ResultCore::Impl: copy or move *)
    simpl in B2, B3. destruct B2 as [_ [Hdc Hmv]]. subst dc. destruct mv.
    + (* the move: nobody else is left *)
      injection H as <-. destruct (Hmv eq_refl) as [Hr Hf].
      destruct (excl_conn s c e false I Ec Est) as [_ [Hl0 Hh0]].
      assert (Hfin : forall X, fpc X = FLast c -> finishF X = set_fpc FD2 X) by (intros X E; unfold finishF; rewrite E; reflexivity).
      rewrite Hfin by (sf; exact Hf).
      assert (Hother : forall j ej, j <> c -> nth_error (cs s) j = Some ej -> cst ej = CDone).
      { intros j ej Hj He. eapply done_unless; eauto.
        - unfold pend. rewrite Hw, Hf. simpl. auto.
        - rewrite Hcur. congruence.
        - eapply count_zero; eauto. }
      assert (CH : count held (upd (cs s) c (with_cv e CDone (rd s))) = count held (cs s)).
      { pose proof (count_upd held _ _ _ (with_cv e CDone (rd s)) Ec) as C.
        assert (E1 : held e = false) by (unfold held; rewrite Est; reflexivity).
        assert (E2 : held (with_cv e CDone (rd s)) = false) by reflexivity. rewrite E1, E2 in C. lia. }
      pose proof (count_upd cinl _ _ _ (with_cv e CDone (rd s)) Ec) as CI. simpl in CI.
      destruct (word_res s I Hw) as [r [Hv _]].
      constructor.
      * destruct (I_acct s I) as [A1 A2]. unfold AcctI. sf. rewrite Hf in A1. simpl in *. split; [lia|exact A2].
      * unfold WordI. sf. split; [exact Hw|exists r; auto].
      * unfold PendI, pend, cur. sf. rewrite Hw. simpl. split; [constructor|split; [|split; [exact Logic.I|]]].
        { intros j. split; [intros []|]. unfold cst_at. rewrite nth_upd. destruct (Nat.eqb c j) eqn:E.
          - apply Nat.eqb_eq in E. subst j. rewrite Ec. simpl. discriminate.
          - apply Nat.eqb_neq in E. destruct (nth_error (cs s) j) eqn:Ej; [|discriminate].
            rewrite (Hother j c0); [discriminate|congruence|exact Ej]. }
        { intros j. split; [|discriminate]. unfold fir_at. rewrite nth_upd. destruct (Nat.eqb c j) eqn:E.
          - apply Nat.eqb_eq in E. subst j. rewrite Ec. simpl. discriminate.
          - apply Nat.eqb_neq in E. destruct (nth_error (cs s) j) eqn:Ej; [|discriminate].
            rewrite (Hother j c0); [simpl; discriminate|congruence|exact Ej]. }
      * intros j ej He. sf. rewrite nth_upd in He. destruct (Nat.eqb c j) eqn:E.
        { apply Nat.eqb_eq in E. subst j. rewrite Ec in He. injection He as <-. unfold cb_ok. simpl. rewrite Ek. simpl.
          rewrite B3, R1. simpl. split; [auto|split; [exact Logic.I|split; [reflexivity|congruence]]]. }
        { apply Nat.eqb_neq in E. eapply cb_ok_noexcl; [apply (I_cb s I); exact He| |auto|auto].
          intros dc Ex. rewrite (Hother j ej) in Ex; [discriminate|congruence|exact He]. }
      * intros h pc Hh. sf. pose proof (count_zero live _ _ _ Hl0 Hh) as Hd. apply live_dead in Hd. subst pc. exact Logic.I.
      * intros _. sf. split.
        { intros h pc Hh. right. apply live_dead. eapply count_zero; eauto. }
        { intros j ej He. rewrite nth_upd in He. destruct (Nat.eqb c j) eqn:E.
          - apply Nat.eqb_eq in E. subst j. rewrite Ec in He. injection He as <-. reflexivity.
          - apply Nat.eqb_neq in E. eapply Hother; eauto. }
      * exact (I_log s I).
      * pose proof (I_fail s I) as F. unfold FailI in *. sf. destruct (cinl e); lia.
    + (* the copy *)
      injection H as <-.
      to_st (finishF (set_cs (upd (cs s) c (with_cv e CDone (rd s))) (set_refs (refs s) s))).
      apply (finish_inv s c e _ _ I Ha Hcur Ec); simpl; try congruence; try reflexivity.
      * unfold held. simpl. lia.
      * intros s2 W2 V2. unfold cb_ok. simpl. rewrite Ek. simpl. rewrite B3, R1, V2. simpl.
        split; [auto|split; [exact Logic.I|split; [reflexivity|congruence]]].
Qed.

(* ---- the destructor, and nothing else, runs after the last reference is gone ------------------------------------------ *)

Lemma inv_step_dtor s s' : Inv s -> step_g true s EDtor = Some s' -> Inv s'.
Proof.
  intros I H. cbn [step_g] in H. destruct (dying s) eqn:Hd; [|discriminate]. destruct (w s) eqn:Hw; [discriminate|].
  injection H as <-. constructor; try (apply I; fail).
  destruct (I_acct s I) as [A1 [A2 [A3 [A4 [A5 A6]]]]]. unfold AcctI. sf. repeat split; auto; discriminate.
Qed.

Lemma dead_quiet s : Inv s -> alive s = false ->
  fpc s = FDone /\ (forall h pc, nth_error (hs s) h = Some pc -> pc = HDead) /\
  (forall c e, nth_error (cs s) c = Some e -> held e = false).
Proof.
  intros I Ha. pose proof (I_alive s I) as A. rewrite Ha in A. symmetry in A. apply negb_false_iff in A.
  apply Nat.eqb_eq in A. pose proof (I_refs s I) as R. rewrite A in R.
  split; [apply prom_zero; lia|split].
  - intros h pc Hh. apply live_dead. eapply count_zero; eauto. lia.
  - intros c e Hc. eapply count_zero; eauto. lia.
Qed.

Lemma dead_step s e s' : Inv s -> alive s = false -> step_g true s e = Some s' -> e = EDtor.
Proof.
  intros I Ha H. destruct (dead_quiet s I Ha) as [Hf [Hh Hc]].
  assert (Ht : touch s = set_uaf (S (uaf s)) s) by (unfold touch; rewrite Ha; reflexivity).
  assert (Hpc : forall h, pc_of (touch s) h = None \/ pc_of (touch s) h = Some HDead).
  { intros h. rewrite Ht. unfold pc_of. sf. destruct (nth_error (hs s) h) as [pc|] eqn:E; [|left; reflexivity].
    rewrite (Hh h pc E). right. reflexivity. }
  destruct e; try reflexivity; exfalso; cbn [step_g step_f step_h] in H.
  all: try (rewrite Ht in H; sf; rewrite Hf in H; discriminate).
  all: try (rewrite Ht in H; unfold cur in H; sf; rewrite Hf in H; discriminate).
  all: try (destruct (Hpc h) as [E|E]; rewrite E in H; discriminate).
  - rewrite Ht in H. sf. destruct (nth_error (cs s) c) as [x|] eqn:E; [|discriminate].
    specialize (Hc c x E). unfold held in Hc. destruct (cst x); discriminate.
  - rewrite Ht in H. sf. destruct (nth_error (cs s) c) as [x|] eqn:E; [|discriminate].
    specialize (Hc c x E). unfold held in Hc. destruct (cst x); discriminate.
Qed.

(* ---- the invariant holds in every reachable state --------------------------------------------------------------------- *)

Theorem inv_step s e s' : Inv s -> step_g true s e = Some s' -> Inv s'.
Proof.
  intros I H. destruct (alive s) eqn:Ha.
  - destruct e; cbn [step_g] in H; try rewrite (touch_alive s Ha) in H.
    + eapply inv_step_set; eauto.
    + eapply inv_step_xchg; eauto.
    + eapply inv_step_decf; eauto.
    + eapply inv_step_copyp; eauto.
    + eapply inv_step_efrun; eauto.
    + eapply inv_step_efinc; eauto.
    + eapply inv_step_efrc; eauto.
    + eapply inv_step_ecb; eauto.
    + eapply inv_step_ecbdec; eauto.
    + eapply (inv_step_h_local s (EReady h v)); eauto; exact Logic.I.
    + eapply (inv_step_h_local s (EAwaitL h v)); eauto; exact Logic.I.
    + eapply (inv_step_h_local s (ETouchL h mv v)); eauto; exact Logic.I.
    + eapply (inv_step_h_local s (ERcH h n)); eauto; exact Logic.I.
    + eapply inv_step_got; eauto.
    + eapply (inv_step_h_local s (EAttL h p v)); eauto; exact Logic.I.
    + eapply (inv_step_h_local s (ELdA h v)); eauto; exact Logic.I.
    + eapply inv_step_cas; eauto.
    + eapply (inv_step_h_local s (ECbInl h)); eauto; exact Logic.I.
    + eapply inv_step_incinl; eauto.
    + eapply (inv_step_h_local s (EConnL h v)); eauto; exact Logic.I.
    + eapply inv_step_copy; eauto.
    + eapply inv_step_destroy; eauto.
    + eapply inv_step_dtor; eauto.
  - pose proof (dead_step s e s' I Ha H) as ->. eapply inv_step_dtor; eauto.
Qed.

Theorem inv_run tr : forall s s', Inv s -> run_g true s tr = Some s' -> Inv s'.
Proof.
  induction tr as [|e tr IH]; simpl; intros s s' I H.
  - injection H as <-. exact I.
  - destruct (step_g true s e) as [s1|] eqn:E; [|discriminate]. eapply IH; [|exact H]. eapply inv_step; eauto.
Qed.

(* the model of the tree under check uses the rule read from the source: it is the rule the invariant is proved for *)
Lemma run_is_run_true : run = run_g true.
Proof. unfold run. destruct ready_rule as [_ ->]. reflexivity. Qed.

Theorem inv_reach wf tr s : run (init wf) tr = Some s -> Inv s.
Proof. rewrite run_is_run_true. apply inv_run. apply inv_init. Qed.

(* ---- consequences, in the terms of the property --------------------------------------------------------------------- *)

(* the value that was Set, once it was *)
Definition the_value (s : st) (r : nat) : Prop := val s = Some r.

Lemma good_is_some s v : good_val s v -> exists r, v = Some r /\ val s = Some r.
Proof. intros [E N]. destruct v as [r|]; [exists r; split; congruence|congruence]. Qed.

(* every attached continuation: nothing before it is fired, exactly one invocation, with the value *)
Lemma cb_once s c e : Inv s -> nth_error (cs s) c = Some e ->
  match cst e with
  | CRan | CDone => if is_cb_kind (ck e) then exists r, cv e = [Some r] /\ val s = Some r else cv e = []
  | _ => cv e = []
  end.
Proof.
  intros I Hc. destruct (I_cb s I c e Hc) as [_ [_ B3]]. destruct (cst e); auto.
  - destruct (is_cb_kind (ck e)); auto. destruct B3 as [E N]. destruct (val s) as [r|]; [|congruence]. exists r. auto.
  - destruct (is_cb_kind (ck e)); auto. destruct B3 as [E N]. destruct (val s) as [r|]; [|congruence]. exists r. auto.
Qed.

(* anything a callback ever saw was seen after the exchange published the result *)
Lemma cb_after_set s c e : Inv s -> nth_error (cs s) c = Some e -> cv e <> [] ->
  w s = WRes /\ exists r, val s = Some r /\ fpc s <> F0 /\ fpc s <> F1.
Proof.
  intros I Hc Hn. pose proof (cb_once s c e I Hc) as H. destruct (I_cb s I c e Hc) as [B1 _].
  assert (Hq : cst e <> CQueued) by (intros E; rewrite E in H; congruence).
  specialize (B1 Hq). split; [exact B1|]. destruct (word_res s I B1) as [r [Hv _]]. exists r. split; [exact Hv|].
  pose proof (I_word s I) as W. unfold WordI in W. split; intros E; rewrite E in W.
  - destruct W as [_ [_ [l Hl]]]. congruence.
  - destruct W as [_ [l Hl]]. congruence.
Qed.

(* when SetResult's walk is over nothing is left registered or half-fired *)
Lemma none_left s c e : Inv s -> nth_error (cs s) c = Some e ->
  (fpc s = FD2 \/ fpc s = FD1 \/ fpc s = FDone) -> cst e = CHeld \/ cst e = CRan \/ cst e = CDone.
Proof.
  intros I Hc Hf.
  assert (Hw : w s = WRes) by (apply fpc_word; [exact I|destruct Hf as [E|[E|E]]; congruence|destruct Hf as [E|[E|E]]; congruence]).
  destruct (cst e) eqn:Est; auto; exfalso.
  - assert (In c (pend s)) by (apply (I_pend s I); unfold cst_at; rewrite Hc, Est; reflexivity).
    unfold pend in H. rewrite Hw in H. destruct Hf as [E|[E|E]]; rewrite E in H; exact H.
  - assert (cur s = Some c) by (apply (I_cur s I); unfold fir_at; rewrite Hc, Est; reflexivity).
    unfold cur in H. destruct Hf as [E|[E|E]]; rewrite E in H; discriminate.
  - assert (cur s = Some c) by (apply (I_cur s I); unfold fir_at; rewrite Hc, Est; reflexivity).
    unfold cur in H. destruct Hf as [E|[E|E]]; rewrite E in H; discriminate.
Qed.

Lemma forallb_nth {A} (f : A -> bool) l i x : forallb f l = true -> nth_error l i = Some x -> f x = true.
Proof. intros H Hn. rewrite forallb_forall in H. apply H. eapply nth_error_In; eauto. Qed.

Lemma count_forallb_zero {A} (f g : A -> bool) l :
  forallb g l = true -> (forall x, g x = true -> f x = false) -> count f l = 0.
Proof.
  induction l as [|a t IH]; simpl; intros H Hfg; [reflexivity|].
  apply andb_true_iff in H. destruct H as [H1 H2]. rewrite (Hfg a H1). simpl. apply IH; assumption.
Qed.

Lemma terminal_parts s : terminal s = true ->
  fpc s = FDone /\ forallb h_dead (hs s) = true /\ forallb c_done (cs s) = true /\ dying s = false.
Proof.
  unfold terminal. intros H. repeat (apply andb_true_iff in H; destruct H as [H ?]).
  destruct (fpc s); try discriminate. repeat split; auto. apply negb_true_iff. assumption.
Qed.

(* at the end: every continuation ran exactly once with the value, every failed attach was run inline or handed to an
   executor, the state was released exactly once *)
Lemma terminal_exact s : Inv s -> terminal s = true ->
  (forall c e, nth_error (cs s) c = Some e -> ck e <> KEvent -> exists r, cv e = [Some r] /\ val s = Some r) /\
  nfail s = length (iruns s) + count cinl (cs s) /\
  refs s = 0 /\ alive s = false /\ frees s = 1.
Proof.
  intros I T. destruct (terminal_parts s T) as [Hf [Hh [Hc Hd]]].
  assert (L0 : count live (hs s) = 0) by (apply (count_forallb_zero live h_dead); [exact Hh|intros x Hx; unfold live; rewrite Hx; reflexivity]).
  assert (H0' : count held (cs s) = 0).
  { apply (count_forallb_zero held c_done); [exact Hc|]. intros x Hx. unfold c_done in Hx. unfold held. destruct (cst x); congruence. }
  assert (I0 : count inl_pc (hs s) = 0).
  { apply (count_forallb_zero inl_pc h_dead); [exact Hh|]. intros x Hx. destruct x; simpl in *; congruence. }
  assert (R : refs s = 0) by (rewrite (I_refs s I), Hf, L0, H0'; reflexivity).
  assert (A : alive s = false) by (rewrite (I_alive s I), R; reflexivity).
  split; [|split; [|split; [exact R|split; [exact A|]]]].
  - intros c e He Hk. pose proof (forallb_nth c_done _ _ _ Hc He) as Hdn. unfold c_done in Hdn.
    pose proof (cb_once s c e I He) as H. destruct (cst e); try discriminate.
    destruct (ck e); simpl in H; try exact H. congruence.
  - pose proof (I_fail s I) as F. unfold FailI in F. lia.
  - destruct (I_acct s I) as [_ [_ [A3 _]]]. rewrite A in A3. exact A3.
Qed.

Lemma values_ok s : Inv s ->
  (forall v, In v (gots s ++ iruns s) -> exists r, v = Some r /\ val s = Some r) /\
  (forall c e v, nth_error (cs s) c = Some e -> In v (cv e) -> exists r, v = Some r /\ val s = Some r).
Proof.
  intros I. destruct (I_log s I) as [L1 [L2 _]]. split.
  - intros v Hin. apply in_app_or in Hin. rewrite Forall_forall in L1, L2.
    destruct Hin as [Hin|Hin]; apply good_is_some; auto.
  - intros c e v Hc Hin. pose proof (cb_once s c e I Hc) as H.
    destruct (cst e); try (rewrite H in Hin; contradiction).
    + destruct (is_cb_kind (ck e)); [|rewrite H in Hin; contradiction]. destruct H as [r [E V]]. rewrite E in Hin.
      destruct Hin as [<-|[]]. eauto.
    + destruct (is_cb_kind (ck e)); [|rewrite H in Hin; contradiction]. destruct H as [r [E V]]. rewrite E in Hin.
      destruct Hin as [<-|[]]. eauto.
Qed.

Lemma moved_only_when_alone s : Inv s -> slot s = Moved ->
  (forall h pc, nth_error (hs s) h = Some pc -> pc = HSpent \/ pc = HDead) /\
  (forall c e, nth_error (cs s) c = Some e -> cst e = CDone).
Proof. intros I Hm. exact (I_moved s I Hm). Qed.

(* the two places where a move is decided see a counter that proves nobody else is left *)
Lemma move_decisions_exclusive s : Inv s ->
  (forall h, nth_error (hs s) h = Some (HOut true) -> refs s = 1 /\ fpc s = FDone /\ count live (hs s) = 1 /\ count held (cs s) = 0) /\
  (forall c e dc, nth_error (cs s) c = Some e -> cst e = CConn true dc ->
     refs s = 2 /\ fpc s = FLast c /\ count live (hs s) = 0 /\ count held (cs s) = 0).
Proof.
  intros I. split.
  - intros h Hh. destruct (excl_out s h I Hh) as [A [B C]]. pose proof (I_h s I h _ Hh) as [_ R]. auto.
  - intros c e dc Hc He. destruct (excl_conn s c e dc I Hc He) as [A [B C]].
    destruct (I_cb s I c e Hc) as [_ [B2 _]]. rewrite He in B2. destruct B2 as [_ [_ B2]]. destruct (B2 eq_refl). auto.
Qed.

Lemma refs_ok s : Inv s ->
  under s = 0 /\ uaf s = 0 /\ frees s <= 1 /\ (frees s = 1 <-> refs s = 0) /\ (alive s = false <-> refs s = 0) /\
  refs s = prom (fpc s) + count live (hs s) + count held (cs s) /\
  (alive s = false -> w s = WRes /\ fpc s = FDone).
Proof.
  intros I. destruct (I_acct s I) as [A1 [A2 [A3 [A4 [A5 A6]]]]].
  assert (E : alive s = false <-> refs s = 0).
  { rewrite A2. destruct (refs s); simpl; split; intros; try reflexivity; try discriminate; lia. }
  repeat split; auto.
  - rewrite A3. destruct (alive s); lia.
  - intros F. apply E. rewrite A3 in F. destruct (alive s); [discriminate|reflexivity].
  - intros R. apply E in R. rewrite A3, R. reflexivity.
  - apply E.
  - apply E.
  - destruct (dead_quiet s I H) as [Hf _]. apply fpc_word; [exact I|congruence|congruence].
  - destruct (dead_quiet s I H) as [Hf _]. exact Hf.
Qed.

Lemma ready_ok s : Inv s ->
  Forall (fun p => fst p = true -> snd p = true) (readys s) /\
  (w s = WRes -> exists r, val s = Some r /\ (slot s = SetV r \/ slot s = Moved)).
Proof. intros I. split; [apply (I_log s I)|apply word_res; exact I]. Qed.

(* ---- the statements of props/Properties_C06.v, for a state satisfying the invariant ---------------------------------- *)

Lemma each_once_all s : Inv s ->
  (forall c e, nth_error (cs s) c = Some e ->
     match cst e with
     | CRan | CDone => if is_cb_kind (ck e) then exists r, cv e = [Some r] /\ val s = Some r else cv e = []
     | _ => cv e = []
     end) /\
  (forall c e, nth_error (cs s) c = Some e -> cv e <> [] ->
     w s = WRes /\ exists r, val s = Some r /\ fpc s <> F0 /\ fpc s <> F1) /\
  (forall v, In v (iruns s) -> exists r, v = Some r /\ val s = Some r) /\
  nfail s = length (iruns s) + count inl_pc (hs s) + count cinl (cs s) /\
  (forall c e, nth_error (cs s) c = Some e -> fpc s = FD2 \/ fpc s = FD1 \/ fpc s = FDone ->
     cst e = CHeld \/ cst e = CRan \/ cst e = CDone) /\
  (terminal s = true ->
     (forall c e, nth_error (cs s) c = Some e -> ck e <> KEvent -> exists r, cv e = [Some r] /\ val s = Some r) /\
     nfail s = length (iruns s) + count cinl (cs s)).
Proof.
  intros I.
  split; [intros c e; apply cb_once; exact I|].
  split; [intros c e; apply cb_after_set; exact I|].
  split; [intros v Hv; apply (proj1 (values_ok s I)); apply in_or_app; right; exact Hv|].
  split; [exact (I_fail s I)|].
  split; [intros c e; apply none_left; exact I|].
  intros T. destruct (terminal_exact s I T) as [A [B _]]. split; [exact A|exact B].
Qed.

Lemma no_moved_all s : Inv s ->
  (forall v, In v (gots s ++ iruns s) -> exists r, v = Some r /\ val s = Some r) /\
  (forall c e v, nth_error (cs s) c = Some e -> In v (cv e) -> exists r, v = Some r /\ val s = Some r) /\
  (slot s = Moved ->
     (forall h pc, nth_error (hs s) h = Some pc -> pc = HSpent \/ pc = HDead) /\
     (forall c e, nth_error (cs s) c = Some e -> cst e = CDone)) /\
  (forall h, nth_error (hs s) h = Some (HOut true) ->
     refs s = 1 /\ fpc s = FDone /\ count live (hs s) = 1 /\ count held (cs s) = 0) /\
  (forall c e dc, nth_error (cs s) c = Some e -> cst e = CConn true dc ->
     refs s = 2 /\ fpc s = FLast c /\ count live (hs s) = 0 /\ count held (cs s) = 0).
Proof.
  intros I. destruct (values_ok s I) as [V1 V2]. destruct (move_decisions_exclusive s I) as [M1 M2].
  split; [exact V1|split; [exact V2|split; [apply moved_only_when_alone; exact I|split; [exact M1|exact M2]]]].
Qed.

Lemma refs_all s : Inv s ->
  under s = 0 /\ uaf s = 0 /\ frees s <= 1 /\ (frees s = 1 <-> refs s = 0) /\ (alive s = false <-> refs s = 0) /\
  refs s = prom (fpc s) + count live (hs s) + count held (cs s) /\
  (alive s = false -> w s = WRes /\ fpc s = FDone) /\
  (terminal s = true -> refs s = 0 /\ alive s = false /\ frees s = 1).
Proof.
  intros I. destruct (refs_ok s I) as [A [B [C [D [E [F G]]]]]].
  repeat (split; [assumption|]). intros T. apply (terminal_exact s I T).
Qed.

(* what the readiness rule before the fix allows (S1): a concrete run of the same model with that rule *)
Lemma old_rule_witness :
  exists tr s, run_g false (init true) tr = Some s /\
    In (true, false) (readys s) /\ In None (gots s) /\ slot s = Unset.
Proof.
  exists [ECopy 0; EAttL 0 (PCb KInl) OE; ECas 0 true; EReady 1 OL; ETouchL 1 false OL; EGot 1].
  eexists. split; [vm_compute; reflexivity|]. vm_compute. repeat split; auto.
Qed.
