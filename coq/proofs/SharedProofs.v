(* Invariant of the Shared transition system (model/Shared.v) and the facts the C06 theorems are made of.
   Everything is proved for every event sequence (schedule), every number of SharedFuture copies and callbacks, and
   every stored value.  The readiness rule is a parameter of the model; the invariant is proved for the rule
   "ready = (word == kResult)", and [ready_rule] (below) is the obligation that this is the rule found in the source. *)
From Coq Require Import List Arith Bool Lia.
Import ListNotations.
From YV Require Import gen.Gen_ready gen.Gen_shared_consts model.Shared.

(* ---- obligations on what the translators read from the source ------------------------------------------ *)

(* BaseCore::Empty() compares with kResult, Ready() is its negation: breaks when the source regresses (S1) *)
Lemma ready_rule : ready_rule_recognised = true /\ ready_is_result = true.
Proof. split; reflexivity. Qed.

(* three promise-side references, dropped by SetResultImpl as 1 + 2 (non-empty list) or 3 (empty list); the future of
   MakeSharedContract holds one more; the thresholds of Impl / Get&& / Touch&& *)
Lemma source_constants :
  kSharedRefNoFuture = 3 /\ kSharedRefWithFuture = 4 /\
  set_result_decrefs_before_last = 1 /\ set_result_decrefs_after_last = 2 /\ set_result_decrefs_empty_list = 3 /\
  impl_copy_when_ref_ge = 3 /\ impl_decref_when_ref_eq = 1 /\ get_move_when_ref_eq = 1 /\ touch_move_when_ref_eq = 1.
Proof. repeat split; reflexivity. Qed.

(* ---- lists ------------------------------------------------------------------------------------------------ *)

Lemma nth_upd {A} (l : list A) i j x :
  nth_error (upd l i x) j =
  if Nat.eqb i j then match nth_error l j with Some _ => Some x | None => None end else nth_error l j.
Proof.
  revert i j. induction l as [|a t IH]; intros i j; simpl.
  - destruct (Nat.eqb i j); destruct j; reflexivity.
  - destruct i, j; simpl; try reflexivity. apply IH.
Qed.

Lemma upd_length {A} (l : list A) i x : length (upd l i x) = length l.
Proof. revert i. induction l; intros [|i]; simpl; auto. Qed.

Lemma nth_app_one {A} (l : list A) x j :
  nth_error (l ++ [x]) j = if Nat.ltb j (length l) then nth_error l j else if Nat.eqb j (length l) then Some x else None.
Proof.
  revert j. induction l as [|a t IH]; intros j; simpl.
  - destruct j; simpl; [reflexivity|]. destruct j; reflexivity.
  - destruct j; simpl; [reflexivity|]. rewrite IH. reflexivity.
Qed.

Lemma nth_some_lt {A} (l : list A) i x : nth_error l i = Some x -> i < length l.
Proof. intros H. apply nth_error_Some. congruence. Qed.

Fixpoint count {A} (f : A -> bool) (l : list A) : nat :=
  match l with [] => 0 | a :: t => (if f a then 1 else 0) + count f t end.

Lemma count_app {A} (f : A -> bool) l1 l2 : count f (l1 ++ l2) = count f l1 + count f l2.
Proof. induction l1; simpl; lia. Qed.

Lemma count_upd {A} (f : A -> bool) l i old x :
  nth_error l i = Some old ->
  count f (upd l i x) + (if f old then 1 else 0) = count f l + (if f x then 1 else 0).
Proof.
  revert i. induction l as [|a t IH]; intros i H.
  - destruct i; discriminate.
  - destruct i; simpl in *.
    + inversion H; subst. lia.
    + specialize (IH _ H). lia.
Qed.

Lemma count_pos {A} (f : A -> bool) l i a : nth_error l i = Some a -> f a = true -> 1 <= count f l.
Proof.
  revert i. induction l as [|b t IH]; intros i H Hf.
  - destruct i; discriminate.
  - destruct i; simpl in *.
    + inversion H; subst. rewrite Hf. lia.
    + specialize (IH _ H Hf). lia.
Qed.

Lemma count_two {A} (f : A -> bool) l i j a b :
  nth_error l i = Some a -> nth_error l j = Some b -> i <> j -> f a = true -> f b = true -> 2 <= count f l.
Proof.
  revert i j. induction l as [|c t IH]; intros i j Hi Hj Hne Ha Hb.
  - destruct i; discriminate.
  - destruct i, j; simpl in *; try congruence.
    + inversion Hi; subst. rewrite Ha. pose proof (count_pos f t j b Hj Hb). lia.
    + inversion Hj; subst. rewrite Hb. pose proof (count_pos f t i a Hi Ha). lia.
    + assert (i <> j) by congruence. specialize (IH i j Hi Hj H Ha Hb). lia.
Qed.

Lemma count_zero {A} (f : A -> bool) l i a : count f l = 0 -> nth_error l i = Some a -> f a = false.
Proof.
  intros Hc Hn. destruct (f a) eqn:E; [|reflexivity].
  pose proof (count_pos f l i a Hn E). lia.
Qed.

Lemma Forall_app_one {A} (P : A -> Prop) l x : Forall P l -> P x -> Forall P (l ++ [x]).
Proof. intros. apply Forall_app. split; auto. Qed.

Lemma list_eqb_eq a : forall b, list_eqb a b = true -> a = b.
Proof.
  induction a as [|x a IH]; intros [|y b]; simpl; try discriminate; auto.
  intros H. apply andb_true_iff in H. destruct H as [H1 H2]. apply Nat.eqb_eq in H1. f_equal; auto.
Qed.

(* ---- the invariant ------------------------------------------------------------------------------------------ *)

Definition live (pc : hpc) : bool := negb (h_dead pc).
Definition held (e : cb) : bool := match cst e with CHeld | CRan => true | _ => false end.
Definition inl_pc (pc : hpc) : bool := match pc with HInl _ | HConnR => true | _ => false end.
Definition firing (x : cstate) : bool := match x with CFireF | CConn _ _ => true | _ => false end.

(* references held on the promise side: SetResultImpl drops one before the last callback and two at the end *)
Definition prom (f : fpc_t) : nat :=
  match f with
  | F0 | F1 | FWalk _ _ | FLastDec _ => 3
  | FLast _ | FD2 => 2
  | FD1 => 1
  | FDone => 0
  end.

(* callbacks that are registered and not yet reached by the fulfiller *)
Definition pend_of (x : word) (f : fpc_t) : list nat :=
  match x with
  | WStack l => l
  | WRes => match f with FWalk _ rest => rest | FLastDec (Some c) => [c] | _ => [] end
  end.
Definition pend (s : st) : list nat := pend_of (w s) (fpc s).

Definition cst_at (l : list cb) (c : nat) : option cstate :=
  match nth_error l c with Some e => Some (cst e) | None => None end.
Definition fir_at (l : list cb) (c : nat) : bool :=
  match nth_error l c with Some e => firing (cst e) | None => false end.

Definition is_cb_kind (k : kind) : bool := match k with KEvent => false | _ => true end.

Definition cb_ok (s : st) (c : nat) (e : cb) : Prop :=
  (cst e <> CQueued -> w s = WRes) /\
  match cst e with
  | CConn mv dc => ck e = KConn /\ dc = false /\ (mv = true -> refs s = 2 /\ fpc s = FLast c)
  | CHeld | CRan => ck e = KCall
  | CFireF => ck e <> KEvent
  | _ => True
  end /\
  match cst e with
  | CRan | CDone => if is_cb_kind (ck e) then cv e = [val s] /\ val s <> None else cv e = []
  | _ => cv e = []
  end.

Definition h_ok (s : st) (pc : hpc) : Prop :=
  match pc with
  | HRc | HRead | HOut false | HConnR => w s = WRes
  | HInl k => w s = WRes /\ k <> KEvent
  | HOut true => w s = WRes /\ refs s = 1
  | HSleep c _ => exists e, nth_error (cs s) c = Some e /\ ck e = KEvent
  | HAtt p _ => p <> PCb KEvent
  | _ => True
  end.

Definition spent_or_dead (pc : hpc) : Prop := pc = HSpent \/ pc = HDead.

Record Inv (s : st) : Prop := {
  I_refs : refs s = prom (fpc s) + count live (hs s) + count held (cs s);
  I_alive : alive s = negb (Nat.eqb (refs s) 0);
  I_frees : frees s = if alive s then 0 else 1;
  I_under : under s = 0;
  I_uaf : uaf s = 0;
  I_dying : dying s = true -> alive s = false;
  I_word : match fpc s with
           | F0 => slot s = Unset /\ val s = None /\ exists l, w s = WStack l
           | F1 => (exists r, slot s = SetV r /\ val s = Some r) /\ exists l, w s = WStack l
           | _ => w s = WRes /\ exists r, val s = Some r /\ (slot s = SetV r \/ slot s = Moved)
           end;
  I_nodup : NoDup (pend s);
  I_pend : forall c, In c (pend s) <-> cst_at (cs s) c = Some CQueued;
  I_walk : match fpc s with FWalk _ [] => False | _ => True end;
  I_cur : forall c, fir_at (cs s) c = true <-> cur s = Some c;
  I_cb : forall c e, nth_error (cs s) c = Some e -> cb_ok s c e;
  I_h : forall h pc, nth_error (hs s) h = Some pc -> h_ok s pc;
  I_moved : slot s = Moved ->
            (forall h pc, nth_error (hs s) h = Some pc -> spent_or_dead pc) /\
            (forall c e, nth_error (cs s) c = Some e -> cst e = CDone);
  I_gots : Forall (fun v => v = val s /\ v <> None) (gots s);
  I_iruns : Forall (fun v => v = val s /\ v <> None) (iruns s);
  I_readys : Forall (fun p => fst p = true -> snd p = true) (readys s);
  I_fail : nfail s = length (iruns s) + count inl_pc (hs s) + count cinl (cs s)
}.

Lemma inv_init wf : Inv (init wf).
Proof.
  assert (Hn : forall c, cst_at [] c = None) by (intros [|c]; reflexivity).
  assert (Hf : forall c, fir_at [] c = false) by (intros [|c]; reflexivity).
  destruct wf; constructor; simpl; auto; try reflexivity; try discriminate.
  all: try (split; [reflexivity|split; [reflexivity|eexists; reflexivity]]).
  all: try apply Forall_nil; try apply NoDup_nil.
  all: try (intros c; rewrite Hn; split; [intros []|discriminate]).
  all: try (intros c; rewrite Hf; split; discriminate).
  all: try (intros [|c] e H; discriminate).
  all: try (intros [|[|h]] pc H; simpl in H; inversion H; subst; simpl; auto).
Qed.
