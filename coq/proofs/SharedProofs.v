(* Invariant of the Shared transition system (model/Shared.v) and the facts the C06 theorems are made of.
   Everything is proved for every event sequence (schedule), every number of SharedFuture copies and callbacks, and
   every stored value.  The readiness rule is a parameter of the model; the invariant is proved for the rule
   "ready = (word == kResult)", and [ready_rule] (below) is the obligation that this is the rule found in the source. *)
From Coq Require Import List Arith Bool Lia.
Import ListNotations.
From YV Require Import gen.Gen_ready gen.Gen_shared_consts model.Shared.

(* ---- obligations on what the translators read from the source ------------------------------------------ *)

(* BaseCore::Empty() compares with kResult, Ready() is its negation: breaks when the source regresses (S1) *)
Lemma ready_rule : ready_rule_recognised = true /\ ready_is_result = true.
Proof. split; reflexivity. Qed.

(* three promise-side references, dropped by SetResultImpl as 1 + 2 (non-empty list) or 3 (empty list); the future of
   MakeSharedContract holds one more; the thresholds of Impl / Get&& / Touch&& *)
Lemma source_constants :
  kSharedRefNoFuture = 3 /\ kSharedRefWithFuture = 4 /\
  set_result_decrefs_before_last = 1 /\ set_result_decrefs_after_last = 2 /\ set_result_decrefs_empty_list = 3 /\
  impl_copy_when_ref_ge = 3 /\ impl_decref_when_ref_eq = 1 /\ get_move_when_ref_eq = 1 /\ touch_move_when_ref_eq = 1.
Proof. repeat split; reflexivity. Qed.

(* ---- lists ------------------------------------------------------------------------------------------------ *)

Lemma nth_upd {A} (l : list A) i j x :
  nth_error (upd l i x) j =
  if Nat.eqb i j then match nth_error l j with Some _ => Some x | None => None end else nth_error l j.
Proof.
  revert i j. induction l as [|a t IH]; intros i j; simpl.
  - destruct (Nat.eqb i j); destruct j; reflexivity.
  - destruct i, j; simpl; try reflexivity. apply IH.
Qed.

Lemma upd_length {A} (l : list A) i x : length (upd l i x) = length l.
Proof. revert i. induction l; intros [|i]; simpl; auto. Qed.

Lemma nth_app_one {A} (l : list A) x j :
  nth_error (l ++ [x]) j = if Nat.ltb j (length l) then nth_error l j else if Nat.eqb j (length l) then Some x else None.
Proof.
  revert j. induction l as [|a t IH]; intros j; simpl.
  - destruct j; simpl; [reflexivity|]. destruct j; reflexivity.
  - destruct j; simpl; [reflexivity|]. rewrite IH. reflexivity.
Qed.

Lemma nth_some_lt {A} (l : list A) i x : nth_error l i = Some x -> i < length l.
Proof. intros H. apply nth_error_Some. congruence. Qed.

Fixpoint count {A} (f : A -> bool) (l : list A) : nat :=
  match l with [] => 0 | a :: t => (if f a then 1 else 0) + count f t end.

Lemma count_app {A} (f : A -> bool) l1 l2 : count f (l1 ++ l2) = count f l1 + count f l2.
Proof. induction l1; simpl; lia. Qed.

Lemma count_upd {A} (f : A -> bool) l i old x :
  nth_error l i = Some old ->
  count f (upd l i x) + (if f old then 1 else 0) = count f l + (if f x then 1 else 0).
Proof.
  revert i. induction l as [|a t IH]; intros i H.
  - destruct i; discriminate.
  - destruct i; simpl in *.
    + inversion H; subst. lia.
    + specialize (IH _ H). lia.
Qed.

Lemma count_pos {A} (f : A -> bool) l i a : nth_error l i = Some a -> f a = true -> 1 <= count f l.
Proof.
  revert i. induction l as [|b t IH]; intros i H Hf.
  - destruct i; discriminate.
  - destruct i; simpl in *.
    + inversion H; subst. rewrite Hf. lia.
    + specialize (IH _ H Hf). lia.
Qed.

Lemma count_two {A} (f : A -> bool) l i j a b :
  nth_error l i = Some a -> nth_error l j = Some b -> i <> j -> f a = true -> f b = true -> 2 <= count f l.
Proof.
  revert i j. induction l as [|c t IH]; intros i j Hi Hj Hne Ha Hb.
  - destruct i; discriminate.
  - destruct i, j; simpl in *; try congruence.
    + inversion Hi; subst. rewrite Ha. pose proof (count_pos f t j b Hj Hb). lia.
    + inversion Hj; subst. rewrite Hb. pose proof (count_pos f t i a Hi Ha). lia.
    + assert (i <> j) by congruence. specialize (IH i j Hi Hj H Ha Hb). lia.
Qed.

Lemma count_zero {A} (f : A -> bool) l i a : count f l = 0 -> nth_error l i = Some a -> f a = false.
Proof.
  intros Hc Hn. destruct (f a) eqn:E; [|reflexivity].
  pose proof (count_pos f l i a Hn E). lia.
Qed.

Lemma Forall_app_one {A} (P : A -> Prop) l x : Forall P l -> P x -> Forall P (l ++ [x]).
Proof. intros. apply Forall_app. split; auto. Qed.

Lemma list_eqb_eq a : forall b, list_eqb a b = true -> a = b.
Proof.
  induction a as [|x a IH]; intros [|y b]; simpl; try discriminate; auto.
  intros H. apply andb_true_iff in H. destruct H as [H1 H2]. apply Nat.eqb_eq in H1. f_equal; auto.
Qed.

(* ---- the invariant ------------------------------------------------------------------------------------------ *)

Definition live (pc : hpc) : bool := negb (h_dead pc).
Definition held (e : cb) : bool := match cst e with CHeld | CRan => true | _ => false end.
Definition inl_pc (pc : hpc) : bool := match pc with HInl _ | HConnR => true | _ => false end.
Definition firing (x : cstate) : bool := match x with CFireF | CConn _ _ => true | _ => false end.

(* references held on the promise side: SetResultImpl drops one before the last callback and two at the end *)
Definition prom (f : fpc_t) : nat :=
  match f with
  | F0 | F1 | FWalk _ _ | FLastDec _ => 3
  | FLast _ | FD2 => 2
  | FD1 => 1
  | FDone => 0
  end.

(* callbacks that are registered and not yet reached by the fulfiller *)
Definition pend_of (x : word) (f : fpc_t) : list nat :=
  match x with
  | WStack l => l
  | WRes => match f with FWalk _ rest => rest | FLastDec (Some c) => [c] | _ => [] end
  end.
Definition pend (s : st) : list nat := pend_of (w s) (fpc s).

Definition cst_at (l : list cb) (c : nat) : option cstate :=
  match nth_error l c with Some e => Some (cst e) | None => None end.
Definition fir_at (l : list cb) (c : nat) : bool :=
  match nth_error l c with Some e => firing (cst e) | None => false end.

Definition is_cb_kind (k : kind) : bool := match k with KEvent => false | _ => true end.

Definition cb_ok (s : st) (c : nat) (e : cb) : Prop :=
  (cst e <> CQueued -> w s = WRes) /\
  match cst e with
  | CConn mv dc => ck e = KConn /\ dc = false /\ (mv = true -> refs s = 2 /\ fpc s = FLast c)
  | CHeld | CRan => ck e = KCall
  | CFireF => ck e <> KEvent
  | _ => True
  end /\
  match cst e with
  | CRan | CDone => if is_cb_kind (ck e) then cv e = [val s] /\ val s <> None else cv e = []
  | _ => cv e = []
  end.

Definition h_ok (s : st) (pc : hpc) : Prop :=
  match pc with
  | HRc | HRead | HOut false | HConnR => w s = WRes
  | HInl k => w s = WRes /\ k <> KEvent
  | HOut true => w s = WRes /\ refs s = 1
  | HSleep c _ => exists e, nth_error (cs s) c = Some e /\ ck e = KEvent
  | HAtt p _ => p <> PCb KEvent
  | _ => True
  end.

Definition spent_or_dead (pc : hpc) : Prop := pc = HSpent \/ pc = HDead.

Definition AcctI (s : st) : Prop :=
  refs s = prom (fpc s) + count live (hs s) + count held (cs s) /\
  alive s = negb (Nat.eqb (refs s) 0) /\
  frees s = (if alive s then 0 else 1) /\
  under s = 0 /\ uaf s = 0 /\ (dying s = true -> alive s = false).

Definition WordI (s : st) : Prop :=
  match fpc s with
  | F0 => slot s = Unset /\ val s = None /\ exists l, w s = WStack l
  | F1 => (exists r, slot s = SetV r /\ val s = Some r) /\ exists l, w s = WStack l
  | _ => w s = WRes /\ exists r, val s = Some r /\ (slot s = SetV r \/ slot s = Moved)
  end.

Definition PendI (s : st) : Prop :=
  NoDup (pend s) /\
  (forall c, In c (pend s) <-> cst_at (cs s) c = Some CQueued) /\
  match fpc s with FWalk _ [] => False | _ => True end /\
  (forall c, fir_at (cs s) c = true <-> cur s = Some c).

Definition CbI (s : st) : Prop := forall c e, nth_error (cs s) c = Some e -> cb_ok s c e.
Definition HI (s : st) : Prop := forall h pc, nth_error (hs s) h = Some pc -> h_ok s pc.
Definition MovedI (s : st) : Prop :=
  slot s = Moved ->
  (forall h pc, nth_error (hs s) h = Some pc -> spent_or_dead pc) /\
  (forall c e, nth_error (cs s) c = Some e -> cst e = CDone).
Definition good_val (s : st) (v : option nat) : Prop := v = val s /\ v <> None.
Definition LogI (s : st) : Prop :=
  Forall (good_val s) (gots s) /\ Forall (good_val s) (iruns s) /\
  Forall (fun p => fst p = true -> snd p = true) (readys s).
Definition FailI (s : st) : Prop := nfail s = length (iruns s) + count inl_pc (hs s) + count cinl (cs s).

Record Inv (s : st) : Prop := {
  I_acct : AcctI s; I_wordg : WordI s; I_pendg : PendI s; I_cb : CbI s; I_h : HI s; I_moved : MovedI s;
  I_log : LogI s; I_fail : FailI s
}.

Lemma I_refs s : Inv s -> refs s = prom (fpc s) + count live (hs s) + count held (cs s).
Proof. intros I. apply (I_acct s I). Qed.
Lemma I_alive s : Inv s -> alive s = negb (Nat.eqb (refs s) 0).
Proof. intros I. apply (I_acct s I). Qed.
Lemma I_word s : Inv s -> WordI s.
Proof. intros I. apply (I_wordg s I). Qed.
Lemma I_nodup s : Inv s -> NoDup (pend s).
Proof. intros I. apply (I_pendg s I). Qed.
Lemma I_pend s : Inv s -> forall c, In c (pend s) <-> cst_at (cs s) c = Some CQueued.
Proof. intros I. apply (I_pendg s I). Qed.
Lemma I_walk s : Inv s -> match fpc s with FWalk _ [] => False | _ => True end.
Proof. intros I. apply (I_pendg s I). Qed.
Lemma I_cur s : Inv s -> forall c, fir_at (cs s) c = true <-> cur s = Some c.
Proof. intros I. apply (I_pendg s I). Qed.

Lemma inv_init wf : Inv (init wf).
Proof.
  assert (Hn : forall c, cst_at [] c = None) by (intros [|c]; reflexivity).
  assert (Hf : forall c, fir_at [] c = false) by (intros [|c]; reflexivity).
  destruct wf; constructor.
  all: try (unfold AcctI; simpl; repeat split; auto; discriminate).
  all: try (unfold WordI; simpl; split; [reflexivity|split; [reflexivity|eexists; reflexivity]]).
  all: try (unfold PendI; simpl; split; [apply NoDup_nil|split; [|split; [exact Logic.I|]]];
            [intros c; rewrite Hn; split; [intros []|discriminate]|intros c; rewrite Hf; split; discriminate]).
  all: try (intros [|c] e H; discriminate).
  all: try (intros [|[|h]] pc H; simpl in H; inversion H; subst; simpl; auto; fail).
  all: try (intros H; discriminate).
  all: try (unfold LogI; simpl; repeat split; apply Forall_nil).
  all: try reflexivity.
Qed.


(* ---- updates of the callback table ----------------------------------------------------------------------------- *)

Definition with_cst (e : cb) (x : cstate) : cb := {| ck := ck e; cinl := cinl e; cst := x; cv := cv e |}.
Definition with_cv (e : cb) (x : cstate) (v : option nat) : cb :=
  {| ck := ck e; cinl := cinl e; cst := x; cv := cv e ++ [v] |}.

Lemma nth_set_cst l c x j :
  nth_error (set_cst l c x) j =
  match nth_error l j with Some e => Some (if Nat.eqb c j then with_cst e x else e) | None => None end.
Proof.
  unfold set_cst. destruct (nth_error l c) eqn:E.
  - rewrite nth_upd. destruct (Nat.eqb c j) eqn:Ej.
    + apply Nat.eqb_eq in Ej; subst. rewrite E. reflexivity.
    + destruct (nth_error l j); reflexivity.
  - destruct (Nat.eqb c j) eqn:Ej.
    + apply Nat.eqb_eq in Ej; subst. rewrite E. reflexivity.
    + destruct (nth_error l j); reflexivity.
Qed.

Lemma nth_add_cv l c x v j :
  nth_error (add_cv l c x v) j =
  match nth_error l j with Some e => Some (if Nat.eqb c j then with_cv e x v else e) | None => None end.
Proof.
  unfold add_cv. destruct (nth_error l c) eqn:E.
  - rewrite nth_upd. destruct (Nat.eqb c j) eqn:Ej.
    + apply Nat.eqb_eq in Ej; subst. rewrite E. reflexivity.
    + destruct (nth_error l j); reflexivity.
  - destruct (Nat.eqb c j) eqn:Ej.
    + apply Nat.eqb_eq in Ej; subst. rewrite E. reflexivity.
    + destruct (nth_error l j); reflexivity.
Qed.

Lemma count_set_cst f l c x e :
  nth_error l c = Some e ->
  count f (set_cst l c x) + (if f e then 1 else 0) = count f l + (if f (with_cst e x) then 1 else 0).
Proof. intros H. unfold set_cst. rewrite H. apply count_upd. exact H. Qed.

Lemma count_add_cv f l c x v e :
  nth_error l c = Some e ->
  count f (add_cv l c x v) + (if f e then 1 else 0) = count f l + (if f (with_cv e x v) then 1 else 0).
Proof. intros H. unfold add_cv. rewrite H. apply count_upd. exact H. Qed.

Lemma count_set_cst_none f l c x : nth_error l c = None -> count f (set_cst l c x) = count f l.
Proof. intros H. unfold set_cst. rewrite H. reflexivity. Qed.

Lemma count_cinl_set_cst l c x : count cinl (set_cst l c x) = count cinl l.
Proof.
  destruct (nth_error l c) eqn:E.
  - pose proof (count_set_cst cinl l c x c0 E) as H. simpl in H. lia.
  - apply count_set_cst_none. exact E.
Qed.

Lemma count_cinl_add_cv l c x v : count cinl (add_cv l c x v) = count cinl l.
Proof.
  destruct (nth_error l c) eqn:E.
  - pose proof (count_add_cv cinl l c x v c0 E) as H. simpl in H. lia.
  - unfold add_cv. rewrite E. reflexivity.
Qed.

Lemma is_event_set_cst l c x j : is_event (set_cst l c x) j = is_event l j.
Proof.
  unfold is_event, kind_at. rewrite nth_set_cst. destruct (nth_error l j); [|reflexivity].
  destruct (Nat.eqb c j); reflexivity.
Qed.

(* the events skipped by the walk *)
Definition mark (sk : list nat) (cbs : list cb) : list cb := fold_left (fun acc c => set_cst acc c CDone) sk cbs.
Definition memb (j : nat) (l : list nat) : bool := existsb (Nat.eqb j) l.

Lemma memb_In j l : memb j l = true <-> In j l.
Proof.
  unfold memb. rewrite existsb_exists. split.
  - intros [x [Hi He]]. apply Nat.eqb_eq in He. subst. exact Hi.
  - intros H. exists j. split; [exact H|apply Nat.eqb_refl].
Qed.

Lemma with_cst_idem e x : with_cst (with_cst e x) x = with_cst e x.
Proof. reflexivity. Qed.

Lemma nth_mark sk : forall l j,
  nth_error (mark sk l) j =
  match nth_error l j with Some e => Some (if memb j sk then with_cst e CDone else e) | None => None end.
Proof.
  induction sk as [|c sk IH]; intros l j; simpl.
  - destruct (nth_error l j); reflexivity.
  - unfold mark in *. simpl. rewrite IH. rewrite nth_set_cst. destruct (nth_error l j) as [e|]; [|reflexivity].
    unfold memb. simpl. rewrite (Nat.eqb_sym j c). destruct (Nat.eqb c j); simpl.
    + destruct (existsb (Nat.eqb j) sk); reflexivity.
    + reflexivity.
Qed.

Lemma is_event_mark sk : forall l j, is_event (mark sk l) j = is_event l j.
Proof.
  induction sk as [|c sk IH]; intros l j; simpl; [reflexivity|].
  unfold mark in *. simpl. rewrite IH. apply is_event_set_cst.
Qed.

Lemma count_cinl_mark sk : forall l, count cinl (mark sk l) = count cinl l.
Proof.
  induction sk as [|c sk IH]; intros l; simpl; [reflexivity|].
  unfold mark in *. simpl. rewrite IH. apply count_cinl_set_cst.
Qed.

Lemma count_held_set_cst_unheld l c x :
  (forall e, nth_error l c = Some e -> held e = false) -> held {| ck := KInl; cinl := false; cst := x; cv := [] |} = false ->
  count held (set_cst l c x) = count held l.
Proof.
  intros H Hx. destruct (nth_error l c) eqn:E.
  - pose proof (count_set_cst held l c x c0 E) as Hc. rewrite (H _ eq_refl) in Hc.
    assert (held (with_cst c0 x) = false) by (unfold held in *; simpl in *; exact Hx).
    rewrite H0 in Hc. lia.
  - apply count_set_cst_none. exact E.
Qed.

Lemma count_held_mark sk : forall l,
  (forall c e, In c sk -> nth_error l c = Some e -> held e = false) -> count held (mark sk l) = count held l.
Proof.
  induction sk as [|c sk IH]; intros l H; simpl; [reflexivity|].
  unfold mark in *. simpl. rewrite IH.
  - apply count_held_set_cst_unheld; [|reflexivity]. intros e He. apply (H c e); [left; reflexivity|exact He].
  - intros c' e' Hin Hn. rewrite nth_set_cst in Hn. destruct (nth_error l c') eqn:E; [|discriminate].
    inversion Hn; subst. destruct (Nat.eqb c c'); [reflexivity|]. apply (H c' c0); [right; exact Hin|exact E].
Qed.

Lemma mark_length sk : forall l, length (mark sk l) = length l.
Proof.
  induction sk as [|c sk IH]; intros l; simpl; [reflexivity|].
  unfold mark in *. simpl. rewrite IH. unfold set_cst. destruct (nth_error l c); [apply upd_length|reflexivity].
Qed.

(* what the walk does with what is left of the list *)
Lemma advance_spec l : forall cbs pc cbs', advance l cbs = (pc, cbs') ->
  exists sk,
    (forall c, In c sk -> is_event cbs c = true) /\
    ((l = [] /\ sk = [] /\ pc = FLastDec None /\ cbs' = cbs) \/
     (exists c, l = sk ++ [c] /\ pc = FLastDec (Some c) /\ cbs' = mark sk cbs) \/
     (exists c rest, rest <> [] /\ l = sk ++ c :: rest /\ pc = FWalk c rest /\ is_event cbs c = false /\
                     cbs' = set_cst (mark sk cbs) c CFireF)).
Proof.
  induction l as [|c l IH]; intros cbs pc cbs' H.
  - simpl in H. inversion H; subst. exists []. split; [intros ? []|]. left. auto.
  - destruct l as [|c2 r].
    + simpl in H. inversion H; subst. exists []. split; [intros ? []|]. right; left. exists c. auto.
    + simpl in H. destruct (is_event cbs c) eqn:Ev.
      * apply IH in H. destruct H as [sk [Hev Hc]]. exists (c :: sk). split.
        { intros x [Hx|Hx]; [subst; exact Ev|]. specialize (Hev x Hx). rewrite is_event_set_cst in Hev. exact Hev. }
        destruct Hc as [[Hl _]|[[c' [Hl [Hp Hm]]]|[c' [rest [Hr [Hl [Hp [He Hm]]]]]]]].
        { discriminate. }
        { right; left. exists c'. simpl. rewrite Hl. auto. }
        { right; right. exists c', rest. simpl. rewrite Hl. rewrite is_event_set_cst in He. auto. }
      * inversion H; subst. exists []. split; [intros ? []|]. right; right. exists c, (c2 :: r).
        repeat split; auto. discriminate.
Qed.

(* ---- small facts used everywhere ---------------------------------------------------------------------------------- *)

Ltac sf := unfold set_h, set_w, set_slot, set_val, set_refs, set_fpc, set_hs, set_cs, set_dying, set_under, set_uaf,
                  set_gots, set_iruns, set_nfail, set_readys, set_freed, inc, note_ready in *; simpl in *.

Lemma prom_zero f : prom f = 0 -> f = FDone.
Proof. destruct f; simpl; intros; try discriminate; reflexivity. Qed.

Lemma live_dead pc : live pc = false -> pc = HDead.
Proof. destruct pc; simpl; intros; try discriminate; reflexivity. Qed.

Lemma alive_refs s : Inv s -> alive s = true <-> 1 <= refs s.
Proof.
  intros I. rewrite (I_alive s I). destruct (refs s); simpl; split; intros; try discriminate; try lia; reflexivity.
Qed.

Lemma alive_h s h pc : Inv s -> nth_error (hs s) h = Some pc -> live pc = true -> alive s = true.
Proof.
  intros I Hn Hl. apply (alive_refs s I). rewrite (I_refs s I). pose proof (count_pos live _ _ _ Hn Hl). lia.
Qed.

Lemma alive_c s c e : Inv s -> nth_error (cs s) c = Some e -> held e = true -> alive s = true.
Proof.
  intros I Hn Hl. apply (alive_refs s I). rewrite (I_refs s I). pose proof (count_pos held _ _ _ Hn Hl). lia.
Qed.

Lemma alive_f s : Inv s -> fpc s <> FDone -> alive s = true.
Proof.
  intros I Hf. apply (alive_refs s I). rewrite (I_refs s I). destruct (fpc s); simpl; try lia. congruence.
Qed.

Lemma word_res s : Inv s -> w s = WRes -> exists r, val s = Some r /\ (slot s = SetV r \/ slot s = Moved).
Proof.
  intros I Hw. pose proof (I_word s I) as H. unfold WordI in H. destruct (fpc s); try (destruct H as [_ H]; exact H).
  - destruct H as [_ [_ [l Hl]]]. congruence.
  - destruct H as [_ [l Hl]]. congruence.
Qed.

(* a read of the slot by somebody who may still read *)
Lemma rd_ok s : Inv s -> alive s = true -> w s = WRes -> slot s <> Moved -> rd s = val s /\ val s <> None.
Proof.
  intros I Ha Hw Hm. destruct (word_res s I Hw) as [r [Hv [Hs|Hs]]]; [|congruence].
  unfold rd. rewrite Ha, Hs, Hv. split; [reflexivity|discriminate].
Qed.

Lemma not_moved_h s h pc : Inv s -> nth_error (hs s) h = Some pc -> pc <> HSpent -> pc <> HDead -> slot s <> Moved.
Proof.
  intros I Hn H1 H2 Hm. destruct (I_moved s I Hm) as [Hh _]. destruct (Hh _ _ Hn); congruence.
Qed.

Lemma not_moved_c s c e : Inv s -> nth_error (cs s) c = Some e -> cst e <> CDone -> slot s <> Moved.
Proof.
  intros I Hn H1 Hm. destruct (I_moved s I Hm) as [_ Hc]. specialize (Hc _ _ Hn). congruence.
Qed.

(* the state of a handle as its thread sees it: a sleeping waiter whose event was fired is awake *)
Lemma pc_of_ok s h pc : Inv s -> pc_of s h = Some pc -> pc <> HDead ->
  exists pc0, nth_error (hs s) h = Some pc0 /\ live pc0 = true /\ inl_pc pc0 = inl_pc pc /\ h_ok s pc /\
              (pc0 = pc \/ exists c k, pc0 = HSleep c k).
Proof.
  intros I H Hd. unfold pc_of in H. destruct (nth_error (hs s) h) as [pc0|] eqn:E; [|discriminate].
  assert (Hok0 : h_ok s pc0) by (apply (I_h s I h); exact E).
  destruct pc0 as [ | | |mv|p next|c kont|k| | | ];
    try (exfalso; inversion H; subst; apply Hd; reflexivity);
    try (inversion H; subst; eexists; split; [reflexivity|split; [reflexivity|split; [reflexivity|split; [exact Hok0|left; reflexivity]]]]; fail).
  destruct (nth_error (cs s) c) as [e|] eqn:Ec.
  - destruct (cst e) eqn:Est; try (inversion H; subst; eexists; repeat split; eauto; fail).
    inversion H; subst. exists (HSleep c kont). repeat split; auto.
    + destruct kont; reflexivity.
    + pose proof (I_cb s I c e Ec) as [Hw _]. assert (w s = WRes) by (apply Hw; congruence).
      destruct kont; simpl; auto.
    + right. eauto.
  - inversion H; subst. eexists; repeat split; eauto.
Qed.

Lemma h_ok_frame s s' pc :
  h_ok s pc ->
  (w s = WRes -> w s' = WRes) ->
  (pc = HOut true -> refs s' = refs s) ->
  (forall c e, nth_error (cs s) c = Some e -> exists e', nth_error (cs s') c = Some e' /\ ck e' = ck e) ->
  h_ok s' pc.
Proof.
  intros H Hw Hr Hc. destruct pc; simpl in *; auto.
  - destruct mv; [destruct H as [H1 H2]; split; [auto|rewrite Hr; auto]|auto].
  - destruct H as [e [He Hk]]. destruct (Hc _ _ He) as [e' [He' Hk']]. exists e'. split; congruence.
  - destruct H; split; auto.
Qed.

Lemma cb_ok_frame s s' c e :
  cb_ok s c e ->
  (w s = WRes -> w s' = WRes) ->
  (forall dc, cst e = CConn true dc -> refs s' = refs s /\ fpc s' = fpc s) ->
  val s' = val s ->
  cb_ok s' c e.
Proof.
  intros [H1 [H2 H3]] Hw Hr Hv. unfold cb_ok. split; [|split].
  - intros Hq. auto.
  - destruct (cst e) eqn:Ec; auto. destruct H2 as [Ha [Hb Hc]]. split; [exact Ha|split; [exact Hb|]].
    intros ->. destruct (Hr _ eq_refl) as [R1 R2]. destruct (Hc eq_refl) as [C1 C2]. rewrite R1, R2. auto.
  - rewrite Hv. exact H3.
Qed.

(* nobody is in the middle of a move decision: true whenever somebody else is about to change the counter *)
Definition no_excl (s : st) : Prop :=
  (forall h, nth_error (hs s) h <> Some (HOut true)) /\
  (forall c e dc, nth_error (cs s) c = Some e -> cst e <> CConn true dc).

Lemma excl_out s h : Inv s -> nth_error (hs s) h = Some (HOut true) ->
  fpc s = FDone /\ count live (hs s) = 1 /\ count held (cs s) = 0.
Proof.
  intros I Hn. pose proof (I_h s I _ _ Hn) as [_ Hr]. pose proof (I_refs s I) as R.
  pose proof (count_pos live _ _ _ Hn eq_refl). assert (prom (fpc s) = 0) by lia.
  split; [apply prom_zero; assumption|lia].
Qed.

Lemma excl_conn s c e dc : Inv s -> nth_error (cs s) c = Some e -> cst e = CConn true dc ->
  fpc s = FLast c /\ count live (hs s) = 0 /\ count held (cs s) = 0.
Proof.
  intros I Hn Hc. pose proof (I_cb s I _ _ Hn) as [_ [H2 _]]. rewrite Hc in H2. destruct H2 as [_ [_ H2]].
  destruct (H2 eq_refl) as [Hr Hf]. pose proof (I_refs s I) as R. rewrite Hf in R. simpl in R. split; [assumption|lia].
Qed.

Lemma no_excl_h s h pc0 : Inv s -> nth_error (hs s) h = Some pc0 -> live pc0 = true -> pc0 <> HOut true -> no_excl s.
Proof.
  intros I Hn Hl Hne. split.
  - intros h' Hh'. destruct (excl_out s h' I Hh') as [_ [Hc _]].
    assert (h <> h') by (intros ->; congruence).
    pose proof (count_two live _ _ _ _ _ Hn Hh' H Hl eq_refl). lia.
  - intros c e dc Hc He. destruct (excl_conn s c e dc I Hc He) as [_ [Hz _]].
    pose proof (count_pos live _ _ _ Hn Hl). lia.
Qed.

Lemma no_excl_c s c e : Inv s -> nth_error (cs s) c = Some e -> held e = true -> no_excl s.
Proof.
  intros I Hn Hl. split.
  - intros h' Hh'. destruct (excl_out s h' I Hh') as [_ [_ Hc]]. pose proof (count_pos held _ _ _ Hn Hl). lia.
  - intros c' e' dc Hc He. destruct (excl_conn s c' e' dc I Hc He) as [_ [_ Hz]].
    pose proof (count_pos held _ _ _ Hn Hl). lia.
Qed.

Lemma no_excl_f s : Inv s -> fpc s <> FDone -> (forall c, fpc s <> FLast c) -> no_excl s.
Proof.
  intros I Hd Hl. split.
  - intros h' Hh'. destruct (excl_out s h' I Hh') as [Hf _]. congruence.
  - intros c' e' dc Hc He. destruct (excl_conn s c' e' dc I Hc He) as [Hf _]. apply (Hl c'). exact Hf.
Qed.

(* ---- preservation: steps of a handle that change nothing but its own state and the logs -------------------------- *)

Definition local_upd (h : nat) (pc' : hpc) g i n r (s : st) : st :=
  set_h h pc' (set_gots g (set_iruns i (set_nfail n (set_readys r s)))).

Lemma inv_local s h pc0 pc' g i n r :
  Inv s -> nth_error (hs s) h = Some pc0 -> live pc0 = true -> live pc' = true ->
  h_ok s pc' ->
  (slot s = Moved -> spent_or_dead pc') ->
  Forall (good_val s) g -> Forall (good_val s) i ->
  Forall (fun p => fst p = true -> snd p = true) r ->
  n + (if inl_pc pc0 then 1 else 0) + length (iruns s) = nfail s + (if inl_pc pc' then 1 else 0) + length i ->
  Inv (local_upd h pc' g i n r s).
Proof.
  intros I Hn Hl Hl' Hok Hm Hg Hi Hr Hf. unfold local_upd. constructor.
  - destruct (I_acct s I) as [A1 A2]. unfold AcctI. sf. split; [|exact A2].
    pose proof (count_upd live _ _ _ pc' Hn) as C. rewrite Hl, Hl' in C. lia.
  - exact (I_wordg s I).
  - exact (I_pendg s I).
  - intros c e Hc. sf. eapply cb_ok_frame; [apply (I_cb s I); exact Hc|auto|auto|auto].
  - intros h' pc'' Hh. sf. rewrite nth_upd in Hh. destruct (Nat.eqb h h') eqn:E.
    + rewrite Nat.eqb_eq in E. subst h'. rewrite Hn in Hh. inversion Hh; subst.
      eapply h_ok_frame; [exact Hok|auto|auto|intros; eauto].
    + eapply h_ok_frame; [apply (I_h s I h'); exact Hh|auto|auto|intros; eauto].
  - intros Hmv. sf. destruct (I_moved s I Hmv) as [M1 M2]. split; [|exact M2].
    intros h' pc'' Hh. rewrite nth_upd in Hh. destruct (Nat.eqb h h') eqn:E.
    + rewrite Nat.eqb_eq in E. subst h'. rewrite Hn in Hh. inversion Hh; subst. auto.
    + eapply M1; eauto.
  - unfold LogI. sf. auto.
  - unfold FailI. sf. pose proof (count_upd inl_pc _ _ _ pc' Hn) as C. pose proof (I_fail s I) as F. unfold FailI in F. lia.
Qed.

Lemma touch_alive s : alive s = true -> touch s = s.
Proof. intros H. unfold touch. rewrite H. reflexivity. Qed.

Lemma ready_sound_now s : Inv s -> alive s = true -> slot s <> Moved ->
  ready_of true (w s) = true -> is_some (rd s) = true.
Proof.
  intros I Ha Hm Hr. simpl in Hr. destruct (w s) eqn:Hw; [discriminate|].
  destruct (rd_ok s I Ha Hw Hm) as [R1 R2]. rewrite R1. destruct (val s); [reflexivity|congruence].
Qed.

Lemma ready_res s : ready_of true (w s) = true -> w s = WRes.
Proof. simpl. destruct (w s); [discriminate|reflexivity]. Qed.

Ltac eq_st := match goal with s : st |- _ => destruct s; reflexivity end.

Ltac use_pc I Hpc :=
  let pc0 := fresh "pc0" in let Hn := fresh "Hn" in let Hl := fresh "Hl" in let Hinl := fresh "Hinl" in
  let Hok := fresh "Hok" in let Hor := fresh "Hor" in
  destruct (pc_of_ok _ _ _ I Hpc ltac:(discriminate)) as [pc0 [Hn [Hl [Hinl [Hok Hor]]]]].

Lemma not_moved_pc s h pc pc0 : Inv s -> nth_error (hs s) h = Some pc0 ->
  (pc0 = pc \/ exists c k, pc0 = HSleep c k) -> pc <> HSpent -> pc <> HDead -> slot s <> Moved.
Proof.
  intros I Hn Hor H1 H2. eapply not_moved_h; [exact I|exact Hn| |].
  - destruct Hor as [->|[c [k ->]]]; [exact H1|discriminate].
  - destruct Hor as [->|[c [k ->]]]; [exact H2|discriminate].
Qed.

Ltac log_g I := apply (proj1 (I_log _ I)).
Ltac log_i I := apply (proj1 (proj2 (I_log _ I))).
Ltac log_r I := apply (proj2 (proj2 (I_log _ I))).
Ltac nomv := let H := fresh in intros H; exfalso; congruence.

Lemma attach_failed_inv s h p pc0 s' :
  Inv s -> alive s = true -> nth_error (hs s) h = Some pc0 -> live pc0 = true -> inl_pc pc0 = false ->
  slot s <> Moved -> w s = WRes -> attach_failed h p s = Some s' -> Inv s'.
Proof.
  intros I Ha Hn Hl Hinl Hm Hw H. unfold attach_failed in H. destruct p as [k|k].
  - assert (Hk : k <> KEvent) by (intros ->; discriminate).
    assert (s' = local_upd h (HInl k) (gots s) (iruns s) (S (nfail s)) (readys s) s).
    { destruct k; try congruence; inversion H; subst; eq_st. }
    subst s'. apply (inv_local s h pc0 _ _ _ _ _ I Hn Hl);
      [reflexivity|simpl; auto|nomv|log_g I|log_i I|log_r I|rewrite Hinl; simpl; lia].
  - inversion H; subst; clear H.
    replace (set_h h (after_wait k) s) with (local_upd h (after_wait k) (gots s) (iruns s) (nfail s) (readys s) s) by eq_st.
    apply (inv_local s h pc0 _ _ _ _ _ I Hn Hl);
      [destruct k; reflexivity|destruct k; simpl; auto|nomv|log_g I|log_i I|log_r I|rewrite Hinl; destruct k; simpl; lia].
Qed.

Lemma attach_loaded_inv s h p pc0 s' :
  Inv s -> alive s = true -> nth_error (hs s) h = Some pc0 -> live pc0 = true -> inl_pc pc0 = false ->
  slot s <> Moved -> attach_loaded h p s = Some s' -> Inv s'.
Proof.
  intros I Ha Hn Hl Hinl Hm H. unfold attach_loaded in H.
  assert (Hp : p <> PCb KEvent) by (intros ->; discriminate).
  assert (H' : match w s with WRes => attach_failed h p s | WStack l => Some (set_h h (HAtt p l) s) end = Some s').
  { destruct p as [[]|]; try exact H. congruence. }
  clear H. destruct (w s) eqn:Hw.
  - inversion H'; subst; clear H'.
    replace (set_h h (HAtt p l) s) with (local_upd h (HAtt p l) (gots s) (iruns s) (nfail s) (readys s) s) by eq_st.
    apply (inv_local s h pc0 _ _ _ _ _ I Hn Hl);
      [reflexivity|simpl; auto|nomv|log_g I|log_i I|log_r I|rewrite Hinl; simpl; lia].
  - eapply attach_failed_inv; eauto.
Qed.

Lemma inv_step_h_local s e s' :
  Inv s -> alive s = true ->
  match e with
  | EReady _ _ | EAwaitL _ _ | ETouchL _ _ _ | ERcH _ _ | EAttL _ _ _ | ELdA _ _ | ECbInl _ | EConnL _ _ => True
  | _ => False
  end ->
  step_h true s e = Some s' -> Inv s'.
Proof.
  intros I Ha He H. destruct e; try contradiction; simpl in H.
  - (* EReady *)
    destruct (pc_of s h) as [[]|] eqn:Hpc; try discriminate. destruct (obs_ok v (w s)); [|discriminate].
    inversion H; subst; clear H. use_pc I Hpc.
    assert (Hm : slot s <> Moved) by (eapply not_moved_pc; eauto; discriminate).
    replace (set_h h H0 (note_ready true s))
      with (local_upd h H0 (gots s) (iruns s) (nfail s) (readys s ++ [(ready_of true (w s), is_some (rd s))]) s) by eq_st.
    apply (inv_local s h pc0 _ _ _ _ _ I Hn Hl);
      [reflexivity|simpl; auto|nomv|log_g I|log_i I| |rewrite Hinl; simpl; lia].
    apply Forall_app_one; [log_r I|]. intros Hr. apply ready_sound_now; auto.
  - (* EAwaitL *)
    destruct (pc_of s h) as [[]|] eqn:Hpc; try discriminate. destruct (obs_ok v (w s)); [|discriminate].
    use_pc I Hpc.
    assert (Hm : slot s <> Moved) by (eapply not_moved_pc; eauto; discriminate).
    assert (Hr : ready_of true (w s) = true -> is_some (rd s) = true) by (apply ready_sound_now; auto).
    assert (Hx : exists pc', s' = local_upd h pc' (gots s) (iruns s) (nfail s)
                                   (readys s ++ [(ready_of true (w s), is_some (rd s))]) s /\
                             (pc' = H0 \/ (pc' = HRead /\ w s = WRes))).
    { destruct (w s) eqn:Hw; inversion H; subst; clear H.
      - exists H0. split; [destruct s; simpl in *; subst; reflexivity|left; reflexivity].
      - exists HRead. split; [destruct s; simpl in *; subst; reflexivity|right; auto]. }
    clear H. destruct Hx as [pc' [-> Hp]].
    apply (inv_local s h pc0 _ _ _ _ _ I Hn Hl);
      [destruct Hp as [->|[-> _]]; reflexivity|destruct Hp as [->|[-> Hw]]; simpl; auto|nomv|log_g I|log_i I| |
       rewrite Hinl; destruct Hp as [->|[-> _]]; simpl; lia].
    apply Forall_app_one; [log_r I|]. exact Hr.
  - (* ETouchL *)
    destruct (pc_of s h) as [[]|] eqn:Hpc; try discriminate.
    destruct (obs_ok v (w s) && ready_of true (w s)) eqn:Eb; [|discriminate].
    apply andb_true_iff in Eb. destruct Eb as [_ Er]. apply ready_res in Er.
    inversion H; subst; clear H. use_pc I Hpc.
    assert (Hm : slot s <> Moved) by (eapply not_moved_pc; eauto; discriminate).
    replace (set_h h (if mv then HRc else HRead) s)
      with (local_upd h (if mv then HRc else HRead) (gots s) (iruns s) (nfail s) (readys s) s) by eq_st.
    apply (inv_local s h pc0 _ _ _ _ _ I Hn Hl);
      [destruct mv; reflexivity|destruct mv; exact Er|nomv|log_g I|log_i I|log_r I|rewrite Hinl; destruct mv; simpl; lia].
  - (* ERcH *)
    destruct (pc_of s h) as [[]|] eqn:Hpc; try discriminate.
    destruct (Nat.eqb n (refs s)) eqn:En; [|discriminate]. apply Nat.eqb_eq in En.
    inversion H; subst; clear H. use_pc I Hpc.
    assert (Hm : slot s <> Moved) by (eapply not_moved_pc; eauto; discriminate).
    replace (set_h h (HOut (Nat.eqb (refs s) get_move_when_ref_eq)) s)
      with (local_upd h (HOut (Nat.eqb (refs s) get_move_when_ref_eq)) (gots s) (iruns s) (nfail s) (readys s) s) by eq_st.
    apply (inv_local s h pc0 _ _ _ _ _ I Hn Hl);
      [reflexivity| |nomv|log_g I|log_i I|log_r I|rewrite Hinl; simpl; lia].
    simpl in Hok. destruct (Nat.eqb (refs s) get_move_when_ref_eq) eqn:E1; simpl; auto.
    apply Nat.eqb_eq in E1. split; auto.
  - (* EAttL *)
    destruct (pc_of s h) as [[]|] eqn:Hpc; try discriminate. destruct (obs_ok v (w s)); [|discriminate].
    use_pc I Hpc.
    assert (Hm : slot s <> Moved) by (eapply not_moved_pc; eauto; discriminate).
    eapply attach_loaded_inv; eauto.
  - (* ELdA *)
    destruct (pc_of s h) as [[]|] eqn:Hpc; try discriminate. destruct (obs_ok v (w s)); [|discriminate].
    use_pc I Hpc.
    assert (Hm : slot s <> Moved) by (eapply not_moved_pc; eauto; discriminate).
    eapply attach_loaded_inv; eauto.
  - (* ECbInl *)
    assert (Hx : exists pc, pc_of s h = Some pc /\ (pc = HInl KInl \/ pc = HConnR) /\
                 s' = set_h h H0 (set_iruns (iruns s ++ [rd s]) s)).
    { destruct (pc_of s h) as [[]|] eqn:Hpc; try discriminate.
      - destruct k; try discriminate. inversion H; subst. eexists; split; [reflexivity|split; [left; reflexivity|reflexivity]].
      - inversion H; subst. eexists; split; [reflexivity|split; [right; reflexivity|reflexivity]]. }
    clear H. destruct Hx as [pc [Hpc [Hk ->]]].
    assert (Hd : pc <> HDead) by (destruct Hk; subst; discriminate).
    destruct (pc_of_ok _ _ _ I Hpc Hd) as [pc0 [Hn [Hl [Hinl [Hok Hor]]]]].
    assert (Hm : slot s <> Moved) by (eapply not_moved_pc; eauto; destruct Hk; subst; discriminate).
    assert (Hw : w s = WRes) by (destruct Hk; subst; simpl in Hok; tauto).
    destruct (rd_ok s I Ha Hw Hm) as [R1 R2].
    replace (set_h h H0 (set_iruns (iruns s ++ [rd s]) s))
      with (local_upd h H0 (gots s) (iruns s ++ [rd s]) (nfail s) (readys s) s) by eq_st.
    apply (inv_local s h pc0 _ _ _ _ _ I Hn Hl);
      [reflexivity|exact Logic.I|nomv|log_g I| |log_r I|].
    + apply Forall_app_one; [log_i I|]. split; congruence.
    + rewrite Hinl. rewrite app_length. destruct Hk; subst; simpl; lia.
  - (* EConnL *)
    destruct (pc_of s h) as [[]|] eqn:Hpc; try discriminate. destruct k; try discriminate.
    destruct (obs_ok v (w s) && ready_of true (w s)) eqn:Eb; [|discriminate].
    inversion H; subst; clear H. use_pc I Hpc.
    assert (Hm : slot s <> Moved) by (eapply not_moved_pc; eauto; discriminate).
    replace (set_h h HConnR s) with (local_upd h HConnR (gots s) (iruns s) (nfail s) (readys s) s) by eq_st.
    apply (inv_local s h pc0 _ _ _ _ _ I Hn Hl);
      [reflexivity|simpl in Hok; simpl; tauto|nomv|log_g I|log_i I|log_r I|rewrite Hinl; simpl; lia].
Qed.

(* ---- DecRef / IncRef ------------------------------------------------------------------------------------------------ *)

Lemma dec_w s : w (dec s) = w s. Proof. unfold dec. destruct (refs s) as [|n]; [reflexivity|destruct (Nat.eqb n 0); reflexivity]. Qed.
Lemma dec_slot s : slot (dec s) = slot s. Proof. unfold dec. destruct (refs s) as [|n]; [reflexivity|destruct (Nat.eqb n 0); reflexivity]. Qed.
Lemma dec_val s : val (dec s) = val s. Proof. unfold dec. destruct (refs s) as [|n]; [reflexivity|destruct (Nat.eqb n 0); reflexivity]. Qed.
Lemma dec_fpc s : fpc (dec s) = fpc s. Proof. unfold dec. destruct (refs s) as [|n]; [reflexivity|destruct (Nat.eqb n 0); reflexivity]. Qed.
Lemma dec_hs s : hs (dec s) = hs s. Proof. unfold dec. destruct (refs s) as [|n]; [reflexivity|destruct (Nat.eqb n 0); reflexivity]. Qed.
Lemma dec_cs s : cs (dec s) = cs s. Proof. unfold dec. destruct (refs s) as [|n]; [reflexivity|destruct (Nat.eqb n 0); reflexivity]. Qed.
Lemma dec_gots s : gots (dec s) = gots s. Proof. unfold dec. destruct (refs s) as [|n]; [reflexivity|destruct (Nat.eqb n 0); reflexivity]. Qed.
Lemma dec_iruns s : iruns (dec s) = iruns s. Proof. unfold dec. destruct (refs s) as [|n]; [reflexivity|destruct (Nat.eqb n 0); reflexivity]. Qed.
Lemma dec_nfail s : nfail (dec s) = nfail s. Proof. unfold dec. destruct (refs s) as [|n]; [reflexivity|destruct (Nat.eqb n 0); reflexivity]. Qed.
Lemma dec_readys s : readys (dec s) = readys s. Proof. unfold dec. destruct (refs s) as [|n]; [reflexivity|destruct (Nat.eqb n 0); reflexivity]. Qed.
Lemma dec_refs s : refs (dec s) = refs s - 1.
Proof. unfold dec. destruct (refs s) as [|n] eqn:E; [simpl; rewrite E; reflexivity|destruct (Nat.eqb n 0); simpl; lia]. Qed.

Ltac decp := rewrite ?dec_w, ?dec_slot, ?dec_val, ?dec_fpc, ?dec_hs, ?dec_cs, ?dec_gots, ?dec_iruns, ?dec_nfail,
                     ?dec_readys, ?dec_refs in *.

(* the accounting after a DecRef by somebody who held a reference *)
Lemma acct_dec s f' hs' cs' :
  AcctI s -> alive s = true ->
  refs s = S (prom f' + count live hs' + count held cs') ->
  AcctI (set_fpc f' (set_hs hs' (set_cs cs' (dec s)))).
Proof.
  intros [A1 [A2 [A3 [A4 [A5 A6]]]]] Ha Hr. unfold AcctI, dec. rewrite Hr.
  remember (prom f' + count live hs' + count held cs') as n.
  rewrite Ha in A3. destruct (Nat.eqb n 0) eqn:E; sf.
  - apply Nat.eqb_eq in E. repeat split; auto; try lia. rewrite E. reflexivity.
  - apply Nat.eqb_neq in E. repeat split; auto; try lia.
    + rewrite Ha. destruct n; [lia|reflexivity].
    + rewrite Ha. exact A3.
Qed.

Lemma acct_inc s f' hs' cs' :
  AcctI s -> alive s = true ->
  S (refs s) = prom f' + count live hs' + count held cs' ->
  AcctI (set_fpc f' (set_hs hs' (set_cs cs' (inc s)))).
Proof.
  intros [A1 [A2 [A3 [A4 [A5 A6]]]]] Ha Hr. unfold AcctI. sf. repeat split; auto.
Qed.

Lemma acct_same s f' hs' cs' :
  AcctI s -> prom (fpc s) + count live (hs s) + count held (cs s) = prom f' + count live hs' + count held cs' ->
  AcctI (set_fpc f' (set_hs hs' (set_cs cs' s))).
Proof.
  intros [A1 [A2 [A3 [A4 [A5 A6]]]]] Hr. unfold AcctI. sf. repeat split; auto. lia.
Qed.

(* everything that is not registered, not being fired and holds no reference is done *)
Lemma done_unless s c e : Inv s -> nth_error (cs s) c = Some e ->
  ~ In c (pend s) -> cur s <> Some c -> held e = false -> cst e = CDone.
Proof.
  intros I Hn Hp Hc Hh. destruct (cst e) eqn:E; auto.
  - exfalso. apply Hp. apply (I_pend s I). unfold cst_at. rewrite Hn, E. reflexivity.
  - exfalso. apply Hc. apply (I_cur s I). unfold fir_at. rewrite Hn, E. reflexivity.
  - exfalso. apply Hc. apply (I_cur s I). unfold fir_at. rewrite Hn, E. reflexivity.
  - unfold held in Hh. rewrite E in Hh. discriminate.
  - unfold held in Hh. rewrite E in Hh. discriminate.
Qed.

Lemma pend_lt s c : Inv s -> In c (pend s) -> c < length (cs s).
Proof.
  intros I H. apply (I_pend s I) in H. unfold cst_at in H. destruct (nth_error (cs s) c) eqn:E; [|discriminate].
  eapply nth_some_lt; eauto.
Qed.
