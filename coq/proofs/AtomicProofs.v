(* C19 — proofs: the generated fiber atomics (Gen_fiber_atomic.v) and the wrapper around them / around
   std::atomic compute what the std contract (AtomicStd.v) says, operation by operation and for every sequence.

   Structure
     1. facts about the vocabulary semantics (AtomicCSem.v) for the integer types: conversions are the identity
        on representable values, the result of  (T)(a op b)  for every way the sources spell it
        (plain T arithmetic with promotion, T op int literal, arithmetic in the unsigned counterpart);
     2. [agrees]: an implementation agrees with the std contract of a kind, pointwise on representable values;
        the fiber implementation of every kind agrees  (by symbolic execution of the generated bodies);
     3. the wrapper is transparent: wrapped over anything that agrees, it agrees (both backends follow);
     4. sequences, spurious failure, strong compare_exchange, memory orders, fences, constructor. *)
From Coq Require Import ZArith List Bool Lia Znumtheory.
Import ListNotations.
Open Scope Z_scope.
From YV Require Import model.AtomicCSem model.AtomicStd gen.Gen_fiber_atomic model.AtomicObs.

(* ------------------------------------------------------------------------------------------------ 1. arithmetic *)

Lemma int_width_cases w : int_width w = true -> w = 8 \/ w = 16 \/ w = 32 \/ w = 64.
Proof. unfold int_width. rewrite !orb_true_iff, !Z.eqb_eq. tauto. Qed.

Ltac widths H := apply int_width_cases in H; destruct H as [H | [H | [H | H]]]; subst.

Ltac bools :=
  repeat match goal with
  | H : _ && _ = true |- _ => apply andb_true_iff in H; destruct H
  | H : _ || _ = true |- _ => apply orb_true_iff in H; destruct H
  | H : (_ <=? _) = true |- _ => apply Z.leb_le in H
  | H : (_ <? _) = true |- _ => apply Z.ltb_lt in H
  | H : (_ =? _) = true |- _ => apply Z.eqb_eq in H
  | H : negb _ = true |- _ => apply negb_true_iff in H
  | H : (_ <=? _) = false |- _ => apply Z.leb_gt in H
  | H : (_ <? _) = false |- _ => apply Z.ltb_ge in H
  end.

(* decide every remaining comparison, then linear arithmetic with div/mod *)
Ltac cmps :=
  repeat match goal with
  | |- context [?a <=? ?b] => destruct (Z.leb_spec a b)
  | |- context [?a <? ?b] => destruct (Z.ltb_spec a b)
  end.

Ltac zsolve := unfold norm, in_int in *; cbn in *; bools; cmps; cbn; try reflexivity; Z.div_mod_to_equations; lia.

Lemma norm_id w sg x : int_width w = true -> in_int w sg x = true -> norm w sg x = x.
Proof. intros Hw Hx. widths Hw; destruct sg; zsolve. Qed.

Lemma norm_in w sg x : int_width w = true -> in_int w sg (norm w sg x) = true.
Proof.
  intros Hw. widths Hw; destruct sg; unfold norm, in_int; cbn;
    cmps; cbn; rewrite ?andb_true_iff, ?Z.leb_le, ?Z.ltb_lt; Z.div_mod_to_equations; lia.
Qed.

(* normalisation only looks at the residue *)
Lemma norm_mod w sg x y : x mod 2 ^ w = y mod 2 ^ w -> norm w sg x = norm w sg y.
Proof. intros H. unfold norm. rewrite H. reflexivity. Qed.

Lemma pow2_divide w w' : 0 <= w <= w' -> (2 ^ w | 2 ^ w').
Proof. intros H. exists (2 ^ (w' - w)). rewrite <- Z.pow_add_r by lia. f_equal. lia. Qed.

Lemma norm_res w sg x : 0 < w -> (norm w sg x) mod 2 ^ w = x mod 2 ^ w.
Proof.
  intros Hw. unfold norm.
  assert (0 < 2 ^ w) by (apply Z.pow_pos_nonneg; lia).
  destruct (sg && (2 ^ (w - 1) <=? x mod 2 ^ w)).
  - replace (x mod 2 ^ w - 2 ^ w) with (x mod 2 ^ w + (-1) * 2 ^ w) by lia.
    rewrite Z.mod_add by lia. apply Z.mod_mod. lia.
  - apply Z.mod_mod. lia.
Qed.

(* converting through a wider (or equal) integer type first does not matter *)
Lemma norm_norm w sg w' sg' x : 0 < w <= w' -> norm w sg (norm w' sg' x) = norm w sg x.
Proof.
  intros H. apply norm_mod.
  assert (0 < 2 ^ w) by (apply Z.pow_pos_nonneg; lia).
  assert (0 < 2 ^ w') by (apply Z.pow_pos_nonneg; lia).
  rewrite (Zmod_div_mod (2 ^ w) (2 ^ w') (norm w' sg' x)); try lia; [|apply pow2_divide; lia].
  rewrite norm_res by lia.
  rewrite <- Zmod_div_mod; try lia. apply pow2_divide; lia.
Qed.

Lemma norm_raw_l w sg sg' op x y : 0 < w -> is_arith op = true ->
  norm w sg (raw op (norm w sg' x) y) = norm w sg (raw op x y).
Proof.
  intros Hw Ha. apply norm_mod. destruct op; try discriminate; cbn.
  - rewrite Zplus_mod, norm_res, <- Zplus_mod by lia. reflexivity.
  - rewrite Zminus_mod, norm_res, <- Zminus_mod by lia. reflexivity.
Qed.

Lemma norm_raw_r w sg sg' op x y : 0 < w -> is_arith op = true ->
  norm w sg (raw op x (norm w sg' y)) = norm w sg (raw op x y).
Proof.
  intros Hw Ha. apply norm_mod. destruct op; try discriminate; cbn.
  - rewrite Zplus_mod, norm_res, <- Zplus_mod by lia. reflexivity.
  - rewrite Zminus_mod, norm_res, <- Zminus_mod by lia. reflexivity.
Qed.

Lemma width_pos w : int_width w = true -> 0 < w.
Proof. intros H. widths H; lia. Qed.

(* values of a narrow type are values of int; values of any type are 64-bit residues *)
Lemma in_int_promote w sg x : int_width w = true -> w < 32 -> in_int w sg x = true -> in_int 32 true x = true.
Proof. intros Hw Hlt Hx. widths Hw; try lia; destruct sg; unfold in_int in *; cbn in *; bools; rewrite andb_true_iff, Z.leb_le, Z.ltb_lt; lia. Qed.

Lemma promote_narrow w sg : w < 32 -> promote (CInt w sg) = CInt 32 true.
Proof. intros. unfold promote, int_t. destruct (Z.ltb_spec w 32); [reflexivity | lia]. Qed.
Lemma promote_wide w sg : 32 <= w -> promote (CInt w sg) = CInt w sg.
Proof. intros. unfold promote. destruct (Z.ltb_spec w 32); [lia | reflexivity]. Qed.
Lemma common_same w sg : common (CInt w sg) (CInt w sg) = CInt w sg.
Proof. cbn. rewrite eqb_reflx, Z.max_id. reflexivity. Qed.
Lemma common_s_int w : 32 <= w -> common (CInt w true) (CInt 32 true) = CInt w true.
Proof. intros. cbn. replace (Z.max w 32) with w by lia. reflexivity. Qed.
Lemma common_u_int w : 32 <= w -> common (CInt w false) (CInt 32 true) = CInt w false.
Proof. intros. cbn. replace (32 <=? w) with true by (symmetry; apply Z.leb_le; lia). reflexivity. Qed.

(* ---- conversions on representable values *)
Lemma cast_ok T T0 x : ok T x = true -> (int_ty T = true \/ T = CBool \/ ptr_ty T = true \/ T = CFlt) ->
  cast T (T0, x) = (T, x).
Proof.
  intros Hx HT. destruct T as [w sg | | sz rp | |]; cbn in *.
  - destruct HT as [HT | [HT | [HT | HT]]]; try discriminate. rewrite norm_id; auto.
  - bools; subst; reflexivity.
  - reflexivity.
  - reflexivity.
  - reflexivity.
Qed.

(* the stricter reading of the arithmetic: when is the *plain* T computation defined *)
Definition plain_defined (S : sem) (w : Z) (sg : bool) (op : bop) (r : Z) : Prop :=
  strict S = false \/ sg = false \/ w < 32 \/ is_arith op = false \/ in_int w true r = true.

(* (T)(x op y) computed on plain T operands: promotion, common type, operation, conversion back *)
Lemma binop_TT S w sg op x y :
  int_width w = true -> in_int w sg x = true -> in_int w sg y = true ->
  plain_defined S w sg op (raw op x y) ->
  exists r, binop S op (CInt w sg, x) (CInt w sg, y) = Some r /\
            cast (CInt w sg) r = (CInt w sg, norm w sg (raw op x y)).
Proof.
  intros Hw Hx Hy Hd.
  assert (Hp := width_pos w Hw).
  unfold binop. cbn [fst snd].
  destruct (Z.ltb_spec w 32) as [Hn | Hn].
  - (* narrow: both operands are promoted to int, no overflow is possible there *)
    assert (Hx' := in_int_promote w sg x Hw Hn Hx). assert (Hy' := in_int_promote w sg y Hw Hn Hy).
    rewrite promote_narrow, common_same by lia.
    cbn [cast snd]. rewrite !(norm_id 32 true) by (auto; reflexivity).
    unfold int_bop.
    assert (in_int 32 true (raw op x y) = true \/ is_arith op = false) as Hr.
    { destruct op; cbn; auto; left; widths Hw; try lia; destruct sg; unfold in_int in *; cbn in *; bools;
        rewrite andb_true_iff, Z.leb_le, Z.ltb_lt; lia. }
    replace (true && is_arith op && strict S && negb (in_int 32 true (raw op x y))) with false.
    2:{ destruct Hr as [-> | ->]; cbn; rewrite ?andb_false_r; reflexivity. }
    eexists; split; [reflexivity|]. cbn [cast snd]. rewrite norm_norm by lia. reflexivity.
  - (* int or wider: the common type is T itself *)
    rewrite promote_wide, common_same by lia. cbn [cast snd]. rewrite !norm_id by auto.
    unfold int_bop.
    replace (sg && is_arith op && strict S && negb (in_int w true (raw op x y))) with false.
    2:{ destruct Hd as [-> | [-> | [? | [-> | ->]]]]; try lia; cbn; rewrite ?andb_false_r; reflexivity. }
    eexists; split; [reflexivity|]. cbn [cast snd]. rewrite norm_norm by lia. reflexivity.
Qed.

(* (T)(x op 1): the literal has type int *)
Lemma binop_T1 S w sg op x :
  int_width w = true -> in_int w sg x = true -> is_arith op = true ->
  plain_defined S w sg op (raw op x 1) ->
  exists r, binop S op (CInt w sg, x) (clit 1) = Some r /\
            cast (CInt w sg) r = (CInt w sg, norm w sg (raw op x 1)).
Proof.
  intros Hw Hx Ha Hd. assert (Hp := width_pos w Hw).
  unfold binop, clit, int_t. cbn [fst snd].
  rewrite (promote_wide 32 true) by lia.
  destruct (Z.ltb_spec w 32) as [Hn | Hn].
  - assert (Hx' := in_int_promote w sg x Hw Hn Hx).
    rewrite promote_narrow, common_same by lia.
    cbn [cast snd]. rewrite !(norm_id 32 true) by (auto; reflexivity).
    unfold int_bop.
    assert (in_int 32 true (raw op x 1) = true) as Hr.
    { destruct op; try discriminate; cbn; widths Hw; try lia; destruct sg; unfold in_int in *; cbn in *; bools;
        rewrite andb_true_iff, Z.leb_le, Z.ltb_lt; lia. }
    rewrite Hr. cbn [negb]. rewrite andb_false_r.
    eexists; split; [reflexivity|]. cbn [cast snd]. rewrite norm_norm by lia. reflexivity.
  - assert (w = 32 \/ w = 64) as Hw2 by (widths Hw; lia).
    rewrite promote_wide by lia.
    destruct sg.
    + (* signed T and int: common type T *)
      rewrite common_s_int by lia.
      cbn [cast snd]. rewrite norm_id by auto.
      assert (norm w true 1 = 1) as -> by (destruct Hw2; subst; reflexivity).
      unfold int_bop.
      replace (true && is_arith op && strict S && negb (in_int w true (raw op x 1))) with false.
      2:{ destruct Hd as [-> | [? | [? | [? | ->]]]]; try lia; try congruence; cbn; rewrite ?andb_false_r; reflexivity. }
      eexists; split; [reflexivity|]. cbn [cast snd]. rewrite norm_norm by lia. reflexivity.
    + (* unsigned T (rank >= int) and int: unsigned T *)
      rewrite common_u_int by lia.
      cbn [cast snd]. rewrite norm_id by auto.
      assert (norm w false 1 = 1) as -> by (destruct Hw2; subst; reflexivity).
      unfold int_bop. cbn [andb].
      eexists; split; [reflexivity|]. cbn [cast snd]. rewrite norm_norm by lia. reflexivity.
Qed.

(* (T)((U)x op (U)y) with U the unsigned counterpart of T: defined for every sem, wraps *)
Lemma binop_UU S w sg op x y :
  int_width w = true -> in_int w sg x = true -> in_int w sg y = true -> is_arith op = true ->
  exists r, binop S op (cast (CInt w false) (CInt w sg, x)) (cast (CInt w false) (CInt w sg, y)) = Some r /\
            cast (CInt w sg) r = (CInt w sg, norm w sg (raw op x y)).
Proof.
  intros Hw Hx Hy Ha. assert (Hp := width_pos w Hw).
  cbn [cast snd]. unfold binop. cbn [fst snd].
  destruct (Z.ltb_spec w 32) as [Hn | Hn].
  - rewrite promote_narrow, common_same by lia.
    cbn [cast snd].
    assert (Hux := in_int_promote w false _ Hw Hn (norm_in w false x Hw)).
    assert (Huy := in_int_promote w false _ Hw Hn (norm_in w false y Hw)).
    rewrite !(norm_id 32 true) by (auto; reflexivity).
    unfold int_bop.
    assert (in_int 32 true (raw op (norm w false x) (norm w false y)) = true) as Hr.
    { assert (A := norm_in w false x Hw). assert (B := norm_in w false y Hw).
      destruct op; try discriminate; cbn; widths Hw; try lia; unfold in_int in *; cbn in *; bools;
        rewrite andb_true_iff, Z.leb_le, Z.ltb_lt; lia. }
    rewrite Hr. cbn [negb]. rewrite andb_false_r.
    eexists; split; [reflexivity|]. cbn [cast snd]. rewrite norm_norm by lia.
    rewrite norm_raw_l, norm_raw_r by auto. reflexivity.
  - rewrite promote_wide, common_same by lia. cbn [cast snd].
    rewrite !(norm_norm w false w false) by lia.
    unfold int_bop. cbn [andb].
    eexists; split; [reflexivity|]. cbn [cast snd]. rewrite norm_norm by lia.
    rewrite norm_raw_l, norm_raw_r by auto. reflexivity.
Qed.

Lemma binop_U1 S w sg op x :
  int_width w = true -> in_int w sg x = true -> is_arith op = true ->
  exists r, binop S op (cast (CInt w false) (CInt w sg, x)) (clit 1) = Some r /\
            cast (CInt w sg) r = (CInt w sg, norm w sg (raw op x 1)).
Proof.
  intros Hw Hx Ha. assert (Hp := width_pos w Hw).
  cbn [cast snd]. unfold binop, clit, int_t. cbn [fst snd].
  rewrite (promote_wide 32 true) by lia.
  destruct (Z.ltb_spec w 32) as [Hn | Hn].
  - rewrite promote_narrow, common_same by lia.
    cbn [cast snd].
    assert (Hux := in_int_promote w false _ Hw Hn (norm_in w false x Hw)).
    rewrite !(norm_id 32 true) by (auto; reflexivity).
    unfold int_bop.
    assert (in_int 32 true (raw op (norm w false x) 1) = true) as Hr.
    { assert (A := norm_in w false x Hw).
      destruct op; try discriminate; cbn; widths Hw; try lia; unfold in_int in *; cbn in *; bools;
        rewrite andb_true_iff, Z.leb_le, Z.ltb_lt; lia. }
    rewrite Hr. cbn [negb]. rewrite andb_false_r.
    eexists; split; [reflexivity|]. cbn [cast snd]. rewrite norm_norm by lia.
    rewrite norm_raw_l by auto. reflexivity.
  - assert (w = 32 \/ w = 64) as Hw2 by (widths Hw; lia).
    rewrite promote_wide, common_u_int by lia.
    cbn [cast snd]. rewrite (norm_norm w false w false) by lia.
    assert (norm w false 1 = 1) as -> by (destruct Hw2; subst; reflexivity).
    unfold int_bop. cbn [andb].
    eexists; split; [reflexivity|]. cbn [cast snd]. rewrite norm_norm by lia.
    rewrite norm_raw_l by auto. reflexivity.
Qed.

(* == on two representable values of one integer type *)
Lemma ceq_TT S w sg x y : int_width w = true -> in_int w sg x = true -> in_int w sg y = true ->
  ceq S (CInt w sg, x) (CInt w sg, y) = Some (x =? y).
Proof.
  intros Hw Hx Hy. unfold ceq. cbn [fst snd].
  destruct (Z.ltb_spec w 32) as [Hn | Hn].
  - rewrite promote_narrow, common_same by lia. cbn [cast snd].
    rewrite !(norm_id 32 true); auto; try reflexivity; eapply in_int_promote; eauto.
  - rewrite promote_wide, common_same by lia. cbn [cast snd]. rewrite !norm_id by auto. reflexivity.
Qed.

Lemma ceq_bool S x y : ok CBool x = true -> ok CBool y = true -> ceq S (CBool, x) (CBool, y) = Some (x =? y).
Proof. intros Hx Hy. cbn in Hx, Hy. bools; subst; reflexivity. Qed.

(* the same facts in the form the symbolic execution below meets them (casts unfolded to [norm]) *)
Lemma binop_TT' S w sg op x y :
  int_width w = true -> in_int w sg x = true -> in_int w sg y = true ->
  plain_defined S w sg op (raw op x y) ->
  exists r, binop S op (CInt w sg, x) (CInt w sg, y) = Some r /\ norm w sg (snd r) = norm w sg (raw op x y).
Proof.
  intros Hw Hx Hy Hd. destruct (binop_TT S w sg op x y Hw Hx Hy Hd) as (r & Hr & Hc).
  exists r; split; auto. cbn in Hc. congruence.
Qed.

Lemma binop_T1' S w sg op x :
  int_width w = true -> in_int w sg x = true -> is_arith op = true ->
  plain_defined S w sg op (raw op x 1) ->
  exists r, binop S op (CInt w sg, x) (CInt 32 true, 1) = Some r /\ norm w sg (snd r) = norm w sg (raw op x 1).
Proof.
  intros Hw Hx Ha Hd. destruct (binop_T1 S w sg op x Hw Hx Ha Hd) as (r & Hr & Hc).
  exists r; split; auto. cbn in Hc. congruence.
Qed.

Lemma binop_UU' S w sg op x y :
  int_width w = true -> in_int w sg x = true -> in_int w sg y = true -> is_arith op = true ->
  exists r, binop S op (CInt w false, norm w false x) (CInt w false, norm w false y) = Some r /\
            norm w sg (snd r) = norm w sg (raw op x y).
Proof.
  intros Hw Hx Hy Ha. destruct (binop_UU S w sg op x y Hw Hx Hy Ha) as (r & Hr & Hc).
  exists r; split; auto. cbn in Hc. congruence.
Qed.

Lemma binop_U1' S w sg op x :
  int_width w = true -> in_int w sg x = true -> is_arith op = true ->
  exists r, binop S op (CInt w false, norm w false x) (CInt 32 true, 1) = Some r /\
            norm w sg (snd r) = norm w sg (raw op x 1).
Proof.
  intros Hw Hx Ha. destruct (binop_U1 S w sg op x Hw Hx Ha) as (r & Hr & Hc).
  exists r; split; auto. cbn in Hc. congruence.
Qed.

(* ------------------------------------------------------------------------------------------------ 2. agreement *)

Definition is_weak (o : opn) : bool := match o with Cew1 | Cew2 => true | _ => false end.

(* I agrees with the std contract of kind k, for every semantics satisfying P and every call allowed by Q
   (Q sees the operation, the spurious choice, T, the stored value and the first argument) *)
Definition agrees_on (Q : opn -> bool -> cty -> Z -> Z -> Prop) (P : sem -> Prop) (k : kind) (I : impl) : Prop :=
  forall o vol f, std_of k o = Some f ->
  exists g, I o vol = Some g /\
  forall S T spur v a1 a2, Q o spur T v a1 -> P S -> ty_of k T = true ->
    ok T v = true -> ok (arg_ty T o) a1 = true -> ok T a2 = true ->
    g S T spur v a1 a2 = f S T spur v a1 a2.

(* the Impl underneath the wrapper is never asked to fail spuriously: the wrapper decides that itself *)
Definition impl_q (G : opn -> cty -> Z -> Z -> Prop) (o : opn) (spur : bool) (T : cty) (v a1 : Z) : Prop :=
  (is_weak o = true -> spur = false) /\ G o T v a1.
Definition no_guard (o : opn) (T : cty) (v a1 : Z) : Prop := True.
Definition agrees0 := agrees_on (impl_q no_guard).
Definition agrees := agrees_on (fun _ _ _ _ _ => True).

(* the arithmetic an operation performs: (operator, is the operand the literal 1) *)
Definition arith_of (o : opn) : option (bop * bool) :=
  match o with
  | FAdd | AddA => Some (BAdd, false) | FSub | SubA => Some (BSub, false)
  | PreInc | PostInc => Some (BAdd, true) | PreDec | PostDec => Some (BSub, true)
  | _ => None
  end.

(* the mathematical result of the operation fits the signed type (trivially true for the other types/operations) *)
Definition no_signed_overflow (o : opn) (T : cty) (v a1 : Z) : Prop :=
  match T, arith_of o with
  | CInt w true, Some (op, one) => in_int w true (raw op v (if one then 1 else a1)) = true
  | _, _ => True
  end.

Definition wraps (S : sem) : Prop := strict S = false.   (* the compiled code: signed overflow wraps *)
Definition any_sem (S : sem) : Prop := True.             (* also the strict abstract machine *)

Ltac std_unfold :=
  unfold std_assign, std_store, std_load, std_xchg, std_cew, std_ces, std_fetch, std_opassign, std_pre, std_post,
         std_clear, std_tas, std_arith.

Ltac simp :=
  cbv beta zeta;
  cbn [cast fst snd is_integral unsigned_of widen_flt r_st r_ret r_a1 obind arg_ty Z.eqb Pos.eqb].

Ltac expose :=
  autounfold with c19gen; std_unfold; unfold clit, int_t, ptrdiff_t, uintptr_t, ctrue, cfalse, cvoid; simp.

Ltac pdef :=
  unfold plain_defined;
  first [ left; assumption
        | right; right; right; left; reflexivity
        | right; left; reflexivity
        | right; right; right; right; assumption ].

(* one arithmetic step of the symbolic execution *)
Ltac bstep :=
  match goal with
  | Hw : int_width ?w = true |- context [binop ?S ?op (CInt ?w false, norm ?w false ?x) (CInt ?w false, norm ?w false ?y)] =>
      let r := fresh "r" in let Hr := fresh "Hr" in let Hc := fresh "Hc" in
      destruct (binop_UU' S w _ op x y Hw ltac:(eassumption) ltac:(eassumption) eq_refl) as (r & Hr & Hc);
      rewrite Hr; cbn [obind]; cbv beta; cbn [fst snd]; rewrite ?Hc
  | Hw : int_width ?w = true |- context [binop ?S ?op (CInt ?w false, norm ?w false ?x) (CInt 32 true, 1)] =>
      let r := fresh "r" in let Hr := fresh "Hr" in let Hc := fresh "Hc" in
      destruct (binop_U1' S w _ op x Hw ltac:(eassumption) eq_refl) as (r & Hr & Hc);
      rewrite Hr; cbn [obind]; cbv beta; cbn [fst snd]; rewrite ?Hc
  | Hw : int_width ?w = true |- context [binop ?S ?op (CInt ?w ?sg, ?x) (CInt 32 true, 1)] =>
      let r := fresh "r" in let Hr := fresh "Hr" in let Hc := fresh "Hc" in
      destruct (binop_T1' S w sg op x Hw ltac:(assumption) eq_refl ltac:(pdef)) as (r & Hr & Hc);
      rewrite Hr; cbn [obind]; cbv beta; cbn [fst snd]; rewrite ?Hc
  | Hw : int_width ?w = true |- context [binop ?S ?op (CInt ?w ?sg, ?x) (CInt ?w ?sg, ?y)] =>
      let r := fresh "r" in let Hr := fresh "Hr" in let Hc := fresh "Hc" in
      destruct (binop_TT' S w sg op x y Hw ltac:(assumption) ltac:(assumption) ltac:(pdef)) as (r & Hr & Hc);
      rewrite Hr; cbn [obind]; cbv beta; cbn [fst snd]; rewrite ?Hc
  | Hw : int_width ?w = true |- context [ceq ?S (CInt ?w ?sg, ?x) (CInt ?w ?sg, ?y)] =>
      rewrite (ceq_TT S w sg x y Hw) by assumption; cbn [obind]; cbv beta
  | |- context [beq (?T, ?x) (?T', ?y)] => unfold beq; cbn [snd obind]; cbv beta
  | |- context [ceq ?S (CBool, ?x) (CBool, ?y)] => rewrite (ceq_bool S x y) by reflexivity; cbn [obind]; cbv beta
  | |- context [ceq ?S (CPtr ?sz ?rp, ?x) (CPtr ?sz' ?rp', ?y)] =>
      change (ceq S (CPtr sz rp, x) (CPtr sz' rp', y)) with (Some (x =? y)); cbn [obind]; cbv beta
  | |- context [ceq ?S (CFlt, ?x) (CFlt, ?y)] =>
      change (ceq S (CFlt, x) (CFlt, y)) with (Some (feq S x y)); cbn [obind]; cbv beta
  end.

Ltac norms :=
  repeat match goal with
  | H : in_int ?w ?sg ?x = true |- context [norm ?w ?sg ?x] => rewrite (norm_id w sg x) by (first [assumption | reflexivity])
  | Hw : int_width ?w = true |- context [norm ?w ?sg (norm ?w ?sg' ?x)] =>
      rewrite (norm_norm w sg w sg' x) by (pose proof (width_pos w Hw); lia)
  end.

Lemma truth_bool (b : bool) : truth (CBool, if b then 1 else 0) = b.
Proof. destruct b; reflexivity. Qed.

Ltac truths :=
  change (truth (CBool, 1)) with true; change (truth (CBool, 0)) with false; rewrite ?truth_bool.

Ltac splits :=
  repeat match goal with
  | |- context [if ?x =? ?y then _ else _] => destruct (Z.eqb_spec x y); truths; cbv iota
  end.

Ltac int_exec := expose; norms; repeat (bstep; simp); norms; splits; simp; norms; try reflexivity; try congruence.

(* agreement restricted to a group of operations (so that a failing obligation names the group) *)
Definition agrees_for (sel : opn -> bool) (Q : opn -> bool -> cty -> Z -> Z -> Prop) (P : sem -> Prop) (k : kind) (I : impl) : Prop :=
  forall o vol f, sel o = true -> std_of k o = Some f ->
  exists g, I o vol = Some g /\
  forall S T spur v a1 a2, Q o spur T v a1 -> P S -> ty_of k T = true ->
    ok T v = true -> ok (arg_ty T o) a1 = true -> ok T a2 = true ->
    g S T spur v a1 a2 = f S T spur v a1 a2.

Definition g_base (o : opn) : bool :=
  match o with Assign | Store | Load | Conv | Xchg | Cew2 | Cew1 | Ces2 | Ces1 => true | _ => false end.
Definition g_addsub (o : opn) : bool := match o with FAdd | FSub | AddA | SubA => true | _ => false end.
Definition g_incdec (o : opn) : bool := match o with PreInc | PostInc | PreDec | PostDec => true | _ => false end.
Definition g_bits (o : opn) : bool := match o with FAnd | FOr | FXor | AndA | OrA | XorA => true | _ => false end.
Definition g_flag (o : opn) : bool := match o with Clear | TAS | Test => true | _ => false end.

Lemma agrees_groups Q P k I :
  agrees_for g_base Q P k I -> agrees_for g_addsub Q P k I -> agrees_for g_incdec Q P k I ->
  agrees_for g_bits Q P k I -> agrees_for g_flag Q P k I -> agrees_on Q P k I.
Proof.
  intros H1 H2 H3 H4 H5 o vol f Hf.
  destruct o; first [ apply H1; [reflexivity | exact Hf] | apply H2; [reflexivity | exact Hf]
                    | apply H3; [reflexivity | exact Hf] | apply H4; [reflexivity | exact Hf]
                    | apply H5; [reflexivity | exact Hf] ].
Qed.

Lemma agrees_for_none sel Q P k I : (forall o, sel o = true -> std_of k o = None) -> agrees_for sel Q P k I.
Proof. intros H o vol f Hs Hf. rewrite (H o Hs) in Hf. discriminate. Qed.

(* the proof of agreement for the integral types, as a script (used for both readings of the arithmetic) *)
Ltac agree_int :=
  intros o vol f Hsel Hf; destruct o; cbn in Hsel; try discriminate; cbn in Hf; try discriminate; injection Hf as <-; destruct vol;
  (eexists; split; [reflexivity|]); intros S T spur v a1 a2 HQ HS HT Hv H1 H2;
  (destruct T as [w sg| | | |]; try discriminate); cbn in HT, Hv, H1, H2; unfold wraps, any_sem in HS;
  destruct HQ as [HQ HG]; try (rewrite (HQ eq_refl)); int_exec.

Ltac no_flag_ops := apply agrees_for_none; intros o Ho; destruct o; try discriminate; reflexivity.

(* load / store / exchange / compare_exchange / operator= / operator T *)
Lemma fiber_int_base_ops : agrees_for g_base (impl_q no_guard) wraps KInt fiber_int.
Proof. agree_int. Qed.
(* fetch_add / fetch_sub / += / -= *)
Lemma fiber_int_add_sub_ops : agrees_for g_addsub (impl_q no_guard) wraps KInt fiber_int.
Proof. agree_int. Qed.
(* ++x / x++ / --x / x-- *)
Lemma fiber_int_inc_dec_ops : agrees_for g_incdec (impl_q no_guard) wraps KInt fiber_int.
Proof. agree_int. Qed.
(* fetch_and / fetch_or / fetch_xor / &= / |= / ^= *)
Lemma fiber_int_bit_ops : agrees_for g_bits (impl_q no_guard) wraps KInt fiber_int.
Proof. agree_int. Qed.

Lemma fiber_int_agrees : agrees0 wraps KInt fiber_int.
Proof.
  apply agrees_groups; [exact fiber_int_base_ops | exact fiber_int_add_sub_ops | exact fiber_int_inc_dec_ops
                       | exact fiber_int_bit_ops | no_flag_ops].
Qed.

(* the strict reading (signed overflow undefined), under the explicit guard "the result fits" *)
Ltac agree_int_guarded :=
  intros o vol f Hsel Hf; destruct o; cbn in Hsel; try discriminate; cbn in Hf; try discriminate; injection Hf as <-; destruct vol;
  (eexists; split; [reflexivity|]); intros S T spur v a1 a2 HQ HS HT Hv H1 H2;
  (destruct T as [w sg| | | |]; try discriminate); cbn in HT, Hv, H1, H2;
  destruct HQ as [HQ HG]; destruct sg; cbn [no_signed_overflow arith_of] in HG; try (rewrite (HQ eq_refl)); int_exec.

Lemma fiber_int_agrees_guarded : agrees_on (impl_q no_signed_overflow) any_sem KInt fiber_int.
Proof. apply agrees_groups; [agree_int_guarded | agree_int_guarded | agree_int_guarded | agree_int_guarded | no_flag_ops]. Qed.

(* the other kinds compute once T is a constructor *)
Ltac conc_exec :=
  expose; unfold mul_sizeof; cbn [sizeof_pointee sizeof_rp_pointee binop ceq beq raw fst snd obind]; norms; splits; simp;
  try reflexivity; try congruence.

Lemma fiber_bool_agrees P : agrees0 P KBool fiber_bool.
Proof.
  intros o vol f Hf; destruct o; cbn in Hf; try discriminate; injection Hf as <-; destruct vol;
  (eexists; split; [reflexivity|]); intros S T spur v a1 a2 HQ HS HT Hv H1 H2;
  (destruct T; try discriminate); cbn in Hv, H1, H2; destruct HQ as [HQ _]; try (rewrite (HQ eq_refl)); bools; subst; reflexivity.
Qed.

Lemma fiber_flag_agrees P : agrees0 P KFlag fiber_flag.
Proof.
  intros o vol f Hf; destruct o; cbn in Hf; try discriminate; injection Hf as <-; destruct vol;
  (eexists; split; [reflexivity|]); intros S T spur v a1 a2 HQ HS HT Hv H1 H2;
  (destruct T; try discriminate); cbn in Hv, H1, H2; bools; subst; reflexivity.
Qed.

Ltac agree_ptr :=
  intros o vol f Hsel Hf; destruct o; cbn in Hsel; try discriminate; cbn in Hf; try discriminate; injection Hf as <-; destruct vol;
  (eexists; split; [reflexivity|]); intros S T spur v a1 a2 HQ HS HT Hv H1 H2;
  (destruct T as [| |sz rp| |]; try discriminate); cbn [ok arg_ty] in Hv, H1, H2; unfold ptrdiff_t in H1; cbn [ok] in H1;
  destruct HQ as [HQ _]; try (rewrite (HQ eq_refl)); conc_exec.

(* pointer ++x / x++ / --x / x-- *)
Lemma fiber_ptr_inc_dec_ops P : agrees_for g_incdec (impl_q no_guard) P KPtr fiber_ptr.
Proof. agree_ptr. Qed.
(* pointer fetch_add / fetch_sub / += / -= (element-scaled) *)
Lemma fiber_ptr_add_sub_ops P : agrees_for g_addsub (impl_q no_guard) P KPtr fiber_ptr.
Proof. agree_ptr. Qed.
Lemma fiber_ptr_base_ops P : agrees_for g_base (impl_q no_guard) P KPtr fiber_ptr.
Proof. agree_ptr. Qed.

Lemma fiber_ptr_agrees P : agrees0 P KPtr fiber_ptr.
Proof.
  apply agrees_groups; [apply fiber_ptr_base_ops | apply fiber_ptr_add_sub_ops | apply fiber_ptr_inc_dec_ops | |];
    apply agrees_for_none; intros o Ho; destruct o; try discriminate; reflexivity.
Qed.

Ltac agree_flt :=
  intros o vol f Hsel Hf; destruct o; cbn in Hsel; try discriminate; cbn in Hf; try discriminate; injection Hf as <-; destruct vol;
  (eexists; split; [reflexivity|]); intros S T spur v a1 a2 HQ HS HT Hv H1 H2;
  (destruct T; try discriminate); destruct HQ as [HQ _]; try (rewrite (HQ eq_refl)); conc_exec.

(* floating load / store / exchange / compare_exchange: the comparison is on the object representation *)
Lemma fiber_flt_base_ops P : agrees_for g_base (impl_q no_guard) P KFlt fiber_flt.
Proof. agree_flt. Qed.
Lemma fiber_flt_add_sub_ops P : agrees_for g_addsub (impl_q no_guard) P KFlt fiber_flt.
Proof. agree_flt. Qed.

Lemma fiber_flt_agrees P : agrees0 P KFlt fiber_flt.
Proof.
  apply agrees_groups; [apply fiber_flt_base_ops | apply fiber_flt_add_sub_ops | | |];
    apply agrees_for_none; intros o Ho; destruct o; try discriminate; reflexivity.
Qed.

(* ------------------------------------------------------------------------------------------------ 3. the wrapper *)

Lemma in_int_0 w sg : int_width w = true -> in_int w sg 0 = true.
Proof. intros Hw. widths Hw; destruct sg; reflexivity. Qed.

Ltac side :=
  first [ assumption | reflexivity
        | (unfold impl_q; split; [cbn; intros; first [discriminate | reflexivity] | first [assumption | (match goal with HL : forall T v a, _ Load T v a |- _ => apply HL end) | exact I]])
        | (apply in_int_0; assumption) | exact I ].

(* a call of Impl::op: use that Impl agrees with std *)
Ltac istep HI :=
  match goal with
  | |- context [icall ?I ?o ?vol ?S ?T ?spur ?v ?x1 ?x2] =>
      let g := fresh "g" in let Hg := fresh "Hg" in let Hgf := fresh "Hgf" in
      edestruct (HI o vol) as (g & Hg & Hgf); [reflexivity|];
      unfold icall at 1; rewrite Hg; rewrite Hgf by side; clear g Hg Hgf; std_unfold; simp
  end.

Ltac spur_split :=
  match goal with
  | |- context [if ?s then 1 else 0] => destruct s; cbv iota; truths; cbv iota
  end.

Ltac wrap_exec HI :=
  expose; norms; try spur_split; truths; cbv iota;
  repeat (first [istep HI | bstep]; simp; norms; truths; cbv iota);
  splits; simp; norms; try reflexivity; try congruence.

Lemma wrapped_int_agrees (G : opn -> cty -> Z -> Z -> Prop) P I : (forall T v a, G Load T v a) ->
  agrees_on (impl_q G) P KInt I -> agrees_on (fun o _ T v a => G o T v a) P KInt (wrapped_int I).
Proof.
  intros HGL HI o vol f Hf; destruct o; cbn in Hf; try discriminate; injection Hf as <-; destruct vol;
  (eexists; split; [reflexivity|]); intros S T spur v a1 a2 HG HS HT Hv H1 H2;
  (destruct T as [w sg| | | |]; try discriminate); cbn [ok arg_ty] in Hv, H1, H2; assert (Hw : int_width w = true) by exact HT;
  wrap_exec HI.
Qed.

Lemma wrapped_bool_agrees (G : opn -> cty -> Z -> Z -> Prop) P I : (forall T v a, G Load T v a) ->
  agrees_on (impl_q G) P KBool I -> agrees_on (fun o _ T v a => G o T v a) P KBool (wrapped_bool I).
Proof.
  intros HGL HI o vol f Hf; destruct o; cbn in Hf; try discriminate; injection Hf as <-; destruct vol;
  (eexists; split; [reflexivity|]); intros S T spur v a1 a2 HG HS HT Hv H1 H2;
  (destruct T; try discriminate); cbn in Hv, H1, H2; bools; subst; wrap_exec HI.
Qed.

Lemma wrapped_flag_agrees (G : opn -> cty -> Z -> Z -> Prop) P I : (forall T v a, G Load T v a) ->
  agrees_on (impl_q G) P KFlag I -> agrees_on (fun o _ T v a => G o T v a) P KFlag (wrapped_flag I).
Proof.
  intros HGL HI o vol f Hf; destruct o; cbn in Hf; try discriminate; injection Hf as <-; destruct vol;
  (eexists; split; [reflexivity|]); intros S T spur v a1 a2 HG HS HT Hv H1 H2;
  (destruct T; try discriminate); cbn in Hv, H1, H2; bools; subst; wrap_exec HI.
Qed.

Lemma wrapped_ptr_agrees (G : opn -> cty -> Z -> Z -> Prop) P I : (forall T v a, G Load T v a) ->
  agrees_on (impl_q G) P KPtr I -> agrees_on (fun o _ T v a => G o T v a) P KPtr (wrapped_ptr I).
Proof.
  intros HGL HI o vol f Hf; destruct o; cbn in Hf; try discriminate; injection Hf as <-; destruct vol;
  (eexists; split; [reflexivity|]); intros S T spur v a1 a2 HG HS HT Hv H1 H2;
  (destruct T as [| |sz rp| |]; try discriminate); cbn [ok arg_ty] in Hv, H1, H2; unfold ptrdiff_t in H1; cbn [ok] in H1;
  wrap_exec HI.
Qed.

Lemma wrapped_flt_agrees (G : opn -> cty -> Z -> Z -> Prop) P I : (forall T v a, G Load T v a) ->
  agrees_on (impl_q G) P KFlt I -> agrees_on (fun o _ T v a => G o T v a) P KFlt (wrapped_flt I).
Proof.
  intros HGL HI o vol f Hf; destruct o; cbn in Hf; try discriminate; injection Hf as <-; destruct vol;
  (eexists; split; [reflexivity|]); intros S T spur v a1 a2 HG HS HT Hv H1 H2;
  (destruct T; try discriminate); wrap_exec HI.
Qed.

(* ------------------------------------------------------------------------------------------------ 4. backends *)

Lemma std_impl_agrees0 P k : agrees0 P k (std_impl (std_of k)).
Proof. intros o vol f Hf. exists f. split; [exact Hf | reflexivity]. Qed.


Lemma agrees_weaken (P P' : sem -> Prop) Q k I : (forall S, P' S -> P S) -> agrees_on Q P k I -> agrees_on Q P' k I.
Proof.
  intros HP HA o vol f Hf. destruct (HA o vol f Hf) as (g & Hg & Hgf). exists g. split; auto.
Qed.

Lemma wrapped_agrees_on (G : opn -> cty -> Z -> Z -> Prop) P k I : (forall T v a, G Load T v a) ->
  agrees_on (impl_q G) P k I -> agrees_on (fun o _ T v a => G o T v a) P k (wrapped_of k I).
Proof.
  destruct k; cbn [wrapped_of].
  - apply wrapped_int_agrees.
  - apply wrapped_bool_agrees.
  - apply wrapped_ptr_agrees.
  - apply wrapped_flt_agrees.
  - apply wrapped_flag_agrees.
Qed.

Lemma wrapped_agrees P k I : agrees0 P k I -> agrees P k (wrapped_of k I).
Proof. intros H. apply (wrapped_agrees_on no_guard P k I); [intros; exact Logic.I | exact H]. Qed.

Lemma fiber_agrees0 k : agrees0 wraps k (fiber_of k).
Proof.
  destruct k; cbn [fiber_of].
  - apply fiber_int_agrees.
  - apply fiber_bool_agrees.
  - apply fiber_ptr_agrees.
  - apply fiber_flt_agrees.
  - apply fiber_flag_agrees.
Qed.

(* FIBER backend: wrapper over the fiber re-implementation *)
Lemma fiber_backend_agrees k : agrees wraps k (impl_of BFiber k).
Proof. apply wrapped_agrees, fiber_agrees0. Qed.

Lemma no_overflow_load T v a : no_signed_overflow Load T v a.
Proof. destruct T as [w [|] | | | |]; exact I. Qed.

Lemma fiber_backend_int_guarded :
  agrees_on (fun o _ T v a => no_signed_overflow o T v a) any_sem KInt (impl_of BFiber KInt).
Proof. apply (wrapped_agrees_on no_signed_overflow), fiber_int_agrees_guarded. exact no_overflow_load. Qed.

(* THREAD backend: wrapper over std::atomic itself *)
Lemma thread_backend_agrees k : agrees any_sem k (impl_of BThread k).
Proof. apply wrapped_agrees, std_impl_agrees0. Qed.

(* ---- the std operations are total and keep the stored value representable *)
Lemma std_total k o f S T spur v a1 a2 :
  std_of k o = Some f -> ty_of k T = true -> ok T v = true -> ok (arg_ty T o) a1 = true -> ok T a2 = true ->
  exists r, f S T spur v a1 a2 = Some r /\ ok T (r_st r) = true.
Proof.
  intros Hf HT Hv H1 H2.
  destruct k; destruct o; cbn in Hf; try discriminate; injection Hf as <-;
    (destruct T as [w sg | | sz rp | |]; try discriminate); cbn [ty_of] in HT; std_unfold; cbn [arg_ty] in H1;
    try destruct spur; try (destruct (v =? a1));
    (eexists; split; [reflexivity|]); cbn [r_st fst snd ok]; auto;
    try (apply norm_in; assumption); try (apply (norm_in 64 false); reflexivity).
Qed.

(* ---- sequences *)
Definition call_ok (k : kind) (T : cty) (c : call) : Prop :=
  match c with
  | Call o vol spur a1 a2 => (exists f, std_of k o = Some f) /\ ok (arg_ty T o) a1 = true /\ ok T a2 = true
  | Fence _ => True
  end.

Lemma fiber_fences sg v : fence_of BFiber sg v = v.
Proof. destruct sg; reflexivity. Qed.

Lemma run_agrees P k (I : impl) (fence : bool -> Z -> Z) :
  agrees P k I -> (forall sg v, fence sg v = v) ->
  forall S T cs v0, P S -> ty_of k T = true -> ok T v0 = true -> Forall (call_ok k T) cs ->
  run I fence S T cs v0 = run (std_impl (std_of k)) (fun _ => std_fence) S T cs v0.
Proof.
  intros HA HF S T cs. induction cs as [|c cs IH]; intros v0 HS HT Hv Hcs; [reflexivity|].
  inversion Hcs as [|? ? Hc Hr]; subst. cbn [run].
  destruct c as [o vol spur a1 a2 | sg]; cbn [step].
  - destruct Hc as ((f & Hf) & H1 & H2).
    destruct (HA o vol f Hf) as (g & Hg & Hgf).
    unfold icall. rewrite Hg. unfold std_impl at 1. rewrite Hf.
    rewrite Hgf by auto.
    destruct (std_total k o f S T spur v0 a1 a2 Hf HT Hv H1 H2) as (r & Hr' & Hok).
    rewrite Hr'. rewrite IH by auto. reflexivity.
  - rewrite HF. unfold std_fence. cbn [r_st fst]. rewrite IH by auto. reflexivity.
Qed.

(* ---- compare_exchange: spurious failure, strong never spurious *)
Lemma weak_spurious P k I o vol g S T v e d :
  agrees P k I -> is_weak o = true -> (exists f, std_of k o = Some f) -> I o vol = Some g ->
  P S -> ty_of k T = true -> ok T v = true -> ok T e = true -> ok T d = true ->
  g S T true v e d = Some (v, 0, v).
Proof.
  intros HA Hw (f & Hf) Hg HS HT Hv He Hd.
  destruct (HA o vol f Hf) as (g' & Hg' & Hgf). rewrite Hg in Hg'. injection Hg' as <-.
  rewrite Hgf; auto.
  - destruct k; destruct o; try discriminate; cbn in Hf; injection Hf as <-; reflexivity.
  - destruct T, o; try discriminate; assumption.
Qed.

Definition is_strong (o : opn) : bool := match o with Ces1 | Ces2 => true | _ => false end.

Lemma strong_never_spurious P k I o vol g S T spur v e d :
  agrees P k I -> is_strong o = true -> (exists f, std_of k o = Some f) -> I o vol = Some g ->
  P S -> ty_of k T = true -> ok T v = true -> ok T e = true -> ok T d = true ->
  g S T spur v e d = if v =? e then Some (d, 1, e) else Some (v, 0, v).
Proof.
  intros HA Hw (f & Hf) Hg HS HT Hv He Hd.
  destruct (HA o vol f Hf) as (g' & Hg' & Hgf). rewrite Hg in Hg'. injection Hg' as <-.
  rewrite Hgf; auto.
  - destruct k; destruct o; try discriminate; cbn in Hf; injection Hf as <-; reflexivity.
  - destruct T, o; try discriminate; assumption.
Qed.

Lemma weak_not_spurious P k I o vol g S T v e d :
  agrees P k I -> is_weak o = true -> (exists f, std_of k o = Some f) -> I o vol = Some g ->
  P S -> ty_of k T = true -> ok T v = true -> ok T e = true -> ok T d = true ->
  g S T false v e d = if v =? e then Some (d, 1, e) else Some (v, 0, v).
Proof.
  intros HA Hw (f & Hf) Hg HS HT Hv He Hd.
  destruct (HA o vol f Hf) as (g' & Hg' & Hgf). rewrite Hg in Hg'. injection Hg' as <-.
  rewrite Hgf; auto.
  - destruct k; destruct o; try discriminate; cbn in Hf; injection Hf as <-; reflexivity.
  - destruct T, o; try discriminate; assumption.
Qed.

(* ---- the value constructor *)
Lemma init_stores k S T spur v a1 a2 : ty_of k T = true -> ok T a1 = true -> fiber_init S T spur v a1 a2 = Some (a1, 0, a1).
Proof.
  intros HT H1. unfold fiber_init. expose.
  destruct k, T as [w sg | | sz rp | |]; try discriminate; cbn [ty_of] in HT; cbn [ok] in H1; cbn [cast fst snd]; norms; try reflexivity;
    cbn in H1; bools; subst; reflexivity.
Qed.

(* ---- memory orders handed to the implementation *)
Definition all_mo : list mo := [Rlx; Csm; Acq; Rel; AcqRel; SeqCst].
Definition mo_lists : list (list mo) :=
  [[]] ++ map (fun m => [m]) all_mo ++ flat_map (fun s => map (fun f => [s; f]) all_mo) all_mo.

Definition orders_entry_ok (e : opn * bool * (list mo -> option (list (opn * list mo)))) : bool :=
  let '(o, vol, f) := e in
  forallb (fun ms => if std_orders_ok o ms
                     then match f ms with Some cs => forallb call_orders_ok cs | None => false end
                     else true) mo_lists.

Lemma orders_in_lists o ms : std_orders_ok o ms = true -> In ms mo_lists.
Proof.
  unfold std_orders_ok, call_orders_ok. intros H.
  destruct ms as [|m1 [|m2 [|m3 ms]]].
  - left. reflexivity.
  - destruct m1; cbn; tauto.
  - destruct m1, m2; cbn; tauto.
  - destruct o; discriminate.
Qed.

Lemma wrap_orders_checked : forallb orders_entry_ok wrap_orders = true.
Proof. vm_compute. reflexivity. Qed.

Lemma wrap_orders_valid o vol f ms :
  In (o, vol, f) wrap_orders -> std_orders_ok o ms = true ->
  exists cs, f ms = Some cs /\ forallb call_orders_ok cs = true.
Proof.
  intros Hin Hok.
  pose proof (proj1 (forallb_forall _ _) wrap_orders_checked _ Hin) as H. cbn [orders_entry_ok] in H.
  pose proof (proj1 (forallb_forall _ _) H ms (orders_in_lists o ms Hok)) as H'. cbn beta in H'.
  rewrite Hok in H'. destruct (f ms) as [cs|]; [|discriminate]. exists cs. auto.
Qed.

(* every operation of every wrapper overload set has its entry *)
Definition has_entry (o : opn) (vol : bool) : bool :=
  existsb (fun e => let '(o', vol', _) := e in
     (if vol then vol' else negb vol') &&
     match o, o' with
     | Assign, Assign | Store, Store | Load, Load | Conv, Conv | Xchg, Xchg | Cew2, Cew2 | Cew1, Cew1 | Ces2, Ces2
     | Ces1, Ces1 | FAdd, FAdd | FSub, FSub | AddA, AddA | SubA, SubA | FAnd, FAnd | FOr, FOr | FXor, FXor
     | PreInc, PreInc | PostInc, PostInc | PreDec, PreDec | PostDec, PostDec | AndA, AndA | OrA, OrA | XorA, XorA
     | Clear, Clear | TAS, TAS | Test, Test => true
     | _, _ => false
     end) wrap_orders.

Definition all_opn : list opn :=
  [Assign; Store; Load; Conv; Xchg; Cew2; Cew1; Ces2; Ces1; FAdd; FSub; AddA; SubA; FAnd; FOr; FXor;
   PreInc; PostInc; PreDec; PostDec; AndA; OrA; XorA; Clear; TAS; Test].

Lemma wrap_orders_complete :
  forallb (fun k => forallb (fun o => forallb (fun vol =>
     match wrapped_of k (fun _ _ => None) o vol with Some _ => has_entry o vol | None => true end) [false; true]) all_opn)
     [KInt; KBool; KPtr; KFlt; KFlag] = true.
Proof. vm_compute. reflexivity. Qed.

(* ------------------------------------------------------------------------------------------------ 5. statements *)
(* the results above with [agrees] unfolded, in the form Properties_C19.v states them *)

Definition op_agrees (P : sem -> Prop) (G : opn -> cty -> Z -> Z -> Prop) (k : kind) (I : impl) : Prop :=
  forall o vol f, std_of k o = Some f ->
  exists g, I o vol = Some g /\
  forall S T spur v a1 a2, P S -> G o T v a1 -> ty_of k T = true ->
    ok T v = true -> ok (arg_ty T o) a1 = true -> ok T a2 = true ->
    g S T spur v a1 a2 = f S T spur v a1 a2.

Lemma op_agrees_of P (G : opn -> cty -> Z -> Z -> Prop) k I :
  agrees_on (fun o _ T v a => G o T v a) P k I -> op_agrees P G k I.
Proof.
  intros HA o vol f Hf. destruct (HA o vol f Hf) as (g & Hg & Hgf). exists g. split; [exact Hg|].
  intros. apply Hgf; auto.
Qed.

Lemma fiber_operations k : op_agrees (fun S => strict S = false) no_guard k (impl_of BFiber k).
Proof. apply op_agrees_of. exact (fiber_backend_agrees k). Qed.

Lemma thread_operations k : op_agrees (fun _ => True) no_guard k (impl_of BThread k).
Proof. apply op_agrees_of. exact (thread_backend_agrees k). Qed.

Lemma fiber_int_strict_guarded : op_agrees (fun _ => True) no_signed_overflow KInt (impl_of BFiber KInt).
Proof. apply op_agrees_of. exact fiber_backend_int_guarded. Qed.

Lemma fiber_sequences k S T cs v0 :
  strict S = false -> ty_of k T = true -> ok T v0 = true -> Forall (call_ok k T) cs ->
  run_backend BFiber k S T cs v0 = run_backend BStd k S T cs v0.
Proof.
  intros. unfold run_backend.
  etransitivity; [apply (run_agrees wraps k _ (fence_of BFiber) (fiber_backend_agrees k) fiber_fences S T cs v0); auto|].
  reflexivity.
Qed.

Lemma thread_sequences k S T cs v0 :
  ty_of k T = true -> ok T v0 = true -> Forall (call_ok k T) cs ->
  run_backend BThread k S T cs v0 = run_backend BStd k S T cs v0.
Proof.
  intros. unfold run_backend.
  etransitivity; [apply (run_agrees any_sem k _ (fence_of BThread) (thread_backend_agrees k) (fun _ _ => eq_refl) S T cs v0); auto|].
  - exact Logic.I.
  - reflexivity.
Qed.

(* the reference run itself never gets stuck and stays representable: the equalities above are not vacuous *)
Lemma std_run_total k S T cs v0 :
  ty_of k T = true -> ok T v0 = true -> Forall (call_ok k T) cs ->
  exists l, run_backend BStd k S T cs v0 = Some l /\ length l = length cs.
Proof.
  intros HT. revert v0. induction cs as [|c cs IH]; intros v0 Hv Hcs.
  - exists []. split; reflexivity.
  - inversion Hcs as [|? ? Hc Hr]; subst. unfold run_backend in *. cbn [run].
    destruct c as [o vol spur a1 a2 | sg]; cbn [step].
    + destruct Hc as ((f & Hf) & H1 & H2).
      destruct (std_total k o f S T spur v0 a1 a2 Hf HT Hv H1 H2) as (r & Hr' & Hok).
      unfold icall. cbn [impl_of]. unfold std_impl at 1. rewrite Hf, Hr'.
      destruct (IH (r_st r) Hok Hr) as (l & Hl & Hlen). cbn [impl_of] in Hl. rewrite Hl.
      exists (r :: l). split; [reflexivity | cbn; congruence].
    + cbn [fence_of]. unfold std_fence. cbn [r_st fst].
      destruct (IH v0 Hv Hr) as (l & Hl & Hlen). rewrite Hl. eexists. split; [reflexivity | cbn; congruence].
Qed.

Definition has_cas (k : kind) : bool := match k with KFlag => false | _ => true end.

Lemma cas_in_std k o : has_cas k = true -> (is_weak o = true \/ is_strong o = true) -> exists f, std_of k o = Some f.
Proof. intros Hk [H | H]; destruct k, o; try discriminate; eexists; reflexivity. Qed.

Lemma backend_weak_spurious b k o vol g S T v e d :
  b <> BStd -> has_cas k = true -> is_weak o = true -> impl_of b k o vol = Some g ->
  strict S = false -> ty_of k T = true -> ok T v = true -> ok T e = true -> ok T d = true ->
  g S T true v e d = Some (v, 0, v).
Proof.
  intros Hb Hk Hw Hg HS HT Hv He Hd. destruct b; try congruence.
  - eapply (weak_spurious wraps k); eauto using fiber_backend_agrees, cas_in_std.
  - eapply (weak_spurious any_sem k); eauto using thread_backend_agrees, cas_in_std. exact Logic.I.
Qed.

Lemma backend_weak_not_spurious b k o vol g S T v e d :
  b <> BStd -> has_cas k = true -> is_weak o = true -> impl_of b k o vol = Some g ->
  strict S = false -> ty_of k T = true -> ok T v = true -> ok T e = true -> ok T d = true ->
  g S T false v e d = if v =? e then Some (d, 1, e) else Some (v, 0, v).
Proof.
  intros Hb Hk Hw Hg HS HT Hv He Hd. destruct b; try congruence.
  - eapply (weak_not_spurious wraps k); eauto using fiber_backend_agrees, cas_in_std.
  - eapply (weak_not_spurious any_sem k); eauto using thread_backend_agrees, cas_in_std. exact Logic.I.
Qed.

Lemma backend_strong_never_spurious b k o vol g S T spur v e d :
  b <> BStd -> has_cas k = true -> is_strong o = true -> impl_of b k o vol = Some g ->
  strict S = false -> ty_of k T = true -> ok T v = true -> ok T e = true -> ok T d = true ->
  g S T spur v e d = if v =? e then Some (d, 1, e) else Some (v, 0, v).
Proof.
  intros Hb Hk Hw Hg HS HT Hv He Hd. destruct b; try congruence.
  - eapply (strong_never_spurious wraps k); eauto using fiber_backend_agrees, cas_in_std.
  - eapply (strong_never_spurious any_sem k); eauto using thread_backend_agrees, cas_in_std. exact Logic.I.
Qed.
