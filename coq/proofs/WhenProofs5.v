(* Layer 4 (continued): Any<FirstFail> and Any<LastFail>. *)
From Coq Require Import List Arith Bool NArith Lia.
Import ListNotations.
From YV Require Import model.When proofs.WhenProofs proofs.WhenProofs2 proofs.WhenProofs3 proofs.WhenProofs4.

Local Arguments store_slot : simpl never.
Local Arguments Nat.mul : simpl never.
Local Arguments sub2 : simpl never.
Local Arguments N.of_nat : simpl never.

Lemma val_at_same s i x x' : nth_error (ins s) i = Some x -> ires x' = ires x -> forall j, val_at (set_in i x' s) j = val_at s j.
Proof.
  intros Hx Hr j. rewrite (val_at_set_in _ _ _ _ _ Hx). destruct (Nat.eqb_spec j i) as [->|]; auto.
  unfold val_at. rewrite Hx, Hr. reflexivity.
Qed.

Lemma fail_at_same s i x x' : nth_error (ins s) i = Some x -> ires x' = ires x -> forall j, fail_at (set_in i x' s) j = fail_at s j.
Proof.
  intros Hx Hr j. rewrite (fail_at_set_in _ _ _ _ _ Hx). destruct (Nat.eqb_spec j i) as [->|]; auto.
  unfold fail_at. rewrite Hx, Hr. reflexivity.
Qed.

Lemma IFf_ext s s' :
  ins s' = ins s -> state s' = state s -> win s' = win s -> fwin s' = fwin s -> saved s' = saved s ->
  elog s' = elog s -> IFf s -> IFf s'.
Proof.
  intros E1 E2 E3 E4 E5 E6 [A B C D E F G].
  constructor; unfold fail_at, val_at in *; rewrite ?E1, ?E2, ?E3, ?E4, ?E5, ?E6; auto.
Qed.

(* an update of input i that keeps its Result *)
Lemma IFf_frame s i x x' :
  IFf s -> nth_error (ins s) i = Some x -> ires x' = ires x ->
  (state s = 0%N -> pre_el (ipc x') = true) ->
  (state s <> 2%N -> ovalue (ires x) = true -> pre_el (ipc x') = true) ->
  IFf (set_in i x' s).
Proof.
  intros [A B C D E F G] Hx Hr H0 H2.
  pose proof (val_at_same _ _ _ _ Hx Hr) as Hv. pose proof (fail_at_same _ _ _ _ Hx Hr) as Hf.
  assert (Hfv : find (val_at (set_in i x' s)) (elog s) = find (val_at s) (elog s)) by (apply find_ext; auto).
  assert (Hff : find (fail_at (set_in i x' s)) (elog s) = find (fail_at s) (elog s)) by (apply find_ext; auto).
  constructor; simpl; auto.
  - intros Hs. destruct (B Hs) as (B1 & B2 & B3). repeat split; auto.
    intros j y Hj. rewrite nth_upd in Hj. destruct (Nat.eqb_spec j i) as [->|]; eauto.
    rewrite Hx in Hj. simpl in Hj. inv Hj. auto.
  - intros Hs. destruct (D Hs) as (D1 & D2 & D3). repeat split; auto.
    + change (find (val_at (set_in i x' s)) (elog s) = None). congruence.
    + intros j y Hj Hy. rewrite nth_upd in Hj. destruct (Nat.eqb_spec j i) as [->|]; eauto.
      rewrite Hx in Hj. simpl in Hj. inv Hj. apply H2; auto. congruence.
  - intros Hs. destruct (E Hs) as (w & E1 & E2 & E3). exists w. repeat split; auto.
    + change (val_at (set_in i x' s) w = true). rewrite Hv. exact E2.
    + change (find (val_at (set_in i x' s)) (elog s) = Some w). congruence.
  - intros f Hfw. destruct (F f Hfw) as (F1 & F2 & y & F3 & F4). repeat split; auto.
    + change (fail_at (set_in i x' s) f = true). rewrite Hf. exact F1.
    + rewrite nth_upd. destruct (Nat.eqb_spec f i) as [->|]; eauto.
      rewrite Hx in *. inv F3. exists x'. split; auto. congruence.
  - intros Hfw. destruct (G Hfw) as (G1 & G2). split; auto.
    change (find (fail_at (set_in i x' s)) (elog s) = None). congruence.
Qed.

Lemma IFf_frame_post s i x x' :
  IFf s -> nth_error (ins s) i = Some x -> ires x' = ires x -> pre_el (ipc x) = false -> IFf (set_in i x' s).
Proof.
  intros J Hx Hr Hp. apply IFf_frame with x; auto.
  - intros Hs. destruct (f_zero _ J Hs) as (_ & _ & Hall). rewrite (Hall i x Hx) in Hp. discriminate.
  - intros Hs Hv. destruct (f_not2 _ J Hs) as (_ & _ & Hall). rewrite (Hall i x Hx Hv) in Hp. discriminate.
Qed.

Lemma not_in_elog_pre s i x : elog_ok s -> nth_error (ins s) i = Some x -> pre_el (ipc x) = true -> ~ In i (elog s).
Proof. intros E Hx Hp Hin. destruct (E i Hin) as (y & Hy & Hpy). congruence. Qed.

Lemma IFf_store_slot i r s : IFf s -> IFf (store_slot i r s).
Proof.
  intros D. destruct (store_slot_fields i r s) as (E1 & E2 & E3 & E4 & E5 & E6 & E7 & E8 & E9).
  apply IFf_ext with s; auto.
Qed.

Lemma IFf_complete s i r s' : I1 s -> elog_ok s -> IFf s -> step s (EComplete i r) = Some s' -> IFf s'.
Proof.
  intros I El [A B C D E F G] H. start H i x Hx. case_step H; inv H.
  all: assert (Hp : ipc x = PIdle) by (eapply loc1_idle_w; [apply (i_loc _ I _ _ Hx)|congruence]).
  all: assert (Hni : ~ In i (elog s)) by (eapply not_in_elog_pre; eauto; rewrite Hp; reflexivity).
  all: set (x' := with_ires (Some r) x).
  all: assert (Hv : forall j, j <> i -> val_at (set_in i x' s) j = val_at s j)
        by (intros j Hj; rewrite (val_at_set_in _ _ _ _ _ Hx); destruct (Nat.eqb_spec j i); congruence).
  all: assert (Hf : forall j, j <> i -> fail_at (set_in i x' s) j = fail_at s j)
        by (intros j Hj; rewrite (fail_at_set_in _ _ _ _ _ Hx); destruct (Nat.eqb_spec j i); congruence).
  all: assert (Hfv : find (val_at (set_in i x' s)) (elog s) = find (val_at s) (elog s))
        by (apply find_ext; intros a Ha; apply Hv; congruence).
  all: assert (Hff : find (fail_at (set_in i x' s)) (elog s) = find (fail_at s) (elog s))
        by (apply find_ext; intros a Ha; apply Hf; congruence).
  all: assert (Hvi : val_at s i = false) by (unfold val_at; rewrite Hx, Heqo; reflexivity).
  all: assert (Hfi : fail_at s i = false) by (unfold fail_at; rewrite Hx, Heqo; reflexivity).
  all: constructor; simpl; auto.
  all: try (intros Hs; destruct (B Hs) as (B1 & B2 & B3); repeat split; auto;
            intros j y Hj; rewrite nth_upd in Hj; destruct (Nat.eqb_spec j i) as [->|]; eauto;
            rewrite Hx in Hj; simpl in Hj; inv Hj; simpl; rewrite Hp; reflexivity).
  all: try (intros Hs; destruct (D Hs) as (D1 & D2 & D3); repeat split; auto;
            [change (find (val_at (set_in i x' s)) (elog s) = None); congruence
            |intros j y Hj Hy; rewrite nth_upd in Hj; destruct (Nat.eqb_spec j i) as [->|]; eauto;
             rewrite Hx in Hj; simpl in Hj; inv Hj; simpl; rewrite Hp; reflexivity]).
  all: try (intros Hs; destruct (E Hs) as (w & E1 & E2 & E3); exists w;
            assert (Hwi : w <> i) by (intros ->; congruence); repeat split; auto;
            [change (val_at (set_in i x' s) w = true); rewrite Hv; auto
            |change (find (val_at (set_in i x' s)) (elog s) = Some w); congruence]).
  all: try (intros f Hfw; destruct (F f Hfw) as (F1 & F2 & y & F3 & F4);
            assert (Hfi' : f <> i) by (intros ->; congruence); repeat split; auto;
            [change (fail_at (set_in i x' s) f = true); rewrite Hf; auto
            |exists y; rewrite nth_upd_neq; auto]).
  all: try (intros Hfw; destruct (G Hfw) as (G1 & G2); split; auto;
            change (find (fail_at (set_in i x' s)) (elog s) = None); congruence).
Qed.

Lemma IFf_mid_post s s1 i x p :
  IFf s -> nth_error (ins s) i = Some x -> pre_el (ipc x) = false ->
  ins s1 = ins s -> state s1 = state s -> win s1 = win s -> fwin s1 = fwin s -> saved s1 = saved s ->
  elog s1 = elog s -> IFf (goto i p x s1).
Proof.
  intros J Hx Hp E1 E2 E3 E4 E5 E6. apply IFf_ext with (goto i p x s); simpl; try congruence.
  unfold goto. apply IFf_frame_post with x; auto.
Qed.

Lemma IFf_step s e s' :
  sg s = SAnyFF -> I1 s -> I2 s -> IO s -> elog_ok s -> IFf s -> step s e = Some s' -> IFf s'.
Proof.
  intros Hg I I' J El D H. destruct e.
  1: eapply IFf_complete; eauto.
  12: { (* EDFree: never enabled, Any<FirstFail> is not Owned *)
    unfold step in H. destruct (nth_error (ins s) i) as [x|] eqn:Hx; [|discriminate].
    destruct (ipc x) as [| | | | | |k'| |] eqn:Hp; try discriminate.
    destruct (l_pdk _ _ _ _ _ _ _ _ (i_loc _ I _ _ Hx) _ Hp) as (Hown & _). rewrite Hg in Hown. discriminate. }
  all: simpl in H.
  2: destruct (Nat.eqb_spec i (nreg s)) as [Ei|]; [|discriminate].
  all: destruct (nth_error (ins s) i) as [x|] eqn:Hx; [|discriminate].
  all: try (destruct (word_eqb old (iw x)) eqn:Ew; [apply word_eqb_eq in Ew; subst old|discriminate]).
  all: rewrite ?Hg in H; simpl in H.
  all: case_step H; inv H.
  all: try assert (Hpi : ipc x = PIdle) by
        first [ eapply loc1_idle_w; [apply (i_loc _ I _ _ Hx)|congruence]
              | eapply loc1_idle_reg; [apply (i_loc _ I _ _ Hx)|lia] ].
  (* EXchg *)
  1: apply IFf_frame with x; auto; intros; simpl; rewrite Hpi; reflexivity.
  1: unfold begin; rewrite ?Hg; simpl; apply IFf_frame with x; auto.
  (* EReg *)
  1: apply IFf_ext with (set_in (nreg s) (with_iw WC x) s); try reflexivity;
     apply IFf_frame with x; auto; intros; simpl; rewrite Hpi; reflexivity.
  1: apply IFf_ext with (begin (nreg s) x s); try reflexivity;
     unfold begin; rewrite ?Hg; simpl; apply IFf_frame with x; auto.
  (* EFree *)
  1: apply IFf_store_slot; rewrite ?Hg; simpl; apply IFf_frame with x; auto.
  (* ELdState *)
  1-4: apply N.eqb_eq in Heqb; subst v; unfold goto; apply IFf_frame with x; auto; intros; simpl; try reflexivity;
       exfalso; repeat match goal with
                       | H : N.eqb _ _ = true |- _ => apply N.eqb_eq in H
                       | H : N.eqb _ _ = false |- _ => apply N.eqb_neq in H
                       end; try congruence;
       destruct (ires x) as [[]|]; simpl in *; congruence.
  (* EXchgState, state already kValue *)
  1: { apply andb_true_iff in Heqb. destruct Heqb as (Ho & Hval). apply N.eqb_eq in Ho. apply N.eqb_eq in Heqb0.
       assert (Hs2 : state s = 2%N) by congruence.
       destruct D as [A B C D E F G]. destruct (E Hs2) as (w & E1 & E2 & E3).
       set (x' := with_ipc PDec x).
       pose proof (val_at_same _ _ _ x' Hx eq_refl) as Hv. pose proof (fail_at_same _ _ _ x' Hx eq_refl) as Hf.
       assert (Hfv : forall l, find (val_at (set_in i x' s)) l = find (val_at s) l) by (intros; apply find_ext; auto).
       assert (Hff : forall l, find (fail_at (set_in i x' s)) l = find (fail_at s) l) by (intros; apply find_ext; auto).
       unfold goto, logged. constructor; simpl; auto; try discriminate; try (intros Hc; exfalso; apply Hc; reflexivity).
       - intros _. exists w. repeat split; auto.
         + change (val_at (set_in i x' s) w = true). rewrite Hv. exact E2.
         + change (find (val_at (set_in i x' s)) (elog s ++ [i]) = Some w). rewrite Hfv, find_snoc, E3. reflexivity.
       - intros f Hfw. destruct (F f Hfw) as (F1 & F2 & y & F3 & F4). repeat split.
         + change (fail_at (set_in i x' s) f = true). rewrite Hf. exact F1.
         + rewrite hd_snoc. destruct (elog s); [discriminate|exact F2].
         + rewrite nth_upd. destruct (Nat.eqb_spec f i) as [->|]; eauto.
           rewrite Hx in *. inv F3. exists x'. split; auto.
       - intros Hfw. destruct (G Hfw) as (G1 & G2). split; auto.
         change (find (fail_at (set_in i x' s)) (elog s ++ [i]) = None). rewrite Hff, find_snoc, G2.
         unfold fail_at. rewrite Hx. destruct (ires x) as [[]|]; simpl in *; try discriminate; reflexivity. }
  (* EXchgState, elected *)
  1: { apply andb_true_iff in Heqb. destruct Heqb as (Ho & Hval). apply N.eqb_eq in Ho. apply N.eqb_neq in Heqb0.
       assert (Hs2 : state s <> 2%N) by congruence.
       destruct D as [A B C D E F G]. destruct (D Hs2) as (D1 & D2 & D3).
       set (x' := with_ipc PSet x).
       pose proof (val_at_same _ _ _ x' Hx eq_refl) as Hv. pose proof (fail_at_same _ _ _ x' Hx eq_refl) as Hf.
       assert (Hfv : forall l, find (val_at (set_in i x' s)) l = find (val_at s) l) by (intros; apply find_ext; auto).
       assert (Hff : forall l, find (fail_at (set_in i x' s)) l = find (fail_at s) l) by (intros; apply find_ext; auto).
       assert (Hvi : val_at s i = true) by (unfold val_at; rewrite Hx; exact Hval).
       unfold elected, logged. constructor; simpl; auto; try discriminate; try (intros Hc; exfalso; apply Hc; reflexivity).
       - intros _. exists i. repeat split; auto.
         + change (val_at (set_in i x' s) i = true). rewrite Hv. exact Hvi.
         + change (find (val_at (set_in i x' s)) (elog s ++ [i]) = Some i). rewrite Hfv, find_snoc, D2, Hvi. reflexivity.
       - intros f Hfw. destruct (F f Hfw) as (F1 & F2 & y & F3 & F4). repeat split.
         + change (fail_at (set_in i x' s) f = true). rewrite Hf. exact F1.
         + rewrite hd_snoc. destruct (elog s); [discriminate|exact F2].
         + rewrite nth_upd. destruct (Nat.eqb_spec f i) as [->|]; eauto.
           rewrite Hx in *. inv F3. exists x'. split; auto.
       - intros Hfw. destruct (G Hfw) as (G1 & G2). split; auto.
         change (find (fail_at (set_in i x' s)) (elog s ++ [i]) = None). rewrite Hff, find_snoc, G2.
         unfold fail_at. rewrite Hx. destruct (ires x) as [[]|]; simpl in *; try discriminate; reflexivity. }
  (* ECasState, success *)
  1: { apply andb_true_iff in Heqb. destruct Heqb as (Hfail & Ho). apply eqb_prop in Ho. symmetry in Ho. apply N.eqb_eq in Ho.
       destruct D as [A B C D E F G]. destruct (B Ho) as (B1 & B2 & B3).
       assert (Hn2 : state s <> 2%N) by (rewrite Ho; discriminate).
       destruct (D Hn2) as (D1 & D2 & D3).
       set (x' := with_ipc PDec x).
       pose proof (val_at_same _ _ _ x' Hx eq_refl) as Hv. pose proof (fail_at_same _ _ _ x' Hx eq_refl) as Hf.
       assert (Hfi : fail_at s i = true) by (unfold fail_at; rewrite Hx; exact Hfail).
       assert (Hvi : val_at s i = false) by (unfold val_at; rewrite Hx; destruct (ires x) as [[]|]; simpl in *; congruence).
       unfold goto, logged. constructor; simpl; auto; try discriminate.
       - intros _. repeat split; auto.
         + rewrite B2. simpl. unfold val_at. simpl. rewrite nth_upd, Nat.eqb_refl, Hx. simpl.
           destruct (ires x) as [[]|]; simpl in *; congruence.
         + intros j y Hj Hy. rewrite nth_upd in Hj. destruct (Nat.eqb_spec j i) as [->|]; eauto.
           rewrite Hx in Hj. simpl in Hj. inv Hj. simpl in Hy.
           destruct (ires x) as [[]|]; simpl in *; congruence.
       - intros f Hfw. inv Hfw. rewrite B2. repeat split.
         + change (fail_at (set_in f x' s) f = true). rewrite Hf. exact Hfi.
         + exists x'. split; auto. rewrite nth_upd, Nat.eqb_refl, Hx. reflexivity. }
  (* ECasState, failure *)
  1: { apply andb_true_iff in Heqb. destruct Heqb as (Hfail & Ho). apply eqb_prop in Ho. symmetry in Ho. apply N.eqb_neq in Ho.
       unfold goto. apply IFf_frame with x; auto; intros; simpl; try congruence.
       destruct (ires x) as [[]|]; simpl in *; congruence. }
  (* ESetOut, EDec, EPublish *)
  all: unfold finish_if_fin, dtor_entry; rewrite ?Hg; simpl; try destruct (pvalid s); simpl.
  all: match goal with
       | Hx : nth_error (ins ?s0) ?i = Some ?x |- IFf (goto ?i ?p ?x ?s1) =>
           apply IFf_mid_post with (s := s0); auto; rewrite ?Heqp; reflexivity
       | Hx : nth_error (ins ?s0) ?i = Some ?x |- IFf (set_deleted ?d (goto ?i ?p ?x ?s1)) =>
           apply IFf_ext with (goto i p x s1); [reflexivity..|];
           apply IFf_mid_post with (s := s0); auto; rewrite ?Heqp; reflexivity
       end.
Qed.

Lemma IFf_elects s e s' :
  sg s = SAnyFF -> IFf s -> step s e = Some s' -> elects s e = true -> win s = None.
Proof.
  intros Hg D H He. destruct e; simpl in He; try discriminate; rewrite ?Hg in He.
  - simpl in H. destruct (nth_error (ins s) i) as [x|]; [|discriminate]. rewrite Hg in H. case_step H.
  - simpl in H. destruct (nth_error (ins s) i) as [x|]; [|discriminate]. rewrite Hg in H. case_step H.
    all: rewrite ?Heqb0 in He; try discriminate.
    apply andb_true_iff in Heqb; destruct Heqb as (Ho & _); apply N.eqb_eq in Ho.
    apply N.eqb_neq in Heqb0. assert (Hn2 : state s <> 2%N) by congruence.
    destruct (f_not2 _ D Hn2) as (Hw & _). exact Hw.
  - simpl in H. destruct (nth_error (ins s) i) as [x|]; [|discriminate]. rewrite Hg in H. case_step H.
Qed.

(* ---- Any<LastFail> ------------------------------------------------------------------------------- *)

Lemma odd_double m : N.odd (N.of_nat (2 * m)) = false.
Proof. replace (N.of_nat (2 * m)) with (2 * N.of_nat m)%N by lia. rewrite N.odd_mul. reflexivity. Qed.

Lemma odd_sub2 x : N.odd (sub2 x) = N.odd x.
Proof.
  unfold sub2. destruct (N.ltb_spec x 2).
  - assert (Hx : x = 0%N \/ x = 1%N) by lia. destruct Hx; subst; reflexivity.
  - rewrite N.odd_sub by assumption. simpl. destruct (N.odd x); reflexivity.
Qed.

Lemma sub2_double m : 1 <= m -> sub2 (N.of_nat (2 * m)) = N.of_nat (2 * (m - 1)).
Proof. intros H. unfold sub2. destruct (N.ltb_spec (N.of_nat (2 * m)) 2); lia. Qed.

Lemma subbed_cnt_upd i (f : inp -> inp) l x :
  nth_error l i = Some x ->
  cnt subbed (upd i f l) + (if subbed x then 1 else 0) = cnt subbed l + (if subbed (f x) then 1 else 0).
Proof. intros H. exact (cnt_upd subbed i f l x H). Qed.

Lemma IFl_ext s s' :
  n s' = n s -> ins s' = ins s -> state s' = state s -> win s' = win s -> elog s' = elog s -> IFl s -> IFl s'.
Proof.
  intros E1 E2 E3 E4 E5 [A B C].
  constructor; unfold fail_at, val_at, nsub in *; rewrite ?E1, ?E2, ?E3, ?E4, ?E5; auto.
Qed.

Lemma IFl_frame s i x x' :
  IFl s -> nth_error (ins s) i = Some x -> ires x' = ires x ->
  (N.odd (state s) = false -> pre_el (ipc x') = pre_el (ipc x)) ->
  IFl (set_in i x' s).
Proof.
  intros [A B C] Hx Hr Hp.
  pose proof (val_at_same _ _ _ _ Hx Hr) as Hv. pose proof (fail_at_same _ _ _ _ Hx Hr) as Hf.
  assert (Hfv : find (val_at (set_in i x' s)) (elog s) = find (val_at s) (elog s)) by (apply find_ext; auto).
  constructor; simpl; auto.
  - intros He. destruct (B He) as (B1 & B2 & B3 & B4 & B5 & B6). specialize (Hp He).
    assert (Hns : nsub (set_in i x' s) = nsub s).
    { unfold nsub. simpl. pose proof (subbed_cnt_upd i (fun _ => x') (ins s) x Hx) as Hc.
      assert (Es : subbed x' = subbed x) by (unfold subbed; rewrite Hr, Hp; reflexivity).
      cbv beta in Hc. rewrite Es in Hc. lia. }
    repeat split; auto.
    + change (state s = N.of_nat (2 * (n s - nsub (set_in i x' s)))). rewrite Hns. exact B1.
    + change (find (val_at (set_in i x' s)) (elog s) = None). congruence.
    + intros j y Hj Hy. rewrite nth_upd in Hj. destruct (Nat.eqb_spec j i) as [->|]; eauto.
      rewrite Hx in Hj. simpl in Hj. inv Hj. rewrite Hp. apply (B3 i x Hx). congruence.
    + intros j y Hj Hy. rewrite nth_upd in Hj. destruct (Nat.eqb_spec j i) as [->|]; eauto.
      rewrite Hx in Hj. simpl in Hj. inv Hj. apply (B4 i x Hx). congruence.
    + intros H0. destruct (B6 H0) as (w & rest & W1 & W2 & W3). exists w, rest. repeat split; auto.
      change (fail_at (set_in i x' s) w = true). rewrite Hf. exact W2.
  - intros Ho. destruct (C Ho) as (w & C1 & C2 & C3). exists w. repeat split; auto.
    + change (val_at (set_in i x' s) w = true). rewrite Hv. exact C2.
    + change (find (val_at (set_in i x' s)) (elog s) = Some w). congruence.
Qed.

Lemma IFl_store_slot i r s : IFl s -> IFl (store_slot i r s).
Proof.
  intros D. destruct (store_slot_fields i r s) as (E1 & E2 & E3 & E4 & E5 & E6 & E7 & E8 & E9).
  apply IFl_ext with s; auto.
Qed.

Lemma IFl_complete s i r s' : I1 s -> elog_ok s -> IFl s -> step s (EComplete i r) = Some s' -> IFl s'.
Proof.
  intros I El [A B C] H. start H i x Hx. case_step H; inv H.
  all: assert (Hp : ipc x = PIdle) by (eapply loc1_idle_w; [apply (i_loc _ I _ _ Hx)|congruence]).
  all: assert (Hni : ~ In i (elog s)) by (eapply not_in_elog_pre; eauto; rewrite Hp; reflexivity).
  all: set (x' := with_ires (Some r) x).
  all: assert (Hv : forall j, j <> i -> val_at (set_in i x' s) j = val_at s j)
        by (intros j Hj; rewrite (val_at_set_in _ _ _ _ _ Hx); destruct (Nat.eqb_spec j i); congruence).
  all: assert (Hf : forall j, j <> i -> fail_at (set_in i x' s) j = fail_at s j)
        by (intros j Hj; rewrite (fail_at_set_in _ _ _ _ _ Hx); destruct (Nat.eqb_spec j i); congruence).
  all: assert (Hfv : find (val_at (set_in i x' s)) (elog s) = find (val_at s) (elog s))
        by (apply find_ext; intros a Ha; apply Hv; congruence).
  all: assert (Hvi : val_at s i = false) by (unfold val_at; rewrite Hx, Heqo; reflexivity).
  all: assert (Hfi : fail_at s i = false) by (unfold fail_at; rewrite Hx, Heqo; reflexivity).
  all: assert (Hns : nsub (set_in i x' s) = nsub s)
        by (unfold nsub; simpl; pose proof (subbed_cnt_upd i (fun _ => x') (ins s) x Hx) as Hc; cbv beta in Hc;
            assert (E1 : subbed x = false) by (unfold subbed; rewrite Hp, andb_false_r; reflexivity);
            assert (E2 : subbed x' = false) by (unfold subbed, x'; simpl; rewrite Hp, andb_false_r; reflexivity);
            rewrite E1, E2 in Hc; lia).
  all: constructor; simpl; auto.
  all: try (intros He; destruct (B He) as (B1 & B2 & B3 & B4 & B5 & B6); repeat split; auto;
            [ change (state s = N.of_nat (2 * (n s - nsub (set_in i x' s)))); rewrite Hns; exact B1
            | change (find (val_at (set_in i x' s)) (elog s) = None); congruence
            | intros j y Hj Hy; rewrite nth_upd in Hj; destruct (Nat.eqb_spec j i) as [->|]; eauto;
              rewrite Hx in Hj; simpl in Hj; inv Hj; simpl; rewrite Hp; reflexivity
            | intros j y Hj Hy; rewrite nth_upd in Hj; destruct (Nat.eqb_spec j i) as [->|]; eauto;
              rewrite Hx in Hj; simpl in Hj; inv Hj; simpl in Hy; rewrite Hp in Hy; discriminate
            | intros H0; destruct (B6 H0) as (w & rest & W1 & W2 & W3); exists w, rest;
              assert (Hwi : w <> i) by (intros ->; congruence); repeat split; auto;
              change (fail_at (set_in i x' s) w = true); rewrite Hf; auto ]).
  all: intros Ho; destruct (C Ho) as (w & C1 & C2 & C3); exists w;
       assert (Hwi : w <> i) by (intros ->; congruence); repeat split; auto;
       [ change (val_at (set_in i x' s) w = true); rewrite Hv; auto
       | change (find (val_at (set_in i x' s)) (elog s) = Some w); congruence ].
Qed.

Lemma IFl_mid_post s s1 i x p :
  IFl s -> nth_error (ins s) i = Some x -> pre_el (ipc x) = false -> pre_el p = false ->
  n s1 = n s -> ins s1 = ins s -> state s1 = state s -> win s1 = win s -> elog s1 = elog s ->
  IFl (goto i p x s1).
Proof.
  intros J Hx Hp Hq E1 E2 E3 E4 E5. apply IFl_ext with (goto i p x s); simpl; try congruence.
  unfold goto. apply IFl_frame with x; auto. simpl. congruence.
Qed.

Lemma nsub_lt s i x : I1 s -> nth_error (ins s) i = Some x -> subbed x = false -> nsub s < n s.
Proof. intros I Hx Hs. unfold nsub. rewrite <- (i_len _ I). eapply cnt_lt; eauto. Qed.

Lemma IFl_step s e s' :
  sg s = SAnyLF -> I1 s -> I2 s -> IO s -> elog_ok s -> IFl s -> step s e = Some s' -> IFl s'.
Proof.
  intros Hg I I' J El D H. destruct e.
  1: eapply IFl_complete; eauto.
  12: { unfold step in H. destruct (nth_error (ins s) i) as [x|] eqn:Hx; [|discriminate].
    destruct (ipc x) as [| | | | | |k'| |] eqn:Hp; try discriminate.
    destruct (l_pdk _ _ _ _ _ _ _ _ (i_loc _ I _ _ Hx) _ Hp) as (Hown & _). rewrite Hg in Hown. discriminate. }
  all: simpl in H.
  2: destruct (Nat.eqb_spec i (nreg s)) as [Ei|]; [|discriminate].
  all: destruct (nth_error (ins s) i) as [x|] eqn:Hx; [|discriminate].
  all: try (destruct (word_eqb old (iw x)) eqn:Ew; [apply word_eqb_eq in Ew; subst old|discriminate]).
  all: rewrite ?Hg in H; simpl in H.
  all: case_step H; inv H.
  all: try assert (Hpi : ipc x = PIdle) by
        first [ eapply loc1_idle_w; [apply (i_loc _ I _ _ Hx)|congruence]
              | eapply loc1_idle_reg; [apply (i_loc _ I _ _ Hx)|lia] ].
  (* EXchg *)
  1: apply IFl_frame with x; auto.
  1: unfold begin; rewrite ?Hg; simpl; apply IFl_frame with x; auto; simpl; rewrite Hpi; reflexivity.
  (* EReg *)
  1: apply IFl_ext with (set_in (nreg s) (with_iw WC x) s); try reflexivity; apply IFl_frame with x; auto.
  1: apply IFl_ext with (begin (nreg s) x s); try reflexivity;
     unfold begin; rewrite ?Hg; simpl; apply IFl_frame with x; auto; simpl; rewrite Hpi; reflexivity.
  (* EFree *)
  1: apply IFl_store_slot; rewrite ?Hg; simpl; apply IFl_frame with x; auto; simpl; rewrite Heqp; reflexivity.
  (* ELdState *)
  1-2: apply N.eqb_eq in Heqb; subst v; unfold goto; apply IFl_frame with x; auto; simpl; rewrite Heqp; intros; try reflexivity; congruence.
  (* EXchgState, state already odd *)
  1: { apply andb_true_iff in Heqb. destruct Heqb as (Ho & Hval). apply N.eqb_eq in Ho. subst old.
       destruct D as [A B C]. destruct (C Heqb0) as (w & C1 & C2 & C3).
       set (x' := with_ipc PDec x).
       pose proof (val_at_same _ _ _ x' Hx eq_refl) as Hv. pose proof (fail_at_same _ _ _ x' Hx eq_refl) as Hf.
       assert (Hfv : forall l, find (val_at (set_in i x' s)) l = find (val_at s) l) by (intros; apply find_ext; auto).
       unfold goto, logged. constructor; simpl; auto; try discriminate.
       intros _. exists w. repeat split; auto.
       - change (val_at (set_in i x' s) w = true). rewrite Hv. exact C2.
       - change (find (val_at (set_in i x' s)) (elog s ++ [i]) = Some w). rewrite Hfv, find_snoc, C3. reflexivity. }
  (* EXchgState, elected *)
  1: { apply andb_true_iff in Heqb. destruct Heqb as (Ho & Hval). apply N.eqb_eq in Ho. subst old.
       destruct D as [A B C]. destruct (B Heqb0) as (B1 & B2 & B3 & B4 & B5 & B6).
       set (x' := with_ipc PSet x).
       pose proof (val_at_same _ _ _ x' Hx eq_refl) as Hv. pose proof (fail_at_same _ _ _ x' Hx eq_refl) as Hf.
       assert (Hfv : forall l, find (val_at (set_in i x' s)) l = find (val_at s) l) by (intros; apply find_ext; auto).
       assert (Hvi : val_at s i = true) by (unfold val_at; rewrite Hx; exact Hval).
       unfold elected, logged. constructor; simpl; auto; try discriminate.
       intros _. exists i. repeat split; auto.
       - change (val_at (set_in i x' s) i = true). rewrite Hv. exact Hvi.
       - change (find (val_at (set_in i x' s)) (elog s ++ [i]) = Some i). rewrite Hfv, find_snoc, B2, Hvi. reflexivity. }
  (* ESubState: the remaining two cases share their arithmetic *)
  1-2: apply andb_true_iff in Heqb; destruct Heqb as (Hfail & Ho); apply N.eqb_eq in Ho; subst old;
       assert (Hsx : subbed x = false) by (unfold subbed; rewrite Heqp, andb_false_r; reflexivity);
       pose proof (nsub_lt _ _ _ I Hx Hsx) as Hlt;
       assert (Hvi : val_at s i = false) by (unfold val_at; rewrite Hx; destruct (ires x) as [[]|]; simpl in *; congruence);
       assert (Hfi : fail_at s i = true) by (unfold fail_at; rewrite Hx; exact Hfail).
  (* ESubState, old = 2: the last failure is elected *)
  1: { apply N.eqb_eq in Heqb0. destruct D as [A B C].
       assert (Hev : N.odd (state s) = false) by (rewrite Heqb0; reflexivity).
       destruct (B Hev) as (B1 & B2 & B3 & B4 & B5 & B6).
       set (x' := with_ipc PSet x).
       pose proof (val_at_same _ _ _ x' Hx eq_refl) as Hv. pose proof (fail_at_same _ _ _ x' Hx eq_refl) as Hf.
       assert (Hfv : forall l, find (val_at (set_in i x' s)) l = find (val_at s) l) by (intros; apply find_ext; auto).
       assert (Hns : nsub (set_in i x' s) = S (nsub s)).
       { unfold nsub. simpl. pose proof (subbed_cnt_upd i (fun _ => x') (ins s) x Hx) as Hc. cbv beta in Hc.
         assert (E2 : subbed x' = true) by (unfold subbed, x'; simpl; rewrite Hfail; reflexivity).
         rewrite Hsx, E2 in Hc. lia. }
       unfold elected, logged. rewrite Heqb0. change (sub2 2) with 0%N. constructor; simpl; auto; try discriminate.
       intros _. repeat split.
       - change (0%N = N.of_nat (2 * (n s - nsub (set_in i x' s)))). rewrite Hns. lia.
       - change (find (val_at (set_in i x' s)) (elog s ++ [i]) = None). rewrite Hfv, find_snoc, B2, Hvi. reflexivity.
       - intros j y Hj Hy. rewrite nth_upd in Hj. destruct (Nat.eqb_spec j i) as [->|]; eauto.
         rewrite Hx in Hj. simpl in Hj. inv Hj. simpl in Hy. destruct (ires x) as [[]|]; simpl in *; congruence.
       - intros j y Hj Hy. rewrite nth_upd in Hj. apply in_or_app. destruct (Nat.eqb_spec j i) as [->|]; [right; left; auto|left; eauto].
       - intros Hc. exfalso. apply Hc. reflexivity.
       - intros _. exists i, (elog s). repeat split; auto.
         change (fail_at (set_in i x' s) i = true). rewrite Hf. exact Hfi. }
  (* ESubState, old <> 2 *)
  1: { apply N.eqb_neq in Heqb0. destruct D as [A B C].
       set (x' := with_ipc PDec x).
       pose proof (val_at_same _ _ _ x' Hx eq_refl) as Hv. pose proof (fail_at_same _ _ _ x' Hx eq_refl) as Hf.
       assert (Hfv : forall l, find (val_at (set_in i x' s)) l = find (val_at s) l) by (intros; apply find_ext; auto).
       assert (Hns : nsub (set_in i x' s) = S (nsub s)).
       { unfold nsub. simpl. pose proof (subbed_cnt_upd i (fun _ => x') (ins s) x Hx) as Hc. cbv beta in Hc.
         assert (E2 : subbed x' = true) by (unfold subbed, x'; simpl; rewrite Hfail; reflexivity).
         rewrite Hsx, E2 in Hc. lia. }
       unfold goto, logged. constructor; simpl; auto.
       - rewrite odd_sub2. intros Hev. destruct (B Hev) as (B1 & B2 & B3 & B4 & B5 & B6).
         assert (Hm : 2 <= n s - nsub s).
         { destruct (n s - nsub s) as [|[|m]] eqn:Em; lia. }
         repeat split.
         + change (sub2 (state s) = N.of_nat (2 * (n s - nsub (set_in i x' s)))). rewrite Hns, B1, sub2_double by lia.
           f_equal. lia.
         + change (find (val_at (set_in i x' s)) (elog s ++ [i]) = None). rewrite Hfv, find_snoc, B2, Hvi. reflexivity.
         + intros j y Hj Hy. rewrite nth_upd in Hj. destruct (Nat.eqb_spec j i) as [->|]; eauto.
           rewrite Hx in Hj. simpl in Hj. inv Hj. simpl in Hy. destruct (ires x) as [[]|]; simpl in *; congruence.
         + intros j y Hj Hy. rewrite nth_upd in Hj. apply in_or_app. destruct (Nat.eqb_spec j i) as [->|]; [right; left; auto|left; eauto].
         + intros _. apply B5. rewrite B1. lia.
         + intros H0. exfalso. rewrite B1, sub2_double in H0 by lia. lia.
       - rewrite odd_sub2. intros Hod. destruct (C Hod) as (w & C1 & C2 & C3). exists w. repeat split; auto.
         + change (val_at (set_in i x' s) w = true). rewrite Hv. exact C2.
         + change (find (val_at (set_in i x' s)) (elog s ++ [i]) = Some w). rewrite Hfv, find_snoc, C3. reflexivity. }
  (* ESetOut, EDec, EPublish *)
  all: unfold finish_if_fin, dtor_entry; rewrite ?Hg; simpl; try destruct (pvalid s); simpl.
  all: match goal with
       | Hx : nth_error (ins ?s0) ?i = Some ?x |- IFl (goto ?i ?p ?x ?s1) =>
           apply IFl_mid_post with (s := s0); auto; rewrite ?Heqp; reflexivity
       | Hx : nth_error (ins ?s0) ?i = Some ?x |- IFl (set_deleted ?d (goto ?i ?p ?x ?s1)) =>
           apply IFl_ext with (goto i p x s1); [reflexivity..|];
           apply IFl_mid_post with (s := s0); auto; rewrite ?Heqp; reflexivity
       end.
Qed.

Lemma IFl_elects s e s' :
  sg s = SAnyLF -> I1 s -> IFl s -> step s e = Some s' -> elects s e = true -> win s = None.
Proof.
  intros Hg I D H He. destruct e; simpl in He; try discriminate; rewrite ?Hg in He.
  - simpl in H. destruct (nth_error (ins s) i) as [x|]; [|discriminate]. rewrite Hg in H. case_step H.
  - simpl in H. destruct (nth_error (ins s) i) as [x|] eqn:Hx; [|discriminate]. rewrite Hg in H. case_step H.
    all: rewrite ?Heqb0 in He; try discriminate.
    apply andb_true_iff in Heqb. destruct Heqb as (Ho & Hval). apply N.eqb_eq in Ho. subst old.
    destruct (a_even _ D Heqb0) as (B1 & _ & _ & _ & B5 & _). apply B5.
    assert (Hsx : subbed x = false) by (unfold subbed; rewrite Heqp, andb_false_r; reflexivity).
    pose proof (nsub_lt _ _ _ I Hx Hsx). rewrite B1. lia.
  - simpl in H. destruct (nth_error (ins s) i) as [x|] eqn:Hx; [|discriminate]. rewrite Hg in H. case_step H.
    all: rewrite ?Heqb0 in He; try discriminate.
    apply andb_true_iff in Heqb. destruct Heqb as (_ & Ho). apply N.eqb_eq in Ho. apply N.eqb_eq in Heqb0.
    assert (Hs2 : state s = 2%N) by congruence.
    assert (Hev : N.odd (state s) = false) by (rewrite Hs2; reflexivity).
    destruct (a_even _ D Hev) as (_ & _ & _ & _ & B5 & _). apply B5. rewrite Hs2. discriminate.
Qed.

Lemma elog_ok_init g k : elog_ok (init g k).
Proof. intros j []. Qed.

Lemma IFd_init g k : IFd (init g k).
Proof.
  constructor; simpl; [|discriminate]. intros _. repeat split; auto.
  intros j x H _. apply nth_repeat in H. subst. reflexivity.
Qed.

Lemma IFf_init k : IFf (init SAnyFF k).
Proof.
  constructor; simpl; auto; try discriminate.
  - intros _. repeat split; auto. intros j x H. apply nth_repeat in H. subst. reflexivity.
  - intros _. repeat split; auto. intros j x H _. apply nth_repeat in H. subst. reflexivity.
Qed.

Lemma IFl_init k : k > 0 -> (N.of_nat (2 * k) < two64)%N -> IFl (init SAnyLF k).
Proof.
  intros Hk0 Hk.
  assert (Hst : state (init SAnyLF k) = N.of_nat (2 * k)).
  { change (state (init SAnyLF k)) with ((2 * N.of_nat k) mod two64)%N. rewrite N.mod_small; lia. }
  assert (Hns : nsub (init SAnyLF k) = 0).
  { unfold nsub. simpl. apply cnt_zero. intros i x H. apply nth_repeat in H. subst. reflexivity. }
  constructor.
  - exact Hk.
  - intros _. repeat split.
    + rewrite Hst, Hns. f_equal. simpl. lia.
    + intros j x H _. apply nth_repeat in H. subst. reflexivity.
    + intros j x H Hp. apply nth_repeat in H. subst. discriminate.
    + intros H0. exfalso. rewrite Hst in H0. lia.
  - rewrite Hst, odd_double. discriminate.
Qed.
