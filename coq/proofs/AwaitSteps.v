(* Preservation of the Await invariant by the events that fire a callback, resume, submit, call or drop a coroutine,
   and the invariant for every reachable state.  Continues proofs/AwaitProofs.v. *)
From Coq Require Import List Arith Bool Lia.
Import ListNotations.
From YV Require Import gen.Gen_ready_c13 model.Await proofs.AwaitProofs.

Lemma upd_upd : forall A (l : list A) i a b, upd (upd l i a) i b = upd l i b.
Proof. induction l; intros [|i] x y; simpl; auto. f_equal. auto. Qed.

(* one coroutine and one object change, possibly the queues (only as far as that coroutine is concerned) *)
Lemma inv_move s s' c co co' o ob ob' :
  Inv s -> nth_error (cos s) c = Some co -> nth_error (objs s) o = Some ob ->
  objs s' = upd (objs s) o ob' -> cos s' = upd (cos s) c co' ->
  Forall2 (q_ext c) (qs s) (qs s') ->
  (forall t o1, In (t, o1) (stk s') -> In (t, o1) (stk s) \/ (o1 = o /\ othr ob' = Some t)) ->
  obj_ext c ob ob' -> obj_ok ob' -> (ext c s s' -> co_ok s' c co') -> Inv s'.
Proof.
  intros I Hc Ho E1 E2 Xq Hs X K Hk.
  assert (Xe : ext c s s'). { split; auto. rewrite E1. eapply Forall2_upd; eauto. apply obj_ext_refl. }
  eapply inv_update with (c0 := c); eauto.
  - intros c1 N. rewrite E2. apply nth_error_upd_neq. auto.
  - rewrite E1. apply Forall_upd; auto. apply I.
  - eapply stk_ok_ext; eauto. apply I. intros t o1 Hi. destruct (Hs t o1 Hi) as [|[-> Ht]]; auto.
    right. exists ob'. split; auto. rewrite E1. eapply nth_error_upd_eq; eauto.
  - intros co1 H1. rewrite E2 in H1. erewrite nth_error_upd_eq in H1 by eauto. inversion H1. subst. auto.
Qed.

Lemma swap_exec_eq sw c o s co ob :
  nth_error (cos s) c = Some co -> nth_error (objs s) o = Some ob ->
  swap_exec sw c o s =
  set_ob o (set_oexec (if sw then cexec co else oexec ob) ob) (set_co c (set_cexec (oexec ob) co) s).
Proof. intros H1 H2. unfold swap_exec. rewrite H1, H2. reflexivity. Qed.

Lemma out_upd_occ os o ob0 a b c :
  nth_error os o = Some ob0 -> occ c a = occ c b -> out (upd os o a) c = out (upd os o b) c.
Proof.
  intros H E. unfold out. pose proof (lsum_upd (occ c) _ _ a H). pose proof (lsum_upd (occ c) _ _ b H). lia.
Qed.

Lemma obj_ok_pop ob rest : obj_ok ob -> opend ob <> [] -> obj_ok (set_opend rest ob).
Proof.
  intros (A & B & C) N. unfold obj_ok. simpl. split; auto.
Qed.

Lemma obj_ok_exec ob x : obj_ok ob -> obj_ok (set_oexec x ob).
Proof. auto. Qed.

Lemma fire_top_spec2 s t o c s1 :
  fire_top s t = Some (o, c, s1) ->
  exists ob rest stk1, In (t, o) (stk s) /\ nth_error (objs s) o = Some ob /\ opend ob = c :: rest /\
                  s1 = set_stk stk1 (set_ob o (set_opend rest ob) s) /\ (forall x, In x stk1 -> In x (stk s)).
Proof.
  unfold fire_top. intros H. destruct (stk_top (stk s) t) as [o'|] eqn:E1; try discriminate.
  destruct (nth_error (objs s) o') as [ob|] eqn:E2; try discriminate.
  destruct (opend ob) as [|c' rest] eqn:E3; try discriminate. inversion H. subst. clear H.
  exists ob, rest. eexists. apply stk_top_in in E1. repeat split; eauto.
  intros x. destruct rest; auto. apply stk_pop_in.
Qed.

Ltac co_mv K Xe Ha Hs :=
  co_unfold; rewrite ?upd_upd in *; rewrite ?Ha, ?Hs in *; destruct K as (B & C & D & W & E & F & Hh & R);
  apply (C_ok_ext _ _ _ _ _ _ Xe) in C; apply (W_ok_ext _ _ _ _ _ _ _ _ Xe) in W; apply (E_ok_ext _ _ _ _ _ _ _ Xe) in E;
  red_rec; rewrite ?upd_upd in *;
  case_if; nat_eqs; subst; red_rec; rewrite ?Ha, ?Hs in *; split7; try assumption; try (parts; fin; fail);
  try (unfold F_ok in *; fin; fail).

Lemma last_is_wait a x k : B_ok (Some a) x 1 k -> 1 <= k -> acounted a = true -> x = AWait.
Proof.
  unfold B_ok. intros [Hsh B] Hk Ha.
  destruct x; auto; try lia;
  destruct a as [o1 b|o1 b|o1|f o1|f os|e| |]; try discriminate; try destruct f as [| |e]; try discriminate; simpl in *; try lia.
Qed.

(* a completion reaches a counted awaiter (several futures, or AwaitOn of one): SubEqual(1) *)
Lemma fire_counted_inv sw s t c v co a s1 o :
  Inv s -> nth_error (cos s) c = Some co -> capt co = Some a -> acounted a = true ->
  fire_top s t = Some (o, c, s1) -> 1 <= cnt co -> v = cnt co - 1 ->
  Inv (let s2 := set_co c (set_cnt v co) s1 in if Nat.eqb (cnt co) 1 then counted_last sw t o c a s2 else s2).
Proof.
  intros I Hc Ha Hac Hf Hle ->. apply fire_top_spec2 in Hf.
  destruct Hf as (ob & rest & stk1 & Hin & Ho & Hp & -> & E4).
  pose proof (inv_co _ _ _ I Hc) as K. pose proof (inv_obj _ _ _ I Ho) as Ko.
  assert (Hsh : shape_ok (cst co) a = true). { destruct K as (B & _). unfold B_ok in B. rewrite Ha in B. apply B. }
  assert (Hk1 : out (objs s) c = out (upd (objs s) o (set_opend rest ob)) c + 1).
  { symmetry. eapply out_upd_pop; eauto. }
  assert (Hne : opend ob <> []) by (rewrite Hp; discriminate).
  assert (Hres : ow ob = WRes) by (apply Ko; auto).
  assert (Hthr : othr ob = Some t). { destruct I as (_ & I2 & _). destruct (I2 _ _ Hin) as (ob1 & X1 & X2). congruence. }
  assert (Hlk : nth_error (upd (cos s) c (set_cnt (cnt co - 1) co)) c = Some (set_cnt (cnt co - 1) co)).
  { eapply nth_error_upd_eq; eauto. }
  assert (Hxo : obj_ext c ob (set_opend rest ob)) by (apply obj_ext_pop; auto).
  assert (Hoo : obj_ok (set_opend rest ob)) by (apply obj_ok_pop; auto).
  cbv zeta. destruct (Nat.eqb (cnt co) 1) eqn:Hlast; nat_eqs.
  - (* the last one *)
    unfold counted_last. simpl. rewrite Hlk.
    assert (Hs : cst co = AWait).
    { destruct K as (B & _). rewrite Ha, Hlast in B. eapply last_is_wait; eauto. lia. }
    rewrite Hs in Hsh.
    destruct a as [o1 b|o1 b|o1|f o1|f os|e| |]; try discriminate Hac; destruct f as [| |e]; try discriminate Hac; try discriminate Hsh; simpl.
    all: try (eapply (inv_move s _ c co _ o ob (set_opend rest ob) I Hc Ho);
         [reflexivity | simpl; rewrite upd_upd; reflexivity | apply Forall2_refl; apply q_ext_refl
         | simpl; intros; left; auto | exact Hxo | exact Hoo | intros Xe; co_mv K Xe Ha Hs]).
    all: try (eapply H_ok_upd; eauto; reflexivity).
    all: try (eapply R_ok_upd; eauto; left; pose proof (occ_pop c c ob rest Hp) as Xp; rewrite Nat.eqb_refl in Xp; lia).
    all: try (parts; simpl in *; (eapply reg_done_complete; [|exact C]); lia).
    all: try (unfold B_ok, C_ok in *; (eapply reg_done_complete; [|exact C]); simpl in *; lia).
    + (* resumed inline by the completer *)
      unfold resume_inline. simpl. rewrite Hlk.
      match goal with |- Inv (swap_exec sw c o ?s3) =>
        assert (L1 : nth_error (cos s3) c = Some (set_cst (AResume (ByFire o)) (set_on t (set_cnt (cnt co - 1) co))))
          by (simpl; eapply nth_error_upd_eq; eauto);
        assert (L2 : nth_error (objs s3) o = Some (set_opend rest ob)) by (simpl; eapply nth_error_upd_eq; eauto);
        rewrite (swap_exec_eq _ c o s3 _ _ L1 L2); clear L1 L2
      end.
      match goal with |- context [set_oexec ?x _] => generalize x; intros xe end.
      eapply (inv_move s _ c co _ o ob _ I Hc Ho).
      * simpl. rewrite upd_upd. reflexivity.
      * simpl. rewrite !upd_upd. reflexivity.
      * simpl. apply Forall2_refl. apply q_ext_refl.
      * simpl. intros; left; auto.
      * eapply obj_ext_trans. exact Hxo. apply obj_ext_exec.
      * apply obj_ok_exec. exact Hoo.
      * intros Xe. co_mv K Xe Ha Hs.
        all: assert (Hk2 : out (upd (objs s) o (set_oexec xe (set_opend rest ob))) c = 0)
          by (rewrite (out_upd_occ _ _ _ _ (set_opend rest ob) c Ho) by reflexivity; parts; simpl in *; lia).
        -- parts. simpl. split; auto.
        -- parts. eapply reg_done_complete; [|exact C]; auto.
        -- parts. right. destruct (R o ob Ho) as (a' & Ea & Hin').
           { pose proof (occ_pop c c ob rest Hp) as Xp. rewrite Nat.eqb_refl in Xp. lia. }
           inversion Ea; subst a'. exists o. eexists. split; auto. split; auto. split.
           eapply nth_error_upd_eq; eauto. simpl. auto.
        -- eapply H_ok_upd; eauto; reflexivity.
        -- eapply R_ok_upd; eauto. left. pose proof (occ_pop c c ob rest Hp) as Xp. rewrite Nat.eqb_refl in Xp.
           change (occ c (set_oexec xe (set_opend rest ob))) with (occ c (set_opend rest ob)). lia.
  - (* not the last one *)
    assert (Hk3 : 1 <= out (objs s) c) by lia.
    eapply (inv_move s _ c co _ o ob (set_opend rest ob) I Hc Ho);
      [reflexivity | reflexivity | apply Forall2_refl; apply q_ext_refl
      | simpl; intros; left; auto | exact Hxo | exact Hoo | ].
    intros Xe.
    destruct (cst co) eqn:Hs;
    destruct a as [o1 b|o1 b|o1|f o1|f os|e| |]; try discriminate Hac; destruct f as [| |e]; try discriminate Hac; try discriminate Hsh;
    co_mv K Xe Ha Hs.
    all: try (eapply H_ok_upd; eauto; reflexivity).
    all: try (eapply R_ok_upd; eauto; left; pose proof (occ_pop c c ob rest Hp) as Xp; rewrite Nat.eqb_refl in Xp; lia).
Qed.

Lemma step_csub_inv sw s t c v s' : Inv s -> step_csub sw s t c v = Some s' -> Inv s'.
Proof.
  intros I H. unfold step_csub in H. destruct (nth_error (cos s) c) as [co|] eqn:Hc; try discriminate.
  destruct (capt co) as [a|] eqn:Ha; try discriminate.
  pose proof (inv_co _ _ _ I Hc) as K.
  assert (Hsh : shape_ok (cst co) a = true). { destruct K as (B & _). unfold B_ok in B. rewrite Ha in B. apply B. }
  assert (Hfire : (if negb (acounted a) then None else
      match fire_top s t with
      | Some (o, c', s1) =>
          if Nat.eqb c' c && Nat.leb 1 (cnt co) && Nat.eqb v (cnt co - 1)
          then let s2 := set_co c (set_cnt v co) s1 in
               Some (if Nat.eqb (cnt co) 1 then counted_last sw t o c a s2 else s2)
          else None
      | None => None
      end) = Some s' -> Inv s').
  { clear H. intros H. destruct (negb (acounted a)) eqn:Hac; try discriminate.
    destruct (fire_top s t) as [[[o c'] s1]|] eqn:Hf; try discriminate.
    match type of H with (if ?b then _ else _) = _ => destruct b eqn:G; try discriminate end.
    nat_eqs. subst c'. inversion H; subst s'; clear H.
    eapply (fire_counted_inv sw s t c v co a s1 o); eauto. }
  destruct (cst co) eqn:Hs; try (apply Hfire; exact H); destruct (Nat.eqb (on co) t) eqn:Hon; try (apply Hfire; exact H); clear Hfire.
  - (* the constructor's fetch_sub *)
    match type of H with (if ?b then _ else _) = _ => destruct b eqn:G; try discriminate end.
    inversion H; subst; clear H. apply inv_co_only with (co := co); auto. nat_eqs.
    destruct a as [o1 b|o1 b|o1|f o1|f os|e| |]; try discriminate Hsh; destruct f as [| |e]; co_solve K Ha Hs.
  - (* await_suspend's SubEqual *)
    match type of H with (if ?b then _ else _) = _ => destruct b eqn:G; try discriminate end.
    inversion H; subst; clear H. apply inv_co_only with (co := co); auto. nat_eqs.
    destruct a as [o1 b|o1 b|o1|f o1|f os|e| |]; try discriminate Hsh; destruct f as [| |e]; co_solve K Ha Hs;
    parts; simpl in *; (eapply reg_done_complete; [|exact C]); lia.
Qed.

Definition after_plain (sw : bool) (o c : nat) (s2 : st) : st :=
  match nth_error (cos s2) c with
  | Some co2 => match cst co2 with AResume (ByFire _) => swap_exec sw c o s2 | _ => s2 end
  | None => s2
  end.

Ltac plain_inline s c o t co ob rest I Hc Ho Hxo Hoo K Ha Hs :=
  match goal with |- Inv (swap_exec _ c o ?s3) /\ _ =>
        let L1 := fresh "L1" in let L2 := fresh "L2" in
        assert (L1 : nth_error (cos s3) c = Some (set_cst (AResume (ByFire o)) (set_on t co)))
          by (simpl; eapply nth_error_upd_eq; eauto);
        assert (L2 : nth_error (objs s3) o = Some (set_opend rest ob)) by (simpl; eapply nth_error_upd_eq; eauto);
        rewrite (swap_exec_eq _ c o s3 _ _ L1 L2); clear L1 L2
      end;
  match goal with |- context [set_oexec ?x _] => generalize x; intros xe end;
  (split; [| do 2 eexists; split; [reflexivity|]; simpl; rewrite upd_upd; erewrite nth_error_upd_eq by eauto;
                 split; [reflexivity|]; simpl; auto]);
  eapply (inv_move s _ c co _ o ob _ I Hc Ho);
      [ simpl; rewrite upd_upd; reflexivity | simpl; rewrite !upd_upd; reflexivity
      | simpl; apply Forall2_refl; apply q_ext_refl | simpl; intros; left; auto
      | eapply obj_ext_trans; [exact Hxo | apply obj_ext_exec] | apply obj_ok_exec; exact Hoo | ];
  let Xe := fresh "Xe" in intros Xe; co_mv K Xe Ha Hs.

Ltac inline_fin s c o t co ob rest xe Ho Hk1 Hocc Hthr C R :=
  let Hk2 := fresh "Hk2" in
  assert (Hk2 : out (upd (objs s) o (set_oexec xe (set_opend rest ob))) c = 0)
    by (rewrite (out_upd_occ _ _ _ _ (set_opend rest ob) c Ho) by reflexivity; parts; simpl in *; lia);
  match goal with
  | |- B_ok _ _ _ _ => parts; simpl; split; auto
  | |- C_ok _ _ _ _ => unfold B_ok, C_ok in *; eapply reg_done_complete; [|exact C]; auto
  | |- W_ok _ _ _ _ _ _ => parts; simpl; right;
        let a' := fresh "a'" in let Ea := fresh "Ea" in let Hin' := fresh "Hin'" in
        destruct (R o ob Ho) as (a' & Ea & Hin'); [lia|]; inversion Ea; subst a'; exists o; eexists;
        split; [exact Hin'|]; split; [reflexivity|]; split; [eapply nth_error_upd_eq; eauto | simpl; auto]
  | |- H_ok _ _ _ _ _ _ _ _ _ => eapply H_ok_upd; eauto; reflexivity
  | |- R_ok _ _ _ => eapply R_ok_upd; eauto; left;
        change (occ c (set_oexec xe (set_opend rest ob))) with (occ c (set_opend rest ob)); lia
  end.

(* a completion reaches an awaiter without counter: co_await future / task, Await(f), AwaitSticky(f) *)
Lemma fire_plain_inv sw s t o c s1 s2 :
  Inv s -> fire_top s t = Some (o, c, s1) -> plain_fire t o c s1 = Some s2 ->
  Inv (after_plain sw o c s2) /\
  exists co2 co3, nth_error (cos s2) c = Some co2 /\ nth_error (cos (after_plain sw o c s2)) c = Some co3 /\
                  on co3 = t /\ cst co3 = cst co2 /\
                  (cst co2 = AResume (ByFire o) \/ cst co2 = AResume (ByExec 0) \/ exists x, cst co2 = ASubmit x).
Proof.
  intros I Hf Hp. apply fire_top_spec2 in Hf.
  destruct Hf as (ob & rest & stk1 & Hin & Ho & Hpd & -> & E4).
  unfold plain_fire in Hp. simpl in Hp.
  destruct (nth_error (cos s) c) as [co|] eqn:Hc; try discriminate.
  destruct (cst co) eqn:Hs; try discriminate. destruct (capt co) as [a|] eqn:Ha; try discriminate.
  destruct (acounted a) eqn:Hac; try discriminate.
  pose proof (inv_co _ _ _ I Hc) as K. pose proof (inv_obj _ _ _ I Ho) as Ko.
  assert (Hsh : shape_ok (cst co) a = true). { destruct K as (B & _). unfold B_ok in B. rewrite Ha in B. apply B. }
  rewrite Hs in Hsh.
  assert (Hk1 : out (objs s) c = out (upd (objs s) o (set_opend rest ob)) c + 1).
  { symmetry. eapply out_upd_pop; eauto. }
  assert (Hne : opend ob <> []) by (rewrite Hpd; discriminate).
  assert (Hres : ow ob = WRes) by (apply Ko; auto).
  assert (Hthr : othr ob = Some t). { destruct I as (_ & I2 & _). destruct (I2 _ _ Hin) as (ob1 & X1 & X2). congruence. }
  assert (Hxo : obj_ext c ob (set_opend rest ob)) by (apply obj_ext_pop; auto).
  assert (Hoo : obj_ok (set_opend rest ob)) by (apply obj_ok_pop; auto).
  assert (Hocc : occ c (set_opend rest ob) + 1 = occ c ob).
  { pose proof (occ_pop c c ob rest Hpd) as Xp. rewrite Nat.eqb_refl in Xp. auto. }
  destruct a as [o1 b|o1 b|o1|f o1|f os|e| |]; try discriminate Hac; try discriminate Hsh; try destruct f as [| |e];
    try discriminate Hac; simpl in Hp; inversion Hp; subst s2; clear Hp; unfold after_plain; simpl;
    erewrite nth_error_upd_eq by eauto; red_rec.
  5: { (* AwaitSticky(f): the awaiter's Call submits the coroutine to its own executor *)
    unfold do_submit. destruct (Nat.eqb (cexec co) 0) eqn:Hx; red_rec.
    - split.
      + eapply (inv_move s _ c co _ o ob (set_opend rest ob) I Hc Ho);
        [reflexivity | reflexivity | apply Forall2_refl; apply q_ext_refl
        | simpl; intros; left; auto | exact Hxo | exact Hoo | ].
        intros Xe. co_mv K Xe Ha Hs.
        all: try (eapply H_ok_upd; eauto; reflexivity).
        all: try (eapply R_ok_upd; eauto; left; lia).
        all: try (unfold B_ok, C_ok in *; (eapply reg_done_complete; [|exact C]); simpl in *; lia).
      + do 2 eexists. split; [reflexivity|]. simpl. erewrite nth_error_upd_eq by eauto. split; [reflexivity|].
        simpl. auto.
    - split.
      + eapply (inv_move s _ c co _ o ob (set_opend rest ob) I Hc Ho);
        [reflexivity | reflexivity | apply Forall2_refl; apply q_ext_refl
        | simpl; intros; left; auto | exact Hxo | exact Hoo | ].
        intros Xe. co_mv K Xe Ha Hs.
        all: try (eapply H_ok_upd; eauto; reflexivity).
        all: try (eapply R_ok_upd; eauto; left; lia).
        all: try (unfold B_ok, C_ok in *; (eapply reg_done_complete; [|exact C]); simpl in *; lia).
      + do 2 eexists. split; [reflexivity|]. simpl. erewrite nth_error_upd_eq by eauto. split; [reflexivity|].
        simpl. split; auto. split; auto. right. right. eauto. }
  - plain_inline s c o t co ob rest I Hc Ho Hxo Hoo K Ha Hs; inline_fin s c o t co ob rest xe Ho Hk1 Hocc Hthr C R.
  - plain_inline s c o t co ob rest I Hc Ho Hxo Hoo K Ha Hs; inline_fin s c o t co ob rest xe Ho Hk1 Hocc Hthr C R.
  - plain_inline s c o t co ob rest I Hc Ho Hxo Hoo K Ha Hs; inline_fin s c o t co ob rest xe Ho Hk1 Hocc Hthr C R.
  - plain_inline s c o t co ob rest I Hc Ho Hxo Hoo K Ha Hs; inline_fin s c o t co ob rest xe Ho Hk1 Hocc Hthr C R.
Qed.

Lemma out_zero_occ os c o ob : out os c = 0 -> nth_error os o = Some ob -> occ c ob = 0.
Proof. intros H E. pose proof (@lsum_ge _ (occ c) _ _ _ E) as L. unfold out in H. lia. Qed.

Lemma R_ok_zero os c ca : out os c = 0 -> R_ok os c ca.
Proof. intros H o ob Hn Ho. rewrite (out_zero_occ _ _ _ _ H Hn) in Ho. lia. Qed.

Definition the_rec (os : list obj) (co : coro) (a : apt) (h : how) (t : nat) : rrec :=
  {| rk := pc co; rhow := h; rthr := t; rok := forallb (ocomplete os) (aobjs a);
     rval := match aconsume a with
             | Some (o, _) => Some (match nth_error os o with Some ob => oslot ob | None => None end)
             | None => None
             end;
     rexec := cexec co; rown := cown0 co; rlive := match cend co with Running => true | _ => false end |}.

Lemma the_rec_ok os co a h t :
  capt co = Some a -> cend co = Running -> all_complete os (aobjs a) -> where_ok os a h t (cexec co) (cown0 co) ->
  rec_ok os (prog co) (the_rec os co a h t).
Proof.
  intros Ha Hrun Hc Hw. unfold rec_ok, the_rec. simpl. split; [|split].
  - apply forallb_forall. intros o Ho. apply Hc. auto.
  - rewrite Hrun. reflexivity.
  - intros a' Ha'. unfold capt in Ha. rewrite Ha in Ha'. inversion Ha'; subst a'. split; auto. split; auto.
    destruct (aconsume a) as [[o b]|] eqn:Hco; auto.
    assert (Hin : In o (aobjs a)). { destruct a; simpl in Hco; inversion Hco; subst; simpl; auto. }
    specialize (Hc o Hin). unfold ocomplete in Hc. destruct (nth_error os o) as [ob|] eqn:E; try discriminate.
    unfold complete in Hc. destruct (ow ob); try discriminate. destruct (oslot ob) eqn:S; try discriminate. eauto.
Qed.

Lemma E_ok_next os pg p rs rd r :
  E_ok os pg p rs rd -> rk r = p -> p < length pg -> rec_ok os pg r -> E_ok os pg (S p) (rs ++ [r]) rd.
Proof.
  intros ((E1 & E1') & E2 & E3) Hk Hl Hr. split; [split|split]; auto.
  - rewrite map_app, E1, seq_S. simpl. congruence.
  - apply Forall_app. split; auto.
Qed.

Lemma finish_await_inv s t c h co s' :
  Inv s -> nth_error (cos s) c = Some co -> cst co = AResume h -> on co = t ->
  finish_await t c h s = Some s' -> Inv s'.
Proof.
  intros I Hc Hs Hon H. unfold finish_await in H. rewrite Hc in H.
  destruct (capt co) as [a|] eqn:Ha; try discriminate.
  pose proof (inv_co _ _ _ I Hc) as K.
  pose proof K as (B0 & C0 & _ & W0 & E0 & _ & H0 & _).
  rewrite Ha, Hs in B0, C0, W0. rewrite Hs in H0. unfold B_ok in B0. destruct B0 as [_ Hk0]. unfold C_ok in C0. unfold W_ok in W0.
  rewrite Hon in W0.
  fold (the_rec (objs s) co a h t) in H.
  assert (Hrun : cend co = Running). { destruct H0 as (H1 & _). apply H1. reflexivity. }
  pose proof (the_rec_ok (objs s) co a h t Ha Hrun C0 W0) as Hrec.
  assert (Hpl : pc co < length (prog co)). { apply nth_error_lt with (a := a). exact Ha. }
  assert (Hnormal : forall r, r = the_rec (objs s) co a h t -> Inv (set_co c (resumed r ARun (set_on t co)) s)).
  { intros r ->. apply inv_co_only with (co := co); auto.
    destruct (nth_error (prog co) (S (pc co))) eqn:Ha';
    co_unfold; rewrite ?Ha, ?Hs in *; destruct K as (B & C & D & W & E & F & Hh & R); red_rec; rewrite ?Ha', ?Hrun in *;
    split7; try assumption; try (parts; fin; fail); try (apply R_ok_zero; auto; fail);
    try (apply E_ok_next; auto; fail).
  }
  destruct (aconsume a) as [[oc [|]]|] eqn:Hco.
  - inversion H; subst s'. apply Hnormal. unfold the_rec. rewrite Hco. reflexivity.
  - match type of H with match ?y with _ => _ end = _ => destruct y as [e|] eqn:Hv end.
    + apply store_own_spec in H. destruct H as (co1 & ob & H1 & H2 & H3 & H4 & ->).
      simpl in H1. erewrite nth_error_upd_eq in H1 by eauto. inversion H1; subst co1; clear H1. simpl in H2.
      set (r := the_rec (objs s) co a h t) in *.
      assert (Hrv : rval r = Some (Some e)).
      { unfold r, the_rec. simpl. rewrite Hco. destruct (nth_error (objs s) oc) as [ob1|]; simpl in Hv; try discriminate.
        destruct (oslot ob1) as [[| |]|]; simpl in Hv; try discriminate; inversion Hv; reflexivity. }
      assert (Hie : is_err (Some e) = Some e).
      { destruct (nth_error (objs s) oc) as [ob1|]; simpl in Hv; try discriminate.
        destruct (oslot ob1) as [[| |]|]; simpl in Hv; try discriminate; inversion Hv; reflexivity. }
      eapply (inv_co_obj s c co _ (own co) ob _ (stk s)); eauto.
      * apply obj_ext_slot; auto. intros c1 E1. congruence.
      * apply obj_ok_slot. eapply inv_obj; eauto.
      * match goal with |- co_ok ?s2 _ _ => assert (Xe : ext c s s2) end.
        { eapply ext_obj; eauto; try reflexivity. apply obj_ext_slot; auto. intros c1 E1. congruence. }
        assert (Xo : out (upd (objs s) (own co) (set_oslot (Some e) ob)) c = 0).
        { erewrite out_upd_same by (eauto; reflexivity). auto. }
        destruct (nth_error (prog co) (S (pc co))) eqn:Ha';
        co_unfold; rewrite ?Ha, ?Hs in *; destruct K as (B & C & D & W & E & F & Hh & R);
        apply (E_ok_ext _ _ _ _ _ _ _ Xe) in E; apply (ext_rec_ok _ _ _ _ _ Xe) in Hrec;
        red_rec; rewrite ?Ha', ?Hrun in *;
        split7; try assumption; try (parts; fin; fail); try (apply R_ok_zero; auto; fail);
        try (apply E_ok_next; auto; fail); try (unfold F_ok in *; fin; fail).
        all: destruct Hh as (G1 & G2 & G3 & G4); unfold H_ok; (split; [split; intros; discriminate|]);
          (split; [intros _; eexists; split; [eapply nth_error_upd_eq; eauto| split; auto]|]);
          (split; [intros ob1 Hn Hp; erewrite nth_error_upd_eq in Hn by eauto; inversion Hn; subst; simpl; eapply G3; eauto|]);
          exists (resumes co), r, a, oc; repeat split; auto.
    + inversion H; subst s'. apply Hnormal. unfold the_rec. rewrite Hco. reflexivity.
  - inversion H; subst s'. apply Hnormal. unfold the_rec. rewrite Hco. reflexivity.
Qed.

Lemma step_res_inv sw s t c s' : Inv s -> step_res sw s t c = Some s' -> Inv s'.
Proof.
  intros I H. unfold step_res in H. destruct (nth_error (cos s) c) as [co|] eqn:Hc; try discriminate.
  destruct (cst co) eqn:Hs; try discriminate.
  - (* suspended: the first thing seen of an inline completion *)
    destruct (fire_top s t) as [[[o c'] s1]|] eqn:Hf; try discriminate.
    destruct (negb (Nat.eqb c' c)) eqn:Hcc; try discriminate. nat_eqs. subst c'.
    destruct (plain_fire t o c s1) as [s2|] eqn:Hp; try discriminate.
    destruct (fire_plain_inv sw _ _ _ _ _ _ I Hf Hp) as (I2 & co2 & co3 & L2 & L3 & Hon3 & Hs3 & Hcase).
    unfold after_plain in *. rewrite L2 in I2, L3, H.
    destruct Hcase as [Hcs|[Hcs|[x Hcs]]]; rewrite Hcs in I2, L3, H, Hs3; try discriminate.
    + eapply finish_await_inv; eauto.
    + eapply finish_await_inv; eauto.
  - destruct (Nat.eqb (on co) t) eqn:Hon; try discriminate. nat_eqs. eapply finish_await_inv; eauto.
Qed.

(* one coroutine changes, and the queues as far as that coroutine is concerned *)
Lemma inv_co_q s s' c co co' :
  Inv s -> nth_error (cos s) c = Some co -> objs s' = objs s -> cos s' = upd (cos s) c co' ->
  Forall2 (q_ext c) (qs s) (qs s') -> stk s' = stk s -> co_ok s' c co' -> Inv s'.
Proof.
  intros I Hc E1 E2 Xq E4 K.
  assert (Xe : ext c s s'). { split; auto. rewrite E1. apply Forall2_refl. apply obj_ext_refl. }
  eapply inv_update with (c0 := c); eauto.
  - intros c1 N. rewrite E2. apply nth_error_upd_neq. auto.
  - rewrite E1. apply I.
  - eapply stk_ok_ext; eauto. apply I. rewrite E4. auto.
  - intros co1 H1. rewrite E2 in H1. erewrite nth_error_upd_eq in H1 by eauto. inversion H1. subst. auto.
Qed.

Lemma submit_inv s c co x s' :
  Inv s -> nth_error (cos s) c = Some co -> cst co = ASubmit x ->
  enqueue x c (set_co c (set_cst (AQueued x) co) s) = Some s' -> Inv s'.
Proof.
  intros I Hc Hs H. unfold enqueue in H. simpl in H. destruct (nth_error (qs s) x) as [q|] eqn:Hq; try discriminate.
  inversion H; subst s'; clear H. pose proof (inv_co _ _ _ I Hc) as K.
  eapply (inv_co_q s _ c co _ I Hc); try reflexivity.
  - simpl. eapply Forall2_upd; eauto. apply q_ext_refl. intros c1 N. rewrite cocc_app. simpl.
    destruct (Nat.eqb c c1) eqn:X; nat_eqs; try congruence. lia.
  - destruct (capt co) eqn:Ha; co_solve K Ha Hs.
    all: destruct D as [D1 D2]; split;
      [ intros x1 q1 Hq1; rewrite nth_error_upd in Hq1; destruct (Nat.eqb x x1) eqn:X; nat_eqs;
        [ subst x1; rewrite Hq in Hq1; inversion Hq1; subst q1; rewrite cocc_app, (D1 _ _ Hq); simpl; rewrite Nat.eqb_refl; reflexivity
        | apply D1 in Hq1; auto ]
      | intros x1 Hx1; inversion Hx1; subst x1; eexists; eapply nth_error_upd_eq; eauto ].
Qed.

Lemma step_submit_inv s t x c s' : Inv s -> step_submit s t x c = Some s' -> Inv s'.
Proof.
  intros I H. unfold step_submit in H. destruct (nth_error (cos s) c) as [co|] eqn:Hc; try discriminate.
  destruct (cst co) eqn:Hs; try discriminate.
  - destruct (fire_top s t) as [[[o c'] s1]|] eqn:Hf; try discriminate.
    destruct (negb (Nat.eqb c' c)) eqn:Hcc; try discriminate. nat_eqs. subst c'.
    destruct (plain_fire t o c s1) as [s2|] eqn:Hp; try discriminate.
    destruct (fire_plain_inv false _ _ _ _ _ _ I Hf Hp) as (I2 & co2 & co3 & L2 & L3 & Hon3 & Hs3 & Hcase).
    unfold after_plain in *. rewrite L2 in I2, L3, H.
    destruct Hcase as [Hcs|[Hcs|[x1 Hcs]]]; rewrite Hcs in I2, L3, H; try discriminate.
    destruct (Nat.eqb x1 x) eqn:Hx; try discriminate. nat_eqs. subst x1.
    eapply (submit_inv s2 c co2 x); eauto.
  - match type of H with (if ?b then _ else _) = _ => destruct b eqn:G; try discriminate end. nat_eqs. subst.
    eapply submit_inv; eauto.
Qed.

Lemma dequeue_spec x c s s1 :
  dequeue x c s = Some s1 ->
  exists q, nth_error (qs s) x = Some q /\ In c q /\ s1 = set_qs (upd (qs s) x (remove1 c q)) s.
Proof.
  unfold dequeue. destruct (nth_error (qs s) x) as [q|] eqn:E; try discriminate.
  destruct (mem c q) eqn:M; try discriminate. intros H; inversion H. exists q. split; auto. split; auto.
  apply mem_in. auto.
Qed.

Lemma queued_state s c co x q :
  co_ok s c co -> nth_error (qs s) x = Some q -> In c q -> cst co = AQueued x.
Proof.
  intros (_ & _ & (D1 & _) & _) Hq Hi. apply cocc_in in Hi. rewrite (D1 _ _ Hq) in Hi.
  destruct (cst co); simpl in Hi; try lia. destruct (Nat.eqb x0 x) eqn:X; try lia. nat_eqs. congruence.
Qed.

Lemma D_ok_dequeue l c x q :
  nth_error l x = Some q -> D_ok l c (Some x) -> D_ok (upd l x (remove1 c q)) c None.
Proof.
  intros Hq [D1 D2]. split; [|discriminate]. intros x1 q1 Hq1. rewrite nth_error_upd in Hq1.
  destruct (Nat.eqb x x1) eqn:X; nat_eqs.
  - subst x1. rewrite Hq in Hq1. inversion Hq1; subst q1. pose proof (D1 _ _ Hq) as Y. rewrite Nat.eqb_refl in Y.
    assert (Hi : In c q) by (apply cocc_in; lia). pose proof (cocc_remove1_same c q Hi). lia.
  - pose proof (D1 _ _ Hq1) as Y. apply Nat.eqb_neq in X. rewrite X in Y. auto.
Qed.

Lemma q_ext_dequeue c q : q_ext c q (remove1 c q).
Proof. intros c1 N. apply cocc_remove1_other. auto. Qed.

Lemma ev_call_inv sw s t x c s' : Inv s -> step_g true sw s (ECall t x c) = Some s' -> Inv s'.
Proof.
  intros I H. simpl in H. destruct (dequeue x c s) as [s1|] eqn:Hd; try discriminate.
  apply dequeue_spec in Hd. destruct Hd as (q & Hq & Hi & ->). simpl in H.
  destruct (nth_error (cos s) c) as [co|] eqn:Hc; try discriminate. inversion H; subst s'; clear H.
  pose proof (inv_co _ _ _ I Hc) as K. pose proof (queued_state _ _ _ _ _ K Hq Hi) as Hs.
  eapply (inv_co_q s _ c co _ I Hc); try reflexivity.
  - simpl. eapply Forall2_upd; eauto. apply q_ext_refl. apply q_ext_dequeue.
  - assert (Hsh : forall a, capt co = Some a -> shape_ok (cst co) a = true).
    { intros a Ha. destruct K as (B & _). unfold B_ok in B. rewrite Ha in B. apply B. }
    destruct (capt co) as [a|] eqn:Ha.
    + specialize (Hsh a eq_refl). rewrite Hs in Hsh.
      destruct a as [o1 b|o1 b|o1|f o1|f os|e| |]; try discriminate Hsh; try destruct f as [| |e]; try discriminate Hsh;
      co_solve K Ha Hs; try (eapply D_ok_dequeue; eauto; fail).
    + co_solve K Ha Hs; try (eapply D_ok_dequeue; eauto; fail).
Qed.


Lemma ev_drop_inv sw s t x c s' : Inv s -> step_g true sw s (EDrop t x c) = Some s' -> Inv s'.
Proof.
  intros I H. simpl in H. destruct (dequeue x c s) as [s1|] eqn:Hd; try discriminate.
  apply dequeue_spec in Hd. destruct Hd as (q & Hq & Hi & ->). simpl in H.
  destruct (nth_error (cos s) c) as [co|] eqn:Hc; try discriminate.
  apply store_own_spec in H. destruct H as (co1 & ob & H1 & H2 & H3 & H4 & ->).
  simpl in H1. erewrite nth_error_upd_eq in H1 by eauto. inversion H1; subst co1; clear H1. simpl in H2.
  pose proof (inv_co _ _ _ I Hc) as K. pose proof (queued_state _ _ _ _ _ K Hq Hi) as Hs.
  eapply (inv_move s _ c co _ (own co) ob (set_oslot (Some RStop) ob) I Hc H2); try reflexivity.
  - simpl. eapply Forall2_upd; eauto. apply q_ext_refl. apply q_ext_dequeue.
  - simpl. intros; left; auto.
  - apply obj_ext_slot; auto. intros c1 E1. congruence.
  - apply obj_ok_slot. eapply inv_obj; eauto.
  - intros Xe.
    assert (Xo : out (upd (objs s) (own co) (set_oslot (Some RStop) ob)) c = out (objs s) c).
    { erewrite out_upd_same by (eauto; reflexivity). auto. }
    assert (Hrun : cend co = Running). { destruct K as (_ & _ & _ & _ & _ & _ & (G1 & _) & _). apply G1. rewrite Hs. reflexivity. }
    destruct (capt co) as [a|] eqn:Ha; co_mv K Xe Ha Hs; try (rewrite Xo; parts; fin; fail);
    try (eapply D_ok_dequeue; eauto; fail); try (eapply R_ok_upd; eauto; fail).
    all: destruct Hh as (G1 & G2 & G3 & G4); unfold H_ok; (split; [split; intros; discriminate|]);
          (split; [intros _; eexists; split; [eapply nth_error_upd_eq; eauto| split; auto]|]);
          (split; [intros ob1 Hn Hp; erewrite nth_error_upd_eq in Hn by eauto; inversion Hn; subst; simpl; eapply G3; eauto|]); auto.
Qed.

(* ---------------------------------------------------------------- every reachable state *)

Lemma ready_rule : c13_ready_is_result = true.
Proof. reflexivity. Qed.

Lemma step_g_inv sw s e s' : Inv s -> step_g true sw s e = Some s' -> Inv s'.
Proof.
  intros I H. destruct e.
  - eapply step_ld_inv; eauto.
  - eapply step_cas_inv; eauto.
  - eapply step_st_inv; eauto.
  - eapply step_xchg_inv; eauto.
  - eapply step_csub_inv; eauto.
  - eapply step_cld_inv; eauto.
  - eapply ev_set_inv; eauto.
  - eapply ev_spawn_inv; eauto.
  - eapply step_begin_inv; eauto.
  - eapply step_res_inv; eauto.
  - eapply ev_ret_inv; eauto.
  - eapply ev_local_inv; eauto.
  - eapply ev_free_inv; eauto.
  - eapply step_submit_inv; eauto.
  - eapply ev_call_inv; eauto.
  - eapply ev_drop_inv; eauto.
Qed.

Lemma init_occ os o ob c : nth_error (map mk_obj os) o = Some ob -> occ c ob = 0 /\ ow ob = WStack [].
Proof.
  intros H. apply nth_error_In in H. apply in_map_iff in H. destruct H as (x & <- & _). split; reflexivity.
Qed.

Lemma init_out os c : out (map mk_obj os) c = 0.
Proof. unfold out. induction os; simpl; auto. Qed.

Lemma init_inv os cs nx : Inv (init os cs nx).
Proof.
  unfold Inv, init. simpl. split; [|split].
  - apply Forall_forall. intros ob Hi. apply in_map_iff in Hi. destruct Hi as (x & <- & _).
    unfold obj_ok, mk_obj. simpl. repeat split; intros; try discriminate; try congruence; auto.
  - intros t o [].
  - intros c co Hn. apply nth_error_In in Hn. apply in_map_iff in Hn. destruct Hn as (x & <- & _).
    unfold co_ok, mk_coro, capt. simpl. rewrite init_out. split7.
    + unfold B_ok. destruct (s_prog x); simpl; auto.
    + unfold C_ok. destruct (s_prog x); simpl; auto.
    + split; [|discriminate]. intros x1 q Hq. apply nth_error_In in Hq. apply repeat_spec in Hq. subst. reflexivity.
    + unfold W_ok. destruct (s_prog x); simpl; auto.
    + split; [split|split]; simpl; auto. lia.
    + unfold F_ok. auto.
    + unfold H_ok. split. { split; auto. } split. { intros N; congruence. } split; auto.
      intros ob Hn _. apply init_occ with (c := 0) in Hn. destruct Hn as [_ ->]. reflexivity.
    + intros o ob Hn Ho. apply init_occ with (c := c) in Hn. lia.
Qed.

Lemma inv_reach_g sw os cs nx tr s : run_g true sw (init os cs nx) tr = Some s -> Inv s.
Proof.
  assert (G : forall tr s0 s, Inv s0 -> run_g true sw s0 tr = Some s -> Inv s).
  { induction tr0 as [|e tr0 IH]; simpl; intros s0 s1 I H. inversion H; subst; auto.
    destruct (step_g true sw s0 e) eqn:E; try discriminate. eapply (IH s2 s1); auto. eapply step_g_inv; eauto. }
  intros H. eapply G; eauto. apply init_inv.
Qed.

Lemma inv_reach os cs nx tr s : run (init os cs nx) tr = Some s -> Inv s.
Proof. unfold run. rewrite ready_rule. apply inv_reach_g. Qed.

(* ... whichever way PromiseType::Impl hands the executor over *)
Lemma inv_reach_any sw os cs nx tr s : run_g c13_ready_is_result sw (init os cs nx) tr = Some s -> Inv s.
Proof. rewrite ready_rule. apply inv_reach_g. Qed.


