(* EventProofs.v - second half of the C16 proofs: the steps of a waiter and of SetImpl on a waiter's job preserve
   the invariant (EventBase.Inv); then the facts the C16 theorems are made of. *)
From Coq Require Import List Arith Bool Lia.
Import ListNotations.
From YV Require Import model.Event proofs.EventBase.

Lemma gb_not_all s : Gb s = true -> is_all (head s) = false -> todo s = [] /\ incall s = None.
Proof.
  unfold Gb. intros G Ha. rewrite Ha in G. destruct (todo s), (incall s); bsimp; try discriminate; auto.
Qed.

Lemma gb_uaf s : Gb s = true -> uaf s = false.
Proof. unfold Gb. intros G. destruct (uaf s); bsimp; try discriminate; auto. Qed.

Lemma top_all h : top h = HA -> is_all h = true.
Proof. destruct h as [[|x l]|]; simpl; try discriminate; auto. Qed.

Lemma hv_eqb_eq a b : hv_eqb a b = true -> a = b.
Proof. destruct a, b; simpl; try discriminate; auto. intros H. apply Nat.eqb_eq in H. congruence. Qed.

Lemma inv_wloc s w r : Inv s -> nth_error (ws s) w = Some r ->
  wloc (is_all (head s)) (occ w (lst s)) (icb (incall s) w) r = true.
Proof. intros (_ & _ & _ & (W1 & _) & _) Hn. apply W1; auto. Qed.

Ltac wfields r := destruct r as [k0 p0 rg0 cl0 ed0 wd0 rf0 fr0 rc0]; simpl in *.

Ltac wcases :=
  repeat match goal with
         | x : wkind |- _ => destruct x; simpl in *; try discriminate
         | x : wpc |- _ => destruct x; simpl in *; try discriminate
         | x : bool |- _ => destruct x; simpl in *; try discriminate
         end.

Ltac wunfold :=
  unfold wloc, wcore, needs_all, w_pc, w_release, w_register, w_called, w_called_release, w_decref in *; simpl in *.

(* kind, pc and reg first (they guard the conditionals), then the conjunction is split and the numeric fields are
   substituted by their values; what remains is closed after destructing the remaining booleans *)
Ltac wsolve :=
  wunfold;
  repeat match goal with
         | x : wkind |- _ => destruct x; simpl in *; try discriminate
         | x : wpc |- _ => destruct x; simpl in *; try discriminate
         end;
  match goal with
  | H : context [if ?b then _ else _] |- _ => is_var b; destruct b; simpl in *; try discriminate
  | _ => idtac
  end;
  split_and; subst; simpl in *; try discriminate;
  wcases; bsimp; split_and; subst; try discriminate; try lia; bgoal.

(* a step1 that changes nothing but waiter w's record (and the records of observations) *)
Lemma inv_w_local s w r r' u' rl' :
  Inv s -> nth_error (ws s) w = Some r ->
  wloc (is_all (head s)) (occ w (lst s)) (icb (incall s) w) r' = true ->
  u' = false ->
  (rl' = rels s /\ relc r' = relc r) \/
  (rl' = rels s ++ [(w, cnt s, fired s)] /\ relc r' = S (relc r) /\ is_all (head s) = true) ->
  Inv (wstate s (head s) (todo s) (incall s) w r' u' rl').
Proof.
  intros I Hn Hd Hu Hr. pose proof I as (G & _ & _ & (_ & W2 & W3) & _).
  eapply inv_w_frame; eauto.
  apply gb_not_all; auto.
Qed.

Lemma obs_all v h : hv_eqb v (top h) = true -> v = HA -> is_all h = true.
Proof. intros H ->. apply hv_eqb_eq in H. apply top_all; auto. Qed.

Lemma wloc_all hA o ic r : wloc hA o ic r = true -> needs_all r = true -> hA = true.
Proof.
  unfold wloc. intros H Hn. apply andb_true_iff in H. destruct H as [_ H]. rewrite Hn in H.
  destruct hA; auto.
Qed.

(* abstract the three global facts about w, forget the state *)
Ltac abstract_globals s w :=
  generalize dependent (occ w (lst s)); generalize dependent (icb (incall s) w);
  generalize dependent (is_all (head s)); clear s.

Lemma inv_ready_chk s w r v s' :
  Inv s -> nth_error (ws s) w = Some r -> step_w s w r (EReadyChk w v) = Some s' -> Inv s'.
Proof.
  intros I Hn H. pose proof (inv_wloc _ _ _ I Hn) as Hw. pose proof (gb_uaf s (proj1 I)) as Hu. simpl in H.
  destruct (is_coro (wk r) && hv_eqb v (top (head s))) eqn:Eg; [|discriminate].
  apply andb_true_iff in Eg. destruct Eg as [Ek Ev]. pose proof (obs_all _ _ Ev) as Ha. clear Ev.
  destruct (pc r) eqn:Ep; try discriminate. inv_some H.
  apply (inv_w_local s w r _ _ (rels s)); auto.
  clear I Hn Hu. abstract_globals s w. intros hA Ha ic o Hw.
  wfields r; subst; destruct v; try (specialize (Ha eq_refl)); wsolve.
Qed.

Lemma inv_try_ld s w r v s' :
  Inv s -> nth_error (ws s) w = Some r -> step_w s w r (ETryLd w v) = Some s' -> Inv s'.
Proof.
  intros I Hn H. pose proof (inv_wloc _ _ _ I Hn) as Hw. pose proof (gb_uaf s (proj1 I)) as Hu. simpl in H.
  destruct (hv_eqb v (top (head s))) eqn:Ev; [|discriminate]. pose proof (obs_all _ _ Ev) as Ha. clear Ev.
  destruct (pc r) eqn:Ep; try discriminate; destruct (is_coro (wk r)) eqn:Ek; try discriminate; inv_some H.
  all: apply (inv_w_local s w r _ _ (rels s)); auto.
  all: clear I Hn Hu; abstract_globals s w; intros hA Ha ic o Hw.
  all: wfields r; subst; destruct v; try (specialize (Ha eq_refl)); wsolve.
Qed.

Lemma occ_cons_other w0 w l : w0 <> w -> occ w0 (w :: l) = occ w0 l.
Proof. intros H. simpl. replace (Nat.eqb w w0) with false; auto. symmetry. apply Nat.eqb_neq. auto. Qed.

Lemma occ_cons_same w l : occ w (w :: l) = S (occ w l).
Proof. simpl. rewrite Nat.eqb_refl. reflexivity. Qed.

Lemma inv_try_cas s w r a s' :
  Inv s -> nth_error (ws s) w = Some r -> step_w s w r (ETryCas w a) = Some s' -> Inv s'.
Proof.
  intros I Hn H. pose proof (inv_wloc _ _ _ I Hn) as Hw. pose proof (gb_uaf s (proj1 I)) as Hu. simpl in H.
  destruct (pc r) eqn:Ep; try discriminate.
  destruct (hv_eqb a (HJ w)) eqn:Es.
  - (* success: push *)
    destruct (head s) as [l|] eqn:Eh; [|discriminate].
    destruct (hv_eqb (top (Stack l)) e); [|discriminate]. inv_some H.
    pose proof I as (G & _ & _ & (_ & W2 & W3) & _).
    change (Inv (wstate s (Stack (w :: l)) (todo s) (incall s) w (w_register r) (uaf s) (rels s))).
    eapply inv_w_frame; eauto.
    + rewrite Eh. reflexivity.
    + intros w0 Hne. unfold lst. rewrite Eh. simpl stk. rewrite <- app_comm_cons. apply occ_cons_other; auto.
    + unfold lst in Hw. rewrite Eh in Hw. simpl stk in *. rewrite <- app_comm_cons, occ_cons_same.
      clear I Hn Hu G W2 W3. simpl is_all in *. generalize dependent (occ w (l ++ todo s)).
      generalize dependent (icb (incall s) w). clear Eh s. intros ic o Hw.
      wfields r; subst; wsolve.
    + rewrite Eh in W2. simpl stk in *. rewrite <- app_comm_cons. constructor; auto. eapply nth_some_lt; eauto.
    + intros _. apply gb_not_all; auto. rewrite Eh. reflexivity.
  - (* failure: expected is refreshed *)
    destruct (hv_eqb a (top (head s))) eqn:Ev; [|discriminate]. pose proof (obs_all _ _ Ev) as Ha. clear Ev.
    inv_some H.
    apply (inv_w_local s w r _ _ (rels s)); auto.
    clear I Hn Hu Es. abstract_globals s w. intros hA Ha ic o Hw.
    wfields r; subst; destruct a; try (specialize (Ha eq_refl)); wsolve.
Qed.

(* the obligations of a local step1, once the three global facts are abstracted *)
Ltac local_d I Hn Hu s w r :=
  clear I Hn Hu; abstract_globals s w; intros hA ic o Hw; wfields r; subst; wsolve.

Ltac rel_right Hw :=
  right; split; [reflexivity|split; [reflexivity|]];
  eapply wloc_all; [exact Hw|]; unfold needs_all; simpl;
  repeat match goal with H : _ = _ |- _ => rewrite H end; simpl; auto using orb_true_r.

Lemma inv_ret s w r s' :
  Inv s -> nth_error (ws s) w = Some r -> step_w s w r (ERet w) = Some s' -> Inv s'.
Proof.
  intros I Hn H. pose proof (inv_wloc _ _ _ I Hn) as Hw. pose proof (gb_uaf s (proj1 I)) as Hu. simpl in H.
  case_hyp H; inv_some H.
  all: apply (inv_w_local s w r _ _ _ I Hn); [| exact Hu | rel_right Hw].
  all: local_d I Hn Hu s w r.
Qed.

Lemma inv_self_submit s w r s' :
  Inv s -> nth_error (ws s) w = Some r -> step_w s w r (ESelfSubmit w) = Some s' -> Inv s'.
Proof.
  intros I Hn H. pose proof (inv_wloc _ _ _ I Hn) as Hw. pose proof (gb_uaf s (proj1 I)) as Hu. simpl in H.
  case_hyp H; inv_some H.
  apply (inv_w_local s w r _ _ (rels s) I Hn); [| exact Hu | left; split; reflexivity].
  local_d I Hn Hu s w r.
Qed.

Lemma inv_tmo s w r s' :
  Inv s -> nth_error (ws s) w = Some r -> step_w s w r (ETmo w) = Some s' -> Inv s'.
Proof.
  intros I Hn H. pose proof (inv_wloc _ _ _ I Hn) as Hw. pose proof (gb_uaf s (proj1 I)) as Hu. simpl in H.
  case_hyp H; inv_some H.
  apply (inv_w_local s w r _ _ (rels s) I Hn); [| exact Hu | left; split; reflexivity].
  local_d I Hn Hu s w r.
Qed.

Lemma inv_run_w s w r s' :
  Inv s -> nth_error (ws s) w = Some r -> step_w s w r (ERun w) = Some s' -> Inv s'.
Proof.
  intros I Hn H. pose proof (inv_wloc _ _ _ I Hn) as Hw. pose proof (gb_uaf s (proj1 I)) as Hu. simpl in H.
  case_hyp H; inv_some H.
  apply (inv_w_local s w r _ _ _ I Hn); [| exact Hu | rel_right Hw].
  local_d I Hn Hu s w r.
Qed.

(* a timed waiter of which somebody still holds a reference has not been destroyed *)
Lemma timed_alive hA o ic r :
  wloc hA o ic r = true -> wk r = KTimed -> reg r = true -> wdec r = false \/ edec r = false -> frees r = 0.
Proof.
  intros Hw Hk Hr Hc. wfields r. subst. destruct Hc as [->| ->]; wsolve.
Qed.

Lemma parked_alive hA o ic r :
  wloc hA o ic r = true -> wk r = KTimed -> (pc r = WParked \/ exists b, pc r = WWoke b) -> frees r = 0.
Proof.
  intros Hw Hk Hc. eapply timed_alive; eauto.
  - wfields r; subst. destruct Hc as [->|[b ->]]; wunfold; destruct rg0; bsimp; split_and; try discriminate; auto.
  - left. wfields r; subst. destruct Hc as [->|[b ->]]; wunfold; destruct rg0, wd0; bsimp; split_and; try discriminate; auto.
Qed.

Lemma inv_twake s w r b s' :
  Inv s -> nth_error (ws s) w = Some r -> step_w s w r (ETWake w b) = Some s' -> Inv s'.
Proof.
  intros I Hn H. pose proof (inv_wloc _ _ _ I Hn) as Hw. pose proof (gb_uaf s (proj1 I)) as Hu. simpl in H.
  case_hyp H; inv_some H. apply eqb_prop in Heqb0.
  assert (Hfr : frees r = 0).
  { eapply parked_alive; eauto. }
  apply (inv_w_local s w r _ _ (rels s) I Hn); [| simpl; rewrite Hu, Hfr; reflexivity | left; split; reflexivity].
  clear Hfr. local_d I Hn Hu s w r.
Qed.

Lemma inv_dec_w s w r old s' :
  Inv s -> nth_error (ws s) w = Some r -> step_w s w r (EDecW w old) = Some s' -> Inv s'.
Proof.
  intros I Hn H. pose proof (inv_wloc _ _ _ I Hn) as Hw. pose proof (gb_uaf s (proj1 I)) as Hu. simpl in H.
  case_hyp H; inv_some H.
  assert (Hfr : frees r = 0).
  { eapply parked_alive; eauto. }
  apply (inv_w_local s w r _ _ (rels s) I Hn); [| simpl; rewrite Hu, Hfr; reflexivity | left; split; reflexivity].
  clear Hfr Heqb0. local_d I Hn Hu s w r.
Qed.

(* ---- SetImpl calling the jobs ----------------------------------------------------------------------------- *)

Lemma occ_mid w a rest : occ w (a ++ w :: rest) = S (occ w (a ++ rest)).
Proof. rewrite !occ_app, occ_cons_same. lia. Qed.

Lemma occ_mid_other w0 w a rest : w0 <> w -> occ w0 (a ++ w :: rest) = occ w0 (a ++ rest).
Proof. intros H. rewrite !occ_app, occ_cons_other; auto. Qed.

Lemma Forall_mid {A} (P : A -> Prop) a x rest : Forall P (a ++ x :: rest) -> Forall P (a ++ rest) /\ P x.
Proof.
  intros H. apply Forall_app in H. destruct H as [H1 H2]. inversion H2; subst. split; auto.
  apply Forall_app; auto.
Qed.

Lemma icb_some_other w w0 : w0 <> w -> icb (Some w) w0 = false.
Proof. intros H. simpl. apply Nat.eqb_neq. auto. Qed.

Lemma inv_call s w r s' :
  Inv s -> nth_error (ws s) w = Some r -> step_w s w r (ECall w) = Some s' -> Inv s'.
Proof.
  intros I Hn H. pose proof (inv_wloc _ _ _ I Hn) as Hw. pose proof (gb_uaf s (proj1 I)) as Hu. simpl in H.
  destruct (todo s) as [|x rest] eqn:Et; [discriminate|].
  destruct (incall s) eqn:Ei; [discriminate|].
  destruct (Nat.eqb x w) eqn:Ex; [|discriminate]. apply Nat.eqb_eq in Ex. subst x.
  pose proof I as (G & _ & _ & (_ & W2 & W3) & _).
  assert (Hall : is_all (head s) = true).
  { destruct (is_all (head s)) eqn:E; auto. destruct (gb_not_all _ G E) as [E1 _]. congruence. }
  unfold lst in Hw. rewrite Et, Hall, occ_mid in Hw. simpl icb in Hw.
  rewrite Et in W2. apply Forall_mid in W2. destruct W2 as [W2 Hlt].
  assert (Hfr : wk r = KTimed -> frees r = 0).
  { intros Hk. eapply timed_alive; eauto.
    - wfields r; subst. wunfold. destruct rg0; bsimp; split_and; try discriminate; auto.
    - right. wfields r; subst. wunfold. destruct rg0, cl0, ed0; bsimp; split_and; try discriminate; auto. }
  destruct (wk r) eqn:Ek; inv_some H.
  - change (Inv (wstate s (head s) rest None w (w_called (pc r) r) (uaf s) (rels s))).
    eapply inv_w_frame; eauto.
    + intros w0 Hne. unfold lst. rewrite Et. apply eq_sym, occ_mid_other; auto.
    + intros w0 Hne. rewrite Ei. reflexivity.
    + rewrite Hall. simpl icb. clear I Hn Hu G W3 Hfr Hlt W2. generalize dependent (occ w (stk (head s) ++ rest)).
      clear Et Ei Hall s. intros o Hw. wfields r; subst; wsolve.
    + intros x Hx; discriminate.
    + intros E. congruence.
  - change (Inv (wstate s (head s) rest (Some w) w (w_called (pc r) r) (uaf s || Nat.ltb 0 (frees r)) (rels s))).
    eapply inv_w_frame; eauto.
    + intros w0 Hne. unfold lst. rewrite Et. apply eq_sym, occ_mid_other; auto.
    + intros w0 Hne. rewrite Ei. apply icb_some_other; auto.
    + rewrite Hall. simpl icb. rewrite Nat.eqb_refl.
      clear I Hn Hu G W3 Hfr Hlt W2. generalize dependent (occ w (stk (head s) ++ rest)).
      clear Et Ei Hall s. intros o Hw. wfields r; subst; wsolve.
    + intros x Hx. inv_some Hx. auto.
    + intros E. congruence.
    + rewrite Hu, Hfr; auto.
  - change (Inv (wstate s (head s) rest None w (w_called_release r) (uaf s) (rels s ++ [(w, cnt s, fired s)]))).
    eapply inv_w_frame; eauto.
    + intros w0 Hne. unfold lst. rewrite Et. apply eq_sym, occ_mid_other; auto.
    + intros w0 Hne. rewrite Ei. reflexivity.
    + rewrite Hall. simpl icb. clear I Hn Hu G W3 Hfr Hlt W2. generalize dependent (occ w (stk (head s) ++ rest)).
      clear Et Ei Hall s. intros o Hw. wfields r; subst; wsolve.
    + intros x Hx; discriminate.
    + intros E. congruence.
  - change (Inv (wstate s (head s) rest None w (w_called WQueued r) (uaf s) (rels s))).
    eapply inv_w_frame; eauto.
    + intros w0 Hne. unfold lst. rewrite Et. apply eq_sym, occ_mid_other; auto.
    + intros w0 Hne. rewrite Ei. reflexivity.
    + rewrite Hall. simpl icb. clear I Hn Hu G W3 Hfr Hlt W2. generalize dependent (occ w (stk (head s) ++ rest)).
      clear Et Ei Hall s. intros o Hw. wfields r; subst; wsolve.
    + intros x Hx; discriminate.
    + intros E. congruence.
  - change (Inv (wstate s (head s) rest None w (w_called WQueued r) (uaf s) (rels s))).
    eapply inv_w_frame; eauto.
    + intros w0 Hne. unfold lst. rewrite Et. apply eq_sym, occ_mid_other; auto.
    + intros w0 Hne. rewrite Ei. reflexivity.
    + rewrite Hall. simpl icb. clear I Hn Hu G W3 Hfr Hlt W2. generalize dependent (occ w (stk (head s) ++ rest)).
      clear Et Ei Hall s. intros o Hw. wfields r; subst; wsolve.
    + intros x Hx; discriminate.
    + intros E. congruence.
  - change (Inv (wstate s (head s) rest None w (w_called_release r) (uaf s) (rels s ++ [(w, cnt s, fired s)]))).
    eapply inv_w_frame; eauto.
    + intros w0 Hne. unfold lst. rewrite Et. apply eq_sym, occ_mid_other; auto.
    + intros w0 Hne. rewrite Ei. reflexivity.
    + rewrite Hall. simpl icb. clear I Hn Hu G W3 Hfr Hlt W2. generalize dependent (occ w (stk (head s) ++ rest)).
      clear Et Ei Hall s. intros o Hw. wfields r; subst; wsolve.
    + intros x Hx; discriminate.
    + intros E. congruence.
Qed.

Lemma inv_dec_e s w r old s' :
  Inv s -> nth_error (ws s) w = Some r -> step_w s w r (EDecE w old) = Some s' -> Inv s'.
Proof.
  intros I Hn H. pose proof (inv_wloc _ _ _ I Hn) as Hw. pose proof (gb_uaf s (proj1 I)) as Hu. simpl in H.
  destruct (incall s) as [x|] eqn:Ei; [|discriminate].
  destruct (wk r) eqn:Ek; try discriminate.
  destruct (Nat.eqb x w && Nat.eqb old (refs r)) eqn:Eg; [|discriminate].
  apply andb_true_iff in Eg. destruct Eg as [Ex Eo]. apply Nat.eqb_eq in Ex. subst x. inv_some H.
  pose proof I as (G & _ & _ & (_ & W2 & W3) & _).
  assert (Hall : is_all (head s) = true).
  { destruct (is_all (head s)) eqn:E; auto. destruct (gb_not_all _ G E) as [_ E1]. congruence. }
  simpl icb in Hw. rewrite Nat.eqb_refl, Hall in Hw.
  assert (Hfr : frees r = 0).
  { eapply timed_alive; eauto.
    - wfields r; subst. wunfold. destruct rg0, cl0; bsimp; split_and; try discriminate; auto.
    - right. wfields r; subst. wunfold. destruct rg0, cl0, ed0; bsimp; split_and; try discriminate; auto. }
  change (Inv (wstate s (head s) (todo s) None w (w_decref true (pc r) r) (uaf s || Nat.ltb 0 (frees r)) (rels s))).
  eapply inv_w_frame; eauto.
  - intros w0 Hne. rewrite Ei. apply eq_sym, icb_some_other; auto.
  - rewrite Hall. simpl icb. clear I Hn Hu G W2 W3 Hfr Eo. change (stk (head s) ++ todo s) with (lst s).
    generalize dependent (occ w (lst s)). clear Ei Hall s. intros o Hw. wfields r; subst; wsolve.
  - intros x Hx; discriminate.
  - intros E. congruence.
  - rewrite Hu, Hfr; auto.
Qed.

(* ---- the invariant holds in every reachable state ---------------------------------------------------- *)

Lemma inv_step_w s w r e s' :
  Inv s -> nth_error (ws s) w = Some r -> ev_w e = Some w -> step_w s w r e = Some s' -> Inv s'.
Proof.
  intros I Hn He H. destruct e; simpl in He; try discriminate; inv_some He.
  - eapply inv_call; eauto.
  - eapply inv_dec_e; eauto.
  - eapply inv_run_w; eauto.
  - eapply inv_ready_chk; eauto.
  - eapply inv_try_ld; eauto.
  - eapply inv_try_cas; eauto.
  - eapply inv_ret; eauto.
  - eapply inv_self_submit; eauto.
  - eapply inv_twake; eauto.
  - eapply inv_dec_w; eauto.
  - eapply inv_tmo; eauto.
Qed.

Ltac step_dispatch I H :=
  match type of H with
  | context [nth_error (ws ?s) ?w] =>
      let Hn := fresh "Hn" in
      destruct (nth_error (ws s) w) as [r|] eqn:Hn; [|discriminate];
      eapply inv_step_w; [exact I|exact Hn| |exact H]; reflexivity
  | context [nth_error (fs ?s) ?j] =>
      let Hn := fresh "Hn" in
      destruct (nth_error (fs s) j) as [r|] eqn:Hn; [|discriminate];
      eapply inv_step_f; [exact I|exact Hn|exact H]
  end.

Theorem inv_step1 s e s' : Inv s -> step1 s e = Some s' -> Inv s'.
Proof.
  intros I H. destruct e.
  1: eapply inv_new_w; eauto.
  1: eapply inv_new_f; eauto.
  1: eapply inv_add; eauto.
  1: eapply inv_sub; eauto.
  1: eapply inv_user_set; eauto.
  1: eapply inv_xchg; eauto.
  all: unfold step1, ev_w, ev_f in H; cbv beta iota in H; try discriminate H; try step_dispatch I H.
Qed.

Theorem inv_run1 tr : forall s s', Inv s -> run1 s tr = Some s' -> Inv s'.
Proof.
  induction tr as [|e tr IH]; simpl; intros s s' I H.
  - inv_some H. exact I.
  - destruct (step1 s e) as [s1|] eqn:E; [|discriminate]. eapply IH; [|exact H]. eapply inv_step1; eauto.
Qed.

Theorem inv_reach1 n tr s : run1 (init n) tr = Some s -> Inv s.
Proof. apply inv_run1. apply inv_init. Qed.

(* ---- the rule of use as a predicate on traces = the model's [broken] flag ------------------------------- *)

Lemma step_w_counters s w r e s' : step_w s w r e = Some s' ->
  cnt s' = cnt s /\ uu s' = uu s /\ fired s' = fired s /\ broken s' = broken s /\ pend s' = pend s /\ fs s' = fs s.
Proof.
  intros H. destruct e; simpl in H; try discriminate; case_hyp H; inv_some H; simpl; auto 10.
Qed.

Definition counter_ev (e : ev) : bool :=
  match e with EAdd _ _ | ESub _ _ | EUserSet | EFAdd _ _ | EFSubA _ _ | EFSubP _ _ => true | _ => false end.

Lemma step_f_counters s j r e s' : step_f s j r e = Some s' -> counter_ev e = false ->
  cnt s' = cnt s /\ uu s' = uu s /\ fired s' = fired s /\ broken s' = broken s.
Proof.
  intros H He. destruct e; simpl in H, He; try discriminate; case_hyp H; inv_some H; simpl; auto.
Qed.

Lemma leb_ltb a b : (a <=? b) = negb (b <? a).
Proof. apply Nat.leb_antisym. Qed.

Lemma rule_step1 s e s' r : step1 s e = Some s' -> broken s = false ->
  rule_from (cnt s) (uu s) (fired s) (e :: r) = negb (broken s') && rule_from (cnt s') (uu s') (fired s') r.
Proof.
  intros H Hb. destruct e; simpl rule_from.
  1: { simpl in H; inv_some H; simpl; rewrite Hb; reflexivity. }
  1: { simpl in H; inv_some H; simpl; rewrite Hb; reflexivity. }
  1: { simpl in H; case_hyp H; inv_some H; simpl; rewrite Hb; reflexivity. }
  1: { simpl in H; case_hyp H; inv_some H; simpl; rewrite Hb. rewrite !leb_ltb.
       destruct (n =? 0), (uu s <? n), (cnt s <? n), (cnt s =? n), (fired s); reflexivity. }
  1: { simpl in H; inv_some H; simpl; rewrite Hb. destruct (fired s), (cnt s =? 0); reflexivity. }
  1: { simpl in H; case_hyp H; inv_some H; simpl; rewrite Hb; reflexivity. }
  all: unfold step1, ev_w, ev_f in H; cbv beta iota in H; try discriminate H.
  all: match type of H with
       | context [nth_error (ws ?s) ?w] =>
           destruct (nth_error (ws s) w) as [r0|] eqn:Hn; [|discriminate];
           destruct (step_w_counters _ _ _ _ _ H) as (-> & -> & -> & -> & _); rewrite Hb; reflexivity
       | context [nth_error (fs ?s) ?j] =>
           destruct (nth_error (fs s) j) as [r0|] eqn:Hn; [|discriminate]
       end.
  all: try (destruct (step_f_counters _ _ _ _ _ H eq_refl) as (-> & -> & -> & ->); rewrite Hb; reflexivity).
  all: simpl in H; case_hyp H; inv_some H; simpl; rewrite ?Hb, ?Nat.add_0_r, ?Nat.sub_0_r; simpl; try reflexivity.
  all: destruct (cnt s) as [|[|c]], (fired s); simpl; reflexivity.
Qed.

Lemma broken_mono_step1 s e s' : step1 s e = Some s' -> broken s = true -> broken s' = true.
Proof.
  intros H Hb. destruct e.
  1-6: simpl in H; try (case_hyp H); inv_some H; simpl; rewrite ?Hb; auto.
  all: unfold step1, ev_w, ev_f in H; cbv beta iota in H; try discriminate H.
  all: match type of H with
       | context [nth_error (ws ?s) ?w] =>
           destruct (nth_error (ws s) w) as [r0|] eqn:Hn; [|discriminate];
           destruct (step_w_counters _ _ _ _ _ H) as (_ & _ & _ & -> & _); auto
       | context [nth_error (fs ?s) ?j] =>
           destruct (nth_error (fs s) j) as [r0|] eqn:Hn; [|discriminate]
       end.
  all: simpl in H; case_hyp H; inv_some H; simpl; rewrite ?Hb; auto.
Qed.

Lemma broken_mono1 tr : forall s s', run1 s tr = Some s' -> broken s = true -> broken s' = true.
Proof.
  induction tr as [|e tr IH]; simpl; intros s s' H Hb.
  - inv_some H. auto.
  - destruct (step1 s e) as [s1|] eqn:E; [|discriminate]. eapply IH; eauto. eapply broken_mono_step1; eauto.
Qed.

Lemma rule_run1 tr : forall s s', run1 s tr = Some s' -> broken s = false ->
  rule_from (cnt s) (uu s) (fired s) tr = negb (broken s').
Proof.
  induction tr as [|e tr IH]; intros s s' H Hb.
  - simpl in H. inv_some H. rewrite Hb. reflexivity.
  - simpl in H. destruct (step1 s e) as [s1|] eqn:E; [|discriminate].
    rewrite (rule_step1 _ _ _ tr E Hb). destruct (broken s1) eqn:Hb1; simpl.
    + rewrite (broken_mono1 _ _ _ H Hb1). reflexivity.
    + apply IH; auto.
Qed.

Theorem rule_is_not_broken1 n tr s : run1 (init n) tr = Some s -> follows_rule n tr = negb (broken s).
Proof. intros H. apply (rule_run1 tr (init n) s H). reflexivity. Qed.

(* ---- consequences, in the terms of the property ------------------------------------------------------------ *)

Lemma run_app1 tr1 : forall tr2 s s2, run1 s (tr1 ++ tr2) = Some s2 ->
  exists s1, run1 s tr1 = Some s1 /\ run1 s1 tr2 = Some s2.
Proof.
  induction tr1 as [|e tr1 IH]; simpl; intros tr2 s s2 H.
  - eauto.
  - destruct (step1 s e) as [s'|]; [|discriminate]. apply IH; auto.
Qed.

(* (1) releases happen at zero, zero is stable, zero means everything added has been done / completed *)
Lemma rels_at_zero s : Inv s -> broken s = false -> Forall rel_ok (rels s).
Proof. intros (_ & _ & _ & _ & (R1 & _)) Hb. auto. Qed.

Lemma fired_zero s : Inv s -> broken s = false -> fired s = true -> cnt s = 0.
Proof.
  intros (G & _) Hb Hf. unfold Gb in G. rewrite Hb, Hf in G. bsimp. split_and. auto.
Qed.

Lemma zero_all_done s : Inv s -> broken s = false -> cnt s = 0 ->
  uu s = 0 /\ forall j r, nth_error (fs s) j = Some r -> holds r = false /\ (ap r <> A0 -> fw r = WR).
Proof.
  intros (_ & C & F & _) Hb Hc. specialize (C Hb). split; [lia|].
  intros j r Hn. assert (Hh : holds r = false) by (eapply sumh_zero; eauto; lia).
  split; auto. intros Ha. eapply Forall_nth in F; eauto. simpl in F.
  destruct r as [k w a p v fr h]; simpl in *. subst h.
  destruct w, a, p; simpl in *; try discriminate; try congruence; auto.
Qed.

Lemma fired_mono_step1 s e s' : step1 s e = Some s' -> fired s = true -> fired s' = true.
Proof.
  intros H Hb. destruct e.
  1-6: simpl in H; try (case_hyp H); inv_some H; simpl; rewrite ?Hb; auto.
  all: unfold step1, ev_w, ev_f in H; cbv beta iota in H; try discriminate H.
  all: match type of H with
       | context [nth_error (ws ?s) ?w] =>
           destruct (nth_error (ws s) w) as [r0|] eqn:Hn; [|discriminate];
           destruct (step_w_counters _ _ _ _ _ H) as (_ & _ & -> & _); auto
       | context [nth_error (fs ?s) ?j] =>
           destruct (nth_error (fs s) j) as [r0|] eqn:Hn; [|discriminate]
       end.
  all: simpl in H; case_hyp H; inv_some H; simpl; rewrite ?Hb; auto.
Qed.

Lemma fired_mono1 tr : forall s s', run1 s tr = Some s' -> fired s = true -> fired s' = true.
Proof.
  induction tr as [|e tr IH]; simpl; intros s s' H Hb.
  - inv_some H. auto.
  - destruct (step1 s e) as [s1|] eqn:E; [|discriminate]. eapply IH; eauto. eapply fired_mono_step1; eauto.
Qed.

(* while the count is non-zero (and the rule has been respected so far) it has never been zero: the documented
   condition "Add only while the count is non-zero" implies the model's rule for the next Add *)
Lemma nonzero_not_fired s : Inv s -> broken s = false -> cnt s <> 0 -> fired s = false.
Proof.
  intros I Hb Hc. destruct (fired s) eqn:Hf; auto. exfalso. apply Hc. apply fired_zero; auto.
Qed.

(* (2) every waiter once *)
Lemma waiter_once s w r : Inv s -> nth_error (ws s) w = Some r ->
  relc r <= 1 /\ relcount w (rels s) = relc r /\ (relc r = 1 <-> pc r = WDone).
Proof.
  intros I Hn. pose proof (inv_wloc _ _ _ I Hn) as Hw. destruct I as (_ & _ & _ & _ & (_ & _ & _ & R4 & _)).
  rewrite (R4 _ _ Hn). clear R4 Hn.
  generalize dependent (occ w (lst s)). generalize dependent (icb (incall s) w).
  generalize dependent (is_all (head s)). intros hA ic o Hw.
  unfold wloc, wcore in Hw. split_and.
  destruct (pc r); simpl in *; repeat split; try lia; try discriminate; auto.
Qed.

Lemma quiescent_all_called s w r : Inv s -> broken s = false -> fired s = true -> quiescent s = true ->
  nth_error (ws s) w = Some r ->
  is_all (head s) = true /\
  (reg r = true -> called r = true /\ (wk r = KTimed -> edec r = true)) /\
  (pc r = WParked -> called r = true /\ (wk r = KBlock \/ wk r = KTimed)) /\
  (wk r = KTimed -> pc r = WDone \/ pc r = WTmo -> frees r = 1).
Proof.
  intros I Hb Hf Hq Hn. pose proof (inv_wloc _ _ _ I Hn) as Hw. destruct I as (G & _).
  unfold quiescent in Hq. apply andb_true_iff in Hq. destruct Hq as [Hq Hi].
  apply andb_true_iff in Hq. destruct Hq as [Hp Ht]. apply Nat.eqb_eq in Hp.
  assert (Ha : is_all (head s) = true).
  { unfold Gb in G. rewrite Hb, Hf, Hp in G. destruct (is_all (head s)); auto; bsimp; discriminate. }
  unfold lst in Hw. destruct (todo s); [|discriminate]. destruct (incall s); [discriminate|].
  destruct (head s) as [l|]; [discriminate|]. simpl in Hw. clear G Hn Hp Ht Hi Hf Hb.
  split; [reflexivity|].
  wfields r. wunfold.
  repeat split; intros; subst; wcases; bsimp; split_and; subst; try discriminate; auto.
  all: try (destruct H0; discriminate).
Qed.

(* after the all-done exchange nobody registers any more, and a waiter that is inside TryAdd leaves it with "false" *)
Lemma step_w_reg s w r e s' : step_w s w r e = Some s' ->
  exists r', ws s' = upd w r' (ws s) /\ (reg r' = reg r \/ is_all (head s) = false) /\
             (is_all (head s) = true -> (pc r = WTry \/ (exists x, pc r = WCas x) \/ (pc r = W0 /\ wk r <> KInline /\ wk r <> KSticky)) ->
              match e with ETryLd _ _ | ETryCas _ _ => pc r' = WPass | _ => True end).
Proof.
  intros H. destruct e; simpl in H; try discriminate.
  all: case_hyp H; inv_some H; simpl; eexists; split; try reflexivity; simpl; auto.
  all: try (split; [auto|]; intros Ha Hp; auto).
  all: try (match goal with E : head ?s0 = Stack _ |- _ => rewrite E in *; simpl in *; try discriminate end).
  all: try (match goal with E : hv_eqb ?v (top (head ?s0)) = true |- _ =>
              apply hv_eqb_eq in E; destruct (head s0) as [[|y l]|]; simpl in *; subst; try discriminate; auto end).
  all: try discriminate.
Qed.

Lemma no_late_registration1 s e s' w r' : is_all (head s) = true -> step1 s e = Some s' ->
  nth_error (ws s') w = Some r' -> reg r' = true -> exists r, nth_error (ws s) w = Some r /\ reg r = true.
Proof.
  intros Ha H Hn Hr. destruct e.
  1-6: simpl in H; try (case_hyp H); inv_some H; simpl in *; eauto.
  1: { apply nth_app_new in Hn. destruct Hn as [Hn|[_ ->]]; eauto. destruct k; discriminate. }
  all: unfold step1, ev_w, ev_f in H; cbv beta iota in H; try discriminate H.
  all: match type of H with
       | context [nth_error (ws ?s) ?w0] =>
           destruct (nth_error (ws s) w0) as [r0|] eqn:Hn0; [|discriminate];
           destruct (step_w_reg _ _ _ _ _ H) as (r1 & E & [Hreg|Hreg] & _); [|congruence];
           rewrite E in Hn;
           match type of Hn with nth_error (upd ?a _ _) _ = _ =>
             destruct (Nat.eq_dec a w) as [->|Hne];
             [erewrite nth_upd_same in Hn; eauto; inv_some Hn; exists r0; split; [auto|congruence]
             |rewrite nth_upd_other in Hn; eauto] end
       | context [nth_error (fs ?s) ?j] =>
           destruct (nth_error (fs s) j) as [r0|] eqn:Hn0; [|discriminate];
           assert (E : ws s' = ws s) by (simpl in H; case_hyp H; inv_some H; reflexivity);
           rewrite E in Hn; eauto
       end.
Qed.

(* (3) the timed waiter's heap object *)
Lemma timed_lifetime s w r : Inv s -> nth_error (ws s) w = Some r -> wk r = KTimed ->
  uaf s = false /\ frees r <= 1 /\ refs r <= 2 /\
  (reg r = true -> refs r = 2 - b2n (wdec r) - b2n (edec r) /\ frees r = b2n (wdec r && edec r)) /\
  (reg r = false -> frees r = match pc r with WDone => 1 | _ => 0 end).
Proof.
  intros I Hn Hk. pose proof (inv_wloc _ _ _ I Hn) as Hw. split; [apply gb_uaf; apply I|]. clear I Hn.
  generalize dependent (occ w (lst s)). generalize dependent (icb (incall s) w).
  generalize dependent (is_all (head s)). intros hA ic o Hw.
  wfields r. subst. wunfold. destruct rg0; bsimp; split_and; subst.
  - destruct wd0, ed0; simpl; repeat split; auto; try discriminate.
  - destruct p0; simpl in *; repeat split; auto; try discriminate; intros; try lia.
Qed.

(* (4) (5) futures *)
Lemma future_facts s j r : Inv s -> nth_error (fs s) j = Some r ->
  frel r <= 1 /\
  (fk r = FAttach -> frel r = 0 /\ (fw r = WR -> exists x, fval r = Some x /\ rd r = Some x)) /\
  (fk r = FConsume -> (ap r = AOk \/ ap r = ADone) -> pp r = PDone -> frel r = 1) /\
  (fw r = WR <-> (pp r = PCb \/ pp r = PCbRel \/ pp r = PDone)).
Proof.
  intros (_ & _ & F & _) Hn. eapply Forall_nth in F; eauto. simpl in F. clear Hn.
  destruct r as [k w a p v fr h]; unfold rd, finv in *; simpl in *.
  destruct k, w, a, p, v, h; simpl in *; try discriminate; bsimp; split_and; subst; try discriminate.
  all: repeat split; intros; try lia; try discriminate; eauto.
  all: try (match goal with H : _ \/ _ |- _ => destruct H as [H|H]; try discriminate end).
  all: try (match goal with H : _ \/ _ |- _ => destruct H as [H|H]; try discriminate end); auto.
Qed.

Lemma observations_ok s : Inv s -> Forall ready_ok (readys s) /\ Forall (got_ok (fs s)) (gots s).
Proof. intros (_ & _ & _ & _ & (_ & R2 & R3 & _)). auto. Qed.

(* (6) OneShotEvent alone: without counter events, [fired] means Set was called *)
Definition ose_trace (tr : list ev) : bool :=
  forallb (fun e => match e with EAdd _ _ | ESub _ _ | EFAdd _ _ | EFSubA _ _ | EFSubP _ _ | EFAddN _ _ | EFSubN _ _ => false | _ => true end) tr.

Lemma ose_fired1 tr : forall s s', run1 s tr = Some s' -> ose_trace tr = true -> fired s' = true ->
  fired s = true \/ In EUserSet tr.
Proof.
  induction tr as [|e tr IH]; simpl; intros s s' H Ho Hf.
  - inv_some H. auto.
  - destruct (step1 s e) as [s1|] eqn:E; [|discriminate]. apply andb_true_iff in Ho. destruct Ho as [He Ho].
    destruct (IH _ _ H Ho Hf) as [Hf1|Hin]; [|auto].
    destruct e; try discriminate; auto.
    1-2: simpl in E; inv_some E; auto.
    1: { simpl in E. case_hyp E; inv_some E; auto. }
    all: unfold step1, ev_w, ev_f in E; cbv beta iota in E; try discriminate E.
    all: match type of E with
         | context [nth_error (ws ?s) ?w] =>
             destruct (nth_error (ws s) w) as [r0|] eqn:Hn; [|discriminate];
             destruct (step_w_counters _ _ _ _ _ E) as (_ & _ & Ef & _); left; congruence
         | context [nth_error (fs ?s) ?j] =>
             destruct (nth_error (fs s) j) as [r0|] eqn:Hn; [|discriminate];
             destruct (step_f_counters _ _ _ _ _ E eq_refl) as (_ & _ & Ef & _); left; congruence
         end.
Qed.

Lemma run_app_intro1 tr1 : forall tr2 s s1 s2, run1 s tr1 = Some s1 -> run1 s1 tr2 = Some s2 ->
  run1 s (tr1 ++ tr2) = Some s2.
Proof.
  induction tr1 as [|e tr1 IH]; simpl; intros tr2 s s1 s2 H1 H2.
  - inv_some H1. auto.
  - destruct (step1 s e) as [s'|]; [|discriminate]. eapply IH; eauto.
Qed.

Lemma rule_ok1 n tr s : run1 (init n) tr = Some s -> follows_rule n tr = true -> broken s = false.
Proof. intros H Hr. rewrite (rule_is_not_broken1 _ _ _ H) in Hr. destruct (broken s); auto; discriminate. Qed.

Lemma released_fired s w r : Inv s -> nth_error (ws s) w = Some r -> pc r = WDone ->
  is_all (head s) = true /\ fired s = true.
Proof.
  intros I Hn Hp. pose proof (inv_wloc _ _ _ I Hn) as Hw. destruct I as (G & _).
  assert (Ha : is_all (head s) = true).
  { eapply wloc_all; eauto. unfold needs_all. rewrite Hp. apply orb_true_r. }
  split; auto. unfold Gb in G. rewrite Ha in G. destruct (fired s); auto; bsimp; discriminate.
Qed.

Lemma late_waiter_passes1 s w r e s' :
  is_all (head s) = true -> nth_error (ws s) w = Some r ->
  (pc r = WTry \/ (exists x, pc r = WCas x) \/ (pc r = W0 /\ wk r <> KInline /\ wk r <> KSticky)) ->
  (exists v, e = ETryLd w v) \/ (exists a, e = ETryCas w a) ->
  step1 s e = Some s' -> exists r', nth_error (ws s') w = Some r' /\ pc r' = WPass.
Proof.
  intros Ha Hn Hp He H.
  assert (Hs : step_w s w r e = Some s').
  { destruct He as [[v ->]|[a ->]]; unfold step1, ev_w, ev_f in H; cbv beta iota in H; rewrite Hn in H; exact H. }
  destruct (step_w_reg _ _ _ _ _ Hs) as (r' & E & _ & Hpass). exists r'. split.
  - rewrite E. eapply nth_upd_same; eauto.
  - specialize (Hpass Ha Hp). destruct He as [[v ->]|[a ->]]; exact Hpass.
Qed.

Lemma woken_can_return1 s w r : nth_error (ws s) w = Some r -> pc r = WParked -> called r = true ->
  (wk r = KBlock -> exists s', step1 s (ERet w) = Some s') /\
  (wk r = KTimed -> exists s', step1 s (ETWake w true) = Some s').
Proof.
  intros Hn Hp Hc. split; intros Hk; unfold step1, ev_w, ev_f; cbv beta iota; rewrite Hn; simpl;
    rewrite Hp, Hk, Hc; simpl; eauto.
Qed.
