(* Preservation of the invariant, part 3: SlowUnlock's section (RunWriter / RunReaders / PassReaders) and Run(node). *)
From Coq Require Import List Arith Bool ZArith Lia.
Import ListNotations.
From YV Require Import model.CoSharedMutex proofs.CoSharedMutexLemmas proofs.CoSharedMutexInv.

Lemma inv_EUWSlow : forall s c w r s', inv s -> step s (EUWSlow c w r) = Some s' -> inv s'.
Proof.
  intros s c w r s' I H. unfold step, get, run_writer, pass_readers in H. case_hyp H.
  all: injection H as <-; prep_b; subst; split_or.
  all: try match goal with H : wq ?s = _ :: _ |- _ => pose proof (f_equal (@length nat) H); cbn [length] in * end.
  all: try match goal with H : rq ?s = [] |- _ => pose proof (f_equal (@length nat) H); cbn [length] in * end.
  all: arith_facts; open_phase s I; open_inv' I; use_flags; try lia; open_goal; rw_flags; fin_all.
  all: try match goal with H : wq ?s = _ :: _ |- _ => rewrite H in * end.
  all: try rq_nonempty s.
  all: occ_simpl.
Qed.

Lemma inv_EUWRun : forall s c n s', inv s -> step s (EUWRun c n) = Some s' -> inv s'.
Proof.
  intros s c n s' I H. start_event H. all: second_lookup.
  all: arith_facts2; open_phase s I; open_inv' I; use_flags; try lia; open_goal; rw_flags.
  all: fin_all2.
  all: destruct l0; cbn [length] in *; [lia | exact I].
Qed.
