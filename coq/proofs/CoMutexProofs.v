(* Invariant of the CoMutex transition system (DESIGN.md Appendix A.3: M1-M5) and the facts the C14 theorems are made of.
   Everything is proved for every event sequence (schedule), every number of coroutines (the length of [cos]), every
   number of rounds, every number of executors / workers and the four <Batching, FIFO> combinations (fields of the
   state, never inspected by the proofs except where the code branches on them).

   Idiom: the coroutines are a list indexed by identity; a step rewrites one or two entries ([set_co]); the lock token is a
   sum over the list ([tokens]); everything else is pointwise ([get s c = Some x -> ...]). *)
From Coq Require Import List Arith Bool Lia.
Import ListNotations.
From YV Require Import model.CoMutex.

(* ---- identities ------------------------------------------------------------------------------ *)
Lemma ptr_eqb_eq a b : ptr_eqb a b = true <-> a = b.
Proof.
  destruct a, b; simpl; try (split; discriminate); try tauto.
  rewrite Nat.eqb_eq. split; [intros ->; reflexivity|intros H; inversion H; reflexivity].
Qed.
Lemma ptr_eqb_refl a : ptr_eqb a a = true.
Proof. apply ptr_eqb_eq. reflexivity. Qed.
Lemma eqb_true_l b c : Bool.eqb b c = true -> b = c.
Proof. apply eqb_prop. Qed.

(* ---- lists indexed by identity ------------------------------------------------------------------ *)
Lemma sumf_cons {A} (f : A -> nat) x l : sumf f (x :: l) = f x + sumf f l.
Proof. reflexivity. Qed.

Lemma nth_error_set_nth {A} (l : list A) t v old t' : nth_error l t = Some old ->
  nth_error (set_nth t v l) t' = if Nat.eqb t' t then Some v else nth_error l t'.
Proof.
  revert t t'. induction l as [|x l IH]; intros t t' H.
  - destruct t; discriminate.
  - destruct t as [|t]; simpl in *.
    + destruct t' as [|t']; reflexivity.
    + destruct t' as [|t']; simpl; [reflexivity|]. apply IH. exact H.
Qed.

Lemma sumf_set_nth {A} (f : A -> nat) (l : list A) t v old : nth_error l t = Some old ->
  sumf f (set_nth t v l) + f old = sumf f l + f v.
Proof.
  revert t. induction l as [|x l IH]; intros t H.
  - destruct t; discriminate.
  - destruct t as [|t]; simpl in *.
    + inversion H; subst. rewrite !sumf_cons. lia.
    + rewrite !sumf_cons. specialize (IH _ H). lia.
Qed.

Lemma sumf_nth_le {A} (f : A -> nat) (l : list A) t x : nth_error l t = Some x -> f x <= sumf f l.
Proof.
  revert t. induction l as [|y l IH]; intros [|t] H; simpl in H; try discriminate.
  - inversion H; subst. rewrite sumf_cons. lia.
  - rewrite sumf_cons. specialize (IH _ H). lia.
Qed.

Lemma sumf_nth_le2 {A} (f : A -> nat) (l : list A) t t' x x' :
  nth_error l t = Some x -> nth_error l t' = Some x' -> t <> t' -> f x + f x' <= sumf f l.
Proof.
  revert t t'. induction l as [|y l IH]; intros [|t] [|t'] H H' N; simpl in *; try discriminate; try congruence.
  - inversion H; subst. rewrite sumf_cons. pose proof (sumf_nth_le f l t' x' H'). lia.
  - inversion H'; subst. rewrite sumf_cons. pose proof (sumf_nth_le f l t x H). lia.
  - rewrite sumf_cons. assert (t <> t') by congruence. specialize (IH _ _ H H' H0). lia.
Qed.

Lemma sumf_pos_ex {A} (f : A -> nat) (l : list A) : sumf f l > 0 -> exists t x, nth_error l t = Some x /\ f x > 0.
Proof.
  induction l as [|y l IH]; [unfold sumf; simpl; lia|]. rewrite sumf_cons. intros H.
  destruct (f y) eqn:E.
  - destruct IH as (t & x & Hn & Hx); [lia|]. exists (S t), x. split; auto.
  - exists 0, y. split; [reflexivity|lia].
Qed.

Lemma sumf_zero_all {A} (f : A -> nat) (l : list A) t x : sumf f l = 0 -> nth_error l t = Some x -> f x = 0.
Proof. intros H Hn. pose proof (sumf_nth_le f l t x Hn). lia. Qed.

Lemma forallb_nth {A} (f : A -> bool) l t x : forallb f l = true -> nth_error l t = Some x -> f x = true.
Proof.
  intros H Hn. rewrite forallb_forall in H. apply H. eapply nth_error_In; eauto.
Qed.

Arguments get : simpl never.
Arguments tokens : simpl never.

(* ---- get / set_co --------------------------------------------------------------------------------- *)
Lemma get_set_co s c v x c' : get s c = Some x ->
  get (set_co c v s) c' = if Nat.eqb c' c then Some v else get s c'.
Proof. intros H. unfold get, set_co in *. simpl. apply nth_error_set_nth with (old := x). exact H. Qed.
Lemma get_set_co_same s c v x : get s c = Some x -> get (set_co c v s) c = Some v.
Proof. intros H. rewrite (get_set_co _ _ _ _ _ H), Nat.eqb_refl. reflexivity. Qed.
Lemma get_set_co_other s c v x c' : get s c = Some x -> c' <> c -> get (set_co c v s) c' = get s c'.
Proof. intros H N. rewrite (get_set_co _ _ _ _ _ H). apply Nat.eqb_neq in N. rewrite N. reflexivity. Qed.

Lemma get_set_sender s w c : get (set_sender w s) c = get s c. Proof. reflexivity. Qed.
Lemma get_set_receiver s r c : get (set_receiver r s) c = get s c. Proof. reflexivity. Qed.
Lemma tokens_set_sender s w : tokens (set_sender w s) = tokens s. Proof. reflexivity. Qed.
Lemma tokens_set_receiver s r : tokens (set_receiver r s) = tokens s. Proof. reflexivity. Qed.
#[export] Hint Rewrite get_set_sender get_set_receiver tokens_set_sender tokens_set_receiver : frame.

Lemma tokens_set_co s c v x : get s c = Some x -> tokens (set_co c v s) + tok x = tokens s + tok v.
Proof. intros H. unfold tokens, get, set_co in *. simpl. apply sumf_set_nth. exact H. Qed.
Lemma tok_le s c x : get s c = Some x -> tok x <= tokens s.
Proof. apply sumf_nth_le. Qed.
Lemma tok_le2 s c c' x x' : get s c = Some x -> get s c' = Some x' -> c <> c' -> tok x + tok x' <= tokens s.
Proof. apply sumf_nth_le2. Qed.

(* ---- the invariant (core part) ---------------------------------------------------------------------- *)
Definition is_prel (x : co) : bool := match pc x with PRel => true | _ => false end.

(* what a coroutine's own fields satisfy *)
Definition lcb (x : co) : bool :=
  (match pc x, loc x with
   | (PParked | PDone), LNone => true
   | (POut | PGot _ | PIn), (LQueued | LRun _) => true
   | (PTry _ | PTryCas _ | PLock0 _ | PLoop _ _ | PRel), LRun _ => true
   | _, _ => false
   end) &&
  (match rel x with
   | None => negb (is_prel x)
   | Some (f, stg, _) =>
       match f, stg with
       | ROn _, RSelf _ => is_prel x
       | ROn _, (RBatch | RXfer _) => false
       | ROn _, _ => negb (is_prel x)
       | _, RSelf _ => false
       | RAwait, RXfer _ => negb (is_prel x)
       | RHere, (RBatch | RXfer _) => false
       | _, _ => is_prel x
       end
   end).

(* what the stage of a release procedure says about the shared state (M4: GetHead never returns null) *)
Definition stage_ok (snd : word) (rcv : list nat) (x : co) : bool :=
  match rel x with
  | None => true
  | Some (_, stg, _) =>
      match stg with
      | RLoad | RCas => negb (nonempty rcv)
      | RHead => negb (nonempty rcv) && match snd with Locked (_ :: _) => true | _ => false end
      | RNext _ | RBatch => nonempty rcv
      | RXfer n => match rcv with n' :: _ => Nat.eqb n n' | [] => false end
      | _ => true
      end
  end.

Definition lists (s : st) : list nat := waiters (sender s) ++ receiver s.

Record Inv (s : st) : Prop := {
  i_tok : tokens s = if is_free (sender s) then 0 else 1;                       (* M1 *)
  i_recv : is_free (sender s) = true -> receiver s = [];                         (* M2 *)
  i_lc : forall c x, get s c = Some x -> lcb x = true /\ stage_ok (sender s) (receiver s) x = true;
  i_pk1 : forall n, In n (lists s) -> exists y, get s n = Some y /\ pc y = PParked;   (* M3 *)
  i_pk2 : NoDup (lists s);
  i_pk3 : forall c x, get s c = Some x -> pc x = PParked -> In c (lists s)
}.

Lemma inv_init f b ws hs : Inv (init f b ws hs).
Proof.
  constructor; simpl; auto.
  - unfold tokens. simpl. induction hs; simpl; auto.
  - intros c x H. unfold get in H. simpl in H. apply nth_error_In in H. apply in_map_iff in H.
    destruct H as (h & <- & _). split; reflexivity.
  - intros n [].
  - constructor.
  - intros c x H. unfold get in H. simpl in H. apply nth_error_In in H. apply in_map_iff in H.
    destruct H as (h & <- & _). discriminate.
Qed.

(* ---- consequences of the token count ------------------------------------------------------------------ *)
Lemma tokens_le1 s : Inv s -> tokens s <= 1.
Proof. intros I. rewrite (i_tok s I). destruct (is_free (sender s)); lia. Qed.

Lemma free_no_tok s c x : Inv s -> is_free (sender s) = true -> get s c = Some x -> tok x = 0.
Proof.
  intros I F H. pose proof (tok_le s c x H). rewrite (i_tok s I), F in H0. lia.
Qed.

Lemma tok_locked s c x : Inv s -> get s c = Some x -> tok x > 0 -> is_free (sender s) = false.
Proof.
  intros I H T. destruct (is_free (sender s)) eqn:F; [|reflexivity].
  pose proof (free_no_tok s c x I F H). lia.
Qed.

Lemma tok_unique s c c' x x' : Inv s -> get s c = Some x -> get s c' = Some x' -> tok x > 0 -> c' <> c -> tok x' = 0.
Proof.
  intros I H H' T N. pose proof (tok_le2 s c c' x x' H H' (not_eq_sym N)). pose proof (tokens_le1 s I). lia.
Qed.

Lemma tok_one s c x : Inv s -> get s c = Some x -> tok x <= 1.
Proof. intros I H. pose proof (tok_le s c x H). pose proof (tokens_le1 s I). lia. Qed.

Lemma rel_tok x r : rel x = Some r -> tok x > 0.
Proof. unfold tok, releasing. intros ->. lia. Qed.

Lemma rel_not_holding s c x r : Inv s -> get s c = Some x -> rel x = Some r -> holds x = 0.
Proof.
  intros I H R. pose proof (tok_one s c x I H). unfold tok, releasing in H0. rewrite R in H0. lia.
Qed.

(* ---- frame lemmas ------------------------------------------------------------------------------------- *)
Lemma in_lists_not_parked_absurd s c x : Inv s -> get s c = Some x -> parked x = false -> ~ In c (lists s).
Proof.
  intros I H P Hin. destruct (i_pk1 s I c Hin) as (y & Hy & Py). rewrite H in Hy. inversion Hy; subst.
  unfold parked in P. rewrite Py in P. discriminate.
Qed.

(* rewriting one coroutine without touching the token, its being parked, or the words *)
Lemma inv_local s c x x' : Inv s -> get s c = Some x ->
  tok x' = tok x -> parked x' = parked x -> lcb x' = true -> stage_ok (sender s) (receiver s) x' = true ->
  Inv (set_co c x' s).
Proof.
  intros I H T P L G. constructor; simpl.
  - pose proof (tokens_set_co s c x' x H). rewrite <- (i_tok s I). lia.
  - apply (i_recv s I).
  - intros c' y. rewrite (get_set_co _ _ _ _ _ H). destruct (Nat.eqb c' c) eqn:E.
    + intros Hy. inversion Hy; subst. split; assumption.
    + apply (i_lc s I).
  - intros n Hin. rewrite (get_set_co _ _ _ _ _ H). destruct (Nat.eqb n c) eqn:E.
    + apply Nat.eqb_eq in E. subst n. destruct (i_pk1 s I c Hin) as (y & Hy & Py).
      rewrite H in Hy. inversion Hy; subst. exists x'. split; [reflexivity|].
      unfold parked in P. rewrite Py in P. destruct (pc x'); try discriminate. reflexivity.
    + apply (i_pk1 s I n Hin).
  - apply (i_pk2 s I).
  - intros c' y. rewrite (get_set_co _ _ _ _ _ H). destruct (Nat.eqb c' c) eqn:E.
    + apply Nat.eqb_eq in E. subst c'. intros Hy Py. inversion Hy; subst.
      apply (i_pk3 s I c x H). unfold parked in P. rewrite Py in P. destruct (pc x); try discriminate. reflexivity.
    + apply (i_pk3 s I).
Qed.

(* ---- tactics -------------------------------------------------------------------------------------------- *)
Ltac case_hyp H :=
  repeat match type of H with
         | context [match ?x with _ => _ end] => destruct x eqn:?; try discriminate H
         | context [if ?x then _ else _] => destruct x eqn:?; try discriminate H
         end.

Ltac inv_some H := inversion H; subst; clear H.

Ltac rw_fields :=
  repeat match goal with
         | E : pc ?x = _ |- context [pc ?x] => rewrite E
         | E : loc ?x = _ |- context [loc ?x] => rewrite E
         | E : rel ?x = _ |- context [rel ?x] => rewrite E
         | E : sticky ?x = _ |- context [sticky ?x] => rewrite E
         end.

Ltac rw_fields_in L :=
  repeat match goal with
         | E : pc ?x = _ |- _ => rewrite E in L
         | E : loc ?x = _ |- _ => rewrite E in L
         | E : rel ?x = _ |- _ => rewrite E in L
         end.

(* the four side conditions of [inv_local] for an update of x : get s c = Some x, by computation *)
Ltac side_tok := unfold tok, holds, releasing; cbn; rw_fields; try reflexivity.
Ltac side_parked := unfold parked; cbn; rw_fields; try reflexivity.
Ltac destruct_fields :=
  repeat match goal with
         | |- context [match pc ?x with _ => _ end] => destruct (pc x) eqn:?
         | |- context [match loc ?x with _ => _ end] => destruct (loc x) eqn:?
         | |- context [match rel ?x with _ => _ end] => destruct (rel x) as [[[[] []] ?]|] eqn:?
         | L : context [match pc ?x with _ => _ end] |- _ => destruct (pc x) eqn:?
         | L : context [match loc ?x with _ => _ end] |- _ => destruct (loc x) eqn:?
         | L : context [match rel ?x with _ => _ end] |- _ => destruct (rel x) as [[[[] []] ?]|] eqn:?
         end.
Ltac side_lcb I Hx :=
  let L := fresh "L" in
  pose proof (proj1 (i_lc _ I _ _ Hx)) as L; unfold lcb, is_prel in L |- *; cbn in L |- *;
  rw_fields_in L; rw_fields; destruct_fields;
  cbn in L |- *; try discriminate L; try reflexivity; try assumption.
Ltac side_stage I Hx :=
  let G := fresh "G" in
  pose proof (proj2 (i_lc _ I _ _ Hx)) as G; unfold stage_ok in G |- *; cbn in G |- *;
  rw_fields_in G; rw_fields; try reflexivity; try assumption.

Ltac local_update I Hx :=
  eapply inv_local; [exact I|exact Hx|side_tok|side_parked|side_lcb I Hx|side_stage I Hx].

Lemma inv_start s w c s' : Inv s -> step s (EStart w c) = Some s' -> Inv s'.
Proof.
  intros I H. unfold step in H. case_hyp H. inv_some H. local_update I Heqo.
Qed.

Lemma inv_add_try s c b : Inv s -> Inv (add_try c b s).
Proof. intros I. destruct I. constructor; simpl; auto. Qed.

Lemma inv_finish s c s' : Inv s -> step s (EFinish c) = Some s' -> Inv s'.
Proof.
  intros I H. unfold step in H. case_hyp H. inv_some H. local_update I Heqo.
Qed.

Lemma inv_hop s c e s' : Inv s -> step s (EHop c e) = Some s' -> Inv s'.
Proof.
  intros I H. unfold step in H. case_hyp H; inv_some H; local_update I Heqo.
Qed.

Lemma inv_req s c b s' : Inv s -> step s (EReq c b) = Some s' -> Inv s'.
Proof.
  intros I H. unfold step in H. case_hyp H; inv_some H; local_update I Heqo.
Qed.

Lemma inv_trybegin s c s' : Inv s -> step s (ETryBegin c) = Some s' -> Inv s'.
Proof.
  intros I H. unfold step in H. case_hyp H; inv_some H; local_update I Heqo.
Qed.

Lemma inv_try_failed s c x k : Inv s -> get s c = Some x -> (pc x = PTry k \/ pc x = PTryCas k) -> Inv (try_failed c x k s).
Proof.
  intros I Hx [P|P]; unfold try_failed; destruct k; try apply inv_add_try; local_update I Hx.
Qed.

Lemma inv_tload s c v s' : Inv s -> step s (ETLoad c v) = Some s' -> Inv s'.
Proof.
  intros I H. unfold step in H. case_hyp H; inv_some H;
    try (eapply inv_try_failed; eauto; fail); local_update I Heqo.
Qed.

Lemma inv_lload s c v s' : Inv s -> step s (ELLoad c v) = Some s' -> Inv s'.
Proof.
  intros I H. unfold step in H. case_hyp H; inv_some H; local_update I Heqo.
Qed.

Lemma inv_lfail s c v s' : Inv s -> step s (ELFail c v) = Some s' -> Inv s'.
Proof.
  intros I H. unfold step in H. case_hyp H; inv_some H; local_update I Heqo.
Qed.

Lemma inv_leave s c u s' : Inv s -> step s (ELeave c u) = Some s' -> Inv s'.
Proof.
  intros I H. unfold step in H. case_hyp H; inv_some H; local_update I Heqo.
Qed.

(* a release procedure that still runs inside the coroutine's own unlock call *)
Definition sync_stage (f : rform) (stg : rpc) : bool :=
  match f, stg with
  | ROn _, RSelf _ => true
  | ROn _, _ => false
  | RAwait, RXfer _ => false
  | _, _ => true
  end.
Lemma rel_pc s c x f stg w : Inv s -> get s c = Some x -> rel x = Some (f, stg, w) -> sync_stage f stg = true ->
  pc x = PRel.
Proof.
  intros I H R S. pose proof (proj1 (i_lc _ I _ _ H)) as L. unfold lcb, is_prel in L. rewrite R in L.
  apply andb_true_iff in L. destruct L as [_ L].
  destruct f, stg; simpl in S; try discriminate; destruct (pc x); try discriminate; reflexivity.
Qed.
Lemma rel_pc_async s c x f stg w : Inv s -> get s c = Some x -> rel x = Some (f, stg, w) -> sync_stage f stg = false ->
  pc x <> PRel.
Proof.
  intros I H R S. pose proof (proj1 (i_lc _ I _ _ H)) as L. unfold lcb, is_prel in L. rewrite R in L.
  apply andb_true_iff in L. destruct L as [_ L].
  destruct f, stg; simpl in S; try discriminate; destruct (pc x); try discriminate; congruence.
Qed.

Lemma inv_rself s c e s' : Inv s -> step s (ERSelf c e) = Some s' -> Inv s'.
Proof.
  intros I H. unfold step in H. case_hyp H; inv_some H.
  assert (P : pc c0 = PRel) by (eapply rel_pc; eauto).
  local_update I Heqo.
Qed.

Lemma inv_rassert s c v s' : Inv s -> step s (ERAssert c v) = Some s' -> Inv s'.
Proof.
  intros I H. unfold step in H. case_hyp H; inv_some H; local_update I Heqo.
Qed.

Lemma locked_nonempty w : is_free w = false -> is_locked_empty w = false -> exists n l, w = Locked (n :: l).
Proof. destruct w as [|[|n l]]; simpl; try discriminate. eauto. Qed.

Lemma inv_rcheck s c b s' : Inv s -> step s (ERCheck c b) = Some s' -> Inv s'.
Proof.
  intros I H. unfold step in H. case_hyp H; inv_some H; apply eqb_true_l in Heqb0.
  - (* empty: second load next *) local_update I Heqo. rewrite <- Heqb0. reflexivity.
  - symmetry in Heqb0. apply negb_false_iff in Heqb0.
    unfold slow_stage. rewrite Heqb0. destruct r, (batching s); simpl; local_update I Heqo.
Qed.

Lemma inv_rload s c v s' : Inv s -> step s (ERLoad c v) = Some s' -> Inv s'.
Proof.
  intros I H. unfold step in H. case_hyp H; inv_some H.
  all: apply ptr_eqb_eq in Heqb.
  all: pose proof (proj2 (i_lc _ I _ _ Heqo)) as G; unfold stage_ok in G; rewrite Heqo0 in G;
    apply negb_true_iff in G.
  all: assert (F : is_free (sender s) = false) by (eapply tok_locked; eauto; eapply rel_tok; eauto).
  2: solve [local_update I Heqo; rewrite G; reflexivity].
  all: unfold slow_stage; rewrite G; rewrite ?andb_false_r.
  all: assert (E : exists n l, sender s = Locked (n :: l))
    by (destruct (sender s) as [|[|nn ll]]; simpl in *; try discriminate; eauto).
  all: destruct E as (n0 & l0 & E).
  all: destruct r; local_update I Heqo; rewrite G, E; reflexivity.
Qed.

Lemma inv_rcas_fail s c x f w : Inv s -> get s c = Some x -> rel x = Some (f, RCas, w) ->
  is_locked_empty (sender s) = false -> Inv (set_co c (upd_rel (Some (f, slow_stage s f, w)) x) s).
Proof.
  intros I Hx R E.
  pose proof (proj2 (i_lc _ I _ _ Hx)) as G; unfold stage_ok in G; rewrite R in G; apply negb_true_iff in G.
  assert (F : is_free (sender s) = false) by (eapply tok_locked; eauto; eapply rel_tok; eauto).
  destruct (locked_nonempty _ F E) as (n0 & l0 & E').
  unfold slow_stage; rewrite G; rewrite ?andb_false_r.
  destruct f; local_update I Hx; rewrite G, E'; reflexivity.
Qed.

Lemma inv_add_entered s c q r : Inv s -> Inv (add_entered c q r s).
Proof. intros I. destruct I. constructor; simpl; auto. Qed.
Lemma inv_add_pushed s c : Inv s -> Inv (add_pushed c s).
Proof. intros I. destruct I. constructor; simpl; auto. Qed.
Lemma inv_add_handed s c : Inv s -> Inv (add_handed c s).
Proof. intros I. destruct I. constructor; simpl; auto. Qed.

Lemma no_rel_when_free s c x : Inv s -> is_free (sender s) = true -> get s c = Some x -> rel x = None.
Proof.
  intros I F H. pose proof (free_no_tok s c x I F H) as T. unfold tok, releasing in T.
  destruct (rel x); [lia|reflexivity].
Qed.

Lemma stage_ok_none snd rcv x : rel x = None -> stage_ok snd rcv x = true.
Proof. unfold stage_ok. intros ->. reflexivity. Qed.

(* ---- acquiring the free lock (TryLockAwait's strong CAS, AwaitLock's weak CAS) -------------------------- *)
Lemma inv_acquire s c x x' : Inv s -> get s c = Some x -> is_free (sender s) = true ->
  holds x' = 1 -> rel x' = rel x -> parked x' = false -> lcb x' = true ->
  Inv (set_sender (Locked []) (set_co c x' s)).
Proof.
  intros I Hx F H1 R P L.
  assert (Rx : rel x = None) by (eapply no_rel_when_free; eauto).
  assert (Tx : tok x = 0) by (eapply free_no_tok; eauto).
  assert (E : lists s = []).
  { unfold lists. rewrite (i_recv s I F). destruct (sender s); [reflexivity|discriminate]. }
  constructor; simpl; autorewrite with frame.
  - pose proof (tokens_set_co s c x' x Hx) as T. rewrite (i_tok s I), F in T.
    unfold tok, releasing in T, Tx. rewrite R, Rx in T. rewrite Rx in Tx.
    lia.
  - discriminate.
  - intros c' y. rewrite ?get_set_receiver, ?get_set_sender. rewrite (get_set_co _ _ _ _ _ Hx). destruct (Nat.eqb c' c) eqn:Ec.
    + intros Hy. inv_some Hy. split; [exact L|]. apply stage_ok_none. congruence.
    + intros Hy. split; [apply (i_lc s I c' y Hy)|]. apply stage_ok_none. eapply no_rel_when_free; eauto.
  - unfold lists. simpl. rewrite (i_recv s I F). intros n [].
  - unfold lists. simpl. rewrite (i_recv s I F). constructor.
  - intros c' y. rewrite ?get_set_receiver, ?get_set_sender. rewrite (get_set_co _ _ _ _ _ Hx). destruct (Nat.eqb c' c) eqn:Ec.
    + intros Hy Py. inv_some Hy. unfold parked in P. rewrite Py in P. discriminate.
    + intros Hy Py. pose proof (i_pk3 s I c' y Hy Py) as Hin. rewrite E in Hin. destruct Hin.
Qed.

Lemma inv_tcas s c ok s' : Inv s -> step s (ETCas c ok) = Some s' -> Inv s'.
Proof.
  intros I H. unfold step in H. case_hyp H; inv_some H; apply eqb_true_l in Heqb; subst;
    try (eapply inv_try_failed; eauto; fail); try apply inv_add_try.
  all: eapply inv_acquire; eauto; try reflexivity; side_lcb I Heqo.
Qed.

Lemma inv_lcasn s c s' : Inv s -> step s (ELCasN c) = Some s' -> Inv s'.
Proof.
  intros I H. unfold step in H. case_hyp H; inv_some H.
  all: eapply inv_acquire; eauto; try reflexivity; side_lcb I Heqo.
Qed.

(* ---- pushing oneself (AwaitLock's second CAS) -------------------------------------------------------------- *)
Lemma stage_ok_push l c rcv x : stage_ok (Locked l) rcv x = true -> stage_ok (Locked (c :: l)) rcv x = true.
Proof.
  unfold stage_ok. destruct (rel x) as [[[f stg] w]|]; auto. destruct stg; auto.
  intros H. apply andb_true_iff in H. destruct H as [H _]. rewrite H. reflexivity.
Qed.

Lemma inv_push s c s' : Inv s -> step s (EPush c) = Some s' -> Inv s'.
Proof.
  intros I H. unfold step in H. case_hyp H; inv_some H; apply inv_add_pushed.
  all: match goal with |- Inv (set_sender _ (set_co _ ?v _)) => set (x' := v) end.
  all: assert (NP : parked c0 = false) by (unfold parked; rewrite Heqp; reflexivity).
  all: assert (Nin : ~ In c (lists s)) by (eapply in_lists_not_parked_absurd; eauto).
  all: assert (Tx : tok x' = tok c0) by (subst x'; side_tok).
  all: assert (Lx : lcb x' = true) by (subst x'; side_lcb I Heqo).
  all: assert (Lst : lists s = l ++ receiver s) by (unfold lists; rewrite Heqw; reflexivity).
  all: constructor; simpl; autorewrite with frame.
  all: try (pose proof (tokens_set_co s c x' c0 Heqo) as T; rewrite (i_tok s I), Heqw in T; simpl in T; lia).
  all: try discriminate.
  all: try (intros c' y; rewrite ?get_set_receiver, ?get_set_sender; rewrite (get_set_co _ _ _ _ _ Heqo); destruct (Nat.eqb c' c) eqn:Ec;
            [intros Hy; inv_some Hy; split; [exact Lx|];
             pose proof (proj2 (i_lc _ I _ _ Heqo)) as G; rewrite Heqw in G; apply stage_ok_push;
             unfold stage_ok in *; subst x'; cbn; exact G
            |intros Hy; split; [apply (i_lc s I c' y Hy)|];
             pose proof (proj2 (i_lc _ I _ _ Hy)) as G; rewrite Heqw in G; apply stage_ok_push; exact G]).
  all: try (unfold lists; simpl; intros n' [<-|Hin];
            [exists x'; split; [rewrite ?get_set_sender; eapply get_set_co_same; eauto|reflexivity]
            |rewrite <- Lst in Hin; destruct (i_pk1 s I n' Hin) as (y & Hy & Py); exists y; split; [|exact Py];
             rewrite ?get_set_sender; rewrite (get_set_co_other _ _ _ _ _ Heqo); [exact Hy|intros ->; contradiction]]).
  all: try (unfold lists; simpl; constructor; [rewrite <- Lst; exact Nin|rewrite <- Lst; apply (i_pk2 s I)]).
  all: try (intros c' y; rewrite ?get_set_receiver, ?get_set_sender; rewrite (get_set_co _ _ _ _ _ Heqo); unfold lists; simpl; destruct (Nat.eqb c' c) eqn:Ec;
            [apply Nat.eqb_eq in Ec; subst c'; intros _ _; left; reflexivity
            |intros Hy Py; right; rewrite <- Lst; apply (i_pk3 s I c' y Hy Py)]).
Qed.

Lemma inv_enter s c s' : Inv s -> step s (EEnter c) = Some s' -> Inv s'.
Proof.
  intros I H. unfold step in H. case_hyp H; inv_some H; apply inv_add_entered; local_update I Heqo.
Qed.

(* ---- the release CAS succeeded --------------------------------------------------------------------------- *)
Lemma end_rel_tok f x : holds x = 0 -> tok (end_rel f x) = 0.
Proof. intros H. unfold end_rel, tok, holds, releasing in *. destruct f; cbn in *; lia. Qed.

Lemma end_rel_lcb s c x f stg w : Inv s -> get s c = Some x -> rel x = Some (f, stg, w) ->
  match stg with RSelf _ | RXfer _ => False | _ => True end -> lcb (end_rel f x) = true.
Proof.
  intros I Hx R S. pose proof (proj1 (i_lc _ I _ _ Hx)) as L. unfold lcb, is_prel, end_rel in *.
  rewrite R in L. destruct f, stg; try contradiction; cbn in *; destruct (pc x), (loc x); cbn in *;
    try discriminate; reflexivity.
Qed.

Lemma others_no_rel s c x c' y r : Inv s -> get s c = Some x -> rel x = Some r -> get s c' = Some y -> c' <> c ->
  rel y = None /\ holds y = 0.
Proof.
  intros I Hx R Hy N. pose proof (tok_unique s c c' x y I Hx Hy (rel_tok x r R) N) as T.
  unfold tok, releasing in T. destruct (rel y); [lia|]. split; [reflexivity|lia].
Qed.

Lemma inv_rcas s c ok s' : Inv s -> step s (ERCas c ok) = Some s' -> Inv s'.
Proof.
  intros I H. unfold step in H. case_hyp H; inv_some H; apply eqb_true_l in Heqb; symmetry in Heqb.
  2: eapply inv_rcas_fail; eauto.
  assert (E : sender s = Locked []) by (destruct (sender s) as [|[|? ?]]; simpl in Heqb; try discriminate; reflexivity).
  pose proof (proj2 (i_lc _ I _ _ Heqo)) as G; unfold stage_ok in G; rewrite Heqo0 in G; apply negb_true_iff in G.
  assert (Rv : receiver s = []) by (destruct (receiver s); [reflexivity|discriminate]).
  assert (Hh : holds c0 = 0) by (eapply rel_not_holding; eauto).
  assert (Lst : lists s = []) by (unfold lists; rewrite E, Rv; reflexivity).
  constructor; simpl; autorewrite with frame.
  - pose proof (tokens_set_co s c (end_rel r c0) c0 Heqo) as T. rewrite (end_rel_tok _ _ Hh) in T.
    rewrite (i_tok s I), E in T. simpl in T. unfold tok, releasing in T. rewrite Heqo0 in T. lia.
  - intros _. exact Rv.
  - intros c' y. rewrite ?get_set_sender. rewrite (get_set_co _ _ _ _ _ Heqo). destruct (Nat.eqb c' c) eqn:Ec.
    + intros Hy. inv_some Hy. split; [eapply end_rel_lcb; eauto; exact Logic.I|]. apply stage_ok_none.
      unfold end_rel. destruct r; reflexivity.
    + intros Hy. apply Nat.eqb_neq in Ec. split; [apply (i_lc s I c' y Hy)|]. apply stage_ok_none.
      apply (proj1 (others_no_rel s c c0 c' y _ I Heqo Heqo0 Hy Ec)).
  - unfold lists. simpl. rewrite Rv. intros z [].
  - unfold lists. simpl. rewrite Rv. constructor.
  - intros c' y. rewrite ?get_set_sender. rewrite (get_set_co _ _ _ _ _ Heqo). destruct (Nat.eqb c' c) eqn:Ec.
    + intros Hy Py. inv_some Hy. exfalso. assert (Px : pc c0 = PParked).
      { unfold end_rel in Py. destruct r; cbn in Py; try discriminate; exact Py. }
      pose proof (i_pk3 s I c c0 Heqo Px) as Hin. rewrite Lst in Hin. destruct Hin.
    + intros Hy Py. pose proof (i_pk3 s I c' y Hy Py) as Hin. rewrite Lst in Hin. destruct Hin.
Qed.

(* ---- GetHead's exchange ------------------------------------------------------------------------------------ *)
Lemma nonempty_rev {A} (n : A) l : nonempty (rev (n :: l)) = true.
Proof. simpl. destruct (rev l); reflexivity. Qed.

Lemma NoDup_app_l {A} (l1 l2 : list A) : NoDup (l1 ++ l2) -> NoDup l1.
Proof.
  induction l1 as [|a l1 IH]; simpl; intros H; [constructor|]. inversion H; subst.
  constructor; [intros Hin; apply H2; apply in_or_app; left; exact Hin|apply IH; assumption].
Qed.

Lemma inv_xchg_gen s c x f w n l R : Inv s -> get s c = Some x -> rel x = Some (f, RHead, w) ->
  sender s = Locked (n :: l) -> (forall z, In z R <-> In z (n :: l)) -> NoDup R -> nonempty R = true ->
  Inv (set_receiver R (set_sender (Locked []) (set_co c (upd_rel (Some (f, RNext false, w)) x) s))).
Proof.
  intros I Hx Rx E InR ND NR.
  pose proof (proj2 (i_lc _ I _ _ Hx)) as G; unfold stage_ok in G; rewrite Rx in G;
    apply andb_true_iff in G; destruct G as [G _]; apply negb_true_iff in G.
  assert (Rv : receiver s = []) by (destruct (receiver s); [reflexivity|discriminate]).
  assert (Lst : lists s = n :: l) by (unfold lists; rewrite E, Rv, app_nil_r; reflexivity).
  set (x' := upd_rel (Some (f, RNext false, w)) x).
  assert (Tx : tok x' = tok x) by (subst x'; side_tok).
  assert (Lx : lcb x' = true) by (subst x'; side_lcb I Hx).
  assert (Px : pc x' = pc x) by reflexivity.
  constructor; simpl; autorewrite with frame.
  - pose proof (tokens_set_co s c x' x Hx) as T. rewrite (i_tok s I), E in T. simpl in T. lia.
  - discriminate.
  - intros c' y. rewrite ?get_set_receiver, ?get_set_sender. rewrite (get_set_co _ _ _ _ _ Hx).
    destruct (Nat.eqb c' c) eqn:Ec.
    + intros Hy. inv_some Hy. split; [exact Lx|]. unfold stage_ok. subst x'. cbn. exact NR.
    + intros Hy. apply Nat.eqb_neq in Ec. split; [apply (i_lc s I c' y Hy)|]. apply stage_ok_none.
      apply (proj1 (others_no_rel s c x c' y _ I Hx Rx Hy Ec)).
  - unfold lists. simpl. intros z Hz. apply InR in Hz. rewrite <- Lst in Hz.
    destruct (i_pk1 s I z Hz) as (y & Hy & Py). rewrite ?get_set_receiver, ?get_set_sender.
    rewrite (get_set_co _ _ _ _ _ Hx). destruct (Nat.eqb z c) eqn:Ec.
    + apply Nat.eqb_eq in Ec. subst z. exists x'. split; [reflexivity|]. rewrite Px.
      rewrite Hx in Hy. inv_some Hy. exact Py.
    + exists y. split; assumption.
  - unfold lists. simpl. exact ND.
  - intros c' y. rewrite ?get_set_receiver, ?get_set_sender. rewrite (get_set_co _ _ _ _ _ Hx).
    unfold lists. simpl. destruct (Nat.eqb c' c) eqn:Ec.
    + apply Nat.eqb_eq in Ec. subst c'. intros Hy Py. inv_some Hy. apply InR. rewrite <- Lst.
      apply (i_pk3 s I c x Hx). rewrite <- Px. exact Py.
    + intros Hy Py. apply InR. rewrite <- Lst. apply (i_pk3 s I c' y Hy Py).
Qed.

Lemma inv_rxchg s c old s' : Inv s -> step s (ERXchg c old) = Some s' -> Inv s'.
Proof.
  intros I H. unfold step in H. case_hyp H; inv_some H.
  all: assert (ND : NoDup (n0 :: l0)).
  1,3: pose proof (i_pk2 s I) as ND; unfold lists in ND; rewrite Heqw in ND; simpl waiters in ND;
    apply NoDup_app_l in ND; exact ND.
  - change (rev l0 ++ [n0]) with (rev (n0 :: l0)). eapply inv_xchg_gen; eauto.
    + intros z. rewrite <- in_rev. tauto.
    + apply NoDup_rev. exact ND.
    + apply nonempty_rev.
  - eapply inv_xchg_gen; eauto. tauto.
Qed.

(* ---- handing the lock to the head of the receiver -------------------------------------------------------------- *)
Lemma inv_hand s c x xc n lc' e s' r : Inv s -> get s c = Some x -> rel x = Some r ->
  rel xc = None -> holds xc = 0 -> parked xc = parked x -> lcb xc = true -> lc' <> LNone ->
  hand n lc' e (set_co c xc s) = Some s' -> Inv s'.
Proof.
  intros I Hx Rx Rc Hc Pc Lc Nl H.
  unfold hand in H. cbn [receiver set_co] in H.
  destruct (receiver s) as [|n' rest] eqn:Rv; [discriminate|].
  destruct (Nat.eqb n n') eqn:En; [|discriminate]. apply Nat.eqb_eq in En; subst n'.
  destruct (get (set_co c xc s) n) as [y|] eqn:Hy; [|discriminate].
  destruct (pc y) eqn:Py; try discriminate. inv_some H. apply inv_add_handed.
  set (s1 := set_co c xc s) in *.
  match goal with |- Inv (set_receiver _ (set_co _ ?v _)) => set (y2 := v) end.
  assert (F : is_free (sender s) = false) by (eapply tok_locked; eauto; eapply rel_tok; eauto).
  assert (Hxh : holds x = 0) by (eapply rel_not_holding; eauto).
  assert (Tx : tok x = 1) by (unfold tok, releasing; rewrite Rx; lia).
  assert (Tc : tok xc = 0) by (unfold tok, releasing; rewrite Rc; lia).
  assert (Hy' : (n = c /\ y = xc) \/ (n <> c /\ get s n = Some y)).
  { subst s1. rewrite (get_set_co _ _ _ _ _ Hx) in Hy. destruct (Nat.eqb n c) eqn:E.
    - apply Nat.eqb_eq in E. inv_some Hy. left; auto.
    - apply Nat.eqb_neq in E. right; auto. }
  assert (Ry : rel y = None /\ holds y = 0).
  { destruct Hy' as [[-> ->]|[N Hn]]; [split; assumption|].
    exact (others_no_rel s c x n y _ I Hx Rx Hn N). }
  destruct Ry as [Ry Hyh].
  assert (Ty : tok y = 0) by (unfold tok, releasing; rewrite Ry; lia).
  assert (Ty2 : tok y2 = 1).
  { subst y2. unfold tok, holds, releasing. destruct e; cbn; rewrite Ry; reflexivity. }
  assert (Py2 : pc y2 = PGot true) by (subst y2; destruct e; reflexivity).
  assert (Ry2 : rel y2 = None) by (subst y2; destruct e; cbn; exact Ry).
  assert (Ly2 : lcb y2 = true).
  { unfold lcb, is_prel. rewrite Py2, Ry2. subst y2. destruct e, lc'; cbn; congruence. }
  assert (T1 : tokens s1 = 0).
  { pose proof (tokens_set_co s c xc x Hx) as T. rewrite (i_tok s I), F in T. subst s1. lia. }
  pose proof (i_pk2 s I) as ND. unfold lists in ND. rewrite Rv in ND.
  pose proof (NoDup_remove_1 _ _ _ ND) as ND1. pose proof (NoDup_remove_2 _ _ _ ND) as ND2.
  assert (G2 : forall c', get (set_co n y2 s1) c' =
                          if Nat.eqb c' n then Some y2 else if Nat.eqb c' c then Some xc else get s c').
  { intros c'. rewrite (get_set_co _ _ _ _ _ Hy). destruct (Nat.eqb c' n); [reflexivity|].
    subst s1. apply (get_set_co _ _ _ _ _ Hx). }
  constructor; simpl; autorewrite with frame.
  - pose proof (tokens_set_co s1 n y2 y Hy) as T. rewrite F. lia.
  - rewrite F. discriminate.
  - intros c' z. rewrite ?get_set_receiver, ?get_set_sender, G2.
    destruct (Nat.eqb c' n) eqn:E1; [|destruct (Nat.eqb c' c) eqn:E2].
    + intros Hz. inv_some Hz. split; [exact Ly2|apply stage_ok_none; exact Ry2].
    + intros Hz. inv_some Hz. split; [exact Lc|apply stage_ok_none; exact Rc].
    + intros Hz. apply Nat.eqb_neq in E2. split; [apply (i_lc s I c' z Hz)|]. apply stage_ok_none.
      apply (proj1 (others_no_rel s c x c' z _ I Hx Rx Hz E2)).
  - unfold lists. simpl. intros z Hz.
    assert (Hz' : In z (lists s)).
    { unfold lists. rewrite Rv. apply in_app_or in Hz. apply in_or_app. destruct Hz; [left|right; right]; assumption. }
    assert (Nz : z <> n) by (intros ->; contradiction).
    destruct (i_pk1 s I z Hz') as (y0 & Hy0 & Py0). rewrite ?get_set_receiver, G2.
    apply Nat.eqb_neq in Nz. rewrite Nz. destruct (Nat.eqb z c) eqn:E2.
    + apply Nat.eqb_eq in E2. subst z. exists xc. split; [reflexivity|]. rewrite Hx in Hy0. inv_some Hy0.
      unfold parked in Pc. rewrite Py0 in Pc. destruct (pc xc); try discriminate. reflexivity.
    + exists y0. split; assumption.
  - unfold lists. simpl. exact ND1.
  - intros c' z. rewrite ?get_set_receiver, G2. unfold lists. simpl.
    destruct (Nat.eqb c' n) eqn:E1; [|destruct (Nat.eqb c' c) eqn:E2].
    + intros Hz Pz. inv_some Hz. rewrite Py2 in Pz. discriminate.
    + intros Hz Pz. inv_some Hz. apply Nat.eqb_eq in E2. subst c'. apply Nat.eqb_neq in E1.
      assert (Px : pc x = PParked).
      { unfold parked in Pc. rewrite Pz in Pc. destruct (pc x); try discriminate. reflexivity. }
      pose proof (i_pk3 s I c x Hx Px) as Hin. unfold lists in Hin. rewrite Rv in Hin.
      apply in_app_or in Hin. apply in_or_app. destruct Hin as [Hin|[Hin|Hin]]; auto. congruence.
    + intros Hz Pz. apply Nat.eqb_neq in E1.
      pose proof (i_pk3 s I c' z Hz Pz) as Hin. unfold lists in Hin. rewrite Rv in Hin.
      apply in_app_or in Hin. apply in_or_app. destruct Hin as [Hin|[Hin|Hin]]; auto. congruence.
Qed.

Lemma end_rel_rel f x : rel (end_rel f x) = None.
Proof. destruct f; reflexivity. Qed.
Lemma end_rel_holds f x : holds x = 0 -> holds (end_rel f x) = 0.
Proof. intros H. pose proof (end_rel_tok f x H). unfold tok in *. lia. Qed.
Lemma end_rel_parked s c x f stg w : Inv s -> get s c = Some x -> rel x = Some (f, stg, w) ->
  match stg with RSelf _ | RXfer _ => False | _ => True end -> parked (end_rel f x) = parked x.
Proof.
  intros I Hx R S. destruct f; try reflexivity.
  all: assert (P : pc x = PRel) by (eapply rel_pc; eauto; destruct stg; try contradiction; reflexivity).
  all: unfold parked, end_rel; cbn; rewrite P; reflexivity.
Qed.

Lemma inv_rsubmitnext s c n e s' : Inv s -> step s (ERSubmitNext c n e) = Some s' -> Inv s'.
Proof.
  intros I H. unfold step in H. case_hyp H.
  all: assert (Hh : holds c0 = 0) by (eapply rel_not_holding; eauto).
  all: refine (inv_hand s c c0 _ n _ _ s' _ I Heqo Heqo0 _ _ _ _ _ H);
    [apply end_rel_rel|apply end_rel_holds; exact Hh|eapply end_rel_parked; eauto; exact Logic.I
    |eapply end_rel_lcb; eauto; exact Logic.I|discriminate].
Qed.

Lemma inv_rtransfer s c n s' : Inv s -> step s (ERTransfer c n) = Some s' -> Inv s'.
Proof.
  intros I H. unfold step in H. case_hyp H.
  all: assert (Hh : holds c0 = 0) by (eapply rel_not_holding; eauto).
  all: refine (inv_hand s c c0 _ n _ _ s' _ I Heqo Heqo0 _ _ _ _ _ H);
    [reflexivity|exact Hh|reflexivity|side_lcb I Heqo|discriminate].
Qed.

Lemma inv_rbatchsubmit s c e s' : Inv s -> step s (ERBatchSubmit c e) = Some s' -> Inv s'.
Proof.
  intros I H. unfold step in H. case_hyp H. inv_some H.
  assert (P : pc c0 = PRel) by (eapply rel_pc; eauto).
  pose proof (proj2 (i_lc _ I _ _ Heqo)) as G. unfold stage_ok in G. rewrite Heqo0, Heql in G.
  match goal with |- Inv (set_co _ (upd_exe _ _) (set_co c ?x1 s)) => set (x' := x1) in * end.
  assert (I1 : Inv (set_co c x' s)).
  { subst x'. local_update I Heqo. rewrite Heql. apply Nat.eqb_refl. }
  eapply inv_local; [exact I1|exact Heqo2|reflexivity|reflexivity| |].
  - pose proof (proj1 (i_lc _ I1 _ _ Heqo2)) as L. exact L.
  - pose proof (proj2 (i_lc _ I1 _ _ Heqo2)) as G1. exact G1.
Qed.

Lemma inv_fresh s c s' : Inv s -> step s (EFresh c) = Some s' -> Inv s'.
Proof.
  intros I H. unfold step in H. case_hyp H; inv_some H; local_update I Heqo.
Qed.

Theorem inv_step s e s' : Inv s -> step s e = Some s' -> Inv s'.
Proof.
  intros I H. destruct e.
  - eapply inv_start; eauto.
  - eapply inv_finish; eauto.
  - eapply inv_hop; eauto.
  - eapply inv_req; eauto.
  - eapply inv_trybegin; eauto.
  - eapply inv_tload; eauto.
  - eapply inv_tcas; eauto.
  - eapply inv_lload; eauto.
  - eapply inv_lcasn; eauto.
  - eapply inv_push; eauto.
  - eapply inv_lfail; eauto.
  - eapply inv_enter; eauto.
  - eapply inv_leave; eauto.
  - eapply inv_rself; eauto.
  - eapply inv_rassert; eauto.
  - eapply inv_rcheck; eauto.
  - eapply inv_rload; eauto.
  - eapply inv_rcas; eauto.
  - eapply inv_rxchg; eauto.
  - eapply inv_rsubmitnext; eauto.
  - eapply inv_rbatchsubmit; eauto.
  - eapply inv_rtransfer; eauto.
  - eapply inv_fresh; eauto.
Qed.

Theorem inv_run tr : forall s s', Inv s -> run s tr = Some s' -> Inv s'.
Proof.
  induction tr as [|e tr IH]; simpl; intros s s' I H.
  - inv_some H. exact I.
  - destruct (step s e) as [s1|] eqn:E; [|discriminate]. eapply IH; [|exact H]. eapply inv_step; eauto.
Qed.

Theorem inv_reach f b ws hs tr s : run (init f b ws hs) tr = Some s -> Inv s.
Proof. apply inv_run. apply inv_init. Qed.

(* ---- the history part of the invariant: arrival order, hand-over order, entries, grants (M5) ------------------- *)
Definition isq (x : co) : bool := match pc x with PGot true => true | _ => false end.
Definition pre_grant (x : co) : bool :=
  match pc x with PTry _ | PTryCas _ | PLock0 _ | PLoop _ _ | PParked | PGot _ => true | _ => false end.

Record InvG (s : st) : Prop := {
  g_fifo : fifo s = true -> pushed s = handed s ++ receiver s ++ rev (waiters (sender s));
  g_handed : handed s = entered_q s ++ inflight s;
  g_inflight : match inflight s with
               | [] => forall c x, get s c = Some x -> isq x = false
               | [n] => exists y, get s n = Some y /\ isq y = true
               | _ => False
               end;
  g_nodup : NoDup (grants s);
  g_le : forall c r, In (c, r) (grants s) -> exists x, get s c = Some x /\ r <= nreq x;
  g_fresh : forall c x, get s c = Some x -> pre_grant x = true -> ~ In (c, nreq x) (grants s)
}.

Lemma get_add_try s c b c' : get (add_try c b s) c' = get s c'. Proof. reflexivity. Qed.
Lemma get_add_pushed s c c' : get (add_pushed c s) c' = get s c'. Proof. reflexivity. Qed.
Lemma get_add_handed s c c' : get (add_handed c s) c' = get s c'. Proof. reflexivity. Qed.
Lemma get_add_entered s c q r c' : get (add_entered c q r s) c' = get s c'. Proof. reflexivity. Qed.

Ltac fr := rewrite ?get_add_try, ?get_add_pushed, ?get_add_handed, ?get_add_entered, ?get_set_receiver, ?get_set_sender.

Lemma invg_init f b ws hs : InvG (init f b ws hs).
Proof.
  constructor; simpl; auto.
  - intros c x H. unfold get in H. simpl in H. apply nth_error_In in H. apply in_map_iff in H.
    destruct H as (h & <- & _). reflexivity.
  - constructor.
  - intros c r [].
Qed.

Lemma invg_add_try s c b : InvG s -> InvG (add_try c b s).
Proof. intros G. destruct G. constructor; simpl; auto. Qed.

(* rewriting one coroutine: same "handed and not yet inside" status, same request number, not a new request *)
Lemma invg_local s c x x' : InvG s -> get s c = Some x ->
  isq x' = isq x -> nreq x' = nreq x -> (pre_grant x' = true -> pre_grant x = true) -> InvG (set_co c x' s).
Proof.
  intros G Hx Q N P. constructor; simpl.
  - apply (g_fifo s G).
  - apply (g_handed s G).
  - pose proof (g_inflight s G) as J. destruct (inflight s) as [|n [|? ?]]; auto.
    + intros c' y. rewrite (get_set_co _ _ _ _ _ Hx). destruct (Nat.eqb c' c).
      * intros Hy. inv_some Hy. rewrite Q. apply (J c x Hx).
      * apply J.
    + destruct J as (y & Hy & Qy). rewrite (get_set_co _ _ _ _ _ Hx). destruct (Nat.eqb n c) eqn:E.
      * apply Nat.eqb_eq in E. subst n. rewrite Hx in Hy. inv_some Hy. exists x'. split; [reflexivity|congruence].
      * exists y. split; assumption.
  - apply (g_nodup s G).
  - intros c' r Hin. destruct (g_le s G c' r Hin) as (y & Hy & Le). rewrite (get_set_co _ _ _ _ _ Hx).
    destruct (Nat.eqb c' c) eqn:E.
    + apply Nat.eqb_eq in E. subst c'. rewrite Hx in Hy. inv_some Hy. exists x'. split; [reflexivity|lia].
    + exists y. split; assumption.
  - intros c' y. rewrite (get_set_co _ _ _ _ _ Hx). destruct (Nat.eqb c' c) eqn:E.
    + apply Nat.eqb_eq in E. subst c'. intros Hy Py. inv_some Hy. rewrite N. apply (g_fresh s G c x Hx (P Py)).
    + apply (g_fresh s G).
Qed.

(* a new request *)
Lemma invg_request s c x x' : InvG s -> get s c = Some x ->
  isq x' = isq x -> nreq x' = S (nreq x) -> InvG (set_co c x' s).
Proof.
  intros G Hx Q N. constructor; simpl.
  - apply (g_fifo s G).
  - apply (g_handed s G).
  - pose proof (g_inflight s G) as J. destruct (inflight s) as [|n [|? ?]]; auto.
    + intros c' y. rewrite (get_set_co _ _ _ _ _ Hx). destruct (Nat.eqb c' c).
      * intros Hy. inv_some Hy. rewrite Q. apply (J c x Hx).
      * apply J.
    + destruct J as (y & Hy & Qy). rewrite (get_set_co _ _ _ _ _ Hx). destruct (Nat.eqb n c) eqn:E.
      * apply Nat.eqb_eq in E. subst n. rewrite Hx in Hy. inv_some Hy. exists x'. split; [reflexivity|congruence].
      * exists y. split; assumption.
  - apply (g_nodup s G).
  - intros c' r Hin. destruct (g_le s G c' r Hin) as (y & Hy & Le). rewrite (get_set_co _ _ _ _ _ Hx).
    destruct (Nat.eqb c' c) eqn:E.
    + apply Nat.eqb_eq in E. subst c'. rewrite Hx in Hy. inv_some Hy. exists x'. split; [reflexivity|lia].
    + exists y. split; assumption.
  - intros c' y. rewrite (get_set_co _ _ _ _ _ Hx). destruct (Nat.eqb c' c) eqn:E.
    + apply Nat.eqb_eq in E. subst c'. intros Hy Py Hin. inv_some Hy.
      destruct (g_le s G c _ Hin) as (x0 & Hx0 & Le). rewrite Hx in Hx0. inv_some Hx0. lia.
    + apply (g_fresh s G).
Qed.

(* changing the words without changing what the order invariant sees *)
Lemma invg_words s w r : InvG s ->
  (fifo s = true -> receiver s ++ rev (waiters (sender s)) = r ++ rev (waiters w)) ->
  InvG (set_receiver r (set_sender w s)).
Proof.
  intros G E. destruct G. constructor; simpl; auto.
  intros F. rewrite (g_fifo0 F). rewrite (E F). reflexivity.
Qed.

Lemma invg_sender s w : InvG s -> waiters w = waiters (sender s) -> InvG (set_sender w s).
Proof.
  intros G E. destruct G. constructor; simpl; auto. intros F. rewrite E. apply (g_fifo0 F).
Qed.

Ltac side_q := unfold isq; cbn; rw_fields; try reflexivity.
Ltac side_pg := unfold pre_grant; cbn; rw_fields; try discriminate; auto.
Ltac same_waiters s :=
  cbn [sender set_co]; repeat match goal with E : sender _ = _ |- _ => rewrite E end; try reflexivity;
  destruct (sender s) as [|[|? ?]]; try reflexivity; try discriminate.
Ltac glocal G Hx := eapply invg_local; [exact G|exact Hx|side_q|reflexivity|side_pg].

Lemma invg_try_failed s c x k : InvG s -> get s c = Some x -> (pc x = PTry k \/ pc x = PTryCas k) ->
  InvG (try_failed c x k s).
Proof.
  intros G Hx [P|P]; unfold try_failed; destruct k; try apply invg_add_try; glocal G Hx.
Qed.

Lemma isq_holds x : isq x = true -> holds x = 1.
Proof. unfold isq, holds. destruct (pc x) as [| | | | | |[]| | |]; try discriminate; reflexivity. Qed.

Lemma rel_isq s c x r : Inv s -> get s c = Some x -> rel x = Some r -> isq x = false.
Proof.
  intros I Hx R. destruct (isq x) eqn:Q; [|reflexivity]. apply isq_holds in Q.
  pose proof (rel_not_holding s c x r I Hx R). lia.
Qed.

(* while somebody releases, nobody is "handed and not yet inside" *)
Lemma inflight_nil_when_releasing s c x r : Inv s -> InvG s -> get s c = Some x -> rel x = Some r -> inflight s = [].
Proof.
  intros I G Hx R. pose proof (g_inflight s G) as J. destruct (inflight s) as [|n [|? ?]]; [reflexivity| |destruct J].
  destruct J as (y & Hy & Qy). exfalso. apply isq_holds in Qy.
  destruct (Nat.eq_dec n c) as [->|N].
  - rewrite Hx in Hy. inv_some Hy. pose proof (rel_not_holding s c y r I Hx R). lia.
  - pose proof (others_no_rel s c x n y r I Hx R Hy N) as [_ Hh]. lia.
Qed.

Lemma invg_hand s c x xc n lc' e s' r : Inv s -> InvG s -> get s c = Some x -> rel x = Some r ->
  isq xc = false -> nreq xc = nreq x -> (pre_grant xc = true -> pre_grant x = true) ->
  hand n lc' e (set_co c xc s) = Some s' -> InvG s'.
Proof.
  intros I G Hx Rx Qc Nc Pc H.
  assert (G1 : InvG (set_co c xc s)).
  { eapply invg_local; eauto. rewrite Qc. symmetry. eapply rel_isq; eauto. }
  assert (J0 : inflight s = []) by (eapply inflight_nil_when_releasing; eauto).
  unfold hand in H. cbn [receiver set_co] in H.
  destruct (receiver s) as [|n' rest] eqn:Rv; [discriminate|].
  destruct (Nat.eqb n n') eqn:En; [|discriminate]. apply Nat.eqb_eq in En; subst n'.
  destruct (get (set_co c xc s) n) as [y|] eqn:Hy; [|discriminate].
  destruct (pc y) eqn:Py; try discriminate. inv_some H.
  set (s1 := set_co c xc s) in *.
  match goal with |- InvG (add_handed _ (set_receiver _ (set_co _ ?v _))) => set (y2 := v) end.
  assert (Qy2 : isq y2 = true) by (subst y2; destruct e; reflexivity).
  assert (Ny2 : nreq y2 = nreq y) by (subst y2; destruct e; reflexivity).
  assert (Py2 : pre_grant y = true) by (unfold pre_grant; rewrite Py; reflexivity).
  constructor; simpl.
  - intros F. pose proof (g_fifo s G F) as E. rewrite Rv in E. rewrite E. rewrite <- !app_assoc. reflexivity.
  - change (entered_q (add_handed n (set_receiver rest (set_co n y2 s1)))) with (entered_q s).
    rewrite (g_handed s G). rewrite <- app_assoc. reflexivity.
  - change (inflight s1) with (inflight s). rewrite J0. simpl. exists y2. fr.
    split; [eapply get_set_co_same; eauto|exact Qy2].
  - apply (g_nodup s G).
  - intros c' r' Hin. change (grants s1) with (grants s) in Hin. fr.
    destruct (g_le s1 G1 c' r' Hin) as (z & Hz & Le). rewrite (get_set_co _ _ _ _ _ Hy).
    destruct (Nat.eqb c' n) eqn:E.
    + apply Nat.eqb_eq in E. subst c'. rewrite Hy in Hz. inv_some Hz. exists y2. split; [reflexivity|lia].
    + exists z. split; assumption.
  - intros c' z. fr. rewrite (get_set_co _ _ _ _ _ Hy). destruct (Nat.eqb c' n) eqn:E.
    + apply Nat.eqb_eq in E. subst c'. intros Hz _. inv_some Hz. rewrite Ny2. apply (g_fresh s1 G1 n y Hy Py2).
    + apply (g_fresh s1 G1).
Qed.

Lemma NoDup_app_intro_one {A} (l : list A) a : NoDup l -> ~ In a l -> NoDup (l ++ [a]).
Proof.
  induction l as [|b l IH]; simpl; intros ND N.
  - constructor; [intros []|constructor].
  - inversion ND; subst. constructor.
    + intros Hin. apply in_app_or in Hin. destruct Hin as [Hin|[Hin|[]]]; [contradiction|]. subst. apply N. left; reflexivity.
    + apply IH; [assumption|]. intros Hin. apply N. right; exact Hin.
Qed.

Lemma invg_step s e s' : Inv s -> InvG s -> step s e = Some s' -> InvG s'.
Proof.
  intros I G H. destruct e; unfold step in H.
  - (* EStart *) case_hyp H; inv_some H; glocal G Heqo.
  - (* EFinish *) case_hyp H; inv_some H; glocal G Heqo.
  - (* EHop *) case_hyp H; inv_some H; glocal G Heqo.
  - (* EReq *) case_hyp H; inv_some H; (eapply invg_request; [exact G|exact Heqo|side_q|reflexivity]).
  - (* ETryBegin *) case_hyp H; inv_some H; (eapply invg_request; [exact G|exact Heqo|side_q|reflexivity]).
  - (* ETLoad *) case_hyp H; inv_some H; try (eapply invg_try_failed; eauto; fail); glocal G Heqo.
  - (* ETCas *) case_hyp H; inv_some H; try (eapply invg_try_failed; eauto; fail); try apply invg_add_try.
    all: apply invg_sender; [glocal G Heqo|same_waiters s].
  - (* ELLoad *) case_hyp H; inv_some H; glocal G Heqo.
  - (* ELCasN *) case_hyp H; inv_some H.
    all: apply invg_sender; [glocal G Heqo|same_waiters s].
  - (* EPush *) case_hyp H; inv_some H.
    all: match goal with |- InvG (add_pushed _ (set_sender _ (set_co _ ?v _))) => set (x' := v) end.
    all: assert (G1 : InvG (set_co c x' s)) by (subst x'; glocal G Heqo).
    all: destruct G1; constructor; simpl; auto.
    all: intros F; simpl in g_fifo0; rewrite (g_fifo0 F), Heqw; simpl; rewrite <- !app_assoc; reflexivity.
  - (* ELFail *) case_hyp H; inv_some H; glocal G Heqo.
  - (* EEnter *) case_hyp H; inv_some H. destruct queued.
    all: match goal with |- InvG (add_entered _ _ _ (set_co _ ?v _)) => set (x' := v) end.
    + (* it had queued *)
      assert (Qx : isq c0 = true) by (unfold isq; rewrite Heqp; reflexivity).
      assert (J : inflight s = [c]).
      { pose proof (g_inflight s G) as J. destruct (inflight s) as [|n [|? ?]]; [|f_equal|destruct J].
        - rewrite (J c c0 Heqo) in Qx. discriminate.
        - destruct J as (y & Hy & Qy). destruct (Nat.eq_dec n c) as [|N]; [assumption|exfalso].
          apply isq_holds in Qx. apply isq_holds in Qy.
          assert (tok y > 0) by (unfold tok; lia).
          pose proof (tok_unique s n c y c0 I Hy Heqo H (not_eq_sym N)). unfold tok in *. lia. }
      constructor; simpl.
      * apply (g_fifo s G).
      * unfold entered_q. simpl. rewrite filter_app, map_app. simpl. rewrite J. simpl. rewrite Nat.eqb_refl.
        rewrite app_nil_r. rewrite (g_handed s G), J. reflexivity.
      * rewrite J. simpl. rewrite Nat.eqb_refl. intros c' y. fr. rewrite (get_set_co _ _ _ _ _ Heqo).
        destruct (Nat.eqb c' c) eqn:E.
        -- intros Hy. inv_some Hy. reflexivity.
        -- intros Hy. apply Nat.eqb_neq in E. destruct (isq y) eqn:Qy; [exfalso|reflexivity].
           apply isq_holds in Qx. apply isq_holds in Qy.
           assert (tok c0 > 0) by (unfold tok; lia).
           pose proof (tok_unique s c c' c0 y I Heqo Hy H E). unfold tok in *. lia.
      * apply NoDup_app_intro_one; [apply (g_nodup s G)|]. apply (g_fresh s G c c0 Heqo).
        unfold pre_grant. rewrite Heqp. reflexivity.
      * intros c' r Hin. fr. apply in_app_or in Hin. rewrite (get_set_co _ _ _ _ _ Heqo).
        destruct (Nat.eqb c' c) eqn:E.
        -- apply Nat.eqb_eq in E. subst c'. exists x'. split; [reflexivity|]. destruct Hin as [Hin|[Hin|[]]].
           ++ destruct (g_le s G c r Hin) as (z & Hz & Le). rewrite Heqo in Hz. inv_some Hz. exact Le.
           ++ inv_some Hin. apply le_n.
        -- apply Nat.eqb_neq in E. destruct Hin as [Hin|[Hin|[]]]; [apply (g_le s G c' r Hin)|].
           inv_some Hin. congruence.
      * intros c' y. fr. rewrite (get_set_co _ _ _ _ _ Heqo). destruct (Nat.eqb c' c) eqn:E.
        -- intros Hy Py. inv_some Hy. discriminate.
        -- intros Hy Py Hin. apply Nat.eqb_neq in E. apply in_app_or in Hin. destruct Hin as [Hin|[Hin|[]]].
           ++ apply (g_fresh s G c' y Hy Py Hin).
           ++ inv_some Hin. congruence.
    + (* it had not *)
      assert (G1 : InvG (set_co c x' s)) by (subst x'; glocal G Heqo).
      constructor; simpl.
      * apply (g_fifo _ G1).
      * unfold entered_q. simpl. rewrite filter_app, map_app. simpl. rewrite app_nil_r. apply (g_handed _ G1).
      * apply (g_inflight _ G1).
      * apply NoDup_app_intro_one; [apply (g_nodup s G)|]. apply (g_fresh s G c c0 Heqo).
        unfold pre_grant. rewrite Heqp. reflexivity.
      * intros c' r Hin. fr. apply in_app_or in Hin. destruct Hin as [Hin|[Hin|[]]]; [apply (g_le _ G1 c' r Hin)|].
        inv_some Hin. exists x'. split; [eapply get_set_co_same; eauto|apply le_n].
      * intros c' y. fr. intros Hy Py Hin. apply in_app_or in Hin. destruct Hin as [Hin|[Hin|[]]].
        -- apply (g_fresh _ G1 c' y Hy Py Hin).
        -- inv_some Hin. rewrite (get_set_co_same _ _ _ _ Heqo) in Hy. inv_some Hy. discriminate.
  - (* ELeave *) case_hyp H; inv_some H; glocal G Heqo.
  - (* ERSelf *) case_hyp H; inv_some H. assert (P : pc c0 = PRel) by (eapply rel_pc; eauto). glocal G Heqo.
  - (* ERAssert *) case_hyp H; inv_some H; glocal G Heqo.
  - (* ERCheck *) case_hyp H; inv_some H; glocal G Heqo.
  - (* ERLoad *) case_hyp H; inv_some H; glocal G Heqo.
  - (* ERCas *) case_hyp H; inv_some H; [|glocal G Heqo].
    apply invg_sender; [|same_waiters s].
    pose proof (rel_isq s c c0 _ I Heqo Heqo0) as Q.
    eapply invg_local; [exact G|exact Heqo| | |].
    + rewrite Q. unfold isq in *. destruct r; cbn; auto.
    + destruct r; reflexivity.
    + unfold pre_grant. destruct r; cbn; auto; discriminate.
  - (* ERXchg *) case_hyp H; inv_some H.
    all: pose proof (proj2 (i_lc _ I _ _ Heqo)) as S; unfold stage_ok in S; rewrite Heqo0 in S;
      apply andb_true_iff in S; destruct S as [S _]; apply negb_true_iff in S.
    all: assert (Rv : receiver s = []) by (destruct (receiver s); [reflexivity|discriminate]).
    all: match goal with |- InvG (set_receiver _ (set_sender _ (set_co _ ?v _))) => set (x' := v) end.
    all: assert (G1 : InvG (set_co c x' s)) by (subst x'; glocal G Heqo).
    all: apply invg_words; [exact G1|]; simpl; intros F; try congruence.
    rewrite Rv, Heqw. simpl. rewrite app_nil_r. reflexivity.
  - (* ERSubmitNext *) case_hyp H.
    all: pose proof (rel_isq s c c0 _ I Heqo Heqo0) as Q.
    all: refine (invg_hand s c c0 _ n _ _ s' _ I G Heqo Heqo0 _ _ _ H).
    all: try (unfold isq in *; destruct r; cbn; auto; fail).
    all: try (destruct r; reflexivity).
    all: unfold pre_grant; destruct r; cbn; auto; discriminate.
  - (* ERBatchSubmit *) case_hyp H. inv_some H.
    assert (P : pc c0 = PRel) by (eapply rel_pc; eauto).
    match goal with |- InvG (set_co _ (upd_exe _ _) (set_co c ?x1 s)) => set (x' := x1) in * end.
    assert (G1 : InvG (set_co c x' s)) by (subst x'; glocal G Heqo).
    eapply invg_local; [exact G1|exact Heqo2|reflexivity|reflexivity|auto].
  - (* ERTransfer *) case_hyp H.
    all: pose proof (rel_isq s c c0 _ I Heqo Heqo0) as Q.
    all: refine (invg_hand s c c0 _ n _ _ s' _ I G Heqo Heqo0 _ _ _ H); auto.
  - (* EFresh *) case_hyp H; inv_some H; glocal G Heqo.
Qed.

Theorem invg_run tr : forall s s', Inv s -> InvG s -> run s tr = Some s' -> InvG s'.
Proof.
  induction tr as [|e tr IH]; simpl; intros s s' I G H.
  - inv_some H. exact G.
  - destruct (step s e) as [s1|] eqn:E; [|discriminate].
    eapply IH; [eapply inv_step; eauto|eapply invg_step; eauto|exact H].
Qed.

Theorem invg_reach f b ws hs tr s : run (init f b ws hs) tr = Some s -> InvG s.
Proof. apply invg_run; [apply inv_init|apply invg_init]. Qed.

(* ======== consequences, in the terms of the property ======================================================= *)

(* ---- mutual exclusion ---- *)
Lemma sumf_le {A} (f g : A -> nat) l : (forall a, f a <= g a) -> sumf f l <= sumf g l.
Proof. intros H. induction l as [|a l IH]; [apply le_n|]. rewrite !sumf_cons. specialize (H a). lia. Qed.

Lemma mutex s : Inv s ->
  tokens s <= 1 /\ (tokens s = 0 <-> sender s = NotLocked) /\ sumf inside (cos s) <= 1 /\
  (forall c c' x x', get s c = Some x -> get s c' = Some x' -> c <> c' -> tok x + tok x' <= 1).
Proof.
  intros I. pose proof (tokens_le1 s I) as T. split; [exact T|]. split; [|split].
  - rewrite (i_tok s I). destruct (sender s); simpl; split; try reflexivity; try discriminate; lia.
  - assert (sumf inside (cos s) <= tokens s); [|lia]. apply sumf_le. intros a. unfold inside, tok, holds.
    destruct (pc a); lia.
  - intros c c' x x' H H' N. pose proof (tok_le2 s c c' x x' H H' N). lia.
Qed.

(* ---- TryLock / the lock CASes succeed only when nobody holds the lock ---- *)
Lemma acquire_only_free s e s' : Inv s -> step s e = Some s' ->
  match e with ETCas _ true | ELCasN _ => True | _ => False end ->
  sender s = NotLocked /\ tokens s = 0 /\ sumf inside (cos s) = 0 /\ tokens s' = 1.
Proof.
  intros I H E.
  assert (F : is_free (sender s) = true).
  { destruct e; try contradiction; [destruct ok; try contradiction|]; unfold step in H; case_hyp H;
      try (apply eqb_true_l in Heqb; symmetry; exact Heqb); try assumption; reflexivity. }
  pose proof (inv_step s e s' I H) as I'.
  assert (S' : is_free (sender s') = false).
  { destruct e; try contradiction; [destruct ok; try contradiction|]; unfold step in H; case_hyp H;
      inv_some H; reflexivity. }
  pose proof (i_tok s I) as T. rewrite F in T. pose proof (i_tok s' I') as T'. rewrite S' in T'.
  split; [destruct (sender s); [reflexivity|discriminate]|]. split; [exact T|]. split; [|exact T'].
  assert (sumf inside (cos s) <= tokens s); [|lia]. apply sumf_le. intros a. unfold inside, tok, holds.
  destruct (pc a); lia.
Qed.

(* ---- no lost wake-up ---- *)
(* every parked coroutine is in exactly one place of the two lists, and only parked coroutines are *)
Lemma parked_exactly_once s : Inv s ->
  NoDup (waiters (sender s) ++ receiver s) /\
  forall c x, get s c = Some x -> (pc x = PParked <-> In c (waiters (sender s) ++ receiver s)).
Proof.
  intros I. split; [apply (i_pk2 s I)|]. intros c x H. split; [apply (i_pk3 s I c x H)|].
  intros Hin. destruct (i_pk1 s I c Hin) as (y & Hy & Py). unfold lists in *. congruence.
Qed.

(* a parked coroutine is on no worker and in no executor queue *)
Lemma parked_no_slot s c x : Inv s -> get s c = Some x -> pc x = PParked -> loc x = LNone.
Proof.
  intros I H P. pose proof (proj1 (i_lc _ I _ _ H)) as L. unfold lcb in L. rewrite P in L.
  destruct (loc x); simpl in L; try discriminate. reflexivity.
Qed.

Lemma step_some_neq {A} (o : option A) v : o = Some v -> o <> None.
Proof. congruence. Qed.

Lemma get_set_co_len s c v x n y : get s c = Some x -> get s n = Some y -> exists y', get (set_co c v s) n = Some y'.
Proof.
  intros H Hn. rewrite (get_set_co _ _ _ _ _ H). destruct (Nat.eqb n c); eauto.
Qed.

(* the coroutine that runs on a worker never blocks: its next event is enabled *)
Lemma co_never_blocks s c x e : Inv s -> get s c = Some x -> co_ev s c x = Some e -> step s e <> None.
Proof.
  intros I H E. unfold co_ev in E. destruct (loc x) eqn:L; try discriminate.
  destruct (pc x) eqn:P; try discriminate.
  - inv_some E. unfold step. rewrite H, P, L. discriminate.
  - inv_some E. unfold step. rewrite H, P, ptr_eqb_refl. unfold try_failed. destruct (head (sender s)), k; discriminate.
  - inv_some E. unfold step. rewrite H, P, eqb_reflx. unfold try_failed. destruct (is_free (sender s)), k; discriminate.
  - inv_some E. unfold step. rewrite H, P, ptr_eqb_refl. discriminate.
  - destruct e0.
    + destruct (is_free (sender s)) eqn:F; inv_some E; unfold step; rewrite H, P.
      * rewrite F. discriminate.
      * rewrite ptr_eqb_refl. discriminate.
    + destruct (ptr_eqb PL (head (sender s))) eqn:Q; inv_some E; unfold step; rewrite H, P.
      * destruct (sender s) as [|[|? ?]]; simpl in *; try discriminate.
      * rewrite ptr_eqb_refl. discriminate.
    + destruct (ptr_eqb (PW c0) (head (sender s))) eqn:Q; inv_some E; unfold step; rewrite H, P.
      * destruct (sender s) as [|[|? ?]]; simpl in *; try discriminate; rewrite Q; discriminate.
      * rewrite ptr_eqb_refl. discriminate.
  - inv_some E. unfold step. rewrite H, P, L. discriminate.
  - inv_some E. unfold step. rewrite H, P, L.
    assert (R : rel x = None).
    { pose proof (tok_one s c x I H) as T. unfold tok, holds, releasing in T. rewrite P in T.
      destruct (rel x); [lia|reflexivity]. }
    rewrite R. discriminate.
Qed.

Lemma hand_enabled s c x xc n rest lc' e : Inv s -> get s c = Some x -> receiver s = n :: rest ->
  (n = c -> pc xc = pc x) -> hand n lc' e (set_co c xc s) <> None.
Proof.
  intros I Hx Rv Pc. unfold hand. cbn [receiver set_co]. rewrite Rv, Nat.eqb_refl.
  assert (Hin : In n (lists s)) by (unfold lists; rewrite Rv; apply in_or_app; right; left; reflexivity).
  destruct (i_pk1 s I n Hin) as (y & Hy & Py). rewrite (get_set_co _ _ _ _ _ Hx).
  destruct (Nat.eqb n c) eqn:E.
  - apply Nat.eqb_eq in E. subst n. rewrite Hx in Hy. inv_some Hy. rewrite (Pc eq_refl), Py. discriminate.
  - rewrite Hy, Py. discriminate.
Qed.

(* the release procedure never blocks and never dereferences null (M4): its next event is enabled *)
Lemma rel_never_blocks s c x e : Inv s -> get s c = Some x -> rel_ev s c x = Some e -> step s e <> None.
Proof.
  intros I H E. unfold rel_ev in E. destruct (rel x) as [[[f stg] w]|] eqn:R; [|discriminate]. inv_some E.
  pose proof (i_lc _ I _ _ H) as [L G]. unfold lcb in L. rewrite R in L. apply andb_true_iff in L. destruct L as [_ L].
  unfold stage_ok in G. rewrite R in G.
  assert (F : is_free (sender s) = false) by (eapply tok_locked; eauto; eapply rel_tok; eauto).
  destruct stg.
  - (* RSelf *) destruct f; try discriminate. unfold step. rewrite H, R, Nat.eqb_refl. discriminate.
  - (* RAssert *) unfold step. rewrite H, R, ptr_eqb_refl. destruct (sender s) as [|[|? ?]]; simpl in *; discriminate.
  - (* RCheck *) unfold step. rewrite H, R, eqb_reflx. discriminate.
  - (* RLoad *) unfold step. rewrite H, R, ptr_eqb_refl. discriminate.
  - (* RCas *) unfold step. rewrite H, R, eqb_reflx. destruct (is_locked_empty (sender s)); discriminate.
  - (* RHead *) apply andb_true_iff in G. destruct G as [_ G]. unfold step. rewrite H, R, ptr_eqb_refl.
    destruct (sender s) as [|[|? ?]]; try discriminate; destruct (fifo s); discriminate.
  - (* RNext *) destruct (receiver s) as [|n rest] eqn:Rv; [discriminate|]. simpl hd.
    assert (Hin : In n (lists s)) by (unfold lists; rewrite Rv; apply in_or_app; right; left; reflexivity).
    destruct (i_pk1 s I n Hin) as (y & Hy & Py). unfold get in Hy. rewrite Hy.
    assert (Sub : forall e', step s (ERSubmitNext c n (exe y)) = e' ->
                  (match f with ROn _ => negb (batching s && had) | _ => true end) = true -> e' <> None).
    { intros e' <- Sb. unfold step. rewrite H, R, Sb.
      destruct (Nat.eq_dec n c) as [->|N].
      - assert (y = x) by (unfold get in H; congruence). subst y.
        assert (f_on : exists old, f = ROn old).
        { destruct f; eauto; exfalso; unfold is_prel in L; rewrite Py in L; discriminate. }
        destruct f_on as (old & ->). rewrite (get_set_co_same _ _ _ _ H). cbn. rewrite Nat.eqb_refl.
        eapply hand_enabled; eauto.
      - rewrite (get_set_co_other _ _ _ _ _ H N). unfold get at 1. rewrite Hy, Nat.eqb_refl.
        eapply hand_enabled; eauto. intros; contradiction. }
    destruct f.
    + eapply Sub; reflexivity.
    + eapply Sub; reflexivity.
    + destruct (batching s && had) eqn:B.
      * unfold step. rewrite H, R, B. eapply hand_enabled; eauto.
      * eapply Sub; reflexivity.
  - (* RBatch *) destruct f; try discriminate. destruct (receiver s) as [|n rest] eqn:Rv; [discriminate|]. simpl hd.
    assert (Hin : In n (lists s)) by (unfold lists; rewrite Rv; apply in_or_app; right; left; reflexivity).
    destruct (i_pk1 s I n Hin) as (y & Hy & Py). unfold get in Hy. rewrite Hy.
    unfold step. rewrite H, R, Rv. unfold get at 1. rewrite Hy, Nat.eqb_refl.
    match goal with |- context [get (set_co c ?v s) n] => destruct (get_set_co_len s c v x n y H Hy) as (y' & ->) end.
    discriminate.
  - (* RXfer *) destruct f; try discriminate. destruct (receiver s) as [|n' rest] eqn:Rv; [discriminate|].
    apply Nat.eqb_eq in G. subst n'. unfold step. rewrite H, R, Nat.eqb_refl. eapply hand_enabled; eauto.
Qed.

(* whoever holds the token runs, is runnable, or is a release procedure on a worker *)
Lemma holder_is_active s c x : Inv s -> get s c = Some x -> tok x > 0 -> passive x = false.
Proof.
  intros I H T. pose proof (proj1 (i_lc _ I _ _ H)) as L. unfold lcb in L. apply andb_true_iff in L.
  destruct L as [L _]. unfold passive, tok, holds, releasing in *.
  destruct (rel x); [destruct (loc x); reflexivity|]. destruct (pc x), (loc x); simpl in *; try discriminate; try lia; reflexivity.
Qed.

(* quiescent (every worker idle, every executor queue empty) => the mutex is free, nobody is parked, every coroutine
   has finished: no request is left ungranted *)
Lemma quiescent_all_granted s : Inv s -> quiescent s = true ->
  sender s = NotLocked /\ receiver s = [] /\ tokens s = 0 /\
  forall c x, get s c = Some x -> pc x = PDone.
Proof.
  intros I Q. unfold quiescent in Q.
  assert (T : tokens s = 0).
  { destruct (Nat.eq_dec (tokens s) 0) as [|N]; [assumption|exfalso].
    destruct (sumf_pos_ex tok (cos s)) as (c & x & Hx & Tx); [unfold tokens in N; lia|].
    pose proof (holder_is_active s c x I Hx Tx) as P. rewrite (forallb_nth _ _ _ _ Q Hx) in P. discriminate. }
  assert (F : sender s = NotLocked).
  { pose proof (i_tok s I) as E. rewrite T in E. destruct (sender s); [reflexivity|discriminate]. }
  assert (R : receiver s = []) by (apply (i_recv s I); rewrite F; reflexivity).
  split; [exact F|]. split; [exact R|]. split; [exact T|].
  intros c x Hx. pose proof (forallb_nth _ _ _ _ Q Hx) as P. unfold passive in P.
  pose proof (proj1 (i_lc _ I _ _ Hx)) as L. unfold lcb in L. apply andb_true_iff in L. destruct L as [L _].
  destruct (loc x); try discriminate. destruct (pc x) eqn:Px; simpl in L; try discriminate; [|reflexivity].
  pose proof (i_pk3 s I c x Hx Px) as Hin. unfold lists in Hin. rewrite F, R in Hin. destruct Hin.
Qed.

Lemma forallb_false_ex {A} (f : A -> bool) l : forallb f l = false -> exists n x, nth_error l n = Some x /\ f x = false.
Proof.
  induction l as [|a l IH]; simpl; [discriminate|]. destruct (f a) eqn:E; simpl.
  - intros H. destruct (IH H) as (n & x & Hn & Hx). exists (S n), x. split; assumption.
  - intros _. exists 0, a. split; [reflexivity|assumption].
Qed.

Lemma existsb_nth {A} (f : A -> bool) l : existsb f l = true -> exists n x, nth_error l n = Some x /\ f x = true.
Proof.
  induction l as [|a l IH]; simpl; [discriminate|]. destruct (f a) eqn:E; simpl.
  - intros _. exists 0, a. split; [reflexivity|assumption].
  - intros H. destruct (IH H) as (n & x & Hn & Hx). exists (S n), x. split; assumption.
Qed.

(* something that is on a worker has an enabled step *)
Lemma active_can_step s c x : Inv s -> get s c = Some x -> (running x = true \/ rel x <> None) ->
  exists e s', step s e = Some s'.
Proof.
  intros I H [Rn|Rl].
  - destruct (rel x) as [r|] eqn:R.
    + destruct (rel_ev s c x) as [e|] eqn:E; [|unfold rel_ev in E; rewrite R in E; destruct r as [[? ?] ?]; discriminate].
      pose proof (rel_never_blocks s c x e I H E). destruct (step s e) as [s'|] eqn:St; [eauto|congruence].
    + destruct (co_ev s c x) as [e|] eqn:E.
      * pose proof (co_never_blocks s c x e I H E). destruct (step s e) as [s'|] eqn:St; [eauto|congruence].
      * exfalso. pose proof (proj1 (i_lc _ I _ _ H)) as L. unfold lcb, is_prel in L. rewrite R in L.
        unfold co_ev, running in *. destruct (loc x); try discriminate.
        destruct (pc x) as [| | | |? []| | | | |]; simpl in *; try discriminate.
  - destruct (rel x) as [r|] eqn:R; [|contradiction].
    destruct (rel_ev s c x) as [e|] eqn:E; [|unfold rel_ev in E; rewrite R in E; destruct r as [[? ?] ?]; discriminate].
    pose proof (rel_never_blocks s c x e I H E). destruct (step s e) as [s'|] eqn:St; [eauto|congruence].
Qed.

(* progress: unless everything is finished some step is enabled, provided every executor that has a coroutine in its
   queue has a worker ("the executors keep accepting work"); in particular with ONE worker *)
Lemma progress s : Inv s -> quiescent s = false ->
  (forall c x, get s c = Some x -> loc x = LQueued -> exists w, nth_error (wexe s) w = Some (exe x)) ->
  exists e s', step s e = Some s'.
Proof.
  intros I Q W. unfold quiescent in Q. destruct (forallb_false_ex _ _ Q) as (c & x & Hx & P).
  unfold passive in P. destruct (loc x) eqn:L.
  - (* queued: its worker is idle, or busy with something that can step *)
    destruct (W c x Hx L) as (w & Hw). destruct (idle s w) eqn:Id.
    + exists (EStart w c). unfold step. change (nth_error (cos s) c) with (get s c) in Hx. rewrite Hx, Hw, L, Nat.eqb_refl, Id.
      simpl. eauto.
    + unfold idle in Id. apply negb_false_iff in Id. destruct (existsb_nth _ _ Id) as (c' & x' & Hx' & On).
      apply (active_can_step s c' x' I Hx'). unfold on_worker, running in *.
      apply orb_true_iff in On. destruct On as [On|On].
      * left. destruct (loc x'); try discriminate. reflexivity.
      * right. destruct (rel x'); [discriminate|discriminate].
  - apply (active_can_step s c x I Hx). left. unfold running. rewrite L. reflexivity.
  - destruct (rel x) eqn:R; [|discriminate]. apply (active_can_step s c x I Hx). right. congruence.
Qed.

(* the workers are never changed *)
Lemma wexe_step s e s' : step s e = Some s' -> wexe s' = wexe s.
Proof.
  intros H. destruct e; unfold step, try_failed, hand in H; case_hyp H; inv_some H; reflexivity.
Qed.
Lemma wexe_run tr : forall s s', run s tr = Some s' -> wexe s' = wexe s.
Proof.
  induction tr as [|e tr IH]; simpl; intros s s' H; [inv_some H; reflexivity|].
  destruct (step s e) as [s1|] eqn:E; [|discriminate]. rewrite (IH _ _ H). eapply wexe_step; eauto.
Qed.

(* ---- FIFO: critical sections of coroutines that queued are entered in arrival order (M5) ---- *)
Lemma fifo_order s : InvG s -> fifo s = true ->
  pushed s = entered_q s ++ inflight s ++ receiver s ++ rev (waiters (sender s)).
Proof. intros G F. rewrite (g_fifo s G F), (g_handed s G), <- app_assoc. reflexivity. Qed.

(* ---- granted once ---- *)
Lemma granted_once s : Inv s -> InvG s ->
  NoDup (grants s) /\
  (forall c r, In (c, r) (grants s) -> exists x, get s c = Some x /\ r <= nreq x) /\
  length (inflight s) <= 1 /\
  NoDup (waiters (sender s) ++ receiver s).
Proof.
  intros I G. split; [apply (g_nodup s G)|]. split; [apply (g_le s G)|]. split; [|apply (i_pk2 s I)].
  pose proof (g_inflight s G) as J. destruct (inflight s) as [|? [|? ?]]; simpl; try lia; destruct J.
Qed.

Lemma receiver_needs_token s : Inv s -> receiver s <> [] -> tokens s = 1.
Proof.
  intros I R. rewrite (i_tok s I). destruct (is_free (sender s)) eqn:F; [|reflexivity].
  exfalso. apply R. apply (i_recv s I F).
Qed.

Lemma parked_off_worker s c x : Inv s -> get s c = Some x -> pc x = PParked ->
  loc x = LNone /\ forall w, on_worker w x = true -> rel x <> None.
Proof.
  intros I H P. pose proof (parked_no_slot s c x I H P) as L. split; [exact L|].
  intros w On. unfold on_worker in On. rewrite L in On. simpl in On. destruct (rel x); [discriminate|discriminate].
Qed.

(* the options are never changed *)
Lemma opts_step s e s' : step s e = Some s' -> fifo s' = fifo s /\ batching s' = batching s.
Proof.
  intros H. destruct e; unfold step, try_failed, hand in H; case_hyp H; inv_some H; split; simpl;
    try reflexivity; congruence.
Qed.
Lemma fifo_run tr : forall s s', run s tr = Some s' -> fifo s' = fifo s.
Proof.
  induction tr as [|e tr IH]; simpl; intros s s' H; [inv_some H; reflexivity|].
  destruct (step s e) as [s1|] eqn:E; [|discriminate]. rewrite (IH _ _ H). apply (opts_step _ _ _ E).
Qed.

(* ---- the theorems of props/Properties_C14.v, packaged --------------------------------------------------------- *)
Lemma thm_mutex f b ws hs tr s : run (init f b ws hs) tr = Some s ->
  tokens s <= 1 /\ (tokens s = 0 <-> sender s = NotLocked) /\ sumf inside (cos s) <= 1 /\
  (receiver s <> [] -> tokens s = 1) /\
  (forall c c' x x', get s c = Some x -> get s c' = Some x' -> c <> c' -> tok x + tok x' <= 1).
Proof.
  intros H. pose proof (inv_reach f b ws hs tr s H) as I. destruct (mutex s I) as (A & B & C & D).
  split; [exact A|]. split; [exact B|]. split; [exact C|]. split; [exact (receiver_needs_token s I)|exact D].
Qed.

Lemma thm_no_lost_wakeup f b ws hs tr s : run (init f b ws hs) tr = Some s ->
  (NoDup (waiters (sender s) ++ receiver s) /\
   forall c x, get s c = Some x -> (pc x = PParked <-> In c (waiters (sender s) ++ receiver s))) /\
  (forall c x, get s c = Some x -> pc x = PParked -> loc x = LNone) /\
  (forall c x e, get s c = Some x -> co_ev s c x = Some e -> step s e <> None) /\
  (forall c x e, get s c = Some x -> rel_ev s c x = Some e -> step s e <> None) /\
  (quiescent s = true ->
   sender s = NotLocked /\ receiver s = [] /\ tokens s = 0 /\ forall c x, get s c = Some x -> pc x = PDone).
Proof.
  intros H. pose proof (inv_reach f b ws hs tr s H) as I. split; [|split; [|split; [|split]]].
  - exact (parked_exactly_once s I).
  - intros c x. exact (parked_no_slot s c x I).
  - intros c x e. exact (co_never_blocks s c x e I).
  - intros c x e. exact (rel_never_blocks s c x e I).
  - exact (quiescent_all_granted s I).
Qed.

Lemma thm_fifo b ws hs tr s : run (init true b ws hs) tr = Some s ->
  pushed s = entered_q s ++ inflight s ++ receiver s ++ rev (waiters (sender s)).
Proof.
  intros H. apply (fifo_order s (invg_reach true b ws hs tr s H)). exact (fifo_run _ _ _ H).
Qed.

Lemma thm_single_worker f b e hs tr s : run (init f b [e] hs) tr = Some s ->
  wexe s = [e] /\
  (forall c x, get s c = Some x -> pc x = PParked -> loc x = LNone /\ forall w, on_worker w x = true -> rel x <> None) /\
  (quiescent s = false -> (forall c x, get s c = Some x -> loc x = LQueued -> exe x = e) ->
   exists ev s', step s ev = Some s') /\
  (quiescent s = true -> forall c x, get s c = Some x -> pc x = PDone).
Proof.
  intros H. pose proof (inv_reach f b [e] hs tr s H) as I.
  assert (W : wexe s = [e]) by (rewrite (wexe_run _ _ _ H); reflexivity).
  split; [exact W|]. split; [|split].
  - intros c x Hx P. exact (parked_off_worker s c x I Hx P).
  - intros Q E. apply (progress s I Q). intros c x Hx L. exists 0. rewrite W, (E c x Hx L). reflexivity.
  - intros Q. apply (quiescent_all_granted s I Q).
Qed.

(* ---- nobody is bypassed or dropped: how the two lists evolve in one step ------------------------------------------- *)
(* a step leaves both lists alone, or pushes one new waiter, or hands the lock to the HEAD of the receiver list, or
   (only when the receiver list is empty) moves the whole sender list to the receiver (reversed when FIFO) *)
Lemma lists_step s e s' : Inv s -> step s e = Some s' ->
  (receiver s' = receiver s /\
   (waiters (sender s') = waiters (sender s) \/ exists c, waiters (sender s') = c :: waiters (sender s))) \/
  (exists n, receiver s = n :: receiver s' /\ waiters (sender s') = waiters (sender s)) \/
  (receiver s = [] /\ waiters (sender s) <> [] /\ waiters (sender s') = [] /\
   receiver s' = if fifo s then rev (waiters (sender s)) else waiters (sender s)).
Proof.
  intros I H. destruct e; unfold step, try_failed in H.
  all: try (case_hyp H; inv_some H; left; (split; [reflexivity|left; reflexivity]); fail).
  - (* ETCas *) case_hyp H; inv_some H; left; (split; [reflexivity|left]); simpl;
      try reflexivity; apply eqb_true_l in Heqb; destruct (sender s); simpl in *; try discriminate; reflexivity.
  - (* ELCasN *) case_hyp H; inv_some H; left; (split; [reflexivity|left]); simpl;
      destruct (sender s); simpl in *; try discriminate; reflexivity.
  - (* EPush *) case_hyp H; inv_some H; left; (split; [reflexivity|right]); exists c; simpl; rewrite ?Heqw; reflexivity.
  - (* ERCas *) case_hyp H; inv_some H; left; (split; [reflexivity|left]); simpl; try reflexivity.
    apply eqb_true_l in Heqb. destruct (sender s) as [|[|? ?]]; simpl in *; try discriminate; reflexivity.
  - (* ERXchg *) case_hyp H; inv_some H; right; right.
    all: pose proof (proj2 (i_lc _ I _ _ Heqo)) as G; unfold stage_ok in G; rewrite Heqo0 in G;
      apply andb_true_iff in G; destruct G as [G _]; apply negb_true_iff in G.
    all: assert (Rv : receiver s = []) by (destruct (receiver s); [reflexivity|discriminate]).
    all: simpl; repeat split; auto; discriminate.
  - (* ERSubmitNext *) case_hyp H; unfold hand in H; cbn [receiver set_co] in H; case_hyp H; inv_some H.
    all: right; left; eexists; split; reflexivity.
  - (* ERBatchSubmit *) case_hyp H; inv_some H; left; split; [simpl; exact Heql|left; reflexivity].
  - (* ERTransfer *) case_hyp H; unfold hand in H; cbn [receiver set_co] in H; case_hyp H; inv_some H.
    all: right; left; eexists; split; reflexivity.
Qed.

Lemma thm_no_bypass f b ws hs tr s : run (init f b ws hs) tr = Some s -> forall e s', step s e = Some s' ->
  (receiver s' = receiver s /\
   (waiters (sender s') = waiters (sender s) \/ exists c, waiters (sender s') = c :: waiters (sender s))) \/
  (exists n, receiver s = n :: receiver s' /\ waiters (sender s') = waiters (sender s)) \/
  (receiver s = [] /\ waiters (sender s) <> [] /\ waiters (sender s') = [] /\
   receiver s' = if fifo s then rev (waiters (sender s)) else waiters (sender s)).
Proof. intros H e s'. exact (lists_step s e s' (inv_reach f b ws hs tr s H)). Qed.
