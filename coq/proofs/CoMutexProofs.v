(* Invariant of the CoMutex transition system (DESIGN.md Appendix A.3: M1-M5) and the facts the C14 theorems are made of.
   Everything is proved for every event sequence (schedule), every number of coroutines (the length of [cos]), every
   number of rounds, every number of executors / workers and the four <Batching, FIFO> combinations (fields of the
   state, never inspected by the proofs except where the code branches on them).

   Idiom: the coroutines are a list indexed by identity; a step rewrites one or two entries ([set_co]); the lock token is a
   sum over the list ([tokens]); everything else is pointwise ([get s c = Some x -> ...]). *)
From Coq Require Import List Arith Bool Lia.
Import ListNotations.
From YV Require Import model.CoMutex.

(* ---- identities ------------------------------------------------------------------------------ *)
Lemma ptr_eqb_eq a b : ptr_eqb a b = true <-> a = b.
Proof.
  destruct a, b; simpl; try (split; discriminate); try tauto.
  rewrite Nat.eqb_eq. split; [intros ->; reflexivity|intros H; inversion H; reflexivity].
Qed.
Lemma ptr_eqb_refl a : ptr_eqb a a = true.
Proof. apply ptr_eqb_eq. reflexivity. Qed.
Lemma eqb_true_l b c : Bool.eqb b c = true -> b = c.
Proof. apply eqb_prop. Qed.

(* ---- lists indexed by identity ------------------------------------------------------------------ *)
Lemma sumf_cons {A} (f : A -> nat) x l : sumf f (x :: l) = f x + sumf f l.
Proof. reflexivity. Qed.

Lemma nth_error_set_nth {A} (l : list A) t v old t' : nth_error l t = Some old ->
  nth_error (set_nth t v l) t' = if Nat.eqb t' t then Some v else nth_error l t'.
Proof.
  revert t t'. induction l as [|x l IH]; intros t t' H.
  - destruct t; discriminate.
  - destruct t as [|t]; simpl in *.
    + destruct t' as [|t']; reflexivity.
    + destruct t' as [|t']; simpl; [reflexivity|]. apply IH. exact H.
Qed.

Lemma sumf_set_nth {A} (f : A -> nat) (l : list A) t v old : nth_error l t = Some old ->
  sumf f (set_nth t v l) + f old = sumf f l + f v.
Proof.
  revert t. induction l as [|x l IH]; intros t H.
  - destruct t; discriminate.
  - destruct t as [|t]; simpl in *.
    + inversion H; subst. rewrite !sumf_cons. lia.
    + rewrite !sumf_cons. specialize (IH _ H). lia.
Qed.

Lemma sumf_nth_le {A} (f : A -> nat) (l : list A) t x : nth_error l t = Some x -> f x <= sumf f l.
Proof.
  revert t. induction l as [|y l IH]; intros [|t] H; simpl in H; try discriminate.
  - inversion H; subst. rewrite sumf_cons. lia.
  - rewrite sumf_cons. specialize (IH _ H). lia.
Qed.

Lemma sumf_nth_le2 {A} (f : A -> nat) (l : list A) t t' x x' :
  nth_error l t = Some x -> nth_error l t' = Some x' -> t <> t' -> f x + f x' <= sumf f l.
Proof.
  revert t t'. induction l as [|y l IH]; intros [|t] [|t'] H H' N; simpl in *; try discriminate; try congruence.
  - inversion H; subst. rewrite sumf_cons. pose proof (sumf_nth_le f l t' x' H'). lia.
  - inversion H'; subst. rewrite sumf_cons. pose proof (sumf_nth_le f l t x H). lia.
  - rewrite sumf_cons. assert (t <> t') by congruence. specialize (IH _ _ H H' H0). lia.
Qed.

Lemma sumf_pos_ex {A} (f : A -> nat) (l : list A) : sumf f l > 0 -> exists t x, nth_error l t = Some x /\ f x > 0.
Proof.
  induction l as [|y l IH]; [unfold sumf; simpl; lia|]. rewrite sumf_cons. intros H.
  destruct (f y) eqn:E.
  - destruct IH as (t & x & Hn & Hx); [lia|]. exists (S t), x. split; auto.
  - exists 0, y. split; [reflexivity|lia].
Qed.

Lemma sumf_zero_all {A} (f : A -> nat) (l : list A) t x : sumf f l = 0 -> nth_error l t = Some x -> f x = 0.
Proof. intros H Hn. pose proof (sumf_nth_le f l t x Hn). lia. Qed.

Lemma forallb_nth {A} (f : A -> bool) l t x : forallb f l = true -> nth_error l t = Some x -> f x = true.
Proof.
  intros H Hn. rewrite forallb_forall in H. apply H. eapply nth_error_In; eauto.
Qed.

(* ---- get / set_co --------------------------------------------------------------------------------- *)
Lemma get_set_co s c v x c' : get s c = Some x ->
  get (set_co c v s) c' = if Nat.eqb c' c then Some v else get s c'.
Proof. intros H. unfold get, set_co. simpl. apply nth_error_set_nth with (old := x). exact H. Qed.
Lemma get_set_co_same s c v x : get s c = Some x -> get (set_co c v s) c = Some v.
Proof. intros H. rewrite (get_set_co _ _ _ _ _ H), Nat.eqb_refl. reflexivity. Qed.
Lemma get_set_co_other s c v x c' : get s c = Some x -> c' <> c -> get (set_co c v s) c' = get s c'.
Proof. intros H N. rewrite (get_set_co _ _ _ _ _ H). apply Nat.eqb_neq in N. rewrite N. reflexivity. Qed.

Lemma tokens_set_co s c v x : get s c = Some x -> tokens (set_co c v s) + tok x = tokens s + tok v.
Proof. intros H. unfold tokens, set_co. simpl. apply sumf_set_nth. exact H. Qed.
Lemma tok_le s c x : get s c = Some x -> tok x <= tokens s.
Proof. apply sumf_nth_le. Qed.
Lemma tok_le2 s c c' x x' : get s c = Some x -> get s c' = Some x' -> c <> c' -> tok x + tok x' <= tokens s.
Proof. apply sumf_nth_le2. Qed.

(* ---- the invariant (core part) ---------------------------------------------------------------------- *)
Definition is_prel (x : co) : bool := match pc x with PRel => true | _ => false end.

(* what a coroutine's own fields satisfy *)
Definition lcb (x : co) : bool :=
  (match pc x, loc x with
   | (PParked | PDone), LNone => true
   | (POut | PGot _ | PIn), (LQueued | LRun _) => true
   | (PTry _ | PTryCas _ | PLock0 _ | PLoop _ _ | PRel), LRun _ => true
   | _, _ => false
   end) &&
  (match rel x with
   | None => negb (is_prel x)
   | Some (f, stg, _) =>
       match f, stg with
       | ROn _, RSelf _ => is_prel x
       | ROn _, (RBatch | RXfer _) => false
       | ROn _, _ => negb (is_prel x)
       | _, RSelf _ => false
       | RAwait, RXfer _ => negb (is_prel x)
       | RHere, (RBatch | RXfer _) => false
       | _, _ => is_prel x
       end
   end).

(* what the stage of a release procedure says about the shared state (M4: GetHead never returns null) *)
Definition stage_ok (snd : word) (rcv : list nat) (x : co) : bool :=
  match rel x with
  | None => true
  | Some (_, stg, _) =>
      match stg with
      | RLoad | RCas => negb (nonempty rcv)
      | RHead => negb (nonempty rcv) && match snd with Locked (_ :: _) => true | _ => false end
      | RNext _ | RBatch => nonempty rcv
      | RXfer n => match rcv with n' :: _ => Nat.eqb n n' | [] => false end
      | _ => true
      end
  end.

Definition lists (s : st) : list nat := waiters (sender s) ++ receiver s.

Record Inv (s : st) : Prop := {
  i_tok : tokens s = if is_free (sender s) then 0 else 1;                       (* M1 *)
  i_recv : is_free (sender s) = true -> receiver s = [];                         (* M2 *)
  i_lc : forall c x, get s c = Some x -> lcb x = true /\ stage_ok (sender s) (receiver s) x = true;
  i_pk1 : forall n, In n (lists s) -> exists y, get s n = Some y /\ pc y = PParked;   (* M3 *)
  i_pk2 : NoDup (lists s);
  i_pk3 : forall c x, get s c = Some x -> pc x = PParked -> In c (lists s)
}.

Lemma inv_init f b ws hs : Inv (init f b ws hs).
Proof.
  constructor; simpl; auto.
  - unfold tokens. simpl. induction hs; simpl; auto.
  - intros c x H. unfold get in H. simpl in H. apply nth_error_In in H. apply in_map_iff in H.
    destruct H as (h & <- & _). split; reflexivity.
  - intros n [].
  - constructor.
  - intros c x H. unfold get in H. simpl in H. apply nth_error_In in H. apply in_map_iff in H.
    destruct H as (h & <- & _). discriminate.
Qed.

(* ---- consequences of the token count ------------------------------------------------------------------ *)
Lemma tokens_le1 s : Inv s -> tokens s <= 1.
Proof. intros I. rewrite (i_tok s I). destruct (is_free (sender s)); lia. Qed.

Lemma free_no_tok s c x : Inv s -> is_free (sender s) = true -> get s c = Some x -> tok x = 0.
Proof.
  intros I F H. pose proof (tok_le s c x H). rewrite (i_tok s I), F in H0. lia.
Qed.

Lemma tok_locked s c x : Inv s -> get s c = Some x -> tok x > 0 -> is_free (sender s) = false.
Proof.
  intros I H T. destruct (is_free (sender s)) eqn:F; [|reflexivity].
  pose proof (free_no_tok s c x I F H). lia.
Qed.

Lemma tok_unique s c c' x x' : Inv s -> get s c = Some x -> get s c' = Some x' -> tok x > 0 -> c' <> c -> tok x' = 0.
Proof.
  intros I H H' T N. pose proof (tok_le2 s c c' x x' H H' (not_eq_sym N)). pose proof (tokens_le1 s I). lia.
Qed.

Lemma tok_one s c x : Inv s -> get s c = Some x -> tok x <= 1.
Proof. intros I H. pose proof (tok_le s c x H). pose proof (tokens_le1 s I). lia. Qed.

Lemma rel_tok x r : rel x = Some r -> tok x > 0.
Proof. unfold tok, releasing. intros ->. lia. Qed.

Lemma rel_not_holding s c x r : Inv s -> get s c = Some x -> rel x = Some r -> holds x = 0.
Proof.
  intros I H R. pose proof (tok_one s c x I H). unfold tok, releasing in H0. rewrite R in H0. lia.
Qed.

(* ---- frame lemmas ------------------------------------------------------------------------------------- *)
Lemma in_lists_not_parked_absurd s c x : Inv s -> get s c = Some x -> parked x = false -> ~ In c (lists s).
Proof.
  intros I H P Hin. destruct (i_pk1 s I c Hin) as (y & Hy & Py). rewrite H in Hy. inversion Hy; subst.
  unfold parked in P. rewrite Py in P. discriminate.
Qed.

(* rewriting one coroutine without touching the token, its being parked, or the words *)
Lemma inv_local s c x x' : Inv s -> get s c = Some x ->
  tok x' = tok x -> parked x' = parked x -> lcb x' = true -> stage_ok (sender s) (receiver s) x' = true ->
  Inv (set_co c x' s).
Proof.
  intros I H T P L G. constructor; simpl.
  - pose proof (tokens_set_co s c x' x H). rewrite <- (i_tok s I). lia.
  - apply (i_recv s I).
  - intros c' y. rewrite (get_set_co _ _ _ _ _ H). destruct (Nat.eqb c' c) eqn:E.
    + intros Hy. inversion Hy; subst. split; assumption.
    + apply (i_lc s I).
  - intros n Hin. rewrite (get_set_co _ _ _ _ _ H). destruct (Nat.eqb n c) eqn:E.
    + apply Nat.eqb_eq in E. subst n. destruct (i_pk1 s I c Hin) as (y & Hy & Py).
      rewrite H in Hy. inversion Hy; subst. exists x'. split; [reflexivity|].
      unfold parked in P. rewrite Py in P. destruct (pc x'); try discriminate. reflexivity.
    + apply (i_pk1 s I n Hin).
  - apply (i_pk2 s I).
  - intros c' y. rewrite (get_set_co _ _ _ _ _ H). destruct (Nat.eqb c' c) eqn:E.
    + apply Nat.eqb_eq in E. subst c'. intros Hy Py. inversion Hy; subst.
      apply (i_pk3 s I c x H). unfold parked in P. rewrite Py in P. destruct (pc x); try discriminate. reflexivity.
    + apply (i_pk3 s I).
Qed.

(* ---- tactics -------------------------------------------------------------------------------------------- *)
Ltac case_hyp H :=
  repeat match type of H with
         | context [match ?x with _ => _ end] => destruct x eqn:?; try discriminate H
         | context [if ?x then _ else _] => destruct x eqn:?; try discriminate H
         end.

Ltac inv_some H := inversion H; subst; clear H.

Ltac rw_fields :=
  repeat match goal with
         | E : pc ?x = _ |- context [pc ?x] => rewrite E
         | E : loc ?x = _ |- context [loc ?x] => rewrite E
         | E : rel ?x = _ |- context [rel ?x] => rewrite E
         | E : sticky ?x = _ |- context [sticky ?x] => rewrite E
         end.

Ltac rw_fields_in L :=
  repeat match goal with
         | E : pc ?x = _ |- _ => rewrite E in L
         | E : loc ?x = _ |- _ => rewrite E in L
         | E : rel ?x = _ |- _ => rewrite E in L
         end.

(* the four side conditions of [inv_local] for an update of x : get s c = Some x, by computation *)
Ltac side_tok := unfold tok, holds, releasing; cbn; rw_fields; try reflexivity.
Ltac side_parked := unfold parked; cbn; rw_fields; try reflexivity.
Ltac destruct_fields :=
  repeat match goal with
         | |- context [match pc ?x with _ => _ end] => destruct (pc x) eqn:?
         | |- context [match loc ?x with _ => _ end] => destruct (loc x) eqn:?
         | |- context [match rel ?x with _ => _ end] => destruct (rel x) as [[[[] []] ?]|] eqn:?
         | L : context [match pc ?x with _ => _ end] |- _ => destruct (pc x) eqn:?
         | L : context [match loc ?x with _ => _ end] |- _ => destruct (loc x) eqn:?
         | L : context [match rel ?x with _ => _ end] |- _ => destruct (rel x) as [[[[] []] ?]|] eqn:?
         end.
Ltac side_lcb I Hx :=
  let L := fresh "L" in
  pose proof (proj1 (i_lc _ I _ _ Hx)) as L; unfold lcb, is_prel in L |- *; cbn in L |- *;
  rw_fields_in L; rw_fields; destruct_fields;
  cbn in L |- *; try discriminate L; try reflexivity; try assumption.
Ltac side_stage I Hx :=
  let G := fresh "G" in
  pose proof (proj2 (i_lc _ I _ _ Hx)) as G; unfold stage_ok in G |- *; cbn in G |- *;
  rw_fields_in G; rw_fields; try reflexivity; try assumption.

Ltac local_update I Hx :=
  eapply inv_local; [exact I|exact Hx|side_tok|side_parked|side_lcb I Hx|side_stage I Hx].

Lemma inv_start s w c s' : Inv s -> step s (EStart w c) = Some s' -> Inv s'.
Proof.
  intros I H. unfold step in H. case_hyp H. inv_some H. local_update I Heqo.
Qed.

Lemma inv_add_try s c b : Inv s -> Inv (add_try c b s).
Proof. intros I. destruct I. constructor; simpl; auto. Qed.

Lemma inv_finish s c s' : Inv s -> step s (EFinish c) = Some s' -> Inv s'.
Proof.
  intros I H. unfold step in H. case_hyp H. inv_some H. local_update I Heqo.
Qed.

Lemma inv_hop s c e s' : Inv s -> step s (EHop c e) = Some s' -> Inv s'.
Proof.
  intros I H. unfold step in H. case_hyp H; inv_some H; local_update I Heqo.
Qed.

Lemma inv_req s c b s' : Inv s -> step s (EReq c b) = Some s' -> Inv s'.
Proof.
  intros I H. unfold step in H. case_hyp H; inv_some H; local_update I Heqo.
Qed.

Lemma inv_trybegin s c s' : Inv s -> step s (ETryBegin c) = Some s' -> Inv s'.
Proof.
  intros I H. unfold step in H. case_hyp H; inv_some H; local_update I Heqo.
Qed.

Lemma inv_try_failed s c x k : Inv s -> get s c = Some x -> (pc x = PTry k \/ pc x = PTryCas k) -> Inv (try_failed c x k s).
Proof.
  intros I Hx [P|P]; unfold try_failed; destruct k; try apply inv_add_try; local_update I Hx.
Qed.

Lemma inv_tload s c v s' : Inv s -> step s (ETLoad c v) = Some s' -> Inv s'.
Proof.
  intros I H. unfold step in H. case_hyp H; inv_some H;
    try (eapply inv_try_failed; eauto; fail); local_update I Heqo.
Qed.

Lemma inv_lload s c v s' : Inv s -> step s (ELLoad c v) = Some s' -> Inv s'.
Proof.
  intros I H. unfold step in H. case_hyp H; inv_some H; local_update I Heqo.
Qed.

Lemma inv_lfail s c v s' : Inv s -> step s (ELFail c v) = Some s' -> Inv s'.
Proof.
  intros I H. unfold step in H. case_hyp H; inv_some H; local_update I Heqo.
Qed.

Lemma inv_leave s c u s' : Inv s -> step s (ELeave c u) = Some s' -> Inv s'.
Proof.
  intros I H. unfold step in H. case_hyp H; inv_some H; local_update I Heqo.
Qed.

(* a release procedure that still runs inside the coroutine's own unlock call *)
Definition sync_stage (f : rform) (stg : rpc) : bool :=
  match f, stg with
  | ROn _, RSelf _ => true
  | ROn _, _ => false
  | RAwait, RXfer _ => false
  | _, _ => true
  end.
Lemma rel_pc s c x f stg w : Inv s -> get s c = Some x -> rel x = Some (f, stg, w) -> sync_stage f stg = true ->
  pc x = PRel.
Proof.
  intros I H R S. pose proof (proj1 (i_lc _ I _ _ H)) as L. unfold lcb, is_prel in L. rewrite R in L.
  apply andb_true_iff in L. destruct L as [_ L].
  destruct f, stg; simpl in S; try discriminate; destruct (pc x); try discriminate; reflexivity.
Qed.
Lemma rel_pc_async s c x f stg w : Inv s -> get s c = Some x -> rel x = Some (f, stg, w) -> sync_stage f stg = false ->
  pc x <> PRel.
Proof.
  intros I H R S. pose proof (proj1 (i_lc _ I _ _ H)) as L. unfold lcb, is_prel in L. rewrite R in L.
  apply andb_true_iff in L. destruct L as [_ L].
  destruct f, stg; simpl in S; try discriminate; destruct (pc x); try discriminate; congruence.
Qed.

Lemma inv_rself s c e s' : Inv s -> step s (ERSelf c e) = Some s' -> Inv s'.
Proof.
  intros I H. unfold step in H. case_hyp H; inv_some H.
  assert (P : pc c0 = PRel) by (eapply rel_pc; eauto).
  local_update I Heqo.
Qed.

Lemma inv_rassert s c v s' : Inv s -> step s (ERAssert c v) = Some s' -> Inv s'.
Proof.
  intros I H. unfold step in H. case_hyp H; inv_some H; local_update I Heqo.
Qed.
