(* SchedInvProofs.v — the structural invariant of the scheduler machine (model/Sched.v), for ALL programs, any number
   of fibers and steps:
     - the scheduler node of a fiber is linked at most once (current fiber / run queue / sleep buckets),
     - its wait-queue node is linked at most once,
     - only a fiber inside a timed wait is linked in both,
     - a fiber in a plain sleep sits in the bucket of its deadline until the clock has reached it,
     - completed fibers and fibers parked in join() are linked nowhere, new ids are fresh.
   Consequences: no fiber in two queues; a sleeper is never resumed before its deadline. *)
From Coq Require Import List Arith Bool NArith Lia.
Import ListNotations.
From YV Require Import model.Sched.

(* ------------------------------------------------------------------ counting occurrences *)
Definition b2n (b : bool) : nat := if b then 1 else 0.

Fixpoint cnt (f : fid) (l : list fid) : nat :=
  match l with
  | [] => 0
  | x :: r => b2n (Nat.eqb x f) + cnt f r
  end.
Fixpoint scnt (f : fid) (m : list (N * list fid)) : nat :=
  match m with
  | [] => 0
  | kb :: r => cnt f (snd kb) + scnt f r
  end.
Fixpoint wcnt (f : fid) (w : list (qid * list fid)) : nat :=
  match w with
  | [] => 0
  | qb :: r => cnt f (snd qb) + wcnt f r
  end.
Definition ccnt (f : fid) (c : option fid) : nat :=
  match c with Some g => b2n (Nat.eqb g f) | None => 0 end.

Lemma cnt_app : forall f a b, cnt f (a ++ b) = cnt f a + cnt f b.
Proof. induction a as [|x a IH]; intros b; simpl; auto. rewrite IH. lia. Qed.

Lemma cnt_rm : forall f g l, cnt f (rm g l) = if Nat.eqb f g then 0 else cnt f l.
Proof.
  intros f g l. unfold rm. induction l as [|x l IH]; simpl.
  - destruct (Nat.eqb f g); auto.
  - destruct (Nat.eqb_spec x g) as [->|Hxg]; simpl.
    + rewrite IH. destruct (Nat.eqb_spec f g) as [->|Hfg]; auto.
      destruct (Nat.eqb_spec g f); [congruence|]. auto.
    + rewrite IH. destruct (Nat.eqb_spec f g) as [->|Hfg]; auto.
      destruct (Nat.eqb_spec x g); [congruence|]. auto.
Qed.

Lemma cnt_remove_nth : forall f g i l, nth_error l i = Some g ->
  cnt f (remove_nth i l) + b2n (Nat.eqb g f) = cnt f l.
Proof.
  intros f g i l. revert i. induction l as [|x l IH]; intros [|i] H; simpl in *; try discriminate.
  - inversion H. lia.
  - rewrite <- (IH i H). lia.
Qed.

Lemma mem_cnt : forall f l, mem f l = true <-> cnt f l >= 1.
Proof.
  intros f l. unfold mem. induction l as [|x l IH]; simpl.
  - split; [discriminate|lia].
  - rewrite Nat.eqb_sym. destruct (Nat.eqb x f); simpl.
    + split; auto. lia.
    + rewrite IH. lia.
Qed.

Lemma mem_cnt0 : forall f l, mem f l = false <-> cnt f l = 0.
Proof.
  intros f l. pose proof (mem_cnt f l). destruct (mem f l).
  - split; [discriminate|]. intros. assert (cnt f l >= 1) by (apply H; auto). lia.
  - split; auto. intros _. destruct (cnt f l) eqn:E; auto. assert (false = true) by (apply H; lia). discriminate.
Qed.

Lemma cnt_rev : forall f l, cnt f (rev l) = cnt f l.
Proof. induction l as [|x l IH]; simpl; auto. rewrite cnt_app, IH. simpl. lia. Qed.

Lemma scnt_push : forall f ns g m, scnt f (sm_push ns g m) = scnt f m + b2n (Nat.eqb g f).
Proof.
  intros f ns g m. induction m as [|[k b] m IH]; simpl.
  - lia.
  - destruct (ns ?= k)%N; simpl.
    + rewrite cnt_app. simpl. lia.
    + lia.
    + rewrite IH. lia.
Qed.

Lemma scnt_rm : forall f g m,
  scnt f (map (fun kb => (fst kb, rm g (snd kb))) m) = if Nat.eqb f g then 0 else scnt f m.
Proof.
  intros f g m. induction m as [|[k b] m IH]; simpl.
  - destruct (Nat.eqb f g); auto.
  - rewrite IH, cnt_rm. destruct (Nat.eqb f g); auto.
Qed.

Lemma scnt_erase_empty : forall f ns m b, sm_find ns m = Some b -> is_nil b = true ->
  scnt f (sm_erase ns m) = scnt f m.
Proof.
  intros f ns m. induction m as [|[k b0] m IH]; intros b Hf Hn; simpl in *; try discriminate.
  destruct (k =? ns)%N.
  - inversion Hf. subst b0. destruct b; [simpl; auto|discriminate].
  - simpl. rewrite (IH b); auto.
Qed.

Lemma wake_cnt : forall f t m, scnt f m = cnt f (fst (wake t m)) + scnt f (snd (wake t m)).
Proof.
  intros f t m. induction m as [|[k b] m IH]; simpl; auto.
  destruct (k <=? t)%N; simpl; auto.
  destruct (wake t m) as [w r']. simpl in *. rewrite cnt_app. lia.
Qed.

Lemma wcnt_wset : forall f q v w, wcnt f (wset q v w) + cnt f (wget q w) = wcnt f w + cnt f v.
Proof.
  intros f q v w. induction w as [|[a b] w IH]; simpl.
  - destruct v; simpl; lia.
  - destruct (qid_eqb a q); simpl.
    + destruct v; simpl; lia.
    + lia.
Qed.

Lemma wget_le : forall f q w, cnt f (wget q w) <= wcnt f w.
Proof.
  intros f q w. induction w as [|[a b] w IH]; simpl; auto. destruct (qid_eqb a q); lia.
Qed.

Lemma qid_eqb_refl : forall q, qid_eqb q q = true.
Proof. intros []; simpl; apply Nat.eqb_refl. Qed.

Lemma qid_eqb_eq : forall a b, qid_eqb a b = true -> a = b.
Proof.
  intros [x|x|x] [y|y|y]; simpl; try discriminate; intros H; apply Nat.eqb_eq in H; subst; auto.
Qed.

Lemma wget_wset_same : forall q v w, v <> [] -> wget q (wset q v w) = v.
Proof.
  intros q v w Hv. induction w as [|[a b] w IH]; simpl.
  - destruct v; [congruence|]. simpl. rewrite qid_eqb_refl. auto.
  - destruct (qid_eqb a q) eqn:E.
    + destruct v; [congruence|]. simpl. rewrite E. auto.
    + simpl. rewrite E. auto.
Qed.

Lemma wget_wset_other : forall q q' v w, qid_eqb q' q = false -> wget q (wset q' v w) = wget q w.
Proof.
  intros q q' v w Hq. induction w as [|[a b] w IH]; simpl.
  - destruct v; simpl; auto. rewrite Hq. auto.
  - destruct (qid_eqb a q') eqn:E.
    + apply qid_eqb_eq in E. subst a. rewrite Hq. destruct v; simpl; auto. rewrite Hq. auto.
    + simpl. destruct (qid_eqb a q); auto.
Qed.

(* bucket ns of the sleep map holds f *)
Definition bhas (ns : N) (f : fid) (m : list (N * list fid)) : Prop :=
  exists b, In (ns, b) m /\ cnt f b >= 1.

Lemma bhas_scnt : forall ns f m, bhas ns f m -> scnt f m >= 1.
Proof.
  intros ns f m [b [Hin Hc]]. induction m as [|[k b0] m IH]; simpl in *; [tauto|].
  destruct Hin as [H|H].
  - inversion H. subst. lia.
  - specialize (IH H). lia.
Qed.

Lemma bhas_push_same : forall ns f m, bhas ns f (sm_push ns f m).
Proof.
  intros ns f m. induction m as [|[k b] m IH]; simpl.
  - exists [f]. simpl. rewrite Nat.eqb_refl. split; auto.
  - destruct (N.compare_spec ns k).
    + subst. exists (b ++ [f]). split; [left; auto|]. rewrite cnt_app. simpl. rewrite Nat.eqb_refl. simpl. lia.
    + exists [f]. simpl. rewrite Nat.eqb_refl. split; auto.
    + destruct IH as [b' [Hin Hc]]. exists b'. split; [right; auto|auto].
Qed.

Lemma bhas_push_other : forall k h ns f m, bhas k h m -> bhas k h (sm_push ns f m).
Proof.
  intros k h ns f m [b [Hin Hc]]. induction m as [|[k0 b0] m IH]; simpl in *; [tauto|].
  destruct (N.compare_spec ns k0) as [Heq|Hlt|Hgt].
  - subst. destruct Hin as [H0|H0].
    + inversion H0. subst. exists (b ++ [f]). split; [left; auto|]. rewrite cnt_app. lia.
    + exists b. split; [right; auto|auto].
  - exists b. split; [right; auto|auto].
  - destruct Hin as [H0|H0].
    + exists b. split; [left; auto|auto].
    + destruct (IH H0) as [b' [Hin' Hc']]. exists b'. split; [right; auto|auto].
Qed.

Lemma bhas_rm : forall k h g m, h <> g -> bhas k h m -> bhas k h (map (fun kb => (fst kb, rm g (snd kb))) m).
Proof.
  intros k h g m Hne [b [Hin Hc]]. exists (rm g b). split.
  - apply (in_map (fun kb => (fst kb, rm g (snd kb))) m (k, b)) in Hin. exact Hin.
  - rewrite cnt_rm. destruct (Nat.eqb_spec h g); [congruence|auto].
Qed.

Lemma bhas_erase : forall k h ns m b, sm_find ns m = Some b -> is_nil b = true -> bhas k h m -> bhas k h (sm_erase ns m).
Proof.
  intros k h ns m b Hf Hn. destruct b; [|discriminate]. clear Hn.
  induction m as [|[k0 b0] m IH]; intros [b1 [Hin Hc]]; simpl in *; [tauto|].
  destruct (k0 =? ns)%N eqn:E.
  - inversion Hf as [Hb0]. destruct Hin as [H0|H0].
    + inversion H0 as [[Hk Hb]]. rewrite <- Hb, Hb0 in Hc. simpl in Hc. lia.
    + exists b1. auto.
  - destruct Hin as [H0|H0].
    + exists b1. split; [left; auto|auto].
    + destruct (IH Hf) as [b' [Hin' Hc']]; [exists b1; auto|]. exists b'. split; [right; auto|auto].
Qed.

Lemma bhas_wake : forall k h t m, bhas k h m ->
  ((k <= t)%N /\ cnt h (fst (wake t m)) >= 1) \/ bhas k h (snd (wake t m)).
Proof.
  intros k h t m [b [Hin Hc]]. induction m as [|[k0 b0] m IH]; simpl in *; [tauto|].
  destruct (N.leb_spec k0 t).
  - destruct (wake t m) as [w r'] eqn:Ew. simpl in *. destruct Hin as [H0|H0].
    + inversion H0. subst. left. split; auto. rewrite cnt_app. lia.
    + destruct (IH H0) as [[Hk Hw]|Hb].
      * left. split; auto. rewrite cnt_app. lia.
      * right. exact Hb.
  - right. exists b. simpl. auto.
Qed.

(* ------------------------------------------------------------------ fiber records *)
Lemma fget_fupd : forall f g u l,
  fget g (fupd f u l) = if Nat.eqb f g then option_map u (fget g l) else fget g l.
Proof.
  intros f g u l. induction l as [|[x r] l IH]; simpl.
  - destruct (Nat.eqb f g); auto.
  - destruct (Nat.eqb_spec x f) as [Hxf|Hxf]; simpl.
    + subst x. destruct (Nat.eqb f g); simpl; auto.
    + destruct (Nat.eqb_spec x g) as [Hxg|Hxg]; simpl.
      * subst x. destruct (Nat.eqb_spec f g); [congruence|auto].
      * exact IH.
Qed.

Lemma fget_fdel_other : forall f g l, f <> g -> fget g (fdel f l) = fget g l.
Proof.
  intros f g l Hne. induction l as [|[x r] l IH]; simpl; auto.
  destruct (Nat.eqb_spec x f) as [->|Hxf]; simpl.
  - destruct (Nat.eqb_spec f g); [congruence|auto].
  - destruct (Nat.eqb x g); auto.
Qed.

Lemma fget_app1 : forall f g r l,
  fget f (l ++ [(g, r)]) = match fget f l with Some x => Some x | None => if Nat.eqb g f then Some r else None end.
Proof.
  intros f g r l. induction l as [|[x r0] l IH]; simpl; auto. destruct (Nat.eqb x f); auto.
Qed.

Lemma fget_none_keys : forall f l, fget f l = None <-> ~ In f (map fst l).
Proof.
  intros f l. induction l as [|[x r] l IH]; simpl.
  - tauto.
  - destruct (Nat.eqb_spec x f) as [->|Hne].
    + split; [discriminate|]. intros H. exfalso. apply H. auto.
    + rewrite IH. split; [intros H [E|E]; [congruence|tauto] | tauto].
Qed.

Lemma fupd_keys : forall f u l, map fst (fupd f u l) = map fst l.
Proof.
  intros f u l. induction l as [|[x r] l IH]; simpl; auto.
  destruct (Nat.eqb x f); simpl; [auto|rewrite IH; auto].
Qed.

Lemma fget_fdel_same : forall f l, NoDup (map fst l) -> fget f (fdel f l) = None.
Proof.
  intros f l. induction l as [|[x r] l IH]; intros Hnd; simpl; auto.
  inversion Hnd as [|? ? Hnin Hnd']. subst.
  destruct (Nat.eqb_spec x f) as [->|Hne].
  - simpl in Hnin. apply fget_none_keys. exact Hnin.
  - simpl. destruct (Nat.eqb_spec x f); [congruence|]. apply IH. exact Hnd'.
Qed.

Lemma fdel_keys_nodup : forall f l, NoDup (map fst l) -> NoDup (map fst (fdel f l)).
Proof.
  intros f l. induction l as [|[x r] l IH]; intros Hnd; simpl; auto.
  inversion Hnd as [|? ? Hnin Hnd']. subst.
  destruct (Nat.eqb x f); auto. simpl. constructor; auto.
  intros Hin. apply Hnin. clear -Hin. induction l as [|[y r'] l IH]; simpl in *; auto.
  destruct (Nat.eqb y f); simpl in *; tauto.
Qed.

Lemma NoDup_app_snoc : forall (l : list fid) x, NoDup l -> ~ In x l -> NoDup (l ++ [x]).
Proof.
  induction l as [|a l IH]; intros x Hnd Hnin; simpl.
  - constructor; [intros []|constructor].
  - inversion Hnd as [|? ? Ha Hl]. subst. constructor.
    + intros H. apply in_app_or in H. destruct H as [H|[H|[]]]; [tauto|]. subst. apply Hnin. left. auto.
    + apply IH; auto. intros H. apply Hnin. right. auto.
Qed.

(* ------------------------------------------------------------------ the invariant *)
Definition Cc (s : st) (f : fid) : nat := ccnt f (cur s) + cnt f (runq s) + scnt f (sleepm s).
Definition Wc (s : st) (f : fid) : nat := wcnt f (waitq s).
Definition fsO (s : st) (g : fid) : option fstate := option_map fs (fget g (fibers s)).
Definition pendO (s : st) (g : fid) : option pending := option_map pend (fget g (fibers s)).
Definition joinO (s : st) (g : fid) : option (option fid) := option_map joiner (fget g (fibers s)).
(* j is parked in Thread::join of the fiber g that has not exited yet *)
Definition pjoin (s : st) (g j : fid) : Prop := joinO s g = Some (Some j) /\ fsO s g <> Some FCompleted.

Section Inv.

Variable alloc : nat -> fid.

Record inv (s : st) : Prop := {
  iA : forall f, Cc s f <= 1;
  iB : forall f, Wc s f <= 1;
  iC : forall f, Wc s f >= 1 -> Cc s f >= 1 ->
       exists q ns, pendO s f = Some (PTimed q ns) /\ cnt f (wq q s) >= 1;
  iD : forall f ns, pendO s f = Some (PSleep ns) ->
       Wc s f = 0 /\ (bhas ns f (sleepm s) \/ (cnt f (runq s) >= 1 /\ (ns <= now s)%N));
  iH : forall g, fsO s g = Some FCompleted -> Cc s g = 0 /\ Wc s g = 0;
  iE : forall g j, pjoin s g j ->
       Cc s j = 0 /\ Wc s j = 0 /\ (forall g', pjoin s g' j -> g' = g) /\ fsO s j <> Some FCompleted;
  iF : forall k, nsp s <= k ->
       Cc s (alloc k) = 0 /\ Wc s (alloc k) = 0 /\ fsO s (alloc k) = None /\
       (forall g, joinO s g <> Some (Some (alloc k)));
  iK : NoDup (map fst (fibers s))
}.

(* s' looks the same as s to the invariant: fibers may have moved from a bucket to the run queue once their
   deadline passed or from "current" to the run queue, the clock may have advanced (qview); non-completed states and
   fields the invariant does not read may have changed (fview) *)
Definition qview (s s' : st) : Prop :=
  (forall f, Cc s' f = Cc s f) /\ waitq s' = waitq s /\ nsp s' = nsp s /\
  (forall ns f, pendO s f = Some (PSleep ns) ->
     bhas ns f (sleepm s) \/ (cnt f (runq s) >= 1 /\ (ns <= now s)%N) ->
     bhas ns f (sleepm s') \/ (cnt f (runq s') >= 1 /\ (ns <= now s')%N)).
Definition fview (s s' : st) : Prop :=
  map fst (fibers s') = map fst (fibers s) /\
  (forall g, fsO s' g = Some FCompleted <-> fsO s g = Some FCompleted) /\
  (forall g, fsO s' g = None <-> fsO s g = None) /\
  (forall g, pendO s' g = pendO s g) /\ (forall g, joinO s' g = joinO s g).

Lemma inv_wview : forall s s', qview s s' -> fview s s' -> inv s -> inv s'.
Proof.
  intros s s' (HC & Hw & Hn & HD) (Hk & Hfc & Hfn & Hp & Hj) I.
  assert (HW : forall f, Wc s' f = Wc s f) by (intros; unfold Wc; rewrite Hw; auto).
  assert (HPJ : forall g j, pjoin s' g j <-> pjoin s g j) by (intros; unfold pjoin; rewrite Hj, Hfc; tauto).
  constructor.
  - intros f. rewrite HC. apply I.
  - intros f. rewrite HW. apply I.
  - intros f. rewrite HW, HC, Hp. unfold wq. rewrite Hw. apply I.
  - intros f ns P. rewrite Hp in P. rewrite HW. destruct (iD _ I f ns P) as [D1 D2]. split; auto.
  - intros g Hg. rewrite HC, HW. apply I. apply Hfc. exact Hg.
  - intros g j Hpj. apply HPJ in Hpj. destruct (iE _ I _ _ Hpj) as (E1 & E2 & E3 & E4).
    rewrite HC, HW, Hfc. repeat split; auto. intros g' Hg'. apply E3. apply HPJ. exact Hg'.
  - intros k Hk'. rewrite Hn in Hk'. destruct (iF _ I k Hk') as (F1 & F2 & F3 & F4).
    rewrite HC, HW, Hfn. repeat split; auto. intros g. rewrite Hj. apply F4.
  - rewrite Hk. apply I.
Qed.

Lemma qview_refl : forall s s', cur s' = cur s -> runq s' = runq s -> sleepm s' = sleepm s -> waitq s' = waitq s ->
  nsp s' = nsp s -> now s' = now s -> qview s s'.
Proof.
  intros s s' A B C D E F. unfold qview, Cc. rewrite A, B, C, D, E, F. repeat split; auto.
Qed.

Lemma fview_refl : forall s s', fibers s' = fibers s -> fview s s'.
Proof. intros s s' H. unfold fview, fsO, pendO, joinO. rewrite H. repeat split; auto. Qed.

(* the record of f is updated by u, which keeps its pending call and joiner and does not touch "completed" *)
Lemma fview_upd : forall f u s s', fibers s' = fupd f u (fibers s) ->
  (forall r, fget f (fibers s) = Some r ->
     pend (u r) = pend r /\ joiner (u r) = joiner r /\ (fs (u r) = FCompleted <-> fs r = FCompleted)) ->
  fview s s'.
Proof.
  intros f u s s' Hs' Hu. unfold fview, fsO, pendO, joinO. rewrite Hs'.
  assert (Hg : forall g, fget g (fupd f u (fibers s)) =
                         if Nat.eqb f g then option_map u (fget g (fibers s)) else fget g (fibers s))
    by (intros; apply fget_fupd).
  repeat split; auto.
  - apply fupd_keys.
  - rewrite Hg. destruct (Nat.eqb_spec f g) as [->|]; auto. destruct (fget g (fibers s)) as [r|] eqn:E; simpl; auto.
    intros H. inversion H as [H1]. destruct (Hu r eq_refl) as (_ & _ & A). apply A in H1. rewrite H1. auto.
  - rewrite Hg. destruct (Nat.eqb_spec f g) as [->|]; auto. destruct (fget g (fibers s)) as [r|] eqn:E; simpl; auto.
    intros H. inversion H as [H1]. destruct (Hu r eq_refl) as (_ & _ & A). apply A in H1. rewrite H1. auto.
  - rewrite Hg. destruct (Nat.eqb f g); auto. destruct (fget g (fibers s)); simpl; auto. discriminate.
  - rewrite Hg. destruct (Nat.eqb f g); auto. destruct (fget g (fibers s)); simpl; auto. discriminate.
  - intros g. rewrite Hg. destruct (Nat.eqb_spec f g) as [->|]; auto. destruct (fget g (fibers s)) as [r|] eqn:E; simpl; auto.
    destruct (Hu r eq_refl) as (A & _). rewrite A. auto.
  - intros g. rewrite Hg. destruct (Nat.eqb_spec f g) as [->|]; auto. destruct (fget g (fibers s)) as [r|] eqn:E; simpl; auto.
    destruct (Hu r eq_refl) as (_ & A & _). rewrite A. auto.
Qed.

(* changing the (non-completed) state of a fiber that has not completed *)
Lemma fview_setfs : forall f v s s', fibers s' = fupd f (fun r => with_fs r v) (fibers s) ->
  v <> FCompleted -> fsO s f <> Some FCompleted -> fview s s'.
Proof.
  intros f v s s' Hs' Hv Hf. apply (fview_upd f (fun r => with_fs r v) s s' Hs'). intros r E. simpl. repeat split; auto.
  - intros H. congruence.
  - intros H. exfalso. apply Hf. unfold fsO. rewrite E. simpl. congruence.
Qed.

Lemma fview_trans : forall a b c, fview a b -> fview b c -> fview a c.
Proof.
  intros a b c (A5 & A6 & A7 & A8 & A9) (B5 & B6 & B7 & B8 & B9).
  unfold fview. repeat split.
  - congruence.
  - intros H. apply A6, B6, H.
  - intros H. apply B6, A6, H.
  - intros H. apply A7, B7, H.
  - intros H. apply B7, A7, H.
  - intros g. rewrite B8, A8. auto.
  - intros g. rewrite B9, A9. auto.
Qed.

(* what the invariant says about the fiber that is running an action *)
Definition running (s : st) (f : fid) : Prop :=
  cur s = Some f /\ forall q ns, pendO s f <> Some (PTimed q ns).

Lemma Cc_cur : forall s f, cur s = Some f -> Cc s f >= 1.
Proof. intros s f H. unfold Cc. rewrite H. simpl. rewrite Nat.eqb_refl. simpl. lia. Qed.

Lemma running_facts : forall s f, inv s -> running s f ->
  cnt f (runq s) = 0 /\ scnt f (sleepm s) = 0 /\ Wc s f = 0 /\ fsO s f <> Some FCompleted /\
  (forall ns, pendO s f <> Some (PSleep ns)) /\ (forall g, ~ pjoin s g f) /\
  (forall k, nsp s <= k -> alloc k <> f).
Proof.
  intros s f I [Hc Hp].
  pose proof (iA _ I f) as HA. pose proof (Cc_cur s f Hc) as H1.
  assert (Hcc : ccnt f (cur s) = 1) by (rewrite Hc; simpl; rewrite Nat.eqb_refl; auto).
  unfold Cc in HA, H1. rewrite Hcc in HA.
  assert (HW : Wc s f = 0).
  { destruct (Wc s f) eqn:E; auto. exfalso.
    destruct (iC _ I f) as (q & ns & P & _); [lia | unfold Cc; lia |]. apply (Hp q ns P). }
  repeat split; try lia; auto.
  - intros Hf. destruct (iH _ I f Hf) as [Hz _]. unfold Cc in Hz. lia.
  - intros ns P. destruct (iD _ I f ns P) as [_ [Hb|[Hr _]]].
    + apply bhas_scnt in Hb. lia.
    + lia.
  - intros g Hpj. destruct (iE _ I _ _ Hpj) as (Hz & _). unfold Cc in Hz. lia.
  - intros k Hk E. destruct (iF _ I k Hk) as (Hz & _). rewrite E in Hz. unfold Cc in Hz. lia.
Qed.

End Inv.

Section Moves.

Variable alloc : nat -> fid.
Hypothesis alloc_inj : forall a b, alloc a = alloc b -> a = b.

Notation inv := (inv alloc).

Ltac eqb_cases :=
  repeat match goal with
  | |- context [Nat.eqb ?a ?b] => destruct (Nat.eqb_spec a b); subst; simpl
  | H : context [Nat.eqb ?a ?b] |- _ => destruct (Nat.eqb_spec a b); subst; simpl in H
  end.

(* 1. fields the invariant does not read *)
Lemma inv_irrelevant : forall f u s,
  (forall r, pend (u r) = pend r /\ joiner (u r) = joiner r /\ fs (u r) = fs r) ->
  inv s -> inv (updf f u s).
Proof.
  intros f u s Hu I. apply (inv_wview alloc s); auto.
  - apply qview_refl; reflexivity.
  - apply (fview_upd f u); [reflexivity|]. intros r _. destruct (Hu r) as (A & B & C). rewrite A, B, C. tauto.
Qed.

Lemma inv_fields : forall s s', cur s' = cur s -> runq s' = runq s -> sleepm s' = sleepm s -> waitq s' = waitq s ->
  nsp s' = nsp s -> now s' = now s -> fibers s' = fibers s -> inv s -> inv s'.
Proof.
  intros. apply (inv_wview alloc s); auto. apply qview_refl; auto. apply fview_refl; auto.
Qed.

(* 2. this_thread::yield / an injected yield: current -> back of the run queue *)
Lemma inv_yield : forall f s, inv s -> running s f ->
  inv (suspend f (set_runq s (runq s ++ [f]))).
Proof.
  intros f s I R. destruct (running_facts alloc s f I R) as (F1 & F2 & F3 & F4 & F5 & F6 & F7).
  destruct R as [Hc _].
  apply (inv_wview alloc s); auto.
  - unfold qview, Cc. simpl. rewrite Hc. repeat split; auto.
    + intros g. rewrite cnt_app. simpl. lia.
    + intros ns g P [H|[H1 H2]]; auto. right. rewrite cnt_app. split; [lia|auto].
  - apply (fview_setfs f FSuspended); [reflexivity|discriminate|auto].
Qed.

(* 3. Scheduler::Sleep: current -> bucket ns (now < ns), remembered as PSleep ns *)
Lemma inv_sleep : forall f ns s, inv s -> running s f -> (now s < ns)%N ->
  inv (suspend f (updf f (fun r => with_pend r (PSleep ns)) (set_sleepm s (sm_push ns f (sleepm s))))).
Proof.
  intros f ns s I R Hlt. destruct (running_facts alloc s f I R) as (F1 & F2 & F3 & F4 & F5 & F6 & F7).
  destruct R as [Hc Hp].
  set (s' := suspend f (updf f (fun r => with_pend r (PSleep ns)) (set_sleepm s (sm_push ns f (sleepm s))))).
  assert (HC : forall g, Cc s' g = Cc s g).
  { intros g. unfold Cc. simpl. rewrite Hc, scnt_push. simpl. lia. }
  assert (HW : forall g, Wc s' g = Wc s g) by reflexivity.
  assert (Hfg : forall g, fget g (fibers s') =
                          if Nat.eqb f g then option_map (fun r => with_fs (with_pend r (PSleep ns)) FSuspended) (fget g (fibers s))
                          else fget g (fibers s)).
  { intros g. unfold s', suspend, updf. simpl. rewrite !fget_fupd. destruct (Nat.eqb f g); auto.
    destruct (fget g (fibers s)); auto. }
  assert (Hfs : forall g, fsO s' g = Some FCompleted <-> fsO s g = Some FCompleted).
  { intros g. unfold fsO. rewrite Hfg. destruct (Nat.eqb_spec f g) as [->|]; [|tauto].
    destruct (fget g (fibers s)) eqn:E; simpl; [|tauto]. split; [discriminate|].
    intros H. exfalso. apply F4. unfold fsO. rewrite E. exact H. }
  assert (Hfn : forall g, fsO s' g = None <-> fsO s g = None).
  { intros g. unfold fsO. rewrite Hfg. destruct (Nat.eqb f g); [|tauto]. destruct (fget g (fibers s)); simpl; [split; discriminate|tauto]. }
  assert (Hj : forall g, joinO s' g = joinO s g).
  { intros g. unfold joinO. rewrite Hfg. destruct (Nat.eqb f g); auto. destruct (fget g (fibers s)); auto. }
  assert (Hpo : forall g, g <> f -> pendO s' g = pendO s g).
  { intros g Hne. unfold pendO. rewrite Hfg. destruct (Nat.eqb_spec f g); [congruence|auto]. }
  assert (Hpf : forall p, pendO s' f = Some p -> p = PSleep ns).
  { intros p. unfold pendO. rewrite Hfg, Nat.eqb_refl. destruct (fget f (fibers s)); simpl; [|discriminate]. congruence. }
  assert (HPJ : forall g j, pjoin s' g j <-> pjoin s g j) by (intros; unfold pjoin; rewrite Hj, Hfs; tauto).
  constructor.
  - intros g. rewrite HC. apply I.
  - intros g. rewrite HW. apply I.
  - intros g H1 H2. rewrite HW in H1. rewrite HC in H2.
    assert (g <> f) by (intro; subst; lia).
    rewrite Hpo by auto. apply (iC _ _ I g H1 H2).
  - intros g ns' P. rewrite HW. destruct (Nat.eq_dec g f) as [->|Hne].
    + apply Hpf in P. inversion P. subst ns'. split; auto. left. apply bhas_push_same.
    + rewrite Hpo in P by auto. destruct (iD _ _ I g ns' P) as [D1 [D2|D2]]; split; auto.
      left. apply bhas_push_other. exact D2.
  - intros g Hg. rewrite HC, HW. apply (iH _ _ I). apply Hfs. exact Hg.
  - intros g j Hpj. apply HPJ in Hpj. destruct (iE _ _ I _ _ Hpj) as (E1 & E2 & E3 & E4).
    rewrite HC, HW, Hfs. repeat split; auto. intros g' Hg'. apply E3, HPJ, Hg'.
  - intros k Hk. destruct (iF _ _ I k Hk) as (G1 & G2 & G3 & G4).
    rewrite HC, HW, Hfn. repeat split; auto. intros g. rewrite Hj. apply G4.
  - unfold s', suspend, updf. simpl. rewrite !fupd_keys. apply I.
Qed.

(* observers of the fibers after one record was updated *)
Lemma fobs_upd : forall f u s s', fibers s' = fupd f u (fibers s) ->
  (forall g, g <> f -> fsO s' g = fsO s g /\ pendO s' g = pendO s g /\ joinO s' g = joinO s g) /\
  fsO s' f = option_map (fun r => fs (u r)) (fget f (fibers s)) /\
  pendO s' f = option_map (fun r => pend (u r)) (fget f (fibers s)) /\
  joinO s' f = option_map (fun r => joiner (u r)) (fget f (fibers s)) /\
  map fst (fibers s') = map fst (fibers s).
Proof.
  intros f u s s' H. unfold fsO, pendO, joinO. rewrite H. repeat split.
  - rewrite fget_fupd. destruct (Nat.eqb_spec f g); [congruence|auto].
  - rewrite fget_fupd. destruct (Nat.eqb_spec f g); [congruence|auto].
  - rewrite fget_fupd. destruct (Nat.eqb_spec f g); [congruence|auto].
  - rewrite fget_fupd, Nat.eqb_refl. destruct (fget f (fibers s)); auto.
  - rewrite fget_fupd, Nat.eqb_refl. destruct (fget f (fibers s)); auto.
  - rewrite fget_fupd, Nat.eqb_refl. destruct (fget f (fibers s)); auto.
  - apply fupd_keys.
Qed.

Lemma wq_set_same : forall q v s, v <> [] -> wq q (set_wq q v s) = v.
Proof. intros. unfold wq, set_wq. simpl. apply wget_wset_same. auto. Qed.

Lemma wq_set_other : forall q q' v s, qid_eqb q' q = false -> wq q (set_wq q' v s) = wq q s.
Proof. intros. unfold wq, set_wq. simpl. apply wget_wset_other. auto. Qed.

Lemma Wc_set_wq : forall f q v s, Wc (set_wq q v s) f + cnt f (wq q s) = Wc s f + cnt f v.
Proof. intros. unfold Wc, set_wq, wq. simpl. apply wcnt_wset. Qed.

Lemma wq_le_Wc : forall f q s, cnt f (wq q s) <= Wc s f.
Proof. intros. unfold wq, Wc. apply wget_le. Qed.

(* 4. FiberQueue::Wait(NoTimeoutTag) / Mutex::lock on an occupied mutex: current -> back of wait queue q *)
Lemma inv_park : forall f q s, inv s -> running s f ->
  inv (suspend f (set_wq q (wq q s ++ [f]) s)).
Proof.
  intros f q s I R. destruct (running_facts alloc s f I R) as (F1 & F2 & F3 & F4 & F5 & F6 & F7).
  destruct R as [Hc Hp].
  set (s' := suspend f (set_wq q (wq q s ++ [f]) s)).
  assert (HC : forall g, Cc s' g + b2n (Nat.eqb f g) = Cc s g).
  { intros g. unfold Cc. simpl. rewrite Hc. simpl. lia. }
  assert (HW : forall g, Wc s' g = Wc s g + b2n (Nat.eqb f g)).
  { intros g. pose proof (Wc_set_wq g q (wq q s ++ [f]) s) as H. rewrite cnt_app in H. simpl in H.
    change (Wc s' g) with (Wc (set_wq q (wq q s ++ [f]) s) g). lia. }
  destruct (fobs_upd f (fun r => with_fs r FSuspended) (set_wq q (wq q s ++ [f]) s) s' eq_refl) as (Ho & Hf1 & Hf2 & Hf3 & Hk).
  change (fibers (set_wq q (wq q s ++ [f]) s)) with (fibers s) in *.
  assert (Hfs : forall g, fsO s' g = Some FCompleted <-> fsO s g = Some FCompleted).
  { intros g. destruct (Nat.eq_dec g f) as [->|Hne].
    - rewrite Hf1. unfold fsO in *. destruct (fget f (fibers s)); simpl; [|tauto]. split; [discriminate|]. intros H. exfalso. apply F4. exact H.
    - destruct (Ho g Hne) as (A & _). change (fsO (set_wq q (wq q s ++ [f]) s) g) with (fsO s g) in A. rewrite A. tauto. }
  assert (Hfn : forall g, fsO s' g = None <-> fsO s g = None).
  { intros g. destruct (Nat.eq_dec g f) as [->|Hne].
    - rewrite Hf1. unfold fsO. destruct (fget f (fibers s)); simpl; [split; discriminate|tauto].
    - destruct (Ho g Hne) as (A & _). change (fsO (set_wq q (wq q s ++ [f]) s) g) with (fsO s g) in A. rewrite A. tauto. }
  assert (Hpo : forall g, pendO s' g = pendO s g).
  { intros g. destruct (Nat.eq_dec g f) as [->|Hne].
    - rewrite Hf2. unfold pendO. destruct (fget f (fibers s)); auto.
    - destruct (Ho g Hne) as (_ & A & _). exact A. }
  assert (Hj : forall g, joinO s' g = joinO s g).
  { intros g. destruct (Nat.eq_dec g f) as [->|Hne].
    - rewrite Hf3. unfold joinO. destruct (fget f (fibers s)); auto.
    - destruct (Ho g Hne) as (_ & _ & A). exact A. }
  assert (HPJ : forall g j, pjoin s' g j <-> pjoin s g j) by (intros; unfold pjoin; rewrite Hj, Hfs; tauto).
  assert (Hwq : forall g q', cnt g (wq q' s) >= 1 -> cnt g (wq q' s') >= 1).
  { intros g q' H. change (wq q' s') with (wq q' (set_wq q (wq q s ++ [f]) s)).
    destruct (qid_eqb q q') eqn:E.
    - apply qid_eqb_eq in E. subst q'. rewrite wq_set_same by (destruct (wq q s); discriminate). rewrite cnt_app. lia.
    - rewrite wq_set_other by auto. auto. }
  pose proof (iA _ _ I) as IA. pose proof (iB _ _ I) as IB.
  constructor.
  - intros g. specialize (HC g). specialize (IA g). lia.
  - intros g. rewrite HW. destruct (Nat.eqb_spec f g) as [<-|]; simpl; [lia|]. specialize (IB g). lia.
  - intros g H1 H2. destruct (Nat.eq_dec g f) as [->|Hne].
    + specialize (HC f). rewrite Nat.eqb_refl in HC. simpl in HC. specialize (IA f). lia.
    + rewrite HW in H1. specialize (HC g). destruct (Nat.eqb_spec f g); [congruence|]. simpl in *.
      destruct (iC _ _ I g) as (q' & ns & P & Q); [lia|lia|]. exists q', ns. rewrite Hpo. split; auto.
  - intros g ns P. rewrite Hpo in P. destruct (iD _ _ I g ns P) as [D1 D2].
    assert (g <> f) by (intro; subst; apply (F5 ns P)).
    rewrite HW. destruct (Nat.eqb_spec f g); [congruence|]. simpl. split; [lia|exact D2].
  - intros g Hg. apply Hfs in Hg. destruct (iH _ _ I g Hg) as [H1 H2].
    assert (g <> f) by (intro; subst; apply F4; exact Hg).
    specialize (HC g). rewrite HW. destruct (Nat.eqb_spec f g); [congruence|]. simpl in *. lia.
  - intros g j Hpj. apply HPJ in Hpj. destruct (iE _ _ I _ _ Hpj) as (E1 & E2 & E3 & E4).
    assert (j <> f) by (intro; subst; apply (F6 g Hpj)).
    specialize (HC j). rewrite HW, Hfs. destruct (Nat.eqb_spec f j); [congruence|]. simpl in *.
    repeat split; auto; try lia. intros g' Hg'. apply E3, HPJ, Hg'.
  - intros k Hk'. destruct (iF _ _ I k Hk') as (G1 & G2 & G3 & G4).
    pose proof (F7 k Hk') as Hne. specialize (HC (alloc k)). rewrite HW, Hfn.
    destruct (Nat.eqb_spec f (alloc k)); [congruence|]. simpl in *.
    repeat split; auto; try lia. intros g. rewrite Hj. apply G4.
  - rewrite Hk. apply I.
Qed.

(* a non-completed fiber changes to another non-completed state *)
Lemma inv_setfs : forall f v s, inv s -> v <> FCompleted -> fsO s f <> Some FCompleted ->
  inv (updf f (fun r => with_fs r v) s).
Proof.
  intros f v s I Hv Hf. apply (inv_wview alloc s); auto.
  - apply qview_refl; reflexivity.
  - apply (fview_setfs f v); [reflexivity|auto|auto].
Qed.

(* states that differ only in the queues: the observers of the fibers are the same *)
Lemma same_fibers : forall s s', fibers s' = fibers s ->
  (forall g, fsO s' g = fsO s g) /\ (forall g, pendO s' g = pendO s g) /\ (forall g, joinO s' g = joinO s g) /\
  (forall g j, pjoin s' g j <-> pjoin s g j).
Proof.
  intros s s' H. unfold pjoin, fsO, pendO, joinO. rewrite H. repeat split; auto; tauto.
Qed.

(* the running fiber leaves "current" and is linked nowhere (it is about to be parked in join, or has exited) *)
Lemma inv_cur_drop : forall f s, inv s -> running s f -> inv (set_cur s None).
Proof.
  intros f s I R. destruct (running_facts alloc s f I R) as (F1 & F2 & F3 & F4 & F5 & F6 & F7).
  destruct R as [Hc Hp]. set (s' := set_cur s None).
  destruct (same_fibers s s' eq_refl) as (Hfs & Hpo & Hj & HPJ).
  assert (HC : forall g, Cc s' g + b2n (Nat.eqb f g) = Cc s g).
  { intros g. unfold Cc. simpl. rewrite Hc. simpl. lia. }
  assert (HW : forall g, Wc s' g = Wc s g) by reflexivity.
  pose proof (iA _ _ I) as IA.
  constructor.
  - intros g. specialize (HC g). specialize (IA g). lia.
  - intros g. rewrite HW. apply I.
  - intros g H1 H2. rewrite HW in H1. specialize (HC g). rewrite Hpo. apply (iC _ _ I g H1). lia.
  - intros g ns P. rewrite Hpo in P. rewrite HW. apply (iD _ _ I g ns P).
  - intros g Hg. rewrite Hfs in Hg. destruct (iH _ _ I g Hg). specialize (HC g). rewrite HW. lia.
  - intros g j Hpj. apply HPJ in Hpj. destruct (iE _ _ I _ _ Hpj) as (E1 & E2 & E3 & E4).
    specialize (HC j). rewrite HW, Hfs. repeat split; auto; try lia; try (intros g' Hg'; apply E3, HPJ, Hg').
  - intros k Hk. destruct (iF _ _ I k Hk) as (G1 & G2 & G3 & G4). specialize (HC (alloc k)).
    rewrite HW, Hfs. repeat split; auto; try lia; try (intros g0; rewrite Hj; apply G4).
  - apply I.
Qed.

(* 6. some waiters leave wait queue q (NotifyOne took one, NotifyAll took all, a timed waiter erased itself) *)
Lemma inv_wq_shrink : forall q v s, inv s ->
  (forall f, cnt f v = cnt f (wq q s) \/ cnt f v = 0) -> inv (set_wq q v s).
Proof.
  intros q v s I Hv. set (s' := set_wq q v s).
  destruct (same_fibers s s' eq_refl) as (Hfs & Hpo & Hj & HPJ).
  assert (HC : forall g, Cc s' g = Cc s g) by reflexivity.
  assert (HW : forall g, Wc s' g + cnt g (wq q s) = Wc s g + cnt g v) by (intros; apply Wc_set_wq).
  assert (HWle : forall g, Wc s' g <= Wc s g).
  { intros g. specialize (HW g). destruct (Hv g); lia. }
  pose proof (iB _ _ I) as IB.
  constructor.
  - intros g. rewrite HC. apply I.
  - intros g. specialize (HWle g). specialize (IB g). lia.
  - intros g H1 H2. rewrite HC in H2. specialize (HWle g).
    destruct (iC _ _ I g) as (q' & ns & P & Q); [lia|auto|]. exists q', ns. rewrite Hpo. split; auto.
    change (wq q' s') with (wq q' (set_wq q v s)).
    destruct (qid_eqb q q') eqn:E.
    + apply qid_eqb_eq in E. subst q'. destruct (Hv g) as [Hg|Hg].
      * assert (v <> []) by (intro; subst v; simpl in Hg; lia). rewrite wq_set_same by auto. lia.
      * exfalso. specialize (HW g). specialize (IB g). pose proof (wq_le_Wc g q s). lia.
    + rewrite wq_set_other by auto. auto.
  - intros g ns P. rewrite Hpo in P. destruct (iD _ _ I g ns P) as [D1 D2]. specialize (HWle g). split; [lia|exact D2].
  - intros g Hg. rewrite Hfs in Hg. destruct (iH _ _ I g Hg). specialize (HWle g). rewrite HC. lia.
  - intros g j Hpj. apply HPJ in Hpj. destruct (iE _ _ I _ _ Hpj) as (E1 & E2 & E3 & E4).
    specialize (HWle j). rewrite HC, Hfs. repeat split; auto; try lia; try (intros g' Hg'; apply E3, HPJ, Hg').
  - intros k Hk. destruct (iF _ _ I k Hk) as (G1 & G2 & G3 & G4). specialize (HWle (alloc k)).
    rewrite HC, Hfs. repeat split; auto; try lia; try (intros g0; rewrite Hj; apply G4).
  - apply I.
Qed.

(* 7a. Node::Erase of the scheduler node of g (g is not current, not in a plain sleep) *)
Lemma inv_erase : forall g s, inv s -> ccnt g (cur s) = 0 -> (forall ns, pendO s g <> Some (PSleep ns)) ->
  inv (erase_sched g s) /\ Cc (erase_sched g s) g = 0.
Proof.
  intros g s I Hcur Hps. set (s' := erase_sched g s).
  destruct (same_fibers s s' eq_refl) as (Hfs & Hpo & Hj & HPJ).
  assert (HC : forall h, Cc s' h = if Nat.eqb h g then 0 else Cc s h).
  { intros h. unfold Cc. simpl. rewrite cnt_rm, scnt_rm.
    destruct (Nat.eqb_spec h g) as [->|Hne]; [lia|]. reflexivity. }
  assert (HCle : forall h, Cc s' h <= Cc s h) by (intros h; rewrite HC; destruct (Nat.eqb h g); lia).
  assert (HW : forall h, Wc s' h = Wc s h) by reflexivity.
  pose proof (iA _ _ I) as IA.
  split; [|rewrite HC, Nat.eqb_refl; auto].
  constructor.
  - intros h. specialize (HCle h). specialize (IA h). lia.
  - intros h. rewrite HW. apply I.
  - intros h H1 H2. rewrite HW in H1. specialize (HCle h). rewrite Hpo. apply (iC _ _ I h H1). lia.
  - intros h ns P. rewrite Hpo in P. rewrite HW. destruct (iD _ _ I h ns P) as [D1 D2]. split; auto.
    assert (Hne : h <> g) by (intro; subst; apply (Hps ns P)).
    destruct D2 as [D2|[D2 D3]].
    + left. apply bhas_rm; auto.
    + right. split; auto. simpl. rewrite cnt_rm. destruct (Nat.eqb_spec h g); [congruence|auto].
  - intros h Hh. rewrite Hfs in Hh. destruct (iH _ _ I h Hh). specialize (HCle h). rewrite HW. lia.
  - intros h j Hpj. apply HPJ in Hpj. destruct (iE _ _ I _ _ Hpj) as (E1 & E2 & E3 & E4).
    specialize (HCle j). rewrite HW, Hfs. repeat split; auto; try lia; try (intros g' Hg'; apply E3, HPJ, Hg').
  - intros k Hk. destruct (iF _ _ I k Hk) as (G1 & G2 & G3 & G4). specialize (HCle (alloc k)).
    rewrite HW, Hfs. repeat split; auto; try lia; try (intros h0; rewrite Hj; apply G4).
  - apply I.
Qed.

(* 7b. Scheduler::Schedule(g) for a fiber that is linked nowhere, is not waited for by join and has not completed *)
Lemma inv_enq : forall g s, inv s -> Cc s g = 0 -> Wc s g = 0 -> fsO s g <> Some FCompleted ->
  (forall g0, ~ pjoin s g0 g) -> (forall k, nsp s <= k -> alloc k <> g) ->
  inv (schedule g s).
Proof.
  intros g s I HCg HWg Hfg Hpg Hfr.
  assert (Hps : forall ns, pendO s g <> Some (PSleep ns)).
  { intros ns P. destruct (iD _ _ I g ns P) as [_ [D|[D _]]].
    - apply bhas_scnt in D. unfold Cc in HCg. lia.
    - unfold Cc in HCg. lia. }
  set (sq := set_runq s (runq s ++ [g])).
  assert (Iq : inv sq).
  { destruct (same_fibers s sq eq_refl) as (Hfs & Hpo & Hj & HPJ).
    assert (HC : forall h, Cc sq h = Cc s h + b2n (Nat.eqb g h)).
    { intros h. unfold Cc. simpl. rewrite cnt_app. simpl. lia. }
    assert (HW : forall h, Wc sq h = Wc s h) by reflexivity.
    pose proof (iA _ _ I) as IA.
    constructor.
    - intros h. rewrite HC. destruct (Nat.eqb_spec g h) as [<-|]; simpl; [lia|]. specialize (IA h). lia.
    - intros h. rewrite HW. apply I.
    - intros h H1 H2. rewrite HW in H1. rewrite HC in H2. destruct (Nat.eqb_spec g h) as [<-|]; simpl in *; [lia|].
      rewrite Hpo. apply (iC _ _ I h H1). lia.
    - intros h ns P. rewrite Hpo in P. rewrite HW. destruct (iD _ _ I h ns P) as [D1 D2]. split; auto.
      destruct D2 as [D2|[D2 D3]]; [left; auto|]. right. split; auto. simpl. rewrite cnt_app. lia.
    - intros h Hh. rewrite Hfs in Hh. destruct (iH _ _ I h Hh).
      assert (h <> g) by (intro; subst; auto). rewrite HC, HW. destruct (Nat.eqb_spec g h); [congruence|]. simpl. lia.
    - intros h j Hpj. apply HPJ in Hpj. destruct (iE _ _ I _ _ Hpj) as (E1 & E2 & E3 & E4).
      assert (j <> g) by (intro; subst; apply (Hpg h Hpj)).
      rewrite HC, HW, Hfs. destruct (Nat.eqb_spec g j); [congruence|]. simpl.
      repeat split; auto; try lia; try (intros g' Hg'; apply E3, HPJ, Hg').
    - intros k Hk. destruct (iF _ _ I k Hk) as (G1 & G2 & G3 & G4). pose proof (Hfr k Hk).
      rewrite HC, HW, Hfs. destruct (Nat.eqb_spec g (alloc k)); [congruence|]. simpl.
      repeat split; auto; try lia; try (intros h0; rewrite Hj; apply G4).
    - apply I. }
  change (schedule g s) with (updf g (fun r => with_fs r FWaiting) sq).
  apply inv_setfs; auto. discriminate.
Qed.

(* 7. FiberQueue::ScheduleAndRemove(g) for a fiber that has just been taken out of its wait queue *)
Definition sar_pre (s : st) (g : fid) : Prop :=
  Wc s g = 0 /\ ccnt g (cur s) = 0 /\ (forall ns, pendO s g <> Some (PSleep ns)) /\ fsO s g <> Some FCompleted /\
  (forall g0, ~ pjoin s g0 g) /\ (forall k, nsp s <= k -> alloc k <> g).

Lemma sar_obs : forall g s, fsO s g <> Some FCompleted ->
  waitq (sched_and_remove g s) = waitq s /\ cur (sched_and_remove g s) = cur s /\
  nsp (sched_and_remove g s) = nsp s /\
  (forall h, pendO (sched_and_remove g s) h = pendO s h) /\ (forall h, joinO (sched_and_remove g s) h = joinO s h) /\
  (forall h, fsO (sched_and_remove g s) h = Some FCompleted <-> fsO s h = Some FCompleted).
Proof.
  intros g s Hf. unfold sched_and_remove.
  destruct (fget g (fibers s)) as [r|] eqn:E; [|split; [|split; [|split; [|split; [|split]]]]; auto; tauto].
  destruct (fstate_eqb (fs r) FWaiting); [split; [|split; [|split; [|split; [|split]]]]; auto; tauto|].
  destruct (fobs_upd g (fun r => with_fs r FWaiting) (erase_sched g s) (schedule g (erase_sched g s)) eq_refl)
    as (Ho & Hf1 & Hf2 & Hf3 & Hk).
  change (fibers (erase_sched g s)) with (fibers s) in *.
  split; [reflexivity|]. split; [reflexivity|]. split; [reflexivity|].
  split; [|split].
  - intros h. destruct (Nat.eq_dec h g) as [->|Hne].
    + rewrite Hf2. unfold pendO. rewrite E. reflexivity.
    + destruct (Ho h Hne) as (_ & A & _). exact A.
  - intros h. destruct (Nat.eq_dec h g) as [->|Hne].
    + rewrite Hf3. unfold joinO. rewrite E. reflexivity.
    + destruct (Ho h Hne) as (_ & _ & A). exact A.
  - intros h. destruct (Nat.eq_dec h g) as [->|Hne].
    + rewrite Hf1, E. simpl. split; [discriminate|]. intros H. exfalso. apply Hf. exact H.
    + destruct (Ho h Hne) as (A & _). change (fsO (erase_sched g s) h) with (fsO s h) in A. rewrite A. tauto.
Qed.

Lemma inv_sar : forall g s, inv s -> sar_pre s g -> inv (sched_and_remove g s).
Proof.
  intros g s I (P1 & P2 & P3 & P4 & P5 & P6). unfold sched_and_remove.
  destruct (fget g (fibers s)) as [r|] eqn:E; auto.
  destruct (fstate_eqb (fs r) FWaiting); auto.
  destruct (inv_erase g s I P2 P3) as [Ie Ce].
  apply inv_enq; auto.
Qed.

Lemma sar_pre_stable : forall g' g s, fsO s g' <> Some FCompleted -> sar_pre s g -> sar_pre (sched_and_remove g' s) g.
Proof.
  intros g' g s Hf (P1 & P2 & P3 & P4 & P5 & P6).
  destruct (sar_obs g' s Hf) as (O1 & O2 & O3 & O4 & O5 & O6).
  unfold sar_pre, Wc, pjoin. rewrite O1, O2, O3. repeat split; auto.
  - intros ns. rewrite O4. apply P3.
  - rewrite O6. exact P4.
  - intros g0 [J1 J2]. apply (P5 g0). split; [rewrite <- O5; exact J1 | rewrite <- O6; exact J2].
Qed.

Lemma inv_fold_sar : forall l s, inv s -> (forall g, In g l -> sar_pre s g) ->
  inv (fold_left (fun s' g => sched_and_remove g s') l s).
Proof.
  induction l as [|g l IH]; intros s I Hpre; simpl; auto.
  assert (Pg : sar_pre s g) by (apply Hpre; left; auto).
  apply IH.
  - apply inv_sar; auto.
  - intros h Hh. apply sar_pre_stable; [destruct Pg as (_ & _ & _ & A & _); exact A|]. apply Hpre. right. exact Hh.
Qed.

(* a fiber that sits in a wait queue while somebody else runs satisfies everything ScheduleAndRemove needs, once
   it has been taken out of the queue *)
Lemma waiter_facts : forall f g q s, inv s -> running s f -> cnt g (wq q s) >= 1 ->
  Wc s g = 1 /\ ccnt g (cur s) = 0 /\ (forall ns, pendO s g <> Some (PSleep ns)) /\ fsO s g <> Some FCompleted /\
  (forall g0, ~ pjoin s g0 g) /\ (forall k, nsp s <= k -> alloc k <> g).
Proof.
  intros f g q s I R Hg. destruct (running_facts alloc s f I R) as (F1 & F2 & F3 & F4 & F5 & F6 & F7).
  pose proof (wq_le_Wc g q s) as Hle. pose proof (iB _ _ I g) as HB.
  assert (HW : Wc s g = 1) by lia.
  repeat split; auto.
  - destruct R as [Hc _]. rewrite Hc. simpl. destruct (Nat.eqb_spec f g) as [->|]; auto. lia.
  - intros ns P. destruct (iD _ _ I g ns P) as [D _]. lia.
  - intros H. destruct (iH _ _ I g H). lia.
  - intros g0 Hpj. destruct (iE _ _ I _ _ Hpj) as (_ & E & _). lia.
  - intros k Hk E. destruct (iF _ _ I k Hk) as (_ & G & _). rewrite E in G. lia.
Qed.

Section Notify.

Variable cf : cfg.
Variable draws : nat -> N.

Lemma inv_notify_one : forall f q s, inv s -> running s f -> inv (fst (notify_one cf draws q s)).
Proof.
  intros f q s I R. unfold notify_one. destruct (is_nil (wq q s)); auto.
  unfold poll, draw.
  set (i := poll_index cf (length (wq q s)) (draws (rc s) mod (2 * pick cf))%N).
  destruct (nth_error (wq q s) i) as [g|] eqn:En; cbn [fst].
  - assert (Hg : cnt g (wq q s) >= 1).
    { pose proof (cnt_remove_nth g g i (wq q s) En) as H. rewrite Nat.eqb_refl in H. simpl in H. lia. }
    destruct (waiter_facts f g q s I R Hg) as (W1 & W2 & W3 & W4 & W5 & W6).
    set (s1 := set_wq q (remove_nth i (wq q s)) (set_rc s (S (rc s)))).
    assert (I1 : inv s1).
    { apply (inv_wq_shrink q (remove_nth i (wq q s)) (set_rc s (S (rc s)))).
      - apply (inv_fields s); auto.
      - intros h. change (wq q (set_rc s (S (rc s)))) with (wq q s).
        pose proof (cnt_remove_nth h g i (wq q s) En) as H.
        destruct (Nat.eqb_spec g h) as [Heq|Hne]; simpl in H; [right|left]; try lia.
        subst h. pose proof (wq_le_Wc g q s). lia. }
    apply inv_sar; auto.
    destruct (same_fibers s s1 eq_refl) as (Hfs & Hpo & Hj & HPJ).
    assert (A1 : Wc s1 g = 0).
    { pose proof (Wc_set_wq g q (remove_nth i (wq q s)) (set_rc s (S (rc s)))) as H.
      change (wq q (set_rc s (S (rc s)))) with (wq q s) in H. change (Wc (set_rc s (S (rc s))) g) with (Wc s g) in H.
      pose proof (cnt_remove_nth g g i (wq q s) En) as H'. rewrite Nat.eqb_refl in H'. simpl in H'.
      pose proof (wq_le_Wc g q s). fold s1 in H. lia. }
    unfold sar_pre. split; [exact A1|]. split; [exact W2|]. split; [intros ns; rewrite Hpo; apply W3|].
    split; [rewrite Hfs; exact W4|]. split; [intros g0 H; apply HPJ in H; apply (W5 g0 H)|exact W6].
  - apply (inv_fields s); auto.
Qed.

Lemma inv_notify_all : forall f q s, inv s -> running s f -> inv (notify_all q s).
Proof.
  intros f q s I R. unfold notify_all.
  set (s1 := set_wq q [] s).
  assert (I1 : inv s1).
  { apply inv_wq_shrink; auto. }
  apply inv_fold_sar; auto.
  intros g Hin. apply in_rev in Hin.
  assert (Hg : cnt g (wq q s) >= 1).
  { clear -Hin. induction (wq q s) as [|x l IH]; simpl in *; [tauto|]. destruct Hin as [->|H].
    - rewrite Nat.eqb_refl. simpl. lia.
    - specialize (IH H). lia. }
  destruct (waiter_facts f g q s I R Hg) as (W1 & W2 & W3 & W4 & W5 & W6).
  destruct (same_fibers s s1 eq_refl) as (Hfs & Hpo & Hj & HPJ).
  assert (A1 : Wc s1 g = 0).
  { pose proof (Wc_set_wq g q [] s) as H. simpl in H. fold s1 in H. pose proof (wq_le_Wc g q s). lia. }
  unfold sar_pre. split; [exact A1|]. split; [exact W2|]. split; [intros ns; rewrite Hpo; apply W3|].
  split; [rewrite Hfs; exact W4|]. split; [intros g0 H; apply HPJ in H; apply (W5 g0 H)|exact W6].
Qed.

End Notify.

(* 5a. FiberQueue::Wait(deadline), first half: the running fiber links its wait node into queue q and remembers the
   deadline (it is still current) *)
Lemma inv_tpark : forall f q ns s, inv s -> running s f -> fget f (fibers s) <> None ->
  inv (updf f (fun r => with_pend r (PTimed q ns)) (set_wq q (wq q s ++ [f]) s)).
Proof.
  intros f q ns s I R Hrec. destruct (running_facts alloc s f I R) as (F1 & F2 & F3 & F4 & F5 & F6 & F7).
  destruct R as [Hc Hp].
  set (s' := updf f (fun r => with_pend r (PTimed q ns)) (set_wq q (wq q s ++ [f]) s)).
  assert (HC : forall g, Cc s' g = Cc s g) by reflexivity.
  assert (HW : forall g, Wc s' g = Wc s g + b2n (Nat.eqb f g)).
  { intros g. pose proof (Wc_set_wq g q (wq q s ++ [f]) s) as H. rewrite cnt_app in H. simpl in H.
    change (Wc s' g) with (Wc (set_wq q (wq q s ++ [f]) s) g). lia. }
  destruct (fobs_upd f (fun r => with_pend r (PTimed q ns)) (set_wq q (wq q s ++ [f]) s) s' eq_refl) as (Ho & Hf1 & Hf2 & Hf3 & Hk).
  change (fibers (set_wq q (wq q s ++ [f]) s)) with (fibers s) in *.
  assert (Hfs : forall g, fsO s' g = fsO s g).
  { intros g. destruct (Nat.eq_dec g f) as [->|Hne].
    - rewrite Hf1. unfold fsO. destruct (fget f (fibers s)); auto.
    - destruct (Ho g Hne) as (A & _). exact A. }
  assert (Hpo : forall g, g <> f -> pendO s' g = pendO s g).
  { intros g Hne. destruct (Ho g Hne) as (_ & A & _). exact A. }
  assert (Hpf : forall p, pendO s' f = Some p -> p = PTimed q ns).
  { intros p. rewrite Hf2. destruct (fget f (fibers s)); simpl; [|discriminate]. congruence. }
  assert (Hpf' : Cc s f >= 1 -> fget f (fibers s) <> None -> pendO s' f = Some (PTimed q ns)).
  { intros _ Hn. rewrite Hf2. destruct (fget f (fibers s)); simpl; [auto|congruence]. }
  assert (Hj : forall g, joinO s' g = joinO s g).
  { intros g. destruct (Nat.eq_dec g f) as [->|Hne].
    - rewrite Hf3. unfold joinO. destruct (fget f (fibers s)); auto.
    - destruct (Ho g Hne) as (_ & _ & A). exact A. }
  assert (HPJ : forall g j, pjoin s' g j <-> pjoin s g j) by (intros; unfold pjoin; rewrite Hj, Hfs; tauto).
  assert (Hwq : forall g q', cnt g (wq q' s) >= 1 -> cnt g (wq q' s') >= 1).
  { intros g q' H. change (wq q' s') with (wq q' (set_wq q (wq q s ++ [f]) s)).
    destruct (qid_eqb q q') eqn:E.
    - apply qid_eqb_eq in E. subst q'. rewrite wq_set_same by (destruct (wq q s); discriminate). rewrite cnt_app. lia.
    - rewrite wq_set_other by auto. auto. }
  pose proof (iA _ _ I) as IA. pose proof (iB _ _ I) as IB.
  constructor.
  - intros g. rewrite HC. apply I.
  - intros g. rewrite HW. destruct (Nat.eqb_spec f g) as [<-|]; simpl; [lia|]. specialize (IB g). lia.
  - intros g H1 H2. rewrite HC in H2. destruct (Nat.eq_dec g f) as [->|Hne].
    + exists q, ns. split.
      * rewrite Hf2. destruct (fget f (fibers s)) eqn:E; simpl; auto. congruence.
      * change (wq q s') with (wq q (set_wq q (wq q s ++ [f]) s)).
        rewrite wq_set_same by (destruct (wq q s); discriminate). rewrite cnt_app. simpl. rewrite Nat.eqb_refl. simpl. lia.
    + rewrite HW in H1. destruct (Nat.eqb_spec f g); [congruence|]. simpl in H1.
      destruct (iC _ _ I g) as (q' & ns' & P & Q); [lia|auto|]. exists q', ns'. rewrite Hpo by auto. split; auto.
  - intros g ns' P. destruct (Nat.eq_dec g f) as [->|Hne].
    + apply Hpf in P. discriminate.
    + rewrite Hpo in P by auto. destruct (iD _ _ I g ns' P) as [D1 D2].
      rewrite HW. destruct (Nat.eqb_spec f g); [congruence|]. simpl. split; [lia|exact D2].
  - intros g Hg. rewrite Hfs in Hg. destruct (iH _ _ I g Hg) as [H1 H2].
    assert (g <> f) by (intro; subst; apply F4; exact Hg).
    rewrite HC, HW. destruct (Nat.eqb_spec f g); [congruence|]. simpl. lia.
  - intros g j Hpj. apply HPJ in Hpj. destruct (iE _ _ I _ _ Hpj) as (E1 & E2 & E3 & E4).
    assert (j <> f) by (intro; subst; apply (F6 g Hpj)).
    rewrite HC, HW, Hfs. destruct (Nat.eqb_spec f j); [congruence|]. simpl.
    repeat split; auto; try lia; try (intros g' Hg'; apply E3, HPJ, Hg').
  - intros k Hk'. destruct (iF _ _ I k Hk') as (G1 & G2 & G3 & G4).
    pose proof (F7 k Hk') as Hne. rewrite HC, HW, Hfs.
    destruct (Nat.eqb_spec f (alloc k)); [congruence|]. simpl.
    repeat split; auto; try lia; try (intros g0; rewrite Hj; apply G4).
  - rewrite Hk. apply I.
Qed.

(* a current fiber is not completed *)
Lemma cur_not_completed : forall f s, inv s -> cur s = Some f -> fsO s f <> Some FCompleted.
Proof.
  intros f s I Hc H. destruct (iH _ _ I f H) as [H1 _]. pose proof (Cc_cur s f Hc). lia.
Qed.

(* 5b. ... second half: Scheduler::Sleep(ns) links the scheduler node into bucket ns and suspends *)
Lemma inv_to_bucket : forall f ns s, inv s -> cur s = Some f ->
  inv (suspend f (set_sleepm s (sm_push ns f (sleepm s)))).
Proof.
  intros f ns s I Hc.
  pose proof (cur_not_completed f s I Hc) as Hnc.
  set (sq := set_cur (set_sleepm s (sm_push ns f (sleepm s))) None).
  assert (Iq : inv sq).
  { apply (inv_wview alloc s); auto.
    - unfold qview, Cc. simpl. rewrite Hc. repeat split; auto.
      + intros g. rewrite scnt_push. simpl. lia.
      + intros ns' g P [H|H]; [left; apply bhas_push_other; auto|right; auto].
    - apply fview_refl. reflexivity. }
  change (suspend f (set_sleepm s (sm_push ns f (sleepm s)))) with (updf f (fun r => with_fs r FSuspended) sq).
  apply inv_setfs; auto. discriminate.
Qed.

(* 9. yaclib_std::thread: a new fiber with a fresh id at the back of the run queue *)
Lemma inv_spawn : forall sl body s, inv s ->
  inv (schedule (alloc (nsp s))
         (set_nsp (set_slots (set_fibers s (fibers s ++ [(alloc (nsp s), fiber0 body)])) ((sl, alloc (nsp s)) :: slots s))
                  (S (nsp s)))).
Proof.
  intros sl body s I. set (g := alloc (nsp s)).
  destruct (iF _ _ I (nsp s) (le_n _)) as (G1 & G2 & G3 & G4). fold g in G1, G2, G3, G4.
  assert (Hgn : fget g (fibers s) = None) by (unfold fsO in G3; destruct (fget g (fibers s)); [discriminate|auto]).
  set (s1 := set_nsp (set_slots (set_fibers s (fibers s ++ [(g, fiber0 body)])) ((sl, g) :: slots s)) (S (nsp s))).
  assert (Hfg : forall h, fget h (fibers s1) = if Nat.eqb g h then Some (fiber0 body) else fget h (fibers s)).
  { intros h. unfold s1. simpl. rewrite fget_app1. destruct (Nat.eqb_spec g h) as [<-|Hne].
    - rewrite Hgn. reflexivity.
    - destruct (fget h (fibers s)); auto. }
  assert (Hfs : forall h, h <> g -> fsO s1 h = fsO s h) by (intros h Hne; unfold fsO; rewrite Hfg; destruct (Nat.eqb_spec g h); [congruence|auto]).
  assert (Hpo : forall h, h <> g -> pendO s1 h = pendO s h) by (intros h Hne; unfold pendO; rewrite Hfg; destruct (Nat.eqb_spec g h); [congruence|auto]).
  assert (Hjo : forall h, h <> g -> joinO s1 h = joinO s h) by (intros h Hne; unfold joinO; rewrite Hfg; destruct (Nat.eqb_spec g h); [congruence|auto]).
  assert (Hfsg : fsO s1 g = Some FSuspended) by (unfold fsO; rewrite Hfg, Nat.eqb_refl; reflexivity).
  assert (Hpog : pendO s1 g = Some PNone) by (unfold pendO; rewrite Hfg, Nat.eqb_refl; reflexivity).
  assert (Hjog : joinO s1 g = Some None) by (unfold joinO; rewrite Hfg, Nat.eqb_refl; reflexivity).
  assert (HPJ : forall h j, pjoin s1 h j <-> pjoin s h j).
  { intros h j. unfold pjoin. destruct (Nat.eq_dec h g) as [->|Hne].
    - rewrite Hjog. unfold joinO. rewrite Hgn. simpl. split; intros [A _]; discriminate.
    - rewrite Hjo, Hfs by auto. tauto. }
  assert (I1 : inv s1).
  { constructor.
    - apply (iA _ _ I).
    - apply (iB _ _ I).
    - intros h H1 H2. change (Wc s1 h) with (Wc s h) in H1. change (Cc s1 h) with (Cc s h) in H2.
      assert (h <> g) by (intro; subst; lia). rewrite Hpo by auto. apply (iC _ _ I h H1 H2).
    - intros h ns P. destruct (Nat.eq_dec h g) as [->|Hne]; [rewrite Hpog in P; discriminate|].
      rewrite Hpo in P by auto. apply (iD _ _ I h ns P).
    - intros h Hh. destruct (Nat.eq_dec h g) as [->|Hne]; [rewrite Hfsg in Hh; discriminate|].
      rewrite Hfs in Hh by auto. apply (iH _ _ I h Hh).
    - intros h j Hpj. apply HPJ in Hpj. destruct (iE _ _ I _ _ Hpj) as (E1 & E2 & E3 & E4).
      split; [exact E1|]. split; [exact E2|]. split; [intros g' Hg'; apply E3, HPJ, Hg'|].
      destruct (Nat.eq_dec j g) as [->|Hne]; [rewrite Hfsg; discriminate|rewrite Hfs by auto; exact E4].
    - intros k Hk. simpl in Hk. assert (Hk' : nsp s <= k) by lia.
      destruct (iF _ _ I k Hk') as (K1 & K2 & K3 & K4).
      assert (alloc k <> g) by (unfold g; intros E; apply alloc_inj in E; lia).
      split; [exact K1|]. split; [exact K2|]. split; [rewrite Hfs by auto; exact K3|].
      intros h. destruct (Nat.eq_dec h g) as [->|Hne]; [rewrite Hjog; discriminate|rewrite Hjo by auto; apply K4].
    - unfold s1. simpl. rewrite map_app. simpl.
      apply NoDup_app_snoc. apply (iK _ _ I). apply fget_none_keys. exact Hgn. }
  apply inv_enq; auto.
  - rewrite Hfsg. discriminate.
  - intros g0 H. apply HPJ in H. destruct H as [A _]. apply (G4 g0 A).
  - intros k Hk. simpl in Hk. unfold g. intros E. apply alloc_inj in E. lia.
Qed.

(* 10a. Thread::join on a fiber that has not exited: g remembers the (already unlinked) fiber f as its joiner *)
Lemma inv_set_joiner : forall g f s, inv s -> Cc s f = 0 -> Wc s f = 0 -> fsO s f <> Some FCompleted ->
  (forall g0, ~ pjoin s g0 f) -> (forall k, nsp s <= k -> alloc k <> f) ->
  inv (updf g (fun r => with_joiner r (Some f)) s).
Proof.
  intros g f s I HCf HWf Hff Hpf Hfr.
  set (s' := updf g (fun r => with_joiner r (Some f)) s).
  destruct (fobs_upd g (fun r => with_joiner r (Some f)) s s' eq_refl) as (Ho & Hf1 & Hf2 & Hf3 & Hk).
  assert (Hfs : forall h, fsO s' h = fsO s h).
  { intros h. destruct (Nat.eq_dec h g) as [->|Hne].
    - rewrite Hf1. unfold fsO. destruct (fget g (fibers s)); auto.
    - destruct (Ho h Hne) as (A & _). exact A. }
  assert (Hpo : forall h, pendO s' h = pendO s h).
  { intros h. destruct (Nat.eq_dec h g) as [->|Hne].
    - rewrite Hf2. unfold pendO. destruct (fget g (fibers s)); auto.
    - destruct (Ho h Hne) as (_ & A & _). exact A. }
  assert (Hjo : forall h, h <> g -> joinO s' h = joinO s h).
  { intros h Hne. destruct (Ho h Hne) as (_ & _ & A). exact A. }
  assert (Hjg : forall j, joinO s' g = Some (Some j) -> j = f).
  { intros j. rewrite Hf3. destruct (fget g (fibers s)); simpl; [|discriminate]. congruence. }
  assert (HPJo : forall h j, h <> g -> (pjoin s' h j <-> pjoin s h j)).
  { intros h j Hne. unfold pjoin. rewrite Hjo, Hfs by auto. tauto. }
  assert (HPJg : forall j, pjoin s' g j -> j = f) by (intros j [A _]; apply Hjg; exact A).
  constructor.
  - apply (iA _ _ I).
  - apply (iB _ _ I).
  - intros h H1 H2. rewrite Hpo. apply (iC _ _ I h H1 H2).
  - intros h ns P. rewrite Hpo in P. apply (iD _ _ I h ns P).
  - intros h Hh. rewrite Hfs in Hh. apply (iH _ _ I h Hh).
  - intros h j Hpj. destruct (Nat.eq_dec h g) as [->|Hne].
    + pose proof (HPJg j Hpj). subst j. split; [exact HCf|]. split; [exact HWf|]. split; [|rewrite Hfs; exact Hff].
      intros g' Hg'. destruct (Nat.eq_dec g' g) as [->|Hne']; auto.
      exfalso. apply HPJo in Hg'; auto. apply (Hpf g' Hg').
    + apply HPJo in Hpj; auto. destruct (iE _ _ I _ _ Hpj) as (E1 & E2 & E3 & E4).
      split; [exact E1|]. split; [exact E2|]. split; [|rewrite Hfs; exact E4].
      intros g' Hg'. destruct (Nat.eq_dec g' g) as [->|Hne'].
      * pose proof (HPJg j Hg'). subst j. exfalso. apply (Hpf h Hpj).
      * apply HPJo in Hg'; auto.
  - intros k Hk'. destruct (iF _ _ I k Hk') as (G1 & G2 & G3 & G4).
    split; [exact G1|]. split; [exact G2|]. split; [rewrite Hfs; exact G3|].
    intros h. destruct (Nat.eq_dec h g) as [->|Hne].
    + intros H. apply Hjg in H. apply (Hfr k Hk'). exact H.
    + rewrite Hjo by auto. apply G4.
  - rewrite Hk. apply (iK _ _ I).
Qed.

(* 10b. delete of the FiberBase of a fiber that has completed *)
Lemma inv_del : forall g s s', inv s -> fsO s g = Some FCompleted ->
  cur s' = cur s -> runq s' = runq s -> sleepm s' = sleepm s -> waitq s' = waitq s -> nsp s' = nsp s -> now s' = now s ->
  fibers s' = fdel g (fibers s) -> inv s'.
Proof.
  intros g s s' I Hg Ec Er Es Ew En Et Ef.
  destruct (iH _ _ I g Hg) as [HCg HWg].
  assert (HC : forall h, Cc s' h = Cc s h) by (intros; unfold Cc; rewrite Ec, Er, Es; auto).
  assert (HW : forall h, Wc s' h = Wc s h) by (intros; unfold Wc; rewrite Ew; auto).
  assert (Hfo : forall h, h <> g -> fget h (fibers s') = fget h (fibers s)) by (intros; rewrite Ef; apply fget_fdel_other; auto).
  assert (Hfg : fget g (fibers s') = None) by (rewrite Ef; apply fget_fdel_same; apply (iK _ _ I)).
  assert (Hfs : forall h, h <> g -> fsO s' h = fsO s h) by (intros; unfold fsO; rewrite Hfo; auto).
  assert (Hpo : forall h, h <> g -> pendO s' h = pendO s h) by (intros; unfold pendO; rewrite Hfo; auto).
  assert (Hjo : forall h, h <> g -> joinO s' h = joinO s h) by (intros; unfold joinO; rewrite Hfo; auto).
  assert (HPJ : forall h j, pjoin s' h j -> h <> g /\ pjoin s h j).
  { intros h j [A B]. destruct (Nat.eq_dec h g) as [->|Hne].
    - unfold joinO in A. rewrite Hfg in A. discriminate.
    - split; auto. unfold pjoin. rewrite <- Hjo, <- Hfs by auto. split; auto. }
  constructor.
  - intros h. rewrite HC. apply I.
  - intros h. rewrite HW. apply I.
  - intros h H1 H2. rewrite HW in H1. rewrite HC in H2. assert (h <> g) by (intro; subst; lia).
    rewrite Hpo by auto. unfold wq. rewrite Ew. apply (iC _ _ I h H1 H2).
  - intros h ns P. destruct (Nat.eq_dec h g) as [->|Hne]; [unfold pendO in P; rewrite Hfg in P; discriminate|].
    rewrite Hpo in P by auto. rewrite HW, Es, Er, Et. apply (iD _ _ I h ns P).
  - intros h Hh. destruct (Nat.eq_dec h g) as [->|Hne]; [unfold fsO in Hh; rewrite Hfg in Hh; discriminate|].
    rewrite Hfs in Hh by auto. rewrite HC, HW. apply (iH _ _ I h Hh).
  - intros h j Hpj. destruct (HPJ h j Hpj) as [Hne Hp]. destruct (iE _ _ I _ _ Hp) as (E1 & E2 & E3 & E4).
    rewrite HC, HW. split; [exact E1|]. split; [exact E2|]. split.
    + intros g' Hg'. destruct (HPJ g' j Hg') as [_ Hp']. apply E3. exact Hp'.
    + destruct (Nat.eq_dec j g) as [->|Hnj]; [unfold fsO; rewrite Hfg; discriminate|rewrite Hfs by auto; exact E4].
  - intros k Hk'. rewrite En in Hk'. destruct (iF _ _ I k Hk') as (G1 & G2 & G3 & G4).
    assert (alloc k <> g) by (intro E; rewrite E in G3; rewrite Hg in G3; discriminate).
    rewrite HC, HW. split; [exact G1|]. split; [exact G2|]. split; [rewrite Hfs by auto; exact G3|].
    intros h. destruct (Nat.eq_dec h g) as [->|Hne]; [unfold joinO; rewrite Hfg; discriminate|rewrite Hjo by auto; apply G4].
  - rewrite Ef. apply fdel_keys_nodup. apply (iK _ _ I).
Qed.

(* 11a. FiberBase::Exit: the (already unlinked) fiber is marked Completed *)
Lemma inv_complete : forall f s, inv s -> Cc s f = 0 -> Wc s f = 0 -> (forall g0, ~ pjoin s g0 f) ->
  inv (updf f (fun r => with_fs r FCompleted) s).
Proof.
  intros f s I HCf HWf Hpf.
  set (s' := updf f (fun r => with_fs r FCompleted) s).
  destruct (fobs_upd f (fun r => with_fs r FCompleted) s s' eq_refl) as (Ho & Hf1 & Hf2 & Hf3 & Hk).
  assert (Hfs : forall h, h <> f -> fsO s' h = fsO s h) by (intros h Hne; destruct (Ho h Hne) as (A & _); exact A).
  assert (Hfn : forall h, fsO s' h = None <-> fsO s h = None).
  { intros h. destruct (Nat.eq_dec h f) as [->|Hne]; [|rewrite Hfs by auto; tauto].
    rewrite Hf1. unfold fsO. destruct (fget f (fibers s)); simpl; [split; discriminate|tauto]. }
  assert (Hpo : forall h, pendO s' h = pendO s h).
  { intros h. destruct (Nat.eq_dec h f) as [->|Hne].
    - rewrite Hf2. unfold pendO. destruct (fget f (fibers s)); auto.
    - destruct (Ho h Hne) as (_ & A & _). exact A. }
  assert (Hjo : forall h, joinO s' h = joinO s h).
  { intros h. destruct (Nat.eq_dec h f) as [->|Hne].
    - rewrite Hf3. unfold joinO. destruct (fget f (fibers s)); auto.
    - destruct (Ho h Hne) as (_ & _ & A). exact A. }
  assert (HPJ : forall h j, pjoin s' h j -> h <> f /\ pjoin s h j).
  { intros h j [A B]. destruct (Nat.eq_dec h f) as [->|Hne].
    - exfalso. apply B. rewrite Hf1. rewrite Hjo in A. unfold joinO in A. destruct (fget f (fibers s)); [reflexivity|discriminate].
    - split; auto. unfold pjoin. rewrite <- Hjo, <- Hfs by auto. split; auto. }
  constructor.
  - apply (iA _ _ I).
  - apply (iB _ _ I).
  - intros h H1 H2. rewrite Hpo. apply (iC _ _ I h H1 H2).
  - intros h ns P. rewrite Hpo in P. apply (iD _ _ I h ns P).
  - intros h Hh. destruct (Nat.eq_dec h f) as [->|Hne]; [split; [exact HCf|exact HWf]|].
    rewrite Hfs in Hh by auto. apply (iH _ _ I h Hh).
  - intros h j Hpj. destruct (HPJ h j Hpj) as [Hne Hp]. destruct (iE _ _ I _ _ Hp) as (E1 & E2 & E3 & E4).
    split; [exact E1|]. split; [exact E2|]. split.
    + intros g' Hg'. destruct (HPJ g' j Hg') as [_ Hp']. apply E3. exact Hp'.
    + assert (j <> f) by (intro; subst; apply (Hpf h Hp)). rewrite Hfs by auto. exact E4.
  - intros k Hk'. destruct (iF _ _ I k Hk') as (G1 & G2 & G3 & G4).
    split; [exact G1|]. split; [exact G2|]. split; [apply Hfn; exact G3|]. intros h. rewrite Hjo. apply G4.
  - rewrite Hk. apply (iK _ _ I).
Qed.

(* 12a. SleepPreemptive erases the empty bucket of its deadline *)
Lemma inv_erase_bucket : forall ns b s, inv s -> sm_find ns (sleepm s) = Some b -> is_nil b = true ->
  inv (set_sleepm s (sm_erase ns (sleepm s))).
Proof.
  intros ns b s I Hf Hn. apply (inv_wview alloc s); auto.
  - unfold qview, Cc. simpl. repeat split; auto.
    + intros g. rewrite (scnt_erase_empty g ns (sleepm s) b Hf Hn). reflexivity.
    + intros ns' g P [H|H]; [left; apply (bhas_erase ns' g ns (sleepm s) b Hf Hn H)|right; auto].
  - apply fview_refl. reflexivity.
Qed.

(* 12b. the timed wait is over: the fiber (no longer in any wait queue) forgets its deadline *)
Lemma inv_clear_pend : forall f u s, inv s -> Wc s f = 0 ->
  (forall r, pend (u r) = PNone /\ joiner (u r) = joiner r /\ fs (u r) = fs r) ->
  inv (updf f u s).
Proof.
  intros f u s I HWf Hu. set (s' := updf f u s).
  destruct (fobs_upd f u s s' eq_refl) as (Ho & Hf1 & Hf2 & Hf3 & Hk).
  assert (Hfs : forall h, fsO s' h = fsO s h).
  { intros h. destruct (Nat.eq_dec h f) as [->|Hne].
    - rewrite Hf1. unfold fsO. destruct (fget f (fibers s)) as [r|]; simpl; auto. destruct (Hu r) as (_ & _ & A). rewrite A. auto.
    - destruct (Ho h Hne) as (A & _). exact A. }
  assert (Hpo : forall h, h <> f -> pendO s' h = pendO s h) by (intros h Hne; destruct (Ho h Hne) as (_ & A & _); exact A).
  assert (Hpf : forall p, pendO s' f = Some p -> p = PNone).
  { intros p. rewrite Hf2. destruct (fget f (fibers s)) as [r|]; simpl; [|discriminate]. destruct (Hu r) as (A & _). rewrite A. congruence. }
  assert (Hjo : forall h, joinO s' h = joinO s h).
  { intros h. destruct (Nat.eq_dec h f) as [->|Hne].
    - rewrite Hf3. unfold joinO. destruct (fget f (fibers s)) as [r|]; simpl; auto. destruct (Hu r) as (_ & A & _). rewrite A. auto.
    - destruct (Ho h Hne) as (_ & _ & A). exact A. }
  assert (HPJ : forall h j, pjoin s' h j <-> pjoin s h j) by (intros; unfold pjoin; rewrite Hjo, Hfs; tauto).
  constructor.
  - apply (iA _ _ I).
  - apply (iB _ _ I).
  - intros h H1 H2. change (Wc s' h) with (Wc s h) in H1. change (Cc s' h) with (Cc s h) in H2.
    assert (h <> f) by (intro; subst; lia). rewrite Hpo by auto. apply (iC _ _ I h H1 H2).
  - intros h ns P. destruct (Nat.eq_dec h f) as [->|Hne]; [apply Hpf in P; discriminate|].
    rewrite Hpo in P by auto. apply (iD _ _ I h ns P).
  - intros h Hh. rewrite Hfs in Hh. apply (iH _ _ I h Hh).
  - intros h j Hpj. apply HPJ in Hpj. destruct (iE _ _ I _ _ Hpj) as (E1 & E2 & E3 & E4).
    split; [exact E1|]. split; [exact E2|]. split; [intros g' Hg'; apply E3, HPJ, Hg'|rewrite Hfs; exact E4].
  - intros k Hk'. destruct (iF _ _ I k Hk') as (G1 & G2 & G3 & G4).
    split; [exact G1|]. split; [exact G2|]. split; [rewrite Hfs; exact G3|]. intros h. rewrite Hjo. apply G4.
  - rewrite Hk. apply (iK _ _ I).
Qed.

(* 13. Scheduler::RunLoop: AdvanceTime, WakeUpNeeded, GetNext + Resume *)
Lemma inv_advance : forall s, inv s -> inv (advance s).
Proof.
  intros s I. unfold advance. destruct (is_nil (runq s)); auto.
  destruct (first_key (sleepm s)) as [k|]; auto.
  destruct (N.leb_spec (now s) k); auto.
  apply (inv_wview alloc s); auto.
  - unfold qview, Cc. simpl. repeat split; auto.
    intros ns g P [Hb|[Hr Hn]]; [left; auto|right; split; auto; lia].
  - apply fview_refl. reflexivity.
Qed.

Lemma inv_wakeup : forall s, inv s -> inv (wakeup s).
Proof.
  intros s I. apply (inv_wview alloc s); auto.
  - unfold qview, wakeup, Cc. simpl. repeat split; auto.
    + intros g. rewrite cnt_app. pose proof (wake_cnt g (now s) (sleepm s)). lia.
    + intros ns g P [Hb|[Hr Hn]].
      * destruct (bhas_wake ns g (now s) (sleepm s) Hb) as [[Hk Hw]|Hb'].
        -- right. rewrite cnt_app. split; [lia|auto].
        -- left. exact Hb'.
      * right. rewrite cnt_app. split; [lia|auto].
  - apply fview_refl. reflexivity.
Qed.

(* GetNext took f out of the run queue (position i), TickTime, FiberBase::Resume *)
Lemma inv_pick : forall f i t s, inv s -> cur s = None -> nth_error (runq s) i = Some f -> (now s <= t)%N ->
  inv (updf f (fun r => with_pend (with_fs r FRunning) (match pend r with PSleep _ => PNone | p => p end))
         (set_now (set_cur (set_runq s (remove_nth i (runq s))) (Some f)) t)) /\
  (forall ns, pendO s f = Some (PSleep ns) -> (ns <= now s)%N).
Proof.
  intros f i t s I Hc Hn Ht.
  assert (Hfr : cnt f (runq s) >= 1).
  { pose proof (cnt_remove_nth f f i (runq s) Hn) as H. rewrite Nat.eqb_refl in H. simpl in H. lia. }
  assert (HCf : Cc s f >= 1) by (unfold Cc; lia).
  assert (Hnc : fsO s f <> Some FCompleted) by (intros H; destruct (iH _ _ I f H); lia).
  assert (Hearly : forall ns, pendO s f = Some (PSleep ns) -> (ns <= now s)%N).
  { intros ns P. destruct (iD _ _ I f ns P) as [_ [Hb|[_ Hle]]]; auto.
    exfalso. apply bhas_scnt in Hb. pose proof (iA _ _ I f) as HA. unfold Cc in HA. lia. }
  split; [|exact Hearly].
  set (sq := set_now (set_cur (set_runq s (remove_nth i (runq s))) (Some f)) t).
  set (u := fun r => with_pend (with_fs r FRunning) (match pend r with PSleep _ => PNone | p => p end)).
  set (s' := updf f u sq).
  destruct (fobs_upd f u sq s' eq_refl) as (Ho & Hf1 & Hf2 & Hf3 & Hk).
  change (fibers sq) with (fibers s) in *.
  assert (HC : forall g, Cc s' g = Cc s g).
  { intros g. unfold Cc. simpl. rewrite Hc. simpl. pose proof (cnt_remove_nth g f i (runq s) Hn). lia. }
  assert (HW : forall g, Wc s' g = Wc s g) by reflexivity.
  assert (Hfs : forall g, fsO s' g = Some FCompleted <-> fsO s g = Some FCompleted).
  { intros g. destruct (Nat.eq_dec g f) as [->|Hne].
    - rewrite Hf1. unfold fsO in *. destruct (fget f (fibers s)); simpl; [|tauto]. split; [discriminate|]. intros H. exfalso. apply Hnc. exact H.
    - destruct (Ho g Hne) as (A & _). change (fsO sq g) with (fsO s g) in A. rewrite A. tauto. }
  assert (Hfn : forall g, fsO s' g = None <-> fsO s g = None).
  { intros g. destruct (Nat.eq_dec g f) as [->|Hne].
    - rewrite Hf1. unfold fsO. destruct (fget f (fibers s)); simpl; [split; discriminate|tauto].
    - destruct (Ho g Hne) as (A & _). change (fsO sq g) with (fsO s g) in A. rewrite A. tauto. }
  assert (Hpo : forall g, g <> f -> pendO s' g = pendO s g).
  { intros g Hne. destruct (Ho g Hne) as (_ & A & _). exact A. }
  assert (Hpt : forall q ns, pendO s f = Some (PTimed q ns) -> pendO s' f = Some (PTimed q ns)).
  { intros q ns. rewrite Hf2. unfold pendO. destruct (fget f (fibers s)) as [r|]; simpl; [|discriminate].
    intros H. inversion H as [H1]. unfold u. simpl. rewrite H1. reflexivity. }
  assert (Hps : forall ns, pendO s' f <> Some (PSleep ns)).
  { intros ns. rewrite Hf2. destruct (fget f (fibers s)) as [r|]; simpl; [|discriminate].
    unfold u. simpl. destruct (pend r); discriminate. }
  assert (Hjo : forall g, joinO s' g = joinO s g).
  { intros g. destruct (Nat.eq_dec g f) as [->|Hne].
    - rewrite Hf3. unfold joinO. destruct (fget f (fibers s)); auto.
    - destruct (Ho g Hne) as (_ & _ & A). exact A. }
  assert (HPJ : forall g j, pjoin s' g j <-> pjoin s g j) by (intros; unfold pjoin; rewrite Hjo, Hfs; tauto).
  constructor.
  - intros g. rewrite HC. apply I.
  - intros g. rewrite HW. apply I.
  - intros g H1 H2. rewrite HW in H1. rewrite HC in H2. destruct (iC _ _ I g H1 H2) as (q & ns & P & Q).
    exists q, ns. split; [|exact Q]. destruct (Nat.eq_dec g f) as [->|Hne]; [apply Hpt; exact P|rewrite Hpo by auto; exact P].
  - intros g ns P. destruct (Nat.eq_dec g f) as [->|Hne]; [exfalso; apply (Hps ns P)|].
    rewrite Hpo in P by auto. rewrite HW. destruct (iD _ _ I g ns P) as [D1 D2]. split; auto.
    destruct D2 as [D2|[D2 D3]]; [left; exact D2|]. right. simpl.
    pose proof (cnt_remove_nth g f i (runq s) Hn) as H. destruct (Nat.eqb_spec f g); [congruence|]. simpl in H. split; [lia|lia].
  - intros g Hg. apply Hfs in Hg. rewrite HC, HW. apply (iH _ _ I g Hg).
  - intros g j Hpj. apply HPJ in Hpj. destruct (iE _ _ I _ _ Hpj) as (E1 & E2 & E3 & E4).
    rewrite HC, HW, Hfs. split; [exact E1|]. split; [exact E2|]. split; [intros g' Hg'; apply E3, HPJ, Hg'|exact E4].
  - intros k Hk'. destruct (iF _ _ I k Hk') as (G1 & G2 & G3 & G4).
    rewrite HC, HW, Hfn. split; [exact G1|]. split; [exact G2|]. split; [exact G3|]. intros g. rewrite Hjo. apply G4.
  - rewrite Hk. apply (iK _ _ I).
Qed.

(* ------------------------------------------------------------------ assembling the steps *)
Lemma running_fields : forall f s s', cur s' = cur s -> fibers s' = fibers s -> running s f -> running s' f.
Proof. intros f s s' Hc Hf [R1 R2]. unfold running, pendO. rewrite Hc, Hf. split; auto. Qed.

Lemma running_irrelevant : forall f u s,
  (forall r, pend (u r) = pend r) -> running s f -> running (updf f u s) f.
Proof.
  intros f u s Hu [R1 R2]. split; auto. intros q ns. unfold pendO, updf. simpl. rewrite fget_fupd, Nat.eqb_refl.
  unfold pendO in R2. destruct (fget f (fibers s)) as [r|]; simpl; [|discriminate]. rewrite Hu. apply R2.
Qed.

Section Steps.

Variable cf : cfg.
Variable draws : nat -> N.

Lemma inv_crash : forall c s, inv s -> inv (fst (crash c s)).
Proof. intros c s I. apply (inv_fields s); auto. Qed.

Lemma inv_do_exit : forall f r s, inv s -> running s f -> fget f (fibers s) = Some r -> inv (do_exit f r s).
Proof.
  intros f r s I R Hr. destruct (running_facts alloc s f I R) as (F1 & F2 & F3 & F4 & F5 & F6 & F7).
  pose proof R as [Hc Hp].
  set (sa := set_cur s None).
  assert (Ia : inv sa) by (apply (inv_cur_drop f); auto).
  assert (HCa : Cc sa f = 0) by (unfold Cc; simpl; lia).
  assert (HPa : forall g0, ~ pjoin sa g0 f) by (intros g0 H; apply (F6 g0 H)).
  set (sb := updf f (fun r' => with_fs r' FCompleted) sa).
  assert (Ib : inv sb) by (apply inv_complete; auto).
  assert (Hfsb : fsO sb f = Some FCompleted).
  { unfold fsO, sb, updf. simpl. rewrite fget_fupd, Nat.eqb_refl, Hr. reflexivity. }
  (* the joiner, if any, is scheduled *)
  assert (Hsched : forall j, joiner r = Some j -> inv (schedule j sb) /\ fsO (schedule j sb) f = Some FCompleted).
  { intros j Hj.
    assert (Hpj : pjoin s f j).
    { unfold pjoin, joinO, fsO. rewrite Hr. simpl. split; [rewrite Hj; auto|].
      intros H. apply F4. unfold fsO. rewrite Hr. exact H. }
    destruct (iE _ _ I _ _ Hpj) as (E1 & E2 & E3 & E4).
    assert (Hjf : j <> f) by (intro; subst; pose proof (Cc_cur s f Hc); lia).
    assert (Hfo : forall h, h <> f -> fget h (fibers sb) = fget h (fibers s)).
    { intros h Hne. unfold sb, updf. simpl. rewrite fget_fupd. destruct (Nat.eqb_spec f h); [congruence|auto]. }
    split.
    - apply inv_enq; auto.
      + unfold Cc in *. simpl. rewrite Hc in E1. simpl in E1. lia.
      + unfold fsO. rewrite Hfo by auto. exact E4.
      + intros g0 [A B]. destruct (Nat.eq_dec g0 f) as [->|Hne].
        * apply B. exact Hfsb.
        * assert (pjoin s g0 j) by (unfold pjoin, joinO, fsO in *; rewrite Hfo in A, B by auto; split; auto).
          apply Hne. apply E3. auto.
      + intros k Hk E. destruct (iF _ _ I k Hk) as (_ & _ & _ & G4). apply (G4 f). unfold joinO. rewrite Hr. simpl. rewrite Hj, E. auto.
    - unfold fsO, schedule, updf. simpl. rewrite fget_fupd. destruct (Nat.eqb_spec j f); [congruence|]. exact Hfsb. }
  unfold do_exit.
  destruct (joiner r) as [j|] eqn:Ej; destruct (alive r) eqn:Ea.
  - destruct (Hsched j eq_refl) as [Is _]. exact Is.
  - apply (inv_del f sb); auto.
  - exact Ib.
  - apply (inv_del f sb); auto.
Qed.

Lemma inv_timed_finish : forall f q ns s, inv s -> cur s = Some f -> pendO s f = Some (PTimed q ns) ->
  inv (fst (timed_finish f q ns s)).
Proof.
  intros f q ns s I Hc Hp. unfold timed_finish. cbn [fst].
  set (s1 := match sm_find ns (sleepm s) with
             | Some b => if is_nil b then set_sleepm s (sm_erase ns (sleepm s)) else s
             | None => s
             end).
  assert (I1 : inv s1).
  { unfold s1. destruct (sm_find ns (sleepm s)) as [b|] eqn:E; auto. destruct (is_nil b) eqn:En; auto.
    apply (inv_erase_bucket ns b); auto. }
  assert (Hc1 : cur s1 = Some f).
  { unfold s1. destruct (sm_find ns (sleepm s)) as [b|]; auto. destruct (is_nil b); auto. }
  assert (Hf1 : fibers s1 = fibers s).
  { unfold s1. destruct (sm_find ns (sleepm s)) as [b|]; auto. destruct (is_nil b); auto. }
  assert (Hp1 : pendO s1 f = Some (PTimed q ns)) by (unfold pendO; rewrite Hf1; exact Hp).
  pose proof (Cc_cur s1 f Hc1) as HC1.
  set (l := wq q s1).
  assert (I2 : inv (set_wq q (rm f l) s1)).
  { apply inv_wq_shrink; auto. intros h. rewrite cnt_rm. fold l. destruct (Nat.eqb h f); auto. }
  assert (HW2 : Wc (set_wq q (rm f l) s1) f = 0).
  { pose proof (Wc_set_wq f q (rm f l) s1) as H. rewrite cnt_rm, Nat.eqb_refl in H. fold l in H.
    pose proof (iB _ _ I1 f) as HB. pose proof (wq_le_Wc f q s1) as Hle. fold l in Hle.
    destruct (Wc s1 f) eqn:EW; [lia|].
    destruct (iC _ _ I1 f) as (q' & ns' & P & Q); [lia|lia|].
    rewrite Hp1 in P. inversion P. subst q' ns'. fold l in Q. lia. }
  destruct (mem f l) eqn:Em.
  - apply inv_clear_pend; auto.
  - apply mem_cnt0 in Em.
    assert (HW1 : Wc s1 f = 0).
    { destruct (Wc s1 f) eqn:EW; auto. exfalso.
      destruct (iC _ _ I1 f) as (q' & ns' & P & Q); [lia|lia|].
      rewrite Hp1 in P. inversion P. subst q' ns'. fold l in Q. lia. }
    apply inv_clear_pend; auto.
Qed.

Lemma inv_do_action : forall f r a rest s, inv s -> running s f -> fget f (fibers s) = Some r ->
  inv (fst (do_action cf draws alloc f r a rest s)).
Proof.
  intros f r a rest s I R Hr.
  set (pop := updf f (fun r' => with_prog r' rest) s).
  assert (Ip : inv pop) by (apply inv_irrelevant; auto).
  assert (Rp : running pop f) by (apply running_irrelevant; auto).
  assert (Hrp : fget f (fibers pop) <> None).
  { unfold pop, updf. simpl. rewrite fget_fupd, Nat.eqb_refl, Hr. discriminate. }
  destruct (running_facts alloc s f I R) as (F1 & F2 & F3 & F4 & F5 & F6 & F7).
  destruct a; unfold do_action; fold pop.
  - (* AInject *)
    unfold inject, draw. destruct (freq cf <=? inj pop)%N; cbn [fst].
    + set (s2 := set_inj (set_rc pop (S (rc pop))) (draws (rc pop) mod freq cf)%N).
      apply (inv_yield f s2).
      * apply (inv_fields pop); auto.
      * apply (running_fields f pop); auto.
    + apply (inv_fields pop); auto.
  - (* AWeak *)
    destruct (casf cf =? 0)%N; cbn [fst].
    + apply inv_irrelevant; auto.
    + unfold draw. cbn [fst snd]. apply inv_irrelevant; auto. apply (inv_fields pop); auto.
  - (* ALogCas *) exact Ip.
  - (* AYield *) apply inv_yield; auto.
  - (* AEpoch *) apply (inv_fields pop); auto.
  - (* ASleep *)
    destruct (N.leb_spec (tbase ab s + d) (now s)); cbn [fst]; [exact Ip|].
    apply (inv_sleep f (tbase ab s + d)%N pop); auto.
  - (* APark *) apply inv_park; auto.
  - (* ATimedPark *)
    unfold draw. cbn [fst snd].
    set (s1 := set_wq q (wq q pop ++ [f]) pop).
    set (v := (draws (rc s1) mod slpt cf)%N).
    set (ns := (tbase ab s + d + v)%N).
    set (s3 := updf f (fun r' => with_pend r' (PTimed q ns)) (set_rc s1 (S (rc s1)))).
    assert (I3 : inv s3).
    { apply (inv_fields (updf f (fun r' => with_pend r' (PTimed q ns)) s1)); auto.
      apply inv_tpark; auto. }
    destruct (ns <=? now s)%N; cbn [fst]; [exact I3|].
    apply inv_to_bucket; auto. destruct Rp as [Hc _]. exact Hc.
  - (* ALogTimed *) exact Ip.
  - (* ANotifyOne *) apply (inv_notify_one cf draws f); auto.
  - (* ANotifyAll *) cbn [fst]. apply (inv_notify_all f); auto.
  - (* ALock *)
    destruct (existsb (Nat.eqb m) (locked s)); cbn [fst].
    + apply inv_park; auto.
    + apply (inv_fields pop); auto.
  - (* AUnlock *)
    apply (inv_notify_one cf draws f).
    + apply (inv_fields pop); auto.
    + apply (running_fields f pop); auto.
  - (* ASpawn *)
    destruct (sget slot (slots s)); [apply inv_crash; auto|]. cbn [fst].
    apply (inv_spawn slot body pop Ip).
  - (* AJoin *)
    destruct (sget slot (slots s)) as [g|]; [|apply inv_crash; auto].
    destruct (Nat.eqb_spec g f) as [Heq|Hgf]; [apply inv_crash; auto|].
    destruct (fget g (fibers s)) as [rg|] eqn:Eg; [|apply inv_crash; auto].
    destruct (fstate_eqb (fs rg) FCompleted) eqn:Ec; cbn [fst].
    + apply (inv_del g pop); auto.
      unfold fsO, pop, updf. simpl. rewrite fget_fupd. destruct (Nat.eqb_spec f g); [congruence|]. rewrite Eg. simpl.
      destruct (fs rg); try discriminate. reflexivity.
    + destruct R as [Hc Hp].
      set (sa := set_cur s None).
      assert (Ia : inv sa) by (apply (inv_cur_drop f); [auto|split; auto]).
      assert (Ib : inv (updf g (fun r' => with_joiner r' (Some f)) sa)).
      { apply inv_set_joiner; auto. unfold Cc. simpl. lia. }
      apply (inv_setfs f FSuspended) in Ib; [exact Ib|discriminate|].
      unfold fsO, updf. simpl. rewrite fget_fupd. destruct (Nat.eqb_spec g f); [congruence|]. exact F4.
  - (* ADetach *)
    destruct (sget slot (slots s)) as [g|]; [|apply inv_crash; auto].
    destruct (Nat.eqb_spec g f) as [Heq|Hgf]; [apply inv_crash; auto|].
    destruct (fget g (fibers s)) as [rg|] eqn:Eg; [|apply inv_crash; auto].
    destruct (fstate_eqb (fs rg) FCompleted) eqn:Ec; cbn [fst].
    + apply (inv_del g pop); auto.
      unfold fsO, pop, updf. simpl. rewrite fget_fupd. destruct (Nat.eqb_spec f g); [congruence|]. rewrite Eg. simpl.
      destruct (fs rg); try discriminate. reflexivity.
    + apply inv_irrelevant; auto. apply (inv_fields pop); auto.
  - (* ACheck *) exact Ip.
  - (* ALogVal *) exact Ip.
Qed.

Lemma inv_fiber_step : forall f s, inv s -> cur s = Some f -> inv (fst (fiber_step cf draws alloc f s)).
Proof.
  intros f s I Hc. unfold fiber_step. destruct (fget f (fibers s)) as [r|] eqn:Er; [|apply inv_crash; auto].
  assert (Hpo : pendO s f = Some (pend r)) by (unfold pendO; rewrite Er; reflexivity).
  destruct (pend r) as [|ns|q ns] eqn:Ep.
  - assert (R : running s f) by (split; auto; intros q ns; rewrite Hpo; discriminate).
    destruct (prog r) as [|a rest]; [apply inv_do_exit; auto|apply inv_do_action; auto].
  - assert (R : running s f) by (split; auto; intros q ns'; rewrite Hpo; discriminate).
    destruct (prog r) as [|a rest]; [apply inv_do_exit; auto|apply inv_do_action; auto].
  - apply inv_timed_finish; auto.
Qed.

Lemma inv_step : forall s s' o, inv s -> step cf draws alloc s = Some (s', o) -> inv s'.
Proof.
  intros s s' o I. unfold step. destruct (crashed s); [discriminate|].
  destruct (cur s) as [f|] eqn:Hc.
  - intros H. inversion H as [H1]. pose proof (inv_fiber_step f s I Hc) as H2. rewrite H1 in H2. exact H2.
  - unfold sched_step. destruct (is_nil (runq s) && is_nil (sleepm s)); [discriminate|].
    set (s2 := wakeup (advance s)).
    assert (I2 : inv s2) by (apply inv_wakeup, inv_advance; exact I).
    assert (Hc2 : cur s2 = None).
    { unfold s2, wakeup, advance. simpl. destruct (is_nil (runq s)); auto.
      destruct (first_key (sleepm s)); auto. destruct (now s <=? n)%N; auto. }
    unfold resume_next. destruct (is_nil (runq s2)).
    + intros H. inversion H. apply (inv_fields s2); auto.
    + unfold poll, draw.
      set (i := poll_index cf (length (runq s2)) (draws (rc s2) mod (2 * pick cf))%N).
      destruct (nth_error (runq s2) i) as [f|] eqn:En; intros H; inversion H; clear H.
      * set (s3 := set_rc s2 (S (rc s2))).
        assert (I3 : inv s3) by (apply (inv_fields s2); auto).
        destruct (inv_pick f i (now s3 + tick cf)%N s3 I3 Hc2 En) as [Ip _]; [lia|]. exact Ip.
      * apply (inv_fields s2); auto.
Qed.

End Steps.

End Moves.

(* ------------------------------------------------------------------ consequences *)
Definition snodes (s : st) : list fid :=
  (match cur s with Some f => [f] | None => [] end) ++ runq s ++ flat_map snd (sleepm s).
Definition wnodes (s : st) : list fid := flat_map snd (waitq s).

Lemma cnt_snodes : forall s f, cnt f (snodes s) = Cc s f.
Proof.
  intros s f. unfold snodes, Cc. rewrite !cnt_app.
  assert (H1 : cnt f (match cur s with Some f0 => [f0] | None => [] end) = ccnt f (cur s)) by (destruct (cur s); simpl; lia).
  assert (H2 : cnt f (flat_map snd (sleepm s)) = scnt f (sleepm s)).
  { induction (sleepm s) as [|[k b] m IH]; simpl; auto. rewrite cnt_app, IH. auto. }
  lia.
Qed.

Lemma cnt_wnodes : forall s f, cnt f (wnodes s) = Wc s f.
Proof.
  intros s f. unfold wnodes, Wc. induction (waitq s) as [|[q b] w IH]; simpl; auto. rewrite cnt_app, IH. auto.
Qed.

Lemma cnt_le1_nodup : forall l, (forall f, cnt f l <= 1) -> NoDup l.
Proof.
  induction l as [|x l IH]; intros H; constructor.
  - intros Hin. specialize (H x). simpl in H. rewrite Nat.eqb_refl in H. simpl in H.
    assert (cnt x l >= 1).
    { clear -Hin. induction l as [|y l IH]; simpl in *; [tauto|]. destruct Hin as [->|Hin].
      - rewrite Nat.eqb_refl. simpl. lia.
      - specialize (IH Hin). lia. }
    lia.
  - apply IH. intros f. specialize (H f). simpl in H. lia.
Qed.

Section Reach.

Variable cf : cfg.
Variable draws : nat -> N.
Variable alloc : nat -> fid.
Hypothesis alloc_inj : forall a b, alloc a = alloc b -> a = b.

Lemma inv_steps : forall fuel s, inv alloc s -> inv alloc (steps cf draws alloc fuel s).
Proof.
  induction fuel as [|fuel IH]; intros s I; cbn [steps]; auto.
  destruct (step cf draws alloc s) as [[s' o]|] eqn:E; auto.
  apply IH. apply (inv_step alloc alloc_inj cf draws s s' o I E).
Qed.

(* the two kinds of start state: a driver that has just been created / a driver that is running alone *)
Lemma inv_start : forall t d (r : fiber) c rc0 inj0 n0 rq,
  (forall k, n0 <= k -> alloc k <> d) -> pend r = PNone -> joiner r = None -> fs r <> FCompleted ->
  ((c = None /\ rq = [d]) \/ (c = Some d /\ rq = [])) ->
  inv alloc {| now := t; runq := rq; sleepm := []; waitq := []; locked := []; fibers := [(d, r)]; slots := [];
               cur := c; rc := rc0; inj := inj0; nsp := n0; crashed := false; epoch := 0%N |}.
Proof.
  intros t d r c rc0 inj0 n0 rq Hfr Hp Hj Hf Hc.
  set (s0 := {| now := t; runq := rq; sleepm := []; waitq := []; locked := []; fibers := [(d, r)]; slots := [];
                cur := c; rc := rc0; inj := inj0; nsp := n0; crashed := false; epoch := 0%N |}).
  assert (HC : forall f, Cc s0 f = b2n (Nat.eqb d f)).
  { intros f. unfold Cc. simpl. destruct Hc as [[-> ->]|[-> ->]]; simpl; lia. }
  assert (HW : forall f, Wc s0 f = 0) by reflexivity.
  assert (Hfs : forall g, fsO s0 g = if Nat.eqb d g then Some (fs r) else None).
  { intros g. unfold fsO. simpl. destruct (Nat.eqb d g); reflexivity. }
  assert (Hpo : forall g, pendO s0 g = if Nat.eqb d g then Some PNone else None).
  { intros g. unfold pendO. simpl. destruct (Nat.eqb d g); simpl; [rewrite Hp|]; reflexivity. }
  assert (Hjo : forall g, joinO s0 g = if Nat.eqb d g then Some None else None).
  { intros g. unfold joinO. simpl. destruct (Nat.eqb d g); simpl; [rewrite Hj|]; reflexivity. }
  assert (HPJ : forall g j, ~ pjoin s0 g j).
  { intros g j [A _]. rewrite Hjo in A. destruct (Nat.eqb d g); discriminate. }
  constructor.
  - intros f. rewrite HC. destruct (Nat.eqb d f); simpl; lia.
  - intros f. rewrite HW. lia.
  - intros f H. rewrite HW in H. lia.
  - intros f ns P. rewrite Hpo in P. destruct (Nat.eqb d f); discriminate.
  - intros g H. rewrite Hfs in H. destruct (Nat.eqb d g); [|discriminate]. inversion H. congruence.
  - intros g j H. exfalso. apply (HPJ g j H).
  - intros k Hk. pose proof (Hfr k Hk) as Hne. rewrite HC, HW, Hfs. destruct (Nat.eqb_spec d (alloc k)); [congruence|]. simpl.
    split; [reflexivity|]. split; [reflexivity|]. split; [reflexivity|].
    intros g. rewrite Hjo. destruct (Nat.eqb d g); discriminate.
  - simpl. constructor; [intros []|constructor].
Qed.

Lemma inv_init : forall t d p rc0 inj0 n0, (forall k, n0 <= k -> alloc k <> d) -> inv alloc (init t d p rc0 inj0 n0).
Proof.
  intros. unfold init. apply inv_start; auto; try discriminate.
Qed.

Lemma inv_quiescent : forall t d p rc0 inj0 n0, (forall k, n0 <= k -> alloc k <> d) ->
  inv alloc (quiescent t d p rc0 inj0 n0).
Proof.
  intros. unfold quiescent. apply inv_start; auto; try discriminate.
Qed.

(* No fiber is in two queues: in every state of every run, the scheduler node of a fiber (current fiber, run queue,
   sleep buckets) is linked at most once, and so is its wait-queue node. *)
Theorem no_fiber_in_two_queues : forall s, inv alloc s -> NoDup (snodes s) /\ NoDup (wnodes s).
Proof.
  intros s I. split; apply cnt_le1_nodup; intros f.
  - rewrite cnt_snodes. apply (iA _ _ I).
  - rewrite cnt_wnodes. apply (iB _ _ I).
Qed.

(* A sleeper never resumes before its deadline: when the scheduler makes f the current fiber and f was in a plain
   sleep (this_thread::sleep_for) with deadline ns, the clock shows at least ns. *)
Theorem sleeper_not_early : forall s s' o f ns, inv alloc s ->
  step cf draws alloc s = Some (s', o) -> cur s = None -> cur s' = Some f ->
  pendO s f = Some (PSleep ns) -> (ns <= now s')%N.
Proof.
  intros s s' o f ns I. unfold step. destruct (crashed s); [discriminate|].
  intros H Hc Hc' P. rewrite Hc in H. unfold sched_step in H.
  destruct (is_nil (runq s) && is_nil (sleepm s)); [discriminate|].
  set (s2 := wakeup (advance s)) in *.
  assert (I2 : inv alloc s2) by (apply inv_wakeup, inv_advance; exact I).
  assert (Hc2 : cur s2 = None).
  { unfold s2, wakeup, advance. simpl. destruct (is_nil (runq s)); auto.
    destruct (first_key (sleepm s)); auto. destruct (now s <=? n)%N; auto. }
  assert (Hf2 : fibers s2 = fibers s).
  { unfold s2, wakeup, advance. simpl. destruct (is_nil (runq s)); auto.
    destruct (first_key (sleepm s)); auto. destruct (now s <=? n)%N; auto. }
  unfold resume_next in H. destruct (is_nil (runq s2)).
  - unfold crash in H. inversion H as [[Hs' Ho]]. rewrite <- Hs' in Hc'. change (cur s2 = Some f) in Hc'. congruence.
  - unfold poll, draw in H.
    set (i := poll_index cf (length (runq s2)) (draws (rc s2) mod (2 * pick cf))%N) in *.
    destruct (nth_error (runq s2) i) as [g|] eqn:En; inversion H; clear H; subst s'.
    + simpl in Hc'. inversion Hc'. subst g. simpl.
      set (s3 := set_rc s2 (S (rc s2))).
      assert (I3 : inv alloc s3) by (apply (inv_fields alloc s2); auto).
      destruct (inv_pick alloc f i (now s3 + tick cf)%N s3 I3 Hc2 En) as [_ He]; [lia|].
      assert (P3 : pendO s3 f = Some (PSleep ns)) by (unfold pendO; change (fibers s3) with (fibers s2); rewrite Hf2; exact P).
      specialize (He ns P3). change (now s3) with (now (advance s)) in He. lia.
    + change (cur s2 = Some f) in Hc'. congruence.
Qed.

End Reach.

(* the statements for runs that start when the driver thread is created *)
Theorem two_queues_from_init : forall cf draws alloc, (forall a b, alloc a = alloc b -> a = b) ->
  forall t d p rc0 inj0 n0, (forall k, n0 <= k -> alloc k <> d) ->
  forall fuel, NoDup (snodes (steps cf draws alloc fuel (init t d p rc0 inj0 n0))) /\
               NoDup (wnodes (steps cf draws alloc fuel (init t d p rc0 inj0 n0))).
Proof.
  intros cf draws alloc Hinj t d p rc0 inj0 n0 Hfr fuel.
  apply (no_fiber_in_two_queues alloc). apply inv_steps; auto. apply inv_init; auto.
Qed.

Theorem sleeper_from_init : forall cf draws alloc, (forall a b, alloc a = alloc b -> a = b) ->
  forall t d p rc0 inj0 n0, (forall k, n0 <= k -> alloc k <> d) ->
  forall fuel s' o f ns,
  step cf draws alloc (steps cf draws alloc fuel (init t d p rc0 inj0 n0)) = Some (s', o) ->
  cur (steps cf draws alloc fuel (init t d p rc0 inj0 n0)) = None -> cur s' = Some f ->
  pendO (steps cf draws alloc fuel (init t d p rc0 inj0 n0)) f = Some (PSleep ns) ->
  (ns <= now s')%N.
Proof.
  intros cf draws alloc Hinj t d p rc0 inj0 n0 Hfr fuel s' o f ns H1 H2 H3 H4.
  apply (sleeper_not_early cf draws alloc Hinj (steps cf draws alloc fuel (init t d p rc0 inj0 n0)) s' o f ns); auto.
  apply inv_steps; auto. apply inv_init; auto.
Qed.

(* ... and for runs that continue from a quiescent point (a restored run) *)
Theorem two_queues_from_quiescent : forall cf draws alloc, (forall a b, alloc a = alloc b -> a = b) ->
  forall t d p rc0 inj0 n0, (forall k, n0 <= k -> alloc k <> d) ->
  forall fuel, NoDup (snodes (steps cf draws alloc fuel (quiescent t d p rc0 inj0 n0))) /\
               NoDup (wnodes (steps cf draws alloc fuel (quiescent t d p rc0 inj0 n0))).
Proof.
  intros cf draws alloc Hinj t d p rc0 inj0 n0 Hfr fuel.
  apply (no_fiber_in_two_queues alloc). apply inv_steps; auto. apply inv_quiescent; auto.
Qed.
