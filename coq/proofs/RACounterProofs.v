(* "The last decrement frees, after everybody's accesses": race freedom of the counter protocol under
   release/acquire semantics for any number of holders and every execution, exactly one destruction, and the
   necessity of the release decrement and of the acquire (fence or decrement). *)
From Coq Require Import List Arith Bool Lia.
Import ListNotations.
From YV Require Import lib.RA model.RACounter.

Definition decd (t : tst) : bool := match pc t with T2 | T2L | T3 | T4 => true | _ => false end.
Definition lastp (t : tst) : bool := match pc t with T2L | T3 | T4 => true | _ => false end.
Definition b2n (b : bool) : nat := if b then 1 else 0.
Fixpoint cnt (f : tst -> bool) (l : list tst) : nat :=
  match l with [] => 0 | t :: r => b2n (f t) + cnt f r end.

(* ---- list update lemmas ---- *)
Lemma upd_length {A} (l : list A) i x : length (upd l i x) = length l.
Proof. revert i; induction l as [|y l IH]; intros [|i]; simpl; auto. Qed.

Lemma nth_upd_eq {A} (l : list A) i x y : nth_error l i = Some y -> nth_error (upd l i x) i = Some x.
Proof. revert i; induction l as [|z l IH]; intros [|i]; simpl; intros H; try discriminate; auto. Qed.

Lemma nth_upd_ne {A} (l : list A) i j x : i <> j -> nth_error (upd l i x) j = nth_error l j.
Proof.
  revert i j; induction l as [|z l IH]; intros [|i] [|j] H; simpl; auto; try congruence.
Qed.

Lemma cnt_upd f l i x y : nth_error l i = Some y -> cnt f (upd l i x) + b2n (f y) = cnt f l + b2n (f x).
Proof.
  revert i; induction l as [|z l IH]; intros [|i]; simpl; intros H; try discriminate.
  - inversion H; subst. lia.
  - specialize (IH _ H). lia.
Qed.

Lemma cnt_upd_same f l i x y : nth_error l i = Some y -> f x = f y -> cnt f (upd l i x) = cnt f l.
Proof. intros H E. pose proof (cnt_upd f l i x y H). rewrite E in *. lia. Qed.

Lemma cnt_upd_inc f l i x y : nth_error l i = Some y -> f y = false -> f x = true ->
  cnt f (upd l i x) = S (cnt f l).
Proof. intros H E1 E2. pose proof (cnt_upd f l i x y H). rewrite E1, E2 in *. simpl in *. lia. Qed.

Lemma cnt_le f l : cnt f l <= length l.
Proof. induction l as [|t l IH]; simpl; [lia|]. destruct (f t); simpl; lia. Qed.

Lemma cnt_full f l : cnt f l = length l -> forall v tv, nth_error l v = Some tv -> f tv = true.
Proof.
  induction l as [|a l IH]; intros Hc [|v] tv Hv; simpl in *; try discriminate.
  - inversion Hv; subst. pose proof (cnt_le f l). destruct (f tv); simpl in *; [reflexivity|lia].
  - apply (IH ltac:(pose proof (cnt_le f l); destruct (f a); simpl in *; lia) _ _ Hv).
Qed.

Lemma cnt_lt f l u t : nth_error l u = Some t -> f t = false -> cnt f l < length l.
Proof.
  revert u; induction l as [|a l IH]; intros [|u] Hu Hf; simpl in *; try discriminate.
  - inversion Hu; subst. rewrite Hf. pose proof (cnt_le f l). simpl. lia.
  - specialize (IH _ Hu Hf). destruct (f a); simpl; lia.
Qed.

(* if all but one are counted and a known element is not, every other element is *)
Lemma cnt_all_but f l u t : nth_error l u = Some t -> f t = false -> cnt f l + 1 = length l ->
  forall v tv, nth_error l v = Some tv -> v <> u -> f tv = true.
Proof.
  revert u; induction l as [|z l IH]; intros [|u]; simpl; intros H Hf Hc v tv Hv Hne; try discriminate.
  - inversion H; subst. rewrite Hf in Hc. simpl in Hc.
    destruct v as [|v]; [congruence|]. simpl in Hv.
    eapply cnt_full; [|exact Hv]. lia.
  - destruct v as [|v]; simpl in Hv.
    + inversion Hv; subst. destruct (f tv) eqn:E; [reflexivity|]. exfalso.
      pose proof (cnt_lt f l u t H Hf). simpl in Hc. lia.
    + eapply IH; eauto. pose proof (cnt_le f l). pose proof (cnt_lt f l u t H Hf).
      destruct (f z); simpl in *; lia.
Qed.

Lemma sees_all_ok v l i :
  (forall j t, nth_error l j = Some t -> v (S (i + j)) = b2n (accessed t)) -> sees_all v l i = true.
Proof.
  revert i; induction l as [|t l IH]; intros i H; simpl; [reflexivity|].
  apply andb_true_iff. split.
  - specialize (H 0 t eq_refl). rewrite Nat.add_0_r in H. rewrite H. destruct (accessed t); reflexivity.
  - apply IH. intros j t' Hj. specialize (H (S j) t' Hj). rewrite Nat.add_succ_r in H. exact H.
Qed.

Section Suff.
Variables o_dec o_fence : mo.
Hypothesis Hside : side_ok o_dec o_fence = true.

Record Inv (n : nat) (s : st) : Prop := {
  i_len : length (ths s) = n;
  i_race : race s = false;
  i_hist : hist s <> [];
  i_cnt : mval (last_msg (hist s)) + cnt decd (ths s) = n;
  i_own : forall u t, nth_error (ths s) u = Some t -> cur (th t) (S u) = b2n (accessed t);
  i_bnd : forall u t v, nth_error (ths s) u = Some t -> cur (th t) (S v) <= 1 /\ acqv (th t) (S v) <= 1;
  i_mbnd : forall v, mview (last_msg (hist s)) (S v) <= 1;
  i_pub : forall u t, nth_error (ths s) u = Some t -> decd t = true -> mview (last_msg (hist s)) (S u) = 1;
  i_last : forall u t, nth_error (ths s) u = Some t -> pc t = T2L ->
           forall v tv, nth_error (ths s) v = Some tv -> v <> u ->
           decd tv = true /\ acqv (th t) (S v) = 1 /\ (is_acq o_dec = true -> cur (th t) (S v) = 1);
  i_fenced : forall u t, nth_error (ths s) u = Some t -> pc t = T3 \/ pc t = T4 ->
           forall v tv, nth_error (ths s) v = Some tv -> accessed tv = true /\ cur (th t) (S v) = 1;
  i_del : deleted s = cnt (fun t => match pc t with T4 => true | _ => false end) (ths s);
  i_one : cnt lastp (ths s) = match mval (last_msg (hist s)) with 0 => 1 | _ => 0 end
}.

Lemma repeat_nth {A} (x : A) n u t : nth_error (repeat x n) u = Some t -> t = x.
Proof. revert u; induction n as [|n IH]; intros [|u]; simpl; intros H; try discriminate; [congruence|eauto]. Qed.

Lemma cnt_repeat f x n : cnt f (repeat x n) = n * b2n (f x).
Proof. induction n as [|n IH]; simpl; [reflexivity|]. rewrite IH. reflexivity. Qed.

Lemma inv_init n : 0 < n -> Inv n (init n).
Proof.
  intros Hn. constructor; simpl.
  - apply repeat_length.
  - reflexivity.
  - discriminate.
  - rewrite cnt_repeat. simpl. lia.
  - intros u t H. apply repeat_nth in H. subst. reflexivity.
  - intros u t v H. apply repeat_nth in H. subst. simpl. unfold vbot. lia.
  - intros v. unfold vbot. lia.
  - intros u t H Hd. apply repeat_nth in H. subst. discriminate.
  - intros u t H Hp. apply repeat_nth in H. subst. discriminate.
  - intros u t H [Hp|Hp]; apply repeat_nth in H; subst; discriminate.
  - rewrite cnt_repeat. simpl. lia.
  - rewrite cnt_repeat. simpl. destruct n; [lia|]. simpl. lia.
Qed.

Lemma last_app_one {A} (l : list A) x d : last (l ++ [x]) d = x.
Proof. induction l as [|y l IH]; simpl; [reflexivity|]. destruct (l ++ [x]) eqn:E; [destruct l; discriminate|exact IH]. Qed.

Ltac views := unfold a_read, rmw_write, na_access, fence_acq, vjoin, vset, vbot in *; simpl in *.

(* what every step does to the thread list: replaces entry u *)
Lemma nth_cases {A} (l : list A) u x y j t :
  nth_error l u = Some y -> nth_error (upd l u x) j = Some t ->
  (j = u /\ t = x) \/ (j <> u /\ nth_error l j = Some t).
Proof.
  intros Hu Hj. destruct (Nat.eq_dec j u) as [->|Hne].
  - left. rewrite (nth_upd_eq _ _ _ _ Hu) in Hj. inversion Hj; auto.
  - right. rewrite nth_upd_ne in Hj by auto. auto.
Qed.

Ltac same F Hu Hp :=
  rewrite (cnt_upd_same F _ _ _ _ Hu) by (unfold decd, lastp; simpl; rewrite ?Hp; reflexivity).
Ltac inc F Hu Hp :=
  rewrite (cnt_upd_inc F _ _ _ _ Hu) by (unfold decd, lastp; simpl; rewrite ?Hp; reflexivity).

Theorem inv_step n s e s' : Inv n s -> step o_dec o_fence s e = Some s' -> Inv n s'.
Proof.
  assert (Hrel : is_rel o_dec = true /\ (is_acq o_dec = true \/ is_acq o_fence = true)).
  { unfold side_ok in Hside. apply andb_true_iff in Hside. destruct Hside as [A B].
    apply orb_true_iff in B. auto. }
  destruct Hrel as [Hrel Hacq].
  intros I H. destruct I as [Ilen Irace Ihist Icnt Iown Ibnd Imbnd Ipub Ilast Ifen Idel Ione].
  destruct e as [u|u|u|u]; simpl in H;
    destruct (nth_error (ths s) u) as [t|] eqn:Hu; try discriminate;
    destruct (pc t) eqn:Hp; try discriminate.
  - (* EAccess *)
    injection H as <-. simpl.
    pose proof (Iown _ _ Hu) as Ho. unfold accessed in Ho. rewrite Hp in Ho. simpl in Ho.
    constructor; simpl.
    + rewrite upd_length. exact Ilen.
    + rewrite Irace, Ho. reflexivity.
    + exact Ihist.
    + same decd Hu Hp. exact Icnt.
    + intros j tj Hj. destruct (nth_cases _ _ _ _ _ _ Hu Hj) as [[-> ->]|[Hne Hj']]; simpl.
      * rewrite Nat.eqb_refl. reflexivity.
      * apply Iown. exact Hj'.
    + intros j tj v Hj. destruct (nth_cases _ _ _ _ _ _ Hu Hj) as [[-> ->]|[Hne Hj']]; simpl.
      * destruct (Ibnd _ _ v Hu) as [B1 B2]. destruct (v =? u) eqn:E; simpl; rewrite ?E; lia.
      * apply (Ibnd _ _ v Hj').
    + exact Imbnd.
    + intros j tj Hj Hd. destruct (nth_cases _ _ _ _ _ _ Hu Hj) as [[-> ->]|[Hne Hj']]; [discriminate|eauto].
    + intros j tj Hj Hpj v tv Hv Hne.
      destruct (nth_cases _ _ _ _ _ _ Hu Hj) as [[-> ->]|[Hnej Hj']]; [discriminate|].
      destruct (nth_cases _ _ _ _ _ _ Hu Hv) as [[-> ->]|[Hnev Hv']].
      * destruct (Ilast _ _ Hj' Hpj _ _ Hu ltac:(auto)) as [D _]. unfold decd in D. rewrite Hp in D. discriminate.
      * apply (Ilast _ _ Hj' Hpj _ _ Hv' Hne).
    + intros j tj Hj Hpj v tv Hv.
      destruct (nth_cases _ _ _ _ _ _ Hu Hj) as [[-> ->]|[Hnej Hj']]; [destruct Hpj; discriminate|].
      destruct (Ifen _ _ Hj' Hpj _ _ Hu) as [A _]. unfold accessed in A. rewrite Hp in A. discriminate.
    + same (fun t => match pc t with T4 => true | _ => false end) Hu Hp. exact Idel.
    + same lastp Hu Hp. exact Ione.
  - (* EDec *)
    set (m := last_msg (hist s)) in *.
    destruct (mval m) as [|v] eqn:Ev; [discriminate|].
    unfold rmw_write in H. injection H as <-. simpl.
    pose proof (Iown _ _ Hu) as Ho. unfold accessed in Ho. rewrite Hp in Ho. simpl in Ho.
    match goal with |- Inv _ {| hist := _; ths := upd _ _ ?x; race := _; deleted := _ |} => set (t' := x) end.
    assert (Hd' : decd t' = true) by (unfold decd, t'; simpl; destruct v; reflexivity).
    assert (Hdt : decd t = false) by (unfold decd; rewrite Hp; reflexivity).
    constructor; cbn [hist ths race deleted].
    + rewrite upd_length. exact Ilen.
    + exact Irace.
    + intros Ha. apply app_eq_nil in Ha. destruct Ha; discriminate.
    + unfold last_msg. rewrite last_app_one. cbn [mval mview].
      rewrite (cnt_upd_inc decd _ _ _ _ Hu Hdt Hd'). lia.
    + intros j tj Hj. destruct (nth_cases _ _ _ _ _ _ Hu Hj) as [[-> ->]|[Hne Hj']].
      * unfold t'; simpl. views. destruct (Ibnd _ _ u Hu) as [B1 B2]. specialize (Imbnd u). fold m in Imbnd.
        unfold accessed; simpl. destruct (is_acq o_dec); destruct v; simpl; lia.
      * apply Iown. exact Hj'.
    + intros j tj w Hj. destruct (nth_cases _ _ _ _ _ _ Hu Hj) as [[-> ->]|[Hne Hj']].
      * unfold t'; simpl. views. destruct (Ibnd _ _ w Hu) as [B1 B2]. specialize (Imbnd w). fold m in Imbnd.
        destruct (is_acq o_dec); simpl; lia.
      * apply (Ibnd _ _ w Hj').
    + intros w. unfold last_msg. rewrite last_app_one. cbn [mval mview]. rewrite Hrel. views.
      destruct (Ibnd _ _ w Hu) as [B1 B2]. specialize (Imbnd w). fold m in Imbnd.
      destruct (is_acq o_dec); simpl; lia.
    + intros j tj Hj Hdj. unfold last_msg. rewrite last_app_one. cbn [mval mview]. rewrite Hrel. views.
      destruct (nth_cases _ _ _ _ _ _ Hu Hj) as [[-> ->]|[Hne Hj']].
      * destruct (Ibnd _ _ u Hu) as [B1 B2]. specialize (Imbnd u). fold m in Imbnd.
        destruct (is_acq o_dec); simpl; lia.
      * pose proof (Ipub _ _ Hj' Hdj) as Pj. fold m in Pj.
        destruct (Ibnd _ _ j Hu) as [B1 B2].
        destruct (is_acq o_dec); simpl; lia.
    + intros j tj Hj Hpj w tw Hw Hne.
      destruct (nth_cases _ _ _ _ _ _ Hu Hj) as [[-> ->]|[Hnej Hj']].
      * (* u itself just became the last one: everybody else has decremented *)
        unfold t' in Hpj; simpl in Hpj. destruct v as [|v']; [|discriminate].
        destruct (nth_cases _ _ _ _ _ _ Hu Hw) as [[-> _]|[Hnew Hw']]; [congruence|].
        assert (Hall : decd tw = true).
        { eapply (cnt_all_but decd (ths s) u t); eauto. rewrite Ilen. lia. }
        pose proof (Ipub _ _ Hw' Hall) as Pw. fold m in Pw.
        destruct (Ibnd _ _ w Hu) as [B1 B2].
        split; [exact Hall|]. unfold t'; simpl. views. split.
        -- lia.
        -- intros Ha. rewrite Ha. simpl. lia.
      * (* some other thread is in T2L: impossible, the value would be 0 *)
        exfalso.
        assert (1 <= cnt lastp (ths s)).
        { clear - Hj' Hpj. revert j Hj'. induction (ths s) as [|a l IH]; intros [|j] Hj'; simpl in *; try discriminate.
          - inversion Hj'; subst. unfold lastp. rewrite Hpj. simpl. lia.
          - specialize (IH _ Hj'). lia. }
        try (fold m in Ione); try (rewrite Ev in Ione); cbn iota in Ione. lia.
    + intros j tj Hj Hpj w tw Hw. exfalso.
      destruct (nth_cases _ _ _ _ _ _ Hu Hj) as [[-> ->]|[Hnej Hj']].
      * unfold t' in Hpj; simpl in Hpj. destruct v; destruct Hpj; discriminate.
      * assert (1 <= cnt lastp (ths s)).
        { clear - Hj' Hpj. revert j Hj'. induction (ths s) as [|a l IH]; intros [|j] Hj'; simpl in *; try discriminate.
          - inversion Hj'; subst. unfold lastp. destruct Hpj as [Hpj|Hpj]; rewrite Hpj; simpl; lia.
          - specialize (IH _ Hj'). lia. }
        try (fold m in Ione); try (rewrite Ev in Ione); cbn iota in Ione. lia.
    + rewrite (cnt_upd_same (fun t => match pc t with T4 => true | _ => false end) _ _ _ _ Hu) by (unfold t'; simpl; rewrite Hp; destruct v; reflexivity).
      exact Idel.
    + unfold last_msg. rewrite last_app_one. cbn [mval mview]. try (fold m in Ione); try (rewrite Ev in Ione); cbn iota in Ione.
      destruct v as [|v'].
      * rewrite (cnt_upd_inc lastp _ _ _ _ Hu) by (unfold lastp, t'; simpl; rewrite ?Hp; reflexivity). lia.
      * rewrite (cnt_upd_same lastp _ _ _ _ Hu) by (unfold lastp, t'; simpl; rewrite ?Hp; reflexivity). lia.
  - (* EFence *)
    injection H as <-. simpl.
    match goal with |- Inv _ {| hist := _; ths := upd _ _ ?x; race := _; deleted := _ |} => set (t' := x) end.
    pose proof (Iown _ _ Hu) as Ho. unfold accessed in Ho. rewrite Hp in Ho. simpl in Ho.
    constructor; cbn [hist ths race deleted].
    + rewrite upd_length. exact Ilen.
    + exact Irace.
    + exact Ihist.
    + same decd Hu Hp. exact Icnt.
    + intros j tj Hj. destruct (nth_cases _ _ _ _ _ _ Hu Hj) as [[-> ->]|[Hne Hj']].
      * unfold t', accessed; simpl. destruct (Ibnd _ _ u Hu) as [B1 B2].
        destruct (is_acq o_fence); views; lia.
      * apply Iown. exact Hj'.
    + intros j tj w Hj. destruct (nth_cases _ _ _ _ _ _ Hu Hj) as [[-> ->]|[Hne Hj']].
      * unfold t'; simpl. destruct (Ibnd _ _ w Hu) as [B1 B2]. destruct (is_acq o_fence); views; lia.
      * apply (Ibnd _ _ w Hj').
    + exact Imbnd.
    + intros j tj Hj Hdj. destruct (nth_cases _ _ _ _ _ _ Hu Hj) as [[-> ->]|[Hne Hj']].
      * apply (Ipub _ _ Hu). unfold decd. rewrite Hp. reflexivity.
      * eauto.
    + intros j tj Hj Hpj w tw Hw Hne.
      destruct (nth_cases _ _ _ _ _ _ Hu Hj) as [[-> ->]|[Hnej Hj']]; [discriminate|].
      exfalso. destruct (Ilast _ _ Hu Hp _ _ Hj' ltac:(auto)) as [_ _].
      (* two threads in T2L: contradicts i_one *)
      assert (2 <= cnt lastp (ths s)).
      { clear - Hu Hp Hj' Hpj Hnej. revert u j Hu Hj' Hnej.
        induction (ths s) as [|a l IH]; intros [|u] [|j] Hu Hj' Hne; simpl in *; try discriminate; try congruence.
        - inversion Hu; subst.
          assert (1 <= cnt lastp l).
          { clear - Hj' Hpj. revert j Hj'. induction l as [|a l IH]; intros [|j] Hj'; simpl in *; try discriminate.
            - inversion Hj'; subst. unfold lastp. rewrite Hpj. simpl. lia.
            - specialize (IH _ Hj'). lia. }
          unfold lastp at 1. rewrite Hp. simpl. lia.
        - inversion Hj'; subst.
          assert (1 <= cnt lastp l).
          { clear - Hu Hp. revert u Hu. induction l as [|a l IH]; intros [|u] Hu; simpl in *; try discriminate.
            - inversion Hu; subst. unfold lastp. rewrite Hp. simpl. lia.
            - specialize (IH _ Hu). lia. }
          unfold lastp at 1. rewrite Hpj. simpl. lia.
        - assert (j <> u) by congruence. specialize (IH _ _ Hu Hj' H). lia. }
      destruct (mval (last_msg (hist s))); lia.
    + intros j tj Hj Hpj w tw Hw.
      destruct (nth_cases _ _ _ _ _ _ Hu Hj) as [[-> ->]|[Hnej Hj']].
      * (* the fence makes everything acquired current *)
        destruct (nth_cases _ _ _ _ _ _ Hu Hw) as [[-> ->]|[Hnew Hw']].
        -- split; [reflexivity|]. unfold t'; simpl. destruct (Ibnd _ _ u Hu) as [B1 B2].
           destruct (is_acq o_fence); views; lia.
        -- destruct (Ilast _ _ Hu Hp _ _ Hw' Hnew) as (D & A & Cc).
           destruct (Ibnd _ _ w Hu) as [B1 B2].
           split.
           ++ unfold decd in D. unfold accessed. destruct (pc tw); try discriminate; reflexivity.
           ++ unfold t'; simpl. destruct (is_acq o_fence) eqn:Ef; views.
              ** lia.
              ** destruct Hacq as [Ha|Ha]; [apply Cc; exact Ha|congruence].
      * destruct (nth_cases _ _ _ _ _ _ Hu Hw) as [[-> ->]|[Hnew Hw']].
        -- destruct (Ifen _ _ Hj' Hpj _ _ Hu) as [A B]. split; [reflexivity|exact B].
        -- apply (Ifen _ _ Hj' Hpj _ _ Hw').
    + same (fun t => match pc t with T4 => true | _ => false end) Hu Hp. exact Idel.
    + same lastp Hu Hp. exact Ione.
  - (* EDelete *)
    injection H as <-. simpl.
    match goal with |- Inv _ {| hist := _; ths := upd _ _ ?x; race := _; deleted := _ |} => set (t' := x) end.
    assert (Hsee : sees_all (cur (th t)) (ths s) 0 = true).
    { apply sees_all_ok. intros j tj Hj. simpl.
      destruct (Ifen _ _ Hu (or_introl Hp) _ _ Hj) as [A B]. rewrite A, B. reflexivity. }
    constructor; cbn [hist ths race deleted].
    + rewrite upd_length. exact Ilen.
    + rewrite Irace, Hsee. reflexivity.
    + exact Ihist.
    + same decd Hu Hp. exact Icnt.
    + intros j tj Hj. destruct (nth_cases _ _ _ _ _ _ Hu Hj) as [[-> ->]|[Hne Hj']].
      * unfold t', accessed; simpl. pose proof (Iown _ _ Hu) as Ho. unfold accessed in Ho. rewrite Hp in Ho. exact Ho.
      * apply Iown. exact Hj'.
    + intros j tj w Hj. destruct (nth_cases _ _ _ _ _ _ Hu Hj) as [[-> ->]|[Hne Hj']].
      * apply (Ibnd _ _ w Hu).
      * apply (Ibnd _ _ w Hj').
    + exact Imbnd.
    + intros j tj Hj Hdj. destruct (nth_cases _ _ _ _ _ _ Hu Hj) as [[-> ->]|[Hne Hj']].
      * apply (Ipub _ _ Hu). unfold decd. rewrite Hp. reflexivity.
      * eauto.
    + intros j tj Hj Hpj w tw Hw Hne.
      destruct (nth_cases _ _ _ _ _ _ Hu Hj) as [[-> ->]|[Hnej Hj']]; [discriminate|].
      destruct (nth_cases _ _ _ _ _ _ Hu Hw) as [[-> ->]|[Hnew Hw']].
      * destruct (Ilast _ _ Hj' Hpj _ _ Hu Hne) as (D & A & Cc). split; [reflexivity|split; assumption].
      * apply (Ilast _ _ Hj' Hpj _ _ Hw' Hne).
    + intros j tj Hj Hpj w tw Hw.
      destruct (nth_cases _ _ _ _ _ _ Hu Hj) as [[-> ->]|[Hnej Hj']];
        destruct (nth_cases _ _ _ _ _ _ Hu Hw) as [[-> ->]|[Hnew Hw']].
      * destruct (Ifen _ _ Hu (or_introl Hp) _ _ Hu) as [A B]. split; [reflexivity|exact B].
      * apply (Ifen _ _ Hu (or_introl Hp) _ _ Hw').
      * destruct (Ifen _ _ Hj' Hpj _ _ Hu) as [A B]. split; [reflexivity|exact B].
      * apply (Ifen _ _ Hj' Hpj _ _ Hw').
    + inc (fun t => match pc t with T4 => true | _ => false end) Hu Hp. rewrite Idel. reflexivity.
    + same lastp Hu Hp. exact Ione.
Qed.

Theorem inv_run n tr : forall s s', Inv n s -> run o_dec o_fence s tr = Some s' -> Inv n s'.
Proof.
  induction tr as [|e tr IH]; simpl; intros s s' I H.
  - inversion H; subst; exact I.
  - destruct (step o_dec o_fence s e) as [s1|] eqn:E; [|discriminate]. eapply IH; [|exact H]. eapply inv_step; eauto.
Qed.

Theorem race_free n tr s : 0 < n -> run o_dec o_fence (init n) tr = Some s -> race s = false.
Proof. intros Hn H. exact (i_race _ _ (inv_run _ _ _ _ (inv_init n Hn) H)). Qed.

Theorem destroyed_at_most_once n tr s : 0 < n -> run o_dec o_fence (init n) tr = Some s -> deleted s <= 1.
Proof.
  intros Hn H. pose proof (inv_run _ _ _ _ (inv_init n Hn) H) as I.
  rewrite (i_del _ _ I). pose proof (i_one _ _ I) as Ho.
  assert (cnt (fun t => match pc t with T4 => true | _ => false end) (ths s) <= cnt lastp (ths s)).
  { clear. induction (ths s) as [|a l IH]; simpl; [lia|]. unfold lastp at 1. destruct (pc a); simpl; lia. }
  destruct (mval (last_msg (hist s))); lia.
Qed.

End Suff.

(* ---- necessity ---- *)
Definition racy (od ofe : mo) (n : nat) (tr : list ev) : bool :=
  match run od ofe (init n) tr with Some s => race s | None => false end.

Lemma dec_release_needed :
  racy Rlx Acq 2 [EAccess 0; EAccess 1; EDec 0; EDec 1; EFence 1; EDelete 1] = true.
Proof. vm_compute. reflexivity. Qed.
Lemma acquire_needed :
  racy Rel Rlx 2 [EAccess 0; EAccess 1; EDec 0; EDec 1; EFence 1; EDelete 1] = true.
Proof. vm_compute. reflexivity. Qed.
Lemma shipped_ok_on_witness :
  racy Rel Acq 2 [EAccess 0; EAccess 1; EDec 0; EDec 1; EFence 1; EDelete 1] = false.
Proof. vm_compute. reflexivity. Qed.
