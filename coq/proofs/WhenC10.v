(* Proofs of the C10 statements (props/Properties_C10.v) from the invariant and its consequences. *)
From Coq Require Import List Arith Bool NArith.
Import ListNotations.
From YV Require Import model.When proofs.WhenProofs proofs.WhenProofs2 proofs.WhenProofs3 proofs.WhenProofs4
  proofs.WhenProofs5 proofs.WhenInv proofs.WhenTheorems.

Definition any_like (g : strat) : Prop := g = SAnyNone \/ g = SAnyFF \/ g = SAnyLF.

Lemma reach_any g k tr s : k > 0 -> fits g k -> run (init g k) tr = Some s -> Inv s /\ IP s /\ sg s = g /\ n s = k.
Proof. intros Hk Hf H. apply reach_inv; auto. exists tr. exact H. Qed.

Lemma p10_once :
  forall g k tr s, k > 0 -> any_like g -> fits g k -> run (init g k) tr = Some s ->
  length (outs s) <= 1 /\ (terminal s = true -> length (outs s) = 1) /\ crashed s = false.
Proof. intros g k tr s Hk Hg Hf H. destruct (reach_any g k tr s Hk Hf H) as (V & P & _). exact (once s V P). Qed.

Lemma p10_none :
  forall k tr s o, k > 0 -> run (init SAnyNone k) tr = Some s -> outs s = [o] ->
  odtor o = false /\
  exists x, nth_error (ins s) (oby o) = Some x /\ oval o = OOne (ires x) /\ hd_error (elog s) = Some (oby o).
Proof.
  intros k tr s o Hk H Ho. destruct (reach_any SAnyNone k tr s Hk Logic.I H) as (V & P & Esg & _).
  destruct (odtor o) eqn:Hd.
  - exfalso. pose proof (dtor_content _ _ V P Ho Hd) as C. rewrite Esg in C. exact C.
  - split; auto. destruct (set_in_consume _ _ V Ho Hd) as (x & _ & Hx & Hv & _ & C). rewrite Esg in C. eauto.
Qed.

Lemma p10_none_real_time :
  forall k tr s i s', k > 0 -> run (init SAnyNone k) tr = Some s -> step s (EXchgDone i false) = Some s' ->
  win s = None /\ outs s = [] /\ forall j x, nth_error (ins s) j = Some x -> pre_el (ipc x) = true.
Proof.
  intros k tr s i s' Hk H Hs. destruct (reach_any SAnyNone k tr s Hk Logic.I H) as (V & P & Esg & _).
  destruct (election_first _ _ _ V Hs eq_refl) as (Hw & Ho & Hall). repeat split; auto.
  intros j x Hx. apply (Hall j x Hx). unfold participant. rewrite Esg. reflexivity.
Qed.

Lemma p10_firstfail :
  forall k tr s o, k > 0 -> run (init SAnyFF k) tr = Some s -> outs s = [o] ->
  (odtor o = false ->
     exists x, nth_error (ins s) (oby o) = Some x /\ ovalue (ires x) = true /\ oval o = OOne (ires x) /\
               find (val_at s) (elog s) = Some (oby o)) /\
  (odtor o = true ->
     (forall j x, nth_error (ins s) j = Some x -> ofailing (ires x) = true) /\
     (forall j x, nth_error (ins s) j = Some x -> ipc x = PFin) /\
     exists f y, nth_error (ins s) f = Some y /\ oval o = OOne (ires y) /\ ofailing (ires y) = true /\
                 hd_error (elog s) = Some f) /\
  (forall j x, nth_error (ins s) j = Some x -> ovalue (ires x) = true -> odtor o = false).
Proof.
  intros k tr s o Hk H Ho. destruct (reach_any SAnyFF k tr s Hk Logic.I H) as (V & P & Esg & _).
  assert (A : odtor o = true ->
     (forall j x, nth_error (ins s) j = Some x -> ofailing (ires x) = true) /\
     (forall j x, nth_error (ins s) j = Some x -> ipc x = PFin) /\
     exists f y, nth_error (ins s) f = Some y /\ oval o = OOne (ires y) /\ ofailing (ires y) = true /\
                 hd_error (elog s) = Some f).
  { intros Hd. pose proof (dtor_content _ _ V P Ho Hd) as C. rewrite Esg in C.
    destruct C as (f & y & Hy & Hv & Hf & Hh & Hall).
    destruct (set_by_destructor _ _ V Ho Hd) as (_ & _ & _ & _ & Hfin). repeat split; eauto 10. }
  split; [|split; [exact A|]].
  - intros Hd. destruct (set_in_consume _ _ V Ho Hd) as (x & _ & Hx & Hv & _ & C). rewrite Esg in C.
    exists x. tauto.
  - intros j x Hx Hv. destruct (odtor o) eqn:Hd; auto. destruct (A eq_refl) as (Hall & _).
    specialize (Hall _ _ Hx). destruct (ires x) as [[]|]; simpl in *; congruence.
Qed.

Lemma p10_firstfail_real_time :
  forall k tr s i old s', k > 0 -> run (init SAnyFF k) tr = Some s ->
  step s (EXchgState i old) = Some s' -> N.eqb old 2 = false ->
  win s = None /\ outs s = [] /\
  forall j x, nth_error (ins s) j = Some x -> ovalue (ires x) = true -> pre_el (ipc x) = true.
Proof.
  intros k tr s i old s' Hk H Hs Ho. destruct (reach_any SAnyFF k tr s Hk Logic.I H) as (V & P & Esg & _).
  assert (He : elects s (EXchgState i old) = true) by (simpl; rewrite Esg, Ho; reflexivity).
  exact (election_first _ _ _ V Hs He).
Qed.

Lemma p10_lastfail :
  forall k tr s o, k > 0 -> fits SAnyLF k -> run (init SAnyLF k) tr = Some s -> outs s = [o] ->
  odtor o = false /\
  exists x, nth_error (ins s) (oby o) = Some x /\ oval o = OOne (ires x) /\
    ((ovalue (ires x) = true /\ find (val_at s) (elog s) = Some (oby o)) \/
     (ofailing (ires x) = true /\ state s = 0%N /\ (exists rest, elog s = rest ++ [oby o]) /\
      forall j y, nth_error (ins s) j = Some y -> ofailing (ires y) = true)).
Proof.
  intros k tr s o Hk Hf H Ho. destruct (reach_any SAnyLF k tr s Hk Hf H) as (V & P & Esg & _).
  destruct (odtor o) eqn:Hd.
  - exfalso. pose proof (dtor_content _ _ V P Ho Hd) as C. rewrite Esg in C. exact C.
  - split; auto. destruct (set_in_consume _ _ V Ho Hd) as (x & _ & Hx & Hv & _ & C). rewrite Esg in C. eauto.
Qed.

Lemma p10_lastfail_value_wins :
  forall k tr s o, k > 0 -> fits SAnyLF k -> run (init SAnyLF k) tr = Some s -> outs s = [o] ->
  forall j y, nth_error (ins s) j = Some y -> ovalue (ires y) = true ->
  exists x, nth_error (ins s) (oby o) = Some x /\ ovalue (ires x) = true /\ oval o = OOne (ires x).
Proof.
  intros k tr s o Hk Hf H Ho j y Hy Hv.
  destruct (p10_lastfail k tr s o Hk Hf H Ho) as (_ & x & Hx & Hval & [(Hvx & _)|(_ & _ & _ & Hall)]); eauto.
  specialize (Hall _ _ Hy). destruct (ires y) as [[]|]; simpl in *; congruence.
Qed.

Lemma p10_lastfail_arith :
  forall k tr s, k > 0 -> fits SAnyLF k -> run (init SAnyLF k) tr = Some s ->
  N.odd (state s) = false -> state s = N.of_nat (2 * (n s - nsub s)).
Proof.
  intros k tr s Hk Hf H He. destruct (reach_any SAnyLF k tr s Hk Hf H) as (V & P & Esg & _).
  pose proof (vf _ V) as F. unfold fam in F. rewrite Esg in F. destruct (a_even _ F He) as (B1 & _). exact B1.
Qed.

Lemma p10_lastfail_real_time :
  forall k tr s e s', k > 0 -> fits SAnyLF k -> run (init SAnyLF k) tr = Some s -> step s e = Some s' ->
  elects s e = true ->
  win s = None /\ outs s = [] /\
  match e with
  | EXchgState i _ => forall j x, nth_error (ins s) j = Some x -> ovalue (ires x) = true -> pre_el (ipc x) = true
  | ESubState i _ => forall j x, nth_error (ins s) j = Some x -> j <> i -> subbed x = true
  | _ => True
  end.
Proof.
  intros k tr s e s' Hk Hf H Hs He. destruct (reach_any SAnyLF k tr s Hk Hf H) as (V & P & Esg & _).
  destruct (election_first _ _ _ V Hs He) as (Hw & Ho & C). repeat split; auto.
  destruct e; auto.
Qed.

Lemma p10_later_no_effect :
  forall g k tr s o tr' s', k > 0 -> any_like g -> fits g k -> run (init g k) tr = Some s -> outs s = [o] ->
  run s tr' = Some s' -> outs s' = [o].
Proof.
  intros g k tr s o tr' s' Hk Hg Hf H Ho H'. destruct (reach_any g k tr s Hk Hf H) as (V & _).
  exact (later_no_effect s tr' s' o V Ho H').
Qed.

Lemma p10_complete_is_final :
  forall g k tr s e, k > 0 -> any_like g -> fits g k -> run (init g k) tr = Some s -> terminal s = true ->
  step s e = None.
Proof.
  intros g k tr s e Hk Hg Hf H Ht. destruct (reach_any g k tr s Hk Hf H) as (V & _).
  apply dead; auto. unfold terminal in Ht. repeat (apply andb_true_iff in Ht; destruct Ht as (Ht & ?)).
  apply Nat.eqb_eq. assumption.
Qed.

Lemma p10_inputs_released :
  forall g k tr s, k > 0 -> any_like g -> fits g k -> run (init g k) tr = Some s ->
  forall j x, nth_error (ins s) j = Some x ->
  ifree x <= 1 /\ icons x <= 1 /\ (terminal s = true -> ifree x = 1 /\ icons x = 1).
Proof. intros g k tr s Hk Hg Hf H. destruct (reach_any g k tr s Hk Hf H) as (V & _). exact (released s V). Qed.

Lemma p10_never_lost :
  forall g k tr s, k > 0 -> any_like g -> fits g k -> run (init g k) tr = Some s ->
  nreg s = n s ->
  (forall j x, nth_error (ins s) j = Some x -> iw x = WR /\ (ipc x = PIdle \/ ipc x = PFin)) ->
  terminal s = true.
Proof. intros g k tr s Hk Hg Hf H. destruct (reach_any g k tr s Hk Hf H) as (V & _). exact (no_stuck s V). Qed.
