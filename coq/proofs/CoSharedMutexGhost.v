(* CoSharedMutex: every request is granted exactly once — the bookkeeping invariant over the ghost counters
   (req, got) and the ghost log [grants]. *)
From Coq Require Import List Arith Bool ZArith Lia.
Import ListNotations.
From YV Require Import model.CoSharedMutex proofs.CoSharedMutexLemmas proofs.CoSharedMutexInv.

(* entered + (1 if a request is outstanding) = requested *)
Definition gmeas (x : co) : Prop := got x + pend_w (pc x) = req x.
Definition gotn (s : st) (c : nat) : nat := nth c (map got (cos s)) 0.

Record invg (s : st) : Prop := {
  g_bal : Forall gmeas (cos s);
  g_grants : forall c r, In (c, r) (grants s) <-> 1 <= r <= gotn s c;
  g_nodup : NoDup (grants s);
  g_len : length (grants s) = length (entered s)
}.

Lemma Forall_set_nth : forall A (P : A -> Prop) l c v, Forall P l -> P v -> Forall P (set_nth c v l).
Proof.
  induction l; destruct c; simpl; intros; auto; inversion H; subst; constructor; auto.
Qed.
Lemma Forall_nth_error : forall A (P : A -> Prop) l c x, Forall P l -> nth_error l c = Some x -> P x.
Proof. intros. rewrite Forall_forall in H. apply H. eapply nth_error_In; eauto. Qed.
Lemma map_got_set_nth : forall l c x v,
  nth_error l c = Some x -> got v = got x -> map got (set_nth c v l) = map got l.
Proof.
  induction l; destruct c; simpl; intros; try discriminate; auto.
  - inversion H; subst. congruence.
  - f_equal. eauto.
Qed.
Lemma nth_map_got : forall l c x, nth_error l c = Some x -> nth c (map got l) 0 = got x.
Proof. induction l; destruct c; simpl; intros; try discriminate; auto. inversion H; auto. Qed.
Lemma nth_map_got_set : forall l c x v n,
  nth_error l c = Some x -> nth n (map got (set_nth c v l)) 0 = if Nat.eq_dec n c then got v else nth n (map got l) 0.
Proof.
  induction l; destruct c; simpl; intros; try discriminate.
  - destruct n; simpl; auto.
  - destruct n; simpl; auto. rewrite (IHl c x v n H). destruct (Nat.eq_dec n c), (Nat.eq_dec (S n) (S c)); auto; lia.
Qed.

Lemma invg_init : forall f rf n, invg (init f rf n).
Proof.
  intros. constructor; simpl.
  - apply Forall_forall. intros x Hx. apply repeat_spec in Hx. subst. reflexivity.
  - intros c r. split; [tauto|]. unfold gotn. simpl. intros [H1 H2].
    assert (nth c (map got (repeat init_co n)) 0 = 0).
    { clear. revert c. induction n; destruct c; simpl; auto. }
    lia.
  - constructor.
  - reflexivity.
Qed.

(* an event other than EEnter leaves got / grants / entered alone and keeps the balance of the coroutine(s) it moves *)
Ltac ghost_bal :=
  match goal with
  | G : nth_error (cos ?s) ?c = Some ?x, P : pc ?x = _, B : Forall gmeas (cos ?s) |- gmeas _ =>
      let M := fresh "M" in
      pose proof (Forall_nth_error _ gmeas (cos s) c x B G) as M; unfold gmeas in *; rewrite P in M;
      cbn [pc req got upd_pc inc_req inc_got pend_w] in *; try lia
  end.

Ltac ghost_one s J :=
  destruct J as [B Gr Nd Ln];
  constructor;
  cbn [cos grants entered set_co set_mx set_sr set_sw set_rwait add_try add_entered];
  [ apply Forall_set_nth; [exact B | ghost_bal]
  | intros c' r'; unfold gotn in *;
    cbn [cos grants entered set_co set_mx set_sr set_sw set_rwait add_try add_entered];
    match goal with G : nth_error (cos s) ?c = Some ?x |- _ =>
      rewrite (map_got_set_nth (cos s) c x _ G) by reflexivity end; apply Gr
  | exact Nd | exact Ln ].

Lemma invg_step1 : forall s e s', invg s -> step s e = Some s' ->
  match e with EEnter _ | EUSRun _ _ | EUWStore _ _ | EUWRun _ _ => False | _ => True end -> invg s'.
Proof.
  intros s e s' J H Q. destruct e; try contradiction; clear Q;
    unfold step, get, wfail, run_writer, pass_readers in H; case_hyp H;
    repeat match goal with H : Some _ = Some _ |- _ => injection H as <- end;
    repeat match goal with
    | |- context [match ?k with TTry => _ | TLock => _ end] => destruct k
    | |- context [if ?b then _ else _] => let E := fresh "E" in destruct b eqn:E
    end;
    ghost_one s J.
Qed.

(* events that move two coroutines *)
Ltac ghost_two s J :=
  destruct J as [B Gr Nd Ln];
  match goal with
  | G : nth_error (cos s) ?c = Some ?x, P : pc ?x = _,
    G1 : nth_error (cos (set_co ?c ?v _)) ?n = Some ?y, P1 : pc ?y = _ |- _ =>
      cbn [cos set_co set_mx] in G1;
      assert (B1 : Forall gmeas (set_nth c v (cos s))) by (apply Forall_set_nth; [exact B | ghost_bal]);
      constructor;
      cbn [cos grants entered set_co set_mx set_sr set_sw set_rwait add_try add_entered];
      [ apply Forall_set_nth; [exact B1|];
        let M := fresh "M" in
        pose proof (Forall_nth_error _ gmeas _ n y B1 G1) as M; unfold gmeas in *; rewrite P1 in M;
        cbn [pc req got upd_pc inc_req inc_got pend_w] in *; lia
      | intros c' r'; unfold gotn in *;
        cbn [cos grants entered set_co set_mx set_sr set_sw set_rwait add_try add_entered];
        rewrite (map_got_set_nth (set_nth c v (cos s)) n y _ G1) by reflexivity;
        rewrite (map_got_set_nth (cos s) c x _ G) by reflexivity; apply Gr
      | exact Nd | exact Ln ]
  end.

Lemma invg_step2 : forall s e s', invg s -> step s e = Some s' ->
  match e with EUSRun _ _ | EUWStore _ _ | EUWRun _ _ => True | _ => False end -> invg s'.
Proof.
  intros s e s' J H Q. destruct e; try contradiction; clear Q;
    unfold step, get in H; case_hyp H;
    repeat match goal with H : Some _ = Some _ |- _ => injection H as <- end;
    repeat match goal with
    | |- context [if ?b then _ else _] => let E := fresh "E" in destruct b eqn:E
    end;
    ghost_two s J.
Qed.

Lemma NoDup_snoc : forall A (l : list A) a, NoDup l -> ~ In a l -> NoDup (l ++ [a]).
Proof.
  induction l; simpl; intros.
  - constructor; auto.
  - inversion H; subst. constructor.
    + rewrite in_app_iff. simpl. intros [?|[?|[]]]; [auto | subst; apply H0; auto].
    + apply IHl; auto.
Qed.

Lemma invg_enter : forall s c s', invg s -> step s (EEnter c) = Some s' -> invg s'.
Proof.
  intros s c s' J H. unfold step, get in H. case_hyp H. injection H as <-.
  destruct J as [B Gr Nd Ln].
  pose proof (Forall_nth_error _ gmeas (cos s) c c0 B E) as M. unfold gmeas in M. rewrite E0 in M. simpl in M.
  assert (Gc : gotn s c = got c0) by (unfold gotn; apply nth_map_got; auto).
  constructor; cbn [cos grants entered set_co add_entered].
  - apply Forall_set_nth; auto. unfold gmeas. simpl. lia.
  - intros c' r'. unfold gotn in *. cbn [cos set_co add_entered].
    rewrite (nth_map_got_set (cos s) c c0 _ c' E). simpl. rewrite in_app_iff. simpl.
    specialize (Gr c' r'). destruct (Nat.eq_dec c' c).
    + subst c'. rewrite Gc in Gr. split.
      * intros [H|[H|[]]]; [apply Gr in H; lia | inversion H; lia].
      * intros Hr. destruct (Nat.eq_dec r' (S (got c0))).
        -- right; left. f_equal. lia.
        -- left. apply Gr. lia.
    + split.
      * intros [H|[H|[]]]; [apply Gr; auto | inversion H; congruence].
      * intros Hr. left. apply Gr; auto.
  - apply NoDup_snoc; auto. intros Hin. apply Gr in Hin. lia.
  - rewrite !app_length. simpl. lia.
Qed.

Lemma invg_step : forall s e s', invg s -> step s e = Some s' -> invg s'.
Proof.
  intros s e s' J H. destruct e; try (eapply invg_step1; eauto; exact I); try (eapply invg_step2; eauto; exact I).
  eapply invg_enter; eauto.
Qed.

Lemma invg_run : forall tr s s', invg s -> run s tr = Some s' -> invg s'.
Proof.
  induction tr; simpl; intros s s' J H.
  - inversion H; subst; auto.
  - destruct (step s a) eqn:E; try discriminate. eapply IHtr; [|eauto]. eapply invg_step; eauto.
Qed.

Lemma invg_reach : forall f rf n tr s, run (init f rf n) tr = Some s -> invg s.
Proof. intros. eapply invg_run; [apply invg_init | eauto]. Qed.
