(* Invariants of the When transition system (coq/model/When.v) and the facts the C09 / C10 theorems are made of.
   Everything is proved for every event sequence (schedule), every number of inputs and every result pattern.

   Layers:  I1 hand-off / reference counter / destructor uniqueness
            I2 release accounting and the contents gathered by the destructor
            IE the election of the unique setter of the output promise, per family of strategies *)
From Coq Require Import List Arith Bool NArith Lia.
Import ListNotations.
From YV Require Import model.When.

(* ---------------------------------------------------------------------------------------------- lists *)

Lemma upd_length {A} i (f : A -> A) l : length (upd i f l) = length l.
Proof. revert i; induction l as [|x l IH]; intros [|i]; simpl; auto. Qed.

Lemma nth_upd_eq {A} i (f : A -> A) l x : nth_error l i = Some x -> nth_error (upd i f l) i = Some (f x).
Proof. revert i; induction l as [|y l IH]; intros [|i]; simpl; try discriminate; auto. congruence. Qed.

Lemma nth_upd_neq {A} i j (f : A -> A) l : j <> i -> nth_error (upd i f l) j = nth_error l j.
Proof.
  revert i j; induction l as [|y l IH]; intros [|i] [|j] H; simpl; auto; try congruence.
Qed.

Lemma nth_upd {A} i j (f : A -> A) l :
  nth_error (upd i f l) j = if Nat.eqb j i then option_map f (nth_error l i) else nth_error l j.
Proof.
  destruct (Nat.eqb_spec j i) as [->|H].
  - destruct (nth_error l i) eqn:E; simpl.
    + apply nth_upd_eq; auto.
    + apply nth_error_None in E. apply nth_error_None. rewrite upd_length. auto.
  - apply nth_upd_neq; auto.
Qed.

Lemma nth_lt {A} (l : list A) i x : nth_error l i = Some x -> i < length l.
Proof. intros H. apply nth_error_Some. congruence. Qed.

Definition cnt {A} (p : A -> bool) (l : list A) : nat := length (filter p l).

Lemma cnt_le {A} (p : A -> bool) l : cnt p l <= length l.
Proof. unfold cnt. induction l; simpl; auto. destruct (p a); simpl; lia. Qed.

Lemma cnt_upd {A} (p : A -> bool) i (f : A -> A) l x :
  nth_error l i = Some x ->
  cnt p (upd i f l) + (if p x then 1 else 0) = cnt p l + (if p (f x) then 1 else 0).
Proof.
  unfold cnt. revert i; induction l as [|y l IH]; intros [|i] H; simpl in *; try discriminate.
  - inversion H; subst. destruct (p x), (p (f x)); simpl; lia.
  - specialize (IH _ H). destruct (p y); simpl; lia.
Qed.

Lemma cnt_lt {A} (p : A -> bool) l i x : nth_error l i = Some x -> p x = false -> cnt p l < length l.
Proof.
  unfold cnt. revert i; induction l as [|y l IH]; intros [|i] H Hp; simpl in *; try discriminate.
  - inversion H; subst. rewrite Hp. pose proof (cnt_le p l). unfold cnt in *. lia.
  - specialize (IH _ H Hp). destruct (p y); simpl; lia.
Qed.

Lemma cnt_all {A} (p : A -> bool) l : cnt p l = length l -> forall i x, nth_error l i = Some x -> p x = true.
Proof.
  intros H i x Hx. destruct (p x) eqn:E; auto. pose proof (cnt_lt p l i x Hx E). lia.
Qed.

Lemma cnt_zero {A} (p : A -> bool) l : (forall i x, nth_error l i = Some x -> p x = false) -> cnt p l = 0.
Proof.
  unfold cnt. induction l as [|y l IH]; intros H; simpl; auto.
  rewrite (H 0 y eq_refl). apply IH. intros i x Hx. apply (H (S i) x Hx).
Qed.

Lemma nth_repeat {A} (a : A) k i x : nth_error (repeat a k) i = Some x -> x = a.
Proof. revert i; induction k; intros [|i]; simpl; try discriminate; try congruence. apply IHk. Qed.

Lemma forallb_nth {A} (p : A -> bool) l : forallb p l = true <-> (forall i x, nth_error l i = Some x -> p x = true).
Proof.
  induction l as [|y l IH]; simpl.
  - split; auto. intros _ [|i] x; discriminate.
  - rewrite andb_true_iff, IH. split.
    + intros [Hy Hl] [|i] x Hx; simpl in Hx; [congruence|eauto].
    + intros H. split; [apply (H 0 y eq_refl)|intros i x Hx; apply (H (S i) x Hx)].
Qed.

Lemma list_ext {A} (l1 l2 : list A) :
  length l1 = length l2 -> (forall i, i < length l1 -> nth_error l1 i = nth_error l2 i) -> l1 = l2.
Proof.
  revert l2; induction l1 as [|a l1 IH]; intros [|b l2] Hl H; simpl in *; try discriminate; auto.
  f_equal.
  - specialize (H 0 ltac:(lia)). simpl in H. congruence.
  - apply IH; [lia|]. intros i Hi. apply (H (S i)). lia.
Qed.

Lemma firstn_snoc {A} (l : list A) k x : nth_error l k = Some x -> firstn (S k) l = firstn k l ++ [x].
Proof.
  revert k; induction l as [|y l IH]; intros [|k] H; simpl in *; try discriminate.
  - congruence.
  - f_equal. auto.
Qed.

Lemma firstn_upd_ge {A} (l : list A) k i f : k <= i -> firstn k (upd i f l) = firstn k l.
Proof.
  revert k i; induction l as [|y l IH]; intros [|k] [|i] H; simpl; auto; try lia.
  f_equal. apply IH. lia.
Qed.

Lemma map_upd_same {A B} (g : A -> B) (l : list A) i f :
  (forall x, nth_error l i = Some x -> g (f x) = g x) -> map g (upd i f l) = map g l.
Proof.
  revert i; induction l as [|y l IH]; intros [|i] H; simpl; auto.
  - f_equal. apply H. reflexivity.
  - f_equal. apply IH. exact H.
Qed.

(* ---------------------------------------------------------------------------------------------- layer 1 *)

Definition pre_el (p : pc) : bool := match p with PIdle | PCons | PStrat | PRmw => true | _ => false end.
Definition ended (p : pc) : bool := match p with PDtor _ | PPub | PFin => true | _ => false end.
Definition in_dtor (p : pc) : bool := match p with PDtor _ | PPub => true | _ => false end.
Definition begun (p : pc) : bool := match p with PIdle => false | _ => true end.
Definition xended (x : inp) : bool := ended (ipc x).
Definition has_election (g : strat) : bool :=
  match g with SAllNone | STupNone | SJoinNone => false | _ => true end.

(* per-input facts, as a function of the global fields they depend on *)
Record loc1 (g : strat) (nr nn dp del : nat) (d : option nat) (j : nat) (x : inp) : Prop := {
  l_none : ires x = None -> iw x <> WR;
  l_begun : ipc x <> PIdle -> iw x = WR /\ j < nr /\ ires x <> None;
  l_wc : iw x = WC -> j < nr;
  l_reg : j < nr -> iw x <> WE;
  l_lost : j < nr -> iw x = WR -> ipc x <> PIdle;
  l_cons : icons x = if begun (ipc x) then 1 else 0;
  l_pcons : ipc x = PCons -> owned g = false;
  l_pel : ipc x = PStrat \/ ipc x = PRmw \/ ipc x = PSet ->
          has_election g = true /\ (is_ff g = true -> ofailing (ires x) = true);
  l_pdtor : in_dtor (ipc x) = true -> d = Some j;
  l_pdk : forall k, ipc x = PDtor k -> owned g = true /\ k < nn /\ dp = k;
  l_ppub : ipc x = PPub -> owned g = true -> dp = nn;
  l_dt : d = Some j ->
         ended (ipc x) = true /\ del = (if pc_fin (ipc x) then 1 else 0) /\
         (pc_fin (ipc x) = true -> owned g = true -> dp = nn)
}.

Definition L1 (s : st) := loc1 (sg s) (nreg s) (n s) (dprog s) (deleted s) (dt s).

Record I1 (s : st) : Prop := {
  i_len : length (ins s) = n s;
  i_nreg : nreg s <= n s;
  i_loc : forall j x, nth_error (ins s) j = Some x -> L1 s j x;
  i_count : count s + cnt xended (ins s) = n s;
  i_dt_none : dt s = None -> deleted s = 0 /\ dprog s = 0 /\ (n s > 0 -> count s > 0);
  i_dt_some : forall d, dt s = Some d -> count s = 0 /\ d < n s
}.

Lemma cnt_xended_upd i f l x :
  nth_error l i = Some x ->
  cnt xended (upd i f l) + (if ended (ipc x) then 1 else 0) = cnt xended l + (if ended (ipc (f x)) then 1 else 0).
Proof. intros H. exact (cnt_upd xended i f l x H). Qed.

Lemma I1_init g k : I1 (init g k).
Proof.
  constructor; simpl.
  - apply repeat_length.
  - lia.
  - intros j x H. apply nth_repeat in H. subst. constructor; simpl; intros;
      repeat match goal with H : _ \/ _ |- _ => destruct H end; try congruence; try discriminate; try lia.
  - rewrite cnt_zero; [lia|]. intros i x H. apply nth_repeat in H. subst. reflexivity.
  - intros _. repeat split; auto.
  - discriminate.
Qed.

Lemma loc1_idle_w g nr nn dp del d j x : loc1 g nr nn dp del d j x -> iw x <> WR -> ipc x = PIdle.
Proof. intros L H. destruct (ipc x) eqn:E; auto; exfalso; apply H; apply (l_begun _ _ _ _ _ _ _ _ L); congruence. Qed.

Lemma loc1_idle_reg g nr nn dp del d j x : loc1 g nr nn dp del d j x -> ~ j < nr -> ipc x = PIdle.
Proof. intros L H. destruct (ipc x) eqn:E; auto; exfalso; apply H; apply (l_begun _ _ _ _ _ _ _ _ L); congruence. Qed.

(* the pc at which a consume step starts / continues after the input was retired *)
Lemma strat_entry_cases g r :
  strat_entry g r = PDec \/
  (strat_entry g r = PStrat /\ has_election g = true /\ (is_ff g = true -> ofailing r = true)).
Proof. destruct g; simpl; auto; destruct (ofailing r); auto. Qed.

Lemma begin_pc_cases g r :
  let p := if owned g then strat_entry g r else PCons in
  (p = PCons /\ owned g = false) \/ (p = PDec /\ owned g = true) \/
  (p = PStrat /\ owned g = true /\ has_election g = true /\ (is_ff g = true -> ofailing r = true)).
Proof.
  simpl. destruct (owned g) eqn:E; auto. right.
  destruct (strat_entry_cases g r) as [H|(H & H1 & H2)]; rewrite H; auto.
Qed.

Lemma word_eqb_eq a b : word_eqb a b = true -> a = b.
Proof. destruct a, b; simpl; congruence. Qed.

Ltac inv H := inversion H; subst; clear H.

(* case analysis on every match/if in the step equation H *)
Ltac case_step H :=
  repeat match type of H with
         | context [match ?x with _ => _ end] => destruct x eqn:?; simpl in H; try discriminate H
         | context [if ?x then _ else _] => destruct x eqn:?; simpl in H; try discriminate H
         end.

(* ---- tactics ------------------------------------------------------------------------------------ *)

Ltac solve_prem :=
  match goal with
  | |- @eq nat _ _ => solve [reflexivity | assumption | lia]
  | |- _ = _ => solve [reflexivity | assumption | symmetry; assumption]
  | |- _ <> _ => solve [discriminate | congruence | lia]
  | |- _ < _ => lia
  | |- _ <= _ => lia
  | |- _ > _ => lia
  | |- _ \/ _ => solve [auto]
  | |- _ => assumption
  end.

Ltac saturate :=
  repeat match goal with
         | H : forall k0, PDtor ?k = PDtor k0 -> _ |- _ => specialize (H k eq_refl)
         | H : ?A -> _ |- _ =>
             match type of A with
             | Prop => let h := fresh in assert (h : A) by solve_prem; specialize (H h); clear h
             end
         | H : _ /\ _ |- _ => destruct H
         end.

Ltac fin :=
  simpl in *; try discriminate; try congruence; try lia; try tauto; eauto.

Ltac split_hyps :=
  repeat match goal with
         | H : _ \/ _ |- _ => destruct H
         | H : _ /\ _ |- _ => destruct H
         end.

Ltac rew_fields :=
  repeat match goal with
         | H : ires ?x = _ |- _ => rewrite H in *
         | H : iw ?x = _ |- _ => rewrite H in *
         | H : ipc ?x = _ |- _ => rewrite H in *
         | H : sg ?s = _ |- _ => rewrite H in *
         end.

Ltac loc_tac L :=
  destruct L; rew_fields; simpl in *; saturate;
  constructor; simpl; intros; rew_fields; simpl in *; split_hyps; saturate; rew_fields; simpl in *;
  try discriminate; try congruence; try lia; repeat split; fin.

Ltac case_ifs :=
  repeat match goal with
         | H : context [if ?b then _ else _] |- _ => destruct b eqn:?; simpl in *
         | |- context [if ?b then _ else _] => destruct b eqn:?; simpl in *
         end.

(* frame lemmas: what a change of the global fields does to the other inputs *)
Lemma loc1_nreg g nr nn dp del d j x : loc1 g nr nn dp del d j x -> j <> nr -> loc1 g (S nr) nn dp del d j x.
Proof. intros L H. loc_tac L. Qed.

Lemma loc1_dt_set g nr nn dp del dp' del' i j x :
  loc1 g nr nn dp del None j x -> j <> i -> loc1 g nr nn dp' del' (Some i) j x.
Proof. intros L H. destruct (ipc x) eqn:E; loc_tac L. Qed.

Lemma loc1_dtor_progress g nr nn dp del dp' del' d j x :
  loc1 g nr nn dp del (Some d) j x -> j <> d -> loc1 g nr nn dp' del' (Some d) j x.
Proof. intros L H. destruct (ipc x) eqn:E; loc_tac L. Qed.
