(* Invariants of the When transition system (coq/model/When.v) and the facts the C09 / C10 theorems are made of.
   Everything is proved for every event sequence (schedule), every number of inputs and every result pattern.

   Layers:  I1 hand-off / reference counter / destructor uniqueness
            I2 release accounting and the contents gathered by the destructor
            IE the election of the unique setter of the output promise, per family of strategies *)
From Coq Require Import List Arith Bool NArith Lia.
Import ListNotations.
From YV Require Import model.When.

(* ---------------------------------------------------------------------------------------------- lists *)

Lemma upd_length {A} i (f : A -> A) l : length (upd i f l) = length l.
Proof. revert i; induction l as [|x l IH]; intros [|i]; simpl; auto. Qed.

Lemma nth_upd_eq {A} i (f : A -> A) l x : nth_error l i = Some x -> nth_error (upd i f l) i = Some (f x).
Proof. revert i; induction l as [|y l IH]; intros [|i]; simpl; try discriminate; auto. congruence. Qed.

Lemma nth_upd_neq {A} i j (f : A -> A) l : j <> i -> nth_error (upd i f l) j = nth_error l j.
Proof.
  revert i j; induction l as [|y l IH]; intros [|i] [|j] H; simpl; auto; try congruence.
Qed.

Lemma nth_upd {A} i j (f : A -> A) l :
  nth_error (upd i f l) j = if Nat.eqb j i then option_map f (nth_error l i) else nth_error l j.
Proof.
  destruct (Nat.eqb_spec j i) as [->|H].
  - destruct (nth_error l i) eqn:E; simpl.
    + apply nth_upd_eq; auto.
    + apply nth_error_None in E. apply nth_error_None. rewrite upd_length. auto.
  - apply nth_upd_neq; auto.
Qed.

Lemma nth_lt {A} (l : list A) i x : nth_error l i = Some x -> i < length l.
Proof. intros H. apply nth_error_Some. congruence. Qed.

Definition cnt {A} (p : A -> bool) (l : list A) : nat := length (filter p l).

Lemma cnt_le {A} (p : A -> bool) l : cnt p l <= length l.
Proof. unfold cnt. induction l; simpl; auto. destruct (p a); simpl; lia. Qed.

Lemma cnt_upd {A} (p : A -> bool) i (f : A -> A) l x :
  nth_error l i = Some x ->
  cnt p (upd i f l) + (if p x then 1 else 0) = cnt p l + (if p (f x) then 1 else 0).
Proof.
  unfold cnt. revert i; induction l as [|y l IH]; intros [|i] H; simpl in *; try discriminate.
  - inversion H; subst. destruct (p x), (p (f x)); simpl; lia.
  - specialize (IH _ H). destruct (p y); simpl; lia.
Qed.

Lemma cnt_lt {A} (p : A -> bool) l i x : nth_error l i = Some x -> p x = false -> cnt p l < length l.
Proof.
  unfold cnt. revert i; induction l as [|y l IH]; intros [|i] H Hp; simpl in *; try discriminate.
  - inversion H; subst. rewrite Hp. pose proof (cnt_le p l). unfold cnt in *. lia.
  - specialize (IH _ H Hp). destruct (p y); simpl; lia.
Qed.

Lemma cnt_all {A} (p : A -> bool) l : cnt p l = length l -> forall i x, nth_error l i = Some x -> p x = true.
Proof.
  intros H i x Hx. destruct (p x) eqn:E; auto. pose proof (cnt_lt p l i x Hx E). lia.
Qed.

Lemma cnt_zero {A} (p : A -> bool) l : (forall i x, nth_error l i = Some x -> p x = false) -> cnt p l = 0.
Proof.
  unfold cnt. induction l as [|y l IH]; intros H; simpl; auto.
  rewrite (H 0 y eq_refl). apply IH. intros i x Hx. apply (H (S i) x Hx).
Qed.

Lemma nth_repeat {A} (a : A) k i x : nth_error (repeat a k) i = Some x -> x = a.
Proof. revert i; induction k; intros [|i]; simpl; try discriminate; try congruence. apply IHk. Qed.

Lemma forallb_nth {A} (p : A -> bool) l : forallb p l = true <-> (forall i x, nth_error l i = Some x -> p x = true).
Proof.
  induction l as [|y l IH]; simpl.
  - split; auto. intros _ [|i] x; discriminate.
  - rewrite andb_true_iff, IH. split.
    + intros [Hy Hl] [|i] x Hx; simpl in Hx; [congruence|eauto].
    + intros H. split; [apply (H 0 y eq_refl)|intros i x Hx; apply (H (S i) x Hx)].
Qed.

Lemma list_ext {A} (l1 l2 : list A) :
  length l1 = length l2 -> (forall i, i < length l1 -> nth_error l1 i = nth_error l2 i) -> l1 = l2.
Proof.
  revert l2; induction l1 as [|a l1 IH]; intros [|b l2] Hl H; simpl in *; try discriminate; auto.
  f_equal.
  - specialize (H 0 ltac:(lia)). simpl in H. congruence.
  - apply IH; [lia|]. intros i Hi. apply (H (S i)). lia.
Qed.

Lemma firstn_snoc {A} (l : list A) k x : nth_error l k = Some x -> firstn (S k) l = firstn k l ++ [x].
Proof.
  revert k; induction l as [|y l IH]; intros [|k] H; simpl in *; try discriminate.
  - congruence.
  - f_equal. auto.
Qed.

Lemma firstn_upd_ge {A} (l : list A) k i f : k <= i -> firstn k (upd i f l) = firstn k l.
Proof.
  revert k i; induction l as [|y l IH]; intros [|k] [|i] H; simpl; auto; try lia.
  f_equal. apply IH. lia.
Qed.

Lemma map_upd_same {A B} (g : A -> B) (l : list A) i f :
  (forall x, nth_error l i = Some x -> g (f x) = g x) -> map g (upd i f l) = map g l.
Proof.
  revert i; induction l as [|y l IH]; intros [|i] H; simpl; auto.
  - f_equal. apply H. reflexivity.
  - f_equal. apply IH. exact H.
Qed.

(* ---------------------------------------------------------------------------------------------- layer 1 *)

Definition pre_el (p : pc) : bool := match p with PIdle | PCons | PStrat | PRmw => true | _ => false end.
Definition ended (p : pc) : bool := match p with PDtor _ | PPub | PFin => true | _ => false end.
Definition in_dtor (p : pc) : bool := match p with PDtor _ | PPub => true | _ => false end.
Definition begun (p : pc) : bool := match p with PIdle => false | _ => true end.
Definition xended (x : inp) : bool := ended (ipc x).
Definition has_election (g : strat) : bool :=
  match g with SAllNone | STupNone | SJoinNone => false | _ => true end.

Record loc1 (s : st) (j : nat) (x : inp) : Prop := {
  l_none : ires x = None -> iw x <> WR;
  l_begun : ipc x <> PIdle -> iw x = WR /\ j < nreg s /\ ires x <> None;
  l_wc : iw x = WC -> j < nreg s;
  l_reg : j < nreg s -> iw x <> WE;
  l_lost : j < nreg s -> iw x = WR -> ipc x <> PIdle;
  l_cons : icons x = if begun (ipc x) then 1 else 0;
  l_pcons : ipc x = PCons -> owned (sg s) = false;
  l_pel : ipc x = PStrat \/ ipc x = PRmw \/ ipc x = PSet ->
          has_election (sg s) = true /\ (is_ff (sg s) = true -> ofailing (ires x) = true);
  l_pdtor : in_dtor (ipc x) = true -> dt s = Some j;
  l_pdk : forall k, ipc x = PDtor k -> owned (sg s) = true /\ k < n s /\ dprog s = k;
  l_ppub : ipc x = PPub -> owned (sg s) = true -> dprog s = n s;
  l_dt : dt s = Some j ->
         ended (ipc x) = true /\ deleted s = (if pc_fin (ipc x) then 1 else 0) /\
         (pc_fin (ipc x) = true -> owned (sg s) = true -> dprog s = n s)
}.

Record I1 (s : st) : Prop := {
  i_len : length (ins s) = n s;
  i_nreg : nreg s <= n s;
  i_loc : forall j x, nth_error (ins s) j = Some x -> loc1 s j x;
  i_count : count s + cnt xended (ins s) = n s;
  i_dt_none : dt s = None -> deleted s = 0 /\ dprog s = 0 /\ (n s > 0 -> count s > 0);
  i_dt_some : forall d, dt s = Some d -> count s = 0 /\ d < n s
}.

Lemma cnt_xended_upd i f l x :
  nth_error l i = Some x ->
  cnt xended (upd i f l) + (if ended (ipc x) then 1 else 0) = cnt xended l + (if ended (ipc (f x)) then 1 else 0).
Proof. intros H. exact (cnt_upd xended i f l x H). Qed.

Lemma I1_init g k : I1 (init g k).
Proof.
  constructor; simpl.
  - apply repeat_length.
  - lia.
  - intros j x H. apply nth_repeat in H. subst. constructor; simpl; intros;
      repeat match goal with H : _ \/ _ |- _ => destruct H end; try congruence; try discriminate; try lia.
  - rewrite cnt_zero; [lia|]. intros i x H. apply nth_repeat in H. subst. reflexivity.
  - intros _. repeat split; auto.
  - discriminate.
Qed.

(* the state after replacing input i *)
Lemma ins_set_in i x s : ins (set_in i x s) = upd i (fun _ => x) (ins s).
Proof. reflexivity. Qed.

Ltac inv H := inversion H; subst; clear H.

(* case analysis on every match/if in the step equation H *)
Ltac case_step H :=
  repeat match type of H with
         | context [match ?x with _ => _ end] => destruct x eqn:?; simpl in H; try discriminate H
         | context [if ?x then _ else _] => destruct x eqn:?; simpl in H; try discriminate H
         end.
