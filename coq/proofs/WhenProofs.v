(* Invariants of the When transition system (coq/model/When.v) and the facts the C09 / C10 theorems are made of.
   Everything is proved for every event sequence (schedule), every number of inputs and every result pattern.

   Layers:  I1 hand-off / reference counter / destructor uniqueness
            I2 release accounting and the contents gathered by the destructor
            IE the election of the unique setter of the output promise, per family of strategies *)
From Coq Require Import List Arith Bool NArith Lia.
Import ListNotations.
From YV Require Import model.When.

(* ---------------------------------------------------------------------------------------------- lists *)

Lemma upd_length {A} i (f : A -> A) l : length (upd i f l) = length l.
Proof. revert i; induction l as [|x l IH]; intros [|i]; simpl; auto. Qed.

Lemma nth_upd_eq {A} i (f : A -> A) l x : nth_error l i = Some x -> nth_error (upd i f l) i = Some (f x).
Proof. revert i; induction l as [|y l IH]; intros [|i]; simpl; try discriminate; auto. congruence. Qed.

Lemma nth_upd_neq {A} i j (f : A -> A) l : j <> i -> nth_error (upd i f l) j = nth_error l j.
Proof.
  revert i j; induction l as [|y l IH]; intros [|i] [|j] H; simpl; auto; try congruence.
Qed.

Lemma nth_upd {A} i j (f : A -> A) l :
  nth_error (upd i f l) j = if Nat.eqb j i then option_map f (nth_error l i) else nth_error l j.
Proof.
  destruct (Nat.eqb_spec j i) as [->|H].
  - destruct (nth_error l i) eqn:E; simpl.
    + apply nth_upd_eq; auto.
    + apply nth_error_None in E. apply nth_error_None. rewrite upd_length. auto.
  - apply nth_upd_neq; auto.
Qed.

Lemma nth_lt {A} (l : list A) i x : nth_error l i = Some x -> i < length l.
Proof. intros H. apply nth_error_Some. congruence. Qed.

Definition cnt {A} (p : A -> bool) (l : list A) : nat := length (filter p l).

Lemma cnt_le {A} (p : A -> bool) l : cnt p l <= length l.
Proof. unfold cnt. induction l; simpl; auto. destruct (p a); simpl; lia. Qed.

Lemma cnt_upd {A} (p : A -> bool) i (f : A -> A) l x :
  nth_error l i = Some x ->
  cnt p (upd i f l) + (if p x then 1 else 0) = cnt p l + (if p (f x) then 1 else 0).
Proof.
  unfold cnt. revert i; induction l as [|y l IH]; intros [|i] H; simpl in *; try discriminate.
  - inversion H; subst. destruct (p x), (p (f x)); simpl; lia.
  - specialize (IH _ H). destruct (p y); simpl; lia.
Qed.

Lemma cnt_lt {A} (p : A -> bool) l i x : nth_error l i = Some x -> p x = false -> cnt p l < length l.
Proof.
  unfold cnt. revert i; induction l as [|y l IH]; intros [|i] H Hp; simpl in *; try discriminate.
  - inversion H; subst. rewrite Hp. pose proof (cnt_le p l). unfold cnt in *. lia.
  - specialize (IH _ H Hp). destruct (p y); simpl; lia.
Qed.

Lemma cnt_all {A} (p : A -> bool) l : cnt p l = length l -> forall i x, nth_error l i = Some x -> p x = true.
Proof.
  intros H i x Hx. destruct (p x) eqn:E; auto. pose proof (cnt_lt p l i x Hx E). lia.
Qed.

Lemma cnt_zero {A} (p : A -> bool) l : (forall i x, nth_error l i = Some x -> p x = false) -> cnt p l = 0.
Proof.
  unfold cnt. induction l as [|y l IH]; intros H; simpl; auto.
  rewrite (H 0 y eq_refl). apply IH. intros i x Hx. apply (H (S i) x Hx).
Qed.

Lemma nth_repeat {A} (a : A) k i x : nth_error (repeat a k) i = Some x -> x = a.
Proof. revert i; induction k; intros [|i]; simpl; try discriminate; try congruence. apply IHk. Qed.

Lemma forallb_nth {A} (p : A -> bool) l : forallb p l = true <-> (forall i x, nth_error l i = Some x -> p x = true).
Proof.
  induction l as [|y l IH]; simpl.
  - split; auto. intros _ [|i] x; discriminate.
  - rewrite andb_true_iff, IH. split.
    + intros [Hy Hl] [|i] x Hx; simpl in Hx; [congruence|eauto].
    + intros H. split; [apply (H 0 y eq_refl)|intros i x Hx; apply (H (S i) x Hx)].
Qed.

Lemma list_ext {A} (l1 l2 : list A) :
  length l1 = length l2 -> (forall i, i < length l1 -> nth_error l1 i = nth_error l2 i) -> l1 = l2.
Proof.
  revert l2; induction l1 as [|a l1 IH]; intros [|b l2] Hl H; simpl in *; try discriminate; auto.
  f_equal.
  - specialize (H 0 ltac:(lia)). simpl in H. congruence.
  - apply IH; [lia|]. intros i Hi. apply (H (S i)). lia.
Qed.

Lemma firstn_snoc {A} (l : list A) k x : nth_error l k = Some x -> firstn (S k) l = firstn k l ++ [x].
Proof.
  revert k; induction l as [|y l IH]; intros [|k] H; simpl in *; try discriminate.
  - congruence.
  - f_equal. auto.
Qed.

Lemma firstn_upd_ge {A} (l : list A) k i f : k <= i -> firstn k (upd i f l) = firstn k l.
Proof.
  revert k i; induction l as [|y l IH]; intros [|k] [|i] H; simpl; auto; try lia.
  f_equal. apply IH. lia.
Qed.

Lemma map_upd_same {A B} (g : A -> B) (l : list A) i f :
  (forall x, nth_error l i = Some x -> g (f x) = g x) -> map g (upd i f l) = map g l.
Proof.
  revert i; induction l as [|y l IH]; intros [|i] H; simpl; auto.
  - f_equal. apply H. reflexivity.
  - f_equal. apply IH. exact H.
Qed.

(* ---------------------------------------------------------------------------------------------- layer 1 *)

Definition pre_el (p : pc) : bool := match p with PIdle | PCons | PStrat | PRmw => true | _ => false end.
Definition ended (p : pc) : bool := match p with PDtor _ | PPub | PFin => true | _ => false end.
Definition in_dtor (p : pc) : bool := match p with PDtor _ | PPub => true | _ => false end.
Definition begun (p : pc) : bool := match p with PIdle => false | _ => true end.
Definition xended (x : inp) : bool := ended (ipc x).
Definition has_election (g : strat) : bool :=
  match g with SAllNone | STupNone | SJoinNone => false | _ => true end.

(* per-input facts, as a function of the global fields they depend on *)
Record loc1 (g : strat) (nr nn dp del : nat) (d : option nat) (j : nat) (x : inp) : Prop := {
  l_none : ires x = None -> iw x <> WR;
  l_begun : ipc x <> PIdle -> iw x = WR /\ j < nr /\ ires x <> None;
  l_wc : iw x = WC -> j < nr;
  l_reg : j < nr -> iw x <> WE;
  l_lost : j < nr -> iw x = WR -> ipc x <> PIdle;
  l_cons : icons x = if begun (ipc x) then 1 else 0;
  l_pcons : ipc x = PCons -> owned g = false;
  l_pel : ipc x = PStrat \/ ipc x = PRmw \/ ipc x = PSet ->
          has_election g = true /\ (is_ff g = true -> ofailing (ires x) = true);
  l_pdtor : in_dtor (ipc x) = true -> d = Some j;
  l_pdk : forall k, ipc x = PDtor k -> owned g = true /\ k < nn /\ dp = k;
  l_ppub : ipc x = PPub -> owned g = true -> dp = nn;
  l_dt : d = Some j ->
         ended (ipc x) = true /\ del = (if pc_fin (ipc x) then 1 else 0) /\
         (pc_fin (ipc x) = true -> owned g = true -> dp = nn)
}.

Definition L1 (s : st) := loc1 (sg s) (nreg s) (n s) (dprog s) (deleted s) (dt s).

Record I1 (s : st) : Prop := {
  i_len : length (ins s) = n s;
  i_nreg : nreg s <= n s;
  i_loc : forall j x, nth_error (ins s) j = Some x -> L1 s j x;
  i_count : count s + cnt xended (ins s) = n s;
  i_dt_none : dt s = None -> deleted s = 0 /\ dprog s = 0 /\ (n s > 0 -> count s > 0);
  i_dt_some : forall d, dt s = Some d -> count s = 0 /\ d < n s
}.

Lemma cnt_xended_upd i f l x :
  nth_error l i = Some x ->
  cnt xended (upd i f l) + (if ended (ipc x) then 1 else 0) = cnt xended l + (if ended (ipc (f x)) then 1 else 0).
Proof. intros H. exact (cnt_upd xended i f l x H). Qed.

Lemma I1_init g k : I1 (init g k).
Proof.
  constructor; simpl.
  - apply repeat_length.
  - lia.
  - intros j x H. apply nth_repeat in H. subst. constructor; simpl; intros;
      repeat match goal with H : _ \/ _ |- _ => destruct H end; try congruence; try discriminate; try lia.
  - rewrite cnt_zero; [lia|]. intros i x H. apply nth_repeat in H. subst. reflexivity.
  - intros _. repeat split; auto.
  - discriminate.
Qed.

Lemma loc1_idle_w g nr nn dp del d j x : loc1 g nr nn dp del d j x -> iw x <> WR -> ipc x = PIdle.
Proof. intros L H. destruct (ipc x) eqn:E; auto; exfalso; apply H; apply (l_begun _ _ _ _ _ _ _ _ L); congruence. Qed.

Lemma loc1_idle_reg g nr nn dp del d j x : loc1 g nr nn dp del d j x -> ~ j < nr -> ipc x = PIdle.
Proof. intros L H. destruct (ipc x) eqn:E; auto; exfalso; apply H; apply (l_begun _ _ _ _ _ _ _ _ L); congruence. Qed.

(* the pc at which a consume step starts / continues after the input was retired *)
Lemma strat_entry_cases g r :
  strat_entry g r = PDec \/
  (strat_entry g r = PStrat /\ has_election g = true /\ (is_ff g = true -> ofailing r = true)).
Proof. destruct g; simpl; auto; destruct (ofailing r); auto. Qed.

Lemma begin_pc_cases g r :
  let p := if owned g then strat_entry g r else PCons in
  (p = PCons /\ owned g = false) \/ (p = PDec /\ owned g = true) \/
  (p = PStrat /\ owned g = true /\ has_election g = true /\ (is_ff g = true -> ofailing r = true)).
Proof.
  simpl. destruct (owned g) eqn:E; auto. right.
  destruct (strat_entry_cases g r) as [H|(H & H1 & H2)]; rewrite H; auto.
Qed.

Lemma word_eqb_eq a b : word_eqb a b = true -> a = b.
Proof. destruct a, b; simpl; congruence. Qed.

Ltac inv H := inversion H; subst; clear H.

(* case analysis on every match/if in the step equation H *)
Ltac case_step H :=
  repeat match type of H with
         | context [match ?x with _ => _ end] => destruct x eqn:?; simpl in H; try discriminate H
         | context [if ?x then _ else _] => destruct x eqn:?; simpl in H; try discriminate H
         end.

(* ---- tactics ------------------------------------------------------------------------------------ *)

Ltac solve_prem :=
  match goal with
  | |- @eq nat _ _ => solve [reflexivity | assumption | lia]
  | |- _ = _ => solve [reflexivity | assumption | symmetry; assumption]
  | |- _ <> _ => solve [discriminate | congruence | lia]
  | |- _ < _ => lia
  | |- _ <= _ => lia
  | |- _ > _ => lia
  | |- _ \/ _ => solve [auto]
  | |- _ => assumption
  end.

Ltac saturate :=
  repeat match goal with
         | H : forall k0, PDtor ?k = PDtor k0 -> _ |- _ => specialize (H k eq_refl)
         | H : ?A -> _ |- _ =>
             match type of A with
             | Prop => let h := fresh in assert (h : A) by solve_prem; specialize (H h); clear h
             end
         | H : _ /\ _ |- _ => destruct H
         end.

Ltac fin :=
  repeat match goal with H : PDtor _ = PDtor _ |- _ => injection H as H end;
  simpl in *; try discriminate; try congruence; try lia; try tauto; eauto.

Ltac split_hyps :=
  repeat match goal with
         | H : _ \/ _ |- _ => destruct H
         | H : _ /\ _ |- _ => destruct H
         end.

Ltac rew_fields :=
  repeat match goal with
         | H : ires ?x = _ |- _ => rewrite H in *
         | H : iw ?x = _ |- _ => rewrite H in *
         | H : ipc ?x = _ |- _ => rewrite H in *
         | H : sg ?s = _ |- _ => rewrite H in *
         end.

Ltac loc_tac L :=
  destruct L; rew_fields; simpl in *; saturate;
  constructor; simpl; intros; rew_fields; simpl in *; split_hyps; saturate; rew_fields; simpl in *;
  try discriminate; try congruence; try lia; repeat split; fin.

Ltac case_ifs :=
  repeat match goal with
         | H : context [if ?b then _ else _] |- _ => destruct b eqn:?; simpl in *
         | |- context [if ?b then _ else _] => destruct b eqn:?; simpl in *
         end.

(* frame lemmas: what a change of the global fields does to the other inputs *)
Lemma loc1_nreg g nr nn dp del d j x : loc1 g nr nn dp del d j x -> j <> nr -> loc1 g (S nr) nn dp del d j x.
Proof. intros L H. loc_tac L. Qed.

Lemma loc1_dt_set g nr nn dp del dp' del' i j x :
  loc1 g nr nn dp del None j x -> j <> i -> loc1 g nr nn dp' del' (Some i) j x.
Proof. intros L H. destruct (ipc x) eqn:E; loc_tac L. Qed.

Lemma loc1_dtor_progress g nr nn dp del dp' del' d j x :
  loc1 g nr nn dp del (Some d) j x -> j <> d -> loc1 g nr nn dp' del' (Some d) j x.
Proof. intros L H. destruct (ipc x) eqn:E; loc_tac L. Qed.

(* ---- layer 1: preservation ---------------------------------------------------------------------- *)

Ltac count_tac Hx :=
  match goal with
  | |- context [cnt xended (upd ?i ?f ?l)] =>
      let Hc := fresh "Hc" in
      pose proof (cnt_xended_upd i f l _ Hx) as Hc; simpl in Hc; rew_fields; simpl in *;
      case_ifs; try discriminate; lia
  end.

(* other inputs: by one of the frame lemmas *)
Ltac other Iloc j y Hj :=
  first [ exact (Iloc j y Hj)
        | apply loc1_nreg; [exact (Iloc j y Hj)|assumption]
        | match goal with Hd : dt _ = None |- _ =>
            eapply loc1_dt_set; [rewrite <- Hd; exact (Iloc j y Hj)|assumption] end
        | match goal with Hd : dt _ = Some _ |- _ =>
            rewrite ?Hd; eapply loc1_dtor_progress; [rewrite <- Hd; exact (Iloc j y Hj)|assumption] end ].

Ltac perinput Iloc i x Hx :=
  let j := fresh "j" in let y := fresh "y" in let Hj := fresh "Hj" in let L := fresh "L" in
  intros j y Hj; unfold L1; simpl; rewrite nth_upd in Hj; destruct (Nat.eqb_spec j i) as [->|Hne];
  [ rewrite Hx in Hj; simpl in Hj; inv Hj; pose proof (Iloc i x Hx) as L; unfold L1 in L; loc_tac L
  | other Iloc j y Hj ].

Ltac I1_tac I i x Hx :=
  let Il := fresh "Il" in let In := fresh "In" in let Iloc := fresh "Iloc" in let Ic := fresh "Ic" in
  let Id0 := fresh "Id0" in let Id1 := fresh "Id1" in
  destruct I as [Il In Iloc Ic Id0 Id1];
  pose proof (nth_lt _ _ _ Hx) as Hlt;
  constructor; simpl;
  [ try (rewrite upd_length); assumption
  | try lia
  | try (perinput Iloc i x Hx)
  | try (count_tac Hx)
  | try (intros Hd; saturate; fin)
  | try (intros d Hd; match type of Hd with Some _ = Some _ => inv Hd | _ => destruct (Id1 _ Hd) end;
         saturate; repeat split; fin) ].

Ltac start H i x Hx :=
  simpl in H; destruct (nth_error (ins _) i) as [x|] eqn:Hx; [|discriminate].

Ltac begin_cases s x :=
  unfold begin; simpl;
  try (destruct (begin_pc_cases (sg s) (ires x)) as [(Hb & Hb1)|[(Hb & Hb1)|(Hb & Hb1 & Hb2 & Hb3)]];
       simpl in Hb; rewrite Hb).

(* I1 reads only these fields *)
Lemma I1_ext s s' :
  sg s' = sg s -> n s' = n s -> ins s' = ins s -> nreg s' = nreg s -> count s' = count s ->
  dt s' = dt s -> dprog s' = dprog s -> deleted s' = deleted s -> I1 s -> I1 s'.
Proof.
  intros E1 E2 E3 E4 E5 E6 E7 E8 [Il In Iloc Ic Id0 Id1].
  constructor; unfold L1 in *; rewrite ?E1, ?E2, ?E3, ?E4, ?E5, ?E6, ?E7, ?E8; auto.
Qed.

Ltac by_ext s0 := apply I1_ext with s0; [reflexivity..|].

Lemma I1_complete s i r s' : I1 s -> step s (EComplete i r) = Some s' -> I1 s'.
Proof.
  intros I H. start H i x Hx. case_step H; inv H.
  all: assert (Hp : ipc x = PIdle) by (eapply loc1_idle_w; [apply (i_loc _ I _ _ Hx)|congruence]).
  all: I1_tac I i x Hx.
Qed.

Lemma I1_xchg s i old s' : I1 s -> step s (EXchg i old) = Some s' -> I1 s'.
Proof.
  intros I H. start H i x Hx.
  destruct (word_eqb old (iw x)) eqn:E; [apply word_eqb_eq in E; subst old|discriminate].
  case_step H; inv H.
  all: assert (Hp : ipc x = PIdle) by (eapply loc1_idle_w; [apply (i_loc _ I _ _ Hx)|congruence]).
  all: begin_cases s x.
  all: I1_tac I i x Hx.
Qed.

Lemma I1_reg s i ok s' : I1 s -> step s (EReg i ok) = Some s' -> I1 s'.
Proof.
  intros I H. simpl in H. destruct (Nat.eqb_spec i (nreg s)) as [->|]; [|discriminate].
  destruct (nth_error (ins s) (nreg s)) as [x|] eqn:Hx; [|discriminate].
  case_step H; inv H.
  all: assert (Hp : ipc x = PIdle) by (eapply loc1_idle_reg; [apply (i_loc _ I _ _ Hx)|lia]).
  all: begin_cases s x.
  all: I1_tac I (nreg s) x Hx.
Qed.

Lemma rd_ofailing x : ofailing (rd x) = true -> ofailing (ires x) = true.
Proof. unfold rd. destruct (ifree x =? 0); simpl; auto; discriminate. Qed.

Lemma I1_store_slot i r s : I1 s -> I1 (store_slot i r s).
Proof.
  intros I. unfold store_slot. destruct (sg s) eqn:E; auto; try destruct (ovalue r); auto.
  all: by_ext s; auto.
Qed.

Lemma I1_free s i s' : I1 s -> step s (EFree i) = Some s' -> I1 s'.
Proof.
  intros I H. start H i x Hx. case_step H; inv H.
  apply I1_store_slot.
  destruct (strat_entry_cases (sg s) (rd x)) as [Hb|(Hb & Hb2 & Hb3)]; rewrite Hb;
    try (assert (Hb4 : is_ff (sg s) = true -> ofailing (ires x) = true) by (intros; apply rd_ofailing; auto); clear Hb3).
  all: I1_tac I i x Hx.
Qed.

(* a step inside Strategy::Consume *)
Lemma I1_goto_mid s i x p :
  I1 s -> nth_error (ins s) i = Some x ->
  (ipc x = PStrat \/ ipc x = PRmw \/ ipc x = PSet) -> (p = PRmw \/ p = PSet \/ p = PDec) ->
  I1 (goto i p x s).
Proof.
  intros I Hx Hp Hq. unfold goto.
  destruct Hp as [Hp|[Hp|Hp]]; destruct Hq as [->|[->| ->]]; I1_tac I i x Hx.
Qed.

Ltac mid I Hx := apply I1_goto_mid; [exact I|exact Hx|auto|auto].

Lemma I1_strategy_steps s e s' :
  I1 s -> step s e = Some s' ->
  match e with
  | ELdDone _ _ | EXchgDone _ _ | ELdState _ _ | EXchgState _ _ | ECasState _ _ | ESubState _ _ | ESetOut _ => True
  | _ => False
  end -> I1 s'.
Proof.
  intros I H He. destruct e; try contradiction; clear He.
  all: start H i x Hx; case_step H; inv H.
  all: unfold elected, logged, goto.
  all: match goal with Hx : nth_error (ins ?s0) ?i = Some ?x |- I1 ?t =>
         match t with context [with_ipc ?p x] => by_ext (goto i p x s0); mid I Hx end end.
Qed.

Lemma I1_dec s i old s' : I1 s -> step s (EDec i old) = Some s' -> I1 s'.
Proof.
  intros I H. start H i x Hx. case_step H; inv H.
  all: apply Nat.eqb_eq in Heqb.
  - (* last reference: the destructor starts *)
    assert (Hdn : dt s = None).
    { destruct (dt s) eqn:E; auto. destruct (i_dt_some _ I _ E). lia. }
    destruct (i_dt_none _ I Hdn) as (Hdel & Hdp & _).
    assert (Hn : 0 < n s) by (rewrite <- (i_len _ I); eapply Nat.le_lt_trans; [apply Nat.le_0_l|eapply nth_lt; eauto]).
    unfold dtor_entry. destruct (sg s) eqn:Esg; simpl; try destruct (pvalid s); simpl.
    all: unfold goto; I1_tac I i x Hx.
  - assert (Hdn : dt s = None).
    { destruct (dt s) eqn:E; auto. destruct (i_dt_some _ I _ E). lia. }
    unfold goto; I1_tac I i x Hx.
Qed.

Lemma I1_with_ifree s k y v : I1 s -> nth_error (ins s) k = Some y -> I1 (set_in k (with_ifree v y) s).
Proof.
  intros [Il In Iloc Ic Id0 Id1] Hy. constructor; simpl; auto.
  - rewrite upd_length; auto.
  - intros j z Hj. rewrite nth_upd in Hj. destruct (Nat.eqb_spec j k) as [->|Hne].
    + rewrite Hy in Hj. simpl in Hj. inv Hj. pose proof (Iloc k y Hy) as L. unfold L1 in *. simpl.
      destruct L; constructor; auto.
    + exact (Iloc j z Hj).
  - pose proof (cnt_xended_upd k (fun _ => with_ifree v y) (ins s) y Hy) as Hc. simpl in Hc.
    destruct (ended (ipc y)); lia.
Qed.

Lemma I1_dfree s i k s' : I1 s -> step s (EDFree i k) = Some s' -> I1 s'.
Proof.
  intros I H. unfold step in H. destruct (nth_error (ins s) i) as [x|] eqn:Hx; [|discriminate].
  destruct (ipc x) as [| | | | | |k'| |] eqn:Hp; try discriminate.
  destruct (Nat.eqb_spec k k') as [Ek|]; [subst k'|discriminate].
  destruct (nth_error (ins s) k) as [y|] eqn:Hy; [|discriminate].
  remember (match sg s with SAllNone => true | _ => pvalid s end) as collect eqn:Hcol.
  remember (S k =? n s) as last eqn:Hlast.
  set (s1 := set_in k (with_ifree (S (ifree y)) y) s) in *.
  assert (I1s : I1 s1) by (apply I1_with_ifree; auto).
  destruct (l_pdk _ _ _ _ _ _ _ _ (i_loc _ I _ _ Hx) _ Hp) as (Hown & Hk & Hdp).
  assert (Hdt : dt s = Some i) by (apply (l_pdtor _ _ _ _ _ _ _ _ (i_loc _ I _ _ Hx)); rewrite Hp; reflexivity).
  cbv zeta in H.
  match type of H with match ?t with _ => _ end = _ => destruct t as [x'|] eqn:Hx' end; [|discriminate].
  assert (Hx1 : nth_error (ins s1) i = Some x') by (destruct collect; exact Hx').
  assert (Hp' : ipc x' = PDtor k).
  { unfold s1 in Hx1. simpl in Hx1. rewrite nth_upd in Hx1. destruct (Nat.eqb_spec i k) as [->|].
    - rewrite Hy in Hx1. simpl in Hx1. inv Hx1. simpl. congruence.
    - congruence. }
  assert (Hdt1 : dt s1 = Some i) by exact Hdt.
  injection H as Hs'. subst s'.
  set (p := if last then if collect then PPub else PFin else PDtor (S k)).
  apply I1_ext with (finish_if_fin p (goto i p x' (set_dprog (S k) s1))).
  1-8: subst p; destruct last, collect; reflexivity.
  assert (Hdel : deleted s1 = 0).
  { destruct (l_dt _ _ _ _ _ _ _ _ (i_loc _ I1s _ _ Hx1) Hdt1) as (_ & Hd & _). rewrite Hp' in Hd. exact Hd. }
  assert (Hdel' : deleted s = 0) by exact Hdel.
  assert (Hdp1 : dprog s1 = k) by exact Hdp.
  assert (Hn1 : n s1 = n s) by reflexivity.
  assert (Hown1 : owned (sg s1) = true) by exact Hown.
  subst p. destruct last; [symmetry in Hlast; apply Nat.eqb_eq in Hlast; destruct collect
                          |symmetry in Hlast; apply Nat.eqb_neq in Hlast]; simpl.
  all: clearbody s1; unfold goto; I1_tac I1s i x' Hx1.
Qed.

Lemma I1_publish s i s' : I1 s -> step s (EPublish i) = Some s' -> I1 s'.
Proof.
  intros I H. start H i x Hx. case_step H; inv H.
  assert (Hdt : dt s = Some i) by (apply (l_pdtor _ _ _ _ _ _ _ _ (i_loc _ I _ _ Hx)); rewrite Heqp; reflexivity).
  destruct (l_dt _ _ _ _ _ _ _ _ (i_loc _ I _ _ Hx) Hdt) as (_ & Hdel & _). rewrite Heqp in Hdel. simpl in Hdel.
  pose proof (l_ppub _ _ _ _ _ _ _ _ (i_loc _ I _ _ Hx) Heqp) as Hpp.
  apply I1_ext with (set_deleted (S (deleted s)) (goto i PFin x s)); try reflexivity.
  unfold goto; I1_tac I i x Hx.
Qed.

Theorem I1_step s e s' : I1 s -> step s e = Some s' -> I1 s'.
Proof.
  intros I H. destruct e.
  - eapply I1_complete; eauto.
  - eapply I1_xchg; eauto.
  - eapply I1_reg; eauto.
  - eapply I1_free; eauto.
  - eapply I1_strategy_steps; eauto; exact Logic.I.
  - eapply I1_strategy_steps; eauto; exact Logic.I.
  - eapply I1_strategy_steps; eauto; exact Logic.I.
  - eapply I1_strategy_steps; eauto; exact Logic.I.
  - eapply I1_strategy_steps; eauto; exact Logic.I.
  - eapply I1_strategy_steps; eauto; exact Logic.I.
  - eapply I1_strategy_steps; eauto; exact Logic.I.
  - eapply I1_dec; eauto.
  - eapply I1_dfree; eauto.
  - eapply I1_publish; eauto.
Qed.
