(* The packed 32 + 32 bit `_state` word and the 32 bit `_readers_wait` of SharedMutexImpl versus the unbounded pair
   (sw, sr) and the integer rwait of CoSharedMutex.v: every operation and test the source performs on the words agrees
   with the model's as long as the counts stay below 2^32 (2^31 for the signed reading of _readers_wait).
   The constants come from the source through coq/gen/Gen_shmutex_consts.v (checks/c15.py, translate_consts). *)
From Coq Require Import ZArith Lia.
From YV Require Import gen.Gen_shmutex_consts.
Local Open Scope Z_scope.

Definition kR : Z := Z.of_nat kReader.
Definition kW : Z := kR * 2 ^ Z.of_nat kWriterShift.          (* kWriter = kReader << 32 *)
Definition wordS : Z := 2 ^ Z.of_nat kStateBits.             (* uint64 arithmetic is modulo this *)
Definition wordW : Z := 2 ^ Z.of_nat kWaitBits.              (* uint32 arithmetic is modulo this *)
Definition half : Z := 2 ^ 32.

Lemma consts_ok : kR = 1 /\ kW = 4294967296 /\ wordS = 18446744073709551616 /\ wordW = 4294967296 /\ half = kW.
Proof. repeat split; reflexivity. Qed.

(* the word that holds w writers and r readers *)
Definition pack (w r : nat) : Z := Z.of_nat w * kW + Z.of_nat r * kR.
Definition fits (n : nat) : Prop := Z.of_nat n < half.

Ltac consts := destruct consts_ok as (ER & EW & ES & EWW & EH); unfold pack, fits in *; rewrite ?ER, ?EW, ?ES, ?EWW, ?EH in *.

(* s / kWriter and s % kWriter are the two counts *)
Lemma pack_div : forall w r, fits r -> pack w r / kW = Z.of_nat w.
Proof.
  intros. consts. rewrite Z.mul_1_r. rewrite Z.add_comm, Z.div_add by lia. rewrite Z.div_small by lia. lia.
Qed.
Lemma pack_mod : forall w r, fits r -> (pack w r) mod kW = Z.of_nat r.
Proof.
  intros. consts. rewrite Z.mul_1_r. rewrite Z.add_comm, Z.mod_add by lia. apply Z.mod_small. lia.
Qed.
Lemma pack_range : forall w r, fits w -> fits r -> 0 <= pack w r < wordS.
Proof. intros. consts. lia. Qed.
Lemma pack_inj : forall w r w' r', fits r -> fits r' -> pack w r = pack w' r' -> w = w' /\ r = r'.
Proof.
  intros w r w' r' F F' E. pose proof (pack_div w r F). pose proof (pack_div w' r' F').
  pose proof (pack_mod w r F). pose proof (pack_mod w' r' F'). rewrite E in *. lia.
Qed.

(* fetch_add / fetch_sub of kReader / kWriter (uint64 arithmetic) move one count *)
Lemma add_reader : forall w r, fits w -> fits (S r) -> (pack w r + kR) mod wordS = pack w (S r).
Proof. intros. consts. rewrite Z.mod_small; lia. Qed.
Lemma add_writer : forall w r, fits (S w) -> fits r -> (pack w r + kW) mod wordS = pack (S w) r.
Proof. intros. consts. rewrite Z.mod_small; lia. Qed.
Lemma sub_reader : forall w r, fits w -> fits (S r) -> (pack w (S r) - kR) mod wordS = pack w r.
Proof. intros. consts. rewrite Z.mod_small; lia. Qed.
Lemma sub_writer : forall w r, fits (S w) -> fits r -> (pack (S w) r - kW) mod wordS = pack w r.
Proof. intros. consts. rewrite Z.mod_small; lia. Qed.
(* what the model forbids: a reader's fetch_sub with no reader registered borrows from the writers' half *)
Lemma sub_reader_borrow : forall w, fits (S w) -> (pack (S w) 0 - kR) mod wordS = pack w (Z.to_nat (half - 1)).
Proof. intros. consts. rewrite Z2Nat.id by lia. rewrite Z.mod_small; lia. Qed.

(* the tests of the source on the word *)
Lemma test_zero : forall w r, pack w r = 0 <-> w = 0%nat /\ r = 0%nat.
Proof. intros. consts. lia. Qed.
Lemma test_only_writer : forall w r, fits r -> pack w r = kW <-> w = 1%nat /\ r = 0%nat.
Proof. intros. consts. lia. Qed.
Lemma test_ge_writer : forall w r, fits r -> pack w r >= kW <-> (w >= 1)%nat.
Proof. intros. consts. lia. Qed.
Lemma test_no_writer : forall w r, fits r -> pack w r / kW = 0 <-> w = 0%nat.
Proof. intros. rewrite pack_div by auto. lia. Qed.

(* _readers_wait: the model's integer z is stored as z mod 2^32 *)
Definition wrap (z : Z) : Z := z mod wordW.
Definition small (z : Z) : Prop := - 2 ^ 31 < z < 2 ^ 31.

Lemma wrap_add : forall z r, wrap (wrap z + r) = wrap (z + r).
Proof. intros. unfold wrap. rewrite Zplus_mod_idemp_l. auto. Qed.
Lemma wrap_sub : forall z, wrap (wrap z - 1) = wrap (z - 1).
Proof. intros. unfold wrap. rewrite Zminus_mod_idemp_l. auto. Qed.
Lemma wrap_eq_small : forall a b, small a -> small b -> (wrap a = wrap b <-> a = b).
Proof.
  intros a b Ha Hb. unfold wrap, small in *. destruct consts_ok as (_ & _ & _ & EWW & _). rewrite EWW.
  split; [|congruence]. intros E.
  assert (Ea : a mod 4294967296 = if Z_lt_dec a 0 then a + 4294967296 else a).
  { destruct (Z_lt_dec a 0).
    - replace a with (a + 4294967296 + (-1) * 4294967296) at 1 by lia. rewrite Z.mod_add by lia. apply Z.mod_small. lia.
    - apply Z.mod_small. lia. }
  assert (Eb : b mod 4294967296 = if Z_lt_dec b 0 then b + 4294967296 else b).
  { destruct (Z_lt_dec b 0).
    - replace b with (b + 4294967296 + (-1) * 4294967296) at 1 by lia. rewrite Z.mod_add by lia. apply Z.mod_small. lia.
    - apply Z.mod_small. lia. }
  rewrite Ea, Eb in E. destruct (Z_lt_dec a 0), (Z_lt_dec b 0); lia.
Qed.
(* `_readers_wait.fetch_add(r) != -r` with r a uint32: compares the old stored value with (-r) mod 2^32 *)
Lemma test_neg_r : forall z r, small z -> small (Z.of_nat r) -> (wrap z = wrap (- Z.of_nat r) <-> z = - Z.of_nat r).
Proof. intros. apply wrap_eq_small; auto. unfold small in *. lia. Qed.
(* `_readers_wait.fetch_sub(1) == 1` *)
Lemma test_one : forall z, small z -> (wrap z = 1 <-> z = 1).
Proof.
  intros. replace 1 with (wrap 1) at 1 by reflexivity. apply wrap_eq_small; auto. unfold small. lia.
Qed.
(* `_readers_wait.store(_readers_size)` *)
Lemma store_size : forall n, small (Z.of_nat n) -> wrap (Z.of_nat n) = Z.of_nat n.
Proof.
  intros. unfold wrap, small in *. destruct consts_ok as (_ & _ & _ & EWW & _). rewrite EWW. apply Z.mod_small. lia.
Qed.

(* everything the source computes on the two words, in one statement *)
Lemma thm_packing :
  (kR = 1 /\ kW = 2 ^ 32 /\ wordS = 2 ^ 64 /\ wordW = 2 ^ 32) /\
  (forall w r, fits r -> pack w r / kW = Z.of_nat w /\ (pack w r) mod kW = Z.of_nat r) /\
  (forall w r w' r', fits r -> fits r' -> pack w r = pack w' r' -> w = w' /\ r = r') /\
  (forall w r, fits w -> fits (S r) ->
     (pack w r + kR) mod wordS = pack w (S r) /\ (pack w (S r) - kR) mod wordS = pack w r) /\
  (forall w r, fits (S w) -> fits r ->
     (pack w r + kW) mod wordS = pack (S w) r /\ (pack (S w) r - kW) mod wordS = pack w r) /\
  (forall w r, fits r ->
     (pack w r = 0 <-> w = 0%nat /\ r = 0%nat) /\ (pack w r = kW <-> w = 1%nat /\ r = 0%nat) /\
     (pack w r >= kW <-> (w >= 1)%nat) /\ (pack w r / kW = 0 <-> w = 0%nat)) /\
  (forall z r, wrap (wrap z + r) = wrap (z + r) /\ wrap (wrap z - 1) = wrap (z - 1)) /\
  (forall z r, small z -> small (Z.of_nat r) ->
     (wrap z = wrap (- Z.of_nat r) <-> z = - Z.of_nat r) /\ (wrap z = 1 <-> z = 1) /\
     wrap (Z.of_nat r) = Z.of_nat r).
Proof.
  split. { destruct consts_ok as (A & B & C & D & E). repeat split; auto. }
  split. { intros. split; [apply pack_div | apply pack_mod]; auto. }
  split. { apply pack_inj. }
  split. { intros. split; [apply add_reader | apply sub_reader]; auto. }
  split. { intros. split; [apply add_writer | apply sub_writer]; auto. }
  split. { intros. split; [apply test_zero|]. split; [apply test_only_writer; auto|].
           split; [apply test_ge_writer | apply test_no_writer]; auto. }
  split. { intros. split; [apply wrap_add | apply wrap_sub]. }
  intros. split; [apply test_neg_r; auto|]. split; [apply test_one; auto | apply store_size; auto].
Qed.
