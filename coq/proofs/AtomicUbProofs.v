(* C19 — the FIBER backend under the strict reading of C++ (signed overflow of plain arithmetic is undefined):
   every operation is DEFINED and equals the std contract, without any guard.  This holds exactly when the fiber
   atomics do their arithmetic in the unsigned counterpart of T (std::atomic "has no undefined results"). *)
From Coq Require Import ZArith List Bool Lia.
Import ListNotations.
Open Scope Z_scope.
From YV Require Import model.AtomicCSem model.AtomicStd gen.Gen_fiber_atomic model.AtomicObs proofs.AtomicProofs.

(* fetch_add / fetch_sub / += / -= never overflow a plain signed T *)
Lemma fiber_int_add_sub_defined : agrees_for g_addsub (impl_q no_guard) any_sem KInt fiber_int.
Proof. agree_int. Qed.
(* ++ / -- never overflow a plain signed T *)
Lemma fiber_int_inc_dec_defined : agrees_for g_incdec (impl_q no_guard) any_sem KInt fiber_int.
Proof. agree_int. Qed.

Lemma fiber_int_agrees_strict : agrees0 any_sem KInt fiber_int.
Proof.
  apply agrees_groups; [agree_int | exact fiber_int_add_sub_defined | exact fiber_int_inc_dec_defined | agree_int | no_flag_ops].
Qed.

Lemma fiber_agrees0_strict k : agrees0 any_sem k (fiber_of k).
Proof.
  destruct k; cbn [fiber_of].
  - apply fiber_int_agrees_strict.
  - apply fiber_bool_agrees.
  - apply fiber_ptr_agrees.
  - apply fiber_flt_agrees.
  - apply fiber_flag_agrees.
Qed.

Lemma fiber_backend_agrees_strict k : agrees any_sem k (impl_of BFiber k).
Proof. apply wrapped_agrees, fiber_agrees0_strict. Qed.

Lemma fiber_operations_no_ub k : op_agrees (fun _ => True) no_guard k (impl_of BFiber k).
Proof. apply op_agrees_of. exact (fiber_backend_agrees_strict k). Qed.

Lemma fiber_sequences_no_ub k S T cs v0 :
  ty_of k T = true -> ok T v0 = true -> Forall (call_ok k T) cs ->
  run_backend BFiber k S T cs v0 = run_backend BStd k S T cs v0.
Proof.
  intros. unfold run_backend.
  etransitivity; [apply (run_agrees any_sem k _ (fence_of BFiber) (fiber_backend_agrees_strict k) fiber_fences S T cs v0); auto|].
  - exact Logic.I.
  - reflexivity.
Qed.
