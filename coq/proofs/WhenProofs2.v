(* Layer 2 of the When invariants: release accounting, and what the destructor / AllTuple gathered. *)
From Coq Require Import List Arith Bool NArith Lia.
Import ListNotations.
From YV Require Import model.When proofs.WhenProofs.

Definition post_free (p : pc) : bool := match p with PIdle | PCons => false | _ => true end.

(* what slot j of AllTuple::_tuple holds *)
Definition slot_val (g : strat) (x : inp) : option res :=
  match g with
  | STupNone => if post_free (ipc x) then ires x else None
  | STupFF => if post_free (ipc x) && ovalue (ires x) then ires x else None
  | _ => None
  end.

Record loc2 (g : strat) (dp : nat) (sl : list (option res)) (j : nat) (x : inp) : Prop := {
  l2_free : ifree x = if owned g then (if j <? dp then 1 else 0) else (if post_free (ipc x) then 1 else 0);
  l2_slot : nth_error sl j = Some (slot_val g x)
}.

Definition L2 (s : st) := loc2 (sg s) (dprog s) (slots s).

Definition collecting (s : st) : bool := match sg s with SAllNone => true | _ => pvalid s end.

Record I2 (s : st) : Prop := {
  i2_loc : forall j x, nth_error (ins s) j = Some x -> L2 s j x;
  i2_slen : length (slots s) = n s;
  i2_acc : acc s = map ires (firstn (length (acc s)) (ins s));
  i2_acc_len : owned (sg s) = true -> collecting s = true -> length (acc s) = dprog s;
  i2_acc_some : forall o, In o (acc s) -> o <> None;
  i2_dp : dprog s <= n s
}.

Lemma nth_repeat_some {A} (a : A) k j : j < k -> nth_error (repeat a k) j = Some a.
Proof. revert j; induction k; intros [|j] H; simpl; try lia; auto. apply IHk. lia. Qed.

Lemma I2_init g k : I2 (init g k).
Proof.
  constructor; simpl.
  - intros j x H. pose proof (nth_lt _ _ _ H) as Hl. rewrite repeat_length in Hl.
    apply nth_repeat in H. subst. constructor; simpl.
    + destruct (owned g); reflexivity.
    + assert (E : slot_val g {| ires := None; iw := WE; ipc := PIdle; ifree := 0; icons := 0 |} = None)
        by (destruct g; reflexivity).
      rewrite E. apply nth_repeat_some; auto.
  - apply repeat_length.
  - reflexivity.
  - reflexivity.
  - contradiction.
  - lia.
Qed.

Lemma I2_ext s s' :
  sg s' = sg s -> n s' = n s -> ins s' = ins s -> dprog s' = dprog s -> slots s' = slots s ->
  acc s' = acc s -> (owned (sg s) = true -> collecting s' = true -> collecting s = true) -> I2 s -> I2 s'.
Proof.
  intros E1 E2 E3 E4 E5 E6 E7 [Il Is Ia Ial Ias Id].
  constructor; unfold L2 in *; rewrite ?E1, ?E2, ?E3, ?E4, ?E5, ?E6; auto.
Qed.

Lemma acc_nth (l : list inp) m i x :
  nth_error l i = Some x -> i < length (map ires (firstn m l)) -> nth_error (map ires (firstn m l)) i = Some (ires x).
Proof.
  revert m i; induction l as [|y l IH]; intros [|m] [|i] Hx Hi; simpl in *; try discriminate; try lia.
  - congruence.
  - apply IH; auto. lia.
Qed.

Lemma map_ires_firstn_upd m i x' (l : list inp) x :
  nth_error l i = Some x -> ires x' = ires x ->
  map ires (firstn m (upd i (fun _ => x') l)) = map ires (firstn m l).
Proof.
  revert m i; induction l as [|y l IH]; intros [|m] [|i] Hx He; simpl in *; try discriminate; auto.
  - inv Hx. congruence.
  - f_equal. eapply IH; eauto.
Qed.

Lemma I2_set_in_same s i x x' :
  I2 s -> nth_error (ins s) i = Some x ->
  ires x' = ires x -> ifree x' = ifree x -> slot_val (sg s) x' = slot_val (sg s) x ->
  (owned (sg s) = false -> post_free (ipc x') = post_free (ipc x)) ->
  I2 (set_in i x' s).
Proof.
  intros [Il Is Ia Ial Ias Id] Hx E1 E2 E3 E4. constructor; simpl; auto.
  - intros j y Hj. rewrite nth_upd in Hj. destruct (Nat.eqb_spec j i) as [->|Hne].
    + rewrite Hx in Hj. simpl in Hj. inv Hj. destruct (Il i x Hx) as [F S]. constructor; simpl.
      * rewrite E2, F. destruct (owned (sg s)) eqn:Eo; auto. rewrite (E4 eq_refl). reflexivity.
      * rewrite E3. exact S.
    + exact (Il j y Hj).
  - rewrite (map_ires_firstn_upd _ _ _ _ _ Hx E1). exact Ia.
Qed.

Lemma I2_complete s i r s' : I1 s -> I2 s -> step s (EComplete i r) = Some s' -> I2 s'.
Proof.
  intros I [Il Is Ia Ial Ias Id] H. start H i x Hx. case_step H; inv H.
  all: assert (Hp : ipc x = PIdle) by (eapply loc1_idle_w; [apply (i_loc _ I _ _ Hx)|congruence]).
  all: assert (Hge : length (acc s) <= i)
    by (destruct (Nat.le_gt_cases (length (acc s)) i) as [|Hlt]; auto; exfalso;
        rewrite Ia in Hlt; pose proof (acc_nth _ _ _ _ Hx Hlt) as Hn; rewrite <- Ia in Hn;
        apply nth_error_In in Hn; apply (Ias _ Hn); assumption).
  all: constructor; simpl; auto.
  all: try (rewrite firstn_upd_ge by assumption; exact Ia).
  all: intros j y Hj; rewrite nth_upd in Hj; destruct (Nat.eqb_spec j i) as [->|Hne];
       [rewrite Hx in Hj; simpl in Hj; inv Hj; destruct (Il i x Hx) as [F S]; constructor; simpl;
        [exact F| rewrite S; f_equal; unfold slot_val; simpl; rewrite Hp; destruct (sg s); reflexivity]
       |exact (Il j y Hj)].
Qed.

Lemma slot_val_idle g x : ipc x = PIdle -> slot_val g x = None.
Proof. intros H. unfold slot_val. rewrite H. destruct g; reflexivity. Qed.

Lemma I2_begin s i x x0 :
  I2 s -> nth_error (ins s) i = Some x -> ipc x = PIdle ->
  ires x0 = ires x -> ifree x0 = ifree x -> ipc x0 = PIdle -> I2 (begin i x0 s).
Proof.
  intros I Hx Hp E1 E2 E3. unfold begin. apply I2_set_in_same with x; auto.
  - rewrite (slot_val_idle _ x Hp). unfold slot_val. simpl.
    destruct (sg s); simpl; auto.
  - intros E. rewrite E. simpl. rewrite Hp. reflexivity.
Qed.

Lemma I2_with_iw s i x w0 : I2 s -> nth_error (ins s) i = Some x -> I2 (set_in i (with_iw w0 x) s).
Proof. intros I Hx. apply I2_set_in_same with x; auto. Qed.

Lemma I2_xchg s i old s' : I1 s -> I2 s -> step s (EXchg i old) = Some s' -> I2 s'.
Proof.
  intros I J H. start H i x Hx.
  destruct (word_eqb old (iw x)) eqn:E; [apply word_eqb_eq in E; subst old|discriminate].
  case_step H; inv H.
  all: assert (Hp : ipc x = PIdle) by (eapply loc1_idle_w; [apply (i_loc _ I _ _ Hx)|congruence]).
  - apply I2_with_iw; auto.
  - apply I2_begin with x; auto.
Qed.

Lemma I2_reg s i ok s' : I1 s -> I2 s -> step s (EReg i ok) = Some s' -> I2 s'.
Proof.
  intros I J H. simpl in H. destruct (Nat.eqb_spec i (nreg s)) as [->|]; [|discriminate].
  destruct (nth_error (ins s) (nreg s)) as [x|] eqn:Hx; [|discriminate].
  case_step H; inv H.
  all: assert (Hp : ipc x = PIdle) by (eapply loc1_idle_reg; [apply (i_loc _ I _ _ Hx)|lia]).
  - apply I2_ext with (set_in (nreg s) (with_iw WC x) s); try reflexivity; auto. apply I2_with_iw; auto.
  - apply I2_ext with (begin (nreg s) x s); try reflexivity; auto. apply I2_begin with x; auto.
Qed.

Lemma strat_entry_post_free g r : post_free (strat_entry g r) = true.
Proof. destruct (strat_entry_cases g r) as [H|(H & _)]; rewrite H; reflexivity. Qed.

Lemma I2_free s i s' : I1 s -> I2 s -> step s (EFree i) = Some s' -> I2 s'.
Proof.
  intros I [Il Is Ia Ial Ias Id] H. start H i x Hx. case_step H; inv H.
  destruct (Il i x Hx) as [F Sl]. rewrite Heqb, Heqp in F. simpl in F.
  assert (Hrd : rd x = ires x) by (unfold rd; rewrite F; reflexivity).
  rewrite Hrd.
  set (x' := with_ifree (S (ifree x)) (with_ipc (strat_entry (sg s) (ires x)) x)).
  assert (Hsv : slot_val (sg s) x = None) by (unfold slot_val; rewrite Heqp; destruct (sg s); reflexivity).
  pose proof (strat_entry_post_free (sg s) (ires x)) as Hpf.
  assert (Hloc : forall sl, nth_error sl i = Some (slot_val (sg s) x') -> length sl = n s ->
                 (forall j, j <> i -> nth_error sl j = nth_error (slots s) j) ->
                 I2 (set_slots sl (set_in i x' s))).
  { intros sl Hi Hl Ho. constructor; simpl; auto.
    - intros j y Hj. rewrite nth_upd in Hj. destruct (Nat.eqb_spec j i) as [->|Hne].
      + rewrite Hx in Hj. simpl in Hj. inv Hj. constructor; simpl; auto.
        rewrite Heqb, Hpf, F. reflexivity.
      + destruct (Il j y Hj) as [F' Sl']. constructor; auto. rewrite Ho; auto.
    - rewrite (map_ires_firstn_upd _ _ _ _ _ Hx); auto.
    - intros Ho'. rewrite Heqb in Ho'. discriminate. }
  unfold store_slot. simpl.
  destruct (sg s) eqn:Esg; simpl in *; try discriminate.
  all: try (apply I2_ext with (set_slots (slots s) (set_in i x' s)); try reflexivity; auto;
            apply Hloc; auto; rewrite Sl, Hsv; f_equal; unfold slot_val, x'; simpl; reflexivity).
  - (* AllTuple<None> *)
    apply Hloc.
    + rewrite nth_upd, Nat.eqb_refl, Sl. simpl. unfold slot_val, x'. simpl. rewrite ?Hpf. reflexivity.
    + rewrite upd_length; auto.
    + intros j Hne. apply nth_upd_neq; auto.
  - (* AllTuple<FirstFail> *)
    destruct (ovalue (ires x)) eqn:Ev.
    + apply Hloc.
      * rewrite nth_upd, Nat.eqb_refl, Sl. simpl. unfold slot_val, x'. simpl. rewrite ?Hpf, ?Ev. reflexivity.
      * rewrite upd_length; auto.
      * intros j Hne. apply nth_upd_neq; auto.
    + apply I2_ext with (set_slots (slots s) (set_in i x' s)); try reflexivity; auto.
      apply Hloc; auto. rewrite Sl, Hsv. f_equal. unfold slot_val, x'. simpl. rewrite ?Ev, ?andb_false_r. reflexivity.
Qed.

Lemma I2_goto s i x p :
  I2 s -> nth_error (ins s) i = Some x -> post_free (ipc x) = true -> post_free p = true -> I2 (goto i p x s).
Proof.
  intros J Hx H1 H2. unfold goto. apply I2_set_in_same with x; auto.
  - unfold slot_val. simpl. rewrite H1, H2. reflexivity.
  - intros _. simpl. congruence.
Qed.

Lemma collecting_mono s s' :
  sg s' = sg s -> (pvalid s' = true -> pvalid s = true) -> collecting s' = true -> collecting s = true.
Proof. unfold collecting. intros -> H. destruct (sg s); auto. Qed.

Lemma I2_mid_steps s e s' :
  I1 s -> I2 s -> step s e = Some s' ->
  match e with
  | ELdDone _ _ | EXchgDone _ _ | ELdState _ _ | EXchgState _ _ | ECasState _ _ | ESubState _ _ | ESetOut _
  | EDec _ _ | EPublish _ => True
  | _ => False
  end -> I2 s'.
Proof.
  intros I J H He. destruct e; try contradiction; clear He.
  all: start H i x Hx; case_step H; inv H.
  all: unfold elected, logged, goto, finish_if_fin.
  all: try (unfold dtor_entry; destruct (sg s) eqn:Esg; simpl; try destruct (pvalid s) eqn:Epv; simpl).
  all: match goal with Hx : nth_error (ins ?s0) ?i = Some ?x |- I2 ?t =>
         match t with context [with_ipc ?p x] =>
           apply I2_ext with (goto i p x s0);
           [reflexivity..| intros _; apply collecting_mono; [reflexivity|simpl; congruence]
           | apply I2_goto; [exact J|exact Hx|rewrite ?Heqp; reflexivity|reflexivity] ] end end.
Qed.

Lemma all_ended s : I1 s -> count s = 0 -> forall j y, nth_error (ins s) j = Some y -> ended (ipc y) = true.
Proof.
  intros I Hc j y Hy. pose proof (i_count _ I) as H. rewrite Hc in H. simpl in H.
  rewrite <- (i_len _ I) in H. exact (cnt_all xended (ins s) H j y Hy).
Qed.

Lemma ended_has_result s j y : I1 s -> nth_error (ins s) j = Some y -> ended (ipc y) = true -> ires y <> None.
Proof.
  intros I Hy He. destruct (l_begun _ _ _ _ _ _ _ _ (i_loc _ I _ _ Hy)) as (_ & _ & H); auto.
  intros E. rewrite E in He. discriminate.
Qed.

Lemma I2_dfree s i k s' : I1 s -> I2 s -> step s (EDFree i k) = Some s' -> I2 s'.
Proof.
  intros I J H. unfold step in H. destruct (nth_error (ins s) i) as [x|] eqn:Hx; [|discriminate].
  destruct (ipc x) as [| | | | | |k'| |] eqn:Hp; try discriminate.
  destruct (Nat.eqb_spec k k') as [Ek|]; [subst k'|discriminate].
  destruct (nth_error (ins s) k) as [y|] eqn:Hy; [|discriminate].
  destruct (l_pdk _ _ _ _ _ _ _ _ (i_loc _ I _ _ Hx) _ Hp) as (Hown & Hk & Hdp).
  assert (Hdt : dt s = Some i) by (apply (l_pdtor _ _ _ _ _ _ _ _ (i_loc _ I _ _ Hx)); rewrite Hp; reflexivity).
  destruct (i_dt_some _ I _ Hdt) as (Hc0 & _).
  assert (Hry : ires y <> None) by (eapply ended_has_result; eauto; eapply all_ended; eauto).
  destruct J as [Il Is Ia Ial Ias Id].
  destruct (Il k y Hy) as [Fy _]. rewrite Hown, Hdp, Nat.ltb_irrefl in Fy.
  assert (Hrd : rd y = ires y) by (unfold rd; rewrite Fy; reflexivity).
  fold (collecting s) in H. rewrite Hrd in H.
  set (y' := with_ifree (S (ifree y)) y) in *.
  set (s1 := set_dprog (S k) (set_in k y' s)) in *.
  (* the part that does not depend on which thread runs the destructor *)
  assert (J2 : I2 (if collecting s then set_acc (acc s ++ [ires y]) s1 else s1)).
  { assert (Hloc : forall j z, nth_error (upd k (fun _ => y') (ins s)) j = Some z ->
                               loc2 (sg s) (S k) (slots s) j z).
    { intros j z Hj. rewrite nth_upd in Hj. destruct (Nat.eqb_spec j k) as [->|Hne].
      - rewrite Hy in Hj. simpl in Hj. injection Hj as Hz. subst z. destruct (Il k y Hy) as [_ Sl]. constructor; simpl.
        + rewrite Hown, Fy. assert (E : k <? S k = true) by (apply Nat.ltb_lt; lia). rewrite E. reflexivity.
        + exact Sl.
      - destruct (Il j z Hj) as [F Sl]. constructor; auto. rewrite F, Hown, Hdp.
        destruct (Nat.ltb_spec j k), (Nat.ltb_spec j (S k)); auto; lia. }
    assert (Hmap : forall m, map ires (firstn m (upd k (fun _ => y') (ins s))) = map ires (firstn m (ins s)))
      by (intros m; apply map_ires_firstn_upd with y; auto).
    destruct (collecting s) eqn:Ecol.
    - specialize (Ial Hown eq_refl).
      constructor; simpl; auto.
      + rewrite app_length. simpl. rewrite Hmap, Ial, Hdp, Nat.add_1_r.
        rewrite (firstn_snoc _ _ _ Hy), map_app. simpl. f_equal.
        rewrite Ia at 1. rewrite Ial, Hdp. reflexivity.
      + intros _ _. rewrite app_length. simpl. lia.
      + intros o Ho. apply in_app_or in Ho. destruct Ho as [Ho|[<-|[]]]; auto.
    - constructor; simpl; auto.
      + rewrite Hmap. exact Ia.
      + intros _ Hc. unfold collecting in *. simpl in Hc. congruence. }
  cbv zeta in H.
  match type of H with match ?t with _ => _ end = _ => destruct t as [x'|] eqn:Hx' end; [|discriminate].
  injection H as Hs'. subst s'.
  set (s2 := if collecting s then set_acc (acc s ++ [ires y]) s1 else s1) in *.
  assert (Hx2 : nth_error (ins s2) i = Some x') by exact Hx'.
  assert (Hp' : ipc x' = PDtor k).
  { unfold s2, s1 in Hx2. destruct (collecting s); simpl in Hx2; rewrite nth_upd in Hx2;
      destruct (Nat.eqb_spec i k) as [->|];
      try (rewrite Hy in Hx2; simpl in Hx2; injection Hx2 as Hz; subst x'; simpl; congruence); congruence. }
  match goal with |- I2 (finish_if_fin ?p0 _) => set (p := p0) end.
  assert (Hpf : post_free p = true).
  { subst p. repeat match goal with |- context [if ?b then _ else _] => destruct b end; reflexivity. }
  clearbody p.
  apply I2_ext with (goto i p x' s2).
  1-6: unfold finish_if_fin; destruct p; reflexivity.
  { intros _. unfold finish_if_fin. destruct p; simpl; auto. }
  apply I2_goto; auto.
  rewrite Hp'. reflexivity.
Qed.

Theorem I2_step s e s' : I1 s -> I2 s -> step s e = Some s' -> I2 s'.
Proof.
  intros I J H. destruct e.
  - eapply I2_complete; eauto.
  - eapply I2_xchg; eauto.
  - eapply I2_reg; eauto.
  - eapply I2_free; eauto.
  - eapply I2_mid_steps; eauto; exact Logic.I.
  - eapply I2_mid_steps; eauto; exact Logic.I.
  - eapply I2_mid_steps; eauto; exact Logic.I.
  - eapply I2_mid_steps; eauto; exact Logic.I.
  - eapply I2_mid_steps; eauto; exact Logic.I.
  - eapply I2_mid_steps; eauto; exact Logic.I.
  - eapply I2_mid_steps; eauto; exact Logic.I.
  - eapply I2_mid_steps; eauto; exact Logic.I.
  - eapply I2_dfree; eauto.
  - eapply I2_mid_steps; eauto; exact Logic.I.
Qed.
